#!/usr/bin/env python3
"""merge an agent working copy (/work/<a>/verif) into /verif: new files are copied, imports/runners appended."""
import os, shutil, subprocess, sys
a = sys.argv[1]
src = f"/work/{a}/verif"
dst = "/verif"
BASE = "0107126"
skip_dirs = {".lake", "__pycache__", "evidence", "replays", ".git"}
new = []
for root, dirs, files in os.walk(src):
    dirs[:] = [d for d in dirs if d not in skip_dirs]
    for f in files:
        if f.endswith(".pyc") or f in ("MANIFEST.json", ".buildlock"):
            continue
        sp = os.path.join(root, f)
        rel = os.path.relpath(sp, src)
        dp = os.path.join(dst, rel)
        if not os.path.exists(dp):
            os.makedirs(os.path.dirname(dp), exist_ok=True)
            shutil.copy2(sp, dp)
            new.append(rel)
print("copied", len(new), "new files")
for rel in new: print("  ", rel)
def base(rel):
    try:
        return subprocess.run(["git", "-C", dst, "show", f"{BASE}:{rel}"], capture_output=True, text=True, check=True).stdout.splitlines()
    except subprocess.CalledProcessError:
        return []
for rel in ("lean/EasyNet/EasyNet.lean", "lean/EasyNet/Driver/Main.lean"):
    b = set(base(rel))
    added = [l for l in open(os.path.join(src, rel)).read().splitlines() if l not in b and l.strip()]
    cur = open(os.path.join(dst, rel)).read()
    curlines = set(cur.splitlines())
    imports = [l for l in added if l.startswith("import ") and l not in curlines]
    runners = [l for l in added if l.strip().startswith(", run") and l not in curlines]
    if rel.endswith("EasyNet.lean"):
        cur = cur.rstrip("\n") + "\n" + "\n".join(imports) + "\n"
    else:
        lines = cur.splitlines()
        # imports after the last import line
        li = max(i for i, l in enumerate(lines) if l.startswith("import "))
        lines[li + 1:li + 1] = imports
        ri = max(i for i, l in enumerate(lines) if l.strip().startswith(("[ run", ", run")))
        lines[ri + 1:ri + 1] = runners
        cur = "\n".join(lines) + "\n"
    open(os.path.join(dst, rel), "w").write(cur)
    print(rel, "+", imports, runners)
