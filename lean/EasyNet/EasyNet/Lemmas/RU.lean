/-
  read_until (copying path): the stateful generator with its resumed search offset computes the same
  thing as a fresh scan of all accumulated bytes (`RU.spec`).
-/
import EasyNet.Model.Spec
import EasyNet.Lemmas.Find
namespace EasyNet

/-- `b` = all bytes fed since the generator was created -/
def RU.Inv (sep : Bytes) (limit : Nat) (s : RUState) (b : Bytes) : Prop :=
  (s.started = false ∧ s.buf = [] ∧ b = []) ∨
  (s.started = true ∧ s.buf = b ∧ s.offset ≤ limit ∧ (s.offset = 0 ∨ s.offset + sep.length ≤ b.length + 1) ∧
    ∀ j, j < s.offset → matchAt sep b j = false)

theorem RU.inv_init (sep : Bytes) (limit : Nat) : RU.Inv sep limit RU.init [] := by
  left; exact ⟨rfl, rfl, rfl⟩

theorem RU.loop_spec (sep : Bytes) (limit : Nat) (ke : Bool) (hsep : sep ≠ []) (buffer : Bytes) (offset : Nat)
    (hoff : offset ≤ limit) (hfull : offset = 0 ∨ offset + sep.length ≤ buffer.length + 1) (hno : ∀ j, j < offset → matchAt sep buffer j = false) :
    (RU.loop sep limit ke buffer offset).erase = RU.spec sep limit ke buffer ∧
    ∀ s', RU.loop sep limit ke buffer offset = .need s' → RU.Inv sep limit s' buffer := by
  have hpos : 0 < sep.length := List.length_pos_iff.mpr hsep
  unfold RU.loop RU.spec
  by_cases hlen : offset + sep.length ≤ buffer.length
  · simp only [hlen, if_true]
    have hres : findFrom sep buffer offset = firstOcc sep buffer := by
      unfold firstOcc findFrom; exact findIn_resume sep buffer offset _ hsep hno
    rw [hres]
    cases hf : firstOcc sep buffer with
    | some i =>
      simp only
      by_cases hi : i > limit
      · simp [hi, Res.erase]
      · simp [hi, Res.erase]
    | none =>
      simp only
      by_cases hl : buffer.length + 1 - sep.length > limit
      · simp [hl, Res.erase]
      · simp only [hl, if_false, Res.erase, true_and]
        intro s' hs'
        injection hs' with hs'
        subst hs'
        right
        refine ⟨rfl, rfl, by simp at hl ⊢; omega, by right; simp; omega, ?_⟩
        intro j hj
        simp at hj
        unfold firstOcc findFrom at hf
        exact findIn_none sep buffer 0 _ hsep hf j (by omega) (by omega)
  · simp only [hlen, if_false, Res.erase]
    have hnone : firstOcc sep buffer = none := by
      unfold firstOcc findFrom
      apply findIn_eq_none
      intro j _ hj
      by_cases hlt : j < offset
      · exact hno j hlt
      · omega
    rw [hnone]
    have : ¬ (buffer.length + 1 - sep.length > limit) := by omega
    simp only [this, if_false, true_and]
    intro s' hs'
    injection hs' with hs'
    subst hs'
    right
    exact ⟨rfl, rfl, hoff, hfull, hno⟩

/-- **Resumed search = fresh scan.** -/
theorem RU.feed_spec (sep : Bytes) (limit : Nat) (ke : Bool) (hsep : sep ≠ []) (s : RUState) (b c : Bytes)
    (h : RU.Inv sep limit s b) :
    (RU.feed sep limit ke s c).erase = RU.spec sep limit ke (b ++ c) ∧
    ∀ s', RU.feed sep limit ke s c = .need s' → RU.Inv sep limit s' (b ++ c) := by
  have hpos : 0 < sep.length := List.length_pos_iff.mpr hsep
  unfold RU.feed
  rcases h with ⟨hst, hbuf0, hb⟩ | ⟨hst, hbuf, hoff, hfull, hno⟩
  · subst hb
    simp only [hst, Bool.false_eq_true, if_false, List.nil_append]
    by_cases hc : c.isEmpty
    · simp only [hc, if_true]
      have : c = [] := by simpa using hc
      subst this
      refine ⟨?_, ?_⟩
      · have : firstOcc sep [] = none := by
          unfold firstOcc findFrom; apply findIn_eq_none; intro j _ hj; have : j + sep.length ≤ 0 := hj; omega
        simp [Res.erase, RU.spec, this]; omega
      · intro s' hs'; injection hs' with hs'; subst hs'; left; exact ⟨hst, hbuf0, rfl⟩
    · simp only [hc, Bool.false_eq_true, if_false]
      exact RU.loop_spec sep limit ke hsep c 0 (Nat.zero_le _) (Or.inl rfl) (fun j hj => by omega)
  · simp only [hst, if_true, hbuf]
    apply RU.loop_spec sep limit ke hsep (b ++ c) s.offset hoff
    · rcases hfull with h0 | h1
      · left; exact h0
      · right; simp; omega
    · intro j hj
      have hjl : j + sep.length ≤ b.length := by omega
      rw [matchAt_append _ _ _ _ hjl]; exact hno j hj

theorem RU.inv_buf (sep : Bytes) (limit : Nat) (s : RUState) (b : Bytes) (h : RU.Inv sep limit s b) : s.buf = b := by
  rcases h with ⟨_, h1, h2⟩ | ⟨_, h1, _⟩
  · rw [h1, h2]
  · exact h1

end EasyNet
