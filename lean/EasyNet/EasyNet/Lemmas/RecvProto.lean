/-
  C10 — invariant and conservation step lemma for the receive-protocol model (EasyNet/Model/RecvProto.lean).
-/
import EasyNet.Model.RecvProto
namespace EasyNet.C10.RP
set_option linter.unusedSimpArgs false

/-- bytes that sit in the caller's buffer with their count held by the (completed, not yet consumed) read waiter -/
def inflight (s : St) : Bytes :=
  match s.pc, s.waiter with
  | .atWaiter _, some (.result (some n)) => s.extData.take n
  | _, _ => []

def Ev.isLost : Ev → Bool
  | .lost _ => true
  | _ => false

/-- consistency of protocol fields with the position of the reader task (runs without connection loss) -/
def Inv (s : St) : Prop :=
  s.lost = false ∧ s.lostExc = none ∧
  match s.pc with
  | .idle => s.waiter = none ∧ s.ext = none
  | .created _ => s.waiter = none ∧ s.ext = none
  | .atYield _ => s.waiter = some (.result none) ∧ s.ext = none
  | .atWaiter _ =>
      s.waiter ≠ none ∧
      (s.waiter = some .pending → s.buf = []) ∧
      (∀ cap, s.ext = some cap → (s.waiter = some .pending ∨ s.waiter = some .cancelled)) ∧
      (∀ n, s.waiter = some (.result (some n)) → s.ext = none ∧ n = s.extData.length)

theorem inv_init (c : Cfg) : Inv (St.init c) := by simp [Inv, St.init]

/-! ### field lemmas for the helpers that only touch `readPaused` -/

@[simp] theorem maybePause_buf (c s) : (maybePause c s).buf = s.buf := by unfold maybePause; split <;> rfl
@[simp] theorem maybePause_pc (c s) : (maybePause c s).pc = s.pc := by unfold maybePause; split <;> rfl
@[simp] theorem maybePause_waiter (c s) : (maybePause c s).waiter = s.waiter := by unfold maybePause; split <;> rfl
@[simp] theorem maybePause_ext (c s) : (maybePause c s).ext = s.ext := by unfold maybePause; split <;> rfl
@[simp] theorem maybePause_extData (c s) : (maybePause c s).extData = s.extData := by unfold maybePause; split <;> rfl
@[simp] theorem maybePause_lost (c s) : (maybePause c s).lost = s.lost := by unfold maybePause; split <;> rfl
@[simp] theorem maybePause_lostExc (c s) : (maybePause c s).lostExc = s.lostExc := by unfold maybePause; split <;> rfl
@[simp] theorem maybeResume_buf (c s) : (maybeResume c s).buf = s.buf := by unfold maybeResume; split <;> rfl
@[simp] theorem maybeResume_pc (c s) : (maybeResume c s).pc = s.pc := by unfold maybeResume; split <;> rfl
@[simp] theorem maybeResume_waiter (c s) : (maybeResume c s).waiter = s.waiter := by unfold maybeResume; split <;> rfl
@[simp] theorem maybeResume_ext (c s) : (maybeResume c s).ext = s.ext := by unfold maybeResume; split <;> rfl
@[simp] theorem maybeResume_extData (c s) : (maybeResume c s).extData = s.extData := by unfold maybeResume; split <;> rfl
@[simp] theorem maybeResume_lost (c s) : (maybeResume c s).lost = s.lost := by unfold maybeResume; split <;> rfl
@[simp] theorem maybeResume_lostExc (c s) : (maybeResume c s).lostExc = s.lostExc := by unfold maybeResume; split <;> rfl

@[simp] theorem inflight_maybePause (c s) : inflight (maybePause c s) = inflight s := by simp [inflight]
@[simp] theorem inflight_maybeResume (c s) : inflight (maybeResume c s) = inflight s := by simp [inflight]
@[simp] theorem inv_maybePause (c s) : Inv (maybePause c s) ↔ Inv s := by simp [Inv]
@[simp] theorem inv_maybeResume (c s) : Inv (maybeResume c s) ↔ Inv s := by simp [Inv]

@[simp] theorem wake_buf (s e) : (wake s e).buf = s.buf := by unfold wake; split <;> rfl
@[simp] theorem wake_pc (s e) : (wake s e).pc = s.pc := by unfold wake; split <;> rfl
@[simp] theorem wake_ext (s e) : (wake s e).ext = s.ext := by unfold wake; split <;> rfl
@[simp] theorem wake_extData (s e) : (wake s e).extData = s.extData := by unfold wake; split <;> rfl
@[simp] theorem wake_lost (s e) : (wake s e).lost = s.lost := by unfold wake; split <;> rfl
@[simp] theorem wake_lostExc (s e) : (wake s e).lostExc = s.lostExc := by unfold wake; split <;> rfl

/-! ### one step preserves the invariant and the byte account -/

/-- byte account of one step: what is returned, plus what is in flight / parked afterwards, equals what was in
    flight / parked before plus what the transport just handed over — in this order -/
def Cons (s : St) (o : Out) (s' : St) : Prop :=
  deliveredOf [o] ++ inflight s' ++ s'.buf = inflight s ++ s.buf ++ arrivedOf [o]

theorem start_ok (c : Cfg) (s : St) (r : Req) (hi : Inv s) :
    Inv (step c s (.start r)).1 ∧ Cons s (step c s (.start r)).2 (step c s (.start r)).1 := by
  unfold Inv at hi
  cases hpc : s.pc <;> simp_all [step, Inv, Cons, inflight, deliveredOf, arrivedOf]

theorem cancel_ok (c : Cfg) (s : St) (hi : Inv s) :
    Inv (step c s .cancel).1 ∧ Cons s (step c s .cancel).2 (step c s .cancel).1 := by
  unfold Inv at hi
  cases hpc : s.pc <;> simp_all [step, cancelStep, Inv, Cons, inflight, deliveredOf, arrivedOf]
  split <;> simp_all

theorem eof_ok (c : Cfg) (s : St) (hi : Inv s) :
    Inv (step c s .eof).1 ∧ Cons s (step c s .eof).2 (step c s .eof).1 := by
  unfold Inv at hi
  simp only [step, eofStep]
  split
  · simp_all [Inv, Cons, inflight, deliveredOf, arrivedOf]
  · cases hpc : s.pc <;> simp_all [Inv, Cons, inflight, deliveredOf, arrivedOf, wake]
    all_goals (split <;> simp_all)

theorem ioInternal_ok (c : Cfg) (s : St) (b : Bytes) (hi : Inv s) (hext : s.ext = none) :
    Inv (ioInternal c s b).1 ∧ Cons s (ioInternal c s b).2 (ioInternal c s b).1 := by
  unfold Inv at hi
  unfold ioInternal
  split
  · simp_all [Inv, Cons, inflight, deliveredOf, arrivedOf]
  · cases hpc : s.pc <;> simp_all [Inv, Cons, inflight, deliveredOf, arrivedOf, wake]
    all_goals (split <;> simp_all)

theorem inv_clear_ext (s : St) (hi : Inv s) : Inv { s with ext := none } := by
  unfold Inv at hi ⊢
  cases hpc : s.pc <;> simp_all

theorem inflight_clear_ext (s : St) : inflight { s with ext := none } = inflight s := by
  simp [inflight]

theorem ioExternal_ok (s : St) (cap : Nat) (b : Bytes) (hi : Inv s) (hext : s.ext = some cap)
    (hw : s.waiter = some .pending) :
    Inv (ioExternal s cap b).1 ∧ Cons s (ioExternal s cap b).2 (ioExternal s cap b).1 := by
  unfold Inv at hi
  unfold ioExternal
  split
  · simp_all [Inv, Cons, inflight, deliveredOf, arrivedOf]
  · cases hpc : s.pc <;> simp_all [Inv, Cons, inflight, deliveredOf, arrivedOf]
    refine ⟨by omega, List.take_of_length_le (by simp [List.length_take]; omega)⟩

/-- with the guard, `get_buffer` hands the caller's buffer out only while the waiter is pending -/
theorem io_ok (c : Cfg) (hg : c.guard = true) (s : St) (b : Bytes) (hi : Inv s) :
    Inv (step c s (.io b)).1 ∧ Cons s (step c s (.io b)).2 (step c s (.io b)).1 := by
  simp only [step, ioStep]
  split
  · simp_all [Cons, inflight, deliveredOf, arrivedOf]
  · cases hx : s.ext with
    | none => simpa using ioInternal_ok c s b hi hx
    | some cap =>
      simp only [hg, true_and]
      split
      · have := ioInternal_ok c { s with ext := none } b (inv_clear_ext s hi) rfl
        simpa [Cons, inflight_clear_ext] using this
      · rename_i hw
        simp at hw
        exact ioExternal_ok s cap b hi hx hw

theorem finish_ok (c : Cfg) (s : St) (r : Req) (hl : s.lost = false) (hle : s.lostExc = none) (hw : s.waiter = none) (hx : s.ext = none) :
    Inv (finishFromBuffer c s r).1 ∧ Cons s (finishFromBuffer c s r).2 (finishFromBuffer c s r).1 := by
  cases r <;> simp_all [finishFromBuffer, Inv, Cons, inflight, deliveredOf, arrivedOf]

theorem afterWait_ok (c : Cfg) (s : St) (r : Req) (hl : s.lost = false) (hle : s.lostExc = none) (hw : s.waiter = none) (hx : s.ext = none) :
    Inv (afterWait c s r).1 ∧ Cons s (afterWait c s r).2 (afterWait c s r).1 := by
  unfold afterWait
  split
  · simp_all [Inv, Cons, inflight, deliveredOf, arrivedOf]
  · exact finish_ok c s r hl hle hw hx

theorem runHead_ok (c : Cfg) (s : St) (r : Req) (hl : s.lost = false) (hle : s.lostExc = none) (hw : s.waiter = none) (hx : s.ext = none)
    (hpc : s.pc = .created r) :
    Inv (runHead c s r).1 ∧ Cons s (runHead c s r).2 (runHead c s r).1 := by
  unfold runHead
  repeat' split
  all_goals simp_all [Inv, Cons, inflight, deliveredOf, arrivedOf]

/-- with the salvage, a cancelled wake-up puts a count already delivered back in front of the internal buffer -/
theorem cancelledWake_ok (c : Cfg) (hs : c.salvage = true) (s : St) (r : Req) (hi : Inv s) (hpc : s.pc = .atWaiter r) :
    Inv (cancelledWake c s).1 ∧ Cons s (cancelledWake c s).2 (cancelledWake c s).1 := by
  unfold Inv at hi
  unfold cancelledWake salvaged
  simp only [hs, if_true]
  cases hw : s.waiter with
  | none => simp_all [Inv, Cons, inflight, deliveredOf, arrivedOf]
  | some f =>
    cases f with
    | result v =>
      cases v with
      | none => simp_all [Inv, Cons, inflight, deliveredOf, arrivedOf]
      | some n =>
        unfold salvageData
        simp_all [Inv, Cons, inflight, deliveredOf, arrivedOf]
        split <;> simp_all
    | _ => simp_all [Inv, Cons, inflight, deliveredOf, arrivedOf]

theorem wakeWaiter_ok (c : Cfg) (hs : c.salvage = true) (s : St) (r : Req) (hi : Inv s) (hpc : s.pc = .atWaiter r) :
    Inv (wakeWaiter c s r).1 ∧ Cons s (wakeWaiter c s r).2 (wakeWaiter c s r).1 := by
  have hi' := hi
  unfold Inv at hi
  unfold wakeWaiter
  split
  · simp_all [Cons, inflight, deliveredOf, arrivedOf]
  · simp_all [Cons, inflight, deliveredOf, arrivedOf]
  · exact cancelledWake_ok c hs s r hi' hpc
  · split
    · exact cancelledWake_ok c hs s r hi' hpc
    · split
      · simp_all [Inv, Cons, inflight, deliveredOf, arrivedOf]
      · have := afterWait_ok c { s with ext := none, waiter := none } r (by simp_all) (by simp_all) rfl rfl
        simp_all [Cons, inflight]
  · split
    · exact cancelledWake_ok c hs s r hi' hpc
    · simp_all [Inv, Cons, inflight, deliveredOf, arrivedOf]

theorem turn_ok (c : Cfg) (hs : c.salvage = true) (s : St) (hi : Inv s) :
    Inv (step c s .turn).1 ∧ Cons s (step c s .turn).2 (step c s .turn).1 := by
  have hi' := hi
  unfold Inv at hi
  simp only [step, turnStep]
  split
  · simp_all [Cons, inflight, deliveredOf, arrivedOf]
  · split
    · simp_all [Inv, Cons, inflight, deliveredOf, arrivedOf]
    · rename_i r hpc _
      exact runHead_ok c s r (by simp_all) (by simp_all) (by simp_all) (by simp_all) hpc
  · split
    · simp_all [Inv, Cons, inflight, deliveredOf, arrivedOf]
    · rename_i r hpc _
      have := afterWait_ok c { s with waiter := none } r (by simp_all) (by simp_all) rfl (by simp_all)
      simp_all [Cons, inflight]
  · rename_i r hpc
    exact wakeWaiter_ok c hs s r hi' hpc

/-- every event other than connection loss preserves the invariant and the byte account -/
theorem step_ok (c : Cfg) (hg : c.guard = true) (hs : c.salvage = true) (s : St) (ev : Ev)
    (hnl : ev.isLost = false) (hi : Inv s) :
    Inv (step c s ev).1 ∧ Cons s (step c s ev).2 (step c s ev).1 := by
  cases ev with
  | start r => exact start_ok c s r hi
  | io b => exact io_ok c hg s b hi
  | eof => exact eof_ok c s hi
  | lost e => simp [Ev.isLost] at hnl
  | cancel => exact cancel_ok c s hi
  | turn => exact turn_ok c hs s hi

theorem arrivedOf_cons (o : Out) (os : List Out) : arrivedOf (o :: os) = arrivedOf [o] ++ arrivedOf os := by
  cases o <;> simp [arrivedOf]

theorem deliveredOf_cons (o : Out) (os : List Out) : deliveredOf (o :: os) = deliveredOf [o] ++ deliveredOf os := by
  cases o <;> simp [deliveredOf]

/-- the account over a whole run, from any state satisfying the invariant -/
theorem run_ok (c : Cfg) (hg : c.guard = true) (hs : c.salvage = true) (evs : List Ev) :
    ∀ s, (∀ e ∈ evs, e.isLost = false) → Inv s →
      Inv (run c s evs).1 ∧
      deliveredOf (run c s evs).2 ++ inflight (run c s evs).1 ++ (run c s evs).1.buf
        = inflight s ++ s.buf ++ arrivedOf (run c s evs).2 := by
  induction evs with
  | nil => intro s _ hi; simp [run, deliveredOf, arrivedOf, hi]
  | cons e es ih =>
    intro s hnl hi
    have h1 := step_ok c hg hs s e (hnl e (by simp)) hi
    have h2 := ih (step c s e).1 (fun x hx => hnl x (by simp [hx])) h1.1
    refine ⟨by simpa [run] using h2.1, ?_⟩
    simp only [run]
    rw [deliveredOf_cons, arrivedOf_cons]
    have hc := h1.2
    unfold Cons at hc
    calc deliveredOf [(step c s e).2] ++ deliveredOf (run c (step c s e).1 es).2
            ++ inflight (run c (step c s e).1 es).1 ++ (run c (step c s e).1 es).1.buf
        = deliveredOf [(step c s e).2] ++ (deliveredOf (run c (step c s e).1 es).2
            ++ inflight (run c (step c s e).1 es).1 ++ (run c (step c s e).1 es).1.buf) := by
          simp [List.append_assoc]
      _ = deliveredOf [(step c s e).2] ++ (inflight (step c s e).1 ++ (step c s e).1.buf
            ++ arrivedOf (run c (step c s e).1 es).2) := by rw [h2.2]
      _ = (deliveredOf [(step c s e).2] ++ inflight (step c s e).1 ++ (step c s e).1.buf)
            ++ arrivedOf (run c (step c s e).1 es).2 := by simp [List.append_assoc]
      _ = inflight s ++ s.buf ++ (arrivedOf [(step c s e).2] ++ arrivedOf (run c (step c s e).1 es).2) := by
          rw [hc]; simp [List.append_assoc]

/-! ### a turn ends the task or leaves it parked -/

theorem finish_pc (c s r) : (finishFromBuffer c s r).1.pc = .idle := by
  cases r <;> simp [finishFromBuffer]

theorem afterWait_pc (c s r) : (afterWait c s r).1.pc = .idle := by
  unfold afterWait; split
  · rfl
  · exact finish_pc c s r

theorem runHead_pc (c s r) : (runHead c s r).2 = .parked ∨ (runHead c s r).1.pc = .idle := by
  unfold runHead
  repeat' split
  all_goals simp

theorem cancelledWake_pc (c s) : (cancelledWake c s).1.pc = .idle := by simp [cancelledWake]

theorem wakeWaiter_pc (c s r) : (wakeWaiter c s r).2 = .parked ∨ (wakeWaiter c s r).1.pc = .idle := by
  unfold wakeWaiter
  repeat' split
  all_goals simp [cancelledWake_pc, afterWait_pc]

/-- a loop turn either leaves the task parked or ends it -/
theorem turn_pc (c s) : (step c s .turn).2 = .parked ∨ (step c s .turn).1.pc = .idle := by
  simp only [step, turnStep]
  split
  · simp_all
  · split
    · simp
    · exact runHead_pc c s _
  · split
    · simp
    · exact Or.inr (afterWait_pc c _ _)
  · exact wakeWaiter_pc c s _

end EasyNet.C10.RP
