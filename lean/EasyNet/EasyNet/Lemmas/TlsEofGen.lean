/-
  C09 — lemmas over the GENERATED tables (Gen/TlsEofTables.lean): finite case analyses over the exception alphabet lifted to
  all scripts by the generic lemmas of Lemmas/TlsEof.lean.  When the Python source changes, the tables change and these are
  re-checked by `lake build`.
-/
import EasyNet.Gen.TlsEofTables
import EasyNet.Lemmas.TlsEof
namespace EasyNet.TlsEof
open EasyNet.Gen.TlsEof

/-! ### table facts -/

/-- in standard-compatible mode the only exceptions `recv` / `recv_into` turn into an end-of-stream are the
    `SSLZeroReturnError` family (which are SSL errors) -/
theorem recvMap_eof_clean (e : TExc) (p : Bool) (w : Which) :
    (recvMap tables true w (.exn (.cls e p))).isEof = true →
    tables.sub e tables.zeroReturn = true ∧ tables.sub e tables.sslError = true := by
  cases e <;> cases p <;> cases w <;> decide

theorem recvMap_ret (sc : Bool) (w : Which) (n : Nat) : (recvMap tables sc w (.ret n)).isEof = true → n = 0 := by
  cases n with
  | zero => intro; rfl
  | succ k => simp [recvMap, Out.isEof]

theorem recvMap_other (sc : Bool) (w : Which) (x : Exn TExc) (h : ∀ e p, x ≠ .cls e p) :
    (recvMap tables sc w (.exn x)).isEof = false := by
  cases x with
  | cls e p => exact absurd rfl (h e p)
  | cancel => rfl
  | scopeTimeout => rfl

/-- one receive call under `lawClean` -/
theorem recv_clean (need : Nat) (w : Which) (s : St) (script : List (Resp TExc)) (o : Out TExc) (s' : St)
    (rest : List (Resp TExc)) (calls : List Call)
    (h : recv tables true w s script = some (o, s', rest, calls)) (hl : lawClean tables need s.fed script = true) :
    (o.isEof = true → need ≤ s'.fed) ∧ lawClean tables need s'.fed rest = true ∧
    s'.fed + totalFed rest = s.fed + totalFed script ∧ s.fed ≤ s'.fed := by
  unfold recv at h
  split at h
  · simp at h
  · rename_i r s2 rest2 calls2 hr
    simp only [Option.some.injEq, Prod.mk.injEq] at h
    obtain ⟨ho, hs, hrest, _⟩ := h
    subst ho; subst hs; subst hrest
    have C := retry_clean tables .read need _ s script r s2 rest2 calls2 hr hl
    have F := retry_fed tables .read _ s script r s2 rest2 calls2 hr
    refine ⟨?_, C.2.1, F, C.1⟩
    intro he
    cases r with
    | ret n =>
      have := recvMap_ret true w n he
      exact C.2.2.2.1 this
    | exn x =>
      cases x with
      | cls e p =>
        have hc := recvMap_eof_clean e p w he
        cases C.2.2.2.1 with
        | inl h1 => exact h1 hc.1
        | inr h1 => rw [hc.2] at h1; exact absurd h1 (by decide)
      | cancel => simp [recvMap, Out.isEof] at he
      | scopeTimeout => simp [recvMap, Out.isEof] at he

/-- every clean end-of-stream in a sequence of receive calls was preceded by `need` fed bytes -/
theorem recvSeq_clean (need : Nat) : ∀ (ws : List Which) (s : St) (script : List (Resp TExc)),
    lawClean tables need s.fed script = true →
    ∀ p ∈ recvSeq tables true ws s script, p.1.isEof = true → need ≤ p.2.fed ∧ p.2.fed ≤ s.fed + totalFed script := by
  intro ws
  induction ws with
  | nil => intro s script _ p hp; simp [recvSeq] at hp
  | cons w ws ih =>
    intro s script hl p hp he
    unfold recvSeq at hp
    split at hp
    · simp at hp
    · rename_i o s' rest calls hrecv
      have R := recv_clean need w s script o s' rest calls hrecv hl
      simp only [List.mem_cons] at hp
      cases hp with
      | inl h1 =>
        subst h1
        have h2 := R.2.2.1
        exact ⟨R.1 he, by show s'.fed ≤ _; omega⟩
      | inr h1 =>
        have I := ih s' rest R.2.1 p h1 he
        exact ⟨I.1, by have := R.2.2.1; omega⟩

/-! ### the ragged end: progress and stickiness -/

/-- the EOF error of the engine: `SSLEOFError`, or `SSLError` carrying OpenSSL's UNEXPECTED_EOF_WHILE_READING reason -/
def EofCls (e : TExc) (p : Bool) : Prop := e = tables.eofError ∨ (e = tables.sslError ∧ p = true)

inductive Phase where
  | open_      -- `read_bio.write_eof()` not called yet
  | marked     -- called, no error answered yet
  | failed     -- the engine has answered the EOF error
  deriving DecidableEq, Repr

/-- `Ragged`: answers of a law-abiding engine to `read` once the wrapped transport is at EOF and no complete close_notify
    was fed (see Lemmas/TlsEof.lean header) -/
inductive Ragged : Phase → List (Resp TExc) → Prop where
  | nil (ph : Phase) : Ragged ph []
  | data (ph : Phase) (n : Nat) (rest : List (Resp TExc)) : ph ≠ .failed → Ragged ph rest →
      Ragged ph (.ssl (.ret (n + 1)) 0 false :: rest)
  | want (p : Bool) (rest : List (Resp TExc)) : rest ≠ [] → Ragged .marked rest →
      Ragged .open_ (.ssl (.raise tables.wantReadCls p) 0 false :: .tr .eof :: rest)
  | err (ph : Phase) (e : TExc) (p : Bool) (rest : List (Resp TExc)) : ph ≠ .open_ → EofCls e p → Ragged .failed rest →
      Ragged ph (.ssl (.raise e p) 0 false :: rest)

def phaseOK (ph : Phase) (s : St) : Prop := (ph = .open_ ↔ s.rEof = false) ∧ s.wpend = 0

theorem addOut_zero (s : St) (a : Bool) : addOut s 0 a = s := by
  cases s; simp [addOut]

theorem fact_noflush_read : Method.read ∈ tables.noFlushAfter := by decide
theorem fact_want : retryAct tables tables.retryClauses tables.wantReadCls = some .wantRead := by decide
theorem fact_wantflush : tables.wantReadFlushes = true := by decide
theorem fact_eofzero : tables.readintoEofOnZero = true := by decide
theorem fact_mark (e : TExc) (p : Bool) (h : EofCls e p) : retryAct tables tables.retryClauses e = some .markEofReraise := by
  cases h with
  | inl h => subst h; decide
  | inr h => obtain ⟨h, _⟩ := h; subst h; decide

theorem fact_map (sc : Bool) (w : Which) (e : TExc) (p : Bool) (h : EofCls e p) :
    recvMap tables sc w (.exn (.cls e p)) = if sc then .exc (.cls e p) else .eof := by
  cases h with
  | inl h => subst h; cases sc <;> cases w <;> cases p <;> rfl
  | inr h => obtain ⟨h, hp⟩ := h; subst h; subst hp; cases sc <;> cases w <;> rfl

theorem retry_data (fuel : Nat) (s : St) (n : Nat) (rest : List (Resp TExc)) :
    retry tables .read (fuel + 1) s (.ssl (.ret n) 0 false :: rest) = some (.ret n, s, rest, [.ssl .read]) := by
  simp [retry, fact_noflush_read, addOut_zero]

theorem retry_err (fuel : Nat) (s : St) (e : TExc) (p : Bool) (h : EofCls e p) (rest : List (Resp TExc)) :
    retry tables .read (fuel + 1) s (.ssl (.raise e p) 0 false :: rest) =
      some (.exn (.cls e p), markBoth s, rest, [.ssl .read, .rbioEof, .wbioEof]) := by
  simp [retry, fact_mark e p h, addOut_zero]

theorem retry_want (fuel : Nat) (s : St) (hp : s.wpend = 0) (p : Bool) (rest : List (Resp TExc)) :
    retry tables .read (fuel + 1) s (.ssl (.raise tables.wantReadCls p) 0 false :: .tr .eof :: rest) =
      (retry tables .read fuel { s with rEof := true } rest).map
        (fun x => (x.1, x.2.1, x.2.2.1, .ssl .read :: .recvInto :: .rbioEof :: x.2.2.2)) := by
  have hf : flush s (.tr .eof :: rest) = some (none, s, .tr .eof :: rest, []) := by simp [flush, hp]
  simp only [retry, fact_want, fact_wantflush, fact_eofzero, addOut_zero, hf, if_true, Bool.or_true, List.nil_append,
    List.cons_append]
  generalize retry tables .read fuel _ rest = R
  cases R with
  | none => rfl
  | some x => obtain ⟨r, s3, rest4, calls'⟩ := x; rfl

/-- **one receive call at the ragged end**: it completes, with buffered plaintext or with the EOF error
    (standard-compatible) / an end-of-stream (mode off); once the engine has failed it stays failed -/
theorem recv_ragged (sc : Bool) (w : Which) (ph : Phase) (s : St) (script : List (Resp TExc))
    (hph : phaseOK ph s) (hr : Ragged ph script) (hne : script ≠ []) :
    ∃ o s' rest calls ph', recv tables sc w s script = some (o, s', rest, calls) ∧ phaseOK ph' s' ∧ Ragged ph' rest ∧
      rest.length < script.length ∧ (ph = .failed → ph' = .failed) ∧
      ((∃ n, o = .data (n + 1) ∧ ph' ≠ .failed) ∨
       (ph' = .failed ∧ ∃ e p, EofCls e p ∧ o = if sc then .exc (.cls e p) else .eof)) := by
  cases hr with
  | nil => exact absurd rfl hne
  | data _ n rest hnf hrest =>
    refine ⟨.data (n + 1), s, rest, [.ssl .read], ph, ?_, hph, hrest, by simp, fun h => h, Or.inl ⟨n, rfl, hnf⟩⟩
    simp [recv, retry_data, recvMap]
  | err _ e p rest hno hc hrest =>
    refine ⟨if sc then .exc (.cls e p) else .eof, markBoth s, rest, [.ssl .read, .rbioEof, .wbioEof], .failed, ?_, ?_, hrest,
      by simp, fun _ => rfl, Or.inr ⟨rfl, e, p, hc, rfl⟩⟩
    · simp [recv, retry_err _ _ e p hc, fact_map sc w e p hc]
    · refine ⟨by simp [markBoth], ?_⟩
      have := hph.2; simpa [markBoth] using this
  | want p rest hne' hrest =>
    have hs : ({ s with rEof := true } : St).wpend = 0 := hph.2
    cases hrest with
    | nil => exact absurd rfl hne'
    | data _ n rest' hnf hrest' =>
      refine ⟨.data (n + 1), { s with rEof := true }, rest', .ssl .read :: .recvInto :: .rbioEof :: [.ssl .read], .marked, ?_,
        ⟨by simp, hs⟩, hrest', (by simp only [List.length_cons]; omega), (fun h => by cases h), ?_⟩
      · simp [recv, retry_want _ s hph.2, retry_data, recvMap]
      · exact Or.inl ⟨n, rfl, by intro h; cases h⟩
    | err _ e p' rest' hno hc hrest' =>
      refine ⟨if sc then .exc (.cls e p') else .eof, markBoth { s with rEof := true }, rest',
        .ssl .read :: .recvInto :: .rbioEof :: [.ssl .read, .rbioEof, .wbioEof], .failed, ?_, ?_, hrest',
        (by simp only [List.length_cons]; omega), (fun _ => rfl), Or.inr ⟨rfl, e, p', hc, rfl⟩⟩
      · simp [recv, retry_want _ s hph.2, retry_err _ _ e p' hc, fact_map sc w e p' hc]
      · exact ⟨by simp [markBoth], by simpa [markBoth] using hs⟩

end EasyNet.TlsEof
