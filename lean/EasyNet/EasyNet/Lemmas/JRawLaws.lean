/-
  Laws of the raw JSON byte-level spec.

  `JRaw.spec` does NOT satisfy `SpecLaws.done_append` (ChunkIndep.lean): `_split_partial_document` attaches to a complete
  document whatever whitespace follows it *in the same buffer*, so the frame cut out depends on how much whitespace has
  already arrived.  What holds unconditionally is progress (`ProgLaws`), from which the fuel/unfolding facts about the
  reference decoder follow exactly as in ChunkIndep.lean.
-/
import EasyNet.Lemmas.JRaw
import EasyNet.Lemmas.ChunkIndep
namespace EasyNet

structure ProgLaws (spec : Bytes → SRes) : Prop where
  progress_done : ∀ b d r, spec b = .done d r → r.length < b.length
  progress_fail : ∀ b r, spec b = .fail r → r.length < b.length

namespace Prog
variable {spec : Bytes → SRes}

theorem refDrain_fuel_aux (L : ProgLaws spec) (n : Nat) :
    ∀ (b : Bytes) (f1 f2 : Nat), b.length ≤ n → b.length + 1 ≤ f1 → b.length + 1 ≤ f2 →
      refDrain spec f1 b = refDrain spec f2 b := by
  induction n with
  | zero =>
    intro b f1 f2 hb h1 h2
    have : b = [] := List.eq_nil_of_length_eq_zero (by omega)
    subst this
    cases f1 with
    | zero => omega
    | succ f1 => cases f2 with
      | zero => omega
      | succ f2 => simp [refDrain]
  | succ n ih =>
    intro b f1 f2 hb h1 h2
    cases f1 with
    | zero => omega
    | succ f1 => cases f2 with
      | zero => omega
      | succ f2 =>
        unfold refDrain
        by_cases hbe : b.isEmpty
        · simp [hbe]
        · simp only [hbe, Bool.false_eq_true, if_false]
          cases hs : spec b with
          | need => rfl
          | done d r =>
            have hp := L.progress_done b d r hs
            simp only
            rw [ih r f1 f2 (by omega) (by omega) (by omega)]
          | fail r =>
            have hp := L.progress_fail b r hs
            simp only
            rw [ih r f1 f2 (by omega) (by omega) (by omega)]

theorem refDrain_fuel (L : ProgLaws spec) (fuel : Nat) (b : Bytes) (h : b.length + 1 ≤ fuel) :
    refDrain spec fuel b = refDrain spec (b.length + 1) b :=
  refDrain_fuel_aux L b.length b fuel (b.length + 1) (Nat.le_refl _) h (Nat.le_refl _)

theorem decodeW_unfold (L : ProgLaws spec) (b : Bytes) :
    decodeW spec b =
      if b.isEmpty then ([], [])
      else match spec b with
        | .need => (b, [])
        | .done d r => ((decodeW spec r).1, .frame d :: (decodeW spec r).2)
        | .fail r => ((decodeW spec r).1, .limit :: (decodeW spec r).2) := by
  unfold decodeW
  conv => lhs; unfold refDrain
  by_cases hb : b.isEmpty
  · simp [hb]
  · simp only [hb, Bool.false_eq_true, if_false]
    cases hs : spec b with
    | need => rfl
    | done d r =>
      have hp := L.progress_done b d r hs
      simp only
      rw [refDrain_fuel L b.length r (by omega)]
    | fail r =>
      have hp := L.progress_fail b r hs
      simp only
      rw [refDrain_fuel L b.length r (by omega)]

theorem refRecv_eq_decodeW (L : ProgLaws spec) (h c : Bytes) : refRecv spec h c = decodeW spec (h ++ c) := by
  rw [decodeW_unfold L]
  unfold refRecv
  by_cases hb : (h ++ c).isEmpty
  · simp [hb]
  · simp only [hb, Bool.false_eq_true, if_false]
    cases hs : spec (h ++ c) <;> rfl

/-- what `decodeW` retains is empty or incomplete-and-acceptable; items + retained bytes never exceed the input -/
theorem decodeW_held (L : ProgLaws spec) (b : Bytes) :
    ((decodeW spec b).1 = [] ∨ spec (decodeW spec b).1 = .need) ∧
    (decodeW spec b).2.length + (decodeW spec b).1.length ≤ b.length := by
  suffices H : ∀ n (b : Bytes), b.length ≤ n → (((decodeW spec b).1 = [] ∨ spec (decodeW spec b).1 = .need) ∧
      (decodeW spec b).2.length + (decodeW spec b).1.length ≤ b.length) from H b.length b (Nat.le_refl _)
  intro n
  induction n with
  | zero =>
    intro b hb
    have : b = [] := List.eq_nil_of_length_eq_zero (by omega)
    subst this
    rw [decodeW_unfold L]; simp
  | succ n ih =>
    intro b hbn
    rw [decodeW_unfold L]
    by_cases hb : b.isEmpty
    · simp [hb]
    · simp only [hb, Bool.false_eq_true, if_false]
      cases hs : spec b with
      | need => exact ⟨Or.inr hs, by simp⟩
      | done d r =>
        have hp := L.progress_done b d r hs
        have := ih r (by omega)
        exact ⟨this.1, by simp only [List.length_cons]; omega⟩
      | fail r =>
        have hp := L.progress_fail b r hs
        have := ih r (by omega)
        exact ⟨this.1, by simp only [List.length_cons]; omega⟩

/-- after any sequence of reads: the retained bytes are empty or incomplete-and-acceptable, and the number of delivered items
    plus the retained bytes is at most the number of bytes received -/
theorem refRun_held (L : ProgLaws spec) (cs : List Bytes) (h : Bytes) (hh : h = [] ∨ spec h = .need) :
    ((refRun spec h cs).1 = [] ∨ spec (refRun spec h cs).1 = .need) ∧
    (refRun spec h cs).2.length + (refRun spec h cs).1.length ≤ h.length + cs.flatten.length := by
  induction cs generalizing h with
  | nil => exact ⟨hh, by simp [refRun]⟩
  | cons c cs ih =>
    simp only [refRun]
    have hd := decodeW_held L (h ++ c)
    rw [← refRecv_eq_decodeW L] at hd
    have := ih (refRecv spec h c).1 hd.1
    refine ⟨this.1, ?_⟩
    simp only [List.length_append, List.flatten_cons]
    have h2 := hd.2
    simp only [List.length_append] at h2
    omega

end Prog

namespace JRaw

theorem wsRun_le (d : Bytes) : wsRun d ≤ d.length := by
  induction d with
  | nil => simp [wsRun]
  | cons x xs ih => simp only [wsRun]; split <;> simp <;> omega

theorem splitS_progress_done (doc : Bytes) (c limit : Nat) (hdoc : doc ≠ []) (d r : Bytes)
    (h : splitS doc c limit = .done d r) : r.length < doc.length := by
  have hpos : 0 < doc.length := List.length_pos_iff.mpr hdoc
  unfold splitS at h
  split at h
  · cases h
  · split at h
    · injection h with _ hr; subst hr; simpa using hpos
    · split at h
      · injection h with _ hr; subst hr; simpa using hpos
      · rename_i hne
        injection h with _ hr; subst hr
        have : 0 < c + wsRun (doc.drop c) := by
          apply Nat.pos_of_ne_zero
          intro h0
          rw [h0] at hne
          simp at hne
        simp only [List.length_drop]; omega

theorem splitS_progress_fail (doc : Bytes) (c limit : Nat) (hdoc : doc ≠ []) (hc : 0 < c) (r : Bytes)
    (h : splitS doc c limit = .fail r) : r.length < doc.length := by
  have hpos : 0 < doc.length := List.length_pos_iff.mpr hdoc
  unfold splitS at h
  split at h
  · injection h with hr; subst hr; simp only [List.length_drop]; omega
  · split at h
    · cases h
    · split at h <;> cases h

theorem splitS_fail_iff (doc : Bytes) (c limit : Nat) : (∃ r, splitS doc c limit = .fail r) ↔ c > limit := by
  unfold splitS
  constructor
  · rintro ⟨r, h⟩
    split at h
    · assumption
    · split at h
      · cases h
      · split at h <;> cases h
  · intro h; simp [h]

/-- **progress**: a delivered document or a size error leaves strictly fewer bytes, for EVERY byte string -/
theorem spec_prog (limit : Nat) : ProgLaws (spec limit) := by
  constructor
  · intro b d r h
    unfold spec at h
    cases hs : sscan .lead 0 b with
    | opened st => rw [hs] at h; simp only at h; split at h <;> cases h
    | closed k =>
      rw [hs] at h; simp only at h
      have hb := sscan_closed_bounds b .lead 0 k hs
      have hne : b ≠ [] := by intro h0; subst h0; simp at hb; omega
      exact splitS_progress_done b k limit hne d r h
    | plain w =>
      rw [hs] at h; simp only at h
      have hb := sscan_plain_bounds b .lead 0 w hs
      have hne : b.drop w ≠ [] := by
        intro h0
        have := congrArg List.length h0
        simp at this; omega
      unfold plainS at h
      cases hn : nprintIdx (b.drop w) with
      | none => rw [hn] at h; simp only at h; split at h <;> cases h
      | some i =>
        rw [hn] at h; simp only at h
        have := splitS_progress_done (b.drop w) i limit hne d r h
        simp only [List.length_drop] at this; omega
  · intro b r h
    unfold spec at h
    cases hs : sscan .lead 0 b with
    | opened st =>
      rw [hs] at h; simp only at h
      split at h
      · injection h with hr; subst hr; simp; omega
      · cases h
    | closed k =>
      rw [hs] at h; simp only at h
      have hb := sscan_closed_bounds b .lead 0 k hs
      have hne : b ≠ [] := by intro h0; subst h0; simp at hb; omega
      exact splitS_progress_fail b k limit hne (by omega) r h
    | plain w =>
      rw [hs] at h; simp only at h
      have hb := sscan_plain_bounds b .lead 0 w hs
      have hlen : 0 < (b.drop w).length := by simp; omega
      unfold plainS at h
      cases hn : nprintIdx (b.drop w) with
      | none =>
        rw [hn] at h; simp only at h
        split at h
        · injection h with hr; subst hr; simp; omega
        · cases h
      | some i =>
        rw [hn] at h; simp only at h
        unfold splitS at h
        split at h
        · rename_i hi
          injection h with hr; subst hr
          simp only [List.length_drop]; omega
        · split at h
          · cases h
          · split at h <;> cases h

end JRaw
end EasyNet
