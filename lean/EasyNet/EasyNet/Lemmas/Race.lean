/-
  Inductive invariant of the connection race (Model/Race.lean) and its consequences.
-/
import EasyNet.Model.Race
namespace EasyNet.Race

/-- no exception has been raised out of the race (so the winner has not been closed) -/
def St.notRaised (s : St) : Prop := ∀ r, s.fin ≠ some (.raised r)

structure Inv (cfg : Cfg) (s : St) : Prop where
  /-- the open sockets are exactly those of the attempts suspended in `connect_socket`, plus the winner -/
  opn : ∀ k, (s.ch k).sock = .opened ↔ ((s.ch k).pc = .connecting ∨ (s.winner = some k ∧ s.notRaised))
  win : ∀ w, s.winner = some w → (s.ch w).pc = .done
  ret : ∀ w, s.fin = some (.ret w) → s.winner = some w
  fin : s.fin.isSome → ∀ k, (s.ch k).pc ≠ .connecting
  nxt : ∀ k, s.next ≤ k → (s.ch k).pc = .unspawned
  bnd : s.next ≤ cfg.n

@[simp] theorem setCh_ch (s : St) (k j : Nat) (c : Child) :
    (s.setCh k c).ch j = if j = k then c else s.ch j := rfl
@[simp] theorem setCh_winner (s : St) (k : Nat) (c : Child) : (s.setCh k c).winner = s.winner := rfl
@[simp] theorem setCh_fin (s : St) (k : Nat) (c : Child) : (s.setCh k c).fin = s.fin := rfl
@[simp] theorem setCh_next (s : St) (k : Nat) (c : Child) : (s.setCh k c).next = s.next := rfl
@[simp] theorem setCh_ext (s : St) (k : Nat) (c : Child) : (s.setCh k c).ext = s.ext := rfl
@[simp] theorem setCh_crashed (s : St) (k : Nat) (c : Child) : (s.setCh k c).crashed = s.crashed := rfl
@[simp] theorem setCh_errors (s : St) (k : Nat) (c : Child) : (s.setCh k c).errors = s.errors := rfl

theorem inv_init (cfg : Cfg) : Inv cfg St.init := by
  refine ⟨?_, ?_, ?_, ?_, ?_, ?_⟩ <;> simp [St.init, St.notRaised]

/-- what the guard `quiet` gives for the children below `n` -/
theorem quiet_spec {s : St} {n : Nat} (h : s.quiet n = true) (k : Nat) (hk : k < n) :
    (s.ch k).pc ≠ .connecting := by
  unfold St.quiet at h
  rw [List.all_eq_true] at h
  have := h k (List.mem_range.mpr hk)
  intro hc
  simp [hc] at this

theorem allDone_spec {s : St} {n : Nat} (h : s.allDone n = true) (k : Nat) (hk : k < n) :
    (s.ch k).pc = .done := by
  unfold St.allDone at h
  rw [List.all_eq_true] at h
  have := h k (List.mem_range.mpr hk)
  simpa using this

theorem no_connecting_of_quiet {cfg : Cfg} {s : St} (I : Inv cfg s) (h : s.quiet cfg.n = true) (k : Nat) :
    (s.ch k).pc ≠ .connecting := by
  by_cases hk : k < cfg.n
  · exact quiet_spec h k hk
  · have := I.nxt k (by have := I.bnd; omega)
    simp [this]

theorem inv_spawn {cfg : Cfg} {s s' : St} (I : Inv cfg s) (h : step cfg s .spawn = some s') : Inv cfg s' := by
  simp only [step] at h
  split at h
  · rename_i g
    obtain ⟨g1, g2, g3⟩ := g
    cases h
    have hn := I.nxt s.next (Nat.le_refl _)
    have hw : s.winner ≠ some s.next := by
      intro hw; have := I.win _ hw; rw [hn] at this; cases this
    refine ⟨?_, ?_, ?_, ?_, ?_, ?_⟩
    · intro k
      simp only [setCh_ch]
      by_cases hk : k = s.next
      · subst hk
        simp [hw]
      · simp only [hk, if_false]
        exact I.opn k
    · intro w hw'
      simp only [setCh_ch]
      by_cases hk : w = s.next
      · subst hk; exact absurd hw' hw
      · simp only [hk, if_false]; exact I.win w hw'
    · exact I.ret
    · intro hf; simp [Option.isNone_iff_eq_none.mp g1] at hf
    · intro k hk
      simp only [setCh_ch]
      have : k ≠ s.next := by simp at hk; omega
      simp only [this, if_false]
      exact I.nxt k (by simp at hk; omega)
    · simp; omega
  · cases h


/-- generic update lemma: child `k` (not connecting afterwards unless opened…) -/
theorem inv_begin {cfg : Cfg} {s s' : St} (k : Nat) (I : Inv cfg s) (h : step cfg s (.begin k) = some s') : Inv cfg s' := by
  simp only [step] at h
  split at h
  · rename_i g
    obtain ⟨g1, g2⟩ := g
    have hf : s.fin = none := Option.isNone_iff_eq_none.mp g1
    have hw : s.winner ≠ some k := by
      intro hw; have := I.win _ hw; rw [g2] at this; cases this
    have hlt : k < s.next := by
      apply Classical.byContradiction; intro hc
      have := I.nxt k (by omega); rw [g2] at this; cases this
    have hso : (s.ch k).sock ≠ .opened := by
      intro hc; have := (I.opn k).mp hc; rw [g2] at this; simp [hw] at this
    split at h <;> cases h <;>
    · refine ⟨?_, ?_, ?_, ?_, ?_, ?_⟩
      · intro j
        by_cases hj : j = k
        · subst hj; simp [hw, St.notRaised]
        · simpa [hj, St.notRaised] using I.opn j
      · intro w hw'
        by_cases hj : w = k
        · subst hj; exact absurd hw' hw
        · simpa [hj] using I.win w hw'
      · exact I.ret
      · intro hf'; simp [hf] at hf'
      · intro j hj
        have : j ≠ k := by simp at hj; omega
        simpa [this] using I.nxt j hj
      · exact I.bnd
  · cases h

theorem inv_res {cfg : Cfg} {s s' : St} (k : Nat) (r : Res) (I : Inv cfg s) (h : step cfg s (.res k r) = some s') : Inv cfg s' := by
  simp only [step] at h
  split at h
  · rename_i g
    obtain ⟨g1, g2⟩ := g
    have hf : s.fin = none := Option.isNone_iff_eq_none.mp g1
    have hnr : s.notRaised := by intro r; simp [hf]
    have hw : s.winner ≠ some k := by
      intro hw; have := I.win _ hw; rw [g2] at this; cases this
    have hlt : k < s.next := by
      apply Classical.byContradiction; intro hc
      have := I.nxt k (by omega); rw [g2] at this; cases this
    -- the child ends closed (all branches but the winner election)
    have closedCase : ∀ s'' : St, s''.ch = (s.setCh k ⟨.done, .closed⟩).ch → s''.winner = s.winner → s''.fin = s.fin →
        s''.next = s.next → Inv cfg s'' := by
      intro s'' e1 e2 e3 e4
      refine ⟨?_, ?_, ?_, ?_, ?_, ?_⟩
      · intro j
        rw [e1, e2]
        by_cases hj : j = k
        · subst hj; simp [hw]
        · have := I.opn j
          simpa [hj, St.notRaised, e3] using this
      · intro w hw'
        rw [e2] at hw'; rw [e1]
        by_cases hj : w = k
        · subst hj; simp
        · simpa [hj] using I.win w hw'
      · intro w; rw [e3, e2]; exact I.ret w
      · intro hf'; simp [e3, hf] at hf'
      · intro j hj
        rw [e4] at hj; rw [e1]
        have : j ≠ k := by omega
        simpa [this] using I.nxt j hj
      · rw [e4]; exact I.bnd
    cases r <;> simp only at h
    · -- ok
      split at h
      · split at h
        · rename_i hwn
          cases h
          refine ⟨?_, ?_, ?_, ?_, ?_, ?_⟩
          · intro j
            by_cases hj : j = k
            · subst hj; simp [St.notRaised, hf]
            · have := I.opn j
              have hjk : k ≠ j := fun e => hj e.symm
              simpa [hj, hjk, St.notRaised, hwn, hf] using this
          · intro w hw'
            simp at hw'; subst hw'; simp
          · intro w hw'; simp [hf] at hw'
          · intro hf'; simp [hf] at hf'
          · intro j hj
            have : j ≠ k := by simp at hj; omega
            simpa [this] using I.nxt j hj
          · exact I.bnd
        · cases h; exact closedCase _ rfl rfl rfl rfl
      · cases h
    · split at h
      · cases h; exact closedCase _ rfl rfl rfl rfl
      · cases h
    · split at h
      · cases h; exact closedCase _ rfl rfl rfl rfl
      · cases h
    · split at h
      · cases h; exact closedCase _ rfl rfl rfl rfl
      · cases h
  · cases h

theorem inv_cancel {cfg : Cfg} {s s' : St} (I : Inv cfg s) (h : step cfg s .cancel = some s') : Inv cfg s' := by
  simp only [step] at h
  split at h
  · cases h
    exact ⟨I.opn, I.win, I.ret, I.fin, I.nxt, I.bnd⟩
  · cases h


theorem inv_fin {cfg : Cfg} {s s' : St} (f : FinL) (I : Inv cfg s) (h : step cfg s (.fin f) = some s') : Inv cfg s' := by
  simp only [step] at h
  split at h
  · rename_i g
    obtain ⟨g1, g2⟩ := g
    have hf : s.fin = none := Option.isNone_iff_eq_none.mp g1
    have hnc := no_connecting_of_quiet I g2
    -- raising: the winner (if any) is closed
    have raiseCase : ∀ rk : RaiseKind, ∀ s'' : St,
        (match s.winner with
          | some w => s'' = { s.setCh w ⟨.done, .closed⟩ with fin := some (.raised rk) }
          | none => s'' = { s with fin := some (.raised rk) }) → Inv cfg s'' := by
      intro rk s'' e
      split at e
      · rename_i w hw
        subst e
        refine ⟨?_, ?_, ?_, ?_, ?_, ?_⟩
        · intro j
          by_cases hj : j = w
          · subst hj; simp [St.notRaised]
          · have := I.opn j
            have h1 : (s.ch j).pc ≠ .connecting := hnc j
            have h2 : ¬ (s.winner = some j) := by rw [hw]; intro e; cases e; exact hj rfl
            simp [hj, St.notRaised, h1]
            intro ho
            have := this.mp ho
            simp [h1, h2] at this
        · intro w' hw'
          by_cases hj : w' = w
          · subst hj; simp
          · simpa [hj] using I.win w' hw'
        · intro w' hw'; simp at hw'
        · intro _ j
          by_cases hj : j = w
          · subst hj; simp
          · simpa [hj] using hnc j
        · intro j hj
          have hwd := I.win w hw
          have : j ≠ w := by
            intro e; subst e
            have := I.nxt j hj; rw [this] at hwd; cases hwd
          simpa [this] using I.nxt j hj
        · exact I.bnd
      · rename_i hw
        subst e
        refine ⟨?_, I.win, ?_, ?_, I.nxt, I.bnd⟩
        · intro j
          have := I.opn j
          have h1 : (s.ch j).pc ≠ .connecting := hnc j
          simp [St.notRaised, h1, hw]
          intro ho
          have := this.mp ho
          simp [h1, hw] at this
        · intro w' hw'; simp at hw'
        · intro _ j; exact hnc j
    cases f <;> simp only at h
    · -- ret
      split at h
      · rename_i w hw
        split at h
        · cases h
          refine ⟨?_, I.win, ?_, ?_, I.nxt, I.bnd⟩
          · intro j
            have := I.opn j
            simpa [St.notRaised, hf] using this
          · intro w' hw'; simp at hw'; subst hw'; exact hw
          · intro _ j; exact hnc j
        · cases h
      · cases h
    · -- allfailed
      split at h
      · rename_i g3
        cases h
        have hw : s.winner = none := by
          have := g3.1; simpa using this
        exact raiseCase (.allfailed s.errors) _ (by rw [hw])
      · cases h
    · split at h
      · apply raiseCase .cancelled s'
        split at h <;> (cases h; simp [*])
      · cases h
    · split at h
      · apply raiseCase .crash s'
        split at h <;> (cases h; simp [*])
      · cases h
  · cases h


theorem inv_step {cfg : Cfg} {s s' : St} (l : Label) (I : Inv cfg s) (h : step cfg s l = some s') : Inv cfg s' := by
  cases l with
  | spawn => exact inv_spawn I h
  | begin k => exact inv_begin k I h
  | res k r => exact inv_res k r I h
  | cancel => exact inv_cancel I h
  | fin f => exact inv_fin f I h

theorem inv_run {cfg : Cfg} : ∀ (ls : List Label) {s s' : St}, Inv cfg s → run cfg s ls = some s' → Inv cfg s'
  | [], s, s', I, h => by simp only [run] at h; cases h; exact I
  | l :: ls, s, s', I, h => by
    simp only [run] at h
    split at h
    · rename_i s1 h1
      exact inv_run ls (inv_step l I h1) h
    · cases h

theorem inv_reachable {cfg : Cfg} {s : St} (h : Reachable cfg s) : Inv cfg s := by
  obtain ⟨ls, h⟩ := h
  exact inv_run ls (inv_init cfg) h

end EasyNet.Race
