/-
  C10 — invariants of the receive loops stacked on the cancellable receive (EasyNet/Model/RecvLayers.lean).
-/
import EasyNet.Model.RecvLayers
namespace EasyNet.C10.RL
set_option linter.unusedSimpArgs false

theorem lstep_fed (s : LSt) (e : LEv) (h : s.fed = s.taken) : (lstep s e).1.fed = (lstep s e).1.taken := by
  cases e <;> simp only [lstep] <;> repeat' split
  all_goals simp [h]

theorem lrun_fed (evs : List LEv) : ∀ s : LSt, s.fed = s.taken → (lrun s evs).fed = (lrun s evs).taken := by
  induction evs with
  | nil => intro s h; exact h
  | cons e es ih => intro s h; exact ih _ (lstep_fed s e h)

/-- plaintext held by a suspended `_retry_ssl_method` (only with the flush after a read) -/
def held (s : TSt) : Bytes :=
  match s.pc with
  | .okLock r => r
  | .okSend r => r
  | _ => []

def NoHold (s : TSt) : Prop := ∀ r, s.pc ≠ .okLock r ∧ s.pc ≠ .okSend r

theorem rdPart_ok (s : TSt) (env : TEnv) (h : s.returned ++ s.bio = s.taken) :
    NoHold (rdPart s env).1 ∧ (rdPart s env).1.returned ++ (rdPart s env).1.bio = (rdPart s env).1.taken := by
  unfold rdPart; split <;> simp [NoHold, h]

theorem attempt_ok (c : TCfg) (hc : c.flushAfterRead = false) (s : TSt) (env : TEnv) (h : s.returned ++ s.bio = s.taken) :
    NoHold (attempt c s env).1 ∧
      (attempt c s env).1.returned ++ (attempt c s env).1.bio = (attempt c s env).1.taken := by
  unfold attempt
  simp only [hc]
  split
  · simp [NoHold, h]
  · split
    · split
      · simp [NoHold, h]
      · exact rdPart_ok s env h
    · simp [NoHold, h]

theorem tstep_ok (c : TCfg) (hc : c.flushAfterRead = false) (s : TSt) (e : TEv)
    (hn : NoHold s) (h : s.returned ++ s.bio = s.taken) :
    NoHold (tstep c s e).1 ∧ (tstep c s e).1.returned ++ (tstep c s e).1.bio = (tstep c s e).1.taken := by
  cases e with
  | call env =>
    simp only [tstep]
    split
    · exact attempt_ok c hc s env h
    · exact ⟨hn, h⟩
  | resume env d =>
    simp only [tstep]
    split
    · exact ⟨hn, h⟩
    · split
      · simp [NoHold, h]
      · exact rdPart_ok s env h
    · exact rdPart_ok s env h
    · simp [NoHold, h]
    · split
      · simp [NoHold, h]
      · apply attempt_ok c hc
        simp [← h, List.append_assoc]
    · rename_i r hpc; exact absurd hpc (hn r).1
    · rename_i r hpc; exact absurd hpc (hn r).2
  | cancel =>
    simp only [tstep]
    split
    · exact ⟨hn, h⟩
    · simp [NoHold, h]

theorem trun_ok (c : TCfg) (hc : c.flushAfterRead = false) (evs : List TEv) :
    ∀ s : TSt, NoHold s → s.returned ++ s.bio = s.taken →
      NoHold (trun c s evs) ∧ (trun c s evs).returned ++ (trun c s evs).bio = (trun c s evs).taken := by
  induction evs with
  | nil => intro s hn h; exact ⟨hn, h⟩
  | cons e es ih =>
    intro s hn h
    have := tstep_ok c hc s e hn h
    exact ih _ this.1 this.2

end EasyNet.C10.RL
