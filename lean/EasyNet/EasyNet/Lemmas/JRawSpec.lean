/-
  Byte-level reference semantics of the raw JSON framer: "scan the accumulated bytes once from the start".
  Nothing here mirrors Python statements; this is the *spec* the stateful model `JRaw.feed` is proved to refine
  (Lemmas/JRaw.lean).  The scanner is a one-pass fold with a small explicit state:

    SSt.lead                         only whitespace seen so far
    SSt.encl k inStr nc ns esc       the first enclosure opened was `k` (one of `"`, `{`, `[`); `inStr` = inside a JSON string;
                                     `nc` / `ns` = net count of braces / square brackets; `esc` = the run of backslashes that
                                     ends here has odd length (running parity — the model looks back instead)
-/
import EasyNet.Model.JRaw
import EasyNet.Model.Spec
namespace EasyNet
namespace JRaw

inductive SSt where
  | lead
  | encl (k : UInt8) (inStr : Bool) (nc ns : Int) (esc : Bool)
  deriving Repr, DecidableEq

inductive StepRes where
  | cont (st : SSt)
  | close            -- the document ends with this byte
  | plain            -- this byte starts a plain value
  deriving Repr, DecidableEq

/-- the counter of the first enclosure -/
def cntOf (k : UInt8) (inStr : Bool) (nc ns : Int) : Int :=
  if k == QUOTE then (if inStr then 1 else 0) else if k == LBRACE then nc else ns

/-- after a quote / bracket event: is the first enclosure closed? -/
def post (k : UInt8) (inStr : Bool) (nc ns : Int) : StepRes :=
  if cntOf k inStr nc ns ≤ 0 then .close else .cont (.encl k inStr nc ns false)

def step : SSt → UInt8 → StepRes
  | .lead, ch =>
    if ch == QUOTE then .cont (.encl QUOTE true 0 0 false)
    else if ch == LBRACE then .cont (.encl LBRACE false 1 0 false)
    else if ch == LBRACK then .cont (.encl LBRACK false 0 1 false)
    else if ch == RBRACE then .close
    else if ch == RBRACK then .close
    else if isWs ch then .cont .lead
    else .plain
  | .encl k inStr nc ns esc, ch =>
    if ch == QUOTE && !esc then post k (!inStr) nc ns
    else if inStr then .cont (.encl k inStr nc ns (ch == BSLASH && !esc))
    else if ch == LBRACE then post k inStr (nc + 1) ns
    else if ch == LBRACK then post k inStr nc (ns + 1)
    else if ch == RBRACE then post k inStr (nc - 1) ns
    else if ch == RBRACK then post k inStr nc (ns - 1)
    else .cont (.encl k inStr nc ns (ch == BSLASH && !esc))

inductive SOut where
  | opened (st : SSt)         -- all bytes scanned, document not complete
  | closed (consumed : Nat)   -- document complete: `consumed` bytes (absolute index one past the closing byte)
  | plain (w : Nat)           -- a plain value starts at absolute index `w`
  deriving Repr, DecidableEq

def sscan : SSt → Nat → Bytes → SOut
  | st, _, [] => .opened st
  | st, off, ch :: rest =>
    match step st ch with
    | .cont st' => sscan st' (off + 1) rest
    | .close => .closed (off + 1)
    | .plain => .plain off

/-- `_split_partial_document` as a function to `SRes` -/
def splitS (doc : Bytes) (consumed limit : Nat) : SRes :=
  if consumed > limit then .fail (doc.drop consumed)
  else
    if consumed + wsRun (doc.drop consumed) == doc.length then .done doc []
    else
      if (doc.take (consumed + wsRun (doc.drop consumed))).isEmpty then
        .done (doc.drop (consumed + wsRun (doc.drop consumed))) []
      else .done (doc.take (consumed + wsRun (doc.drop consumed))) (doc.drop (consumed + wsRun (doc.drop consumed)))

/-- plain value: the bytes from the first non-whitespace byte on -/
def plainS (limit : Nat) (d : Bytes) : SRes :=
  match nprintIdx d with
  | none => if d.length > limit then .fail [] else .need
  | some i => splitS d i limit

/-- **the byte-level spec**: what the framer says about the accumulated bytes `b` -/
def spec (limit : Nat) (b : Bytes) : SRes :=
  match sscan .lead 0 b with
  | .opened _ => if b.length > limit then .fail [] else .need
  | .closed k => splitS b k limit
  | .plain w => plainS limit (b.drop w)

/-! ### basic facts about the scanner -/

theorem sscan_append (b c : Bytes) : ∀ (st : SSt) (off : Nat),
    sscan st off (b ++ c) = match sscan st off b with
      | .opened st' => sscan st' (off + b.length) c
      | r => r := by
  induction b with
  | nil => intro st off; simp [sscan]
  | cons x xs ih =>
    intro st off
    simp only [List.cons_append, sscan]
    cases hs : step st x with
    | cont st' =>
      simp only
      rw [ih st' (off + 1)]
      have : off + 1 + xs.length = off + (xs.length + 1) := by omega
      simp only [List.length_cons, this]
    | close => rfl
    | plain => rfl

theorem sscan_closed_bounds (b : Bytes) : ∀ (st : SSt) (off k : Nat),
    sscan st off b = .closed k → off < k ∧ k ≤ off + b.length := by
  induction b with
  | nil => intro st off k h; simp [sscan] at h
  | cons x xs ih =>
    intro st off k h
    simp only [sscan] at h
    cases hs : step st x with
    | cont st' =>
      rw [hs] at h; simp only at h
      have := ih st' (off + 1) k h
      simp only [List.length_cons]; omega
    | close =>
      rw [hs] at h; simp only at h
      injection h with h
      simp only [List.length_cons]; omega
    | plain => rw [hs] at h; simp at h

theorem sscan_plain_bounds (b : Bytes) : ∀ (st : SSt) (off w : Nat),
    sscan st off b = .plain w → off ≤ w ∧ w < off + b.length := by
  induction b with
  | nil => intro st off k h; simp [sscan] at h
  | cons x xs ih =>
    intro st off w h
    simp only [sscan] at h
    cases hs : step st x with
    | cont st' =>
      rw [hs] at h; simp only at h
      have := ih st' (off + 1) w h
      simp only [List.length_cons]; omega
    | close => rw [hs] at h; simp at h
    | plain =>
      rw [hs] at h; simp only at h
      injection h with h
      simp only [List.length_cons]; omega

/-- a prefix of bytes on which the scan is still open is itself open; a prefix of a longer completed scan that ends before
    the completion point is open -/
theorem sscan_prefix_opened (b c : Bytes) (st : SSt) (off : Nat) (st' : SSt)
    (h : sscan st off (b ++ c) = .opened st') : ∃ st'', sscan st off b = .opened st'' := by
  rw [sscan_append] at h
  cases hb : sscan st off b with
  | opened s => exact ⟨s, rfl⟩
  | closed k => rw [hb] at h; simp at h
  | plain w => rw [hb] at h; simp at h

theorem sscan_prefix_of_closed (b c : Bytes) (st : SSt) (off k : Nat)
    (h : sscan st off (b ++ c) = .closed k) (hk : off + b.length < k) : ∃ st'', sscan st off b = .opened st'' := by
  rw [sscan_append] at h
  cases hb : sscan st off b with
  | opened s => exact ⟨s, rfl⟩
  | closed k' =>
    rw [hb] at h; simp only at h
    injection h with h
    have := sscan_closed_bounds b st off k' hb
    omega
  | plain w => rw [hb] at h; simp at h

end JRaw
end EasyNet
