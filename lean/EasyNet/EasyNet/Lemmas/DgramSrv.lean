/-
  Inductive invariant of the datagram-server client machine (Model/DgramSrv.lean).
-/
import EasyNet.Model.DgramSrv
namespace EasyNet.DgramSrv

/-- how the `_ClientData` state and the client coroutine fit together -/
def Coherent {α} (c : Client α) : Prop :=
  match c.r with
  | .none => c.state = .idle ∧ c.active = 0 ∧ c.queue = []
  | .scheduled => c.state = .pending ∧ c.active = 0 ∧ c.queue ≠ []
  | .first _ => c.state = .running ∧ c.active = 1
  | .handling => c.state = .running ∧ c.active = 1
  | .waiting _ n => c.state = .running ∧ c.active = 1 ∧ (n = false → c.queue ≠ [] → 0 < c.pushing)

structure Inv {α} (c : Client α) : Prop where
  fifo : c.consumed ++ held c.r ++ c.queue ++ c.inflight = c.arrived
  good : c.bad = false
  coh : Coherent c

theorem inv_init {α} : Inv (Client.init : Client α) := by
  refine ⟨?_, ?_, ?_⟩ <;> simp [Client.init, held, Coherent]

theorem inv_taskDone {α} (c : Client α) (hs : c.state = .running) (ha : c.active = 1) (hb : c.bad = false)
    (hf : c.consumed ++ c.queue ++ c.inflight = c.arrived) : Inv (taskDone c) := by
  cases hq : c.queue with
  | nil =>
    refine ⟨?_, ?_, ?_⟩
    · simpa [taskDone, markDone, hq, held] using hf
    · simp [taskDone, markDone, hq, hb, hs]
    · simp [taskDone, markDone, hq, Coherent, ha]
  | cons d q =>
    refine ⟨?_, ?_, ?_⟩
    · simpa [taskDone, markDone, markPending, hq, held] using hf
    · simp [taskDone, markDone, markPending, hq, hb, hs]
    · simp [taskDone, markDone, markPending, hq, Coherent, ha]

theorem inv_step {α} {c c' : Client α} (l : Label α) (I : Inv c) (h : step c l = some c') : Inv c' := by
  obtain ⟨fifo, good, coh⟩ := I
  cases l with
  | arrive d =>
    simp only [step] at h; cases h
    refine ⟨?_, good, ?_⟩
    · simp [← fifo, List.append_assoc]
    · unfold Coherent at *; split <;> simp_all
  | h =>
    simp only [step] at h
    split at h
    · cases h
    · rename_i d rest hin
      split at h
      · rename_i hidle
        cases h
        unfold Coherent at coh
        cases hr : c.r <;> simp [hr, hidle] at coh
        obtain ⟨ha, hq⟩ := coh
        refine ⟨?_, ?_, ?_⟩
        · simp [startInline, coroutineStart, markRunning, markPending, hq, held]
          simp [← fifo, hr, held, hq, hin]
        · simp [startInline, coroutineStart, markRunning, markPending, hq, good, hidle]
        · simp [startInline, coroutineStart, markRunning, markPending, hq, Coherent, ha]
      · rename_i hidle
        cases h
        refine ⟨?_, good, ?_⟩
        · simp [← fifo, hin, List.append_assoc]
        · unfold Coherent at *
          cases hr : c.r <;> simp [hr] at coh ⊢ <;> simp_all
  | hl =>
    simp only [step] at h
    split at h
    · cases h
    · rename_i hp
      split at h
      · -- state idle with a non-empty queue: impossible
        rename_i hc
        exfalso
        unfold Coherent at coh
        cases hr : c.r <;> simp [hr] at coh hc <;> simp_all
      · cases h
        refine ⟨?_, good, ?_⟩
        · cases hr : c.r <;> simpa [notify, held, hr] using fifo
        · unfold Coherent at *
          cases hr : c.r <;> simp [hr, notify] at coh ⊢ <;> simp_all
  | gy timed =>
    simp only [step] at h
    unfold Coherent at coh
    split at h
    · rename_i d hr
      cases h
      simp [hr] at coh
      refine ⟨?_, good, ?_⟩
      · simpa [held, hr, List.append_assoc] using fifo
      · simp [Coherent, coh]
    · rename_i hr
      simp [hr] at coh
      split at h
      · rename_i d q hq
        cases h
        refine ⟨?_, good, ?_⟩
        · simpa [deliver, held, hr, hq, List.append_assoc] using fifo
        · simp [Coherent, deliver, coh]
      · rename_i hq
        cases h
        refine ⟨?_, good, ?_⟩
        · simpa [held, hr, hq] using fifo
        · simp [Coherent, coh, hq]
    · cases h
  | ge =>
    simp only [step] at h
    unfold Coherent at coh
    split at h
    · rename_i d hr
      cases h
      simp [hr] at coh
      refine inv_taskDone _ coh.1 coh.2 good ?_
      simpa [held, hr, List.append_assoc] using fifo
    · rename_i hr
      cases h
      simp [hr] at coh
      refine inv_taskDone _ coh.1 coh.2 good ?_
      simpa [held, hr] using fifo
    · cases h
  | rs =>
    simp only [step] at h
    unfold Coherent at coh
    split at h
    · rename_i hr
      cases h
      simp [hr] at coh
      obtain ⟨hs, ha, hq⟩ := coh
      cases hqq : c.queue with
      | nil => exact absurd hqq hq
      | cons d q =>
        refine ⟨?_, ?_, ?_⟩
        · simp [coroutineStart, markRunning, hqq, held]
          simpa [held, hr, hqq] using fifo
        · simp [coroutineStart, markRunning, hqq, good, hs]
        · simp [coroutineStart, markRunning, hqq, Coherent, ha]
    · cases h
  | wk =>
    simp only [step] at h
    unfold Coherent at coh
    split at h
    · rename_i t hr
      simp [hr] at coh
      split at h
      · rename_i d q hq
        cases h
        refine ⟨?_, good, ?_⟩
        · simpa [deliver, held, hr, hq, List.append_assoc] using fifo
        · simp [Coherent, deliver, coh]
      · rename_i hq
        cases h
        refine ⟨?_, good, ?_⟩
        · simpa [held, hr, hq] using fifo
        · simp [Coherent, coh, hq]
    · cases h
  | to =>
    simp only [step] at h
    unfold Coherent at coh
    split at h
    · rename_i n hr
      cases h
      simp [hr] at coh
      refine ⟨?_, good, ?_⟩
      · simpa [held, hr] using fifo
      · simp [Coherent, coh]
    · cases h

theorem inv_run {α} : ∀ (ls : List (Label α)) {c c' : Client α}, Inv c → run c ls = some c' → Inv c'
  | [], c, c', I, h => by simp only [run] at h; cases h; exact I
  | l :: ls, c, c', I, h => by
    simp only [run] at h
    split at h
    · rename_i c1 h1
      exact inv_run ls (inv_step l I h1) h
    · cases h

/-- the system of all addresses: every component satisfies the invariant -/
theorem sys_inv_step {α} {s s' : Sys α} (a : Nat) (l : Label α) (I : ∀ b, Inv (s b)) (h : sstep s a l = some s') :
    ∀ b, Inv (s' b) := by
  unfold sstep at h
  cases hst : step (s a) l with
  | none => rw [hst] at h; cases h
  | some c =>
    rw [hst] at h
    simp only [Option.map_some, Option.some.injEq] at h
    subst h
    intro b
    by_cases hb : b = a
    · subst hb; simpa using inv_step l (I b) hst
    · simpa [hb] using I b

theorem sys_inv_run {α} : ∀ (ls : List (Nat × Label α)) {s s' : Sys α}, (∀ b, Inv (s b)) → srun s ls = some s' →
    ∀ b, Inv (s' b)
  | [], s, s', I, h => by simp only [srun] at h; cases h; exact I
  | (a, l) :: ls, s, s', I, h => by
    simp only [srun] at h
    split at h
    · rename_i s1 h1
      exact sys_inv_run ls (sys_inv_step a l I h1) h
    · cases h

theorem sys_inv_init {α} (b : Nat) : Inv ((Sys.init : Sys α) b) := inv_init


/-- work left: used to show that everything that arrived can be handled -/
def work {α} (c : Client α) : Nat :=
  4 * c.inflight.length + c.pushing + 2 * c.queue.length + (held c.r).length +
    (match c.r with | .scheduled => 1 | _ => 0)

/-- no `arrive` label: the schedule only lets the server and the generator work -/
def noArrive {α} (ls : List (Label α)) : Prop := ∀ l ∈ ls, ∀ d, l ≠ .arrive d

theorem noArrive_nil {α} : noArrive ([] : List (Label α)) := by
  intro l hl; cases hl

theorem can_drain {α} : ∀ (n : Nat) (c : Client α), Inv c → work c ≤ n →
    ∃ ls c', noArrive ls ∧ run c ls = some c' ∧ c'.consumed = c'.arrived ∧ c'.arrived = c.arrived ∧
      c'.queue = [] ∧ c'.inflight = [] := by
  intro n
  induction n with
  | zero =>
    intro c I hw
    -- no work at all
    refine ⟨[], c, noArrive_nil, rfl, ?_, rfl, ?_, ?_⟩
    · have hf := I.fifo
      have h1 : c.inflight = [] := by
        apply List.eq_nil_of_length_eq_zero; unfold work at hw; omega
      have h2 : c.queue = [] := by
        apply List.eq_nil_of_length_eq_zero; unfold work at hw; omega
      have h3 : held c.r = [] := by
        apply List.eq_nil_of_length_eq_zero; unfold work at hw; omega
      simpa [h1, h2, h3] using hf
    · apply List.eq_nil_of_length_eq_zero; unfold work at hw; omega
    · apply List.eq_nil_of_length_eq_zero; unfold work at hw; omega
  | succ n ih =>
    intro c I hw
    -- one step of the canonical schedule, then the induction hypothesis
    have stepThen : ∀ (l : Label α) (c1 : Client α), (∀ d, l ≠ .arrive d) → step c l = some c1 → work c1 ≤ n →
        c1.arrived = c.arrived →
        ∃ ls c', noArrive ls ∧ run c ls = some c' ∧ c'.consumed = c'.arrived ∧ c'.arrived = c.arrived ∧
          c'.queue = [] ∧ c'.inflight = [] := by
      intro l c1 hl hs hw1 ha
      obtain ⟨ls, c', h1, h2, h3, h4, h5, h6⟩ := ih c1 (inv_step l I hs) hw1
      refine ⟨l :: ls, c', ?_, ?_, h3, by rw [h4, ha], h5, h6⟩
      · intro l' hl' d
        rcases List.mem_cons.mp hl' with rfl | hm
        · exact hl d
        · exact h1 l' hm d
      · simp [run, hs, h2]
    have coh := I.coh
    unfold Coherent at coh
    by_cases hp : c.pushing = 0
    · cases hin : c.inflight with
      | cons d rest =>
        -- start the next handler task
        by_cases hidle : c.state = .idle
        · cases hr : c.r <;> simp [hr, hidle] at coh
          obtain ⟨ha, hq⟩ := coh
          have hs : step c .h = some (startInline { c with inflight := rest, queue := c.queue ++ [d] }) := by
            simp [step, hin, hidle]
          refine stepThen .h _ (by intro d; simp) hs ?_ ?_
          · simp [startInline, coroutineStart, markRunning, markPending, hq, work, held]
            simp [work, hin, hq, hr, held] at hw; omega
          · simp [startInline, coroutineStart, markRunning, markPending, hq]
        · have hs : step c .h = some { c with inflight := rest, queue := c.queue ++ [d], pushing := c.pushing + 1 } := by
            simp [step, hin, hidle]
          refine stepThen .h _ (by intro d; simp) hs ?_ ?_
          · simp only [work] at hw ⊢
            simp [hin] at hw ⊢
            omega
          · rfl
      | nil =>
        cases hr : c.r with
        | none =>
          simp [hr] at coh
          refine ⟨[], c, noArrive_nil, rfl, ?_, rfl, coh.2.2, hin⟩
          simpa [hin, coh.2.2, hr, held] using I.fifo
        | scheduled =>
          simp [hr] at coh
          cases hq : c.queue with
          | nil => exact absurd hq coh.2.2
          | cons d q =>
            have hs : step c .rs = some (coroutineStart c) := by simp [step, hr]
            refine stepThen .rs _ (by intro d; simp) hs ?_ ?_
            · simp [coroutineStart, markRunning, hq, work, held, hin]
              simp [work, hin, hq, hr, held, hp] at hw; omega
            · simp [coroutineStart, markRunning, hq]
        | first d =>
          have hs : step c (.gy false) = some { c with consumed := c.consumed ++ [d], r := .handling } := by
            simp [step, hr]
          refine stepThen (.gy false) _ (by intro d; simp) hs ?_ rfl
          simp [work, held, hin]
          simp [work, hin, hr, held, hp] at hw; omega
        | handling =>
          cases hq : c.queue with
          | nil =>
            refine ⟨[], c, noArrive_nil, rfl, ?_, rfl, hq, hin⟩
            simpa [hin, hq, hr, held] using I.fifo
          | cons d q =>
            have hs : step c (.gy false) = some (deliver c d q) := by simp [step, hr, hq]
            refine stepThen (.gy false) _ (by intro d; simp) hs ?_ rfl
            simp [work, deliver, held, hin]
            simp [work, hin, hr, hq, held, hp] at hw; omega
        | waiting t nf =>
          cases hq : c.queue with
          | nil =>
            refine ⟨[], c, noArrive_nil, rfl, ?_, rfl, hq, hin⟩
            simpa [hin, hq, hr, held] using I.fifo
          | cons d q =>
            simp [hr] at coh
            have hn : nf = true := by
              cases nf with
              | true => rfl
              | false => have := coh.2.2 rfl (by simp [hq]); omega
            subst hn
            have hs : step c .wk = some (deliver c d q) := by simp [step, hr, hq]
            refine stepThen .wk _ (by intro d; simp) hs ?_ rfl
            simp [work, deliver, held, hin]
            simp [work, hin, hr, hq, held, hp] at hw; omega
    · -- a handler task is inside push_datagram: let it finish
      have hnidle : ¬ (c.state = .idle ∧ ¬ c.queue.isEmpty = true) := by
        rintro ⟨h1, h2⟩
        cases hr : c.r <;> simp [hr, h1] at coh
        simp [coh.2] at h2
      refine stepThen .hl { c with pushing := c.pushing - 1, r := notify c.r } (by intro d; simp) ?_ ?_ rfl
      · simp only [step, hp, if_false]
        rw [if_neg]
        simpa using hnidle
      · simp only [work] at hw ⊢
        have : (held (notify c.r)).length = (held c.r).length := by cases c.r <;> rfl
        have h2 : (match notify c.r with | .scheduled => 1 | _ => 0) = (match c.r with | .scheduled => 1 | _ => 0) := by
          cases c.r <;> rfl
        simp only [this, h2]
        omega


end EasyNet.DgramSrv
