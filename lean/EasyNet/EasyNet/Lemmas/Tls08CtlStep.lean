/-
  C08: the lock invariant `CIs` is preserved by every step of the wrapper machine (any engine, any schedule), and its
  consequences: the two transport locks are exclusive, and the machine never deadlocks on them.
-/
import EasyNet.Lemmas.Tls08Ctl
import EasyNet.Lemmas.Tls08Core
namespace EasyNet.C08
open EasyNet

def CI (k : Tid → Cl) (sl rl : Lock) : Prop := LI k .holdS .waitS sl ∧ LI k .holdR .waitR rl

def kOf (pc : Tid → PC) : Tid → Cl := fun u => cls (pc u)

/-- the invariant of a state -/
def CIs {σ : Type} (s : St σ) : Prop := CI (kOf s.pc) s.sendLock s.recvLock

/-- the invariant "as if task `t` were in class `c`" (while `t` is running its pc field is stale) -/
def CIv {σ : Type} (s : St σ) (t : Tid) (c : Cl) : Prop := CI (upd (kOf s.pc) t c) s.sendLock s.recvLock

theorem kOf_upd (pc : Tid → PC) (t : Tid) (p : PC) : kOf (upd pc t p) = upd (kOf pc) t (cls p) := by
  funext u; unfold kOf upd; split <;> rfl

theorem upd_upd {α : Type} (f : Tid → α) (t : Tid) (a b : α) : upd (upd f t a) t b = upd f t b := by
  funext u; unfold upd; split <;> rfl

theorem CIs_of_CIv {σ : Type} (s : St σ) (t : Tid) (h : CIs s) : CIv s t (cls (s.pc t)) := by
  unfold CIv; rw [show cls (s.pc t) = kOf s.pc t from rfl, upd_self]; exact h

theorem CI.init {σ : Type} (e : σ) (c : Bool) : CIs (St.init e c) := by
  refine ⟨⟨?_, ?_, ?_, ?_, ?_⟩, ⟨?_, ?_, ?_, ?_, ?_⟩⟩ <;> simp [St.init, kOf, cls]

/-! ### lock primitives on `CI` -/

section prim
variable {k : Tid → Cl} {sl rl : Lock} {t : Tid}

theorem CI.acqFreeS (h : CI k sl rl) (hi : k t = .idle) (hf : sl.free = true) :
    CI (upd k t .holdS) { locked := true, waiters := [] } rl :=
  ⟨h.1.acqFree (by decide) t hf, h.2.frame t _ (by rw [hi]; decide) (by rw [hi]; decide) (by decide) (by decide)⟩

theorem CI.acqParkS (h : CI k sl rl) (hi : k t = .idle) :
    CI (upd k t .waitS) { sl with waiters := sl.waiters ++ [t] } rl :=
  ⟨h.1.acqPark (by decide) t (by rw [hi]; decide) (by rw [hi]; decide),
   h.2.frame t _ (by rw [hi]; decide) (by rw [hi]; decide) (by decide) (by decide)⟩

theorem CI.relS (h : CI k sl rl) (hi : k t = .holdS) : CI (upd k t .idle) { sl with locked := false } rl :=
  ⟨h.1.release t hi _ (by decide) (by decide) (by decide),
   h.2.frame t _ (by rw [hi]; decide) (by rw [hi]; decide) (by decide) (by decide)⟩

theorem CI.grantS (h : CI k sl rl) (hu : sl.locked = false) (hd : sl.waiters.head? = some t) :
    CI (upd k t .holdS) { locked := true, waiters := sl.waiters.tail } rl := by
  have hw : k t = .waitS := (h.1.wait t).2 (List.mem_of_mem_head? hd)
  exact ⟨h.1.grant (by decide) t hu hd, h.2.frame t _ (by rw [hw]; decide) (by rw [hw]; decide) (by decide) (by decide)⟩

theorem CI.acqFreeR (h : CI k sl rl) (hi : k t = .idle) (hf : rl.free = true) :
    CI (upd k t .holdR) sl { locked := true, waiters := [] } :=
  ⟨h.1.frame t _ (by rw [hi]; decide) (by rw [hi]; decide) (by decide) (by decide), h.2.acqFree (by decide) t hf⟩

theorem CI.acqParkR (h : CI k sl rl) (hi : k t = .idle) :
    CI (upd k t .waitR) sl { rl with waiters := rl.waiters ++ [t] } :=
  ⟨h.1.frame t _ (by rw [hi]; decide) (by rw [hi]; decide) (by decide) (by decide),
   h.2.acqPark (by decide) t (by rw [hi]; decide) (by rw [hi]; decide)⟩

theorem CI.relR (h : CI k sl rl) (hi : k t = .holdR) : CI (upd k t .idle) sl { rl with locked := false } :=
  ⟨h.1.frame t _ (by rw [hi]; decide) (by rw [hi]; decide) (by decide) (by decide),
   h.2.release t hi _ (by decide) (by decide) (by decide)⟩

theorem CI.grantR (h : CI k sl rl) (hu : rl.locked = false) (hd : rl.waiters.head? = some t) :
    CI (upd k t .holdR) sl { locked := true, waiters := rl.waiters.tail } := by
  have hw : k t = .waitR := (h.2.wait t).2 (List.mem_of_mem_head? hd)
  exact ⟨h.1.frame t _ (by rw [hw]; decide) (by rw [hw]; decide) (by decide) (by decide), h.2.grant (by decide) t hu hd⟩

end prim

/-! ### the helpers -/

section chain
variable {σ : Type} {E : Engine σ}

theorem finish_ctl (s : St σ) (t : Tid) (m : Meth) (r : Result) :
    (finish s t m r).pc = upd s.pc t .idle ∧ (finish s t m r).sendLock = s.sendLock ∧
    (finish s t m r).recvLock = s.recvLock := by
  unfold finish; split <;> exact ⟨rfl, rfl, rfl⟩

theorem finish_CI (s : St σ) (t : Tid) (m : Meth) (r : Result) (h : CIv s t .idle) : CIs (finish s t m r) := by
  obtain ⟨h1, h2, h3⟩ := finish_ctl s t m r
  unfold CIs; rw [h1, h2, h3, kOf_upd]; exact h

theorem failSsl_CI (s : St σ) (t : Tid) (m : Meth) (o : SslOut) (h : CIv s t .idle) : CIs (failSsl s t m o) := by
  unfold failSsl; exact finish_CI _ t m _ h

theorem failOs_CI (s : St σ) (t : Tid) (m : Meth) (b : Bool) (h : CIv s t .idle) : CIs (failOs s t m b) := by
  unfold failOs; split <;> exact finish_CI _ t m _ h

theorem rdPart_CI (s : St σ) (t : Tid) (m : Meth) (h : CIv s t .idle) : CIs (rdPart s t m) := by
  unfold rdPart St.acquire
  by_cases hf : (s.lock .recv).free = true
  · simp only [hf, if_true]
    show CI (kOf (upd s.pc t (.rdInto m))) s.sendLock { locked := true, waiters := [] }
    rw [kOf_upd]
    have := CI.acqFreeR (t := t) h (upd_same _ _ _) hf
    rwa [upd_upd] at this
  · simp only [hf]
    show CI (kOf (upd s.pc t (.rdLock m))) s.sendLock { s.recvLock with waiters := s.recvLock.waiters ++ [t] }
    rw [kOf_upd]
    have := CI.acqParkR (t := t) h (upd_same _ _ _)
    rwa [upd_upd] at this

theorem release_send_CIv (s : St σ) (t : Tid) (h : CIv s t .holdS) : CIv (s.release t .send) t .idle := by
  have := CI.relS (t := t) h (upd_same _ _ _)
  rw [upd_upd] at this
  exact this

theorem release_recv_CIv (s : St σ) (t : Tid) (h : CIv s t .holdR) : CIv (s.release t .recv) t .idle := by
  have := CI.relR (t := t) h (upd_same _ _ _)
  rw [upd_upd] at this
  exact this

theorem afterWrLock_CI (s : St σ) (t : Tid) (m : Meth) (h : CIv s t .holdS) : CIs (afterWrLock s t m) := by
  unfold afterWrLock
  split
  · show CI (kOf (upd s.pc t (.wrSend m))) s.sendLock s.recvLock
    rw [kOf_upd]; exact h
  · exact rdPart_CI _ t m (release_send_CIv s t h)

theorem afterWwLock_CI (s : St σ) (t : Tid) (m : Meth) (h : CIv s t .holdS) : CIs (afterWwLock s t m) := by
  unfold afterWwLock
  show CI (kOf (upd s.pc t (.wwSend m))) s.sendLock s.recvLock
  rw [kOf_upd]; exact h

theorem afterOkLock_CI (s : St σ) (t : Tid) (m : Meth) (h : CIv s t .holdS) : CIs (afterOkLock s t m) := by
  unfold afterOkLock
  split
  · show CI (kOf (upd s.pc t (.okSend m))) s.sendLock s.recvLock
    rw [kOf_upd]; exact h
  · exact finish_CI _ t m _ (release_send_CIv s t h)

/-- `async with send_lock:` entered from a neutral state: either the lock is ours, or we are parked with pc `p` -/
theorem sendPart_CI (s : St σ) (t : Tid) (p : PC) (hp : cls p = .waitS) (after : St σ → St σ)
    (hafter : ∀ s1 : St σ, CIv s1 t .holdS → CIs (after s1)) (h : CIv s t .idle) :
    CIs (if (s.acquire t .send).2 then after (s.acquire t .send).1 else (s.acquire t .send).1.setPc t p) := by
  unfold St.acquire
  by_cases hf : (s.lock .send).free = true
  · simp only [hf, if_true]
    refine hafter _ ?_
    have := CI.acqFreeS (t := t) h (upd_same _ _ _) hf
    rw [upd_upd] at this
    exact this
  · simp only [hf]
    show CI (kOf (upd s.pc t p)) { s.sendLock with waiters := s.sendLock.waiters ++ [t] } s.recvLock
    rw [kOf_upd, hp]
    have := CI.acqParkS (t := t) h (upd_same _ _ _)
    rwa [upd_upd] at this

theorem wrPart_CI (s : St σ) (t : Tid) (m : Meth) (h : CIv s t .idle) : CIs (wrPart s t m) := by
  unfold wrPart
  split
  · exact sendPart_CI s t _ rfl _ (fun s1 h1 => afterWrLock_CI s1 t m h1) h
  · exact rdPart_CI s t m h

theorem wwPart_CI (s : St σ) (t : Tid) (m : Meth) (h : CIv s t .idle) : CIs (wwPart s t m) := by
  unfold wwPart; exact sendPart_CI s t _ rfl _ (fun s1 h1 => afterWwLock_CI s1 t m h1) h

theorem okPart_CI (s : St σ) (t : Tid) (m : Meth) (h : CIv s t .idle) : CIs (okPart s t m) := by
  unfold okPart; exact sendPart_CI s t _ rfl _ (fun s1 h1 => afterOkLock_CI s1 t m h1) h

/-- the method call does not touch pc / locks -/
theorem engine_ctl (s : St σ) (t : Tid) (c : Call) :
    (s.engine E t c).1.pc = s.pc ∧ (s.engine E t c).1.sendLock = s.sendLock ∧ (s.engine E t c).1.recvLock = s.recvLock :=
  ⟨rfl, rfl, rfl⟩

theorem writeLoop_ctl (t : Tid) (dq : List (List TB)) (s : St σ) :
    (writeLoop E t dq s).1.pc = s.pc ∧ (writeLoop E t dq s).1.sendLock = s.sendLock ∧
    (writeLoop E t dq s).1.recvLock = s.recvLock := by
  fun_induction writeLoop E t dq s with
  | case1 s => exact ⟨rfl, rfl, rfl⟩
  | case2 d dq s => exact ⟨rfl, rfl, rfl⟩
  | case3 d dq s n _ _ _ ih => exact ih
  | case4 d dq s n _ _ ih => exact ih
  | case5 d dq s => exact ⟨rfl, rfl, rfl⟩

theorem callMeth_ctl (t : Tid) (m : Meth) (s : St σ) :
    (callMeth E t m s).1.pc = s.pc ∧ (callMeth E t m s).1.sendLock = s.sendLock ∧
    (callMeth E t m s).1.recvLock = s.recvLock := by
  unfold callMeth
  split
  · split <;> exact ⟨rfl, rfl, rfl⟩
  · split <;> exact ⟨rfl, rfl, rfl⟩
  · exact writeLoop_ctl t s.deque s

theorem CIv_congr {s s' : St σ} (t : Tid) (c : Cl) (h : s'.pc = s.pc ∧ s'.sendLock = s.sendLock ∧ s'.recvLock = s.recvLock)
    (hv : CIv s t c) : CIv s' t c := by
  unfold CIv; rw [h.1, h.2.1, h.2.2]; exact hv

theorem noteDone_ctl (s : St σ) (t : Tid) (m : Meth) :
    (noteDone s t m).pc = s.pc ∧ (noteDone s t m).sendLock = s.sendLock ∧ (noteDone s t m).recvLock = s.recvLock := by
  unfold noteDone; split <;> exact ⟨rfl, rfl, rfl⟩

theorem attempt_CI (s : St σ) (t : Tid) (m : Meth) (h : CIv s t .idle) : CIs (attempt E s t m) := by
  have h1 : CIv (callMeth E t m s).1 t .idle := CIv_congr t _ (callMeth_ctl t m s) h
  unfold attempt
  split
  · split
    · exact finish_CI _ t m _ h1
    · exact okPart_CI _ t m (CIv_congr t _ (noteDone_ctl _ t m) h1)
  · exact wrPart_CI _ t m (CIv_congr t _ ⟨rfl, rfl, rfl⟩ h1)
  · exact wwPart_CI _ t m h1
  · exact failSsl_CI _ t m _ h1
  · exact finish_CI _ t m _ h1

theorem apiCall_CI (s : St σ) (t : Tid) (a : Api) (h : CIv s t .idle) : CIs (apiCall E s t a) := by
  cases a with
  | handshake => exact attempt_CI s t _ h
  | recv n => exact attempt_CI s t _ h
  | recvInto c => exact attempt_CI s t _ h
  | sendAll d => exact attempt_CI _ t _ (CIv_congr t _ ⟨rfl, rfl, rfl⟩ h)
  | sendIter ds => exact attempt_CI _ t _ (CIv_congr t _ ⟨rfl, rfl, rfl⟩ h)

theorem grant_send_CIv {s s1 : St σ} {t : Tid} (h : CIs s) (hg : s.grant t .send = some s1) : CIv s1 t .holdS := by
  unfold St.grant at hg
  split at hg
  · rename_i hc
    cases hg
    have := CI.grantS (t := t) h hc.1 hc.2
    show CI (upd (kOf s.pc) t .holdS) { locked := true, waiters := s.sendLock.waiters.tail } s.recvLock
    exact this
  · cases hg

theorem grant_recv_CIv {s s1 : St σ} {t : Tid} (h : CIs s) (hg : s.grant t .recv = some s1) : CIv s1 t .holdR := by
  unfold St.grant at hg
  split at hg
  · rename_i hc
    cases hg
    have := CI.grantR (t := t) h hc.1 hc.2
    show CI (upd (kOf s.pc) t .holdR) s.sendLock { locked := true, waiters := s.recvLock.waiters.tail }
    exact this
  · cases hg

theorem resume_CI (s s' : St σ) (t : Tid) (io : IoRes) (h : CIs s) (hs : resume E s t io = some s') : CIs s' := by
  have hv := CIs_of_CIv s t h
  unfold resume at hs
  split at hs
  · cases hs
  · simp only [Option.map_eq_some_iff] at hs
    obtain ⟨s1, hg, rfl⟩ := hs
    exact afterWrLock_CI _ t _ (grant_send_CIv h hg)
  · rename_i hpc; rw [hpc] at hv
    cases hs; exact rdPart_CI _ t _ (release_send_CIv s t hv)
  · rename_i hpc; rw [hpc] at hv
    cases hs; exact failOs_CI _ t _ _ (release_send_CIv s t hv)
  · simp only [Option.map_eq_some_iff] at hs
    obtain ⟨s1, hg, rfl⟩ := hs
    have := grant_recv_CIv h hg
    show CI (kOf (upd s1.pc t (.rdInto _))) s1.sendLock s1.recvLock
    rw [kOf_upd]; exact this
  · rename_i hpc; rw [hpc] at hv
    split at hs
    · cases hs
      exact attempt_CI _ t _ (release_recv_CIv _ t (CIv_congr t _ ⟨rfl, rfl, rfl⟩ hv))
    · split at hs
      · cases hs
        exact finish_CI _ t _ _ (CIv_congr t _ ⟨rfl, rfl, rfl⟩ (release_recv_CIv s t hv))
      · cases hs
        exact attempt_CI _ t _ (release_recv_CIv _ t (CIv_congr t _ ⟨rfl, rfl, rfl⟩ hv))
  · rename_i hpc; rw [hpc] at hv
    cases hs; exact failOs_CI _ t _ _ (release_recv_CIv s t hv)
  · simp only [Option.map_eq_some_iff] at hs
    obtain ⟨s1, hg, rfl⟩ := hs
    exact afterWwLock_CI _ t _ (grant_send_CIv h hg)
  · rename_i hpc; rw [hpc] at hv
    cases hs; exact attempt_CI _ t _ (release_send_CIv s t hv)
  · rename_i hpc; rw [hpc] at hv
    cases hs; exact failOs_CI _ t _ _ (release_send_CIv s t hv)
  · simp only [Option.map_eq_some_iff] at hs
    obtain ⟨s1, hg, rfl⟩ := hs
    exact afterOkLock_CI _ t _ (grant_send_CIv h hg)
  · rename_i hpc; rw [hpc] at hv
    cases hs; exact finish_CI _ t _ _ (release_send_CIv s t hv)
  · rename_i hpc; rw [hpc] at hv
    cases hs; exact failOs_CI _ t _ _ (release_send_CIv s t hv)
  · cases hs

theorem step_CI (s s' : St σ) (e : Ev) (h : CIs s) (hs : step E s e = some s') : CIs s' := by
  cases e with
  | call t a =>
    simp only [step] at hs
    split at hs
    · rename_i hpc
      cases hs
      have hv := CIs_of_CIv s t h
      rw [hpc] at hv
      exact apiCall_CI s t a hv
    · cases hs
  | resume t io => exact resume_CI s s' t io h hs

theorem run_CI (evs : List Ev) (s s' : St σ) (h : CIs s) (hr : run E s evs = some s') : CIs s' := by
  induction evs generalizing s with
  | nil => simp only [run] at hr; cases hr; exact h
  | cons e es ih =>
    simp only [run] at hr
    split at hr
    · rename_i s1 hs1
      exact ih s1 (step_CI s s1 e h hs1) hr
    · cases hr

end chain
end EasyNet.C08

namespace EasyNet.C08
open EasyNet

/-! ### consequences -/

theorem cls_idle (p : PC) : cls p = .idle ↔ p = .idle := by cases p <;> simp [cls]

/-- a task that holds a lock can always be resumed: its transport call may complete -/
theorem resume_holder {σ : Type} (E : Engine σ) (s : St σ) (t : Tid)
    (h : cls (s.pc t) = .holdS ∨ cls (s.pc t) = .holdR) : ∃ io, (resume E s t io).isSome = true := by
  cases hp : s.pc t with
  | wrSend m => exact ⟨.ok, by simp [resume, hp]⟩
  | wwSend m => exact ⟨.ok, by simp [resume, hp]⟩
  | okSend m => exact ⟨.ok, by simp [resume, hp]⟩
  | rdInto m => exact ⟨.data [], by simp [resume, hp]⟩
  | _ => rw [hp] at h; simp [cls] at h

/-- the head of the queue of a free lock can always be resumed -/
theorem resume_waiter {σ : Type} (E : Engine σ) (s : St σ) (t : Tid) (l : LockId)
    (hc : cls (s.pc t) = (match l with | .send => Cl.waitS | .recv => Cl.waitR))
    (hu : (s.lock l).locked = false) (hd : (s.lock l).waiters.head? = some t) :
    (resume E s t .ok).isSome = true := by
  have hg : (s.grant t l).isSome = true := by simp [St.grant, hu, hd]
  cases l with
  | send =>
    cases hp : s.pc t with
    | wrLock m => simp [resume, hp, hg]
    | wwLock m => simp [resume, hp, hg]
    | okLock m => simp [resume, hp, hg]
    | _ => rw [hp] at hc; simp [cls] at hc
  | recv =>
    cases hp : s.pc t with
    | rdLock m => simp [resume, hp, hg]
    | _ => rw [hp] at hc; simp [cls] at hc

theorem progress_of_CIs {σ : Type} (E : Engine σ) (s : St σ) (h : CIs s) (hne : ∃ t, s.pc t ≠ .idle) :
    ∃ t io, (resume E s t io).isSome = true := by
  obtain ⟨t, ht⟩ := hne
  have one : ∀ (lk : Lock) (l : LockId) (hC wC : Cl), s.lock l = lk → LI (kOf s.pc) hC wC lk →
      (wC = match l with | .send => Cl.waitS | .recv => Cl.waitR) → (hC = .holdS ∨ hC = .holdR) →
      kOf s.pc t = wC → ∃ t io, (resume E s t io).isSome = true := by
    intro lk l hC wC hlk hli hw hh hk
    by_cases hl : lk.locked = true
    · obtain ⟨u, hu⟩ := hli.held hl
      obtain ⟨io, hio⟩ := resume_holder E s u (by
        rcases hh with e | e
        · left; rw [← e]; exact hu
        · right; rw [← e]; exact hu)
      exact ⟨u, io, hio⟩
    · have hmem := (hli.wait t).1 hk
      cases hws : lk.waiters with
      | nil => rw [hws] at hmem; cases hmem
      | cons v rest =>
        have hv : kOf s.pc v = wC := (hli.wait v).2 (by rw [hws]; simp)
        refine ⟨v, .ok, resume_waiter E s v l (by rw [← hw]; exact hv) (by rw [hlk]; simpa using hl) (by rw [hlk, hws]; rfl)⟩
  cases hk : kOf s.pc t with
  | idle => exact absurd ((cls_idle _).1 hk) ht
  | holdS => obtain ⟨io, hio⟩ := resume_holder E s t (.inl hk); exact ⟨t, io, hio⟩
  | holdR => obtain ⟨io, hio⟩ := resume_holder E s t (.inr hk); exact ⟨t, io, hio⟩
  | waitS => exact one s.sendLock .send .holdS .waitS rfl h.1 rfl (.inl rfl) hk
  | waitR => exact one s.recvLock .recv .holdR .waitR rfl h.2 rfl (.inr rfl) hk

end EasyNet.C08
