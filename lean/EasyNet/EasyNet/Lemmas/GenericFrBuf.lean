/-
  Buffered path of the generic framers.

  `_wrap_generic_buffered_incremental_deserialize` sends `buffer[:nbytes]` to the very same generator as the copy path
  and always yields write position 0; the buffer-filling consumer re-injects a remainder at position 0 and feeds it
  back together with the next bytes.  Hence, for every framer of that shape (`bwrap feed`), the buffer-filling
  consumer is step-by-step equivalent to the copying consumer over `feed` on the same reads, PROVIDED every remainder
  fits the buffer — which holds when no remainder is longer than the chunk just sent (`Fits`; for the generic framers
  this is the loader law `ok_pre`/`bad_pre`: a packet is complete when its last byte is there).
-/
import EasyNet.Lemmas.GenericFr
import EasyNet.Lemmas.BufConsumerSim
namespace EasyNet.GenericFr
open EasyNet

def toB {σ} : Res σ → BRes σ
  | .need s => .need s 0
  | .done d r => .done d r
  | .fail r => .fail r

/-- a buffered framer obtained from a copy framer the way `_wrap_generic_buffered_incremental_deserialize` does -/
def bwrap {σ} (feed : σ → Bytes → Res σ) (s : σ) (buffer : Bytes) (nb : Nat) : BRes σ :=
  toB (feed s (buffer.take nb))

theorem toBRes_eq {σ} (g : GRes σ) : g.toBRes = toB g.toRes := by cases g <;> rfl

theorem bfeed_eq (load : Bytes → LoadRes) (limit : Nat) : bfeed load limit = bwrap (feed load limit) := by
  funext s buffer nb
  simp only [bfeed, bwrap, feed, toBRes_eq]

theorem cbfeed_eq (dec : Bytes → DecRes) : cbfeed dec = bwrap (cfeed dec) := by
  funext s buffer nb
  simp only [cbfeed, bwrap, cfeed, toBRes_eq]

/-- remainders never exceed the chunk just sent, along every run (`Good` = invariant of the suspended states) -/
structure Fits {σ} (init : σ) (feed : σ → Bytes → Res σ) (Good : σ → Prop) : Prop where
  init : Good init
  need : ∀ s c s', Good s → feed s c = .need s' → Good s'
  done_le : ∀ s c d r, Good s → feed s c = .done d r → r.length ≤ c.length
  fail_le : ∀ s c r, Good s → feed s c = .fail r → r.length ≤ c.length

/-- buffered consumer `bc` and copying consumer `c` are in the same situation -/
def Sim {σ} (cap : Nat) (init : σ) (Good : σ → Prop) (bc : BufConsumer σ) (c : Consumer σ) : Prop :=
  bc.crashed = false ∧ (bc.buffer = [] ∨ bc.buffer.length = cap) ∧ bc.written ≤ bc.buffer.length ∧
  c.buffer = bc.buffer.take bc.written ∧
  ((bc.fr = none ∧ bc.written = 0 ∧ c.fr = none) ∨
   (∃ s, bc.fr = some s ∧ bc.buffer.length = cap ∧ bc.start = 0 ∧ Good s ∧
      ((c.fr = some s ∧ bc.written = 0) ∨ (c.fr = none ∧ s = init))))

section
variable {σ : Type} {init : σ} {feed : σ → Bytes → Res σ} {Good : σ → Prop}

theorem sim_new (cap : Nat) (init : σ) (Good : σ → Prop) :
    Sim cap init Good (BufConsumer.new : BufConsumer σ) (Consumer.new : Consumer σ) := by
  refine ⟨rfl, Or.inl rfl, ?_, ?_, Or.inl ⟨rfl, rfl, rfl⟩⟩ <;> simp [BufConsumer.new, Consumer.new]

theorem saveRemainder_sim (cap : Nat) (hcap : 0 < cap) (F : Fits init feed Good)
    (bc : BufConsumer σ) (r : Bytes) (hfr : bc.fr = none) (hw : bc.written = 0) (hlen : bc.buffer.length = cap)
    (hcr : bc.crashed = false) (hr : r.length ≤ cap) :
    Sim cap init Good (BufConsumer.saveRemainder init 0 cap bc r) ⟨r, none⟩ ∧
    (BufConsumer.saveRemainder init 0 cap bc r).written = r.length := by
  unfold BufConsumer.saveRemainder
  by_cases hre : r.isEmpty
  · have : r = [] := by simpa using hre
    subst this
    simp only [List.isEmpty_nil, if_true]
    exact ⟨⟨hcr, Or.inr hlen, by omega, by simp [hw], Or.inl ⟨hfr, hw, rfl⟩⟩, by simp [hw]⟩
  · have hne : bc.buffer.isEmpty = false := by
      cases hb : bc.buffer with
      | nil => rw [hb] at hlen; simp at hlen; omega
      | cons x xs => simp
    simp only [hre, Bool.false_eq_true, if_false, BufConsumer.prepare, hfr, hne, BufConsumer.room, hw]
    have hroom : ¬ (bc.buffer.length - (0 + 0) = 0) := by omega
    simp only [hroom, if_false, Nat.add_zero, Nat.zero_add]
    have hwl : (writeAt bc.buffer 0 r).length = cap := by
      rw [writeAt_length _ _ _ (by omega)]; exact hlen
    refine ⟨⟨hcr, Or.inr hwl, ?_, ?_, Or.inr ⟨init, rfl, hwl, rfl, F.init, Or.inr ⟨rfl, rfl⟩⟩⟩, trivial⟩
    · show r.length ≤ (writeAt bc.buffer 0 r).length
      omega
    · show r = (writeAt bc.buffer 0 r).take r.length
      have := writeAt_take_end bc.buffer 0 r (by omega)
      simpa using this.symm

/-- the outcome of one framer call, seen from both consumers -/
theorem after_feed_sim (cap : Nat) (hcap : 0 < cap) (F : Fits init feed Good)
    (bc : BufConsumer σ) (s : σ) (chunk : Bytes) (hg : Good s) (hlen : bc.buffer.length = cap)
    (hcr : bc.crashed = false) (hchunk : chunk.length ≤ cap) :
    match feed s chunk with
    | .need s' => Sim cap init Good { bc with written := 0, fr := some s', start := 0 } ⟨[], some s'⟩
    | .done _ r =>
      Sim cap init Good (BufConsumer.saveRemainder init 0 cap { bc with written := 0, fr := none } r) ⟨r, none⟩ ∧
      (BufConsumer.saveRemainder init 0 cap { bc with written := 0, fr := none } r).written = r.length
    | .fail r =>
      Sim cap init Good (BufConsumer.saveRemainder init 0 cap { bc with written := 0, fr := none } r) ⟨r, none⟩ ∧
      (BufConsumer.saveRemainder init 0 cap { bc with written := 0, fr := none } r).written = r.length := by
  cases hf : feed s chunk with
  | need s' =>
    exact ⟨hcr, Or.inr hlen, by simp, by simp, Or.inr ⟨s', rfl, hlen, rfl, F.need s chunk s' hg hf, Or.inl ⟨rfl, rfl⟩⟩⟩
  | done d r =>
    have := F.done_le s chunk d r hg hf
    exact saveRemainder_sim cap hcap F _ r rfl rfl hlen hcr (by omega)
  | fail r =>
    have := F.fail_le s chunk r hg hf
    exact saveRemainder_sim cap hcap F _ r rfl rfl hlen hcr (by omega)

/-- `next(None)` on both consumers -/
theorem next0_sim (cap : Nat) (hcap : 0 < cap) (F : Fits init feed Good)
    (bc : BufConsumer σ) (c : Consumer σ) (h : Sim cap init Good bc c) :
    (BufConsumer.next init 0 cap (bwrap feed) bc 0).2 = (Consumer.next init feed c []).2 ∧
    Sim cap init Good (BufConsumer.next init 0 cap (bwrap feed) bc 0).1 (Consumer.next init feed c []).1 ∧
    ((BufConsumer.next init 0 cap (bwrap feed) bc 0).2 ≠ none →
      (BufConsumer.next init 0 cap (bwrap feed) bc 0).1.written = (Consumer.next init feed c []).1.buffer.length) := by
  obtain ⟨hcr, hbuf, hwle, hcb, hcase⟩ := h
  rcases hcase with ⟨hfr, hw, hcfr⟩ | ⟨s, hfr, hlen, hst, hg, hc⟩
  · -- idle: StopIteration on both sides
    have hcb' : c.buffer = [] := by rw [hcb, hw]; simp
    have h1 : BufConsumer.next init 0 cap (bwrap feed) bc 0 = (bc, none) := by
      unfold BufConsumer.next; simp [hfr]
    have h2 : Consumer.next init feed c [] = (c, none) := by
      unfold Consumer.next; simp [hcb']
    rw [h1, h2]
    exact ⟨rfl, ⟨hcr, hbuf, hwle, hcb, Or.inl ⟨hfr, hw, hcfr⟩⟩, fun hc => absurd rfl hc⟩
  · by_cases hw : bc.written = 0
    · have hcb' : c.buffer = [] := by rw [hcb, hw]; simp
      have h1 : BufConsumer.next init 0 cap (bwrap feed) bc 0 = ({ bc with written := 0 }, none) := by
        unfold BufConsumer.next; simp [hfr, hw]
      have h2 : Consumer.next init feed c [] = (c, none) := by
        unfold Consumer.next; simp [hcb']
      rw [h1, h2]
      refine ⟨rfl, ⟨hcr, hbuf, by simp, by simp [hcb'], Or.inr ⟨s, hfr, hlen, hst, hg, ?_⟩⟩, fun hc => absurd rfl hc⟩
      rcases hc with ⟨h1, _⟩ | h2
      · exact Or.inl ⟨h1, rfl⟩
      · exact Or.inr h2
    · -- a re-injected remainder is pending: the framer is a fresh one on both sides
      have hcs : c.fr = none ∧ s = init := by
        rcases hc with ⟨_, h0⟩ | h2
        · exact absurd h0 hw
        · exact h2
      obtain ⟨hcfr, hs⟩ := hcs
      rw [hs] at hfr hg
      have hcbne : c.buffer.isEmpty = false := by
        have : c.buffer.length = bc.written := by rw [hcb]; simp; omega
        cases hb : c.buffer with
        | nil => rw [hb] at this; simp at this; omega
        | cons x xs => simp
      have hsim := after_feed_sim cap hcap F bc init (bc.buffer.take bc.written) hg hlen hcr (by simp; omega)
      unfold BufConsumer.next Consumer.next
      rw [← hcb] at hsim
      simp only [hfr, Nat.zero_add, hw, if_false, List.isEmpty_nil, hcbne, Bool.false_eq_true, and_false, if_true,
        hcfr, bwrap, ← hcb]
      cases hf : feed init c.buffer with
      | need s' =>
        rw [hf] at hsim
        simp only [toB]
        exact ⟨by simp, hsim, by simp⟩
      | done d r =>
        rw [hf] at hsim
        simp only [toB]
        exact ⟨by simp, hsim.1, fun _ => hsim.2⟩
      | fail r =>
        rw [hf] at hsim
        simp only [toB]
        exact ⟨by simp, hsim.1, fun _ => hsim.2⟩

theorem drain_sim (cap : Nat) (hcap : 0 < cap) (F : Fits init feed Good) (fuel : Nat)
    (bc : BufConsumer σ) (c : Consumer σ) (h : Sim cap init Good bc c) :
    (BufConsumer.drain init 0 cap (bwrap feed) fuel bc).2 = (Consumer.drain init feed fuel c).2 ∧
    Sim cap init Good (BufConsumer.drain init 0 cap (bwrap feed) fuel bc).1 (Consumer.drain init feed fuel c).1 := by
  induction fuel generalizing bc c with
  | zero => exact ⟨rfl, h⟩
  | succ fuel ih =>
    have hn := next0_sim cap hcap F bc c h
    unfold BufConsumer.drain Consumer.drain
    cases h1 : BufConsumer.next init 0 cap (bwrap feed) bc 0 with
    | mk bc' it =>
      cases h2 : Consumer.next init feed c [] with
      | mk c' it' =>
        rw [h1, h2] at hn
        simp only at hn
        obtain ⟨hit, hsim, _⟩ := hn
        subst hit
        cases it with
        | none => exact ⟨rfl, hsim⟩
        | some i =>
          have := ih bc' c' hsim
          exact ⟨by simp [this.1], this.2⟩

/-- one transport read on both consumers -/
theorem fill_sim (cap : Nat) (hcap : 0 < cap) (F : Fits init feed Good)
    (bc : BufConsumer σ) (c : Consumer σ) (h : Sim cap init Good bc c) (d : Bytes) (hd : d ≠ [])
    (hfit : d.length ≤ (BufConsumer.prepare init 0 cap bc).room) :
    (BufConsumer.fill init 0 cap (bwrap feed) bc d).2 = (Consumer.recvChunk init feed c d).2 ∧
    Sim cap init Good (BufConsumer.fill init 0 cap (bwrap feed) bc d).1 (Consumer.recvChunk init feed c d).1 := by
  have hdpos : 0 < d.length := List.length_pos_iff.mpr hd
  have hdne : d.isEmpty = false := by
    cases d with
    | nil => exact absurd rfl hd
    | cons x xs => rfl
  obtain ⟨hcr, hbuf, hwle, hcb, hcase⟩ := h
  -- the state after `prepare`
  have hprep : ∃ s, (BufConsumer.prepare init 0 cap bc).fr = some s ∧
      (BufConsumer.prepare init 0 cap bc).buffer.length = cap ∧
      (BufConsumer.prepare init 0 cap bc).start = 0 ∧
      (BufConsumer.prepare init 0 cap bc).written = bc.written ∧
      (BufConsumer.prepare init 0 cap bc).crashed = false ∧
      (BufConsumer.prepare init 0 cap bc).buffer.take bc.written = c.buffer ∧
      bc.written ≤ cap ∧ Good s ∧ (c.fr = some s ∨ (c.fr = none ∧ s = init)) := by
    rcases hcase with ⟨hfr, hw, hcfr⟩ | ⟨s, hfr, hlen, hst, hg, hc⟩
    · refine ⟨init, ?_, ?_, ?_, ?_, ?_, ?_, ?_, F.init, ?_⟩
      · simp [BufConsumer.prepare, hfr]
      · simp only [BufConsumer.prepare, hfr]
        rcases hbuf with hb | hb
        · simp [hb]
        · have : bc.buffer.isEmpty = false := by
            cases hc : bc.buffer with
            | nil => rw [hc] at hb; simp at hb; omega
            | cons x xs => rfl
          simp [this, hb]
      · simp [BufConsumer.prepare, hfr]
      · simp [BufConsumer.prepare, hfr]
      · simp [BufConsumer.prepare, hfr, hcr]
      · rw [hcb, hw]; simp
      · omega
      · exact Or.inr ⟨hcfr, rfl⟩
    · have hne : bc.buffer.isEmpty = false := by
        cases hc : bc.buffer with
        | nil => rw [hc] at hlen; simp at hlen; omega
        | cons x xs => rfl
      refine ⟨s, ?_, ?_, ?_, ?_, ?_, ?_, by omega, hg, ?_⟩
      · simp [BufConsumer.prepare, hfr]
      · simp [BufConsumer.prepare, hfr, hne, hlen]
      · simp [BufConsumer.prepare, hfr, hst]
      · simp [BufConsumer.prepare, hfr]
      · simp [BufConsumer.prepare, hfr, hcr]
      · simp [BufConsumer.prepare, hfr, hne, hcb]
      · rcases hc with ⟨h1, _⟩ | ⟨h1, h2⟩
        · exact Or.inl h1
        · exact Or.inr ⟨h1, h2⟩
  obtain ⟨s, pfr, plen, pst, pw, pcr, ptake, pwle, pg, peff⟩ := hprep
  have hroom : (BufConsumer.prepare init 0 cap bc).room = cap - bc.written := by
    simp [BufConsumer.room, plen, pst, pw]
  rw [hroom] at hfit
  have hroom0 : ¬ ((BufConsumer.prepare init 0 cap bc).room = 0) := by rw [hroom]; omega
  unfold BufConsumer.fill
  simp only [hroom0, if_false]
  let c2 : BufConsumer σ := { BufConsumer.prepare init 0 cap bc with
    buffer := writeAt (BufConsumer.prepare init 0 cap bc).buffer
      ((BufConsumer.prepare init 0 cap bc).start + (BufConsumer.prepare init 0 cap bc).written) d }
  have hpos2 : (BufConsumer.prepare init 0 cap bc).start + (BufConsumer.prepare init 0 cap bc).written = bc.written := by
    rw [pst, pw]; omega
  have c2len : c2.buffer.length = cap := by
    show (writeAt _ _ d).length = cap
    rw [hpos2, writeAt_length _ _ _ (by omega)]; exact plen
  have c2take : c2.buffer.take (d.length + c2.written) = c.buffer ++ d := by
    show (writeAt _ _ d).take (d.length + (BufConsumer.prepare init 0 cap bc).written) = c.buffer ++ d
    rw [hpos2, pw]
    have : d.length + bc.written = bc.written + d.length := by omega
    rw [this, writeAt_take_end _ _ _ (by omega), ptake]
  have c2w : c2.written = bc.written := pw
  have hsim := after_feed_sim cap hcap F c2 s (c.buffer ++ d) pg c2len pcr
    (by rw [← c2take]; simp only [List.length_take]; omega)
  -- the copying side
  have hrecv : (if d.isEmpty = true then c.buffer else c.buffer ++ d) = c.buffer ++ d := by simp [hdne]
  have hnot : ¬ (d.isEmpty = true ∧ c.buffer.isEmpty = true) := by simp [hdne]
  have hne0 : ¬ (d.length + c2.written = 0) := by omega
  show (match BufConsumer.next init 0 cap (bwrap feed) c2 d.length with
    | (c', some it) =>
      ((BufConsumer.drain init 0 cap (bwrap feed) (c'.written + 1) c').1,
        it :: (BufConsumer.drain init 0 cap (bwrap feed) (c'.written + 1) c').2)
    | (c', none) => (c', [])).2 = _ ∧ Sim cap init Good (match BufConsumer.next init 0 cap (bwrap feed) c2 d.length with
    | (c', some it) =>
      ((BufConsumer.drain init 0 cap (bwrap feed) (c'.written + 1) c').1,
        it :: (BufConsumer.drain init 0 cap (bwrap feed) (c'.written + 1) c').2)
    | (c', none) => (c', [])).1 _
  have hnext : BufConsumer.next init 0 cap (bwrap feed) c2 d.length =
      (match feed s (c.buffer ++ d) with
       | .need s' => ({ c2 with written := 0, fr := some s', start := 0 }, none)
       | .done data rest =>
         (BufConsumer.saveRemainder init 0 cap { c2 with written := 0, fr := none } rest, some (.frame data))
       | .fail rest =>
         (BufConsumer.saveRemainder init 0 cap { c2 with written := 0, fr := none } rest, some .limit)) := by
    unfold BufConsumer.next
    have : c2.fr = some s := pfr
    simp only [this, hne0, if_false, bwrap, c2take]
    cases feed s (c.buffer ++ d) <;> rfl
  have hcons : Consumer.next init feed c d =
      (match feed s (c.buffer ++ d) with
       | .done data rest => (⟨rest, none⟩, some (.frame data))
       | .fail rest => (⟨rest, none⟩, some .limit)
       | .need s' => (⟨[], some s'⟩, none)) := by
    unfold Consumer.next
    rcases peff with h1 | ⟨h1, h2⟩
    · simp only [hnot, if_false, hrecv, h1]
      cases feed s (c.buffer ++ d) <;> rfl
    · simp only [hnot, if_false, hrecv, h1, h2]
      cases feed init (c.buffer ++ d) <;> rfl
  unfold Consumer.recvChunk
  rw [hcons, hnext]
  cases hf : feed s (c.buffer ++ d) with
  | need s' =>
    rw [hf] at hsim
    exact ⟨rfl, hsim⟩
  | done dd r =>
    rw [hf] at hsim
    simp only
    rw [hsim.2]
    have := drain_sim cap hcap F (r.length + 1) _ _ hsim.1
    exact ⟨by simp [this.1], this.2⟩
  | fail r =>
    rw [hf] at hsim
    simp only
    rw [hsim.2]
    have := drain_sim cap hcap F (r.length + 1) _ _ hsim.1
    exact ⟨by simp [this.1], this.2⟩

/-- **Buffered consumer = copying consumer** over a generic-wrapper framer, for every history of fitting, non-empty fills. -/
theorem runFills_sim (cap : Nat) (hcap : 0 < cap) (F : Fits init feed Good)
    (ds : List Bytes) (bc : BufConsumer σ) (c : Consumer σ) (h : Sim cap init Good bc c)
    (r : BufConsumer σ × List Item) (hrun : BufConsumer.runFills init 0 cap (bwrap feed) bc ds = some r) :
    r.2 = (Consumer.run init feed c ds).2 ∧ Sim cap init Good r.1 (Consumer.run init feed c ds).1 := by
  induction ds generalizing bc c r with
  | nil =>
    simp only [BufConsumer.runFills, Option.some.injEq] at hrun
    subst hrun
    exact ⟨rfl, h⟩
  | cons d ds ih =>
    unfold BufConsumer.runFills at hrun
    by_cases hbad : d.isEmpty ∨ d.length > (BufConsumer.prepare init 0 cap bc).room
    · rw [if_pos hbad] at hrun; cases hrun
    · rw [if_neg hbad] at hrun
      have hd : d ≠ [] := by
        intro e; apply hbad; left; simp [e]
      have hfit : d.length ≤ (BufConsumer.prepare init 0 cap bc).room := by
        apply Nat.le_of_not_gt; intro e; apply hbad; right; exact e
      have hf := fill_sim cap hcap F bc c h d hd hfit
      cases hrest : BufConsumer.runFills init 0 cap (bwrap feed) (BufConsumer.fill init 0 cap (bwrap feed) bc d).1 ds with
      | none => rw [hrest] at hrun; cases hrun
      | some r' =>
        rw [hrest] at hrun
        simp only [Option.some.injEq] at hrun
        subst hrun
        have := ih _ _ hf.2 r' hrest
        simp only [Consumer.run]
        exact ⟨by rw [hf.1, this.1], this.2⟩

/-- the write buffer offered never exceeds the capacity -/
theorem room_le (cap : Nat) (bc : BufConsumer σ) (c : Consumer σ) (h : Sim cap init Good bc c) :
    (BufConsumer.prepare init 0 cap bc).room ≤ cap := by
  obtain ⟨_, hbuf, _, _, _⟩ := h
  have hl : (BufConsumer.prepare init 0 cap bc).buffer.length = cap := by
    unfold BufConsumer.prepare
    cases hc : bc.buffer with
    | nil => cases bc.fr <;> simp
    | cons x xs =>
      have hb : (x :: xs).length = cap := by
        rcases hbuf with hb | hb
        · rw [hc] at hb; cases hb
        · rw [hc] at hb; exact hb
      cases bc.fr <;> simp only [List.isEmpty_cons, Bool.false_eq_true, if_false, hb]
  unfold BufConsumer.room
  omega

/-- every fill of an accepted history is at most `cap` bytes long -/
theorem runFills_len (cap : Nat) (hcap : 0 < cap) (F : Fits init feed Good)
    (ds : List Bytes) (bc : BufConsumer σ) (c : Consumer σ) (h : Sim cap init Good bc c)
    (r : BufConsumer σ × List Item) (hrun : BufConsumer.runFills init 0 cap (bwrap feed) bc ds = some r) :
    ∀ d ∈ ds, d.length ≤ cap := by
  induction ds generalizing bc c r with
  | nil => intro d hd; cases hd
  | cons d ds ih =>
    unfold BufConsumer.runFills at hrun
    by_cases hbad : d.isEmpty ∨ d.length > (BufConsumer.prepare init 0 cap bc).room
    · rw [if_pos hbad] at hrun; cases hrun
    · rw [if_neg hbad] at hrun
      have hd : d ≠ [] := by
        intro e; apply hbad; left; simp [e]
      have hfit : d.length ≤ (BufConsumer.prepare init 0 cap bc).room := by
        apply Nat.le_of_not_gt; intro e; apply hbad; right; exact e
      have hroom := room_le cap bc c h
      have hf := fill_sim cap hcap F bc c h d hd hfit
      cases hrest : BufConsumer.runFills init 0 cap (bwrap feed) (BufConsumer.fill init 0 cap (bwrap feed) bc d).1 ds with
      | none => rw [hrest] at hrun; cases hrun
      | some r' =>
        have := ih _ _ hf.2 r' hrest
        intro d' hd'
        rcases List.mem_cons.mp hd' with rfl | hd'
        · omega
        · exact this d' hd'

end

/-! ### the generic framers fit -/

/-- suspended states of the file-based framer hold bytes on which the loader said EOF -/
def GoodState (load : Bytes → LoadRes) (s : State) : Prop :=
  (s.started = false → s.buf = []) ∧ (s.started = true → load s.buf = .eof)

theorem feed_fits (load : Bytes → LoadRes) (S : Stable load) (limit : Nat) :
    Fits init (feed load limit) (GoodState load) := by
  have key : ∀ s c, GoodState load s → appended s c = s.buf ++ c := by
    intro s c hg
    unfold appended
    cases hst : s.started with
    | true => simp
    | false => simp [hg.1 hst]
  constructor
  · refine ⟨fun _ => rfl, ?_⟩
    intro h0; cases h0
  · intro s c s' hg hf
    unfold feed gfeed at hf
    have := (attempt_erase load limit (appended s c)).2 s' hf
    rw [this.1]
    refine ⟨?_, fun _ => this.2⟩
    intro h0; cases h0
  · intro s c d r hg hf
    unfold feed gfeed at hf
    rw [key s c hg] at hf
    unfold attempt checkLimit at hf
    by_cases hl : (s.buf ++ c).length > limit
    · simp only [hl, if_true, GRes.toRes] at hf; cases hf
    · simp only [hl, if_false] at hf
      -- the frame ends beyond what was already held (else the loader would have decided earlier)
      have hbeyond : ∀ k, (load (s.buf ++ c) = .ok k ∨ load (s.buf ++ c) = .bad k) → s.started = true → s.buf.length < k := by
        intro k hk hst
        have he := hg.2 hst
        apply Nat.lt_of_not_le
        intro hle
        rcases hk with hk | hk
        · rw [S.ok_pre s.buf c k hk hle] at he; cases he
        · rw [S.bad_pre s.buf c k hk hle] at he; cases he
      cases hload : load (s.buf ++ c) with
      | eof => rw [hload] at hf; simp only [GRes.toRes] at hf; cases hf
      | ok k =>
        rw [hload] at hf; simp only [GRes.toRes] at hf
        injection hf with _ hr; subst hr
        cases hst : s.started with
        | true => have := hbeyond k (Or.inl hload) hst; simp; omega
        | false => simp [hg.1 hst]
      | bad k =>
        rw [hload] at hf; simp only [GRes.toRes] at hf
        injection hf with _ hr; subst hr
        cases hst : s.started with
        | true => have := hbeyond k (Or.inr hload) hst; simp; omega
        | false => simp [hg.1 hst]
  · intro s c r hg hf
    unfold feed gfeed attempt checkLimit at hf
    by_cases hl : (appended s c).length > limit
    · simp only [hl, if_true, GRes.toRes, limitRemainder_all] at hf
      injection hf with hr; subst hr; simp
    · simp only [hl, if_false] at hf
      cases hload : load (appended s c) <;> rw [hload] at hf <;> simp only [GRes.toRes] at hf <;> cases hf

/-- the compressor framer fits as well, under the same laws on `loadOf dec` -/
def CGood (dec : Bytes → DecRes) (s : CState) : Prop := s.fed = [] ∨ dec s.fed = .more

theorem cfeed_fits (dec : Bytes → DecRes) (S : Stable (loadOf dec)) : Fits cinit (cfeed dec) (CGood dec) := by
  have hbeyond : ∀ (s : CState) (c : Bytes) (k : Nat), CGood dec s →
      (loadOf dec (s.fed ++ c) = .ok k ∨ loadOf dec (s.fed ++ c) = .bad k) → ((s.fed ++ c).drop k).length ≤ c.length := by
    intro s c k hg hk
    rcases hg with h0 | hmore
    · rw [h0]; simp
    · have he : loadOf dec s.fed = .eof := by unfold loadOf; rw [hmore]
      have : s.fed.length < k := by
        apply Nat.lt_of_not_le
        intro hle
        rcases hk with hk | hk
        · rw [S.ok_pre s.fed c k hk hle] at he; cases he
        · rw [S.bad_pre s.fed c k hk hle] at he; cases he
      simp; omega
  constructor
  · exact Or.inl rfl
  · intro s c s' hg hf
    unfold cfeed cgfeed at hf
    cases hd : dec (s.fed ++ c) with
    | more => rw [hd] at hf; simp only [GRes.toRes] at hf; injection hf with hf; subst hf; exact Or.inr hd
    | corrupt => rw [hd] at hf; simp only [GRes.toRes] at hf; cases hf
    | fin k ok => rw [hd] at hf; cases ok <;> simp only [GRes.toRes] at hf <;> cases hf
  · intro s c d r hg hf
    unfold cfeed cgfeed at hf
    cases hd : dec (s.fed ++ c) with
    | more => rw [hd] at hf; simp only [GRes.toRes] at hf; cases hf
    | corrupt =>
      rw [hd] at hf; simp only [GRes.toRes] at hf
      injection hf with _ hr; subst hr; simp
    | fin k ok =>
      rw [hd] at hf
      cases ok with
      | true =>
        simp only [GRes.toRes] at hf
        injection hf with _ hr; subst hr
        exact hbeyond s c k hg (Or.inl (by unfold loadOf; rw [hd]))
      | false =>
        simp only [GRes.toRes] at hf
        injection hf with _ hr; subst hr
        exact hbeyond s c k hg (Or.inr (by unfold loadOf; rw [hd]))
  · intro s c r hg hf
    unfold cfeed cgfeed at hf
    cases hd : dec (s.fed ++ c) with
    | more => rw [hd] at hf; simp only [GRes.toRes] at hf; cases hf
    | corrupt => rw [hd] at hf; simp only [GRes.toRes] at hf; cases hf
    | fin k ok => rw [hd] at hf; cases ok <;> simp only [GRes.toRes] at hf <;> cases hf

end EasyNet.GenericFr
