/-
  C13 — the accounting invariant is inductive: preserved by every scope operation, every micro-step of the
  coroutine, every callback run by the loop, every turn.
-/
import EasyNet.Lemmas.CSAcct
set_option linter.unusedSimpArgs false
set_option linter.unusedVariables false
namespace EasyNet.CS

theorem scopeOf_updAt_active (l : List Scope) (i j : Nat) (g : Scope → Scope) (hg : ∀ x, (g x).active = x.active) :
    (scopeOf (updAt l i g) j).active = (scopeOf l j).active := scopeOf_updAt_proj (·.active) l i j g hg

theorem scopeOf_updAt_cancelCalled (l : List Scope) (i j : Nat) (g : Scope → Scope)
    (hg : ∀ x, (g x).cancelCalled = x.cancelCalled) :
    (scopeOf (updAt l i g) j).cancelCalled = (scopeOf l j).cancelCalled := scopeOf_updAt_proj (·.cancelCalled) l i j g hg

theorem scopeOf_updAt_calls (l : List Scope) (i j : Nat) (g : Scope → Scope) (hg : ∀ x, (g x).calls = x.calls) :
    (scopeOf (updAt l i g) j).calls = (scopeOf l j).calls := scopeOf_updAt_proj (·.calls) l i j g hg

theorem scopeOf_updAt_base (l : List Scope) (i j : Nat) (g : Scope → Scope) (hg : ∀ x, (g x).base = x.base) :
    (scopeOf (updAt l i g) j).base = (scopeOf l j).base := scopeOf_updAt_proj (·.base) l i j g hg

/-- accounting + what makes `Task.cancel()` count: an active scope is on the stack, a finished task has no frames -/
structure AInv (k : K) : Prop where
  acct : Acct k
  act : ∀ s, (scopeOf k.scopes s).active = true → s ∈ scopeIds k.frames
  fin : k.done.isSome = true → k.frames = []

theorem AInv.notDone {k : K} (h : AInv k) {s : Nat} (ha : (scopeOf k.scopes s).active = true) : k.done = none := by
  have hs := h.act s ha
  cases hd : k.done with
  | none => rfl
  | some r =>
    have := h.fin (by simp [hd])
    rw [this] at hs
    simp [scopeIds] at hs

theorem AInv.transfer {k k' : K} (h : AInv k) (ha : k'.acct = k.acct)
    (hact : ∀ s, (scopeOf k'.scopes s).active = (scopeOf k.scopes s).active)
    (hf : k'.frames = k.frames) (hd : k'.done = k.done) : AInv k' :=
  ⟨Acct_of_acct_eq ha h.acct, fun s hs => by rw [hf]; exact h.act s (by rw [← hact]; exact hs),
   fun hdn => by rw [hf]; exact h.fin (by rw [← hd]; exact hdn)⟩

/-! ### deliver -/

theorem deliver_active (k : K) (s : Nat) (cur : Bool) (s' : Nat) :
    (scopeOf (k.deliver s cur).scopes s').active = (scopeOf k.scopes s').active := by
  unfold K.deliver
  (repeat' split) <;> simp [scopeOf_updAt_active]

theorem deliver_cancelCalled (k : K) (s : Nat) (cur : Bool) (s' : Nat) :
    (scopeOf (k.deliver s cur).scopes s').cancelCalled = (scopeOf k.scopes s').cancelCalled := by
  unfold K.deliver
  (repeat' split) <;> simp [scopeOf_updAt_cancelCalled]

theorem acct_updScope_inc (k : K) (s : Nat) (hv : s < k.scopes.length) :
    (k.updScope s (fun x => { x with calls := x.calls + 1 })).acct =
      (k.numCancels, k.extCount, sumCalls k.scopes + 1, k.phantom) := by
  have := sumCalls_updAt k.scopes s (fun x => { x with calls := x.calls + 1 })
  simp only [hv, if_true] at this
  simp only [K.acct, updScope_numCancels, updScope_extCount, updScope_phantom, updScope_scopes_eq, Prod.mk.injEq, true_and, and_true]
  omega

theorem deliver_AInv (k : K) (s : Nat) (cur : Bool) (h : AInv k) : AInv (k.deliver s cur) := by
  refine ⟨?_, fun s' hs' => ?_, fun hd => ?_⟩
  · -- accounting
    unfold K.deliver
    split
    · exact h.acct
    · rename_i hact
      have hact' : (scopeOf k.scopes s).active = true := by simpa [scope_eq] using hact
      have hv := scopeOf_active_valid _ _ hact'
      have hnd := h.notDone hact'
      split
      · split
        · exact Acct_of_acct_eq (by rw [acct_callSoon, acct_updScope_same _ _ _ (by intro x; rfl)]) h.acct
        · exact Acct_of_acct_eq (acct_updScope_same _ _ _ (by intro x; rfl)) h.acct
      · split
        · -- task.cancel(msg) and `__host_task_cancel_calls += 1`
          have h1 := taskCancel_acct k (some s)
          have hv' : s < (k.taskCancel (some s)).scopes.length := by simpa using hv
          have h2 := acct_updScope_inc (k.taskCancel (some s)) s hv'
          have h3 : ((((k.taskCancel (some s)).updScope s (fun x => { x with calls := x.calls + 1 })).updScope s
              (fun x => { x with cancelH := true })).callSoon (.deliver s)).acct =
              (k.numCancels + 1, k.extCount, sumCalls k.scopes + 1, k.phantom) := by
            rw [acct_callSoon, acct_updScope_same _ _ _ (by intro x; rfl), h2]
            simp only [K.acct, Prod.mk.injEq] at h1
            simp [hnd] at h1
            simp [h1]
          have hA := h.acct
          unfold Acct at hA ⊢
          simp only [K.acct, Prod.mk.injEq] at h3
          omega
        · exact Acct_of_acct_eq (by rw [acct_callSoon, acct_updScope_same _ _ _ (by intro x; rfl)]) h.acct
  · rw [deliver_frames]; exact h.act s' (by rw [← deliver_active k s cur]; exact hs')
  · rw [deliver_frames]; exact h.fin (by rw [← deliver_done k s cur]; exact hd)


/-! ### operations that keep the accounted quantities, the `active` flags, the frames and `done` -/

theorem AInv.updScope_same {k : K} (h : AInv k) (s : Nat) (g : Scope → Scope)
    (hc : ∀ x, (g x).calls = x.calls) (ha : ∀ x, (g x).active = x.active) : AInv (k.updScope s g) :=
  h.transfer (acct_updScope_same k s g hc) (fun s' => by simp [scopeOf_updAt_active _ _ _ _ ha]) (by simp) (by simp)

theorem AInv.cancelHandle {k : K} (h : AInv k) (x : Handle) : AInv (k.cancelHandle x) :=
  h.transfer (by simp) (fun s' => by simp) (by simp) (by simp)

theorem AInv.callSoon {k : K} (h : AInv k) (x : Handle) : AInv (k.callSoon x) :=
  h.transfer (by simp) (fun s' => by simp) (by simp) (by simp)

theorem AInv.callAt {k : K} (h : AInv k) (w : Nat) (p : Int) (x : Handle) : AInv (k.callAt w p x) :=
  h.transfer (by simp) (fun s' => by simp) (by simp) (by simp)

theorem AInv.emit {k : K} (h : AInv k) (e : Ev) : AInv (k.emit e) :=
  h.transfer (by simp) (fun s' => by simp) (by simp) (by simp)

theorem AInv.updFut {k : K} (h : AInv k) (f : Nat) (g : Fut → Fut) : AInv (k.updFut f g) :=
  h.transfer (by simp) (fun s' => by simp) (by simp) (by simp)

theorem AInv.newFut {k : K} (h : AInv k) : AInv k.newFut :=
  h.transfer (by simp) (fun s' => by simp) (by simp) (by simp)

theorem AInv.scheduleCb {k : K} (h : AInv k) (f : Nat) : AInv (k.scheduleCb f) :=
  h.transfer (by simp) (fun s' => by simp) (by simp) (by simp)

theorem AInv.futSetResult {k : K} (h : AInv k) (f : Nat) : AInv (k.futSetResult f) :=
  h.transfer (by simp) (fun s' => by simp) (by simp) (by simp)

theorem AInv.futCancel {k : K} (h : AInv k) (f : Nat) (m : Msg) : AInv (k.futCancel f m).1 :=
  h.transfer (by simp) (fun s' => by simp) (by simp) (by simp)

/-! ### cancel / timeout set-up / reschedule / pending check -/

theorem scopeCancel_AInv (k : K) (s : Nat) (cur : Bool) (h : AInv k) : AInv (k.scopeCancel s cur) := by
  unfold K.scopeCancel
  split
  · exact h
  · exact deliver_AInv _ _ _ (((h.updScope_same s _ (by intro x; rfl) (by intro x; rfl)).cancelHandle _).updScope_same s _
      (by intro x; rfl) (by intro x; rfl))

theorem setupTimeout_AInv (k : K) (s : Nat) (cur : Bool) (h : AInv k) : AInv (k.setupTimeout s cur) := by
  unfold K.setupTimeout
  split
  · exact h
  · split
    · exact scopeCancel_AInv _ _ _ h
    · exact (h.updScope_same s _ (by intro x; rfl) (by intro x; rfl)).callAt _ _ _

theorem reschedule_AInv (k : K) (s : Nat) (w : Option Nat) (cur : Bool) (h : AInv k) : AInv (k.reschedule s w cur) := by
  unfold K.reschedule
  have h1 := (((h.updScope_same s (fun x => { x with deadline := w }) (by intro x; rfl) (by intro x; rfl)).cancelHandle
    (.timeoutCancel s)).updScope_same s (fun x => { x with timeoutH := false }) (by intro x; rfl) (by intro x; rfl))
  split
  · exact setupTimeout_AInv _ _ _ h1
  · exact h1

theorem checkPendingFrom_AInv (k : K) (l : List Nat) (h : AInv k) : AInv (k.checkPendingFrom l) := by
  induction l with
  | nil => exact h
  | cons p ps ih =>
    unfold K.checkPendingFrom
    split
    · split
      · exact deliver_AInv _ _ _ h
      · exact h
    · exact ih

theorem checkPending_AInv (k : K) (h : AInv k) : AInv k.checkPending := checkPendingFrom_AInv _ _ h


/-! ### crash (model artefact) is absorbing; `Good` = crashed or invariant -/

def Crashed (k : K) : Prop := k.done = some .crash

def Good (k : K) : Prop := Crashed k ∨ AInv k

theorem reschedDelayed_Good (k : K) (m : Msg) (h : AInv k) : Good (k.reschedDelayed m) := by
  unfold K.reschedDelayed
  split
  · left; simp [Crashed]
  · right
    exact (AInv.callSoon (AInv.callSoon (h.transfer (k' := { k with delayed := some m }) rfl (fun _ => rfl) rfl rfl) _) _)

theorem reschedDelayed_Crashed (k : K) (m : Msg) (h : Crashed k) : Crashed (k.reschedDelayed m) := by
  unfold K.reschedDelayed Crashed at *
  split <;> simp [h]

theorem reschedOpt_Good (k : K) (o : Option Msg) (h : Good k) : Good (k.reschedOpt o) := by
  cases o with
  | none => exact h
  | some m =>
    rcases h with h | h
    · exact Or.inl (reschedDelayed_Crashed _ _ h)
    · exact reschedDelayed_Good _ _ h

/-! ### entering a scope -/

theorem scopeEnter_AInv (k : K) (sid : Nat) (to : Bool) (delay : Option Nat) (pre : Bool) (h : AInv k)
    (hnd : k.done = none) : AInv (k.scopeEnter sid to delay pre) := by
  have base : AInv { k with
      scopes := k.scopes ++ [(⟨sid, true, pre, false, delay.map (k.now + ·), false, false, k.numCancels, 0⟩ : Scope)],
      frames := .scopeF k.scopes.length to :: k.frames } := by
    refine ⟨?_, fun s hs => ?_, fun hd => ?_⟩
    · have := h.acct
      unfold Acct at *
      simp only [sumCalls_append, sumCalls]
      omega
    · simp only [scopeIds, List.mem_cons]
      by_cases hlt : s < k.scopes.length
      · right
        rw [scopeOf_append_left _ _ _ hlt] at hs
        exact h.act s hs
      · by_cases heq : s = k.scopes.length
        · exact Or.inl heq
        · rw [scopeOf_invalid _ _ (by simp; omega)] at hs
          simp [defaultScope] at hs
    · simp [hnd] at hd
  unfold K.scopeEnter
  split
  · exact deliver_AInv _ _ _ base
  · exact setupTimeout_AInv _ _ _ base

/-! ### leaving a scope -/

theorem acct_updScope_dec (k : K) (s : Nat) (hc : 1 ≤ (scopeOf k.scopes s).calls) :
    sumCalls (updAt k.scopes s (fun x => { x with calls := x.calls - 1 })) + 1 = sumCalls k.scopes := by
  have hv : s < k.scopes.length := by
    by_cases hv : s < k.scopes.length
    · exact hv
    · rw [scopeOf_invalid _ _ (by omega)] at hc; simp [defaultScope] at hc
  have := sumCalls_updAt k.scopes s (fun x => { x with calls := x.calls - 1 })
  simp only [hv, if_true] at this
  have hle := getD_calls_le k.scopes s
  unfold scopeOf at hc
  omega

/-- the loop of `__uncancel_task` undoes one own cancel call per round: the balance is kept -/
theorem uncancelLoop_AInv (s : Nat) (m : Msg) (n : Nat) :
    ∀ k : K, AInv k → (scopeOf k.scopes s).calls = n →
      AInv (k.uncancelLoop s m n).1 ∧
      ((scopeOf (k.uncancelLoop s m n).1.scopes s).calls = 0 ∨
        ((k.uncancelLoop s m n).2 = true ∧ (k.uncancelLoop s m n).1.numCancels ≤ (scopeOf k.scopes s).base)) := by
  induction n with
  | zero => intro k h hc; exact ⟨h, Or.inl hc⟩
  | succ n ih =>
    intro k h hc
    have hc1 : 1 ≤ (scopeOf k.scopes s).calls := by omega
    have hv : s < k.scopes.length := by
      by_cases hv : s < k.scopes.length
      · exact hv
      · rw [scopeOf_invalid _ _ (by omega)] at hc; simp [defaultScope] at hc
    have hsum := acct_updScope_dec k s hc1
    have hle := getD_calls_le k.scopes s
    have hA := h.acct
    have h1 : AInv ((k.updScope s (fun x => { x with calls := x.calls - 1 })).taskUncancel) := by
      refine ⟨?_, fun s' hs' => ?_, fun hd => ?_⟩
      · unfold Acct at *
        simp only [taskUncancel_extCount, taskUncancel_scopes, taskUncancel_phantom, updScope_extCount, updScope_phantom,
          updScope_scopes_eq, K.taskUncancel, updScope_numCancels]
        unfold scopeOf at hc1
        omega
      · simp only [taskUncancel_frames, updScope_frames]
        refine h.act s' ?_
        simpa [scopeOf_updAt_active] using hs'
      · simp only [taskUncancel_frames, updScope_frames]
        exact h.fin (by simpa using hd)
    have hc' : (scopeOf ((k.updScope s (fun x => { x with calls := x.calls - 1 })).taskUncancel).scopes s).calls = n := by
      simp only [taskUncancel_scopes, updScope_scopes_eq]
      rw [scopeOf_updAt_self _ _ _ hv]
      simp; omega
    have hb : (scopeOf ((k.updScope s (fun x => { x with calls := x.calls - 1 })).taskUncancel).scopes s).base =
        (scopeOf k.scopes s).base := by
      simp only [taskUncancel_scopes, updScope_scopes_eq]
      exact scopeOf_updAt_base _ _ _ _ (by intro x; rfl)
    unfold K.uncancelLoop
    split
    · rename_i hle'
      exact ⟨h1, Or.inr ⟨rfl, by simpa [scope_eq] using hle'⟩⟩
    · have := ih _ h1 hc'
      rw [hb] at this
      exact this

theorem undoRemaining_AInv (k : K) (s : Nat) (h : AInv k) : AInv (k.undoRemaining s) := by
  refine ⟨?_, fun s' hs' => ?_, fun hd => ?_⟩
  · have hA := h.acct
    have hle := getD_calls_le k.scopes s
    have := sumCalls_updAt k.scopes s (fun x => { x with calls := 0 })
    unfold Acct at *
    simp only [K.undoRemaining, scope_eq, scopeOf] at *
    split at this <;> simp_all <;> omega
  · simp only [undoRemaining_frames]
    refine h.act s' ?_
    simpa [K.undoRemaining, scopeOf_updAt_active] using hs'
  · simp only [undoRemaining_frames]
    exact h.fin (by simpa using hd)

theorem exitCatch_AInv (k : K) (s : Nat) (e : Option Exc) (h : AInv k) : AInv (k.exitCatch s e) := by
  unfold K.exitCatch
  split
  · exact (uncancelLoop_AInv s _ _ k h (by simp [scope_eq])).1.updScope_same s _ (by intro x; rfl) (by intro x; rfl)
  · exact h.updScope_same s _ (by intro x; rfl) (by intro x; rfl)
  · exact h

theorem dropOwnDelayed_AInv (k : K) (s : Nat) (h : AInv k) : AInv (k.dropOwnDelayed s) := by
  unfold K.dropOwnDelayed
  split
  · split
    · exact AInv.cancelHandle (h.transfer (k' := { k with delayed := none }) rfl (fun _ => rfl) rfl rfl) _
    · exact h
  · exact h

theorem exitCancelled_AInv (k : K) (s : Nat) (e : Option Exc) (h : AInv k) : AInv (k.exitCancelled s e) := by
  unfold K.exitCancelled
  split
  · exact dropOwnDelayed_AInv _ _ (undoRemaining_AInv _ _ (exitCatch_AInv _ _ _ h))
  · exact dropOwnDelayed_AInv _ _ (exitCatch_AInv _ _ _ h)

/-- `__exit__`: the frame of the scope is already popped, so `s` is the one active scope that may be off the stack -/
theorem scopeExit_AInv (k : K) (s : Nat) (e : Option Exc) (hacct : Acct k)
    (hact : ∀ s', (scopeOf k.scopes s').active = true → s' = s ∨ s' ∈ scopeIds k.frames)
    (hfin : k.done.isSome = true → k.frames = []) : AInv (k.scopeExit s e) := by
  have base : AInv (((k.cancelHandle (.timeoutCancel s)).cancelHandle (.deliver s)).updScope s
      (fun x => { x with active := false, timeoutH := false, cancelH := false })) := by
    refine ⟨?_, fun s' hs' => ?_, fun hd => ?_⟩
    · exact Acct_of_acct_eq (by rw [acct_updScope_same _ _ _ (by intro x; rfl)]; simp) hacct
    · simp only [updScope_frames, cancelHandle_frames]
      simp only [updScope_scopes_eq, cancelHandle_scopes] at hs'
      by_cases hss : s' = s
      · subst hss
        by_cases hv : s' < k.scopes.length
        · rw [scopeOf_updAt_self _ _ _ hv] at hs'; simp at hs'
        · rw [updAt_invalid _ _ _ (by omega), scopeOf_invalid _ _ (by omega)] at hs'; simp [defaultScope] at hs'
      · rw [scopeOf_updAt_ne _ _ _ _ hss] at hs'
        rcases hact s' hs' with h1 | h1
        · exact absurd h1 hss
        · exact h1
    · simp only [updScope_frames, cancelHandle_frames]
      exact hfin (by simpa using hd)
  unfold K.scopeExit
  split
  · exact checkPending_AInv _ (exitCancelled_AInv _ _ _ base)
  · exact checkPending_AInv _ base

end EasyNet.CS
