/-
  C17 lemmas about the TCP per-client epilogue machine (Model/Iso.lean part 2): whatever the position of the fault, the
  exit stacks are unwound completely; with a guarded `tcp.suppress_and_log` filter nothing is left in flight, the
  transport is closed and `on_disconnection` ran once iff `disconnect_client` had been registered.
-/
import EasyNet.Lemmas.Iso
namespace EasyNet.Iso

variable {κ : Type}

/-- what is in flight is an Exception tree -/
def TcpSt.Inv (K : Classes κ) (s : TcpSt κ) : Prop := ∀ e, s.inflight = some e → e.allExc K = true

theorem startGens_fields (s : TcpSt κ) (n i : Nat) :
    (startGens s n i).stack = s.stack ∧ (startGens s n i).ocDone = s.ocDone ∧ (startGens s n i).odCount = s.odCount ∧
    (startGens s n i).closed = s.closed ∧ (startGens s n i).inflight = s.inflight ∧
    (startGens s n i).gensStarted = s.gensStarted + n ∧ (startGens s n i).gensClosed = s.gensClosed + n := by
  induction n generalizing s i with
  | zero => simp [startGens]
  | succ n ih =>
    simp only [startGens]
    have := ih ({ (s.hook s!"handle:start_g{i}").hook s!"handle:closed_g{i}" with
                  gensStarted := s.gensStarted + 1, gensClosed := s.gensClosed + 1 }) (i + 1)
    simp only [TcpSt.hook] at this ⊢
    refine ⟨this.1, this.2.1, this.2.2.1, this.2.2.2.1, this.2.2.2.2.1, ?_, ?_⟩
    · rw [this.2.2.2.2.2.1]; omega
    · rw [this.2.2.2.2.2.2]; omega

def baseStack : List Cb :=
  [.yieldClientTry, .markClosing, .logDisconnected, .linger, .suppressAndLog, .bindServer, .clearConsumer, .closeTransport]

@[simp] theorem startGens_stack (s : TcpSt κ) (n i : Nat) : (startGens s n i).stack = s.stack := (startGens_fields s n i).1
@[simp] theorem startGens_ocDone (s : TcpSt κ) (n i : Nat) : (startGens s n i).ocDone = s.ocDone := (startGens_fields s n i).2.1
@[simp] theorem startGens_odCount (s : TcpSt κ) (n i : Nat) : (startGens s n i).odCount = s.odCount := (startGens_fields s n i).2.2.1
@[simp] theorem startGens_closed (s : TcpSt κ) (n i : Nat) : (startGens s n i).closed = s.closed := (startGens_fields s n i).2.2.2.1
@[simp] theorem startGens_inflight (s : TcpSt κ) (n i : Nat) : (startGens s n i).inflight = s.inflight :=
  (startGens_fields s n i).2.2.2.2.1
@[simp] theorem startGens_started (s : TcpSt κ) (n i : Nat) : (startGens s n i).gensStarted = s.gensStarted + n :=
  (startGens_fields s n i).2.2.2.2.2.1
@[simp] theorem startGens_closedN (s : TcpSt κ) (n i : Nat) : (startGens s n i).gensClosed = s.gensClosed + n :=
  (startGens_fields s n i).2.2.2.2.2.2

theorem tcpForward_stack (od : Bool) (p : TcpPos) (t : Tree κ) :
    (tcpForward od p t).stack = (if od && !p.ocFault then [Cb.disconnectClient] else []) ++ baseStack := by
  unfold tcpForward
  cases hf : p.ocFault <;> cases od <;> cases hr : p.raises <;>
    simp [TcpSt.hook, TcpSt.push, tcpEnter, baseStack]

theorem tcpForward_ocDone (od : Bool) (p : TcpPos) (t : Tree κ) : (tcpForward od p t).ocDone = !p.ocFault := by
  unfold tcpForward
  cases hf : p.ocFault <;> cases od <;> cases hr : p.raises <;> simp [TcpSt.hook, TcpSt.push, tcpEnter]

theorem tcpForward_odCount (od : Bool) (p : TcpPos) (t : Tree κ) : (tcpForward od p t).odCount = 0 := by
  unfold tcpForward
  cases hf : p.ocFault <;> cases od <;> cases hr : p.raises <;> simp [TcpSt.hook, TcpSt.push, tcpEnter]

theorem tcpForward_gens (od : Bool) (p : TcpPos) (t : Tree κ) :
    (tcpForward od p t).gensStarted = (tcpForward od p t).gensClosed := by
  unfold tcpForward
  cases hf : p.ocFault <;> cases od <;> cases hr : p.raises <;> simp [TcpSt.hook, TcpSt.push, tcpEnter]

theorem tcpForward_inflight (od : Bool) (p : TcpPos) (t : Tree κ) :
    (tcpForward od p t).inflight = none ∨ (tcpForward od p t).inflight = some t := by
  unfold tcpForward
  cases hf : p.ocFault <;> cases od <;> cases hr : p.raises <;> simp [TcpSt.hook, TcpSt.push, tcpEnter]

/-- the state in which unwinding starts -/
theorem tcpForward_fields (K : Classes κ) (od : Bool) (p : TcpPos) (t : Tree κ) (ht : t.allExc K = true) :
    (tcpForward od p t).stack = (if od && !p.ocFault then [Cb.disconnectClient] else []) ++ baseStack ∧
    (tcpForward od p t).ocDone = !p.ocFault ∧ (tcpForward od p t).odCount = 0 ∧
    (tcpForward od p t).Inv K ∧
    (tcpForward od p t).gensStarted = (tcpForward od p t).gensClosed := by
  refine ⟨tcpForward_stack od p t, tcpForward_ocDone od p t, tcpForward_odCount od p t, ?_, tcpForward_gens od p t⟩
  intro e he
  cases tcpForward_inflight od p t with
  | inl h => rw [h] at he; simp at he
  | inr h => rw [h] at he; simp at he; subst he; exact ht

theorem throughFilter_fields (K : Classes κ) (fs : List (Filter κ)) (n : String) (s : TcpSt κ) :
    (throughFilter K fs n s).odCount = s.odCount ∧ (throughFilter K fs n s).ocDone = s.ocDone ∧
    (throughFilter K fs n s).closed = s.closed ∧ (throughFilter K fs n s).gensStarted = s.gensStarted ∧
    (throughFilter K fs n s).gensClosed = s.gensClosed := by
  unfold throughFilter
  split
  · simp
  · split <;> simp

theorem throughFilter_inv (K : Classes κ) (fs : List (Filter κ)) (n : String) (s : TcpSt κ) (h : s.Inv K) :
    (throughFilter K fs n s).Inv K := by
  unfold throughFilter
  split
  · exact h
  · rename_i t ht
    split
    · exact h
    · rename_i f hf
      intro e he
      simp only at he
      exact allExc_of_subset K t e (runLayers_leaves K f.layers t e he) (h t ht)

theorem throughFilter_none (K : Classes κ) (fs : List (Filter κ)) (n : String) (s : TcpSt κ) (h : s.inflight = none) :
    (throughFilter K fs n s).inflight = none := by
  unfold throughFilter
  simp [h]

variable (K : Classes κ) (fs : List (Filter κ)) (odFault : Option (Tree κ))

theorem step_counts (s : TcpSt κ) (c : Cb) :
    (tcpUnwind1 K fs odFault s c).odCount = s.odCount + (if c = .disconnectClient then 1 else 0) ∧
    (tcpUnwind1 K fs odFault s c).ocDone = s.ocDone ∧
    (tcpUnwind1 K fs odFault s c).closed = (s.closed || (c == .closeTransport)) ∧
    (tcpUnwind1 K fs odFault s c).gensStarted = s.gensStarted ∧ (tcpUnwind1 K fs odFault s c).gensClosed = s.gensClosed := by
  cases c <;> simp only [tcpUnwind1, TcpSt.hook]
  case suppressAndLog => have := throughFilter_fields K fs "tcp.suppress_and_log" s; simp [this]
  case yieldClientTry => have := throughFilter_fields K fs "tcp.initializer" s; simp [this]
  case disconnectClient =>
    cases odFault with
    | none => simp
    | some t =>
      simp only
      split
      · simp
      · simp
  all_goals simp

theorem step_inv (hod : ∀ e, odFault = some e → e.allExc K = true) (s : TcpSt κ) (c : Cb) (h : s.Inv K) :
    (tcpUnwind1 K fs odFault s c).Inv K := by
  cases c <;> simp only [tcpUnwind1, TcpSt.hook]
  case suppressAndLog => exact throughFilter_inv K fs _ s h
  case yieldClientTry => exact throughFilter_inv K fs _ s h
  case disconnectClient =>
    cases hx : odFault with
    | none => exact h
    | some t =>
      simp only
      split
      · intro e he
        simp at he
        subst he
        exact hod t hx
      · rename_i f hf
        intro e he
        simp only at he
        split at he
        · rename_i e' he'
          simp at he
          subst he
          exact allExc_of_subset K t e' (runLayers_leaves K f.layers t e' he') (hod t hx)
        · exact h e he
  all_goals exact h

theorem step_none (s : TcpSt κ) (c : Cb) (hc : c ≠ .disconnectClient) (h : s.inflight = none) :
    (tcpUnwind1 K fs odFault s c).inflight = none := by
  cases c <;> simp only [tcpUnwind1, TcpSt.hook]
  case suppressAndLog => exact throughFilter_none K fs _ s h
  case yieldClientTry => exact throughFilter_none K fs _ s h
  case disconnectClient => exact absurd rfl hc
  all_goals exact h

theorem Cb.beq_comm (a b : Cb) : (a == b) = (b == a) := by
  cases a <;> cases b <;> decide

theorem fold_counts (l : List Cb) (s : TcpSt κ) :
    (l.foldl (tcpUnwind1 K fs odFault) s).odCount = s.odCount + l.count .disconnectClient ∧
    (l.foldl (tcpUnwind1 K fs odFault) s).ocDone = s.ocDone ∧
    (l.foldl (tcpUnwind1 K fs odFault) s).closed = (s.closed || l.contains .closeTransport) ∧
    (l.foldl (tcpUnwind1 K fs odFault) s).gensStarted = s.gensStarted ∧
    (l.foldl (tcpUnwind1 K fs odFault) s).gensClosed = s.gensClosed := by
  induction l generalizing s with
  | nil => simp
  | cons c cs ih =>
    simp only [List.foldl_cons]
    have h1 := step_counts K fs odFault s c
    have h2 := ih (tcpUnwind1 K fs odFault s c)
    refine ⟨?_, ?_, ?_, ?_, ?_⟩
    · rw [h2.1, h1.1, List.count_cons]
      by_cases hc : c = .disconnectClient
      · subst hc; simp; omega
      · have : (c == Cb.disconnectClient) = false := by simpa using hc
        simp [hc, this]
    · rw [h2.2.1, h1.2.1]
    · rw [h2.2.2.1, h1.2.2.1, List.contains_cons, Cb.beq_comm c, Bool.or_assoc]
    · rw [h2.2.2.2.1, h1.2.2.2.1]
    · rw [h2.2.2.2.2, h1.2.2.2.2]

theorem fold_inv (hod : ∀ e, odFault = some e → e.allExc K = true) (l : List Cb) (s : TcpSt κ) (h : s.Inv K) :
    (l.foldl (tcpUnwind1 K fs odFault) s).Inv K := by
  induction l generalizing s with
  | nil => exact h
  | cons c cs ih => exact ih _ (step_inv K fs odFault hod s c h)

theorem fold_none (l : List Cb) (hl : Cb.disconnectClient ∉ l) (s : TcpSt κ) (h : s.inflight = none) :
    (l.foldl (tcpUnwind1 K fs odFault) s).inflight = none := by
  induction l generalizing s with
  | nil => exact h
  | cons c cs ih =>
    simp only [List.mem_cons, not_or] at hl
    exact ih hl.2 _ (step_none K fs odFault s c (fun e => hl.1 e.symm) h)

theorem tcpUnwind_spec (all : List κ) (hall : ∀ c, c ∈ all) (hEG : K.sub K.eg K.exc = true)
    (F : Filter κ) (hF : findFilter fs "tcp.suppress_and_log" = some F)
    (hg : F.layers.any (Layer.plainTotal K all) = true)
    (hod : ∀ e, odFault = some e → e.allExc K = true)
    (s : TcpSt κ) (pre : List Cb) (hstack : s.stack = pre ++ baseStack) (hpre : pre = [] ∨ pre = [Cb.disconnectClient])
    (hinv : s.Inv K) :
    (tcpUnwind K fs odFault s).closed = true ∧ (tcpUnwind K fs odFault s).inflight = none ∧
    (tcpUnwind K fs odFault s).ocDone = s.ocDone ∧
    (tcpUnwind K fs odFault s).odCount = s.odCount + pre.length ∧
    (tcpUnwind K fs odFault s).gensStarted = s.gensStarted ∧ (tcpUnwind K fs odFault s).gensClosed = s.gensClosed := by
  unfold tcpUnwind
  rw [hstack]
  have hinv0 : TcpSt.Inv K { s with stack := [] } := hinv
  have hc := fold_counts K fs odFault (pre ++ baseStack) { s with stack := [] }
  have hsplit : pre ++ baseStack = (pre ++ [Cb.yieldClientTry, .markClosing, .logDisconnected, .linger]) ++
      (Cb.suppressAndLog :: [.bindServer, .clearConsumer, .closeTransport]) := by
    simp [baseStack]
  have hnone : ((pre ++ baseStack).foldl (tcpUnwind1 K fs odFault) { s with stack := [] }).inflight = none := by
    rw [hsplit, List.foldl_append, List.foldl_cons]
    apply fold_none
    · decide
    · have hinv1 := fold_inv K fs odFault hod (pre ++ [Cb.yieldClientTry, .markClosing, .logDisconnected, .linger]) _ hinv0
      generalize (List.foldl (tcpUnwind1 K fs odFault) { s with stack := [] }
        (pre ++ [Cb.yieldClientTry, .markClosing, .logDisconnected, .linger])) = s1 at hinv1 ⊢
      simp only [tcpUnwind1, throughFilter]
      cases hi : s1.inflight with
      | none => simp [hi]
      | some e =>
        simp only [hF]
        exact guarded_swallows K all hall hEG F.layers hg e (hinv1 e hi)
  refine ⟨?_, hnone, hc.2.1, ?_, hc.2.2.2.1, hc.2.2.2.2⟩
  · rw [hc.2.2.1]
    simp [baseStack]
  · rw [hc.1]
    cases hpre with
    | inl h => subst h; simp [baseStack]
    | inr h => subst h; simp [baseStack]

/-- **the epilogue**: with a guarded `tcp.suppress_and_log`, for every fault position and every Exception tree -/
theorem tcpRun_spec (all : List κ) (hall : ∀ c, c ∈ all) (hEG : K.sub K.eg K.exc = true)
    (F : Filter κ) (hF : findFilter fs "tcp.suppress_and_log" = some F)
    (hg : F.layers.any (Layer.plainTotal K all) = true)
    (od : Bool) (p : TcpPos) (t : Tree κ) (ht : t.allExc K = true) :
    (tcpRun K fs od p t).closed = true ∧ (tcpRun K fs od p t).inflight = none ∧
    (tcpRun K fs od p t).ocDone = !p.ocFault ∧
    (tcpRun K fs od p t).odCount = (if od && !p.ocFault then 1 else 0) ∧
    (tcpRun K fs od p t).gensStarted = (tcpRun K fs od p t).gensClosed := by
  have hfw := tcpForward_fields K od p t ht
  have hod : ∀ e, p.odFault t = some e → e.allExc K = true := by
    intro e he
    unfold TcpPos.odFault at he
    split at he
    · simp at he; subst he; exact ht
    · simp at he
  have hpre : (if od && !p.ocFault then [Cb.disconnectClient] else []) = [] ∨
      (if od && !p.ocFault then [Cb.disconnectClient] else []) = [Cb.disconnectClient] := by
    cases od <;> cases p.ocFault <;> simp
  have h := tcpUnwind_spec K fs (p.odFault t) all hall hEG F hF hg hod (tcpForward od p t) _ hfw.1 hpre hfw.2.2.2.1
  unfold tcpRun
  refine ⟨h.1, h.2.1, ?_, ?_, ?_⟩
  · rw [h.2.2.1]; exact hfw.2.1
  · rw [h.2.2.2.1, hfw.2.2.1]
    cases od <;> cases p.ocFault <;> simp
  · rw [h.2.2.2.2.1, h.2.2.2.2.2]; exact hfw.2.2.2.2

end EasyNet.Iso
