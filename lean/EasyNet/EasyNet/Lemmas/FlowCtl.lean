/-
  C20 — invariants of the flow-control / sender / write-buffer model (EasyNet/Model/FlowCtl.lean), part 1:
  "a pending drain waiter implies writing is paused and the connection alive", for every event.
-/
import EasyNet.Model.FlowCtl
namespace EasyNet.C20.FC
set_option linter.unusedSimpArgs false

/-- sender `i` is parked on a pending drain waiter -/
def Waiting (s : St) (i : Nat) : Prop := (s.senders i).pc = .atWaiter ∧ (s.senders i).fut = .pending

instance (s : St) (i : Nat) : Decidable (Waiting s i) := by unfold Waiting; exact inferInstance

/-- **pendingWaiter → paused ∧ ¬lost** -/
def WInv (s : St) : Prop := ∀ i, Waiting s i → s.paused = true ∧ s.lost = false

theorem winv_init (c : Cfg) : WInv (St.init c) := by
  intro i h; simp [Waiting, St.init, Sender.init] at h

/-- WInv only looks at `paused`, `lost` and `senders` -/
theorem winv_congr {s t : St} (hp : t.paused = s.paused) (hl : t.lost = s.lost) (hs : t.senders = s.senders)
    (h : WInv s) : WInv t := by
  intro i hi
  have := h i (by simpa [Waiting, hs] using hi)
  simpa [hp, hl] using this

theorem completeAll_none_waiting (c : Cfg) (s : St) (v : Fut) (hv : v ≠ .pending) (i : Nat) :
    ¬ Waiting (completeAll c s v) i := by
  unfold Waiting completeAll
  simp only
  split
  · simp [hv]
  · rename_i h; exact h

theorem winv_of_none {s : St} (h : ∀ i, ¬ Waiting s i) : WInv s := fun i hi => absurd hi (h i)

theorem winv_fcPause {s : St} (h : WInv s) : WInv (fcPause s) := by
  intro i hi
  have := h i (by simpa [Waiting, fcPause] using hi)
  simp [fcPause, this.2]

theorem winv_fcResume (c : Cfg) (s : St) : WInv (fcResume c s) :=
  winv_of_none (completeAll_none_waiting c _ _ (by simp))

theorem winv_fcLost (c : Cfg) {s : St} (e : Option Nat) (h : WInv s) : WInv (fcLost c s e) := by
  unfold fcLost
  split
  · exact h
  · exact winv_of_none (completeAll_none_waiting c _ _ (by simp))

theorem winv_maybePause {s : St} (h : WInv s) : WInv (maybePauseProtocol s) := by
  unfold maybePauseProtocol
  split
  · exact h
  · split
    · exact h
    · exact winv_fcPause (winv_congr rfl rfl rfl h)

theorem winv_maybeResume (c : Cfg) {s : St} (h : WInv s) : WInv (maybeResumeProtocol c s) := by
  unfold maybeResumeProtocol
  split
  · exact winv_fcResume c _
  · exact h

theorem winv_tWrite {s : St} (n : Nat) (h : WInv s) : WInv (tWrite s n).1 := by
  unfold tWrite
  split
  · exact h
  · split
    · exact h
    · split
      · split
        · exact winv_congr rfl rfl rfl h
        · exact winv_maybePause (winv_congr rfl rfl rfl h)
      · exact winv_maybePause (winv_congr rfl rfl rfl h)

theorem winv_closeCheck (c : Cfg) {s : St} (h : WInv s) : WInv (closeCheck c s) := by
  unfold closeCheck
  split
  · exact winv_fcLost c none (winv_congr rfl rfl rfl h)
  · exact h

theorem winv_tWriteReady (c : Cfg) {s : St} (h : WInv s) : WInv (tWriteReady c s) := by
  unfold tWriteReady
  split
  · exact h
  · split
    · exact h
    · exact winv_closeCheck c (winv_maybeResume c (winv_congr (s := s) rfl rfl rfl h))

theorem winv_tWritelines (c : Cfg) {s : St} (sizes : List Nat) (h : WInv s) : WInv (tWritelines c s sizes).1 := by
  unfold tWritelines
  split
  · exact h
  · split
    · exact winv_maybePause (winv_tWriteReady c (winv_congr (s := s) rfl rfl rfl h))
    · exact winv_tWriteReady c (winv_congr (s := s) rfl rfl rfl h)

theorem winv_tSetLimitsZero {s : St} (h : WInv s) : WInv (tSetLimitsZero s) :=
  winv_maybePause (winv_congr rfl rfl rfl h)

theorem winv_tSendto {s : St} (n : Nat) (h : WInv s) : WInv (tSendto s n).1 := by
  unfold tSendto
  split
  · exact h
  · split
    · exact h
    · split
      · exact winv_congr rfl rfl rfl h
      · exact winv_maybePause (winv_congr rfl rfl rfl h)

theorem winv_tSendtoReady (c : Cfg) {s : St} (h : WInv s) : WInv (tSendtoReady c s) := by
  unfold tSendtoReady
  split
  · exact h
  · exact winv_closeCheck c (winv_maybeResume c (winv_congr (s := s) rfl rfl rfl h))

theorem winv_tClose (c : Cfg) {s : St} (h : WInv s) : WInv (tClose c s) := by
  unfold tClose
  repeat' split
  all_goals exact winv_congr rfl rfl rfl h

theorem winv_tForceClose {s : St} (e : Option Nat) (h : WInv s) : WInv (tForceClose s e) := by
  unfold tForceClose
  split
  · exact h
  · exact winv_congr rfl rfl rfl h

/-- updating one sender to something that is not waiting keeps the invariant -/
theorem winv_upd {s : St} (i : Nat) (x : Sender) (hx : ¬ (x.pc = .atWaiter ∧ x.fut = .pending)) (h : WInv s)
    {t : St} (hp : t.paused = s.paused) (hl : t.lost = s.lost) (hs : t.senders = upd s.senders i x) : WInv t := by
  intro j hj
  unfold Waiting at hj
  rw [hs] at hj
  unfold upd at hj
  by_cases hji : j = i
  · simp [hji] at hj; exact absurd hj hx
  · simp [hji] at hj
    have := h j hj
    simpa [hp, hl] using this

theorem winv_finish {s : St} (i : Nat) (r : Res) (h : WInv s) : WInv (finish s i r) :=
  winv_upd i _ (by simp) h rfl rfl rfl

theorem winv_drainBody (c : Cfg) {s : St} (i : Nat) (h : WInv s) : WInv (drainBody c s i) := by
  unfold drainBody
  split
  · exact winv_finish i _ h
  · split
    · exact winv_finish i _ h
    · rename_i hl hp
      intro j hj
      unfold Waiting at hj
      simp only [upd] at hj
      by_cases hji : j = i
      · simp at hp hl; simp [hp, hl]
      · simp [hji] at hj; exact h j hj

theorem winv_drainHead (c : Cfg) {s : St} (i : Nat) (h : WInv s) : WInv (drainHead c s i) := by
  unfold drainHead
  split
  · exact winv_upd i _ (by simp) h rfl rfl rfl
  · exact winv_drainBody c i h

theorem winv_setEndOff {s : St} (i : Nat) (acc : Bool) (h : WInv s) : WInv (setEndOff s i acc) := by
  unfold setEndOff
  split
  · intro j hj
    unfold Waiting at hj
    simp only [upd] at hj
    by_cases hji : j = i
    · subst hji; simp at hj; exact h j hj
    · simp [hji] at hj; exact h j hj
  · exact h

theorem winv_runOp (c : Cfg) {s : St} (i : Nat) (op : Op) (h : WInv s) : WInv (runOp c s i op) := by
  cases op with
  | drain => exact winv_drainHead c i h
  | send n =>
    simp only [runOp]
    split
    · exact winv_drainHead c i (winv_setEndOff i _ (winv_tSendto n h))
    · exact winv_drainHead c i (winv_setEndOff i _ (winv_tWrite n h))
  | sendv sizes =>
    simp only [runOp]
    split
    · exact winv_drainHead c i (winv_tSetLimitsZero (winv_setEndOff i _ (winv_tWritelines c sizes h)))
    · exact winv_drainHead c i (winv_setEndOff i _ (winv_tWritelines c sizes h))

theorem winv_runTask (c : Cfg) {s : St} (i : Nat) (h : WInv s) : WInv (runTask c s i) := by
  unfold runTask
  split
  · exact h
  · split
    · exact winv_finish i _ h
    · exact winv_runOp c i _ h
  · split
    · exact winv_finish i _ h
    · exact winv_drainBody c i h
  · split
    · exact winv_finish i _ h
    · split
      · exact h
      · exact winv_finish i _ h
      · exact winv_finish i _ h
      · exact winv_finish i _ h

theorem winv_runHandle (c : Cfg) {s : St} (hd : Handle) (h : WInv s) : WInv (runHandle c s hd) := by
  cases hd with
  | task i => exact winv_runTask c i h
  | connLost e => exact winv_fcLost c e h

theorem winv_foldl (c : Cfg) (hs : List Handle) : ∀ {s : St}, WInv s → WInv (hs.foldl (runHandle c) s) := by
  induction hs with
  | nil => intro s h; exact h
  | cons x xs ih => intro s h; exact ih (winv_runHandle c x h)

theorem winv_cancelTask {s : St} (i : Nat) (h : WInv s) : WInv (cancelTask s i) := by
  unfold cancelTask
  split
  · exact h
  · rename_i op hpc
    intro j hj
    unfold Waiting at hj
    simp only [upd] at hj
    by_cases hji : j = i
    · subst hji; simp [hpc] at hj
    · simp [hji] at hj; exact h j hj
  · rename_i hpc
    intro j hj
    unfold Waiting at hj
    simp only [upd] at hj
    by_cases hji : j = i
    · subst hji; simp [hpc] at hj
    · simp [hji] at hj; exact h j hj
  · split
    · exact winv_upd i _ (by simp) h rfl rfl rfl
    · rename_i hpc hf
      intro j hj
      unfold Waiting at hj
      simp only [upd] at hj
      by_cases hji : j = i
      · subst hji; simp at hj; exact absurd hj.2 hf
      · simp [hji] at hj; exact h j hj

/-- every event preserves the invariant -/
theorem winv_step (c : Cfg) {s : St} (ev : Ev) (h : WInv s) : WInv (step c s ev).1 := by
  cases ev with
  | start i op =>
    simp only [step]
    split
    · exact winv_upd i _ (by simp) h rfl rfl rfl
    · exact h
  | pause => exact winv_fcPause h
  | resume => exact winv_fcResume c s
  | kernel k =>
    simp only [step]
    split
    · exact h
    · exact winv_tWriteReady c (winv_congr rfl rfl rfl h)
    · exact winv_tSendtoReady c (winv_congr rfl rfl rfl h)
  | lost e => exact winv_fcLost c e h
  | fail e =>
    simp only [step]
    split
    · exact h
    · exact winv_tForceClose e h
  | close => exact winv_tClose c h
  | cancel i => exact winv_cancelTask i h
  | turn =>
    simp only [step]
    exact winv_congr (s := s.ready.foldl (runHandle c) (beginTurn s)) rfl rfl rfl
      (winv_foldl c s.ready (winv_congr (s := s) rfl rfl rfl h))

theorem winv_run (c : Cfg) (evs : List Ev) : ∀ {s : St}, WInv s → WInv (run c s evs).1 := by
  induction evs with
  | nil => intro s h; exact h
  | cons e es ih => intro s h; simpa [run] using ih (winv_step c e h)

/-! ### small facts used by the property theorems -/

theorem runTask_result (c : Cfg) (s : St) (i : Nat) (h1 : (s.senders i).pc = .atWaiter) (h2 : (s.senders i).fut = .result)
    (h3 : (s.senders i).mustCancel = false) : runTask c s i = finish s i .ok := by
  unfold runTask; simp [h1, h2, h3]

theorem runTask_exc (c : Cfg) (s : St) (i x : Nat) (h1 : (s.senders i).pc = .atWaiter) (h2 : (s.senders i).fut = .exc x)
    (h3 : (s.senders i).mustCancel = false) : runTask c s i = finish s i (.err x) := by
  unfold runTask; simp [h1, h2, h3]

theorem mem_pendingIds {n : Nat} {f : Nat → Sender} {i : Nat} (hi : i < n)
    (hw : (f i).pc = .atWaiter ∧ (f i).fut = .pending) : i ∈ pendingIds n f := by
  simp [pendingIds, hi, hw]

end EasyNet.C20.FC
