/-
  C17 lemmas: whatever a layer lets through is made of leaves of what entered it (split only prunes), a plain layer that
  swallows every class `≤ Exception` swallows every Exception tree of any shape, hence a chain containing such a layer
  swallows every Exception tree.
-/
import EasyNet.Model.Iso
namespace EasyNet.Iso

variable {κ : Type}

theorem leaves_group (cs : List (Tree κ)) : (Tree.group cs).leaves = leavesList cs := by
  simp [Tree.leaves]

theorem leavesList_append (a b : List (Tree κ)) : leavesList (a ++ b) = leavesList a ++ leavesList b := by
  induction a with
  | nil => simp [leavesList]
  | cons t ts ih => simp [leavesList, ih, List.append_assoc]

def optLeaves : Option (Tree κ) → List κ
  | none => []
  | some t => t.leaves

theorem leavesList_toList (o : Option (Tree κ)) : leavesList o.toList = optLeaves o := by
  cases o <;> simp [leavesList, optLeaves]

theorem optLeaves_optGroup (l : List (Tree κ)) : optLeaves (optGroup l) = leavesList l := by
  unfold optGroup
  cases l with
  | nil => simp [optLeaves, leavesList]
  | cons a b => simp [optLeaves, leaves_group]

/-- `split` only prunes: both halves are made of leaves of the original -/
theorem split_leaves (m : Tree κ → Bool) :
    (∀ t : Tree κ, (∀ c ∈ optLeaves (split m t).1, c ∈ t.leaves) ∧ (∀ c ∈ optLeaves (split m t).2, c ∈ t.leaves)) ∧
    (∀ ts : List (Tree κ), (∀ c ∈ leavesList (splitList m ts).1, c ∈ leavesList ts) ∧
                            (∀ c ∈ leavesList (splitList m ts).2, c ∈ leavesList ts)) := by
  have key : ∀ t : Tree κ, (∀ c ∈ optLeaves (split m t).1, c ∈ t.leaves) ∧ (∀ c ∈ optLeaves (split m t).2, c ∈ t.leaves) := by
    intro t
    induction t using Tree.rec (motive_2 := fun ts =>
        (∀ c ∈ leavesList (splitList m ts).1, c ∈ leavesList ts) ∧ (∀ c ∈ leavesList (splitList m ts).2, c ∈ leavesList ts)) with
    | leaf c =>
      simp only [split]
      split <;> simp [optLeaves, Tree.leaves]
    | group cs ih =>
      simp only [split]
      split
      · simp [optLeaves]
      · simp only [optLeaves_optGroup, leaves_group]
        exact ih
    | nil => simp [splitList, leavesList]
    | cons t ts iht ihts =>
      simp only [splitList, leavesList_append, leavesList_toList, leavesList, List.mem_append]
      constructor
      · intro c hc
        cases hc with
        | inl h => exact Or.inl (iht.1 c h)
        | inr h => exact Or.inr (ihts.1 c h)
      · intro c hc
        cases hc with
        | inl h => exact Or.inl (iht.2 c h)
        | inr h => exact Or.inr (ihts.2 c h)
  refine ⟨key, ?_⟩
  intro ts
  induction ts with
  | nil => simp [splitList, leavesList]
  | cons t ts ih =>
    simp only [splitList, leavesList_append, leavesList_toList, leavesList, List.mem_append]
    constructor
    · intro c hc
      cases hc with
      | inl h => exact Or.inl ((key t).1 c h)
      | inr h => exact Or.inr (ih.1 c h)
    · intro c hc
      cases hc with
      | inl h => exact Or.inl ((key t).2 c h)
      | inr h => exact Or.inr (ih.2 c h)

theorem split_fst_leaves (m : Tree κ → Bool) (t r : Tree κ) (h : (split m t).1 = some r) : ∀ c ∈ r.leaves, c ∈ t.leaves := by
  have := ((split_leaves m).1 t).1
  rw [h] at this
  exact this

theorem split_snd_leaves (m : Tree κ → Bool) (t r : Tree κ) (h : (split m t).2 = some r) : ∀ c ∈ r.leaves, c ∈ t.leaves := by
  have := ((split_leaves m).1 t).2
  rw [h] at this
  exact this

/-- the outcome of a handler body is the object itself or nothing -/
theorem Act.apply_eq (K : Classes κ) (a : Act κ) (obj r : Tree κ) (h : a.apply K obj = some r) : r = obj := by
  cases a with
  | swallow => simp [Act.apply] at h
  | reraise => simp [Act.apply] at h; exact h.symm
  | swallowIf c =>
    simp only [Act.apply] at h
    split at h
    · simp at h
    · simp at h; exact h.symm

theorem runPlain_eq (K : Classes κ) (cls : List (Clause κ)) (t r : Tree κ) (h : (runPlain K cls t).1 = some r) : r = t := by
  induction cls with
  | nil => simp [runPlain] at h; exact h.symm
  | cons c cs ih =>
    simp only [runPlain] at h
    split at h
    · exact Act.apply_eq K _ _ _ h
    · exact ih h

theorem runStarNaked_leaves (K : Classes κ) (cls : List (Clause κ)) (c : κ) (r : Tree κ)
    (h : (runStarNaked K cls c).1 = some r) : ∀ x ∈ r.leaves, x ∈ (Tree.leaf c).leaves := by
  induction cls with
  | nil =>
    simp [runStarNaked] at h
    subst h
    exact fun x hx => hx
  | cons cl cs ih =>
    simp only [runStarNaked] at h
    split at h
    · split at h
      · simp at h
      · simp at h
        subst h
        intro x hx
        simpa [Tree.leaves, leavesList] using hx
    · exact ih h

theorem runStarGroup_leaves (K : Classes κ) (cls : List (Clause κ)) :
    ∀ (t r : Tree κ), (runStarGroup K cls t).1 = some r → ∀ c ∈ r.leaves, c ∈ t.leaves := by
  induction cls with
  | nil =>
    intro t r h
    simp [runStarGroup] at h
    subst h
    exact fun c hc => hc
  | cons cl cs ih =>
    intro t r h
    simp only [runStarGroup] at h
    split at h
    · exact ih t r h
    · rename_i m hm
      split at h
      · exact ih t r h
      · split at h
        · simp at h
        · rename_i rest hrest
          intro c hc
          exact split_snd_leaves _ t rest hrest c (ih rest r h c hc)

theorem runLayer_leaves (K : Classes κ) (l : Layer κ) (t r : Tree κ) (h : (runLayer K l t).1 = some r) :
    ∀ c ∈ r.leaves, c ∈ t.leaves := by
  unfold runLayer at h
  split at h
  · split at h
    · exact runStarNaked_leaves K _ _ _ h
    · exact runStarGroup_leaves K _ _ _ h
  · have := runPlain_eq K _ _ _ h
    subst this
    exact fun c hc => hc

theorem runLayers_leaves (K : Classes κ) (ls : List (Layer κ)) :
    ∀ (t r : Tree κ), (runLayers K ls t).1 = some r → ∀ c ∈ r.leaves, c ∈ t.leaves := by
  induction ls with
  | nil =>
    intro t r h
    simp [runLayers] at h
    subst h
    exact fun c hc => hc
  | cons l ls ih =>
    intro t r h
    simp only [runLayers] at h
    split at h
    · simp at h
    · rename_i r1 h1
      intro c hc
      exact runLayer_leaves K l t r1 h1 c (ih r1 r h c hc)

theorem allExc_of_subset (K : Classes κ) (t r : Tree κ) (hsub : ∀ c ∈ r.leaves, c ∈ t.leaves) (h : t.allExc K = true) :
    r.allExc K = true := by
  simp only [Tree.allExc, List.all_eq_true] at *
  exact fun c hc => h c (hsub c hc)

/-- an Exception tree is an instance of a class `≤ Exception` -/
theorem clsOf_exc (K : Classes κ) (hEG : K.sub K.eg K.exc = true) (t : Tree κ) (h : t.allExc K = true) :
    K.sub (t.clsOf K) K.exc = true := by
  cases t with
  | leaf c =>
    simp only [Tree.allExc, Tree.leaves, List.all_cons, List.all_nil, Bool.and_true] at h
    simpa [Tree.clsOf] using h
  | group cs =>
    simp only [Tree.clsOf, h, if_true]
    exact hEG

theorem clsOf_leaf (K : Classes κ) (c : κ) : (Tree.leaf c).clsOf K = c := rfl

theorem isInst_cls (K : Classes κ) (cls : List κ) (t : Tree κ) :
    (Tree.leaf (t.clsOf K)).isInst K cls = t.isInst K cls := by
  simp only [Tree.isInst, clsOf_leaf]

theorem apply_isNone_cls (K : Classes κ) (a : Act κ) (t : Tree κ) :
    (a.apply K t).isNone = (a.apply K (.leaf (t.clsOf K))).isNone := by
  cases a with
  | swallow => simp [Act.apply]
  | reraise => simp [Act.apply]
  | swallowIf c =>
    simp only [Act.apply, clsOf_leaf]
    by_cases h : K.sub (t.clsOf K) c = true <;> simp [h]

/-- a plain layer looks at the object's class only -/
theorem runPlain_isNone_cls (K : Classes κ) (cls : List (Clause κ)) (t : Tree κ) :
    (runPlain K cls t).1.isNone = (runPlain K cls (.leaf (t.clsOf K))).1.isNone := by
  induction cls with
  | nil => simp [runPlain]
  | cons c cs ih =>
    simp only [runPlain, isInst_cls]
    split
    · exact apply_isNone_cls K c.act t
    · exact ih

theorem plainTotal_swallows (K : Classes κ) (all : List κ) (hall : ∀ c, c ∈ all) (hEG : K.sub K.eg K.exc = true)
    (l : Layer κ) (hl : l.plainTotal K all = true) (t : Tree κ) (h : t.allExc K = true) :
    (runLayer K l t).1 = none := by
  simp only [Layer.plainTotal, Bool.and_eq_true, Bool.not_eq_true', List.all_eq_true, List.mem_filter] at hl
  have hc := hl.2 (t.clsOf K) ⟨hall _, clsOf_exc K hEG t h⟩
  have := runPlain_isNone_cls K l.clauses t
  rw [hc] at this
  simp only [runLayer, hl.1]
  simpa using this

/-- **the lifting lemma**: a chain one of whose layers is a total plain layer swallows every Exception tree -/
theorem guarded_swallows (K : Classes κ) (all : List κ) (hall : ∀ c, c ∈ all) (hEG : K.sub K.eg K.exc = true)
    (ls : List (Layer κ)) (hg : ls.any (Layer.plainTotal K all) = true) :
    ∀ t : Tree κ, t.allExc K = true → (runLayers K ls t).1 = none := by
  induction ls with
  | nil => simp at hg
  | cons l ls ih =>
    intro t ht
    simp only [runLayers]
    split
    · rfl
    · rename_i r hr
      by_cases hl : l.plainTotal K all = true
      · rw [plainTotal_swallows K all hall hEG l hl t ht] at hr
        simp at hr
      · simp only [List.any_cons, Bool.or_eq_true] at hg
        have hg' : ls.any (Layer.plainTotal K all) = true := by
          cases hg with
          | inl h => exact absurd h hl
          | inr h => exact h
        exact ih hg' r (allExc_of_subset K t r (runLayer_leaves K l t r hr) ht)

/-- converse: whatever escapes a guarded chain came from a tree with a leaf that is not an `Exception` -/
theorem escape_has_nonexc (K : Classes κ) (all : List κ) (hall : ∀ c, c ∈ all) (hEG : K.sub K.eg K.exc = true)
    (ls : List (Layer κ)) (hg : ls.any (Layer.plainTotal K all) = true) (t r : Tree κ)
    (h : (runLayers K ls t).1 = some r) :
    (∃ c ∈ t.leaves, K.sub c K.exc = false) ∧ ∀ c ∈ r.leaves, c ∈ t.leaves := by
  refine ⟨?_, runLayers_leaves K ls t r h⟩
  cases hx : t.allExc K with
  | true =>
    rw [guarded_swallows K all hall hEG ls hg t hx] at h
    simp at h
  | false =>
    simp only [Tree.allExc, List.all_eq_false] at hx
    obtain ⟨c, hc, hn⟩ := hx
    exact ⟨c, hc, by simpa using hn⟩

end EasyNet.Iso
