/-
  Chunking independence at the level of the byte-level reference: if decoding the whole stream in one
  go reports no size error, every chunking of the same stream yields the same items and the same
  retained bytes.  Generic in `spec`, under four laws that each concrete spec is proved to satisfy.
-/
import EasyNet.Model.Spec
namespace EasyNet

structure SpecLaws (spec : Bytes → SRes) (ok : Bytes → Prop := fun _ => True) : Prop where
  /-- every delivered frame / size error consumes at least one byte -/
  progress_done : ∀ b d r, spec b = .done d r → r.length < b.length
  progress_fail : ∀ b r, spec b = .fail r → r.length < b.length
  /-- a complete frame stays the first frame when more bytes follow -/
  done_append : ∀ b x d r, spec b = .done d r → spec (b ++ x) = .done d (r ++ x)
  /-- a prefix of incomplete, acceptable data is incomplete and acceptable -/
  need_prefix : ∀ b x, spec (b ++ x) = .need → spec b = .need
  /-- a prefix of data that starts with an acceptable frame (`ok d`: safely within the limit) is never rejected
      for its size -/
  done_prefix : ∀ b x d r, spec (b ++ x) = .done d r → ok d → ∀ r', spec b ≠ .fail r'

/-- decode everything that is complete in `b` (adequate fuel) -/
def decodeW (spec : Bytes → SRes) (b : Bytes) : Bytes × List Item := refDrain spec (b.length + 1) b

def NoLimit (items : List Item) : Prop := ∀ it ∈ items, it ≠ Item.limit

/-- no size error, and every delivered frame satisfies `ok` -/
def AllOk (ok : Bytes → Prop) (items : List Item) : Prop :=
  ∀ it ∈ items, match it with | .frame d => ok d | .limit => False

theorem AllOk_of_NoLimit (items : List Item) (h : NoLimit items) : AllOk (fun _ => True) items := by
  intro it hit
  cases it with
  | frame d => trivial
  | limit => exact h _ hit rfl

instance (items : List Item) : Decidable (NoLimit items) := by unfold NoLimit; infer_instance

variable {spec : Bytes → SRes} {ok : Bytes → Prop}

theorem refDrain_fuel_aux (L : SpecLaws spec ok) (n : Nat) :
    ∀ (b : Bytes) (f1 f2 : Nat), b.length ≤ n → b.length + 1 ≤ f1 → b.length + 1 ≤ f2 →
      refDrain spec f1 b = refDrain spec f2 b := by
  induction n with
  | zero =>
    intro b f1 f2 hb h1 h2
    have : b = [] := List.eq_nil_of_length_eq_zero (by omega)
    subst this
    cases f1 with
    | zero => omega
    | succ f1 => cases f2 with
      | zero => omega
      | succ f2 => simp [refDrain]
  | succ n ih =>
    intro b f1 f2 hb h1 h2
    cases f1 with
    | zero => omega
    | succ f1 => cases f2 with
      | zero => omega
      | succ f2 =>
        unfold refDrain
        by_cases hbe : b.isEmpty
        · simp [hbe]
        · simp only [hbe, Bool.false_eq_true, if_false]
          cases hs : spec b with
          | need => rfl
          | done d r =>
            have hp := L.progress_done b d r hs
            simp only
            rw [ih r f1 f2 (by omega) (by omega) (by omega)]
          | fail r =>
            have hp := L.progress_fail b r hs
            simp only
            rw [ih r f1 f2 (by omega) (by omega) (by omega)]

theorem refDrain_fuel (L : SpecLaws spec ok) (fuel : Nat) (b : Bytes) (h : b.length + 1 ≤ fuel) :
    refDrain spec fuel b = refDrain spec (b.length + 1) b :=
  refDrain_fuel_aux L b.length b fuel (b.length + 1) (Nat.le_refl _) h (Nat.le_refl _)

theorem decodeW_unfold (L : SpecLaws spec ok) (b : Bytes) :
    decodeW spec b =
      if b.isEmpty then ([], [])
      else match spec b with
        | .need => (b, [])
        | .done d r => ((decodeW spec r).1, .frame d :: (decodeW spec r).2)
        | .fail r => ((decodeW spec r).1, .limit :: (decodeW spec r).2) := by
  unfold decodeW
  conv => lhs; unfold refDrain
  by_cases hb : b.isEmpty
  · simp [hb]
  · simp only [hb, Bool.false_eq_true, if_false]
    cases hs : spec b with
    | need => rfl
    | done d r =>
      have hp := L.progress_done b d r hs
      simp only
      rw [refDrain_fuel L b.length r (by omega)]
    | fail r =>
      have hp := L.progress_fail b r hs
      simp only
      rw [refDrain_fuel L b.length r (by omega)]

theorem refRecv_eq_decodeW (L : SpecLaws spec ok) (h c : Bytes) : refRecv spec h c = decodeW spec (h ++ c) := by
  rw [decodeW_unfold L]
  unfold refRecv
  by_cases hb : (h ++ c).isEmpty
  · simp [hb]
  · simp only [hb, Bool.false_eq_true, if_false]
    cases hs : spec (h ++ c) <;> rfl

/-- what `decodeW` retains is empty or incomplete-and-acceptable -/
theorem decodeW_held (L : SpecLaws spec ok) (b : Bytes) :
    (decodeW spec b).1 = [] ∨ spec (decodeW spec b).1 = .need := by
  suffices H : ∀ n (b : Bytes), b.length ≤ n → ((decodeW spec b).1 = [] ∨ spec (decodeW spec b).1 = .need) from
    H b.length b (Nat.le_refl _)
  intro n
  induction n with
  | zero =>
    intro b hb
    have : b = [] := List.eq_nil_of_length_eq_zero (by omega)
    subst this
    left; rw [decodeW_unfold L]; simp
  | succ n ih =>
    intro b hbn
    rw [decodeW_unfold L]
    by_cases hb : b.isEmpty
    · simp [hb]
    · simp only [hb, Bool.false_eq_true, if_false]
      cases hs : spec b with
      | need => right; exact hs
      | done d r =>
        have hp := L.progress_done b d r hs
        exact ih r (by omega)
      | fail r =>
        have hp := L.progress_fail b r hs
        exact ih r (by omega)

/-- decoding is compositional along any cut of a stream that decodes without size error -/
theorem decodeW_append (L : SpecLaws spec ok) (b y : Bytes) (hno : AllOk ok (decodeW spec (b ++ y)).2) :
    decodeW spec (b ++ y) =
      ((decodeW spec ((decodeW spec b).1 ++ y)).1, (decodeW spec b).2 ++ (decodeW spec ((decodeW spec b).1 ++ y)).2) := by
  suffices H : ∀ n (b : Bytes), b.length ≤ n → AllOk ok (decodeW spec (b ++ y)).2 → decodeW spec (b ++ y) =
      ((decodeW spec ((decodeW spec b).1 ++ y)).1, (decodeW spec b).2 ++ (decodeW spec ((decodeW spec b).1 ++ y)).2) from
    H b.length b (Nat.le_refl _) hno
  clear hno
  intro n
  induction n with
  | zero =>
    intro b hb hno
    have : b = [] := List.eq_nil_of_length_eq_zero (by omega)
    subst this
    rw [decodeW_unfold L []]
    simp
  | succ n ih =>
    intro b hbn hno
    by_cases hb : b.isEmpty
    · have : b = [] := by simpa using hb
      subst this
      rw [decodeW_unfold L []]
      simp
    · rw [decodeW_unfold L b]
      simp only [hb, Bool.false_eq_true, if_false]
      cases hs : spec b with
      | need => simp
      | done d r =>
        have hp := L.progress_done b d r hs
        have hs' := L.done_append b y d r hs
        have hby : (b ++ y).isEmpty = false := by
          cases b with
          | nil => simp at hb
          | cons x xs => simp
        have hunf := decodeW_unfold L (b ++ y)
        simp only [hby, Bool.false_eq_true, if_false, hs'] at hunf
        have hno' : AllOk ok (decodeW spec (r ++ y)).2 := by
          intro it hit
          apply hno
          rw [hunf]; simp [hit]
        have := ih r (by omega) hno'
        simp only
        rw [hunf, this]
        simp
      | fail r =>
        exfalso
        have hby : (b ++ y).isEmpty = false := by
          cases b with
          | nil => simp at hb
          | cons x xs => simp
        have hunf := decodeW_unfold L (b ++ y)
        simp only [hby, Bool.false_eq_true, if_false] at hunf
        cases hs' : spec (b ++ y) with
        | need => have := L.need_prefix b y hs'; rw [hs] at this; cases this
        | done d' r' =>
          rw [hs'] at hunf
          have hok : ok d' := by
            have := hno (Item.frame d') (by rw [hunf]; simp)
            exact this
          exact L.done_prefix b y d' r' hs' hok r hs
        | fail r' =>
          rw [hs'] at hunf
          exact hno Item.limit (by rw [hunf]; simp)

/-- **Chunking independence** of the reference decoder. -/
theorem refRun_chunk_independent (L : SpecLaws spec ok) (cs : List Bytes) (h : Bytes)
    (hheld : h = [] ∨ spec h = .need) (hno : AllOk ok (decodeW spec (h ++ cs.flatten)).2) :
    refRun spec h cs = decodeW spec (h ++ cs.flatten) := by
  induction cs generalizing h with
  | nil =>
    simp only [refRun, List.flatten_nil, List.append_nil]
    rw [decodeW_unfold L]
    rcases hheld with rfl | hn
    · simp
    · by_cases hb : h.isEmpty
      · have : h = [] := by simpa using hb
        subst this; simp
      · simp [hb, hn]
  | cons c cs ih =>
    simp only [refRun, List.flatten_cons]
    rw [refRecv_eq_decodeW L]
    have hcomp := decodeW_append L (h ++ c) cs.flatten (by simpa [List.append_assoc] using hno)
    have hno2 : AllOk ok (decodeW spec ((decodeW spec (h ++ c)).1 ++ cs.flatten)).2 := by
      intro it hit
      apply hno
      rw [List.flatten_cons, ← List.append_assoc, hcomp]
      simp [hit]
    rw [ih _ (decodeW_held L _) hno2]
    rw [← List.append_assoc, hcomp]

end EasyNet
