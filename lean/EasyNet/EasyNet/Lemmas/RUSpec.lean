/-
  `RU.spec` (separator framing, copying path) satisfies the `SpecLaws`, and decodes a concatenation
  of valid frames into exactly those frames.
-/
import EasyNet.Lemmas.Find
import EasyNet.Lemmas.ChunkIndep
namespace EasyNet

theorem stripToSepPrefix_length_le (sep r : Bytes) : (stripToSepPrefix sep r).length ≤ r.length := by
  induction r with
  | nil => simp [stripToSepPrefix]
  | cons x xs ih =>
    unfold stripToSepPrefix
    split
    · exact Nat.le_refl _
    · simp; omega

theorem limitRemainder_length_le (b : Bytes) (k : Nat) (sep : Bytes) :
    (limitRemainder b k sep).length ≤ b.length - k := by
  unfold limitRemainder
  split
  · simp
  · split
    · simp; omega
    · have := stripToSepPrefix_length_le sep (b.drop k)
      simp at this; exact this

theorem firstOcc_none_nil (sep : Bytes) (hsep : sep ≠ []) : firstOcc sep [] = none := by
  have hpos : 0 < sep.length := List.length_pos_iff.mpr hsep
  unfold firstOcc findFrom; apply findIn_eq_none; intro j _ hj
  have : j + sep.length ≤ 0 := hj; omega

theorem firstOcc_prefix_none (sep b x : Bytes) (hsep : sep ≠ []) (h : firstOcc sep (b ++ x) = none) :
    firstOcc sep b = none := by
  cases hb : firstOcc sep b with
  | none => rfl
  | some i => rw [firstOcc_append_some sep b x i hsep hb] at h; cases h

/-- if the first occurrence in `b ++ x` is at `i` and `b` itself has none, `b` ends before that occurrence does -/
theorem firstOcc_prefix_short (sep b x : Bytes) (i : Nat) (hsep : sep ≠ [])
    (h : firstOcc sep (b ++ x) = some i) (hb : firstOcc sep b = none) : b.length < i + sep.length := by
  apply Nat.lt_of_not_le
  intro hle
  unfold firstOcc findFrom at h hb
  have hs := findIn_some _ _ _ _ _ h
  have := findIn_none sep b 0 b.length hsep hb i (Nat.zero_le _) hle
  rw [matchAt_append _ _ _ _ hle] at hs
  rw [this] at hs
  exact absurd hs.2.2.1 (by simp)

theorem RU.spec_laws (sep : Bytes) (limit : Nat) (ke : Bool) (hsep : sep ≠ []) :
    SpecLaws (RU.spec sep limit ke) := by
  have hpos : 0 < sep.length := List.length_pos_iff.mpr hsep
  constructor
  · -- progress_done
    intro b d r h
    unfold RU.spec at h
    cases hf : firstOcc sep b with
    | none => rw [hf] at h; simp only at h; split at h <;> cases h
    | some i =>
      rw [hf] at h; simp only at h
      unfold firstOcc findFrom at hf
      have hs := findIn_some _ _ _ _ _ hf
      split at h
      · cases h
      · injection h with _ hr
        subst hr; simp; omega
  · -- progress_fail
    intro b r h
    unfold RU.spec at h
    cases hf : firstOcc sep b with
    | none =>
      rw [hf] at h; simp only at h
      split at h
      · rename_i hl
        injection h with hr
        have := limitRemainder_length_le b (b.length + 1 - sep.length) sep
        rw [hr] at this
        omega
      · cases h
    | some i =>
      rw [hf] at h; simp only at h
      unfold firstOcc findFrom at hf
      have hs := findIn_some _ _ _ _ _ hf
      split at h
      · injection h with hr
        have := limitRemainder_length_le b i sep
        rw [hr] at this
        omega
      · cases h
  · -- done_append
    intro b x d r h
    unfold RU.spec at h ⊢
    cases hf : firstOcc sep b with
    | none => rw [hf] at h; simp only at h; split at h <;> cases h
    | some i =>
      rw [hf] at h; simp only at h
      rw [firstOcc_append_some sep b x i hsep hf]
      simp only
      unfold firstOcc findFrom at hf
      have hs := findIn_some _ _ _ _ _ hf
      split at h
      · cases h
      · rename_i hi
        injection h with hd hr
        simp only [hi, if_false]
        subst hd; subst hr
        congr 1
        · rw [List.take_append_of_le_length]; split <;> omega
        · rw [List.drop_append_of_le_length (by omega)]
  · -- need_prefix
    intro b x h
    unfold RU.spec at h ⊢
    cases hf : firstOcc sep (b ++ x) with
    | some i => rw [hf] at h; simp only at h; split at h <;> cases h
    | none =>
      rw [hf] at h; simp only at h
      rw [firstOcc_prefix_none sep b x hsep hf]
      simp only
      split at h
      · cases h
      · rename_i hl
        have : ¬ (b.length + 1 - sep.length > limit) := by simp at hl ⊢; omega
        simp [this]
  · -- done_prefix
    intro b x d r h _ r' hb
    unfold RU.spec at h hb
    cases hf : firstOcc sep (b ++ x) with
    | none => rw [hf] at h; simp only at h; split at h <;> cases h
    | some i =>
      rw [hf] at h; simp only at h
      split at h
      · cases h
      · rename_i hi
        cases hfb : firstOcc sep b with
        | some i' =>
          have := firstOcc_append_some sep b x i' hsep hfb
          rw [hf] at this; injection this with this; subst this
          rw [hfb] at hb; simp only [hi, if_false] at hb; cases hb
        | none =>
          have hshort := firstOcc_prefix_short sep b x i hsep hf hfb
          rw [hfb] at hb; simp only at hb
          split at hb
          · omega
          · cases hb

/-- a payload that the receiver will cut out exactly: the first occurrence of the separator in
    `p ++ sep` is the appended one (for a separator without self-overlap: `sep` does not occur in `p`),
    and the payload is within the limit -/
def ValidPayload (sep : Bytes) (limit : Nat) (p : Bytes) : Prop :=
  firstOcc sep (p ++ sep) = some p.length ∧ p.length ≤ limit

instance (sep : Bytes) (limit : Nat) (p : Bytes) : Decidable (ValidPayload sep limit p) := by
  unfold ValidPayload; infer_instance

def encodeFrames (sep : Bytes) (ps : List Bytes) : Bytes := (ps.map (· ++ sep)).flatten

def frameOf (sep : Bytes) (ke : Bool) (p : Bytes) : Item := .frame (if ke then p ++ sep else p)

theorem RU.spec_frame (sep : Bytes) (limit : Nat) (ke : Bool) (hsep : sep ≠ []) (p rest : Bytes)
    (hv : ValidPayload sep limit p) :
    RU.spec sep limit ke (p ++ sep ++ rest) = .done (if ke then p ++ sep else p) rest := by
  unfold RU.spec
  rw [firstOcc_append_some sep (p ++ sep) rest p.length hsep hv.1]
  have : ¬ (p.length > limit) := by have := hv.2; omega
  simp only [this, if_false]
  congr 1
  · cases ke
    · simp [List.append_assoc]
    · simp only [if_true]
      rw [List.take_append_of_le_length (by simp)]
      have : p.length + sep.length = (p ++ sep).length := by simp
      rw [this, List.take_length]
  · rw [List.drop_append_of_le_length (by simp)]
    have : p.length + sep.length = (p ++ sep).length := by simp
    rw [this, List.drop_length]; simp

theorem RU.decode_frames (sep : Bytes) (limit : Nat) (ke : Bool) (hsep : sep ≠ []) (ps : List Bytes)
    (hv : ∀ p ∈ ps, ValidPayload sep limit p) :
    decodeW (RU.spec sep limit ke) (encodeFrames sep ps) = ([], ps.map (frameOf sep ke)) := by
  have L := RU.spec_laws sep limit ke hsep
  induction ps with
  | nil => rw [decodeW_unfold L]; simp [encodeFrames]
  | cons p ps ih =>
    have hpos : 0 < sep.length := List.length_pos_iff.mpr hsep
    have henc : encodeFrames sep (p :: ps) = p ++ sep ++ encodeFrames sep ps := by
      simp [encodeFrames]
    rw [henc, decodeW_unfold L]
    have hne : (p ++ sep ++ encodeFrames sep ps).isEmpty = false := by
      cases sep with
      | nil => exact absurd rfl hsep
      | cons x xs => simp
    rw [RU.spec_frame sep limit ke hsep p _ (hv p (by simp))]
    simp only [hne, Bool.false_eq_true, if_false]
    rw [ih (fun q hq => hv q (by simp [hq]))]
    simp [frameOf]

end EasyNet
