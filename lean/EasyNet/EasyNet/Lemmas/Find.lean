/-
  Specification lemmas for substring search (`matchAt`, `findIn`, `findFrom`, `firstOcc`).
-/
import EasyNet.Model.Bytes
namespace EasyNet

theorem matchAt_append (sep buf x : Bytes) (j : Nat) (h : j + sep.length ≤ buf.length) :
    matchAt sep (buf ++ x) j = matchAt sep buf j := by
  unfold matchAt
  rw [List.drop_append_of_le_length (by omega)]
  rw [List.take_append_of_le_length (by simp; omega)]

theorem matchAt_short (sep buf : Bytes) (j : Nat) (hsep : sep ≠ []) (h : buf.length < j + sep.length) :
    matchAt sep buf j = false := by
  unfold matchAt
  have hl : ((buf.drop j).take sep.length).length < sep.length := by
    have : 0 < sep.length := List.length_pos_iff.mpr hsep
    simp; omega
  cases hb : (List.take sep.length (List.drop j buf) == sep) with
  | false => rfl
  | true =>
    have := eq_of_beq hb
    rw [this] at hl; omega

theorem findIn_some (sep buf : Bytes) (off stop i : Nat) (h : findIn sep buf off stop = some i) :
    off ≤ i ∧ i + sep.length ≤ stop ∧ matchAt sep buf i = true ∧
    ∀ j, off ≤ j → j < i → matchAt sep buf j = false := by
  fun_induction findIn sep buf off stop with
  | case1 off hg hm =>
    simp at h; subst h
    exact ⟨Nat.le_refl _, hg.1, hm, fun j h1 h2 => by omega⟩
  | case2 off hg hm ih =>
    have := ih h
    refine ⟨by omega, this.2.1, this.2.2.1, fun j h1 h2 => ?_⟩
    by_cases hj : j = off
    · subst hj; simpa using hm
    · exact this.2.2.2 j (by omega) h2
  | case3 off hg => simp at h

theorem findIn_none (sep buf : Bytes) (off stop : Nat) (hsep : sep ≠ []) (h : findIn sep buf off stop = none) :
    ∀ j, off ≤ j → j + sep.length ≤ stop → matchAt sep buf j = false := by
  have hpos : 0 < sep.length := List.length_pos_iff.mpr hsep
  fun_induction findIn sep buf off stop with
  | case1 off hg hm => simp at h
  | case2 off hg hm ih =>
    intro j h1 h2
    by_cases hj : j = off
    · subst hj; simpa using hm
    · exact ih h j (by omega) h2
  | case3 off hg =>
    intro j h1 h2
    exfalso; apply hg; constructor <;> omega

theorem findIn_eq_some (sep buf : Bytes) (off stop i : Nat) (hsep : sep ≠ [])
    (h1 : off ≤ i) (h2 : i + sep.length ≤ stop) (h3 : matchAt sep buf i = true)
    (h4 : ∀ j, off ≤ j → j < i → matchAt sep buf j = false) :
    findIn sep buf off stop = some i := by
  have hpos : 0 < sep.length := List.length_pos_iff.mpr hsep
  fun_induction findIn sep buf off stop with
  | case1 off hg hm =>
    by_cases hi : off = i
    · subst hi; rfl
    · have := h4 off (Nat.le_refl _) (by omega); simp [hm] at this
  | case2 off hg hm ih =>
    have hne : off ≠ i := by intro e; subst e; simp [h3] at hm
    exact ih (by omega) (fun j a b => h4 j (by omega) b)
  | case3 off hg => exfalso; apply hg; constructor <;> omega

theorem findIn_eq_none (sep buf : Bytes) (off stop : Nat)
    (h : ∀ j, off ≤ j → j + sep.length ≤ stop → matchAt sep buf j = false) :
    findIn sep buf off stop = none := by
  fun_induction findIn sep buf off stop with
  | case1 off hg hm => have := h off (Nat.le_refl _) hg.1; simp [hm] at this
  | case2 off hg hm ih => exact ih (fun j a b => h j (by omega) b)
  | case3 off hg => rfl
theorem findIn_resume (sep buf : Bytes) (off stop : Nat) (hsep : sep ≠ [])
    (h : ∀ j, j < off → matchAt sep buf j = false) :
    findIn sep buf off stop = findIn sep buf 0 stop := by
  cases hf : findIn sep buf off stop with
  | none =>
    symm; apply findIn_eq_none
    intro j _ hj
    by_cases hlt : j < off
    · exact h j hlt
    · exact findIn_none sep buf off stop hsep hf j (by omega) hj
  | some i =>
    have := findIn_some sep buf off stop i hf
    symm; apply findIn_eq_some sep buf 0 stop i hsep (by omega) this.2.1 this.2.2.1
    intro j _ hj
    by_cases hlt : j < off
    · exact h j hlt
    · exact this.2.2.2 j (by omega) hj

theorem firstOcc_append_some (sep b x : Bytes) (i : Nat) (hsep : sep ≠ []) (h : firstOcc sep b = some i) :
    firstOcc sep (b ++ x) = some i := by
  unfold firstOcc findFrom at *
  have := findIn_some sep b 0 b.length i h
  apply findIn_eq_some sep (b ++ x) 0 _ i hsep (by omega) (by simp; omega)
  · rw [matchAt_append _ _ _ _ this.2.1]; exact this.2.2.1
  · intro j h1 h2
    rw [matchAt_append _ _ _ _ (by omega)]; exact this.2.2.2 j h1 h2

theorem matchAt_take (sep buf : Bytes) (j stop : Nat) (h : j + sep.length ≤ stop) :
    matchAt sep (buf.take stop) j = matchAt sep buf j := by
  unfold matchAt
  rw [List.drop_take, List.take_take]
  congr 2
  omega

theorem findIn_take (sep buf : Bytes) (off stop : Nat) :
    findIn sep buf off stop = findIn sep (buf.take stop) off stop := by
  fun_induction findIn sep buf off stop with
  | case1 off hg hm =>
    rw [findIn.eq_1]; simp [hg, matchAt_take _ _ _ _ hg.1, hm]
  | case2 off hg hm ih =>
    rw [findIn.eq_1 sep (buf.take stop)]; simp [hg, matchAt_take _ _ _ _ hg.1, hm, ih]
  | case3 off hg => rw [findIn.eq_1]; simp [hg]
end EasyNet
