/-
  List lemmas for the C12 model: `removeWaiter`, `wakeUpFirst`, `okIdx`.
-/
import EasyNet.Model.Senders
namespace EasyNet.C12
open EasyNet

@[simp] theorem upd_same {α : Type} (f : Tid → α) (t : Tid) (v : α) : upd f t v t = v := by simp [upd]
theorem upd_other {α : Type} (f : Tid → α) (t u : Tid) (v : α) (h : u ≠ t) : upd f t v u = f u := by simp [upd, h]
theorem upd_apply {α : Type} (f : Tid → α) (t u : Tid) (v : α) : upd f t v u = if u = t then v else f u := rfl

/-! ### removeWaiter -/

theorem removeWaiter_sublist (t : Tid) (ws : List (Tid × Bool)) : (removeWaiter t ws).Sublist ws := by
  induction ws with
  | nil => simp [removeWaiter]
  | cons w ws ih =>
    simp only [removeWaiter]
    split
    · exact List.sublist_cons_self w ws
    · exact List.Sublist.cons_cons w ih

theorem mem_removeWaiter_of_ne {t : Tid} {ws : List (Tid × Bool)} {w : Tid × Bool} (h : w.1 ≠ t) :
    w ∈ removeWaiter t ws ↔ w ∈ ws := by
  induction ws with
  | nil => simp [removeWaiter]
  | cons x ws ih =>
    simp only [removeWaiter]
    split
    · rename_i hx
      constructor
      · intro hm; exact List.mem_cons_of_mem _ hm
      · intro hm
        rcases List.mem_cons.1 hm with rfl | hm
        · exact absurd hx h
        · exact hm
    · simp [ih]

theorem fst_mem_removeWaiter_of_ne {t u : Tid} {ws : List (Tid × Bool)} (h : u ≠ t) :
    u ∈ (removeWaiter t ws).map (·.1) ↔ u ∈ ws.map (·.1) := by
  simp only [List.mem_map]
  constructor
  · rintro ⟨w, hw, rfl⟩; exact ⟨w, (mem_removeWaiter_of_ne h).1 hw, rfl⟩
  · rintro ⟨w, hw, rfl⟩; exact ⟨w, (mem_removeWaiter_of_ne h).2 hw, rfl⟩

theorem fst_not_mem_removeWaiter {t : Tid} {ws : List (Tid × Bool)} (hnd : (ws.map (·.1)).Nodup) :
    t ∉ (removeWaiter t ws).map (·.1) := by
  induction ws with
  | nil => simp [removeWaiter]
  | cons x ws ih =>
    simp only [List.map_cons, List.nodup_cons] at hnd
    simp only [removeWaiter]
    split
    · rename_i hx; rw [← hx]; exact hnd.1
    · rename_i hx
      simp only [List.map_cons, List.mem_cons, not_or]
      exact ⟨fun h => hx h.symm, ih hnd.2⟩

theorem removeWaiter_nodup {t : Tid} {ws : List (Tid × Bool)} (hnd : (ws.map (·.1)).Nodup) :
    ((removeWaiter t ws).map (·.1)).Nodup :=
  List.Nodup.sublist ((removeWaiter_sublist t ws).map _) hnd

/-- removing the head -/
theorem removeWaiter_head (t : Tid) (b : Bool) (ws : List (Tid × Bool)) : removeWaiter t ((t, b) :: ws) = ws := by
  simp [removeWaiter]

theorem removeWaiter_tail_subset (t : Tid) (ws : List (Tid × Bool)) (w : Tid × Bool)
    (h : w ∈ (removeWaiter t ws).tail) : w ∈ ws.tail := by
  cases ws with
  | nil => simp [removeWaiter] at h
  | cons x ws =>
    simp only [removeWaiter] at h
    split at h
    · exact List.mem_of_mem_tail h
    · simp only [List.tail_cons] at h ⊢
      exact (removeWaiter_sublist t ws).subset h

/-! ### wakeUpFirst -/

theorem wakeUpFirst_locked (l : FairLock) : l.wakeUpFirst.locked = l.locked := by
  unfold FairLock.wakeUpFirst; split <;> rfl

theorem wakeUpFirst_fst (l : FairLock) : l.wakeUpFirst.waiters.map (·.1) = l.waiters.map (·.1) := by
  unfold FairLock.wakeUpFirst; split <;> simp_all

theorem wakeUpFirst_tail (l : FairLock) : l.wakeUpFirst.waiters.tail = l.waiters.tail := by
  unfold FairLock.wakeUpFirst; split <;> simp_all

theorem wakeUpFirst_head (l : FairLock) (w : Tid × Bool) (h : l.wakeUpFirst.waiters.head? = some w) : w.2 = true := by
  unfold FairLock.wakeUpFirst at h; split at h
  · simp_all
  · simp only [List.head?_cons, Option.some.injEq] at h; rw [← h]

/-! ### okIdx: indices of the successful calls -/

/-- positions (counted from `k`) of the calls that wrote their packet -/
def okIdx : List Outcome → Nat → List Nat
  | [], _ => []
  | o :: os, k => if o.written then k :: okIdx os (k + 1) else okIdx os (k + 1)

theorem okIdx_append (os : List Outcome) (o : Outcome) (k : Nat) :
    okIdx (os ++ [o]) k = okIdx os k ++ (if o.written then [k + os.length] else []) := by
  induction os generalizing k with
  | nil => simp [okIdx]
  | cons x os ih =>
    simp only [List.cons_append, okIdx, ih, List.length_cons]
    split <;> simp [Nat.add_assoc, Nat.add_comm 1]

theorem okIdx_lt (os : List Outcome) (k : Nat) : ∀ i ∈ okIdx os k, k ≤ i ∧ i < k + os.length := by
  induction os generalizing k with
  | nil => simp [okIdx]
  | cons x os ih =>
    intro i hi
    simp only [okIdx] at hi
    split at hi
    · rcases List.mem_cons.1 hi with rfl | hi
      · simp
      · have := ih (k + 1) i hi; simp only [List.length_cons]; omega
    · have := ih (k + 1) i hi; simp only [List.length_cons]; omega

theorem okIdx_pairwise (os : List Outcome) (k : Nat) : (okIdx os k).Pairwise (· < ·) := by
  induction os generalizing k with
  | nil => simp [okIdx]
  | cons x os ih =>
    simp only [okIdx]
    split
    · refine List.pairwise_cons.2 ⟨?_, ih (k + 1)⟩
      intro i hi; have := okIdx_lt os (k + 1) i hi; omega
    · exact ih (k + 1)

/-- all calls succeeded: the indices are 0, 1, …, n-1 -/
theorem okIdx_all_ok (os : List Outcome) (k : Nat) (h : ∀ o ∈ os, o = .ok) : okIdx os k = List.range' k os.length := by
  induction os generalizing k with
  | nil => simp [okIdx]
  | cons x os ih =>
    have hx : x = .ok := h x (by simp)
    simp only [okIdx, hx, Outcome.written, if_true, List.length_cons, List.range'_succ]
    rw [ih (k + 1) (fun o ho => h o (by simp [ho]))]

end EasyNet.C12
