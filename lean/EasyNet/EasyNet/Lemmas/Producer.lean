import EasyNet.Model.Producer
import EasyNet.Lemmas.RUSpec
namespace EasyNet

/-- no occurrence of `sep` in `p ++ sep.dropLast`  ⇒  the first occurrence in `p ++ sep` is the appended one -/
theorem firstOcc_of_junction_free (sep p : Bytes) (hsep : sep ≠ [])
    (h : firstOcc sep (p ++ sep.dropLast) = none) : firstOcc sep (p ++ sep) = some p.length := by
  have hpos : 0 < sep.length := List.length_pos_iff.mpr hsep
  unfold firstOcc findFrom at h ⊢
  have hn := findIn_none sep _ 0 _ hsep h
  have hdl : (p ++ sep.dropLast).length = p.length + sep.length - 1 := by simp; omega
  apply findIn_eq_some sep _ 0 _ p.length hsep (Nat.zero_le _)
  · simp
  · unfold matchAt
    rw [List.drop_append_of_le_length (Nat.le_refl _)]
    simp
  · intro j _ hj
    have hfit : j + sep.length ≤ (p ++ sep.dropLast).length := by rw [hdl]; omega
    have := hn j (Nat.zero_le _) hfit
    -- the window [j, j+|sep|) lies inside `p ++ sep.dropLast`, a prefix of `p ++ sep`
    have hpre : p ++ sep = (p ++ sep.dropLast) ++ [sep.getLast hsep] := by
      rw [List.append_assoc, List.dropLast_concat_getLast hsep]
    rw [hpre, matchAt_append _ _ _ _ hfit]
    exact this

/-- **What the producer emits is what the receiver cuts out**: a chunk produced for `data` is `p ++ sep` with `p` a payload
    whose first separator occurrence in `p ++ sep` is the appended one (the framing half of `ValidPayload`). -/
theorem AutoSep.produce_valid (sep data b : Bytes) (hsep : sep ≠ []) (h : AutoSep.produce sep data = .chunk b) :
    ∃ p, b = p ++ sep ∧ p ≠ [] ∧ firstOcc sep (p ++ sep) = some p.length := by
  unfold AutoSep.produce at h
  simp only at h
  split at h
  · cases h
  · rename_i hno
    split at h
    · cases h
    · rename_i hne
      injection h with hb
      refine ⟨_, hb.symm, by intro e; apply hne; simp [e], ?_⟩
      apply firstOcc_of_junction_free sep _ hsep
      cases hf : firstOcc sep (stripSuffixes sep data.length data ++ sep.dropLast) with
      | none => rfl
      | some i => rw [hf] at hno; simp at hno

end EasyNet
