/-
  C20 — invariants of the flow-control / write-buffer model, part 2: the byte account of the stream transport
  ("writing is paused whenever the user-space buffer is not empty") needed for "a send that returns is flushed".
  Hypotheses of this part: write-buffer limits (0, 0), no pause_writing/resume_writing other than the transport's own.
-/
import EasyNet.Lemmas.FlowCtl
namespace EasyNet.C20.FC
set_option linter.unusedSimpArgs false

/-- what the pause check needs (the "not paused ⇒ nothing buffered" fact may be temporarily false before it) -/
structure GPre (s : St) : Prop where
  high0 : s.high = 0
  low0 : s.low = 0
  acc : s.connLost = false → s.accepted = s.flushed + s.size
  pp : s.lost = false → s.paused = s.protoPaused
  flc : s.connLost = true → s.lost = false → s.paused = false → s.accepted = s.flushed

/-- global invariant: limits are 0, `accepted = flushed + buffered` while the transport lives, the protocol's pause flag is
    the transport's, and **if writing is not paused (and the connection not lost) every accepted byte is flushed** -/
structure GInv (s : St) : Prop extends GPre s where
  fl : s.lost = false → s.paused = false → s.accepted = s.flushed

theorem ginv_init (c : Cfg) (h : c.high = 0) (l : c.low = 0) : GInv (St.init c) := by
  refine ⟨⟨?_, ?_, ?_, ?_, ?_⟩, ?_⟩ <;> simp [St.init, St.size, h, l]

/-- the invariants only look at these fields -/
theorem gpre_congr {s t : St} (h : GPre s) (h1 : t.high = s.high) (h2 : t.low = s.low) (h3 : t.connLost = s.connLost)
    (h4 : t.accepted = s.accepted) (h5 : t.flushed = s.flushed) (h6 : t.tbuf = s.tbuf) (h7 : t.lost = s.lost)
    (h8 : t.paused = s.paused) (h9 : t.protoPaused = s.protoPaused) : GPre t := by
  refine ⟨by rw [h1]; exact h.high0, by rw [h2]; exact h.low0, ?_, ?_, ?_⟩
  · rw [h3, h4, h5]; simpa [St.size, h6] using h.acc
  · rw [h7, h8, h9]; exact h.pp
  · rw [h3, h7, h8, h4, h5]; exact h.flc

theorem ginv_congr {s t : St} (h : GInv s) (h1 : t.high = s.high) (h2 : t.low = s.low) (h3 : t.connLost = s.connLost)
    (h4 : t.accepted = s.accepted) (h5 : t.flushed = s.flushed) (h6 : t.tbuf = s.tbuf) (h7 : t.lost = s.lost)
    (h8 : t.paused = s.paused) (h9 : t.protoPaused = s.protoPaused) : GInv t :=
  ⟨gpre_congr h.toGPre h1 h2 h3 h4 h5 h6 h7 h8 h9, by rw [h7, h8, h4, h5]; exact h.fl⟩

theorem gpre_maybePause {s : St} (h : GPre s) : GInv (maybePauseProtocol s) := by
  unfold maybePauseProtocol
  split
  · rename_i hs
    have hz : s.size = 0 := by have := h.high0; omega
    refine ⟨h, ?_⟩
    intro hl hp
    cases hc : s.connLost with
    | false => have := h.acc hc; omega
    | true => exact h.flc hc hl hp
  · split
    · rename_i hpp
      refine ⟨h, ?_⟩
      intro hl hp
      have := h.pp hl
      simp_all
    · refine ⟨⟨h.high0, h.low0, ?_, ?_, ?_⟩, ?_⟩ <;> simp [fcPause, St.size]
      · simpa [St.size] using h.acc

theorem dropBytes_sum : ∀ (l : List Nat) (k : Nat), k ≤ l.sum → (dropBytes k l).sum = l.sum - k
  | [], k, h => by simp [dropBytes] at *
  | b :: bs, k, h => by
    unfold dropBytes
    split
    · rename_i hb
      have := dropBytes_sum bs (k - b) (by simp at h; omega)
      simp [this]; omega
    · simp; omega

theorem ginv_fcLost (c : Cfg) {s : St} (e : Option Nat) (h : GInv s) : GInv (fcLost c s e) := by
  unfold fcLost
  split
  · exact h
  · refine ⟨⟨h.high0, h.low0, ?_, ?_, ?_⟩, ?_⟩ <;> simp [completeAll, St.size]
    simpa [St.size] using h.acc

theorem gpre_fcLost (c : Cfg) {s : St} (e : Option Nat) (h : GPre s) : GPre (fcLost c s e) := by
  unfold fcLost
  split
  · exact h
  · refine ⟨h.high0, h.low0, ?_, ?_, ?_⟩ <;> simp [completeAll, St.size]
    simpa [St.size] using h.acc

theorem gpre_maybeResume (c : Cfg) {s : St} (h : GPre s) (hc : s.connLost = false) : GPre (maybeResumeProtocol c s) := by
  unfold maybeResumeProtocol
  split
  · refine ⟨h.high0, h.low0, ?_, ?_, ?_⟩ <;> simp [fcResume, completeAll, St.size, hc]
    simpa [St.size] using h.acc hc
  · exact h

theorem fl_maybeResume (c : Cfg) {s : St} (h : GPre s) (hc : s.connLost = false)
    (hfl : s.lost = false → s.paused = false → s.accepted = s.flushed) :
    (maybeResumeProtocol c s).lost = false → (maybeResumeProtocol c s).paused = false →
      (maybeResumeProtocol c s).accepted = (maybeResumeProtocol c s).flushed := by
  unfold maybeResumeProtocol
  split
  · rename_i hr
    intro _ _
    have := h.acc hc
    have := h.low0
    simp [fcResume, completeAll]
    omega
  · exact hfl

@[simp] theorem maybeResume_connLost (c s) : (maybeResumeProtocol c s).connLost = s.connLost := by
  unfold maybeResumeProtocol; split <;> simp [fcResume, completeAll]

theorem gpre_closeCheck (c : Cfg) {s : St} (h : GPre s) (hc : s.connLost = false) : GPre (closeCheck c s) := by
  unfold closeCheck
  split
  · rename_i ht
    apply gpre_fcLost
    refine ⟨h.high0, h.low0, by simp, h.pp, ?_⟩
    intro _ _ _
    have := h.acc hc
    simp [St.size, ht.1] at this ⊢
    exact this
  · exact h

theorem ginv_closeCheck (c : Cfg) {s : St} (h : GInv s) (hc : s.connLost = false) : GInv (closeCheck c s) := by
  unfold closeCheck
  split
  · rename_i ht
    apply ginv_fcLost
    have hacc := h.acc hc
    simp [St.size, ht.1] at hacc
    refine ⟨⟨h.high0, h.low0, by simp, h.pp, ?_⟩, ?_⟩
    · intro _ _ _; simpa using hacc
    · intro _ _; simpa using hacc
  · exact h

theorem gpre_flushStep {s : St} (h : GPre s) (hc : s.connLost = false) : GPre (flushStep s) := by
  unfold flushStep
  refine ⟨h.high0, h.low0, ?_, h.pp, ?_⟩
  · intro _
    have := h.acc hc
    have hd := dropBytes_sum s.tbuf (min s.size s.kroom) (by simp [St.size]; omega)
    simp [St.size] at this hd ⊢
    omega
  · intro hcl; simp [hc] at hcl

theorem gpre_tWriteReady (c : Cfg) {s : St} (h : GPre s) : GPre (tWriteReady c s) := by
  unfold tWriteReady
  split
  · exact h
  · rename_i hn
    have hc : s.connLost = false := by simp at hn; simpa using hn.2
    split
    · exact h
    · exact gpre_closeCheck c (gpre_maybeResume c (gpre_flushStep h hc) (by simpa [flushStep] using hc))
        (by simpa [flushStep] using hc)

theorem ginv_tWriteReady (c : Cfg) {s : St} (h : GInv s) : GInv (tWriteReady c s) := by
  unfold tWriteReady
  split
  · exact h
  · rename_i hn
    have hc : s.connLost = false := by simp at hn; simpa using hn.2
    split
    · exact h
    · rename_i hk
      have hp1 := gpre_flushStep h.toGPre hc
      have hfl1 : (flushStep s).lost = false → (flushStep s).paused = false →
          (flushStep s).accepted = (flushStep s).flushed := by
        intro hl hp
        have h1 := h.fl (by simpa [flushStep] using hl) (by simpa [flushStep] using hp)
        have h2 := h.acc hc
        exfalso; apply hk; omega
      have hc1 : (flushStep s).connLost = false := by simpa [flushStep] using hc
      have hp2 := gpre_maybeResume c hp1 hc1
      have hfl2 := fl_maybeResume c hp1 hc1 hfl1
      exact ginv_closeCheck c ⟨hp2, hfl2⟩ (by simpa using hc1)

theorem ginv_tWrite {s : St} (n : Nat) (h : GInv s) : GInv (tWrite s n).1 := by
  unfold tWrite
  split
  · exact h
  · split
    · exact h
    · rename_i hn hc
      have hc' : s.connLost = false := by simpa using hc
      have hacc := h.acc hc'
      split
      · rename_i ht
        simp [St.size, ht] at hacc
        split
        · refine ⟨⟨h.high0, h.low0, ?_, h.pp, ?_⟩, ?_⟩
          · intro _; simp [St.size, ht]; omega
          · intro hcl; simp [hc'] at hcl
          · intro _ _; simp; omega
        · rename_i hk
          apply gpre_maybePause
          refine ⟨h.high0, h.low0, ?_, h.pp, ?_⟩
          · intro _; simp [St.size]; omega
          · intro hcl; simp [hc'] at hcl
      · apply gpre_maybePause
        refine ⟨h.high0, h.low0, ?_, h.pp, ?_⟩
        · intro _; simp [St.size] at hacc ⊢; omega
        · intro hcl; simp [hc'] at hcl

theorem gpre_extendBuf {s : St} (sizes : List Nat) (h : GInv s) : GPre (extendBuf s sizes) := by
  unfold extendBuf
  refine ⟨h.high0, h.low0, ?_, h.pp, ?_⟩
  · intro hc
    have hc' : s.connLost = false := by simpa using hc
    have := h.acc hc'
    simp [St.size, hc'] at this ⊢
    omega
  · intro hc hl hp
    have hc' : s.connLost = true := by simpa using hc
    simp [hc']
    exact h.fl hl hp

/-- `writelines` followed by a pause check (its own, or the adapter's `set_write_buffer_limits(0)`) -/
theorem gpre_tWritelines (c : Cfg) {s : St} (sizes : List Nat) (h : GInv s) : GPre (tWritelines c s sizes).1 := by
  unfold tWritelines
  split
  · exact h.toGPre
  · split
    · exact (gpre_maybePause (gpre_tWriteReady c (gpre_extendBuf sizes h))).toGPre
    · exact gpre_tWriteReady c (gpre_extendBuf sizes h)

theorem ginv_tWritelines_wlp (c : Cfg) (hw : c.wlp = true) {s : St} (sizes : List Nat) (h : GInv s) :
    GInv (tWritelines c s sizes).1 := by
  unfold tWritelines
  split
  · exact h
  · simp only [hw, if_true]
    exact gpre_maybePause (gpre_tWriteReady c (gpre_extendBuf sizes h))

theorem gpre_tSetLimitsZero {s : St} (h : GPre s) : GInv (tSetLimitsZero s) := by
  unfold tSetLimitsZero
  apply gpre_maybePause
  exact ⟨rfl, rfl, h.acc, h.pp, h.flc⟩

theorem ginv_tClose (c : Cfg) {s : St} (h : GInv s) : GInv (tClose c s) := by
  unfold tClose
  split
  · exact h
  · split
    · exact ginv_congr h rfl rfl rfl rfl rfl rfl rfl rfl rfl
    · split
      · rename_i hz
        cases hc : s.connLost with
        | true => exact ginv_congr h rfl rfl (by simp [hc]) rfl rfl rfl rfl rfl rfl
        | false =>
          have hacc := h.acc hc
          refine ⟨⟨h.high0, h.low0, by simp, h.pp, ?_⟩, h.fl⟩
          intro _ _ _; simp; omega
      · exact ginv_congr h rfl rfl rfl rfl rfl rfl rfl rfl rfl

theorem ginv_tForceClose {s : St} (e : Option Nat) (h : GInv s) : GInv (tForceClose s e) := by
  unfold tForceClose
  split
  · exact h
  · refine ⟨⟨h.high0, h.low0, by simp, h.pp, ?_⟩, h.fl⟩
    intro _ hl hp; exact h.fl hl hp

/-- per-sender byte account -/
structure SInv (s : St) : Prop where
  e5 : ∀ i e, (s.senders i).endOff = some e → e ≤ s.accepted
  e6 : ∀ i e, (s.senders i).pc = .atWaiter → (s.senders i).fut = .result → (s.senders i).endOff = some e → e ≤ s.flushed
  e7 : ∀ i e, (i, Res.ok, some e) ∈ s.doneLog → e ≤ s.flushed

theorem sinv_init (c : Cfg) : SInv (St.init c) := by
  refine ⟨?_, ?_, ?_⟩ <;> simp [St.init, Sender.init]

theorem sinv_mono {s t : St} (h : SInv s) (hs : t.senders = s.senders) (hd : t.doneLog = s.doneLog)
    (ha : s.accepted ≤ t.accepted) (hf : s.flushed ≤ t.flushed) : SInv t := by
  refine ⟨?_, ?_, ?_⟩
  · intro i e he; rw [hs] at he; have := h.e5 i e he; omega
  · intro i e h1 h2 h3; rw [hs] at h1 h2 h3; have := h.e6 i e h1 h2 h3; omega
  · intro i e he; rw [hd] at he; have := h.e7 i e he; omega

theorem sinv_completeAll_exc (c : Cfg) {s : St} (x : Nat) (h : SInv s) : SInv (completeAll c s (.exc x)) := by
  refine ⟨?_, ?_, ?_⟩
  · intro i e he
    by_cases hwi : (s.senders i).pc = .atWaiter ∧ (s.senders i).fut = .pending
    · simp [completeAll, hwi] at he; exact h.e5 i e he
    · simp only [completeAll, hwi, if_false] at he; exact h.e5 i e he
  · intro i e h1 h2 h3
    by_cases hwi : (s.senders i).pc = .atWaiter ∧ (s.senders i).fut = .pending
    · simp [completeAll, hwi] at h2
    · simp only [completeAll, hwi, if_false] at h1 h2 h3; exact h.e6 i e h1 h2 h3
  · intro i e he; exact h.e7 i e (by simpa [completeAll] using he)

theorem sinv_completeAll_result (c : Cfg) {s : St} (h : SInv s)
    (hw : ∀ i e, Waiting s i → (s.senders i).endOff = some e → e ≤ s.flushed) : SInv (completeAll c s .result) := by
  refine ⟨?_, ?_, ?_⟩
  · intro i e he
    by_cases hwi : (s.senders i).pc = .atWaiter ∧ (s.senders i).fut = .pending
    · simp [completeAll, hwi] at he; exact h.e5 i e he
    · simp only [completeAll, hwi, if_false] at he; exact h.e5 i e he
  · intro i e h1 h2 h3
    by_cases hwi : (s.senders i).pc = .atWaiter ∧ (s.senders i).fut = .pending
    · simp [completeAll, hwi] at h3; exact hw i e hwi h3
    · simp only [completeAll, hwi, if_false] at h1 h2 h3; exact h.e6 i e h1 h2 h3
  · intro i e he; exact h.e7 i e (by simpa [completeAll] using he)

theorem sinv_fcLost (c : Cfg) {s : St} (e : Option Nat) (h : SInv s) : SInv (fcLost c s e) := by
  unfold fcLost
  split
  · exact h
  · exact sinv_completeAll_exc c _ (sinv_mono (t := { s with paused := false, lost := true, lostExc := e }) h rfl rfl
      (Nat.le_refl _) (Nat.le_refl _))

theorem sinv_maybePause {s : St} (h : SInv s) : SInv (maybePauseProtocol s) := by
  unfold maybePauseProtocol
  split
  · exact h
  · split
    · exact h
    · exact sinv_mono h rfl rfl (Nat.le_refl _) (Nat.le_refl _)

theorem sinv_maybeResume (c : Cfg) {s : St} (h : SInv s) (g : GPre s) (hc : s.connLost = false) :
    SInv (maybeResumeProtocol c s) := by
  unfold maybeResumeProtocol
  split
  · rename_i hr
    unfold fcResume
    apply sinv_completeAll_result
    · exact sinv_mono (t := { { s with protoPaused := false } with paused := false }) h rfl rfl (Nat.le_refl _) (Nat.le_refl _)
    · intro i e _ he
      have h5 := h.e5 i e (by simpa using he)
      have hacc := g.acc hc
      have := g.low0
      simp
      omega
  · exact h

theorem sinv_closeCheck (c : Cfg) {s : St} (h : SInv s) : SInv (closeCheck c s) := by
  unfold closeCheck
  split
  · exact sinv_fcLost c none (sinv_mono (t := { s with connLost := true }) h rfl rfl (Nat.le_refl _) (Nat.le_refl _))
  · exact h

theorem sinv_tWriteReady (c : Cfg) {s : St} (h : SInv s) (g : GPre s) : SInv (tWriteReady c s) := by
  unfold tWriteReady
  split
  · exact h
  · rename_i hn
    have hc : s.connLost = false := by simp at hn; simpa using hn.2
    split
    · exact h
    · have h1 : SInv (flushStep s) := sinv_mono h rfl rfl (Nat.le_refl _) (by simp [flushStep])
      exact sinv_closeCheck c (sinv_maybeResume c h1 (gpre_flushStep g hc) (by simpa [flushStep] using hc))

theorem sinv_tWrite {s : St} (n : Nat) (h : SInv s) : SInv (tWrite s n).1 := by
  unfold tWrite
  split
  · exact h
  · split
    · exact h
    · split
      · split
        · exact sinv_mono h rfl rfl (by simp) (by simp)
        · exact sinv_maybePause (sinv_mono h rfl rfl (by simp) (by simp))
      · exact sinv_maybePause (sinv_mono h rfl rfl (by simp) (by simp))

theorem sinv_tWritelines (c : Cfg) {s : St} (sizes : List Nat) (h : SInv s) (g : GInv s) :
    SInv (tWritelines c s sizes).1 := by
  have h1 : SInv (extendBuf s sizes) := sinv_mono h rfl rfl (by simp [extendBuf]; split <;> omega) (by simp [extendBuf])
  unfold tWritelines
  split
  · exact h
  · split
    · exact sinv_maybePause (sinv_tWriteReady c h1 (gpre_extendBuf sizes g))
    · exact sinv_tWriteReady c h1 (gpre_extendBuf sizes g)

theorem sinv_tSetLimitsZero {s : St} (h : SInv s) : SInv (tSetLimitsZero s) :=
  sinv_maybePause (sinv_mono (t := { s with high := 0, low := 0 }) h rfl rfl (Nat.le_refl _) (Nat.le_refl _))

theorem sinv_tClose (c : Cfg) {s : St} (h : SInv s) : SInv (tClose c s) := by
  unfold tClose
  repeat' split
  all_goals first | exact h | exact sinv_mono h rfl rfl (Nat.le_refl _) (Nat.le_refl _)

theorem sinv_tForceClose {s : St} (e : Option Nat) (h : SInv s) : SInv (tForceClose s e) := by
  unfold tForceClose
  split
  · exact h
  · exact sinv_mono h rfl rfl (Nat.le_refl _) (Nat.le_refl _)

/-- replacing sender `i` by `x` with the same ghost offset, not "resumed at a waiter" -/
theorem sinv_upd {s t : St} (i : Nat) (x : Sender) (h : SInv s) (hx : x.endOff = (s.senders i).endOff)
    (hx2 : ¬ (x.pc = .atWaiter ∧ x.fut = .result)) (hs : t.senders = upd s.senders i x) (hd : t.doneLog = s.doneLog)
    (ha : t.accepted = s.accepted) (hf : t.flushed = s.flushed) : SInv t := by
  refine ⟨?_, ?_, ?_⟩
  · intro j e he
    rw [hs] at he; rw [ha]
    by_cases hji : j = i
    · subst hji; simp [upd, hx] at he; exact h.e5 j e he
    · simp [upd, hji] at he; exact h.e5 j e he
  · intro j e h1 h2 h3
    rw [hs] at h1 h2 h3; rw [hf]
    by_cases hji : j = i
    · subst hji; simp [upd] at h1 h2; exact absurd ⟨h1, h2⟩ hx2
    · simp [upd, hji] at h1 h2 h3; exact h.e6 j e h1 h2 h3
  · intro j e he; rw [hd] at he; rw [hf]; exact h.e7 j e he

theorem sinv_finish {s : St} (i : Nat) (r : Res) (h : SInv s)
    (hr : r = .ok → ∀ e, (s.senders i).endOff = some e → e ≤ s.flushed) : SInv (finish s i r) := by
  refine ⟨?_, ?_, ?_⟩
  · intro j e he
    by_cases hji : j = i
    · subst hji; simp [finish, upd] at he; exact h.e5 j e he
    · simp [finish, upd, hji] at he; exact h.e5 j e he
  · intro j e h1 h2 h3
    by_cases hji : j = i
    · subst hji; simp [finish, upd] at h1
    · simp [finish, upd, hji] at h1 h2 h3; exact h.e6 j e h1 h2 h3
  · intro j e he
    simp [finish] at he
    rcases he with ⟨rfl, hrr, hee⟩ | he
    · exact hr hrr.symm e hee.symm
    · exact h.e7 j e he

@[simp] theorem completeAll_pc (c s v j) : ((completeAll c s v).senders j).pc = (s.senders j).pc := by
  simp only [completeAll]; split <;> rfl
@[simp] theorem fcLost_pc (c s e j) : ((fcLost c s e).senders j).pc = (s.senders j).pc := by
  unfold fcLost; split <;> simp
@[simp] theorem fcResume_pc (c s j) : ((fcResume c s).senders j).pc = (s.senders j).pc := by
  unfold fcResume; simp
@[simp] theorem maybePause_pc (s j) : ((maybePauseProtocol s).senders j).pc = (s.senders j).pc := by
  unfold maybePauseProtocol; repeat' split
  all_goals simp [fcPause]
@[simp] theorem maybeResume_pc (c s j) : ((maybeResumeProtocol c s).senders j).pc = (s.senders j).pc := by
  unfold maybeResumeProtocol; split <;> simp
@[simp] theorem closeCheck_pc (c s j) : ((closeCheck c s).senders j).pc = (s.senders j).pc := by
  unfold closeCheck; split <;> simp
@[simp] theorem tWriteReady_pc (c s j) : ((tWriteReady c s).senders j).pc = (s.senders j).pc := by
  unfold tWriteReady; repeat' split
  all_goals simp [flushStep]
@[simp] theorem tWritelines_pc (c s sizes j) : (((tWritelines c s sizes).1).senders j).pc = (s.senders j).pc := by
  unfold tWritelines; repeat' split
  all_goals simp [extendBuf]

/-- the whole invariant of the stream write path -/
structure FInv (s : St) : Prop where
  g : GInv s
  w : WInv s
  sv : SInv s

theorem finv_init (c : Cfg) (h : c.high = 0) (l : c.low = 0) : FInv (St.init c) :=
  ⟨ginv_init c h l, winv_init c, sinv_init c⟩

theorem ginv_finish {s : St} (i r) (h : GInv s) : GInv (finish s i r) :=
  ginv_congr h rfl rfl rfl rfl rfl rfl rfl rfl rfl

theorem finv_drainBody (c : Cfg) {s : St} (i : Nat) (h : FInv s) : FInv (drainBody c s i) := by
  refine ⟨?_, winv_drainBody c i h.w, ?_⟩
  · unfold drainBody
    split
    · exact ginv_finish i _ h.g
    · split
      · exact ginv_finish i _ h.g
      · exact ginv_congr h.g rfl rfl rfl rfl rfl rfl rfl rfl rfl
  · unfold drainBody
    split
    · exact sinv_finish i _ h.sv (by simp)
    · rename_i hl
      split
      · rename_i hp
        apply sinv_finish i _ h.sv
        intro _ e he
        have h5 := h.sv.e5 i e he
        have := h.g.fl (by simpa using hl) (by simpa using hp)
        omega
      · exact sinv_upd i { (s.senders i) with pc := .atWaiter, fut := .pending } h.sv rfl (by simp) rfl rfl rfl rfl

theorem finv_drainHead (c : Cfg) {s : St} (i : Nat) (h : FInv s) : FInv (drainHead c s i) := by
  unfold drainHead
  split
  · exact ⟨ginv_congr h.g rfl rfl rfl rfl rfl rfl rfl rfl rfl, winv_upd i _ (by simp) h.w rfl rfl rfl,
      sinv_upd i { (s.senders i) with pc := .atYield } h.sv rfl (by simp) rfl rfl rfl rfl⟩
  · exact finv_drainBody c i h

theorem sinv_setEndOff {s : St} (i : Nat) (acc : Bool) (h : SInv s) (hpc : (s.senders i).pc ≠ .atWaiter) :
    SInv (setEndOff s i acc) := by
  unfold setEndOff
  split
  · refine ⟨?_, ?_, ?_⟩
    · intro j e he
      by_cases hji : j = i
      · subst hji; simp [upd] at he; simp; omega
      · simp [upd, hji] at he; exact h.e5 j e he
    · intro j e h1 h2 h3
      by_cases hji : j = i
      · subst hji; simp [upd] at h1; exact absurd h1 hpc
      · simp [upd, hji] at h1 h2 h3; exact h.e6 j e h1 h2 h3
    · intro j e he; exact h.e7 j e he
  · exact h

theorem ginv_setEndOff {s : St} (i acc) (h : GInv s) : GInv (setEndOff s i acc) := by
  unfold setEndOff; split
  · exact ginv_congr h rfl rfl rfl rfl rfl rfl rfl rfl rfl
  · exact h

theorem setEndOff_pc {s : St} (i acc j) : ((setEndOff s i acc).senders j).pc = (s.senders j).pc := by
  unfold setEndOff; split
  · by_cases hji : j = i
    · subst hji; simp [upd]
    · simp [upd, hji]
  · rfl

theorem winv_setEndOff' {s : St} (i acc) (h : WInv s) : WInv (setEndOff s i acc) := winv_setEndOff i acc h

/-- first step of a stream sender -/
theorem finv_runOp (c : Cfg) (hk : c.kind = .stream) (hfix : c.wlp = true ∨ c.reassert = true) {s : St} (i : Nat) (op : Op)
    (hpc : (s.senders i).pc = .created op) (h : FInv s) : FInv (runOp c s i op) := by
  have hne : (s.senders i).pc ≠ .atWaiter := by simp [hpc]
  cases op with
  | drain => exact finv_drainHead c i h
  | send n =>
    simp only [runOp, hk]
    apply finv_drainHead
    have hs1 : (tWrite s n).1.senders = s.senders := by
      unfold tWrite; repeat' split
      all_goals first | rfl | (unfold maybePauseProtocol; repeat' split) <;> rfl
    exact ⟨ginv_setEndOff i _ (ginv_tWrite n h.g), winv_setEndOff i _ (winv_tWrite n h.w),
      sinv_setEndOff i _ (sinv_tWrite n h.sv) (by rw [hs1]; exact hne)⟩
  | sendv sizes =>
    have g1 := gpre_tWritelines c sizes h.g
    have w1 := winv_tWritelines c sizes h.w
    have s1 := sinv_tWritelines c sizes h.sv h.g
    -- the sender itself is untouched by the transport (it is not waiting)
    have hpc1 : ((tWritelines c s sizes).1.senders i).pc ≠ .atWaiter := by
      simp [hpc]
    simp only [runOp]
    split
    · apply finv_drainHead
      have hw2 := winv_setEndOff i (tWritelines c s sizes).2 w1
      have hs2 := sinv_setEndOff i (tWritelines c s sizes).2 s1 hpc1
      have hg2 : GPre (setEndOff (tWritelines c s sizes).1 i (tWritelines c s sizes).2) := by
        unfold setEndOff; split
        · exact gpre_congr g1 rfl rfl rfl rfl rfl rfl rfl rfl rfl
        · exact g1
      exact ⟨gpre_tSetLimitsZero hg2, winv_tSetLimitsZero hw2, sinv_tSetLimitsZero hs2⟩
    · rename_i hre
      have hw : c.wlp = true := by rcases hfix with h | h; exact h; exact absurd h hre
      apply finv_drainHead
      exact ⟨ginv_setEndOff i _ (ginv_tWritelines_wlp c hw sizes h.g), winv_setEndOff i _ w1,
        sinv_setEndOff i _ s1 hpc1⟩

theorem finv_finish {s : St} (i : Nat) (r : Res) (h : FInv s)
    (hr : r = .ok → ∀ e, (s.senders i).endOff = some e → e ≤ s.flushed) : FInv (finish s i r) :=
  ⟨ginv_finish i r h.g, winv_finish i r h.w, sinv_finish i r h.sv hr⟩

theorem finv_runTask (c : Cfg) (hk : c.kind = .stream) (hfix : c.wlp = true ∨ c.reassert = true) {s : St} (i : Nat)
    (h : FInv s) : FInv (runTask c s i) := by
  unfold runTask
  split
  · exact h
  · rename_i op hpc
    split
    · exact finv_finish i _ h (by simp)
    · exact finv_runOp c hk hfix i op hpc h
  · split
    · exact finv_finish i _ h (by simp)
    · exact finv_drainBody c i h
  · rename_i hpc
    split
    · exact finv_finish i _ h (by simp)
    · split
      · exact h
      · exact finv_finish i _ h (by simp)
      · rename_i hf
        exact finv_finish i _ h (fun _ e he => h.sv.e6 i e hpc hf he)
      · exact finv_finish i _ h (by simp)

theorem finv_fcLost (c : Cfg) {s : St} (e : Option Nat) (h : FInv s) : FInv (fcLost c s e) :=
  ⟨ginv_fcLost c e h.g, winv_fcLost c e h.w, sinv_fcLost c e h.sv⟩

theorem finv_runHandle (c : Cfg) (hk : c.kind = .stream) (hfix : c.wlp = true ∨ c.reassert = true) {s : St} (hd : Handle)
    (h : FInv s) : FInv (runHandle c s hd) := by
  cases hd with
  | task i => exact finv_runTask c hk hfix i h
  | connLost e => exact finv_fcLost c e h

theorem finv_foldl (c : Cfg) (hk : c.kind = .stream) (hfix : c.wlp = true ∨ c.reassert = true) (hs : List Handle) :
    ∀ {s : St}, FInv s → FInv (hs.foldl (runHandle c) s) := by
  induction hs with
  | nil => intro s h; exact h
  | cons x xs ih => intro s h; exact ih (finv_runHandle c hk hfix x h)

/-- FInv does not look at `ready`, and an emptied `doneLog` is fine -/
theorem finv_clear {s t : St} (h : FInv s) (h1 : t.high = s.high) (h2 : t.low = s.low) (h3 : t.connLost = s.connLost)
    (h4 : t.accepted = s.accepted) (h5 : t.flushed = s.flushed) (h6 : t.tbuf = s.tbuf) (h7 : t.lost = s.lost)
    (h8 : t.paused = s.paused) (h9 : t.protoPaused = s.protoPaused) (hs : t.senders = s.senders)
    (hd : t.doneLog = s.doneLog ∨ t.doneLog = []) : FInv t := by
  refine ⟨ginv_congr h.g h1 h2 h3 h4 h5 h6 h7 h8 h9, winv_congr h8 h7 hs h.w, ?_⟩
  refine ⟨?_, ?_, ?_⟩
  · intro i e he; rw [hs] at he; rw [h4]; exact h.sv.e5 i e he
  · intro i e a b d; rw [hs] at a b d; rw [h5]; exact h.sv.e6 i e a b d
  · intro i e he
    rcases hd with hd | hd
    · rw [hd] at he; rw [h5]; exact h.sv.e7 i e he
    · rw [hd] at he; simp at he

def Ev.isDirect : Ev → Bool
  | .pause => true
  | .resume => true
  | _ => false

theorem finv_step (c : Cfg) (hk : c.kind = .stream) (hfix : c.wlp = true ∨ c.reassert = true) {s : St} (ev : Ev)
    (hnd : ev.isDirect = false) (h : FInv s) : FInv (step c s ev).1 := by
  cases ev with
  | start i op =>
    simp only [step]
    split
    · refine ⟨ginv_congr h.g rfl rfl rfl rfl rfl rfl rfl rfl rfl, winv_upd i _ (by simp) h.w rfl rfl rfl, ?_⟩
      refine ⟨?_, ?_, ?_⟩
      · intro j e he
        by_cases hji : j = i
        · subst hji; simp [upd] at he
        · simp [upd, hji] at he; exact h.sv.e5 j e he
      · intro j e h1 h2 h3
        by_cases hji : j = i
        · subst hji; simp [upd] at h1
        · simp [upd, hji] at h1 h2 h3; exact h.sv.e6 j e h1 h2 h3
      · intro j e he; exact h.sv.e7 j e he
    · exact h
  | pause => simp [Ev.isDirect] at hnd
  | resume => simp [Ev.isDirect] at hnd
  | kernel k =>
    simp only [step, hk]
    have h0 : FInv { s with kroom := s.kroom + k } := finv_clear h rfl rfl rfl rfl rfl rfl rfl rfl rfl rfl (Or.inl rfl)
    exact ⟨ginv_tWriteReady c h0.g, winv_tWriteReady c h0.w, sinv_tWriteReady c h0.sv h0.g.toGPre⟩
  | lost e => exact finv_fcLost c e h
  | fail e =>
    simp only [step, hk]
    exact ⟨ginv_tForceClose e h.g, winv_tForceClose e h.w, sinv_tForceClose e h.sv⟩
  | close => exact ⟨ginv_tClose c h.g, winv_tClose c h.w, sinv_tClose c h.sv⟩
  | cancel i =>
    simp only [step]
    refine ⟨?_, winv_cancelTask i h.w, ?_⟩
    · unfold cancelTask; repeat' split
      all_goals first | exact h.g | exact ginv_congr h.g rfl rfl rfl rfl rfl rfl rfl rfl rfl
    · unfold cancelTask
      split
      · exact h.sv
      · rename_i op hpc
        exact sinv_upd i { (s.senders i) with mustCancel := true } h.sv rfl (by simp [hpc]) rfl rfl rfl rfl
      · rename_i hpc
        exact sinv_upd i { (s.senders i) with mustCancel := true } h.sv rfl (by simp [hpc]) rfl rfl rfl rfl
      · rename_i hpc
        split
        · exact sinv_upd i { (s.senders i) with fut := .cancelled } h.sv rfl (by simp) rfl rfl rfl rfl
        · -- a waiter already resumed keeps its (flushed) offset; only `mustCancel` changes
          refine ⟨?_, ?_, ?_⟩
          · intro j e he
            by_cases hji : j = i
            · subst hji; simp [upd] at he; exact h.sv.e5 j e he
            · simp [upd, hji] at he; exact h.sv.e5 j e he
          · intro j e h1 h2 h3
            by_cases hji : j = i
            · subst hji; simp [upd] at h1 h2 h3; exact h.sv.e6 j e h1 h2 h3
            · simp [upd, hji] at h1 h2 h3; exact h.sv.e6 j e h1 h2 h3
          · intro j e he; exact h.sv.e7 j e he
  | turn =>
    simp only [step]
    have h0 : FInv (beginTurn s) := finv_clear h rfl rfl rfl rfl rfl rfl rfl rfl rfl rfl (Or.inr rfl)
    have h1 := finv_foldl c hk hfix s.ready h0
    exact finv_clear h1 rfl rfl rfl rfl rfl rfl rfl rfl rfl rfl (Or.inr rfl)

theorem finv_run (c : Cfg) (hk : c.kind = .stream) (hfix : c.wlp = true ∨ c.reassert = true) (evs : List Ev) :
    ∀ {s : St}, (∀ e ∈ evs, e.isDirect = false) → FInv s → FInv (run c s evs).1 := by
  induction evs with
  | nil => intro s _ h; exact h
  | cons e es ih =>
    intro s hnd h
    simpa [run] using ih (fun x hx => hnd x (by simp [hx])) (finv_step c hk hfix e (hnd e (by simp)) h)

/-- what the loop turn reports as successfully completed is flushed -/
theorem turn_ok_flushed (c : Cfg) (hk : c.kind = .stream) (hfix : c.wlp = true ∨ c.reassert = true) {s : St} (h : FInv s)
    (i e : Nat) (hm : (i, Res.ok, some e) ∈ (s.ready.foldl (runHandle c) (beginTurn s)).doneLog) :
    e ≤ (step c s .turn).1.flushed := by
  have h0 : FInv (beginTurn s) := finv_clear h rfl rfl rfl rfl rfl rfl rfl rfl rfl rfl (Or.inr rfl)
  have h1 := finv_foldl c hk hfix s.ready h0
  simpa [step, endTurn] using h1.sv.e7 i e hm

end EasyNet.C20.FC
