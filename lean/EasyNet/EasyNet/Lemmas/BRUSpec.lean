/-
  `BRU.spec` (separator framing, buffered path, capacity `cap`) satisfies the `SpecLaws` for frames safely inside
  the capacity (`|payload| + |sep| < cap`), and decodes a concatenation of such frames into exactly those frames.
-/
import EasyNet.Lemmas.BRU
namespace EasyNet

/-- frame data delivered for a frame that ends strictly before the last byte of the buffer -/
def BRU.okFrame (sep : Bytes) (cap : Nat) (ke : Bool) (d : Bytes) : Prop :=
  (if ke then d.length else d.length + sep.length) < cap

instance (sep : Bytes) (cap : Nat) (ke : Bool) (d : Bytes) : Decidable (BRU.okFrame sep cap ke d) := by
  unfold BRU.okFrame; infer_instance

theorem BRU.spec_laws (sep : Bytes) (cap : Nat) (ke : Bool) (hsep : sep ≠ []) :
    SpecLaws (BRU.spec sep cap ke) (BRU.okFrame sep cap ke) := by
  have hpos : 0 < sep.length := List.length_pos_iff.mpr hsep
  have R := BRU.refines sep cap ke hsep
  constructor
  · exact R.rest_lt
  · exact R.rest_lt'
  · -- done_append
    intro b x d r h
    unfold BRU.spec at h ⊢
    cases hf : firstOcc sep b with
    | none => rw [hf] at h; simp only at h; split at h <;> cases h
    | some i =>
      rw [hf] at h; simp only at h
      rw [firstOcc_append_some sep b x i hsep hf]
      simp only
      unfold firstOcc findFrom at hf
      have hs := findIn_some _ _ _ _ _ hf
      injection h with hd hr
      subst hd; subst hr
      congr 1
      · rw [List.take_append_of_le_length]; split <;> omega
      · rw [List.drop_append_of_le_length (by omega)]
  · -- need_prefix
    intro b x h
    unfold BRU.spec at h ⊢
    cases hf : firstOcc sep (b ++ x) with
    | some i => rw [hf] at h; simp only at h; cases h
    | none =>
      rw [hf] at h; simp only at h
      rw [firstOcc_prefix_none sep b x hsep hf]
      simp only
      split at h
      · cases h
      · rename_i hl
        have : ¬ (b.length + 2 > cap ∧ sep.length ≤ b.length) := by
          simp only [List.length_append] at hl; omega
        simp [this]
  · -- done_prefix
    intro b x d r h hok r' hb
    unfold BRU.spec at h hb
    cases hf : firstOcc sep (b ++ x) with
    | none => rw [hf] at h; simp only at h; split at h <;> cases h
    | some i =>
      rw [hf] at h; simp only at h
      injection h with hd hr
      have hs := findIn_some _ _ _ _ _ (by unfold firstOcc findFrom at hf; exact hf)
      cases hfb : firstOcc sep b with
      | some i' => rw [hfb] at hb; simp only at hb; cases hb
      | none =>
        have hshort := firstOcc_prefix_short sep b x i hsep hf hfb
        rw [hfb] at hb; simp only at hb
        split at hb
        · rename_i hl
          -- `ok d` says i + |sep| < cap, but the prefix b (shorter than i + |sep|) already fills cap - 1: impossible
          unfold BRU.okFrame at hok
          subst hd
          have hbx : (b ++ x).length = b.length + x.length := by simp
          cases ke
          · have hdl : (List.take i (b ++ x)).length = i := by
              rw [List.length_take]; omega
            simp only [Bool.false_eq_true, if_false] at hok
            rw [hdl] at hok
            omega
          · have hdl : (List.take (i + sep.length) (b ++ x)).length = i + sep.length := by
              rw [List.length_take]; omega
            simp only [if_true] at hok
            rw [hdl] at hok
            omega
        · cases hb

def ValidPayloadB (sep : Bytes) (cap : Nat) (p : Bytes) : Prop :=
  firstOcc sep (p ++ sep) = some p.length ∧ p.length + sep.length < cap

instance (sep : Bytes) (cap : Nat) (p : Bytes) : Decidable (ValidPayloadB sep cap p) := by
  unfold ValidPayloadB; infer_instance

theorem BRU.spec_frame (sep : Bytes) (cap : Nat) (ke : Bool) (hsep : sep ≠ []) (p rest : Bytes)
    (hv : firstOcc sep (p ++ sep) = some p.length) :
    BRU.spec sep cap ke (p ++ sep ++ rest) = .done (if ke then p ++ sep else p) rest := by
  unfold BRU.spec
  rw [firstOcc_append_some sep (p ++ sep) rest p.length hsep hv]
  simp only
  congr 1
  · cases ke
    · simp [List.append_assoc]
    · simp only [if_true]
      rw [List.take_append_of_le_length (by simp)]
      have : p.length + sep.length = (p ++ sep).length := by simp
      rw [this, List.take_length]
  · rw [List.drop_append_of_le_length (by simp)]
    have : p.length + sep.length = (p ++ sep).length := by simp
    rw [this, List.drop_length]; simp

theorem BRU.decode_frames (sep : Bytes) (cap : Nat) (ke : Bool) (hsep : sep ≠ []) (ps : List Bytes)
    (hv : ∀ p ∈ ps, ValidPayloadB sep cap p) :
    decodeW (BRU.spec sep cap ke) (encodeFrames sep ps) = ([], ps.map (frameOf sep ke)) := by
  have L := BRU.spec_laws sep cap ke hsep
  induction ps with
  | nil => rw [decodeW_unfold L]; simp [encodeFrames]
  | cons p ps ih =>
    have henc : encodeFrames sep (p :: ps) = p ++ sep ++ encodeFrames sep ps := by
      simp [encodeFrames]
    rw [henc, decodeW_unfold L]
    have hne : (p ++ sep ++ encodeFrames sep ps).isEmpty = false := by
      cases sep with
      | nil => exact absurd rfl hsep
      | cons x xs => simp
    rw [BRU.spec_frame sep cap ke hsep p _ (hv p (by simp)).1]
    simp only [hne, Bool.false_eq_true, if_false]
    rw [ih (fun q hq => hv q (by simp [hq]))]
    simp [frameOf]

theorem BRU.frames_allOk (sep : Bytes) (cap : Nat) (ke : Bool) (ps : List Bytes)
    (hv : ∀ p ∈ ps, ValidPayloadB sep cap p) :
    AllOk (BRU.okFrame sep cap ke) (ps.map (frameOf sep ke)) := by
  intro it hit
  simp only [List.mem_map] at hit
  obtain ⟨p, hp, rfl⟩ := hit
  have := (hv p hp).2
  simp only [frameOf, BRU.okFrame]
  cases ke <;> simp <;> omega

end EasyNet
