/-
  C08: the data invariants of the wrapper machine, as instances of the invariant principle of Lemmas/Tls08Core.lean.
    G1   provenance (only BIO bytes reach the transport, the backlog holds only application bytes), write-exactly-once
         (`accepted ++ backlog = written`), the conduit equations (wire ++ pending = everything the engine emitted;
         consumed ++ incoming BIO = everything fed = everything taken from the transport)
    RInv what recv / recv_into returned = what ssl.read produced
    MInv every completed write loop had all bytes written up to its call accepted
-/
import EasyNet.Lemmas.Tls08Core
namespace EasyNet.C08
open EasyNet

theorem tag_org (o : Org) (b : Bytes) : ∀ x ∈ tag o b, x.1 = o := by
  intro x hx
  simp only [tag, List.mem_map] at hx
  obtain ⟨y, _, rfl⟩ := hx
  rfl

theorem untag_append (a b : List TB) : untag (a ++ b) = untag a ++ untag b := by simp [untag]
theorem untag_take (a : List TB) (n : Nat) : untag (a.take n) = (untag a).take n := by simp [untag, List.map_take]
theorem untag_drop (a : List TB) (n : Nat) : untag (a.drop n) = (untag a).drop n := by simp [untag, List.map_drop]
theorem untag_length (a : List TB) : (untag a).length = a.length := by simp [untag]

theorem acceptedBy_nonwrite (call : Call) (r : Resp) (h : call.kind ≠ .write) : acceptedBy call r = [] := by
  cases call <;> simp_all [acceptedBy, Call.kind]

structure G1 {σ : Type} (d : Core σ) : Prop where
  wbioBio : ∀ b ∈ d.wbio, b.1 = Org.bio
  xmitBio : ∀ p ∈ d.xmits, ∀ b ∈ p, b.1 = Org.bio
  dqPlain : ∀ c ∈ d.deque, ∀ b ∈ c, b.1 = Org.plain
  wrPlain : ∀ b ∈ d.written, b.1 = Org.plain
  once : d.accepted ++ untag d.deque.flatten = untag d.written
  outs : d.xmits.flatten ++ d.wbio = d.outAll
  ins : d.consumed ++ d.rbio = d.fedAll
  fedTaken : d.fedAll <+: d.taken
  fedEq : d.rEof = false → d.fedAll = d.taken

theorem G1.init {σ : Type} (e : σ) (c : Bool) : G1 (St.init e c).core := by
  constructor <;> simp [St.init, St.core, untag]

/-- the BIO part of an engine call -/
theorem bios_step {σ : Type} {E : Engine σ} {d : Core σ} (h1 : ∀ b ∈ d.wbio, b.1 = Org.bio)
    (h2 : d.xmits.flatten ++ d.wbio = d.outAll) (h3 : d.consumed ++ d.rbio = d.fedAll) (call : Call) :
    (∀ b ∈ (d.engStep E call).wbio, b.1 = Org.bio) ∧
    (d.engStep E call).xmits.flatten ++ (d.engStep E call).wbio = (d.engStep E call).outAll ∧
    (d.engStep E call).consumed ++ (d.engStep E call).rbio = (d.engStep E call).fedAll := by
  refine ⟨?_, ?_, ?_⟩
  · intro b hb
    simp only [Core.engStep, List.mem_append] at hb
    rcases hb with hb | hb
    · exact h1 b hb
    · exact tag_org _ _ b hb
  · simp only [Core.engStep]; rw [← List.append_assoc, h2]
  · simp only [Core.engStep]; rw [List.append_assoc, List.take_append_drop]; exact h3

theorem G1.bios {σ : Type} {E : Engine σ} {d : Core σ} (h : G1 d) (call : Call) :
    (∀ b ∈ (d.engStep E call).wbio, b.1 = Org.bio) ∧
    (d.engStep E call).xmits.flatten ++ (d.engStep E call).wbio = (d.engStep E call).outAll ∧
    (d.engStep E call).consumed ++ (d.engStep E call).rbio = (d.engStep E call).fedAll :=
  bios_step h.wbioBio h.outs h.ins call

/-- the plaintext part of `write(head)` + backlog update -/
theorem once_write {acc : Bytes} {d : List TB} {dq : List (List TB)} {w : Bytes} (r : Resp)
    (h : acc ++ untag (d :: dq).flatten = w) :
    acc ++ acceptedBy (.write (untag d)) r ++ untag (afterWrite d dq r.out).flatten = w := by
  rw [List.flatten_cons, untag_append] at h
  cases ho : r.out with
  | ok n =>
    simp only [acceptedBy, ho, afterWrite]
    by_cases hlt : n < d.length
    · rw [if_pos hlt]
      by_cases hn : n = 0
      · subst hn
        simp only [if_true, List.take_zero, List.append_nil, List.flatten_cons, untag_append]
        exact h
      · rw [if_neg hn, List.flatten_cons, untag_append, untag_drop, List.append_assoc,
          ← List.append_assoc (List.take n (untag d)), List.take_append_drop]
        exact h
    · rw [if_neg hlt, List.take_of_length_le (by rw [untag_length]; omega), List.append_assoc]
      exact h
  | _ =>
    simp only [acceptedBy, ho, afterWrite, List.append_nil, List.flatten_cons, untag_append]
    exact h

theorem plain_afterWrite {d : List TB} {dq : List (List TB)} (o : SslOut)
    (h : ∀ c ∈ d :: dq, ∀ b ∈ c, b.1 = Org.plain) : ∀ c ∈ afterWrite d dq o, ∀ b ∈ c, b.1 = Org.plain := by
  intro c hc b hb
  have hdrop : ∀ n, ∀ c ∈ d.drop n :: dq, ∀ b ∈ c, b.1 = Org.plain := by
    intro n c hc b hb
    simp only [List.mem_cons] at hc
    rcases hc with rfl | hc
    · exact h d (by simp) b (List.mem_of_mem_drop hb)
    · exact h c (by simp [hc]) b hb
  cases o with
  | ok n =>
    simp only [afterWrite] at hc
    split at hc
    · split at hc
      · exact h c hc b hb
      · exact hdrop n c hc b hb
    · exact h c (by simp [hc]) b hb
  | _ => exact h c hc b hb

theorem G1.closed {σ : Type} (E : Engine σ) : Closed E (G1 (σ := σ)) where
  eng := by
    intro c call h hk _
    obtain ⟨b1, b2, b3⟩ := h.bios (E := E) call
    refine ⟨b1, h.xmitBio, h.dqPlain, h.wrPlain, ?_, b2, b3, h.fedTaken, h.fedEq⟩
    show c.accepted ++ acceptedBy call (c.resp E call) ++ untag c.deque.flatten = untag c.written
    rw [acceptedBy_nonwrite _ _ hk, List.append_nil]; exact h.once
  readOk := by
    intro c n h _
    obtain ⟨b1, b2, b3⟩ := h.bios (E := E) (.read n)
    refine ⟨b1, h.xmitBio, h.dqPlain, h.wrPlain, ?_, b2, b3, h.fedTaken, h.fedEq⟩
    show c.accepted ++ acceptedBy (.read n) (c.resp E (.read n)) ++ untag c.deque.flatten = untag c.written
    rw [acceptedBy_nonwrite _ _ (by simp [Call.kind]), List.append_nil]; exact h.once
  write := by
    intro c d dq h
    obtain ⟨b1, b2, b3⟩ := bios_step (E := E) (d := c) h.wbioBio h.outs h.ins (.write (untag d))
    refine ⟨b1, h.xmitBio, plain_afterWrite _ h.dqPlain, h.wrPlain, ?_, b2, b3, h.fedTaken, h.fedEq⟩
    exact once_write (c.resp E (.write (untag d))) h.once
  xmit := by
    intro c h
    refine ⟨by simp [Core.xmit], ?_, h.dqPlain, h.wrPlain, h.once, ?_, h.ins, h.fedTaken, h.fedEq⟩
    · intro p hp
      simp only [Core.xmit, List.mem_append, List.mem_singleton] at hp
      rcases hp with hp | rfl
      · exact h.xmitBio p hp
      · exact h.wbioBio
    · simp only [Core.xmit, List.flatten_append, List.flatten_cons, List.flatten_nil, List.append_nil]
      exact h.outs
  eofs := fun c h => ⟨h.wbioBio, h.xmitBio, h.dqPlain, h.wrPlain, h.once, h.outs, h.ins, h.fedTaken, fun hc => by cases hc⟩
  feed := by
    intro c x h he
    refine ⟨h.wbioBio, h.xmitBio, h.dqPlain, h.wrPlain, h.once, h.outs, ?_, ?_, ?_⟩
    · show c.consumed ++ (c.rbio ++ x) = c.fedAll ++ x
      rw [← List.append_assoc, h.ins]
    · show c.fedAll ++ x <+: c.taken ++ x
      rw [h.fedEq he]; exact List.prefix_refl _
    · intro _
      show c.fedAll ++ x = c.taken ++ x
      rw [h.fedEq he]
  dropFeed := by
    intro c x h
    refine ⟨h.wbioBio, h.xmitBio, h.dqPlain, h.wrPlain, h.once, h.outs, h.ins, ?_, fun hc => by cases hc⟩
    obtain ⟨r, hr⟩ := h.fedTaken
    exact ⟨r ++ x, by show c.fedAll ++ (r ++ x) = c.taken ++ x; rw [← List.append_assoc, hr]⟩
  enqueue := by
    intro c t cs h
    refine ⟨h.wbioBio, h.xmitBio, ?_, ?_, ?_, h.outs, h.ins, h.fedTaken, h.fedEq⟩
    · intro x hx b hb
      simp only [List.mem_append, List.mem_map] at hx
      rcases hx with hx | ⟨y, _, rfl⟩
      · exact h.dqPlain x hx b hb
      · exact tag_org _ _ b hb
    · intro b hb
      simp only [List.mem_append, List.mem_flatten, List.mem_map] at hb
      rcases hb with hb | ⟨l, ⟨y, _, rfl⟩, hb⟩
      · exact h.wrPlain b hb
      · exact tag_org _ _ b hb
    · show c.accepted ++ untag (c.deque ++ cs.map (tag .plain)).flatten = untag (c.written ++ (cs.map (tag .plain)).flatten)
      rw [List.flatten_append, untag_append, untag_append, ← List.append_assoc, h.once]
  done := fun c t h _ => ⟨h.wbioBio, h.xmitBio, h.dqPlain, h.wrPlain, h.once, h.outs, h.ins, h.fedTaken, h.fedEq⟩
  flushed := fun c t h => ⟨h.wbioBio, h.xmitBio, h.dqPlain, h.wrPlain, h.once, h.outs, h.ins, h.fedTaken, h.fedEq⟩

/-! ### what recv / recv_into returned is what ssl.read produced -/

def RInv {σ : Type} (c : Core σ) : Prop := c.returned = c.engRead

theorem readBy_nil (call : Call) (r : Resp) (h : call.kind = .read → r.out.isOk = false) : readBy call r = [] := by
  cases call with
  | read n =>
    have := h rfl
    cases ho : r.out <;> simp_all [readBy, SslOut.isOk]
  | _ => simp [readBy]

theorem RInv.closed {σ : Type} (E : Engine σ) : Closed E (RInv (σ := σ)) where
  eng := by
    intro c call h _ hr
    show c.returned = c.engRead ++ readBy call (c.resp E call)
    rw [readBy_nil _ _ hr, List.append_nil]; exact h
  readOk := by
    intro c n h hok
    show c.returned ++ (c.resp E (.read n)).data = c.engRead ++ readBy (.read n) (c.resp E (.read n))
    have : readBy (.read n) (c.resp E (.read n)) = (c.resp E (.read n)).data := by
      cases ho : (c.resp E (.read n)).out <;> simp_all [readBy, SslOut.isOk]
    rw [this, h]
  write := by
    intro c d dq h
    show c.returned = c.engRead ++ readBy (.write (untag d)) (c.resp E (.write (untag d)))
    rw [readBy_nil _ _ (by simp [Call.kind]), List.append_nil]; exact h
  xmit := fun _ h => h
  eofs := fun _ h => h
  feed := fun _ _ h _ => h
  dropFeed := fun _ _ h => h
  enqueue := fun _ _ _ h => h
  done := fun _ _ h _ => h
  flushed := fun _ _ h => h

/-! ### completed write loops -/

structure MInv {σ : Type} (c : Core σ) : Prop where
  g : G1 c
  comp : ∀ e ∈ c.completed, e.2.1 ≤ e.2.2
  mark : ∀ t, c.mark t ≤ c.written.length

theorem MInv.init {σ : Type} (e : σ) (c : Bool) : MInv (St.init e c).core :=
  ⟨G1.init e c, by simp [St.init, St.core], by simp [St.init, St.core]⟩

theorem MInv.closed {σ : Type} (E : Engine σ) : Closed E (MInv (σ := σ)) where
  eng := fun c call h hk hr => ⟨(G1.closed E).eng c call h.g hk hr, h.comp, h.mark⟩
  readOk := fun c n h hok => ⟨(G1.closed E).readOk c n h.g hok, h.comp, h.mark⟩
  write := fun c d dq h => ⟨(G1.closed E).write c d dq h.g, h.comp, h.mark⟩
  xmit := fun c h => ⟨(G1.closed E).xmit c h.g, h.comp, h.mark⟩
  eofs := fun c h => ⟨(G1.closed E).eofs c h.g, h.comp, h.mark⟩
  feed := fun c x h he => ⟨(G1.closed E).feed c x h.g he, h.comp, h.mark⟩
  dropFeed := fun c x h => ⟨(G1.closed E).dropFeed c x h.g, h.comp, h.mark⟩
  enqueue := by
    intro c t cs h
    refine ⟨(G1.closed E).enqueue c t cs h.g, h.comp, ?_⟩
    intro u
    show upd c.mark t (c.written ++ (cs.map (tag .plain)).flatten).length u ≤ (c.written ++ (cs.map (tag .plain)).flatten).length
    unfold upd
    split
    · exact Nat.le_refl _
    · have := h.mark u
      rw [List.length_append]; omega
  done := by
    intro c t h hdq
    refine ⟨(G1.closed E).done c t h.g hdq, ?_, h.mark⟩
    intro e he
    simp only [List.mem_append, List.mem_singleton] at he
    rcases he with he | rfl
    · exact h.comp e he
    · show c.mark t ≤ c.accepted.length
      have h1 := h.g.once
      rw [hdq] at h1
      simp only [List.flatten_nil, untag, List.map_nil, List.append_nil] at h1
      have h2 := h.mark t
      rw [h1, List.length_map]; exact h2
  flushed := fun c t h => ⟨(G1.closed E).flushed c t h.g, h.comp, h.mark⟩

end EasyNet.C08
