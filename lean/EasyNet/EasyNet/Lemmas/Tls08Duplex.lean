/-
  C08: the WANT_READ branch and the send lock (full-duplex progress).

  * `run_policy`     the variant switch `wrPolicy` is never written: every state reachable from `St.init` runs the current
                     code (`WrPolicy.pendingNoWaiter`, docs/C08-fix-2.patch).
  * `WLs`            the invariant of the current code: a task of the WANT_READ branch that waits for the send lock is the
                     FIRST of its queue (it waits for nobody but the lock's owner) and the outgoing BIO holds bytes to flush.
                     `run_WL`: it holds in every reachable state, for every engine, task count and event list.
  * `attempt_wantRead_direct`   one pass of `_retry_ssl_method` that ends in WANT_READ with nothing to flush (or with another
                     task already queued on the send lock) goes straight to the receive lock: send lock untouched, nothing
                     logged but `acq recv, rcv` / `park recv`.
-/
import EasyNet.Lemmas.Tls08CtlStep
import EasyNet.Lemmas.Tls08Flush
namespace EasyNet.C08
open EasyNet

section
variable {σ : Type} {E : Engine σ}

/-! ### the variant switch is never written -/

theorem policy_acquire (s : St σ) (t : Tid) (l : LockId) : (s.acquire t l).1.wrPolicy = s.wrPolicy := by
  unfold St.acquire; split <;> cases l <;> rfl

theorem policy_release (s : St σ) (t : Tid) (l : LockId) : (s.release t l).wrPolicy = s.wrPolicy := by
  cases l <;> rfl

theorem policy_grant {s s1 : St σ} {t : Tid} {l : LockId} (h : s.grant t l = some s1) : s1.wrPolicy = s.wrPolicy := by
  unfold St.grant at h
  split at h
  · cases h; cases l <;> rfl
  · cases h

theorem policy_finish (s : St σ) (t : Tid) (m : Meth) (r : Result) : (finish s t m r).wrPolicy = s.wrPolicy := by
  unfold finish; split <;> rfl

theorem policy_failSsl (s : St σ) (t : Tid) (m : Meth) (o : SslOut) : (failSsl s t m o).wrPolicy = s.wrPolicy := by
  unfold failSsl; rw [policy_finish]; rfl

theorem policy_failOs (s : St σ) (t : Tid) (m : Meth) (b : Bool) : (failOs s t m b).wrPolicy = s.wrPolicy := by
  unfold failOs; split <;> (rw [policy_finish]) <;> rfl

theorem policy_rdPart (s : St σ) (t : Tid) (m : Meth) : (rdPart s t m).wrPolicy = s.wrPolicy := by
  unfold rdPart; split
  · show (s.acquire t .recv).1.wrPolicy = _; exact policy_acquire s t .recv
  · show (s.acquire t .recv).1.wrPolicy = _; exact policy_acquire s t .recv

theorem policy_afterWrLock (s : St σ) (t : Tid) (m : Meth) : (afterWrLock s t m).wrPolicy = s.wrPolicy := by
  unfold afterWrLock; split
  · rfl
  · rw [policy_rdPart, policy_release]

theorem policy_wrPart (s : St σ) (t : Tid) (m : Meth) : (wrPart s t m).wrPolicy = s.wrPolicy := by
  unfold wrPart; split
  · split
    · rw [policy_afterWrLock, policy_acquire]
    · show (s.acquire t .send).1.wrPolicy = _; exact policy_acquire s t .send
  · exact policy_rdPart s t m

theorem policy_afterWwLock (s : St σ) (t : Tid) (m : Meth) : (afterWwLock s t m).wrPolicy = s.wrPolicy := rfl

theorem policy_wwPart (s : St σ) (t : Tid) (m : Meth) : (wwPart s t m).wrPolicy = s.wrPolicy := by
  unfold wwPart; split
  · rw [policy_afterWwLock, policy_acquire]
  · show (s.acquire t .send).1.wrPolicy = _; exact policy_acquire s t .send

theorem policy_afterOkLock (s : St σ) (t : Tid) (m : Meth) : (afterOkLock s t m).wrPolicy = s.wrPolicy := by
  unfold afterOkLock; split
  · rfl
  · rw [policy_finish, policy_release]

theorem policy_okPart (s : St σ) (t : Tid) (m : Meth) : (okPart s t m).wrPolicy = s.wrPolicy := by
  unfold okPart; split
  · rw [policy_afterOkLock, policy_acquire]
  · show (s.acquire t .send).1.wrPolicy = _; exact policy_acquire s t .send

theorem policy_writeLoop (t : Tid) (dq : List (List TB)) (s : St σ) : (writeLoop E t dq s).1.wrPolicy = s.wrPolicy := by
  fun_induction writeLoop E t dq s with
  | case1 s => rfl
  | case2 d dq s => rfl
  | case3 d dq s n _ _ _ ih => exact ih
  | case4 d dq s n _ _ ih => exact ih
  | case5 d dq s => rfl

theorem policy_callMeth (t : Tid) (m : Meth) (s : St σ) : (callMeth E t m s).1.wrPolicy = s.wrPolicy := by
  unfold callMeth
  split
  · split <;> rfl
  · split <;> rfl
  · exact policy_writeLoop t s.deque s

theorem policy_noteDone (s : St σ) (t : Tid) (m : Meth) : (noteDone s t m).wrPolicy = s.wrPolicy := by
  unfold noteDone; split <;> rfl

theorem policy_attempt (s : St σ) (t : Tid) (m : Meth) : (attempt E s t m).wrPolicy = s.wrPolicy := by
  unfold attempt
  split
  · split
    · rw [policy_finish, policy_callMeth]
    · rw [policy_okPart, policy_noteDone, policy_callMeth]
  · rw [policy_wrPart]; exact policy_callMeth t m s
  · rw [policy_wwPart, policy_callMeth]
  · rw [policy_failSsl, policy_callMeth]
  · rw [policy_finish, policy_callMeth]

theorem policy_apiCall (s : St σ) (t : Tid) (a : Api) : (apiCall E s t a).wrPolicy = s.wrPolicy := by
  cases a <;> simp only [apiCall] <;> rw [policy_attempt]

theorem policy_resume (s s' : St σ) (t : Tid) (io : IoRes) (hs : resume E s t io = some s') : s'.wrPolicy = s.wrPolicy := by
  unfold resume at hs
  split at hs
  · cases hs
  · simp only [Option.map_eq_some_iff] at hs
    obtain ⟨s1, hg, rfl⟩ := hs
    rw [policy_afterWrLock, policy_grant hg]
  · cases hs; rw [policy_rdPart, policy_release]
  · cases hs; rw [policy_failOs, policy_release]
  · simp only [Option.map_eq_some_iff] at hs
    obtain ⟨s1, hg, rfl⟩ := hs
    show s1.wrPolicy = _
    exact policy_grant hg
  · split at hs
    · cases hs; rw [policy_attempt, policy_release]; rfl
    · split at hs
      · cases hs; rw [policy_finish]; show (s.release t .recv).wrPolicy = _; exact policy_release s t .recv
      · cases hs; rw [policy_attempt, policy_release]; rfl
  · cases hs; rw [policy_failOs, policy_release]
  · simp only [Option.map_eq_some_iff] at hs
    obtain ⟨s1, hg, rfl⟩ := hs
    rw [policy_afterWwLock, policy_grant hg]
  · cases hs; rw [policy_attempt, policy_release]
  · cases hs; rw [policy_failOs, policy_release]
  · simp only [Option.map_eq_some_iff] at hs
    obtain ⟨s1, hg, rfl⟩ := hs
    rw [policy_afterOkLock, policy_grant hg]
  · cases hs; rw [policy_finish, policy_release]
  · cases hs; rw [policy_failOs, policy_release]
  · cases hs

theorem policy_step (s s' : St σ) (e : Ev) (hs : step E s e = some s') : s'.wrPolicy = s.wrPolicy := by
  cases e with
  | call t a =>
    simp only [step] at hs
    split at hs
    · cases hs; exact policy_apiCall s t a
    · cases hs
  | resume t io => exact policy_resume s s' t io hs

theorem run_policy (evs : List Ev) (s s' : St σ) (hr : run E s evs = some s') : s'.wrPolicy = s.wrPolicy := by
  induction evs generalizing s with
  | nil => simp only [run] at hr; cases hr; rfl
  | cons e es ih =>
    simp only [run] at hr
    split at hr
    · rename_i s1 hs1
      rw [ih s1 hr, policy_step s s1 e hs1]
    · cases hr


/-! ### the invariant of the current WANT_READ branch -/

/-- every task that waits for the send lock in the WANT_READ branch is the first of the lock's queue, and the outgoing
    BIO holds bytes to flush -/
def WLs (s : St σ) : Prop := ∀ u m, s.pc u = .wrLock m → s.sendLock.waiters.head? = some u ∧ s.wbio ≠ []

/-- the same for every task but `t` (which is running: its pc field is stale) -/
def WLv (s : St σ) (t : Tid) : Prop :=
  ∀ u m, u ≠ t → s.pc u = .wrLock m → s.sendLock.waiters.head? = some u ∧ s.wbio ≠ []

/-- no task but `t` waits for the send lock in the WANT_READ branch -/
def NoWr (s : St σ) (t : Tid) : Prop := ∀ u m, u ≠ t → s.pc u ≠ .wrLock m

theorem WLv_of_WLs {s : St σ} (t : Tid) (h : WLs s) : WLv s t := fun u m _ hu => h u m hu

theorem WLv_of_NoWr {s : St σ} {t : Tid} (h : NoWr s t) : WLv s t := fun u m hne hu => absurd hu (h u m hne)

theorem WLv_mono {s s' : St σ} (t : Tid) (hpc : s'.pc = s.pc) (hl : s'.sendLock = s.sendLock)
    (hw : s.wbio ≠ [] → s'.wbio ≠ []) (h : WLv s t) : WLv s' t := by
  intro u m hne hu
  rw [hpc] at hu
  obtain ⟨h1, h2⟩ := h u m hne hu
  exact ⟨by rw [hl]; exact h1, hw h2⟩

theorem NoWr_mono {s s' : St σ} (t : Tid) (hpc : s'.pc = s.pc) (h : NoWr s t) : NoWr s' t := by
  intro u m hne hu; rw [hpc] at hu; exact h u m hne hu

/-- `t` moves to a pc that is not `wrLock`; send lock untouched; the BIO does not become empty -/
theorem WLs_setPc {s s' : St σ} (t : Tid) (p : PC) (hp : ∀ m, p ≠ .wrLock m) (hpc : s'.pc = upd s.pc t p)
    (hl : s'.sendLock = s.sendLock) (hw : s.wbio ≠ [] → s'.wbio ≠ []) (h : WLv s t) : WLs s' := by
  intro u m hu
  rw [hpc] at hu
  by_cases hut : u = t
  · subst hut; rw [upd_same] at hu; exact absurd hu (hp m)
  · rw [upd_other _ _ _ _ hut] at hu
    obtain ⟨h1, h2⟩ := h u m hut hu
    exact ⟨by rw [hl]; exact h1, hw h2⟩

theorem finish_wbio (s : St σ) (t : Tid) (m : Meth) (r : Result) : (finish s t m r).wbio = s.wbio := by
  unfold finish; split <;> rfl

theorem finish_WL (s : St σ) (t : Tid) (m : Meth) (r : Result) (h : WLv s t) : WLs (finish s t m r) := by
  obtain ⟨h1, h2, _⟩ := finish_ctl s t m r
  exact WLs_setPc t .idle (fun _ hc => by cases hc) h1 h2 (fun hw => by rw [finish_wbio]; exact hw) h

theorem failSsl_WL (s : St σ) (t : Tid) (m : Meth) (o : SslOut) (h : WLv s t) : WLs (failSsl s t m o) := by
  unfold failSsl
  exact finish_WL _ t m _ (WLv_mono t rfl rfl (fun hw => hw) h)

theorem failOs_WL (s : St σ) (t : Tid) (m : Meth) (b : Bool) (h : WLv s t) : WLs (failOs s t m b) := by
  unfold failOs
  split
  · exact finish_WL _ t m _ (WLv_mono t rfl rfl (fun hw => hw) h)
  · exact finish_WL _ t m _ h

theorem rdPart_wbio_eq (s : St σ) (t : Tid) (m : Meth) : (rdPart s t m).wbio = s.wbio := by
  unfold rdPart St.acquire; split <;> split <;> rfl

theorem rdPart_pc (s : St σ) (t : Tid) (m : Meth) :
    (rdPart s t m).pc = upd s.pc t (.rdInto m) ∨ (rdPart s t m).pc = upd s.pc t (.rdLock m) := by
  unfold rdPart St.acquire
  by_cases hf : (s.lock .recv).free = true
  · left; simp only [hf, if_true]; rfl
  · right; simp only [hf]; rfl

theorem rdPart_WL (s : St σ) (t : Tid) (m : Meth) (h : WLv s t) : WLs (rdPart s t m) := by
  rcases rdPart_pc s t m with hp | hp
  · exact WLs_setPc t _ (fun _ hc => by cases hc) hp (rdPart_sendLock s t m) (fun hw => by rw [rdPart_wbio_eq]; exact hw) h
  · exact WLs_setPc t _ (fun _ hc => by cases hc) hp (rdPart_sendLock s t m) (fun hw => by rw [rdPart_wbio_eq]; exact hw) h

theorem release_send_WLv (s : St σ) (t : Tid) (h : WLv s t) : WLv (s.release t .send) t :=
  fun u m hne hu => h u m hne hu

theorem release_recv_WLv (s : St σ) (t : Tid) (h : WLv s t) : WLv (s.release t .recv) t :=
  fun u m hne hu => h u m hne hu

/-- `t` holds the send lock and hands the BIO content to the transport: nobody else is in `wrLock`, `t` leaves for a `…Send` pc -/
theorem xmit_WL (s : St σ) (t : Tid) (p : PC) (hp : ∀ m, p ≠ .wrLock m) (h : NoWr s t) :
    WLs (({ s with wbio := [], xmits := s.xmits ++ [s.wbio] }.log (.xmit t s.wbio)).setPc t p) := by
  intro u m hu
  have hu' : upd s.pc t p u = .wrLock m := hu
  by_cases hut : u = t
  · subst hut; rw [upd_same] at hu'; exact absurd hu' (hp m)
  · rw [upd_other _ _ _ _ hut] at hu'; exact absurd hu' (h u m hut)

theorem afterWrLock_WL (s : St σ) (t : Tid) (m : Meth) (h : NoWr s t) : WLs (afterWrLock s t m) := by
  unfold afterWrLock
  split
  · exact xmit_WL s t _ (fun _ hc => by cases hc) h
  · exact rdPart_WL _ t m (release_send_WLv s t (WLv_of_NoWr h))

theorem afterWwLock_WL (s : St σ) (t : Tid) (m : Meth) (h : NoWr s t) : WLs (afterWwLock s t m) := by
  unfold afterWwLock
  exact xmit_WL s t _ (fun _ hc => by cases hc) h

theorem afterOkLock_WL (s : St σ) (t : Tid) (m : Meth) (h : NoWr s t) : WLs (afterOkLock s t m) := by
  unfold afterOkLock
  split
  · exact xmit_WL s t _ (fun _ hc => by cases hc) h
  · exact finish_WL _ t m _ (release_send_WLv s t (WLv_of_NoWr h))

theorem head?_append_of_head? {α : Type} (l : List α) (a b : α) (h : l.head? = some a) : (l ++ [b]).head? = some a := by
  cases l with
  | nil => cases h
  | cons x xs => simpa using h

/-- `async with send_lock:` entered by `t`: granted at once (then nobody is in `wrLock`), or parked with pc `p` — which may
    be `wrLock` only if the queue was empty and the BIO holds bytes -/
theorem sendPart_WL (s : St σ) (t : Tid) (p : PC) (after : St σ → St σ)
    (hafter : ∀ s1 : St σ, NoWr s1 t → WLs (after s1))
    (hp : (∀ m, p ≠ .wrLock m) ∨ (s.wbio ≠ [] ∧ s.sendLock.waiters = [])) (h : WLv s t) :
    WLs (if (s.acquire t .send).2 then after (s.acquire t .send).1 else (s.acquire t .send).1.setPc t p) := by
  unfold St.acquire
  by_cases hf : (s.lock .send).free = true
  · simp only [hf, if_true]
    refine hafter _ ?_
    have hw : s.sendLock.waiters = [] := by
      have : (s.sendLock.locked = false ∧ s.sendLock.waiters = []) := by
        simpa [Lock.free, St.lock] using hf
      exact this.2
    intro u m hne hu
    have hu' : s.pc u = .wrLock m := hu
    have := (h u m hne hu').1
    rw [hw] at this; cases this
  · simp only [hf]
    intro u m hu
    have hu' : upd s.pc t p u = .wrLock m := hu
    show (s.sendLock.waiters ++ [t]).head? = some u ∧ s.wbio ≠ []
    by_cases hut : u = t
    · subst hut
      rw [upd_same] at hu'
      rcases hp with hp | ⟨hw, hq⟩
      · exact absurd hu' (hp m)
      · exact ⟨by rw [hq]; rfl, hw⟩
    · rw [upd_other _ _ _ _ hut] at hu'
      obtain ⟨h1, h2⟩ := h u m hut hu'
      exact ⟨head?_append_of_head? _ _ _ h1, h2⟩

theorem wantsSendLock_current (s : St σ) (hpol : s.wrPolicy = .pendingNoWaiter) (hc : s.wantsSendLock = true) :
    s.wbio ≠ [] ∧ s.sendLock.waiters = [] := by
  unfold St.wantsSendLock at hc
  rw [hpol] at hc
  simp only [Bool.and_eq_true, Bool.not_eq_true', List.isEmpty_eq_false_iff, List.isEmpty_iff] at hc
  exact hc

theorem wrPart_WL (s : St σ) (t : Tid) (m : Meth) (hpol : s.wrPolicy = .pendingNoWaiter) (h : WLv s t) :
    WLs (wrPart s t m) := by
  unfold wrPart
  split
  · rename_i hc
    exact sendPart_WL s t _ _ (fun s1 h1 => afterWrLock_WL s1 t m h1) (.inr (wantsSendLock_current s hpol hc)) h
  · exact rdPart_WL s t m h

theorem wwPart_WL (s : St σ) (t : Tid) (m : Meth) (h : WLv s t) : WLs (wwPart s t m) := by
  unfold wwPart
  exact sendPart_WL s t _ _ (fun s1 h1 => afterWwLock_WL s1 t m h1) (.inl (fun _ hc => by cases hc)) h

theorem okPart_WL (s : St σ) (t : Tid) (m : Meth) (h : WLv s t) : WLs (okPart s t m) := by
  unfold okPart
  exact sendPart_WL s t _ _ (fun s1 h1 => afterOkLock_WL s1 t m h1) (.inl (fun _ hc => by cases hc)) h

/-- an engine call only appends to the outgoing BIO -/
theorem engine_wbio (s : St σ) (t : Tid) (c : Call) (hw : s.wbio ≠ []) : (s.engine E t c).1.wbio ≠ [] := by
  show s.wbio ++ _ ≠ []
  exact List.append_ne_nil_of_left_ne_nil hw _

theorem writeLoop_wbio (t : Tid) (dq : List (List TB)) (s : St σ) (hw : s.wbio ≠ []) : (writeLoop E t dq s).1.wbio ≠ [] := by
  fun_induction writeLoop E t dq s with
  | case1 s => exact hw
  | case2 d dq s => exact engine_wbio s t _ hw
  | case3 d dq s n _ _ _ ih => exact ih (engine_wbio s t _ hw)
  | case4 d dq s n _ _ ih => exact ih (engine_wbio s t _ hw)
  | case5 d dq s => exact engine_wbio s t _ hw

theorem callMeth_wbio (t : Tid) (m : Meth) (s : St σ) (hw : s.wbio ≠ []) : (callMeth E t m s).1.wbio ≠ [] := by
  unfold callMeth
  split
  · split <;> exact engine_wbio s t _ hw
  · split <;> exact engine_wbio s t _ hw
  · exact writeLoop_wbio t s.deque s hw

theorem callMeth_WLv (s : St σ) (t : Tid) (m : Meth) (h : WLv s t) : WLv (callMeth E t m s).1 t := by
  obtain ⟨h1, h2, _⟩ := callMeth_ctl (E := E) t m s
  exact WLv_mono t h1 h2 (callMeth_wbio t m s) h

theorem noteDone_WLv (s : St σ) (t : Tid) (m : Meth) (h : WLv s t) : WLv (noteDone s t m) t := by
  obtain ⟨h1, h2, _⟩ := noteDone_ctl s t m
  refine WLv_mono t h1 h2 (fun hw => ?_) h
  unfold noteDone; split <;> exact hw

theorem attempt_WL (s : St σ) (t : Tid) (m : Meth) (hpol : s.wrPolicy = .pendingNoWaiter) (h : WLv s t) :
    WLs (attempt E s t m) := by
  have h1 : WLv (callMeth E t m s).1 t := callMeth_WLv s t m h
  have hp1 : (callMeth E t m s).1.wrPolicy = .pendingNoWaiter := by rw [policy_callMeth]; exact hpol
  unfold attempt
  split
  · split
    · exact finish_WL _ t m _ h1
    · exact okPart_WL _ t m (noteDone_WLv _ t m h1)
  · exact wrPart_WL _ t m hp1 (WLv_mono t rfl rfl (fun hw => hw) h1)
  · exact wwPart_WL _ t m h1
  · exact failSsl_WL _ t m _ h1
  · exact finish_WL _ t m _ h1

theorem apiCall_WL (s : St σ) (t : Tid) (a : Api) (hpol : s.wrPolicy = .pendingNoWaiter) (h : WLv s t) :
    WLs (apiCall E s t a) := by
  cases a with
  | handshake => exact attempt_WL s t _ hpol h
  | recv n => exact attempt_WL s t _ hpol h
  | recvInto c => exact attempt_WL s t _ hpol h
  | sendAll d => exact attempt_WL _ t _ hpol (WLv_mono t rfl rfl (fun hw => hw) h)
  | sendIter ds => exact attempt_WL _ t _ hpol (WLv_mono t rfl rfl (fun hw => hw) h)

/-- the woken head of the send queue takes the lock: nobody else can be in `wrLock` (such a task would be the head) -/
theorem grant_send_NoWr {s s1 : St σ} {t : Tid} (h : WLs s) (hg : s.grant t .send = some s1) : NoWr s1 t := by
  unfold St.grant at hg
  split at hg
  · rename_i hc
    cases hg
    intro u m hne hu
    have hu' : s.pc u = .wrLock m := hu
    have := (h u m hu').1
    have hd : s.sendLock.waiters.head? = some t := hc.2
    rw [hd] at this
    exact hne (Option.some.inj this).symm
  · cases hg

theorem grant_recv_frame {s s1 : St σ} {t : Tid} (hg : s.grant t .recv = some s1) :
    s1.pc = s.pc ∧ s1.sendLock = s.sendLock ∧ s1.wbio = s.wbio := by
  unfold St.grant at hg
  split at hg
  · cases hg; exact ⟨rfl, rfl, rfl⟩
  · cases hg

theorem resume_WL (s s' : St σ) (t : Tid) (io : IoRes) (hpol : s.wrPolicy = .pendingNoWaiter) (h : WLs s)
    (hs : resume E s t io = some s') : WLs s' := by
  have hv : WLv s t := WLv_of_WLs t h
  unfold resume at hs
  split at hs
  · cases hs
  · simp only [Option.map_eq_some_iff] at hs
    obtain ⟨s1, hg, rfl⟩ := hs
    exact afterWrLock_WL _ t _ (grant_send_NoWr h hg)
  · cases hs; exact rdPart_WL _ t _ (release_send_WLv s t hv)
  · cases hs; exact failOs_WL _ t _ _ (release_send_WLv s t hv)
  · simp only [Option.map_eq_some_iff] at hs
    obtain ⟨s1, hg, rfl⟩ := hs
    obtain ⟨f1, f2, f3⟩ := grant_recv_frame hg
    exact WLs_setPc (s := s1) t (.rdInto _) (fun _ hc => by cases hc) rfl rfl (fun hw => hw)
      (WLv_mono t f1 f2 (fun hw => by rw [f3]; exact hw) hv)
  · split at hs
    · cases hs
      exact attempt_WL _ t _ (by rw [policy_release]; exact hpol)
        (release_recv_WLv _ t (WLv_mono t rfl rfl (fun hw => hw) hv))
    · split at hs
      · cases hs
        exact finish_WL _ t _ _ (WLv_mono t rfl rfl (fun hw => hw) hv)
      · cases hs
        exact attempt_WL _ t _ (by rw [policy_release]; exact hpol)
          (release_recv_WLv _ t (WLv_mono t rfl rfl (fun hw => hw) hv))
  · cases hs; exact failOs_WL _ t _ _ (release_recv_WLv s t hv)
  · simp only [Option.map_eq_some_iff] at hs
    obtain ⟨s1, hg, rfl⟩ := hs
    exact afterWwLock_WL _ t _ (grant_send_NoWr h hg)
  · cases hs; exact attempt_WL _ t _ (by rw [policy_release]; exact hpol) (release_send_WLv s t hv)
  · cases hs; exact failOs_WL _ t _ _ (release_send_WLv s t hv)
  · simp only [Option.map_eq_some_iff] at hs
    obtain ⟨s1, hg, rfl⟩ := hs
    exact afterOkLock_WL _ t _ (grant_send_NoWr h hg)
  · cases hs; exact finish_WL _ t _ _ (release_send_WLv s t hv)
  · cases hs; exact failOs_WL _ t _ _ (release_send_WLv s t hv)
  · cases hs

theorem step_WL (s s' : St σ) (e : Ev) (hpol : s.wrPolicy = .pendingNoWaiter) (h : WLs s)
    (hs : step E s e = some s') : WLs s' := by
  cases e with
  | call t a =>
    simp only [step] at hs
    split at hs
    · cases hs; exact apiCall_WL s t a hpol (WLv_of_WLs t h)
    · cases hs
  | resume t io => exact resume_WL s s' t io hpol h hs

theorem run_WL (evs : List Ev) (s s' : St σ) (hpol : s.wrPolicy = .pendingNoWaiter) (h : WLs s)
    (hr : run E s evs = some s') : WLs s' := by
  induction evs generalizing s with
  | nil => simp only [run] at hr; cases hr; exact h
  | cons e es ih =>
    simp only [run] at hr
    split at hr
    · rename_i s1 hs1
      exact ih s1 (by rw [policy_step s s1 e hs1]; exact hpol) (step_WL s s1 e hpol h hs1) hr
    · cases hr

theorem WLs_init (e : σ) (c : Bool) : WLs (St.init e c) := by
  intro u m hu; cases hu


/-! ### WANT_READ with nothing to flush: straight to the receive side -/

theorem attempt_wantRead_eq (s : St σ) (t : Tid) (m : Meth) (hr : (callMeth E t m s).2 = .exc .wantRead) :
    attempt E s t m =
      wrPart { (callMeth E t m s).1 with flushed := upd (callMeth E t m s).1.flushed t (callMeth E t m s).1.outAll.length } t m := by
  unfold attempt; rw [hr]

theorem rdPart_acts (s : St σ) (t : Tid) (m : Meth) :
    (rdPart s t m).acts = s.acts ++ (if s.recvLock.free = true then [.acq t .recv, .rcv t] else [.park t .recv]) := by
  unfold rdPart St.acquire
  by_cases hf : (s.lock .recv).free = true
  · have hf' : s.recvLock.free = true := hf
    simp only [hf, hf', if_true]
    show (s.acts ++ [Act.acq t .recv]) ++ [Act.rcv t] = _
    simp
  · have hf' : ¬ s.recvLock.free = true := hf
    simp only [hf, hf']
    rfl

theorem rdPart_waits (s : St σ) (t : Tid) (m : Meth) : waitsInput ((rdPart s t m).pc t) = true := by
  rcases rdPart_pc s t m with hp | hp <;> rw [hp, upd_same] <;> rfl

/-- **the reader needs no send lock when it has nothing to flush** (current code, docs/C08-fix-2.patch): a pass of
    `_retry_ssl_method` whose SSL call ends in WANT_READ while the outgoing BIO is empty — or while another task is already
    queued on the send lock — does not touch the send lock at all: it enters `async with recv_lock` directly. -/
theorem attempt_wantRead_direct (s : St σ) (t : Tid) (m : Meth) (hpol : s.wrPolicy = .pendingNoWaiter)
    (hr : (callMeth E t m s).2 = .exc .wantRead)
    (hn : (callMeth E t m s).1.wbio = [] ∨ s.sendLock.waiters ≠ []) :
    (attempt E s t m).sendLock = s.sendLock ∧ waitsInput ((attempt E s t m).pc t) = true ∧
    (attempt E s t m).acts = (callMeth E t m s).1.acts ++
      (if s.recvLock.free = true then [.acq t .recv, .rcv t] else [.park t .recv]) := by
  obtain ⟨_, c2, c3⟩ := callMeth_ctl (E := E) t m s
  rw [attempt_wantRead_eq s t m hr]
  have hno : St.wantsSendLock { (callMeth E t m s).1 with
      flushed := upd (callMeth E t m s).1.flushed t (callMeth E t m s).1.outAll.length } = false := by
    unfold St.wantsSendLock
    have hp : (callMeth E t m s).1.wrPolicy = .pendingNoWaiter := by rw [policy_callMeth]; exact hpol
    simp only [hp]
    rcases hn with hw | hq
    · simp [hw]
    · rw [c2]
      cases hws : s.sendLock.waiters with
      | nil => exact absurd hws hq
      | cons a r => simp
  unfold wrPart
  rw [if_neg (by rw [hno]; exact Bool.false_ne_true)]
  refine ⟨?_, rdPart_waits _ t m, ?_⟩
  · rw [rdPart_sendLock]; exact c2
  · rw [rdPart_acts]
    show (callMeth E t m s).1.acts ++ (if (callMeth E t m s).1.recvLock.free = true then _ else _) = _
    rw [c3]


/-! ### whoever gets the send lock flushes everything -/

/-- a task that was queued on the send lock and is granted it leaves the outgoing BIO empty at the end of its step
    (all three users of the lock read the whole BIO under the lock) -/
theorem grant_flushes (s s' : St σ) (t : Tid) (hs : resume E s t .ok = some s') (hc : cls (s.pc t) = .waitS) :
    s'.wbio = [] := by
  cases hp : s.pc t with
  | wrLock m =>
    simp only [resume, hp, Option.map_eq_some_iff] at hs
    obtain ⟨s1, _, rfl⟩ := hs
    unfold afterWrLock
    split
    · rfl
    · rename_i hw
      rw [rdPart_wbio_eq]
      show s1.wbio = []
      exact Decidable.of_not_not hw
  | wwLock m =>
    simp only [resume, hp, Option.map_eq_some_iff] at hs
    obtain ⟨s1, _, rfl⟩ := hs
    rfl
  | okLock m =>
    simp only [resume, hp, Option.map_eq_some_iff] at hs
    obtain ⟨s1, _, rfl⟩ := hs
    unfold afterOkLock
    split
    · rfl
    · rename_i hw
      rw [finish_wbio]
      show s1.wbio = []
      exact Decidable.of_not_not hw
  | _ => rw [hp] at hc; cases hc

/-- pcs of the WANT_READ branch: the task cannot go on without ciphertext input -/
def needsInput : PC → Bool
  | .wrLock _ | .wrSend _ | .rdLock _ | .rdInto _ => true
  | _ => false

/-- under `WLs`: when the outgoing BIO is empty no task of the WANT_READ branch waits for the send lock -/
theorem needsInput_past_send_lock (s : St σ) (h : WLs s) (hw : s.wbio = []) (t : Tid) (hn : needsInput (s.pc t) = true) :
    (∃ m, s.pc t = .wrSend m) ∨ (∃ m, s.pc t = .rdLock m) ∨ (∃ m, s.pc t = .rdInto m) := by
  cases hp : s.pc t with
  | wrLock m => exact absurd hw (h t m hp).2
  | wrSend m => exact .inl ⟨m, rfl⟩
  | rdLock m => exact .inr (.inl ⟨m, rfl⟩)
  | rdInto m => exact .inr (.inr ⟨m, rfl⟩)
  | _ => rw [hp] at hn; cases hn

/-- the receive side is live: if some task waits for input, a task is inside `transport.recv_into`, or the receive lock
    is free and the head of its queue can run -/
theorem recv_side_live (s : St σ) (h : CIs s) (t : Tid) (hwt : waitsInput (s.pc t) = true) :
    ∃ u, (∃ m, s.pc u = .rdInto m) ∨
      (s.recvLock.locked = false ∧ s.recvLock.waiters.head? = some u ∧ (resume E s u .ok).isSome = true) := by
  cases hp : s.pc t with
  | rdInto m => exact ⟨t, .inl ⟨m, hp⟩⟩
  | rdLock m =>
    have hk : kOf s.pc t = .waitR := by simp [kOf, hp, cls]
    by_cases hl : s.recvLock.locked = true
    · obtain ⟨u, hu⟩ := h.2.held hl
      refine ⟨u, .inl ?_⟩
      cases hq : s.pc u with
      | rdInto m' => exact ⟨m', rfl⟩
      | _ => simp [kOf, hq, cls] at hu
    · have hmem := (h.2.wait t).1 hk
      cases hws : s.recvLock.waiters with
      | nil => rw [hws] at hmem; cases hmem
      | cons v rest =>
        have hv : kOf s.pc v = .waitR := (h.2.wait v).2 (by rw [hws]; simp)
        have hl' : s.recvLock.locked = false := by simpa using hl
        exact ⟨v, .inr ⟨hl', rfl, resume_waiter E s v .recv hv hl' (by show s.recvLock.waiters.head? = some v; rw [hws]; rfl)⟩⟩
  | _ => rw [hp] at hwt; cases hwt

end
end EasyNet.C08
