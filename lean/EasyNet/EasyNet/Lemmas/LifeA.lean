/-
  C18 — inductive invariants of the asynchronous server machine `Life.A` (Model/Life.lean), for any family of callers,
  any programs, any schedule.
-/
import EasyNet.Model.Life
namespace EasyNet.Life.A
set_option maxHeartbeats 16000000
set_option linter.unusedSimpArgs false
set_option linter.unusedVariables false

/-! ## shape of a step -/

/-- what a step does to the callers: caller `a` becomes `c`, the others are untouched or woken -/
theorem upd_self (cs : Nat → Caller) (w : Bool) (a : Nat) (c : Caller) : upd cs w a c a = c := by simp [upd]

theorem upd_other (cs : Nat → Caller) (w : Bool) (a : Nat) (c : Caller) (j : Nat) (h : j ≠ a) :
    upd cs w a c j = if w then wake (cs j) else cs j := by simp [upd, h]

theorem wake_pc (c : Caller) : (wake c).pc = match c.pc with | .dWait g => .dWoken g | p => p := by
  unfold wake; split <;> simp_all

theorem wake_inServe (c : Caller) : (wake c).pc.inServe = c.pc.inServe := by
  unfold wake; split <;> simp_all [Pc.inServe]

/-- steps of the environment that leave the callers alone -/
inductive EnvG : G → G → Prop where
  | taskRun (g : G) (h : g.tasks = .starting) : EnvG g { g with tasks := .up, attached := true }
  | taskDieA (g : G) (h : g.tasks = .dying) (ha : g.attached = true) : EnvG g (detachCheck { g with tasks := .done, attached := false })
  | taskDieN (g : G) (h : g.tasks = .dying) (ha : g.attached = false) : EnvG g { g with tasks := .done, attached := false }
  | conn (g : G) (h : g.tasks = .up ∧ g.lsOpen = true ∧ g.servers = true ∧ g.clientsDying = false) : EnvG g { g with clients := g.clients + 1 }
  | disc (g : G) (h : 0 < g.clients) : EnvG g (detachCheck { g with clients := g.clients - 1 })

/-- every step is: a call / resumption of one caller, an external cancel request, or an environment step -/
inductive StepKind (s s' : State) : Prop where
  | call (i : Nat) (g : G) (c : Caller) (w : Bool) (h : callStep i s.g (s.cs i) = some (g, c, w)) (e : s' = ⟨g, upd s.cs w i c⟩)
  | adv (i k : Nat) (g : G) (c : Caller) (w : Bool) (h : advStep i k s.g (s.cs i) = some (g, c, w)) (e : s' = ⟨g, upd s.cs w i c⟩)
  | cancel (i : Nat) (h : (s.cs i).pc.inServe = true) (e : s' = ⟨s.g, upd s.cs false i { s.cs i with ext := true }⟩)
  | env (h : EnvG s.g s'.g) (e : s'.cs = s.cs)

theorem step_kind {s s' : State} {l : Label} (h : step s l = some s') : StepKind s s' := by
  cases l with
  | call i =>
    simp only [step, Option.map_eq_some_iff] at h
    obtain ⟨⟨g, c, w⟩, h1, h2⟩ := h
    exact .call i g c w h1 h2.symm
  | adv i k =>
    simp only [step, Option.map_eq_some_iff] at h
    obtain ⟨⟨g, c, w⟩, h1, h2⟩ := h
    exact .adv i k g c w h1 h2.symm
  | cancel i =>
    simp only [step] at h
    split at h
    · rename_i hs; cases h; exact .cancel i hs rfl
    · cases h
  | taskRun =>
    simp only [step] at h
    split at h
    · rename_i hs; cases h; exact .env (.taskRun _ hs) rfl
    · cases h
  | taskDie =>
    simp only [step] at h
    split at h
    · rename_i hs
      cases h
      by_cases ha : s.g.attached = true
      · rw [if_pos ha]; exact .env (.taskDieA s.g hs ha) rfl
      · rw [if_neg ha]; exact .env (.taskDieN _ hs (by simpa using ha)) rfl
    · cases h
  | conn =>
    simp only [step] at h
    split at h
    · rename_i hs; cases h; exact .env (.conn _ hs) rfl
    · cases h
  | disc =>
    simp only [step] at h
    split at h
    · rename_i hs; cases h; exact .env (.disc _ hs) rfl
    · cases h


/-! ## the invariant: a global part and a part per caller -/

def Pc.holdsLock : Pc → Bool
  | .cTasks _ | .cLs => true
  | _ => false

def Pc.holdsGuard : Pc → Bool
  | .sInit | .sStart | .cTasks _ | .cLs => true
  | _ => false

structure GI (g : G) : Prop where
  shut : g.isShutdown = true ↔ g.runner = none
  idle : g.runner = none → g.tasks = .none ∧ g.listed = false ∧ g.runScope = false
  cdone : g.closeDone = true → g.factoryCb = false ∧ g.lsOpen = false
  lsv : g.factoryCb = true → g.servers = true → g.lsOpen = true

def CI (j : Nat) (g : G) (c : Caller) : Prop :=
  (c.pc.inServe = true ↔ g.runner = some j) ∧
  (c.pc.holdsLock = true ↔ g.closeLock = some j) ∧
  (c.pc.holdsGuard = true ↔ g.guard = some j) ∧
  (match c.pc with
   | .idle => c.ext = false
   | .sAct => g.facScope = true ∧ (g.factoryCb = false → g.facCancel = true) ∧ g.tasks = .none ∧ g.listed = false ∧ g.runScope = true
   | .sFac => g.facScope = true ∧ (g.factoryCb = false → g.facCancel = true) ∧ g.tasks = .none ∧ g.listed = false ∧ g.runScope = true
   | .sInit => g.tasks = .none ∧ g.listed = false ∧ g.runScope = true
   | .sStart => (g.tasks = .starting ∨ g.tasks = .up) ∧ g.listed = false ∧ g.runScope = true
   | .sSleep => g.runScope = true
   | .sTg => (g.tasks = .none ∨ g.tasks = .dying ∨ g.tasks = .done) ∧ g.clientsDying = true
   | .sQuit => g.tasks = .none ∧ g.listed = false
   | .dWait n => n = g.gen ∧ g.isShutdown = false ∧ (g.runCancel = true ∨ g.runScope = false)
   | .dWoken n => n ≤ g.gen ∧ (n = g.gen → g.isShutdown = true)
   | .cLock => True
   | .cTasks w => g.factoryCb = false ∧ (w = true → (g.tasks = .none ∨ g.tasks = .dying ∨ g.tasks = .done))
   | .cLs => g.factoryCb = false ∧ g.lsOpen = false)

structure Inv (s : State) : Prop where
  gi : GI s.g
  ci : ∀ j, CI j s.g (s.cs j)

theorem inv_init (progs : Nat → List Op) : Inv (State.init progs) := by
  refine ⟨⟨?_, ?_, ?_, ?_⟩, fun j => ?_⟩ <;> simp [State.init, G.init, CI, Caller.init, Pc.inServe, Pc.holdsLock, Pc.holdsGuard]

/-! ## preservation: the acting caller, and a bystander (two callers at a time — no quantifier over callers) -/

theorem kill_cases (t : TaskSt) : kill t = .none ∨ kill t = .dying ∨ kill t = .done := by cases t <;> simp [kill]
theorem kill_none : kill .none = .none := rfl
theorem kill_dying : kill .dying = .dying := rfl
theorem kill_done : kill .done = .done := rfl

theorem call_actor {i : Nat} {g0 g : G} {c0 c : Caller} {w : Bool}
    (h : callStep i g0 c0 = some (g, c, w)) (G0 : GI g0) (C0 : CI i g0 c0) : GI g ∧ CI i g c := by
  obtain ⟨s1, s2, s3, s4⟩ := G0
  obtain ⟨a1, a2, a3, a4⟩ := C0
  have hk := kill_cases g0.tasks
  have hk0 := kill_none
  unfold callStep at h
  split at h
  · rename_i op rest hpc hprog
    simp only [hpc, Pc.inServe, Pc.holdsLock, Pc.holdsGuard] at a1 a2 a3 a4
    cases op <;>
    (refine ⟨⟨?_, ?_, ?_, ?_⟩, ?_, ?_, ?_, ?_⟩ <;>
      grind [serveEnd, enterGuard, closeBody, Caller.finish, Pc.inServe, Pc.holdsLock, Pc.holdsGuard, facOuts, cancelOuts])
  · cases h

theorem call_other {i j : Nat} {g0 g : G} {c0 c cj : Caller} {w : Bool}
    (h : callStep i g0 c0 = some (g, c, w)) (hij : j ≠ i) (G0 : GI g0) (C0 : CI i g0 c0) (Cj : CI j g0 cj) :
    CI j g (if w then wake cj else cj) := by
  obtain ⟨s1, s2, s3, s4⟩ := G0
  obtain ⟨a1, a2, a3, a4⟩ := C0
  obtain ⟨b1, b2, b3, b4⟩ := Cj
  have hk := kill_cases g0.tasks
  have hk0 := kill_none
  have hk1 := kill_dying
  have hk2 := kill_done
  have hw := wake_pc cj
  unfold callStep at h
  split at h
  · rename_i op rest hpc hprog
    simp only [hpc, Pc.inServe, Pc.holdsLock, Pc.holdsGuard] at a1 a2 a3 a4
    cases op <;> cases hj : cj.pc <;> simp only [hj, Pc.inServe, Pc.holdsLock, Pc.holdsGuard] at b1 b2 b3 b4 hw <;>
    (refine ⟨?_, ?_, ?_, ?_⟩ <;>
      grind [serveEnd, enterGuard, closeBody, Caller.finish, Pc.inServe, Pc.holdsLock, Pc.holdsGuard, facOuts, cancelOuts, wake])
  · cases h

theorem adv_actor {i k : Nat} {g0 g : G} {c0 c : Caller} {w : Bool}
    (h : advStep i k g0 c0 = some (g, c, w)) (G0 : GI g0) (C0 : CI i g0 c0) : GI g ∧ CI i g c := by
  obtain ⟨s1, s2, s3, s4⟩ := G0
  obtain ⟨a1, a2, a3, a4⟩ := C0
  have hk := kill_cases g0.tasks
  unfold advStep at h
  split at h
  all_goals (rename_i hpc; simp only [hpc, Pc.inServe, Pc.holdsLock, Pc.holdsGuard] at a1 a2 a3 a4)
  all_goals (
    refine ⟨⟨?_, ?_, ?_, ?_⟩, ?_, ?_, ?_, ?_⟩ <;>
    grind [serveEnd, enterGuard, closeBody, Caller.finish, Pc.inServe, Pc.holdsLock, Pc.holdsGuard, facOuts, cancelOuts])

theorem adv_other {i j k : Nat} {g0 g : G} {c0 c cj : Caller} {w : Bool}
    (h : advStep i k g0 c0 = some (g, c, w)) (hij : j ≠ i) (G0 : GI g0) (C0 : CI i g0 c0) (Cj : CI j g0 cj) :
    CI j g (if w then wake cj else cj) := by
  obtain ⟨s1, s2, s3, s4⟩ := G0
  obtain ⟨a1, a2, a3, a4⟩ := C0
  obtain ⟨b1, b2, b3, b4⟩ := Cj
  have hk := kill_cases g0.tasks
  have hk0 := kill_none
  have hk1 := kill_dying
  have hk2 := kill_done
  have hw := wake_pc cj
  unfold advStep at h
  split at h
  all_goals (rename_i hpc; simp only [hpc, Pc.inServe, Pc.holdsLock, Pc.holdsGuard] at a1 a2 a3 a4)
  all_goals (
    cases hj : cj.pc <;> simp only [hj, Pc.inServe, Pc.holdsLock, Pc.holdsGuard] at b1 b2 b3 b4 hw <;>
    (refine ⟨?_, ?_, ?_, ?_⟩ <;>
     grind [serveEnd, enterGuard, closeBody, Caller.finish, Pc.inServe, Pc.holdsLock, Pc.holdsGuard, facOuts, cancelOuts, wake]))

/-- an environment step (listener task, client tasks) preserves the global part and every caller's part -/
theorem env_pres {g0 g : G} (h : EnvG g0 g) (G0 : GI g0) : GI g ∧ ∀ j c, CI j g0 c → CI j g c := by
  obtain ⟨s1, s2, s3, s4⟩ := G0
  cases h <;>
  (refine ⟨⟨?_, ?_, ?_, ?_⟩, fun j c ⟨b1, b2, b3, b4⟩ => ?_⟩ <;> (try unfold detachCheck) <;>
   first
   | grind
   | (cases hj : c.pc <;> simp only [hj, Pc.inServe, Pc.holdsLock, Pc.holdsGuard] at b1 b2 b3 b4 <;>
      (refine ⟨?_, ?_, ?_, ?_⟩ <;> grind [Pc.inServe, Pc.holdsLock, Pc.holdsGuard])))

theorem inv_step {s s' : State} {l : Label} (I : Inv s) (h : step s l = some s') : Inv s' := by
  obtain ⟨gi, ci⟩ := I
  cases step_kind h with
  | call i g c w hc e =>
    subst e
    have A := call_actor hc gi (ci i)
    refine ⟨A.1, fun j => ?_⟩
    by_cases hj : j = i
    · subst hj; simpa [upd] using A.2
    · have B := call_other hc hj gi (ci i) (ci j)
      simpa [upd, hj] using B
  | adv i k g c w hc e =>
    subst e
    have A := adv_actor hc gi (ci i)
    refine ⟨A.1, fun j => ?_⟩
    by_cases hj : j = i
    · subst hj; simpa [upd] using A.2
    · have B := adv_other hc hj gi (ci i) (ci j)
      simpa [upd, hj] using B
  | cancel i hs e =>
    subst e
    refine ⟨gi, fun j => ?_⟩
    by_cases hj : j = i
    · subst hj
      have C := ci j
      obtain ⟨b1, b2, b3, b4⟩ := C
      simp only [upd, if_true]
      refine ⟨b1, b2, b3, ?_⟩
      cases hp : (s.cs j).pc <;> simp_all [Pc.inServe]
    · simpa [upd, hj] using ci j
  | env he e =>
    have A := env_pres he gi
    refine ⟨A.1, fun j => ?_⟩
    rw [e]
    exact A.2 j _ (ci j)

theorem inv_run {s s' : State} (ls : List Label) (I : Inv s) (h : run s ls = some s') : Inv s' := by
  induction ls generalizing s with
  | nil => simp only [run, Option.some.injEq] at h; exact h ▸ I
  | cons l ls ih =>
    simp only [run] at h
    split at h
    · rename_i s1 hs; exact ih (inv_step I hs) h
    · cases h

theorem inv_reachable {s : State} (h : Reachable s) : Inv s := by
  obtain ⟨progs, ls, hr⟩ := h
  exact inv_run ls (inv_init progs) hr

end EasyNet.Life.A
