/-
  C12: invariant of the TLS send machine (Model/TlsSend.lean).
  The lock part is inherited from the sender machine (`LockInv`, `WireInv` on `base`).
-/
import EasyNet.Lemmas.SendersLock
import EasyNet.Model.TlsSend
namespace EasyNet.C12
open EasyNet

theorem writeAllToSsl_eq (dq : List Bytes) (bio : Bytes) : writeAllToSsl dq bio = bio ++ dq.flatten := by
  induction dq generalizing bio with
  | nil => simp [writeAllToSsl]
  | cons d dq ih => simp [writeAllToSsl, ih]

/-! ### what the lock steps of `Sys` do to `pc` and `idx` -/

theorem step_send_lock {cfg : Cfg} (hul : cfg.useLock = true) {s s' : Sys} {t : Tid}
    (h : step cfg s (.send t) = some s') :
    (s'.pc t = .holding ∨ s'.pc t = .waiting) ∧ (∀ u, u ≠ t → s'.pc u = s.pc u) ∧ s'.idx = s.idx := by
  simp only [C12.step] at h
  split at h
  · try rw [if_pos hul] at h
    split at h
    · cases h
      refine ⟨Or.inl (by simp), fun u hu => by simp [upd_other _ _ _ _ hu], rfl⟩
    · cases h
      refine ⟨Or.inr (by simp), fun u hu => by simp [upd_other _ _ _ _ hu], rfl⟩
  · cases h

theorem step_resume {cfg : Cfg} {s s' : Sys} {t : Tid} (h : step cfg s (.resume t) = some s') :
    s.pc t = .waiting ∧ s'.pc t = .holding ∧ (∀ u, u ≠ t → s'.pc u = s.pc u) ∧ s'.idx = s.idx := by
  simp only [C12.step] at h
  split at h
  · rename_i hc
    cases h
    exact ⟨hc.1, by simp, fun u hu => by simp [upd_other _ _ _ _ hu], rfl⟩
  · cases h

theorem step_rel {cfg : Cfg} {s s' : Sys} {t : Tid} (h : step cfg s (.rel t) = some s') :
    s.pc t = .holding ∧ s'.pc = upd s.pc t .idle ∧ s'.idx = upd s.idx t (s.idx t + 1) := by
  simp only [C12.step] at h
  split at h
  · rename_i hc; cases h; exact ⟨hc, by simp, by simp⟩
  · cases h

theorem step_rel_isSome {cfg : Cfg} {s : Sys} {t : Tid} (h : s.pc t = .holding) : ∃ s', step cfg s (.rel t) = some s' := by
  simp [C12.step, h]

/-! ### the invariant -/

structure TlsInv (cfg : Cfg) (s : TlsSys) : Prop where
  wi : WireInv (cfgL cfg) s.base
  li : LockInv s.base
  /-- the backlog is always written out completely before the task can be suspended -/
  dq : s.deque = []
  /-- written ++ being written ++ waiting in the BIO = the data of all calls, in call order -/
  data : s.twire ++ s.inflight ++ s.bio = flat cfg s.calls
  quiet : (∀ t, s.base.pc t ≠ .holding) → s.inflight = []
  /-- ciphertext left in the BIO always has somebody queued on the send lock who will flush it -/
  pending : s.bio ≠ [] → ∃ t, s.base.pc t = .waiting
  noSending : ∀ t, (s.base.pc t).isSending = false
  order : ∀ t, (s.calls.filter (fun p => p.1 == t)).map (·.2) =
      List.range (s.base.idx t + (if s.base.pc t = .idle then 0 else 1))

theorem TlsInv.init (cfg : Cfg) : TlsInv cfg TlsSys.init := by
  refine ⟨WireInv.init _, LockInv.init, rfl, ?_, ?_, ?_, ?_, ?_⟩ <;>
    simp [TlsSys.init, Sys.init, flat, PC.isSending]

/-- the state right after the send lock was granted to `t` (before looking at the BIO) -/
structure TlsGranted (cfg : Cfg) (s : TlsSys) (t : Tid) : Prop where
  wi : WireInv (cfgL cfg) s.base
  li : LockInv s.base
  dq : s.deque = []
  data : s.twire ++ s.inflight ++ s.bio = flat cfg s.calls
  owner : s.base.pc t = .holding
  idle : s.inflight = []
  noSending : ∀ t, (s.base.pc t).isSending = false
  order : ∀ t, (s.calls.filter (fun p => p.1 == t)).map (·.2) =
      List.range (s.base.idx t + (if s.base.pc t = .idle then 0 else 1))

/-- leaving the lock block (`rel`) keeps the invariant, given the data facts of the new state -/
theorem TlsInv.of_rel {cfg : Cfg} {s : TlsSys} {b : Sys} {t : Tid}
    (wi : WireInv (cfgL cfg) s.base) (li : LockInv s.base) (dq : s.deque = [])
    (data : s.twire ++ s.inflight ++ s.bio = flat cfg s.calls) (hin : s.inflight = [])
    (pending : s.bio ≠ [] → ∃ u, u ≠ t ∧ s.base.pc u = .waiting)
    (noSending : ∀ t, (s.base.pc t).isSending = false)
    (order : ∀ t, (s.calls.filter (fun p => p.1 == t)).map (·.2) =
      List.range (s.base.idx t + (if s.base.pc t = .idle then 0 else 1)))
    (hb : C12.step (cfgL cfg) s.base (.rel t) = some b) : TlsInv cfg { s with base := b } := by
  obtain ⟨hown, hpc, hidx⟩ := step_rel hb
  refine ⟨wi.step hb, li.step rfl wi hb, dq, data, fun _ => hin, ?_, ?_, ?_⟩
  · intro hne
    obtain ⟨u, hut, hu⟩ := pending hne
    exact ⟨u, by simp only [hpc, upd_other _ _ _ _ hut]; exact hu⟩
  · intro u; simp only [hpc, upd_apply]; split
    · rfl
    · exact noSending u
  · intro u
    simp only [hpc, hidx, upd_apply]
    split
    · rename_i hu; subst hu
      have := order u; rw [hown] at this; simpa using this
    · exact order u

theorem TlsGranted.afterGrant {cfg : Cfg} {s s' : TlsSys} {t : Tid} (g : TlsGranted cfg s t)
    (h : TlsSys.afterGrant cfg s t = some s') : TlsInv cfg s' := by
  unfold TlsSys.afterGrant at h
  split at h
  · rename_i hempty
    have hbio : s.bio = [] := by simpa using hempty
    cases hb : C12.step (cfgL cfg) s.base (.rel t) with
    | none => rw [hb] at h; cases h
    | some b =>
      rw [hb] at h; simp only [Option.map_some, Option.some.injEq] at h; subst h
      exact TlsInv.of_rel g.wi g.li g.dq g.data g.idle (fun hne => absurd hbio hne) g.noSending g.order hb
  · cases h
    refine ⟨g.wi, g.li, g.dq, ?_, ?_, ?_, g.noSending, g.order⟩
    · have := g.data; rw [g.idle] at this; simpa using this
    · intro hall; exact absurd g.owner (hall t)
    · intro hne; exact absurd rfl hne

theorem TlsInv.step {cfg : Cfg} {s s' : TlsSys} {e : TEv} (h : TlsInv cfg s) (hs : tstep cfg s e = some s') :
    TlsInv cfg s' := by
  -- nobody but a fresh owner: the blob in flight is empty
  have hidle : ∀ (b : Sys) (t : Tid), LockInv b → b.pc t = .holding → s.base.pc t ≠ .holding →
      (∀ u, u ≠ t → b.pc u = s.base.pc u) → s.inflight = [] := by
    intro b t lb hown hnot hoth
    apply h.quiet
    intro u hu
    by_cases hut : u = t
    · subst hut; exact hnot hu
    · have h1 : (b.pc u).crit = true := by rw [hoth u hut, hu]; rfl
      have h2 : (b.pc t).crit = true := by rw [hown]; rfl
      exact hut (lb.one u t h1 h2)
  cases e with
  | send t =>
    simp only [tstep] at hs
    split at hs
    · rename_i hid
      split at hs
      · rename_i b hb
        obtain ⟨hpc, hoth, hidx⟩ := step_send_lock (cfg := cfgL cfg) rfl hb
        have wi' := h.wi.step hb
        have li' := h.li.step rfl h.wi hb
        have hdata : s.twire ++ s.inflight ++ writeAllToSsl (s.deque ++ [cfg.pkt t (s.base.idx t)]) s.bio =
            flat cfg (s.calls ++ [(t, s.base.idx t)]) := by
          rw [writeAllToSsl_eq, h.dq, flat_append, ← h.data]; simp [flat]
        have hns : ∀ u, (b.pc u).isSending = false := by
          intro u
          by_cases hut : u = t
          · subst hut; rcases hpc with hp | hp <;> rw [hp] <;> rfl
          · rw [hoth u hut]; exact h.noSending u
        have hord : ∀ u, ((s.calls ++ [(t, s.base.idx t)]).filter (fun p => p.1 == u)).map (·.2) =
            List.range (b.idx u + (if b.pc u = .idle then 0 else 1)) := by
          intro u
          rw [hidx, List.filter_append, List.map_append, h.order u]
          by_cases hut : u = t
          · subst hut
            have hne : b.pc u ≠ .idle := by rcases hpc with hp | hp <;> rw [hp] <;> simp
            simp [hid, hne, List.range_succ]
          · have : ((t, s.base.idx t).1 == u) = false := by simp; exact fun hx => hut hx.symm
            simp [this, hoth u hut]
        split at hs
        · rename_i hown
          refine TlsGranted.afterGrant (s := _) (t := t) ⟨wi', li', rfl, hdata, hown, ?_, hns, hord⟩ hs
          exact hidle b t li' hown (by rw [hid]; simp) hoth
        · rename_i hnown
          have hwait : b.pc t = .waiting := by rcases hpc with hp | hp; exact absurd hp hnown; exact hp
          cases hs
          refine ⟨wi', li', rfl, hdata, ?_, fun _ => ⟨t, hwait⟩, hns, hord⟩
          intro hall
          apply h.quiet
          intro u hu
          by_cases hut : u = t
          · subst hut; rw [hid] at hu; cases hu
          · exact hall u (by simp only; rw [hoth u hut]; exact hu)
      · cases hs
    · cases hs
  | resume t =>
    simp only [tstep] at hs
    split at hs
    · rename_i b hb
      obtain ⟨hw, hown, hoth, hidx⟩ := step_resume hb
      have wi' := h.wi.step hb
      have li' := h.li.step rfl h.wi hb
      refine TlsGranted.afterGrant (s := { s with base := b }) (t := t)
        ⟨wi', li', h.dq, h.data, hown, ?_, ?_, ?_⟩ hs
      · exact hidle b t li' hown (by rw [hw]; simp) hoth
      · intro u
        by_cases hut : u = t
        · subst hut; simp only; rw [hown]; rfl
        · simp only; rw [hoth u hut]; exact h.noSending u
      · intro u
        simp only [hidx]
        by_cases hut : u = t
        · subst hut; have := h.order u; rw [hw] at this; rw [hown]; simpa using this
        · rw [hoth u hut]; exact h.order u
    · cases hs
  | write t n =>
    simp only [tstep] at hs
    split at hs
    · rename_i hown
      cases hs
      refine ⟨h.wi, h.li, h.dq, ?_, ?_, h.pending, h.noSending, h.order⟩
      · simp only; rw [← h.data]; simp only [List.append_assoc]
        rw [← List.append_assoc (s.inflight.take n), List.take_append_drop]
      · intro hall; exact absurd hown (hall t)
    · cases hs
  | ret t =>
    simp only [tstep] at hs
    split at hs
    · rename_i hc
      cases hb : C12.step (cfgL cfg) s.base (.rel t) with
      | none => rw [hb] at hs; cases hs
      | some b =>
        rw [hb] at hs; simp only [Option.map_some, Option.some.injEq] at hs; subst hs
        refine TlsInv.of_rel h.wi h.li h.dq h.data hc.2 ?_ h.noSending h.order hb
        intro hne
        obtain ⟨u, hu⟩ := h.pending hne
        refine ⟨u, ?_, hu⟩
        intro hut; subst hut; rw [hc.1] at hu; cases hu
    · cases hs

theorem TlsInv.run {cfg : Cfg} {evs : List TEv} {s s' : TlsSys} (h : TlsInv cfg s) (hr : trun cfg s evs = some s') :
    TlsInv cfg s' := by
  induction evs generalizing s with
  | nil => simp only [trun, Option.some.injEq] at hr; subst hr; exact h
  | cons e es ih =>
    simp only [trun] at hr
    split at hr
    · rename_i s1 hs1; exact ih (h.step hs1) hr
    · cases hr

end EasyNet.C12
