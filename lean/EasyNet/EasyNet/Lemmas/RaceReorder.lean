/-
  The address reordering functions of dns_resolver.py return a permutation, IPv6 first.
-/
import EasyNet.Model.Race
namespace EasyNet.Race

/-! ### prioritize -/

theorem insert1_perm {α} (a : α) (l : List α) : (insert1 a l).Perm (a :: l) := by
  unfold insert1
  have h := @List.perm_middle α a (l.take 1) (l.drop 1)
  rw [List.take_append_drop] at h
  exact h

theorem prioStep_perm {α} (fam : α → Nat) (s : PState α) (a : α) (l0 : List α) (h : s.acc.Perm l0) :
    (prioStep fam s a).acc.Perm (l0 ++ [a]) := by
  unfold prioStep
  split
  · exact (List.Perm.cons a h).trans (List.perm_append_singleton a l0).symm
  · split
    · exact (insert1_perm a s.acc).trans ((List.Perm.cons a h).trans (List.perm_append_singleton a l0).symm)
    · exact List.Perm.append_right [a] h

theorem prio_fold_perm {α} (fam : α → Nat) : ∀ (l : List α) (s : PState α) (l0 : List α), s.acc.Perm l0 →
    (l.foldl (prioStep fam) s).acc.Perm (l0 ++ l)
  | [], s, l0, h => by simpa using h
  | a :: l, s, l0, h => by
    have := prio_fold_perm fam l (prioStep fam s a) (l0 ++ [a]) (prioStep_perm fam s a l0 h)
    simpa [List.append_assoc] using this

theorem prioritize_perm {α} (fam : α → Nat) (l : List α) : (prioritize fam l).Perm l := by
  have := prio_fold_perm fam l ⟨false, false, []⟩ [] (List.Perm.refl _)
  simpa [prioritize] using this

/-- once an IPv6 address has been seen it sits at the head and stays there -/
def PGood {α} (fam : α → Nat) (s : PState α) : Prop :=
  s.v6 = true → ∃ b t, s.acc = b :: t ∧ isV6 (fam b) = true

theorem prioStep_good {α} (fam : α → Nat) (s : PState α) (a : α) (h : PGood fam s) : PGood fam (prioStep fam s a) := by
  unfold prioStep
  split
  · rename_i hc
    intro _
    exact ⟨a, s.acc, rfl, hc.1⟩
  · split
    · rename_i hc
      intro _
      obtain ⟨b, t, hb, hv⟩ := h hc.2.2
      refine ⟨b, a :: t, ?_, hv⟩
      simp [insert1, hb]
    · intro hv6
      obtain ⟨b, t, hb, hv⟩ := h hv6
      exact ⟨b, t ++ [a], by simp [hb], hv⟩

theorem prioStep_flag {α} (fam : α → Nat) (s : PState α) (a : α) :
    (s.v6 = true → (prioStep fam s a).v6 = true) ∧ (isV6 (fam a) = true → (prioStep fam s a).v6 = true) := by
  unfold prioStep
  split
  · simp
  · rename_i hc
    split
    · rename_i hc2
      refine ⟨fun h => h, fun _ => hc2.2.2⟩
    · refine ⟨fun h => h, fun ha => ?_⟩
      apply Classical.byContradiction
      intro hn
      exact hc ⟨ha, hn⟩

theorem prio_fold_good {α} (fam : α → Nat) : ∀ (l : List α) (s : PState α), PGood fam s →
    PGood fam (l.foldl (prioStep fam) s) ∧
    ((s.v6 = true ∨ ∃ x ∈ l, isV6 (fam x) = true) → (l.foldl (prioStep fam) s).v6 = true)
  | [], s, h => by simpa using h
  | a :: l, s, h => by
    have ih := prio_fold_good fam l (prioStep fam s a) (prioStep_good fam s a h)
    refine ⟨ih.1, ?_⟩
    intro hx
    apply ih.2
    have hf := prioStep_flag fam s a
    rcases hx with hv | ⟨x, hx, hxv⟩
    · exact Or.inl (hf.1 hv)
    · rcases List.mem_cons.mp hx with rfl | hx'
      · exact Or.inl (hf.2 hxv)
      · exact Or.inr ⟨x, hx', hxv⟩

theorem prioritize_head {α} (fam : α → Nat) (l : List α) (h : ∃ x ∈ l, isV6 (fam x) = true) :
    ∃ b t, prioritize fam l = b :: t ∧ isV6 (fam b) = true := by
  have g := prio_fold_good fam l ⟨false, false, []⟩ (by intro h; cases h)
  exact g.1 (g.2 (Or.inr h))

/-! ### interleave -/

def flat {α} (gs : List (Nat × List α)) : List α := (gs.map Prod.snd).flatten

theorem addGroup_perm {α} (fam : α → Nat) (a : α) : ∀ gs : List (Nat × List α),
    (flat (addGroup fam a gs)).Perm (flat gs ++ [a])
  | [] => by simp [addGroup, flat]
  | (f, g) :: rest => by
    unfold addGroup
    split
    · simp only [flat, List.map_cons, List.flatten_cons, List.append_assoc]
      exact List.Perm.append_left g List.perm_append_comm
    · have ih := addGroup_perm fam a rest
      simp only [flat, List.map_cons, List.flatten_cons, List.append_assoc] at ih ⊢
      exact List.Perm.append_left g ih

theorem groups_fold_perm {α} (fam : α → Nat) : ∀ (l : List α) (gs : List (Nat × List α)),
    (flat (l.foldl (fun acc a => addGroup fam a acc) gs)).Perm (flat gs ++ l)
  | [], gs => by simp
  | a :: l, gs => by
    have ih := groups_fold_perm fam l (addGroup fam a gs)
    refine ih.trans ?_
    have := List.Perm.append_right l (addGroup_perm fam a gs)
    simpa [List.append_assoc] using this

theorem heads_tails_perm {α} : ∀ ls : List (List α),
    (ls.filterMap List.head? ++ (ls.map List.tail).flatten).Perm ls.flatten
  | [] => by simp
  | [] :: ls => by
    have ih := heads_tails_perm ls
    simpa [List.filterMap_cons] using ih
  | (x :: t) :: ls => by
    have ih := heads_tails_perm ls
    simp only [List.filterMap_cons, List.head?_cons, List.map_cons, List.tail_cons, List.flatten_cons,
      List.cons_append]
    refine List.Perm.cons x ?_
    -- H ++ (t ++ T)  ~  t ++ (H ++ T)  ~  t ++ L
    have h1 : (ls.filterMap List.head? ++ (t ++ (ls.map List.tail).flatten)).Perm
        (t ++ (ls.filterMap List.head? ++ (ls.map List.tail).flatten)) := by
      rw [← List.append_assoc, ← List.append_assoc]
      exact List.Perm.append_right _ List.perm_append_comm
    exact h1.trans (List.Perm.append_left t ih)

theorem maxLen_zero {α} : ∀ ls : List (List α), maxLen ls = 0 → ls.flatten = []
  | [], _ => rfl
  | l :: ls, h => by
    simp only [maxLen, List.foldr_cons] at h
    have h1 : l.length = 0 := by omega
    have h2 : maxLen ls = 0 := by unfold maxLen; omega
    simp [List.eq_nil_of_length_eq_zero h1, maxLen_zero ls h2]

theorem maxLen_tail {α} : ∀ (ls : List (List α)) (f : Nat), maxLen ls ≤ f + 1 → maxLen (ls.map List.tail) ≤ f
  | [], f, _ => by simp [maxLen]
  | l :: ls, f, h => by
    simp only [maxLen, List.foldr_cons, List.map_cons] at h ⊢
    have ih := maxLen_tail ls f (by unfold maxLen; omega)
    unfold maxLen at ih
    have : l.tail.length = l.length - 1 := by simp
    omega

theorem roundRobin_perm {α} : ∀ (fuel : Nat) (ls : List (List α)), maxLen ls ≤ fuel →
    (roundRobin fuel ls).Perm ls.flatten
  | 0, ls, h => by
    have := maxLen_zero ls (by omega)
    simp [roundRobin, this]
  | fuel + 1, ls, h => by
    have ih := roundRobin_perm fuel (ls.map List.tail) (maxLen_tail ls fuel h)
    simp only [roundRobin]
    exact (List.Perm.append_left _ ih).trans (heads_tails_perm ls)

theorem interleave_perm {α} (fam : α → Nat) (l : List α) : (interleave fam l).Perm l := by
  unfold interleave
  have h1 := roundRobin_perm (maxLen ((groups fam l).map Prod.snd)) ((groups fam l).map Prod.snd) (Nat.le_refl _)
  have h2 := groups_fold_perm fam l []
  simp only [flat, List.map_nil, List.flatten_nil, List.nil_append] at h2
  exact h1.trans h2

theorem reorder_perm {α} (fam : α → Nat) (l : List α) : (reorder fam l).Perm l :=
  (interleave_perm fam _).trans (prioritize_perm fam l)

/-- the first group keeps its first element -/
theorem addGroup_head {α} (fam : α → Nat) (a x : α) (f : Nat) (g : List α) (rest : List (Nat × List α)) :
    ∃ g' rest', addGroup fam a ((f, x :: g) :: rest) = (f, x :: g') :: rest' := by
  unfold addGroup
  split
  · exact ⟨g ++ [a], rest, by simp⟩
  · exact ⟨g, addGroup fam a rest, rfl⟩

theorem groups_fold_head {α} (fam : α → Nat) (x : α) : ∀ (l : List α) (f : Nat) (g : List α) (rest : List (Nat × List α)),
    ∃ g' rest', l.foldl (fun acc a => addGroup fam a acc) ((f, x :: g) :: rest) = (f, x :: g') :: rest'
  | [], f, g, rest => ⟨g, rest, rfl⟩
  | a :: l, f, g, rest => by
    obtain ⟨g1, r1, h1⟩ := addGroup_head fam a x f g rest
    simp only [List.foldl_cons, h1]
    exact groups_fold_head fam x l f g1 r1

theorem interleave_head {α} (fam : α → Nat) (x : α) (l : List α) :
    ∃ t, interleave fam (x :: l) = x :: t := by
  unfold interleave groups
  simp only [List.foldl_cons, addGroup]
  obtain ⟨g', rest', h⟩ := groups_fold_head fam x l (fam x) [] []
  rw [h]
  simp only [List.map_cons, maxLen, List.foldr_cons, List.length_cons]
  have : max (g'.length + 1) (List.foldr (fun l m => max l.length m) 0 (List.map Prod.snd rest')) =
      (max (g'.length + 1) (List.foldr (fun l m => max l.length m) 0 (List.map Prod.snd rest')) - 1) + 1 := by omega
  rw [this]
  simp only [roundRobin, List.filterMap_cons, List.head?_cons, List.cons_append]
  exact ⟨_, rfl⟩

theorem reorder_head {α} (fam : α → Nat) (l : List α) (h : ∃ x ∈ l, isV6 (fam x) = true) :
    ∃ b t, reorder fam l = b :: t ∧ isV6 (fam b) = true := by
  obtain ⟨b, t, hb, hv⟩ := prioritize_head fam l h
  obtain ⟨t', ht⟩ := interleave_head fam b t
  exact ⟨b, t', by simp [reorder, hb, ht], hv⟩

end EasyNet.Race
