/-
  C08: a generic invariant principle for the wrapper machine (Model/Tls08.lean).

  `Core` is the projection of the state on everything except the control part (locks, program counters, action log).
  Every step of the machine changes the core only through a handful of primitive updates; a predicate on cores that is
  closed under these primitives (`Closed`) is therefore an invariant of `run` (`run_closed`) — for every engine, every
  number of tasks and every event list.
-/
import EasyNet.Model.Tls08
namespace EasyNet.C08
open EasyNet

structure Core (σ : Type) where
  eng : σ
  rbio : Bytes
  rEof : Bool
  wbio : List TB
  deque : List (List TB)
  written : List TB
  accepted : Bytes
  mark : Tid → Nat
  completed : List (Tid × Nat × Nat)
  xmits : List (List TB)
  outAll : List TB
  taken : Bytes
  fedAll : Bytes
  consumed : Bytes
  engRead : Bytes
  returned : Bytes
  flushed : Tid → Nat

def St.core {σ : Type} (s : St σ) : Core σ :=
  { eng := s.eng, rbio := s.rbio, rEof := s.rEof, wbio := s.wbio, deque := s.deque, written := s.written,
    accepted := s.accepted, mark := s.mark, completed := s.completed, xmits := s.xmits, outAll := s.outAll,
    taken := s.taken, fedAll := s.fedAll, consumed := s.consumed, engRead := s.engRead, returned := s.returned,
    flushed := s.flushed }

/-! ### control helpers leave the core alone -/

@[simp] theorem core_log {σ : Type} (s : St σ) (a : Act) : (s.log a).core = s.core := rfl
@[simp] theorem core_setPc {σ : Type} (s : St σ) (t : Tid) (p : PC) : (s.setPc t p).core = s.core := rfl
@[simp] theorem core_setLock {σ : Type} (s : St σ) (l : LockId) (k : Lock) : (s.setLock l k).core = s.core := by
  cases l <;> rfl
@[simp] theorem core_acquire {σ : Type} (s : St σ) (t : Tid) (l : LockId) : (s.acquire t l).1.core = s.core := by
  unfold St.acquire; split <;> simp
@[simp] theorem core_release {σ : Type} (s : St σ) (t : Tid) (l : LockId) : (s.release t l).core = s.core := by
  unfold St.release; simp
theorem core_grant {σ : Type} {s s1 : St σ} {t : Tid} {l : LockId} (h : s.grant t l = some s1) : s1.core = s.core := by
  unfold St.grant at h
  split at h
  · cases h; simp
  · cases h

/-! ### the primitive core updates -/

/-- the answer of the engine to `call` in core `c` -/
def Core.resp {σ : Type} (E : Engine σ) (c : Core σ) (call : Call) : Resp := (E.call c.eng call c.rbio c.rEof).2

/-- one engine call -/
def Core.engStep {σ : Type} (E : Engine σ) (c : Core σ) (call : Call) : Core σ :=
  { c with eng := (E.call c.eng call c.rbio c.rEof).1,
           rbio := c.rbio.drop (c.resp E call).cin,
           consumed := c.consumed ++ c.rbio.take (c.resp E call).cin,
           wbio := c.wbio ++ tag .bio (c.resp E call).cout,
           outAll := c.outAll ++ tag .bio (c.resp E call).cout,
           accepted := c.accepted ++ acceptedBy call (c.resp E call),
           engRead := c.engRead ++ readBy call (c.resp E call) }

theorem core_engine {σ : Type} (E : Engine σ) (s : St σ) (t : Tid) (call : Call) :
    (s.engine E t call).1.core = s.core.engStep E call := rfl

theorem resp_engine {σ : Type} (E : Engine σ) (s : St σ) (t : Tid) (call : Call) :
    (s.engine E t call).2 = s.core.resp E call := rfl

/-- what `__write_all_to_ssl_object` does to the backlog after `write(d)` answered `o` -/
def afterWrite (d : List TB) (dq : List (List TB)) : SslOut → List (List TB)
  | .ok n => if n < d.length then (if n = 0 then d :: dq else d.drop n :: dq) else dq
  | _ => d :: dq

def Core.xmit {σ : Type} (c : Core σ) : Core σ := { c with wbio := [], xmits := c.xmits ++ [c.wbio] }

def SslOut.isOk : SslOut → Bool
  | .ok _ => true
  | _ => false

/-- a predicate on cores that every primitive update preserves -/
structure Closed {σ : Type} (E : Engine σ) (P : Core σ → Prop) : Prop where
  /-- `do_handshake()`, or a `read` that did not succeed -/
  eng : ∀ (c : Core σ) (call : Call), P c → call.kind ≠ .write → (call.kind = .read → (c.resp E call).out.isOk = false) →
    P (c.engStep E call)
  /-- a successful `read` whose result is returned to the caller of recv / recv_into (no await in between) -/
  readOk : ∀ (c : Core σ) (n : Nat), P c → (c.resp E (.read n)).out.isOk = true →
    P { (c.engStep E (.read n)) with returned := c.returned ++ (c.resp E (.read n)).data }
  /-- `write(head)` and the backlog update that follows it -/
  write : ∀ (c : Core σ) (d : List TB) (dq : List (List TB)), P { c with deque := d :: dq } →
    P { (c.engStep E (.write (untag d))) with deque := afterWrite d dq (c.resp E (.write (untag d))).out }
  xmit : ∀ (c : Core σ), P c → P c.xmit
  eofs : ∀ (c : Core σ), P c → P { c with rEof := true }
  feed : ∀ (c : Core σ) (x : Bytes), P c → c.rEof = false → P { c with rbio := c.rbio ++ x, taken := c.taken ++ x, fedAll := c.fedAll ++ x }
  dropFeed : ∀ (c : Core σ) (x : Bytes), P c → P { c with taken := c.taken ++ x, rEof := true }
  enqueue : ∀ (c : Core σ) (t : Tid) (cs : List Bytes), P c →
    P { c with deque := c.deque ++ cs.map (tag .plain), written := c.written ++ (cs.map (tag .plain)).flatten,
               mark := upd c.mark t (c.written ++ (cs.map (tag .plain)).flatten).length }
  done : ∀ (c : Core σ) (t : Tid), P c → c.deque = [] → P { c with completed := c.completed ++ [(t, c.mark t, c.accepted.length)] }
  flushed : ∀ (c : Core σ) (t : Tid), P c → P { c with flushed := upd c.flushed t c.outAll.length }

section chain
variable {σ : Type} {E : Engine σ} {P : Core σ → Prop}

theorem core_finish_read (s : St σ) (t : Tid) (n : Nat) (b : Bytes) :
    (finish s t (.read n) (.data b)).core = { s.core with returned := s.returned ++ b } := rfl

theorem core_finish_other (s : St σ) (t : Tid) (m : Meth) (r : Result) (h : ∀ n b, ¬ (m = .read n ∧ r = .data b)) :
    (finish s t m r).core = s.core := by
  unfold finish
  split
  · rfl
  · rename_i n b; exact absurd ⟨rfl, rfl⟩ (h n b)
  · rfl

theorem core_retNil (c : Core σ) : ({ c with returned := c.returned ++ [] } : Core σ) = c := by
  cases c; simp

/-- `finish` after a failure (or a non-read success): the core is unchanged -/
theorem finish_P_raised (s : St σ) (t : Tid) (m : Meth) (e : Err) (h : P s.core) : P (finish s t m (.raised e)).core := by
  rw [core_finish_other]; exact h
  intro n b hc; cases hc.2

theorem finish_P_done (s : St σ) (t : Tid) (m : Meth) (h : P s.core) : P (finish s t m (doneResult m)).core := by
  rw [core_finish_other]; exact h
  intro n b hc; rw [hc.1] at hc; cases hc.2

theorem finish_P_exc (s : St σ) (t : Tid) (m : Meth) (o : SslOut) (cp : Bool) (h : P s.core) :
    P (finish s t m (excResult cp m o)).core := by
  cases m with
  | read n =>
    -- either `.data []` (close / ragged EOF accepted) or a raise
    have : excResult cp (.read n) o = .data [] ∨ ∃ e, excResult cp (.read n) o = .raised e := by
      cases o <;> cases cp <;> simp [excResult]
    rcases this with h1 | ⟨e, h1⟩
    · rw [h1, core_finish_read]
      have := core_retNil s.core
      simp only [St.core] at this ⊢
      rw [this]; exact h
    · rw [h1]; exact finish_P_raised s t _ e h
  | handshake =>
    have : ∃ e, excResult cp .handshake o = .raised e := by cases o <;> simp [excResult]
    obtain ⟨e, h1⟩ := this
    rw [h1]; exact finish_P_raised s t _ e h
  | writeAll =>
    have : ∃ e, excResult cp .writeAll o = .raised e := by cases o <;> simp [excResult]
    obtain ⟨e, h1⟩ := this
    rw [h1]; exact finish_P_raised s t _ e h

theorem writeLoop_P (hc : Closed E P) (t : Tid) (dq : List (List TB)) (s : St σ)
    (h : P { s.core with deque := dq }) :
    P (writeLoop E t dq s).1.core ∧ ((∃ r, (writeLoop E t dq s).2 = .ok r) → (writeLoop E t dq s).1.deque = []) := by
  fun_induction writeLoop E t dq s with
  | case1 s => exact ⟨h, fun _ => rfl⟩
  | case2 d dq s hout hlt =>
    refine ⟨?_, fun ⟨r, hr⟩ => by cases hr⟩
    have := hc.write s.core d dq h
    have hout' : (s.core.resp E (.write (untag d))).out = .ok 0 := hout
    have e : afterWrite d dq (s.core.resp E (.write (untag d))).out = d :: dq := by simp [afterWrite, hout', hlt]
    rw [e] at this
    exact this
  | case3 d dq s n hout hlt hn ih =>
    refine ih ?_
    have := hc.write s.core d dq h
    have hout' : (s.core.resp E (.write (untag d))).out = .ok n := hout
    have e : afterWrite d dq (s.core.resp E (.write (untag d))).out = d.drop n :: dq := by
      simp [afterWrite, hout', hlt, hn]
    rw [e] at this
    exact this
  | case4 d dq s n hout hge ih =>
    refine ih ?_
    have := hc.write s.core d dq h
    have hout' : (s.core.resp E (.write (untag d))).out = .ok n := hout
    have e : afterWrite d dq (s.core.resp E (.write (untag d))).out = dq := by simp [afterWrite, hout', hge]
    rw [e] at this
    exact this
  | case5 d dq s hout =>
    refine ⟨?_, fun ⟨r, hr⟩ => by cases hr⟩
    have := hc.write s.core d dq h
    have e : afterWrite d dq (s.core.resp E (.write (untag d))).out = d :: dq := by
      cases ho : (s.core.resp E (.write (untag d))).out with
      | ok n => exact absurd ho (hout n)
      | _ => rfl
    rw [e] at this
    exact this

theorem rdPart_P (s : St σ) (t : Tid) (m : Meth) (h : P s.core) : P (rdPart s t m).core := by
  unfold rdPart; split <;> simpa using h

theorem xmit_core (s : St σ) :
    ({ s with wbio := [], xmits := s.xmits ++ [s.wbio] } : St σ).core = s.core.xmit := rfl

theorem afterWrLock_P (hc : Closed E P) (s : St σ) (t : Tid) (m : Meth) (h : P s.core) : P (afterWrLock s t m).core := by
  unfold afterWrLock
  split
  · simp only [core_setPc, core_log, xmit_core]; exact hc.xmit _ h
  · exact rdPart_P _ t m (by simpa using h)

theorem wrPart_P (hc : Closed E P) (s : St σ) (t : Tid) (m : Meth) (h : P s.core) : P (wrPart s t m).core := by
  unfold wrPart
  split
  · split
    · exact afterWrLock_P hc _ t m (by simpa using h)
    · simpa using h
  · exact rdPart_P _ t m h

theorem afterWwLock_P (hc : Closed E P) (s : St σ) (t : Tid) (m : Meth) (h : P s.core) : P (afterWwLock s t m).core := by
  unfold afterWwLock
  simp only [core_setPc, core_log, xmit_core]; exact hc.xmit _ h

theorem wwPart_P (hc : Closed E P) (s : St σ) (t : Tid) (m : Meth) (h : P s.core) : P (wwPart s t m).core := by
  unfold wwPart
  split
  · exact afterWwLock_P hc _ t m (by simpa using h)
  · simpa using h

theorem afterOkLock_P (hc : Closed E P) (s : St σ) (t : Tid) (m : Meth) (h : P s.core) : P (afterOkLock s t m).core := by
  unfold afterOkLock
  split
  · simp only [core_setPc, core_log, xmit_core]; exact hc.xmit _ h
  · exact finish_P_done _ t m (by simpa using h)

theorem okPart_P (hc : Closed E P) (s : St σ) (t : Tid) (m : Meth) (h : P s.core) : P (okPart s t m).core := by
  unfold okPart
  split
  · exact afterOkLock_P hc _ t m (by simpa using h)
  · simpa using h

theorem eofs_core (s : St σ) :
    ({ s with rEof := true, wEof := true } : St σ).core = { s.core with rEof := true } := rfl

theorem failSsl_P (hc : Closed E P) (s : St σ) (t : Tid) (m : Meth) (o : SslOut) (h : P s.core) :
    P (failSsl s t m o).core := by
  unfold failSsl
  refine finish_P_exc _ t m o _ ?_
  simp only [core_log, eofs_core]; exact hc.eofs _ h

theorem failOs_P (hc : Closed E P) (s : St σ) (t : Tid) (m : Meth) (b : Bool) (h : P s.core) : P (failOs s t m b).core := by
  unfold failOs
  split
  · refine finish_P_raised _ t m _ ?_
    simp only [core_log, eofs_core]; exact hc.eofs _ h
  · exact finish_P_raised _ t m _ h

theorem flushed_core (s : St σ) (t : Tid) :
    ({ s with flushed := upd s.flushed t s.outAll.length } : St σ).core =
      { s.core with flushed := upd s.core.flushed t s.core.outAll.length } := rfl

/-- after the method call of `attempt`: everything except the successful read -/
theorem attempt_tail_P (hc : Closed E P) (s1 : St σ) (t : Tid) (m : Meth) (res : MRes)
    (hdq : (∃ r, res = .ok r) → m = .writeAll → s1.deque = [])
    (hread : (∃ r, res = .ok r) → m.isRead = false) (h : P s1.core) :
    P (match res with
       | .ok r => if m.isRead then finish s1 t m (okResult m r) else okPart (noteDone s1 t m) t m
       | .exc .wantRead => wrPart { s1 with flushed := upd s1.flushed t s1.outAll.length } t m
       | .exc .wantWrite => wwPart s1 t m
       | .exc o => failSsl s1 t m o
       | .spin => finish s1 t m (.raised .spin)).core := by
  split
  · rename_i r
    have hm := hread ⟨r, rfl⟩
    rw [if_neg (by simp [hm])]
    refine okPart_P hc _ t m ?_
    cases m with
    | writeAll => exact hc.done _ t h (hdq ⟨r, rfl⟩ rfl)
    | handshake => exact h
    | read n => cases hm
  · refine wrPart_P hc _ t m ?_
    rw [flushed_core]; exact hc.flushed _ t h
  · exact wwPart_P hc _ t m h
  · exact failSsl_P hc _ t m _ h
  · exact finish_P_raised _ t m _ h

theorem callMeth_hs_fst (s : St σ) (t : Tid) : (callMeth E t .handshake s).1 = (s.engine E t .handshake).1 := by
  simp only [callMeth]; split <;> rfl

theorem callMeth_read_fst (s : St σ) (t : Tid) (n : Nat) : (callMeth E t (.read n) s).1 = (s.engine E t (.read n)).1 := by
  simp only [callMeth]; split <;> rfl

theorem callMeth_read_snd (s : St σ) (t : Tid) (n : Nat) :
    (callMeth E t (.read n) s).2 =
      (match (s.engine E t (.read n)).2.out with
       | .ok _ => MRes.ok (s.engine E t (.read n)).2.data
       | o => MRes.exc o) := by
  simp only [callMeth]
  cases (s.engine E t (.read n)).2.out <;> rfl

theorem attempt_P (hc : Closed E P) (s : St σ) (t : Tid) (m : Meth) (h : P s.core) : P (attempt E s t m).core := by
  cases m with
  | writeAll =>
    have hw := writeLoop_P hc t s.deque s (by simpa [St.core] using h)
    unfold attempt
    exact attempt_tail_P hc _ t .writeAll _ (fun hr _ => hw.2 hr) (fun _ => rfl) hw.1
  | handshake =>
    have hk : P (callMeth E t .handshake s).1.core := by
      rw [callMeth_hs_fst, core_engine]; exact hc.eng _ _ h (by simp [Call.kind]) (by simp [Call.kind])
    unfold attempt
    exact attempt_tail_P hc _ t .handshake _ (fun _ hm => by cases hm) (fun _ => rfl) hk
  | read n =>
    unfold attempt
    rw [callMeth_read_snd, callMeth_read_fst]
    cases ho : (s.engine E t (.read n)).2.out with
    | ok k =>
      simp only [Meth.isRead, if_true, okResult]
      rw [core_finish_read, core_engine]
      have := hc.readOk s.core n h (by rw [← resp_engine E s t, ho]; rfl)
      rw [← resp_engine E s t] at this
      exact this
    | _ =>
      have hk : P (s.engine E t (.read n)).1.core := by
        rw [core_engine]
        exact hc.eng _ _ h (by simp [Call.kind]) (fun _ => by rw [← resp_engine E s t, ho]; rfl)
      simp only
      first
        | exact wrPart_P hc _ t _ (by rw [flushed_core]; exact hc.flushed _ t hk)
        | exact wwPart_P hc _ t _ hk
        | exact failSsl_P hc _ t _ _ hk

theorem enqueue_core (s : St σ) (t : Tid) (cs : List Bytes) :
    ({ s with deque := s.deque ++ cs.map (tag .plain), written := s.written ++ (cs.map (tag .plain)).flatten,
              mark := upd s.mark t (s.written ++ (cs.map (tag .plain)).flatten).length } : St σ).core =
    { s.core with deque := s.core.deque ++ cs.map (tag .plain),
                  written := s.core.written ++ (cs.map (tag .plain)).flatten,
                  mark := upd s.core.mark t (s.core.written ++ (cs.map (tag .plain)).flatten).length } := rfl

theorem apiCall_P (hc : Closed E P) (s : St σ) (t : Tid) (a : Api) (h : P s.core) : P (apiCall E s t a).core := by
  cases a with
  | handshake => exact attempt_P hc s t _ h
  | recv n => exact attempt_P hc s t _ h
  | recvInto c => exact attempt_P hc s t _ h
  | sendAll d =>
    refine attempt_P hc _ t _ ?_
    have := hc.enqueue s.core t [d] h
    simpa [St.core] using this
  | sendIter ds =>
    refine attempt_P hc _ t _ ?_
    rw [enqueue_core]; exact hc.enqueue s.core t ds h

theorem resume_P (hc : Closed E P) (s s' : St σ) (t : Tid) (io : IoRes) (h : P s.core)
    (hs : resume E s t io = some s') : P s'.core := by
  unfold resume at hs
  split at hs
  · cases hs
  · simp only [Option.map_eq_some_iff] at hs
    obtain ⟨s1, hg, rfl⟩ := hs
    exact afterWrLock_P hc _ t _ (by rw [core_grant hg]; exact h)
  · cases hs; exact rdPart_P _ t _ (by simpa using h)
  · cases hs; exact failOs_P hc _ t _ _ (by simpa using h)
  · simp only [Option.map_eq_some_iff] at hs
    obtain ⟨s1, hg, rfl⟩ := hs
    simp only [core_setPc, core_log, core_grant hg]; exact h
  · split at hs
    · cases hs
      refine attempt_P hc _ t _ ?_
      simp only [core_release, core_log]
      exact hc.eofs _ h
    · split at hs
      · cases hs
        refine finish_P_raised _ t _ _ ?_
        simp only [core_log]
        exact hc.dropFeed _ _ h
      · cases hs
        refine attempt_P hc _ t _ ?_
        simp only [core_release, core_log]
        rename_i hne
        exact hc.feed _ _ h (by simpa [St.core] using hne)
  · cases hs; exact failOs_P hc _ t _ _ (by simpa using h)
  · simp only [Option.map_eq_some_iff] at hs
    obtain ⟨s1, hg, rfl⟩ := hs
    exact afterWwLock_P hc _ t _ (by rw [core_grant hg]; exact h)
  · cases hs; exact attempt_P hc _ t _ (by simpa using h)
  · cases hs; exact failOs_P hc _ t _ _ (by simpa using h)
  · simp only [Option.map_eq_some_iff] at hs
    obtain ⟨s1, hg, rfl⟩ := hs
    exact afterOkLock_P hc _ t _ (by rw [core_grant hg]; exact h)
  · cases hs; exact finish_P_done _ t _ (by simpa using h)
  · cases hs; exact failOs_P hc _ t _ _ (by simpa using h)
  · cases hs

theorem step_P (hc : Closed E P) (s s' : St σ) (e : Ev) (h : P s.core) (hs : step E s e = some s') : P s'.core := by
  cases e with
  | call t a =>
    simp only [step] at hs
    split at hs
    · cases hs; exact apiCall_P hc s t a h
    · cases hs
  | resume t io => exact resume_P hc s s' t io h hs

/-- **the invariant principle** -/
theorem run_closed (hc : Closed E P) (evs : List Ev) (s s' : St σ) (h : P s.core) (hr : run E s evs = some s') :
    P s'.core := by
  induction evs generalizing s with
  | nil => simp only [run] at hr; cases hr; exact h
  | cons e es ih =>
    simp only [run] at hr
    split at hr
    · rename_i s1 hs1
      exact ih s1 (step_P hc s s1 e h hs1) hr
    · cases hr

end chain
end EasyNet.C08
