/-
  The trailing-whitespace rule of `_split_partial_document`, exactly: whitespace that follows a well-delimited document in
  the same buffer (up to the next non-whitespace byte or the end of the buffer) is attached to the frame.
-/
import EasyNet.Lemmas.JRawRun
namespace EasyNet
namespace JRaw

theorem wsRun_ws_good (w x : Bytes) (hw : w.all isWs = true) (hx : goodRest x = true) : wsRun (w ++ x) = w.length := by
  induction w with
  | nil => simpa using wsRun_good x hx
  | cons c cs ih =>
    simp only [List.all_cons, Bool.and_eq_true] at hw
    simp [wsRun, hw.1, ih hw.2]

/-- **the trailing-whitespace rule of `_split_partial_document`, exactly**: whitespace `w` that follows a well-delimited
    document in the same buffer (up to the next non-whitespace byte, or to the end of the buffer) is attached to the frame -/
theorem Doc.ws_attach (limit : Nat) (d : Doc) (hd : d.ok limit) (w x : Bytes) (hw : w.all isWs = true)
    (hx : goodRest x = true) : spec limit (d.bytes ++ w ++ x) = .done (d.bytes ++ w) x := by
  cases d with
  | encl f =>
    obtain ⟨hscan, hlen, hgood⟩ := hd
    have hb := sscan_closed_bounds f .lead 0 f.length hscan
    have hne : f ≠ [] := by intro h0; subst h0; simp at hb
    have happ := sscan_append f (w ++ x) .lead 0
    rw [hscan] at happ
    simp only at happ
    simp only [Doc.bytes, List.append_assoc]
    unfold spec
    rw [happ]
    simp only
    unfold splitS
    have h1 : ¬ (f.length > limit) := by omega
    simp only [h1, if_false, List.drop_left', wsRun_ws_good w x hw hx, List.length_append]
    have ht : List.take (f.length + w.length) (f ++ (w ++ x)) = f ++ w := by
      rw [← List.append_assoc]; exact List.take_left' (by simp)
    have hdr : List.drop (f.length + w.length) (f ++ (w ++ x)) = x := by
      rw [← List.append_assoc]; exact List.drop_left' (by simp)
    cases x with
    | nil => simp
    | cons c xs =>
      have : ¬ (f.length + w.length = f.length + (w.length + (xs.length + 1))) := by omega
      have hfe : (f ++ w).isEmpty = false := by cases f with
        | nil => exact absurd rfl hne
        | cons _ _ => rfl
      simp [ht, hdr, hfe]
  | plain v t =>
    obtain ⟨hvne, hval, hws, hscan, hlen⟩ := hd
    have hwv := isWs_not_value t hws
    simp only [Doc.bytes, List.append_assoc]
    have happ := sscan_append v ([t] ++ (w ++ x)) .lead 0
    rw [hscan] at happ
    simp only at happ
    unfold spec
    rw [happ]
    simp only [List.drop_zero]
    unfold plainS
    have hn := nprintIdx_value_then v t (w ++ x) hval hwv
    simp only [List.singleton_append]
    rw [hn]
    simp only
    unfold splitS
    have h1 : ¬ (v.length > limit) := by omega
    have hws' : wsRun (t :: (w ++ x)) = w.length + 1 := by simp [wsRun, hws, wsRun_ws_good w x hw hx]
    simp only [h1, if_false, List.drop_left', hws', List.length_append, List.length_cons]
    have ht : List.take (v.length + (w.length + 1)) (v ++ t :: (w ++ x)) = v ++ t :: w := by
      have : v ++ t :: (w ++ x) = (v ++ t :: w) ++ x := by simp
      rw [this]; exact List.take_left' (by simp)
    have hdr : List.drop (v.length + (w.length + 1)) (v ++ t :: (w ++ x)) = x := by
      have : v ++ t :: (w ++ x) = (v ++ t :: w) ++ x := by simp
      rw [this]; exact List.drop_left' (by simp)
    cases x with
    | nil => simp
    | cons c xs =>
      have : ¬ (v.length + (w.length + 1) = v.length + (w.length + (xs.length + 1) + 1)) := by omega
      simp [ht, hdr]

end JRaw
end EasyNet
