/-
  C13 — accounting invariant of the cancel-scope machine:

      task.cancelling() = external cancel() calls + Σ over scopes of `__host_task_cancel_calls` + phantom

  (`phantom` counts executions of `task.uncancel(); task.cancel(msg)` by the delayed cancel while cancelling() was 0).
  It is preserved by every callback the loop runs and by every micro-step of the coroutine, hence holds in every
  reachable state of every program under every schedule of external cancels.
-/
import EasyNet.Model.CancelScope
import EasyNet.Lemmas.CSFields
set_option linter.unusedSimpArgs false
set_option linter.unusedVariables false
namespace EasyNet.CS

def sumCalls : List Scope → Nat
  | [] => 0
  | s :: ss => s.calls + sumCalls ss

def Acct (k : K) : Prop := k.numCancels = k.extCount + sumCalls k.scopes + k.phantom

/-- the four quantities the invariant speaks about -/
def K.acct (k : K) : Nat × Nat × Nat × Nat := (k.numCancels, k.extCount, sumCalls k.scopes, k.phantom)

theorem Acct_of_acct_eq {k k' : K} (h : k'.acct = k.acct) (hk : Acct k) : Acct k' := by
  simp only [K.acct, Prod.mk.injEq] at h
  unfold Acct at *
  omega

/-! ### sums over the scope table -/

theorem sumCalls_append (a b : List Scope) : sumCalls (a ++ b) = sumCalls a + sumCalls b := by
  induction a with
  | nil => simp [sumCalls]
  | cons x xs ih => simp [sumCalls, ih]; omega

theorem sumCalls_updAt_same (l : List Scope) (i : Nat) (g : Scope → Scope) (hg : ∀ x, (g x).calls = x.calls) :
    sumCalls (updAt l i g) = sumCalls l := by
  induction l generalizing i with
  | nil => simp [updAt]
  | cons x xs ih =>
    cases i with
    | zero => simp [updAt, sumCalls, hg]
    | succ i => simp [updAt, sumCalls, ih]

theorem getD_calls_le (l : List Scope) (i : Nat) : ((l[i]?).getD defaultScope).calls ≤ sumCalls l := by
  induction l generalizing i with
  | nil => simp [defaultScope]
  | cons x xs ih =>
    cases i with
    | zero => simp [sumCalls]
    | succ i => simp only [List.getElem?_cons_succ, sumCalls]; have := ih i; omega

/-- general form: the sum moves by exactly the change of the entry (if the index is valid) -/
theorem sumCalls_updAt (l : List Scope) (i : Nat) (g : Scope → Scope) :
    sumCalls (updAt l i g) + ((l[i]?).getD defaultScope).calls =
      sumCalls l + (if i < l.length then (g ((l[i]?).getD defaultScope)).calls else 0) := by
  induction l generalizing i with
  | nil => simp [updAt, sumCalls, defaultScope]
  | cons x xs ih =>
    cases i with
    | zero => simp [updAt, sumCalls]; omega
    | succ i =>
      have := ih i
      simp only [updAt, sumCalls, List.getElem?_cons_succ, List.length_cons, Nat.add_lt_add_iff_right]
      omega

theorem scope_calls_le (k : K) (s : Nat) : (k.scope s).calls ≤ sumCalls k.scopes := getD_calls_le _ _

theorem scope_calls_pos_valid (k : K) (s : Nat) (h : 0 < (k.scope s).calls) : s < k.scopes.length := by
  unfold K.scope at h
  cases hs : k.scopes[s]? with
  | none => simp [hs, defaultScope] at h
  | some x => exact (List.getElem?_eq_some_iff.mp hs).1

theorem scope_active_valid (k : K) (s : Nat) (h : (k.scope s).active = true) : s < k.scopes.length := by
  unfold K.scope at h
  cases hs : k.scopes[s]? with
  | none => simp [hs, defaultScope] at h
  | some x => exact (List.getElem?_eq_some_iff.mp hs).1

/-! ### primitives that do not touch the accounted quantities -/


@[simp] theorem acct_emit (k : K) (e : Ev) : (k.emit e).acct = k.acct := by simp [K.acct, K.emit]
@[simp] theorem acct_callSoon (k : K) (h : Handle) : (k.callSoon h).acct = k.acct := by simp [K.acct, K.callSoon]
@[simp] theorem acct_callAt (k : K) (w : Nat) (p : Int) (h : Handle) : (k.callAt w p h).acct = k.acct := by simp [K.acct, K.callAt]
@[simp] theorem acct_cancelHandle (k : K) (h : Handle) : (k.cancelHandle h).acct = k.acct := by simp [K.acct, K.cancelHandle]
@[simp] theorem acct_updFut (k : K) (f : Nat) (g : Fut → Fut) : (k.updFut f g).acct = k.acct := by simp [K.acct, K.updFut]
@[simp] theorem acct_newFut (k : K) : (k.newFut).acct = k.acct := by simp [K.acct, K.newFut]
@[simp] theorem acct_push (k : K) (f : Frame) : (k.push f).acct = k.acct := by simp [K.acct, K.push]
@[simp] theorem acct_pop (k : K) : (k.pop).acct = k.acct := by simp [K.acct, K.pop]

@[simp] theorem acct_scheduleCb (k : K) (f : Nat) : (k.scheduleCb f).acct = k.acct := by
  unfold K.scheduleCb; split <;> simp

@[simp] theorem acct_futSetResult (k : K) (f : Nat) : (k.futSetResult f).acct = k.acct := by
  unfold K.futSetResult; split <;> simp

@[simp] theorem acct_futCancel (k : K) (f : Nat) (m : Msg) : (k.futCancel f m).1.acct = k.acct := by
  unfold K.futCancel; split <;> simp

theorem acct_updScope_same (k : K) (s : Nat) (g : Scope → Scope) (hg : ∀ x, (g x).calls = x.calls) :
    (k.updScope s g).acct = k.acct := by
  simp [K.acct, K.updScope, sumCalls_updAt_same _ _ _ hg]

/-! ### Task.cancel -/

theorem taskCancel_acct (k : K) (m : Msg) :
    (k.taskCancel m).acct = (k.numCancels + (if k.done.isSome then 0 else 1), k.extCount, sumCalls k.scopes, k.phantom) := by
  unfold K.taskCancel
  split
  · rename_i hd; simp [K.acct, hd]
  · rename_i hd
    have hd' : k.done.isSome = false := by simpa using hd
    split
    · split
      · rw [acct_futCancel]; simp [K.acct, hd']
      · simp [K.acct, hd']
    · simp [K.acct, hd']


/-! ### the scope table seen through `updAt` -/

def scopeOf (l : List Scope) (s : Nat) : Scope := (l[s]?).getD defaultScope

theorem scope_eq (k : K) (s : Nat) : k.scope s = scopeOf k.scopes s := rfl

@[simp] theorem updScope_scopes_eq (k : K) (s : Nat) (g : Scope → Scope) :
    (k.updScope s g).scopes = updAt k.scopes s g := rfl

theorem updAt_length {α} (l : List α) (i : Nat) (g : α → α) : (updAt l i g).length = l.length := by
  induction l generalizing i with
  | nil => simp [updAt]
  | cons x xs ih => cases i <;> simp [updAt, ih]

theorem scopeOf_updAt_ne (l : List Scope) (i j : Nat) (g : Scope → Scope) (h : j ≠ i) :
    scopeOf (updAt l i g) j = scopeOf l j := by
  induction l generalizing i j with
  | nil => simp [updAt]
  | cons x xs ih =>
    cases i with
    | zero =>
      cases j with
      | zero => exact absurd rfl h
      | succ j => simp [updAt, scopeOf]
    | succ i =>
      cases j with
      | zero => simp [updAt, scopeOf]
      | succ j =>
        have := ih i j (by omega)
        simpa [updAt, scopeOf] using this

theorem scopeOf_updAt_self (l : List Scope) (i : Nat) (g : Scope → Scope) (h : i < l.length) :
    scopeOf (updAt l i g) i = g (scopeOf l i) := by
  induction l generalizing i with
  | nil => simp at h
  | cons x xs ih =>
    cases i with
    | zero => simp [updAt, scopeOf]
    | succ i =>
      have := ih i (by simpa using h)
      simpa [updAt, scopeOf] using this

theorem updAt_invalid {α} (l : List α) (i : Nat) (g : α → α) (h : l.length ≤ i) : updAt l i g = l := by
  induction l generalizing i with
  | nil => simp [updAt]
  | cons x xs ih =>
    cases i with
    | zero => simp at h
    | succ i => simp [updAt, ih i (by simpa using h)]

/-- a projection that the update leaves alone is the same at every index -/
theorem scopeOf_updAt_proj {α} (P : Scope → α) (l : List Scope) (i j : Nat) (g : Scope → Scope)
    (hg : ∀ x, P (g x) = P x) : P (scopeOf (updAt l i g) j) = P (scopeOf l j) := by
  by_cases hij : j = i
  · subst hij
    by_cases hv : j < l.length
    · rw [scopeOf_updAt_self _ _ _ hv, hg]
    · rw [updAt_invalid _ _ _ (by omega)]
  · rw [scopeOf_updAt_ne _ _ _ _ hij]

theorem scopeOf_append_left (l r : List Scope) (j : Nat) (h : j < l.length) : scopeOf (l ++ r) j = scopeOf l j := by
  simp [scopeOf, List.getElem?_append_left h]

theorem scopeOf_invalid (l : List Scope) (j : Nat) (h : l.length ≤ j) : scopeOf l j = defaultScope := by
  simp [scopeOf, List.getElem?_eq_none h]

theorem scopeOf_active_valid (l : List Scope) (s : Nat) (h : (scopeOf l s).active = true) : s < l.length := by
  by_cases hv : s < l.length
  · exact hv
  · rw [scopeOf_invalid _ _ (by omega)] at h; simp [defaultScope] at h

end EasyNet.CS
