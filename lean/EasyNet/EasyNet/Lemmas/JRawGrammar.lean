/-
  A grammar of JSON texts as the encoder emits them (in fact a superset: any bytes may stand where JSON has numbers,
  literals, commas, colons and whitespace), and the fact that the scanner closes each such text exactly on its last byte.

    StrBody s      string content: any bytes except `"` and `\`, or a backslash followed by any one byte
                   (so `\\`, `\"`, and any run of backslashes before a quote, pair up)
    Bal s          container content, arbitrary nesting: filler bytes (anything but `"` `{` `}` `[` `]` `\`),
                   strings `"…"`, arrays `[…]`, objects `{…}`, in any order
    JText t        top-level text: string, array, object, or plain value (non-empty run of value bytes not starting
                   with `"` `{` `[` `}` `]`)
-/
import EasyNet.Lemmas.JRawFrames
namespace EasyNet
namespace JRaw
set_option linter.unusedSimpArgs false

inductive StrBody : Bytes → Prop where
  | nil : StrBody []
  | char (c : UInt8) (rest : Bytes) : c ≠ QUOTE → c ≠ BSLASH → StrBody rest → StrBody (c :: rest)
  | esc (c : UInt8) (rest : Bytes) : StrBody rest → StrBody (BSLASH :: c :: rest)

def isFiller (c : UInt8) : Bool :=
  !(c == QUOTE || c == LBRACE || c == RBRACE || c == LBRACK || c == RBRACK || c == BSLASH)

inductive Bal : Bytes → Prop where
  | nil : Bal []
  | filler (c : UInt8) (rest : Bytes) : isFiller c = true → Bal rest → Bal (c :: rest)
  | str (s rest : Bytes) : StrBody s → Bal rest → Bal (QUOTE :: s ++ QUOTE :: rest)
  | arr (inner rest : Bytes) : Bal inner → Bal rest → Bal (LBRACK :: inner ++ RBRACK :: rest)
  | obj (inner rest : Bytes) : Bal inner → Bal rest → Bal (LBRACE :: inner ++ RBRACE :: rest)

def plainHead : Bytes → Bool
  | [] => false
  | c :: _ => !(c == QUOTE || c == LBRACE || c == LBRACK || c == RBRACE || c == RBRACK)

inductive JText : Bytes → Prop where
  | str (s : Bytes) : StrBody s → JText (QUOTE :: s ++ [QUOTE])
  | arr (inner : Bytes) : Bal inner → JText (LBRACK :: inner ++ [RBRACK])
  | obj (inner : Bytes) : Bal inner → JText (LBRACE :: inner ++ [RBRACE])
  | plain (v : Bytes) : v.all isValueByte = true → plainHead v = true → JText v

/-- scanning string content inside a string leaves the scanner where it was -/
theorem strBody_scan {s : Bytes} (hs : StrBody s) : ∀ (k : UInt8) (nc ns : Int) (off : Nat) (rest : Bytes),
    sscan (.encl k true nc ns false) off (s ++ rest) = sscan (.encl k true nc ns false) (off + s.length) rest := by
  induction hs with
  | nil => intro k nc ns off rest; simp
  | char c r h1 h2 _ ih =>
    intro k nc ns off rest
    have e1 : (c == QUOTE) = false := by simpa using h1
    have e2 : (c == BSLASH) = false := by simpa using h2
    simp only [List.cons_append, sscan, step, e1, e2, Bool.false_and, Bool.false_eq_true, if_false, if_true]
    rw [ih k nc ns (off + 1) rest]
    simp only [List.length_cons]
    congr 1; omega
  | esc c r _ ih =>
    intro k nc ns off rest
    have e0 : (BSLASH == QUOTE) = false := by decide
    simp only [List.cons_append, sscan, step, e0, Bool.false_and, Bool.false_eq_true, if_false, if_true,
      beq_self_eq_true, Bool.not_false, Bool.and_self, Bool.not_true, Bool.and_false]
    rw [ih k nc ns (off + 1 + 1) rest]
    simp only [List.length_cons]
    congr 1; omega

theorem post_cont (k : UInt8) (inStr : Bool) (nc ns : Int) (h : 1 ≤ cntOf k inStr nc ns) :
    post k inStr nc ns = .cont (.encl k inStr nc ns false) := by
  unfold post
  have : ¬ (cntOf k inStr nc ns ≤ 0) := by omega
  simp [this]

theorem cntOf_container (k : UInt8) (hk : k = LBRACE ∨ k = LBRACK) (b : Bool) (nc ns : Int) :
    cntOf k b nc ns = if k = LBRACE then nc else ns := by
  rcases hk with h | h <;> subst h <;> simp [cntOf, QUOTE, LBRACE, LBRACK]

/-- scanning balanced container content leaves the scanner where it was, and never closes the enclosing container -/
theorem bal_scan {s : Bytes} (hs : Bal s) : ∀ (k : UInt8) (nc ns : Int) (off : Nat) (rest : Bytes),
    (k = LBRACE ∨ k = LBRACK) → 1 ≤ cntOf k false nc ns →
    sscan (.encl k false nc ns false) off (s ++ rest) = sscan (.encl k false nc ns false) (off + s.length) rest := by
  induction hs with
  | nil => intro k nc ns off rest _ _; simp
  | filler c r hc _ ih =>
    intro k nc ns off rest hk hpos
    simp only [isFiller, Bool.not_eq_true', Bool.or_eq_false_iff] at hc
    obtain ⟨⟨⟨⟨⟨e1, e2⟩, e3⟩, e4⟩, e5⟩, e6⟩ := hc
    simp only [List.cons_append, sscan, step, e1, e2, e3, e4, e5, e6, Bool.false_and, Bool.false_eq_true, if_false]
    rw [ih k nc ns (off + 1) rest hk hpos]
    simp only [List.length_cons]
    congr 1; omega
  | str b r hb _ ih =>
    intro k nc ns off rest hk hpos
    have hc := cntOf_container k hk
    have hp1 : post k true nc ns = .cont (.encl k true nc ns false) := post_cont _ _ _ _ (by rw [hc] at hpos ⊢; exact hpos)
    have hp2 : post k false nc ns = .cont (.encl k false nc ns false) := post_cont _ _ _ _ hpos
    have happ : QUOTE :: b ++ QUOTE :: r ++ rest = QUOTE :: (b ++ (QUOTE :: (r ++ rest))) := by simp
    rw [happ]
    simp only [sscan, step, beq_self_eq_true, Bool.not_false, Bool.and_self, if_true, hp1]
    rw [strBody_scan hb]
    simp only [sscan, step, beq_self_eq_true, Bool.not_false, Bool.and_self, if_true, Bool.not_true, hp2]
    rw [ih k nc ns _ rest hk hpos]
    simp only [List.length_cons, List.length_append]
    congr 1; omega
  | arr inner r _ _ ih1 ih2 =>
    intro k nc ns off rest hk hpos
    have hc := cntOf_container k hk
    have e0 : (LBRACK == QUOTE) = false := by decide
    have e1 : (LBRACK == LBRACE) = false := by decide
    have f0 : (RBRACK == QUOTE) = false := by decide
    have f1 : (RBRACK == LBRACE) = false := by decide
    have f2 : (RBRACK == LBRACK) = false := by decide
    have f3 : (RBRACK == RBRACE) = false := by decide
    have hpos' : 1 ≤ cntOf k false nc (ns + 1) := by
      rw [hc] at hpos ⊢; split <;> simp_all <;> omega
    have hp1 : post k false nc (ns + 1) = .cont (.encl k false nc (ns + 1) false) := post_cont _ _ _ _ hpos'
    have hp2 : post k false nc (ns + 1 - 1) = .cont (.encl k false nc ns false) := by
      have : ns + 1 - 1 = ns := by omega
      rw [this]; exact post_cont _ _ _ _ hpos
    have happ : LBRACK :: inner ++ RBRACK :: r ++ rest = LBRACK :: (inner ++ (RBRACK :: (r ++ rest))) := by simp
    rw [happ]
    simp only [sscan, step, e0, e1, Bool.false_and, Bool.false_eq_true, if_false, beq_self_eq_true, if_true, hp1]
    rw [ih1 k nc (ns + 1) _ _ hk hpos']
    simp only [sscan, step, f0, f1, f2, f3, Bool.false_and, Bool.false_eq_true, if_false, beq_self_eq_true, if_true, hp2]
    rw [ih2 k nc ns _ rest hk hpos]
    simp only [List.length_cons, List.length_append]
    congr 1; omega
  | obj inner r _ _ ih1 ih2 =>
    intro k nc ns off rest hk hpos
    have hc := cntOf_container k hk
    have e0 : (LBRACE == QUOTE) = false := by decide
    have f0 : (RBRACE == QUOTE) = false := by decide
    have f1 : (RBRACE == LBRACE) = false := by decide
    have f2 : (RBRACE == LBRACK) = false := by decide
    have hpos' : 1 ≤ cntOf k false (nc + 1) ns := by
      rw [hc] at hpos ⊢; split <;> simp_all <;> omega
    have hp1 : post k false (nc + 1) ns = .cont (.encl k false (nc + 1) ns false) := post_cont _ _ _ _ hpos'
    have hp2 : post k false (nc + 1 - 1) ns = .cont (.encl k false nc ns false) := by
      have : nc + 1 - 1 = nc := by omega
      rw [this]; exact post_cont _ _ _ _ hpos
    have happ : LBRACE :: inner ++ RBRACE :: r ++ rest = LBRACE :: (inner ++ (RBRACE :: (r ++ rest))) := by simp
    rw [happ]
    simp only [sscan, step, e0, Bool.false_and, Bool.false_eq_true, if_false, beq_self_eq_true, if_true, hp1]
    rw [ih1 k (nc + 1) ns _ _ hk hpos']
    simp only [sscan, step, f0, f1, f2, Bool.false_and, Bool.false_eq_true, if_false, beq_self_eq_true, if_true, hp2]
    rw [ih2 k nc ns _ rest hk hpos]
    simp only [List.length_cons, List.length_append]
    congr 1; omega

theorem value_not_ws (c : UInt8) (h : isValueByte c = true) : isWs c = false := by
  cases hw : isWs c with
  | false => rfl
  | true => rw [isWs_not_value c hw] at h; cases h

/-- **the scanner closes every text of the grammar exactly on its last byte** (string / array / object), resp. recognises a
    plain value at its first byte; so what the producer emits for it is a well-delimited document -/
theorem jtext_doc (limit : Nat) {t : Bytes} (ht : JText t) (hlen : t.length ≤ limit) :
    ∃ d : Doc, d.ok limit ∧ d.bytes = produce t := by
  cases ht with
  | str s hs =>
    refine ⟨.encl (QUOTE :: s ++ [QUOTE]), ⟨?_, hlen, by simp [goodRest, isWs, QUOTE, LBRACK, LBRACE]⟩, by simp [Doc.bytes, produce]⟩
    have happ : QUOTE :: s ++ [QUOTE] = QUOTE :: (s ++ [QUOTE]) := by simp
    rw [happ]
    simp only [sscan, step, beq_self_eq_true, if_true]
    rw [strBody_scan hs]
    simp only [sscan, step, beq_self_eq_true, Bool.not_false, Bool.and_self, if_true, Bool.not_true, post, cntOf]
    simp only [Bool.false_eq_true, if_false, Int.le_refl, if_true, List.length_cons, List.length_append, List.length_nil]
    congr 1; omega
  | arr inner hb =>
    refine ⟨.encl (LBRACK :: inner ++ [RBRACK]), ⟨?_, hlen, by simp [goodRest, isWs, QUOTE, LBRACK, LBRACE]⟩, by simp [Doc.bytes, produce]⟩
    have happ : LBRACK :: inner ++ [RBRACK] = LBRACK :: (inner ++ [RBRACK]) := by simp
    have e0 : (LBRACK == QUOTE) = false := by decide
    have e1 : (LBRACK == LBRACE) = false := by decide
    have f0 : (RBRACK == QUOTE) = false := by decide
    have f1 : (RBRACK == LBRACE) = false := by decide
    have f2 : (RBRACK == LBRACK) = false := by decide
    have f3 : (RBRACK == RBRACE) = false := by decide
    rw [happ]
    simp only [sscan, step, e0, e1, Bool.false_eq_true, if_false, beq_self_eq_true, if_true]
    rw [bal_scan hb LBRACK 0 1 _ _ (Or.inr rfl) (by simp [cntOf, QUOTE, LBRACE, LBRACK])]
    simp only [sscan, step, f0, f1, f2, f3, Bool.false_and, Bool.false_eq_true, if_false, beq_self_eq_true, if_true, post, cntOf,
      e0, e1]
    simp only [Int.sub_self, Int.le_refl, if_true, List.length_cons, List.length_append, List.length_nil]
    congr 1; omega
  | obj inner hb =>
    refine ⟨.encl (LBRACE :: inner ++ [RBRACE]), ⟨?_, hlen, by simp [goodRest, isWs, QUOTE, LBRACK, LBRACE]⟩, by simp [Doc.bytes, produce]⟩
    have happ : LBRACE :: inner ++ [RBRACE] = LBRACE :: (inner ++ [RBRACE]) := by simp
    have e0 : (LBRACE == QUOTE) = false := by decide
    have f0 : (RBRACE == QUOTE) = false := by decide
    have f1 : (RBRACE == LBRACE) = false := by decide
    have f2 : (RBRACE == LBRACK) = false := by decide
    rw [happ]
    simp only [sscan, step, e0, Bool.false_eq_true, if_false, beq_self_eq_true, if_true]
    rw [bal_scan hb LBRACE 1 0 _ _ (Or.inl rfl) (by simp [cntOf, QUOTE, LBRACE])]
    simp only [sscan, step, f0, f1, f2, Bool.false_and, Bool.false_eq_true, if_false, beq_self_eq_true, if_true, post, cntOf, e0]
    simp only [Int.sub_self, Int.le_refl, if_true, List.length_cons, List.length_append, List.length_nil]
    congr 1; omega
  | plain _ hv hh =>
    cases t with
    | nil => simp [plainHead] at hh
    | cons c cs =>
      simp only [plainHead, Bool.not_eq_true', Bool.or_eq_false_iff] at hh
      obtain ⟨⟨⟨⟨e1, e2⟩, e3⟩, e4⟩, e5⟩ := hh
      have hvc : isValueByte c = true := by simp only [List.all_cons, Bool.and_eq_true] at hv; exact hv.1
      have hws := value_not_ws c hvc
      refine ⟨.plain (c :: cs) 10, ⟨by simp, hv, by decide, ?_, hlen⟩, ?_⟩
      · simp only [sscan, step, e1, e2, e3, e4, e5, hws, Bool.false_eq_true, if_false]
      · simp only [Doc.bytes, produce, e1, e2, e3, Bool.or_self, Bool.false_eq_true, if_false]

end JRaw
end EasyNet
