/-
  C17 lemmas on the datagram-server model of C16 (Model/DgramSrv.lean): what the end of a request handler generator
  (`ge`: it returned, or raised and the exception was swallowed above / propagated through `__client_coroutine`'s
  `finally:`) does to the per-client state, and that the next datagram starts a fresh generator.
-/
import EasyNet.Lemmas.DgramSrv
import EasyNet.Lemmas.Iso
set_option linter.unusedSimpArgs false
namespace EasyNet.DgramSrv

/-- the generator of this address is running user code (between two yields, or before its first yield) -/
def Client.inHandler {α} (c : Client α) : Prop := c.r = .handling ∨ ∃ d, c.r = .first d

theorem ge_resets {α} (c : Client α) (I : Inv c) (hrun : c.inHandler) :
    ∃ c', step c .ge = some c' ∧ c'.bad = false ∧ c'.active = 0 ∧ c'.inflight = c.inflight ∧ c'.queue = c.queue ∧
      (c.queue = [] → c'.state = .idle ∧ c'.r = .none) ∧
      (c.queue ≠ [] → c'.state = .pending ∧ c'.r = .scheduled) := by
  obtain ⟨_, good, coh⟩ := I
  unfold Coherent at coh
  cases hrun with
  | inl h =>
    rw [h] at coh
    refine ⟨taskDone c, by simp [step, h], ?_⟩
    cases hq : c.queue with
    | nil => simp [taskDone, markDone, hq, good, coh.1, coh.2]
    | cons d q => simp [taskDone, markDone, markPending, hq, good, coh.1, coh.2]
  | inr h =>
    obtain ⟨d, h⟩ := h
    rw [h] at coh
    refine ⟨taskDone { c with consumed := c.consumed ++ [d] }, by simp [step, h], ?_⟩
    cases hq : c.queue with
    | nil => simp [taskDone, markDone, hq, good, coh.1, coh.2]
    | cons d q => simp [taskDone, markDone, markPending, hq, good, coh.1, coh.2]

/-- from the reset state, the next datagram of that address starts a fresh generator which holds it -/
theorem fresh_after_reset {α} (c : Client α) (hb : c.bad = false) (ha : c.active = 0) (hs : c.state = .idle)
    (hq : c.queue = []) (hi : c.inflight = []) (d : α) :
    ∃ c', run c [.arrive d, .h] = some c' ∧ c'.r = .first d ∧ c'.state = .running ∧ c'.active = 1 ∧ c'.bad = false := by
  cases hrun : run c [.arrive d, .h] with
  | none => simp [run, step, hi, hs, hq, startInline, coroutineStart, markPending, markRunning] at hrun
  | some c' =>
    simp [run, step, hi, hs, hq, startInline, coroutineStart, markPending, markRunning] at hrun
    subst hrun
    exact ⟨_, rfl, by simp [hb, ha]⟩

/-- with datagrams already queued, the client coroutine re-spawned by the task-done hook starts a fresh generator -/
theorem fresh_after_respawn {α} (c : Client α) (hb : c.bad = false) (ha : c.active = 0) (hs : c.state = .pending)
    (hr : c.r = .scheduled) (hq : c.queue ≠ []) :
    ∃ c' d, step c .rs = some c' ∧ c'.r = .first d ∧ c'.state = .running ∧ c'.active = 1 ∧ c'.bad = false := by
  cases hqq : c.queue with
  | nil => exact absurd hqq hq
  | cons d q =>
    refine ⟨coroutineStart c, d, by simp [step, hr], ?_⟩
    simp [coroutineStart, markRunning, hqq, hb, ha, hs]

end EasyNet.DgramSrv
