/-
  C08: a CLOSED system of two endpoints of the wrapper machine joined by two BOUNDED pipes — the environment of the
  full-duplex deadlock (docs/C08-duplex-deadlock-repro.py; harness: vlib/c08_duplex.py).

  Nothing here is Python code of EasyNetwork: it is the wrapped transport the harness uses (a pipe of `cap` bytes per
  direction; `send_all` copies what fits and suspends while the pipe is full; `recv_into` hands out at most `frag` of the
  bytes that are there and suspends while there are none), written down so that "every task waits and nothing can wake
  them" becomes a decidable statement about a reachable state.  Used by the examples and the negative theorems of
  Props/C08.lean only.
-/
import EasyNet.Model.Tls08
namespace EasyNet.C08
open EasyNet

inductive Side where
  | a | b
  deriving DecidableEq, Repr

/-- one direction: the bytes in the pipe, and what the `transport.send_all` in flight on the sending side still has to copy -/
structure Wire where
  buf : Bytes := []
  rest : Bytes := []
  busy : Bool := false       -- a `send_all` is in flight (it returns once `rest = []`)
  deriving DecidableEq, Repr

structure Pair (σ : Type) where
  a : St σ
  b : St σ
  ab : Wire := {}            -- a → b
  ba : Wire := {}            -- b → a
  cap : Nat                  -- capacity of each pipe
  frag : Nat                 -- largest piece one `recv_into` hands out (≥ 1)

inductive PEv where
  | call (sd : Side) (t : Tid) (api : Api)    -- the application calls an API function in task `t` (idle) of side `sd`
  | grant (sd : Side) (t : Tid)               -- the woken head of a lock queue runs
  | copy (sd : Side)                          -- the `send_all` in flight on side `sd` copies what fits into its pipe
  | sent (sd : Side) (t : Tid)                -- … and returns (everything copied)
  | recv (sd : Side) (t : Tid)                -- `transport.recv_into` of task `t` on side `sd` returns what is there (≤ frag)
  deriving DecidableEq, Repr

def Pair.get {σ : Type} (p : Pair σ) : Side → St σ
  | .a => p.a
  | .b => p.b

def Pair.outWire {σ : Type} (p : Pair σ) : Side → Wire
  | .a => p.ab
  | .b => p.ba

def Pair.inWire {σ : Type} (p : Pair σ) : Side → Wire
  | .a => p.ba
  | .b => p.ab

def Pair.put {σ : Type} (p : Pair σ) (sd : Side) (s : St σ) (out inp : Wire) : Pair σ :=
  match sd with
  | .a => { p with a := s, ab := out, ba := inp }
  | .b => { p with b := s, ba := out, ab := inp }

/-- the step of an endpoint logged a new `xmit`: that payload is now in flight -/
def launch {σ : Type} (s s' : St σ) (w : Wire) : Wire :=
  if s.xmits.length < s'.xmits.length then { w with rest := untag (s'.xmits.getLast?.getD []), busy := true } else w

def isLockWait : PC → Bool
  | .wrLock _ | .wwLock _ | .okLock _ | .rdLock _ => true
  | _ => false

def isSending : PC → Bool
  | .wrSend _ | .wwSend _ | .okSend _ => true
  | _ => false

def isReceiving : PC → Bool
  | .rdInto _ => true
  | _ => false

/-- an endpoint step on side `sd`, with the wires updated -/
def Pair.endpoint {σ : Type} (E : Engine σ) (p : Pair σ) (sd : Side) (e : Ev) (out inp : Wire) : Option (Pair σ) :=
  (step E (p.get sd) e).map (fun s' => p.put sd s' (launch (p.get sd) s' out) inp)

def pstep {σ : Type} (E : Engine σ) (p : Pair σ) : PEv → Option (Pair σ)
  | .call sd t api => p.endpoint E sd (.call t api) (p.outWire sd) (p.inWire sd)
  | .grant sd t =>
    if isLockWait ((p.get sd).pc t) then p.endpoint E sd (.resume t .ok) (p.outWire sd) (p.inWire sd) else none
  | .copy sd =>
    if (p.outWire sd).busy = true ∧ 0 < min (p.cap - (p.outWire sd).buf.length) (p.outWire sd).rest.length then
      some (p.put sd (p.get sd)
        { (p.outWire sd) with
            buf := (p.outWire sd).buf ++ (p.outWire sd).rest.take (min (p.cap - (p.outWire sd).buf.length) (p.outWire sd).rest.length),
            rest := (p.outWire sd).rest.drop (min (p.cap - (p.outWire sd).buf.length) (p.outWire sd).rest.length) }
        (p.inWire sd))
    else none
  | .sent sd t =>
    if isSending ((p.get sd).pc t) = true ∧ (p.outWire sd).busy = true ∧ (p.outWire sd).rest = [] then
      p.endpoint E sd (.resume t .ok) { (p.outWire sd) with busy := false } (p.inWire sd)
    else none
  | .recv sd t =>
    if isReceiving ((p.get sd).pc t) = true ∧ (p.inWire sd).buf ≠ [] then
      p.endpoint E sd (.resume t (.data ((p.inWire sd).buf.take p.frag))) (p.outWire sd)
        { (p.inWire sd) with buf := (p.inWire sd).buf.drop p.frag }
    else none

def prun {σ : Type} (E : Engine σ) : Pair σ → List PEv → Option (Pair σ)
  | p, [] => some p
  | p, e :: es => match pstep E p e with
    | some p' => prun E p' es
    | none => none

/-- every event of the environment and of the locks (everything but a new API call) for the tasks `ts` of both sides -/
def envEvents (ts : List Tid) : List PEv :=
  [.copy .a, .copy .b] ++ ts.flatMap (fun t => [.grant .a t, .sent .a t, .recv .a t, .grant .b t, .sent .b t, .recv .b t])

/-- **deadlock**: none of the tasks `ts` is idle on either side (each is inside an API call), and no lock hand-over, no
    copy into a pipe, no completion of a `send_all` or `recv_into` is possible -/
def Pair.deadlocked {σ : Type} (E : Engine σ) (p : Pair σ) (ts : List Tid) : Bool :=
  ts.all (fun t => p.a.pc t != .idle && p.b.pc t != .idle) && (envEvents ts).all (fun e => (pstep E p e).isNone)

/-- two fresh endpoints with the given version of the WANT_READ branch -/
def Pair.init {σ : Type} (e : σ) (pol : WrPolicy) (cap frag : Nat) : Pair σ :=
  { a := { (St.init e true) with wrPolicy := pol }, b := { (St.init e true) with wrPolicy := pol }, cap := cap, frag := frag }

/-- events of tasks that are idle are not enabled: a deadlock over the tasks in use is a deadlock of the whole system -/
theorem pstep_idle {σ : Type} (E : Engine σ) (p : Pair σ) (sd : Side) (t : Tid) (h : (p.get sd).pc t = .idle) :
    pstep E p (.grant sd t) = none ∧ pstep E p (.sent sd t) = none ∧ pstep E p (.recv sd t) = none := by
  simp [pstep, h, isLockWait, isSending, isReceiving]

end EasyNet.C08
