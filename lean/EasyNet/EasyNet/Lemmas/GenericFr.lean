/-
  Generic (file-based / compressor) framers: loader laws, byte-level specs, refinement of the copy path,
  `SpecLaws` of the limit-free spec, decoding of a stream made of frames.

    Stable load        the laws assumed of the file loader / decompressor (validated by the harness on every case)
    specU load         byte-level spec without size check  (compressor framer; file-based framer inside the limit)
    spec load limit    byte-level spec of the file-based framer: the size check is on EVERYTHING accumulated
    feed_refines       `_wrap_generic_incremental_deserialize ∘ __generic_incremental_deserialize` refines `spec`
    cfeed_refines      the compressor framer refines `specU (loadOf dec)`
    specU_laws         `SpecLaws (specU load)`  — so the generic consumer theorems (chunking independence, …) apply
    NOTE `spec load limit` does NOT satisfy `SpecLaws.done_append`: a complete frame followed by enough further bytes
    is rejected (C07 table, witness in Props/C07).  What holds instead: inside the safe zone it coincides with `specU`.
-/
import EasyNet.Model.GenericFr
import EasyNet.Lemmas.ConsumerSim
import EasyNet.Lemmas.ChunkIndep
namespace EasyNet.GenericFr
open EasyNet

/-- **Loader laws.**  What has been decided on some bytes is decided the same way when more bytes follow
    (`*_ext`), is decided on bytes that were available (`*_le`), and was not decidable earlier (`*_pre`: the loader does
    not need bytes beyond the ones it consumes — a packet is complete when its last byte is there). -/
structure Stable (load : Bytes → LoadRes) : Prop where
  ok_ext : ∀ b x k, load b = .ok k → load (b ++ x) = .ok k
  bad_ext : ∀ b x k, load b = .bad k → load (b ++ x) = .bad k
  ok_le : ∀ b k, load b = .ok k → k ≤ b.length
  bad_le : ∀ b k, load b = .bad k → k ≤ b.length
  ok_pre : ∀ b x k, load (b ++ x) = .ok k → k ≤ b.length → load b = .ok k
  bad_pre : ∀ b x k, load (b ++ x) = .bad k → k ≤ b.length → load b = .bad k

/-- every packet / expected error consumes at least one byte -/
def Progress (load : Bytes → LoadRes) : Prop :=
  (∀ b k, load b = .ok k → 0 < k) ∧ (∀ b k, load b = .bad k → 0 < k)

/-- byte-level spec without size check -/
def specU (load : Bytes → LoadRes) (b : Bytes) : SRes :=
  match load b with
  | .eof => .need
  | .ok k => .done (okTag :: b.take k) (b.drop k)
  | .bad k => .done (badTag :: b.take k) (b.drop k)

/-- byte-level spec of the file-based framer -/
def spec (load : Bytes → LoadRes) (limit : Nat) (b : Bytes) : SRes :=
  if b.length > limit then .fail [] else specU load b

theorem limitRemainder_all (b : Bytes) : limitRemainder b b.length [] = [] := by
  simp [limitRemainder]

/-! ### refinement, copy path -/

def Inv (s : State) (b : Bytes) : Prop := s.buf = b ∧ (s.started = false → b = [])

theorem appended_inv (s : State) (b c : Bytes) (h : Inv s b) : appended s c = b ++ c := by
  unfold appended
  rcases h with ⟨hb, hs⟩
  cases hst : s.started with
  | true => simp [hb]
  | false => simp [hs hst]

theorem attempt_erase (load : Bytes → LoadRes) (limit : Nat) (b : Bytes) :
    (attempt load limit b).toRes.erase = spec load limit b ∧
    ∀ s', (attempt load limit b).toRes = .need s' → s' = ⟨true, b⟩ ∧ load b = .eof := by
  unfold attempt checkLimit spec specU
  by_cases hl : b.length > limit
  · simp only [hl, if_true, GRes.toRes, Res.erase, limitRemainder_all, true_and]
    intro s' h; cases h
  · simp only [hl, if_false]
    cases hload : load b with
    | eof =>
      simp only [GRes.toRes, Res.erase, true_and]
      intro s' h; injection h with h; exact ⟨h.symm, trivial⟩
    | ok k =>
      simp only [GRes.toRes, Res.erase, true_and]
      intro s' h; cases h
    | bad k =>
      simp only [GRes.toRes, Res.erase, true_and]
      intro s' h; cases h

theorem feed_refines (load : Bytes → LoadRes) (limit : Nat) :
    Refines init (feed load limit) (spec load limit) Inv := by
  constructor
  · exact ⟨rfl, fun _ => rfl⟩
  · intro s b c h
    unfold feed gfeed
    rw [appended_inv s b c h]
    have := attempt_erase load limit (b ++ c)
    refine ⟨this.1, ?_⟩
    intro s' hs'
    have h2 := (this.2 s' hs').1
    subst h2
    exact ⟨rfl, fun hc => by cases hc⟩

/-! ### refinement, compressor -/

def CInv (s : CState) (b : Bytes) : Prop := s.fed = b

theorem cfeed_refines (dec : Bytes → DecRes) :
    Refines cinit (cfeed dec) (specU (loadOf dec)) CInv := by
  constructor
  · rfl
  · intro s b c h
    unfold CInv at h; subst h
    unfold cfeed cgfeed specU loadOf
    cases hd : dec (s.fed ++ c) with
    | more =>
      simp only [GRes.toRes, Res.erase, true_and]
      intro s' hs'; injection hs' with hs'; subst hs'; rfl
    | corrupt =>
      simp only [GRes.toRes, Res.erase, List.take_length, List.drop_length, true_and]
      intro s' hs'; cases hs'
    | fin k ok =>
      cases ok with
      | true =>
        simp only [GRes.toRes, Res.erase, true_and]
        intro s' hs'; cases hs'
      | false =>
        simp only [GRes.toRes, Res.erase, true_and]
        intro s' hs'; cases hs'

/-! ### laws of the limit-free spec -/

theorem specU_laws (load : Bytes → LoadRes) (S : Stable load) (P : Progress load) : SpecLaws (specU load) := by
  constructor
  · intro b d r h
    unfold specU at h
    cases hl : load b with
    | eof => rw [hl] at h; cases h
    | ok k =>
      rw [hl] at h; injection h with _ hr; subst hr
      have := S.ok_le b k hl; have := P.1 b k hl
      simp only [List.length_drop]; omega
    | bad k =>
      rw [hl] at h; injection h with _ hr; subst hr
      have := S.bad_le b k hl; have := P.2 b k hl
      simp only [List.length_drop]; omega
  · intro b r h
    unfold specU at h
    cases hl : load b <;> rw [hl] at h <;> cases h
  · intro b x d r h
    unfold specU at h ⊢
    cases hl : load b with
    | eof => rw [hl] at h; cases h
    | ok k =>
      rw [hl] at h; injection h with hd hr; subst hd; subst hr
      have hk := S.ok_le b k hl
      rw [S.ok_ext b x k hl]
      simp only [List.take_append_of_le_length hk, List.drop_append_of_le_length hk]
    | bad k =>
      rw [hl] at h; injection h with hd hr; subst hd; subst hr
      have hk := S.bad_le b k hl
      rw [S.bad_ext b x k hl]
      simp only [List.take_append_of_le_length hk, List.drop_append_of_le_length hk]
  · intro b x h
    unfold specU at h ⊢
    cases hl : load b with
    | eof => rfl
    | ok k => rw [S.ok_ext b x k hl] at h; cases h
    | bad k => rw [S.bad_ext b x k hl] at h; cases h
  · intro b x d r _ _ r' hb
    unfold specU at hb
    cases hl : load b <;> rw [hl] at hb <;> cases hb

/-- inside the limit the two specs coincide -/
theorem spec_eq_specU (load : Bytes → LoadRes) (limit : Nat) (b : Bytes) (h : b.length ≤ limit) :
    spec load limit b = specU load b := by
  unfold spec
  have : ¬ b.length > limit := by omega
  simp [this]

theorem specU_rest_le (load : Bytes → LoadRes) (b d r : Bytes) (h : specU load b = .done d r) :
    r.length ≤ b.length := by
  unfold specU at h
  cases hl : load b with
  | eof => rw [hl] at h; cases h
  | ok k => rw [hl] at h; injection h with _ hr; subst hr; simp
  | bad k => rw [hl] at h; injection h with _ hr; subst hr; simp

theorem refDrain_spec_eq (load : Bytes → LoadRes) (limit : Nat) (fuel : Nat) (b : Bytes) (h : b.length ≤ limit) :
    refDrain (spec load limit) fuel b = refDrain (specU load) fuel b := by
  induction fuel generalizing b with
  | zero => rfl
  | succ fuel ih =>
    unfold refDrain
    rw [spec_eq_specU load limit b h]
    by_cases hb : b.isEmpty
    · simp [hb]
    · simp only [hb, Bool.false_eq_true, if_false]
      cases hs : specU load b with
      | need => rfl
      | done d r =>
        have := specU_rest_le load b d r hs
        simp only
        rw [ih r (by omega)]
      | fail r =>
        unfold specU at hs
        cases hl : load b <;> rw [hl] at hs <;> cases hs

theorem refRecv_spec_eq (load : Bytes → LoadRes) (limit : Nat) (h c : Bytes) (hle : (h ++ c).length ≤ limit) :
    refRecv (spec load limit) h c = refRecv (specU load) h c := by
  unfold refRecv
  rw [spec_eq_specU load limit (h ++ c) hle]
  by_cases hb : (h ++ c).isEmpty
  · simp [hb]
  · simp only [hb, Bool.false_eq_true, if_false]
    cases hs : specU load (h ++ c) with
    | need => rfl
    | done d r =>
      have := specU_rest_le load (h ++ c) d r hs
      simp only
      rw [refDrain_spec_eq load limit _ r (by omega)]
    | fail r =>
      unfold specU at hs
      cases hl : load (h ++ c) <;> rw [hl] at hs <;> cases hs

/-! ### streams made of frames -/

/-- `f` is a frame of the loader: decided (packet or expected error) exactly when all of it is there -/
structure IsFrame (load : Bytes → LoadRes) (f : Bytes) : Prop where
  pos : 0 < f.length
  whole : load f = .ok f.length ∨ load f = .bad f.length
  prefix_eof : ∀ n, n < f.length → load (f.take n) = .eof

/-- decidable form of `IsFrame` (for concrete instances) -/
def IsFrameD (load : Bytes → LoadRes) (f : Bytes) : Prop :=
  0 < f.length ∧ (load f = .ok f.length ∨ load f = .bad f.length) ∧
  (List.range f.length).all (fun n => decide (load (f.take n) = .eof)) = true

theorem isFrame_of_D (load : Bytes → LoadRes) (f : Bytes) (h : IsFrameD load f) : IsFrame load f := by
  obtain ⟨h1, h2, h3⟩ := h
  refine ⟨h1, h2, ?_⟩
  intro n hn
  have := List.all_eq_true.mp h3 n (List.mem_range.mpr hn)
  simpa using this

/-- the item delivered for a frame: a packet (`okTag`) or exactly one parse error (`badTag`) -/
def frameItem (load : Bytes → LoadRes) (f : Bytes) : Item :=
  .frame ((if load f = .ok f.length then okTag else badTag) :: f)

theorem specU_frame (load : Bytes → LoadRes) (S : Stable load) (f rest : Bytes) (hf : IsFrame load f) :
    specU load (f ++ rest) = .done ((if load f = .ok f.length then okTag else badTag) :: f) rest := by
  unfold specU
  rcases hf.whole with h | h
  · rw [S.ok_ext f rest _ h]
    simp [h]
  · rw [S.bad_ext f rest _ h]
    have : load f ≠ .ok f.length := by rw [h]; intro hc; cases hc
    simp [this]

/-- what is retained in front of the frames `fs` still to come: nothing, or a proper prefix of the first of them -/
def Held (h : Bytes) (fs : List Bytes) : Prop :=
  h = [] ∨ ∃ f fs', fs = f :: fs' ∧ h.length < f.length

theorem flatten_nil_of_pos (fs : List Bytes) (hpos : ∀ f ∈ fs, 0 < f.length) (h : fs.flatten = []) : fs = [] := by
  cases fs with
  | nil => rfl
  | cons f fs =>
    have := hpos f (by simp)
    simp only [List.flatten_cons, List.append_eq_nil_iff] at h
    rw [h.1] at this; simp at this

/-- decoding any prefix `p` of a stream of frames: the frames wholly inside `p` are delivered, what remains is a proper
    prefix of the next frame -/
theorem decode_prefix (load : Bytes → LoadRes) (S : Stable load) (P : Progress load) (fs : List Bytes)
    (hfs : ∀ f ∈ fs, IsFrame load f) (p q : Bytes) (hpq : p ++ q = fs.flatten) :
    ∃ fs1 fs2 h', fs = fs1 ++ fs2 ∧ p = fs1.flatten ++ h' ∧ Held h' fs2 ∧
      decodeW (specU load) p = (h', fs1.map (frameItem load)) := by
  have L := specU_laws load S P
  induction fs generalizing p with
  | nil =>
    simp only [List.flatten_nil, List.append_eq_nil_iff] at hpq
    refine ⟨[], [], [], rfl, by simp [hpq.1], Or.inl rfl, ?_⟩
    rw [hpq.1, decodeW_unfold L]; simp
  | cons f fs ih =>
    have hf := hfs f (by simp)
    simp only [List.flatten_cons] at hpq
    by_cases hlt : p.length < f.length
    · -- `p` ends inside the first frame
      refine ⟨[], f :: fs, p, rfl, by simp, ?_, ?_⟩
      · by_cases hp : p = []
        · exact Or.inl hp
        · exact Or.inr ⟨f, fs, rfl, hlt⟩
      · rw [decodeW_unfold L]
        by_cases hp : p.isEmpty
        · have : p = [] := by simpa using hp
          simp [this]
        · have hpre : p = f.take p.length := by
            have h1 : (p ++ q).take p.length = p := by simp
            rw [hpq, List.take_append_of_le_length (by omega)] at h1
            exact h1.symm
          have hneed : specU load p = .need := by
            unfold specU
            rw [hpre, hf.prefix_eof p.length hlt]
          simp [hp, hneed]
    · -- the first frame is wholly inside `p`
      have hle : f.length ≤ p.length := by omega
      have hpf : p.take f.length = f := by
        have h1 : (p ++ q).take f.length = p.take f.length := List.take_append_of_le_length hle
        rw [hpq] at h1
        simpa using h1.symm
      have hp : p = f ++ p.drop f.length := by
        conv => lhs; rw [← List.take_append_drop f.length p, hpf]
      have hrest : p.drop f.length ++ q = fs.flatten := by
        have h1 : (p ++ q).drop f.length = p.drop f.length ++ q := List.drop_append_of_le_length hle
        rw [hpq] at h1
        simpa using h1.symm
      obtain ⟨fs1, fs2, h', hsplit, hp', hheld, hdec⟩ :=
        ih (fun g hg => hfs g (by simp [hg])) (p.drop f.length) hrest
      refine ⟨f :: fs1, fs2, h', by simp [hsplit], ?_, hheld, ?_⟩
      · rw [hp, hp']; simp
      · rw [hp, decodeW_unfold L]
        have hne : (f ++ p.drop f.length).isEmpty = false := by
          have := hf.pos
          cases f with
          | nil => simp at this
          | cons x xs => simp
        rw [specU_frame load S f _ hf]
        simp only [hne, Bool.false_eq_true, if_false, hdec, List.map_cons, frameItem]

/-- **Streams of frames inside the safe zone**: for every cutting `cs` of `fs.flatten` into reads of at most `m` bytes,
    with `|f| + m ≤ limit + 1` for every frame (exact: what is held is at most `|f| - 1` bytes), the reference run over the size-checking spec delivers exactly one item per
    frame, in order, and retains nothing. -/
theorem refRun_frames (load : Bytes → LoadRes) (S : Stable load) (P : Progress load) (limit m : Nat)
    (cs : List Bytes) (hcs : ∀ c ∈ cs, c.length ≤ m) (fs : List Bytes) (hfs : ∀ f ∈ fs, IsFrame load f)
    (hsafe : ∀ f ∈ fs, f.length + m ≤ limit + 1) (h : Bytes) (hheld : Held h fs)
    (hcut : h ++ cs.flatten = fs.flatten) :
    refRun (spec load limit) h cs = ([], fs.map (frameItem load)) := by
  have L := specU_laws load S P
  induction cs generalizing h fs with
  | nil =>
    simp only [List.flatten_nil, List.append_nil] at hcut
    have hfsnil : fs = [] := by
      rcases hheld with hh | ⟨f, fs', hfs', hlt⟩
      · rw [hh] at hcut
        exact flatten_nil_of_pos fs (fun f hf => (hfs f hf).pos) hcut.symm
      · exfalso
        rw [hcut, hfs'] at hlt
        simp at hlt; omega
    subst hfsnil
    simp only [List.flatten_nil] at hcut
    simp [refRun, hcut]
  | cons c cs ih =>
    simp only [List.flatten_cons] at hcut
    have hc := hcs c (by simp)
    -- the accumulated bytes stay within the limit
    have hlim : (h ++ c).length ≤ limit := by
      rcases hheld with hh | ⟨f, fs', hfs', hlt⟩
      · subst hh
        cases fs with
        | nil =>
          simp only [List.flatten_nil, List.nil_append, List.append_eq_nil_iff] at hcut
          simp [hcut.1]
        | cons f fs' => have := hsafe f (by simp); have := (hfs f (by simp)).pos; simp; omega
      · have := hsafe f (by simp [hfs']); simp; omega
    obtain ⟨fs1, fs2, h', hsplit, hp', hheld', hdec⟩ :=
      decode_prefix load S P fs hfs (h ++ c) cs.flatten (by rw [List.append_assoc]; exact hcut)
    have hrecv : refRecv (spec load limit) h c = (h', fs1.map (frameItem load)) := by
      rw [refRecv_spec_eq load limit h c hlim, refRecv_eq_decodeW L, hdec]
    have hcut' : h' ++ cs.flatten = fs2.flatten := by
      have h1 : h ++ c ++ cs.flatten = fs1.flatten ++ fs2.flatten := by
        rw [List.append_assoc, hcut, hsplit]; simp
      rw [hp', List.append_assoc] at h1
      exact List.append_cancel_left h1
    have := ih (fun c' hc' => hcs c' (by simp [hc'])) fs2 (fun f hf => hfs f (by simp [hsplit, hf]))
      (fun f hf => hsafe f (by simp [hsplit, hf])) h' hheld' hcut'
    simp only [refRun, hrecv, this, hsplit, List.map_append]

end EasyNet.GenericFr
