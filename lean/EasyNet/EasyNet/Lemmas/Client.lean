/-
  Time budget of whole calls: `receive`, the lock of the TCP client, `client.recv_packet` / `client.send_packet`,
  and the packet iterator — composed from the machine invariants of Lemmas/TimeMachines.lean.
-/
import EasyNet.Lemmas.TimeMachines
import EasyNet.Lemmas.SendData
namespace EasyNet

/-- what holds when a call with the finite timeout `tv` that started in `w0` has ended in `w` -/
structure CallFin (tv : Nat) (w0 w : World) (isTimeout : Bool) : Prop where
  budget : w.waited + w.lockw ≤ w0.waited + w0.lockw + tv
  unb : w.unbounded = w0.unbounded
  acct : w.now + w0.acct = w0.now + w.acct
  monoW : w0.waited ≤ w.waited
  monoL : w0.lockw ≤ w.lockw
  zero : tv = 0 → w.nsel = w0.nsel ∧ w.nlockw = w0.nlockw
  slack : w0.now + (w.waited + w.lockw) ≤ w.now + (w0.waited + w0.lockw)
  spent : isTimeout = true → w0.now + tv ≤ w.now

theorem GoodFin.toCall {tv : Nat} {w0 w : World} {b : Bool} (h : GoodFin (w0.waited + tv) (w0.now + tv) w0 w b) :
    CallFin tv w0 w b :=
  ⟨by have := h.budget; have := h.lockw; omega, h.unb, h.acct, h.mono, by rw [h.lockw]; exact Nat.le_refl _,
   fun h0 => ⟨h.zero (by omega), h.nlw⟩, by have := h.slack; have := h.lockw; omega, h.spent⟩

theorem CallFin.refl (tv : Nat) (w : World) : CallFin tv w w false :=
  ⟨by omega, rfl, rfl, Nat.le_refl _, Nat.le_refl _, fun _ => ⟨rfl, rfl⟩, Nat.le_refl _, fun h => by cases h⟩

/-- releasing the lock when the `with` block is left costs no time and is neither a select() nor a lock wait -/
theorem CallFin.release {tv : Nat} {w0 w : World} {b : Bool} (h : CallFin tv w0 w b) : CallFin tv w0 w.lockRelease b := by
  obtain ⟨c1, c2, c3, c4, c5, c6, c7, c8⟩ := h
  refine ⟨c1, c2, c3, c4, c5, ?_, c7, c8⟩
  intro h0
  obtain ⟨z1, z2⟩ := c6 h0
  exact ⟨by simpa [World.lockRelease, World.nsel, Obs.isSelect] using z1,
         by simpa [World.lockRelease, World.nlockw, Obs.isLockWait] using z2⟩

/-- `receive` with a finite timeout -/
theorem receive_fin {κ : Type} (fl : Flavour) (ri : Tmo) (room : κ → Nat) (next : κ → Bytes → κ × Option Item)
    (cons : κ) (eof : Bool) (tv : Nat) (sock : List SockCall) (w : World) :
    CallFin tv w (receive fl ri room next cons eof (some tv) sock w).w
      (receive fl ri room next cons eof (some tv) sock w).out.isTimeout := by
  unfold receive
  cases hn : next cons [] with
  | mk cons' oit =>
    cases oit with
    | some it => simpa [RecvOut.isTimeout] using CallFin.refl tv w
    | none =>
      simp only []
      by_cases he : eof = true
      · simp only [he, if_true]; simpa [RecvOut.isTimeout] using CallFin.refl tv w
      · simp only [he, Bool.false_eq_true, if_false]
        exact (recvLoop_good fl ri room next sock cons' (some tv) (some tv) w.now w (Good.init w tv)).toCall

/-- what `lock_with_timeout` does to the budget (finite timeout) -/
theorem lockWithTimeout_facts (ev : LockEv) (tv : Nat) (w : World) :
    match lockWithTimeout ev (some tv) w with
    | .acquired t' w' => ∃ tv', t' = some tv' ∧ w'.lockw + tv' = w.lockw + tv ∧ w'.now + tv' = w.now + tv ∧
        w'.waited = w.waited ∧ w'.unbounded = w.unbounded ∧ w'.now + w.acct = w.now + w'.acct ∧
        w'.nsel = w.nsel ∧ (tv = 0 → w'.nlockw = w.nlockw) ∧ tv' ≤ tv ∧ w'.now + w.lockw = w.now + w'.lockw
    | .timeout w' => CallFin tv w w' true := by
  unfold lockWithTimeout
  cases ev with
  | free =>
    simp only []
    exact ⟨tv, rfl, by simp [World.lockTry], by simp [World.lockTry], by simp [World.lockTry], by simp [World.lockTry],
      by simp [World.lockTry, World.acct], by simp [World.lockTry, World.nsel, Obs.isSelect],
      fun _ => by simp [World.lockTry, World.nlockw, Obs.isLockWait], Nat.le_refl _, by simp [World.lockTry]⟩
  | busy d =>
    simp only []
    by_cases h0 : tv = 0
    · simp only [h0, if_true]
      refine ⟨?_, ?_, ?_, ?_, ?_, ?_, ?_, ?_⟩ <;>
        simp [World.lockTry, World.acct, World.nsel, World.nlockw, Obs.isSelect, Obs.isLockWait]
    · simp only [h0, if_false]
      by_cases hd : d ≤ tv
      · simp only [hd, if_true]
        refine ⟨tv - d, rfl, ?_, ?_, ?_, ?_, ?_, ?_, ?_, ?_, ?_⟩ <;>
          simp [World.lockTry, World.afterLock, World.acct, World.nsel, Obs.isSelect] <;> omega
      · simp only [hd, if_false]
        refine ⟨?_, ?_, ?_, ?_, ?_, ?_, ?_, ?_⟩ <;>
          simp [World.lockTry, World.afterLock, World.acct, World.nsel, Obs.isSelect] <;> omega

/-- a call made with the remaining timeout after the lock was acquired stays within the original budget -/
theorem CallFin.afterLock {tv tv' : Nat} {w w' w'' : World} {b : Bool}
    (h1 : w'.lockw + tv' = w.lockw + tv) (h2 : w'.now + tv' = w.now + tv) (h3 : w'.waited = w.waited)
    (h4 : w'.unbounded = w.unbounded) (h5 : w'.now + w.acct = w.now + w'.acct) (h6 : w'.nsel = w.nsel)
    (h7 : tv = 0 → w'.nlockw = w.nlockw) (h8 : tv' ≤ tv) (h9 : w'.now + w.lockw = w.now + w'.lockw)
    (h : CallFin tv' w' w'' b) : CallFin tv w w'' b := by
  obtain ⟨c1, c2, c3, c4, c5, c6, cs, c7⟩ := h
  have := h9
  refine ⟨by omega, by omega, by omega, by omega, by omega, ?_, by omega, fun hb => by have := c7 hb; omega⟩
  intro h0
  have : tv' = 0 := by omega
  obtain ⟨z1, z2⟩ := c6 this
  exact ⟨by omega, by rw [z2, h7 h0]⟩

theorem clientRecv_fin {κ : Type} (fl : Flavour) (ri : Tmo) (room : κ → Nat) (next : κ → Bytes → κ × Option Item)
    (lk : Option LockEv) (cons : κ) (eof : Bool) (tv : Nat) (sock : List SockCall) (w : World) :
    CallFin tv w (clientRecv fl ri room next lk cons eof (some tv) sock w).w
      (clientRecv fl ri room next lk cons eof (some tv) sock w).out.isTimeout := by
  unfold clientRecv
  cases lk with
  | none => exact receive_fin fl ri room next cons eof tv sock w
  | some ev =>
    simp only []
    have hl := lockWithTimeout_facts ev tv w
    cases hr : lockWithTimeout ev (some tv) w with
    | timeout w' => rw [hr] at hl; simpa [RecvOut.isTimeout] using hl
    | acquired t' w' =>
      rw [hr] at hl
      obtain ⟨tv', e, h1, h2, h3, h4, h5, h6, h7, h8, h9⟩ := hl
      subst e
      simp only []
      have hrec := receive_fin fl ri room next cons eof tv' sock w'
      have hto : (clientErr (receive fl ri room next cons eof (some tv') sock w').out).isTimeout =
          (receive fl ri room next cons eof (some tv') sock w').out.isTimeout := by
        cases (receive fl ri room next cons eof (some tv') sock w').out with
        | err e => cases e <;> rfl
        | _ => rfl
      rw [hto]
      exact (hrec.afterLock h1 h2 h3 h4 h5 h6 h7 h8 h9).release

theorem sendPacket_fin (tr : Transport) (fix : Bool) (iov : Int) (ri : Tmo) (chunks : List Bytes) (tv : Nat)
    (sock : List SockCall) (w : World) :
    CallFin tv w (sendPacket tr fix iov ri chunks (some tv) sock w).2
      (sendPacket tr fix iov ri chunks (some tv) sock w).1.isTimeout := by
  have hall : ∀ fl, GoodFin (w.waited + tv) (w.now + tv) w (sendAll fl ri chunks.flatten (some tv) sock w).2
      (sendAll fl ri chunks.flatten (some tv) sock w).1.isTimeout := by
    intro fl
    exact sendAllLoop_good fl ri chunks.flatten sock ⟨0, some tv, some tv, w.now⟩ w (Good.init w tv)
  unfold sendPacket sendAllFromIterable
  cases tr with
  | sendmsg =>
    simp only []
    by_cases hiov : iov ≤ 0
    · simp only [hiov, if_true]; exact (hall .plain).toCall
    · simp only [hiov, if_false]
      exact (sendmsgLoop_good fix ri iov.toNat (some tv) w.now sock chunks (some tv) w (Good.init w tv)).toCall
  | nosendmsg => exact (hall .plain).toCall
  | tls => exact (hall .tls).toCall

theorem clientSend_fin (tr : Transport) (fix : Bool) (iov : Int) (ri : Tmo) (lk : Option LockEv) (chunks : List Bytes)
    (tv : Nat) (sock : List SockCall) (w : World) :
    CallFin tv w (clientSend tr fix iov ri lk chunks (some tv) sock w).2
      (clientSend tr fix iov ri lk chunks (some tv) sock w).1.isTimeout := by
  unfold clientSend
  cases lk with
  | none => exact sendPacket_fin tr fix iov ri chunks tv sock w
  | some ev =>
    simp only []
    have hl := lockWithTimeout_facts ev tv w
    cases hr : lockWithTimeout ev (some tv) w with
    | timeout w' => rw [hr] at hl; simpa [Outcome.isTimeout] using hl
    | acquired t' w' =>
      rw [hr] at hl
      obtain ⟨tv', e, h1, h2, h3, h4, h5, h6, h7, h8, h9⟩ := hl
      subst e
      simp only []
      have hs := sendPacket_fin tr fix iov ri chunks tv' sock w'
      have hto : (clientErrS (sendPacket tr fix iov ri chunks (some tv') sock w').1).isTimeout =
          (sendPacket tr fix iov ri chunks (some tv') sock w').1.isTimeout := by
        cases (sendPacket tr fix iov ri chunks (some tv') sock w').1 with
        | err e => cases e <;> rfl
        | _ => rfl
      rw [hto]
      exact (hs.afterLock h1 h2 h3 h4 h5 h6 h7 h8 h9).release

/-- the whole iterator: the sum of the time spent waiting (select + lock) over all `next()` calls of a `for` loop
    stays within the iterator's timeout -/
theorem iterRun_budget {κ : Type} (fl : Flavour) (ri : Tmo) (room : κ → Nat) (next : κ → Bytes → κ × Option Item) :
    ∀ (ns : List NextCall) (cons : κ) (eof : Bool) (tv : Nat) (w : World),
      (iterRun fl ri room next ns cons eof (some tv) w).2.waited +
        (iterRun fl ri room next ns cons eof (some tv) w).2.lockw ≤ w.waited + w.lockw + tv ∧
      (iterRun fl ri room next ns cons eof (some tv) w).2.unbounded = w.unbounded := by
  intro ns
  induction ns with
  | nil => intro cons eof tv w; simp [iterRun]
  | cons n ns ih =>
    intro cons eof tv w
    have hfin := clientRecv_fin fl ri room next (some n.lk) cons eof tv n.sock
      { w with sel := n.sel, now := w.now + n.gap }
    simp only [iterRun, iterNext]
    generalize clientRecv fl ri room next (some n.lk) cons eof (some tv) n.sock
      { w with sel := n.sel, now := w.now + n.gap } = R at hfin ⊢
    have hacc := hfin.acct
    have hb := hfin.budget
    have hu := hfin.unb
    have hsl := hfin.slack
    simp only [World.acct] at hacc hb hu hsl
    by_cases hp : R.out.isPacket = true
    · simp only [hp, if_true, Tmo.recompute]
      generalize hel : R.w.now - (w.now + n.gap) = el
      obtain ⟨i1, i2⟩ := ih R.cons R.eof (tv - el) R.w
      have hel' : R.w.now = w.now + n.gap + el ∨ (R.w.now ≤ w.now + n.gap ∧ el = 0) := by omega
      refine ⟨by omega, by omega⟩
    · simp only [hp, Bool.false_eq_true, if_false]
      exact ⟨hb, hu⟩

/-! ## UDPNetworkClient -/

/-- one `transport.recv(timeout)` / `transport.send(data, timeout)` of the datagram transport with a finite timeout -/
theorem dgramRecv_fin (ri : Tmo) (bufsize tv : Nat) (sock : List SockCall) (w : World) :
    CallFin tv w (dgramRecv ri bufsize (some tv) sock w).w (dgramRecv ri bufsize (some tv) sock w).out.isTimeout :=
  (retry_good (classifyRecv .plain) (.rcall bufsize) rfl rfl ri (some tv) w.now sock (some tv) w (Good.init w tv)).toCall

theorem dgramSend_fin (ri : Tmo) (data : Bytes) (tv : Nat) (sock : List SockCall) (w : World) :
    CallFin tv w (dgramSend ri data (some tv) sock w).w (dgramSend ri data (some tv) sock w).out.isTimeout :=
  (retry_good (classifySend .plain) (.call data.length 1) rfl rfl ri (some tv) w.now sock (some tv) w (Good.init w tv)).toCall

theorem udpClientRecv_fin (ri : Tmo) (bufsize : Nat) (lk : Option LockEv) (tv : Nat) (sock : List SockCall) (w : World) :
    CallFin tv w (udpClientRecv ri bufsize lk (some tv) sock w).w
      (udpClientRecv ri bufsize lk (some tv) sock w).out.isTimeout := by
  unfold udpClientRecv
  cases lk with
  | none => exact dgramRecv_fin ri bufsize tv sock w
  | some ev =>
    simp only []
    have hl := lockWithTimeout_facts ev tv w
    cases hr : lockWithTimeout ev (some tv) w with
    | timeout w' => rw [hr] at hl; simpa [Outcome.isTimeout] using hl
    | acquired t' w' =>
      rw [hr] at hl
      obtain ⟨tv', e, h1, h2, h3, h4, h5, h6, h7, h8, h9⟩ := hl
      subst e
      simp only []
      exact ((dgramRecv_fin ri bufsize tv' sock w').afterLock h1 h2 h3 h4 h5 h6 h7 h8 h9).release

theorem udpClientSend_fin (ri : Tmo) (data : Bytes) (lk : Option LockEv) (tv : Nat) (sock : List SockCall) (w : World) :
    CallFin tv w (udpClientSend ri data lk (some tv) sock w).w
      (udpClientSend ri data lk (some tv) sock w).out.isTimeout := by
  unfold udpClientSend
  cases lk with
  | none => exact dgramSend_fin ri data tv sock w
  | some ev =>
    simp only []
    have hl := lockWithTimeout_facts ev tv w
    cases hr : lockWithTimeout ev (some tv) w with
    | timeout w' => rw [hr] at hl; simpa [Outcome.isTimeout] using hl
    | acquired t' w' =>
      rw [hr] at hl
      obtain ⟨tv', e, h1, h2, h3, h4, h5, h6, h7, h8, h9⟩ := hl
      subst e
      simp only []
      exact ((dgramSend_fin ri data tv' sock w').afterLock h1 h2 h3 h4 h5 h6 h7 h8 h9).release

/-- when the lock is not obtained within the budget the socket is never touched (datagram client) -/
theorem udpClient_lock_timeout_no_io (ri : Tmo) (bufsize : Nat) (data : Bytes) (ev : LockEv) (t : Tmo)
    (sock : List SockCall) (w w' : World) (h : lockWithTimeout ev t w = .timeout w') :
    (udpClientRecv ri bufsize (some ev) t sock w).out = .timeout ∧ (udpClientRecv ri bufsize (some ev) t sock w).rest = sock ∧
    (udpClientRecv ri bufsize (some ev) t sock w).w = w' ∧
    (udpClientSend ri data (some ev) t sock w).out = .timeout ∧ (udpClientSend ri data (some ev) t sock w).rest = sock ∧
    (udpClientSend ri data (some ev) t sock w).w = w' := by
  simp [udpClientRecv, udpClientSend, h]

/-! ## lock discipline: the release -/

def Obs.isRelease : Obs → Bool
  | .lockRelease => true
  | _ => false

/-- number of `lock.release()` calls so far -/
def World.nrel (w : World) : Nat := w.log.countP Obs.isRelease

theorem retryWait_nrel (ri : Tmo) (b : Blk) (t : Tmo) (w : World) :
    match retryWait ri b t w with
    | .cont _ w' => w'.nrel = w.nrel
    | .timeout w' => w'.nrel = w.nrel
    | .exhausted w' => w'.nrel = w.nrel
    | .rterr w' => w'.nrel = w.nrel := by
  unfold retryWait
  by_cases hz : t.isZero = true
  · simp [hz]
  · simp only [hz, Bool.false_eq_true, if_false]
    cases hs : w.sel with
    | nil => simp
    | cons e sel =>
      simp only []
      cases hw : Tmo.waitTime t ri with
      | none =>
        by_cases he : e.avail = true <;>
          simp [he, World.nrel, World.afterSelectU, Obs.isRelease]
      | some wv =>
        by_cases hb : (!e.avail && Tmo.le t ri) = true <;>
          simp [hb, World.nrel, World.afterSelect, Obs.isRelease]

/-- one `_retry` never releases a lock -/
theorem retry_nrel (cls : SockEv → Cls) (o : Obs) (ho : o.isRelease = false) (ri : Tmo) :
    ∀ (sock : List SockCall) (t : Tmo) (w : World), (retry cls o ri sock t w).w.nrel = w.nrel := by
  intro sock
  induction sock with
  | nil => intro t w; simp [retry]
  | cons c rest ih =>
    intro t w
    have hc : (w.afterCall o c.p).nrel = w.nrel := by simp [World.nrel, World.afterCall, ho]
    unfold retry
    cases hcl : cls c.ev with
    | ok n => simpa using hc
    | got b => simpa using hc
    | err e => simpa using hc
    | bad => simpa using hc
    | block b =>
      have hw := retryWait_nrel ri b t (w.afterCall o c.p)
      simp only []
      cases hr : retryWait ri b t (w.afterCall o c.p) with
      | cont t' w' => rw [hr] at hw; simp only [] at hw ⊢; rw [ih t' w', hw, hc]
      | timeout w' => rw [hr] at hw; simp only [] at hw ⊢; rw [hw, hc]
      | exhausted w' => rw [hr] at hw; simp only [] at hw ⊢; rw [hw, hc]
      | rterr w' => rw [hr] at hw; simp only [] at hw ⊢; rw [hw, hc]

theorem lockWithTimeout_nrel (ev : LockEv) (t : Tmo) (w : World) :
    match lockWithTimeout ev t w with
    | .acquired _ w' => w'.nrel = w.nrel
    | .timeout w' => w'.nrel = w.nrel := by
  unfold lockWithTimeout
  cases t with
  | none => simp [World.nrel, World.afterLockU, Obs.isRelease]
  | some tv =>
    cases ev with
    | free => simp [World.nrel, World.lockTry, Obs.isRelease]
    | busy d =>
      simp only []
      by_cases h0 : tv = 0
      · simp [h0, World.nrel, World.lockTry, Obs.isRelease]
      · by_cases hd : d ≤ tv <;>
          simp [h0, hd, World.nrel, World.lockTry, World.afterLock, Obs.isRelease]

theorem World.nrel_lockRelease (w : World) : w.lockRelease.nrel = w.nrel + 1 := by
  simp only [World.nrel, World.lockRelease]
  rw [List.countP_cons_of_pos (by rfl)]

/-- the datagram client releases its lock exactly once when it got it (the release is the last thing the call does),
    never when it did not -/
theorem udpClient_release_count (ri : Tmo) (bufsize : Nat) (data : Bytes) (ev : LockEv) (t : Tmo) (sock : List SockCall) (w : World) :
    (match lockWithTimeout ev t w with
     | .acquired _ _ => (udpClientRecv ri bufsize (some ev) t sock w).w.nrel = w.nrel + 1 ∧
                        (udpClientSend ri data (some ev) t sock w).w.nrel = w.nrel + 1 ∧
                        (udpClientRecv ri bufsize (some ev) t sock w).w.log.head? = some .lockRelease ∧
                        (udpClientSend ri data (some ev) t sock w).w.log.head? = some .lockRelease
     | .timeout _ => (udpClientRecv ri bufsize (some ev) t sock w).w.nrel = w.nrel ∧
                     (udpClientSend ri data (some ev) t sock w).w.nrel = w.nrel) := by
  have hl := lockWithTimeout_nrel ev t w
  cases hr : lockWithTimeout ev t w with
  | timeout w' => rw [hr] at hl; simp only [] at hl ⊢; simp [udpClientRecv, udpClientSend, hr, hl]
  | acquired t' w' =>
    rw [hr] at hl
    simp only [] at hl ⊢
    have h1 := retry_nrel (classifyRecv .plain) (.rcall bufsize) rfl ri sock t' w'
    have h2 := retry_nrel (classifySend .plain) (.call data.length 1) rfl ri sock t' w'
    refine ⟨?_, ?_, ?_, ?_⟩
    · simp only [udpClientRecv, hr, dgramRecv]; rw [World.nrel_lockRelease, h1, hl]
    · simp only [udpClientSend, hr, dgramSend]; rw [World.nrel_lockRelease, h2, hl]
    · simp [udpClientRecv, hr, World.lockRelease]
    · simp [udpClientSend, hr, World.lockRelease]

end EasyNet
