/-
  Receive endpoints (C03): delivery invariant, "end-of-stream only after everything complete was delivered",
  sticky end-of-stream.  Generic in the consumer interface (`C15.IfaceSim`).
-/
import EasyNet.Model.Endpoint
import EasyNet.Lemmas.StreamServer
namespace EasyNet.C03
open EasyNet EasyNet.C15

variable {κ : Type} {I : Iface κ} {spec : Bytes → SRes} {Rel : κ → Bytes → Prop}

/-- the consumer holds `h`; decoding all reads made so far = what was delivered (`D`) + what is complete inside `h` -/
def EInv (spec : Bytes → SRes) (Rel : κ → Bytes → Prop) (s : EP κ) (D : List Item) : Prop :=
  ∃ h, Rel s.k h ∧ refRun spec [] s.reads = ((decodeW spec h).1, D ++ (decodeW spec h).2)

/-- nothing complete is held: exactly `D` has been delivered from the reads made so far -/
def EExact (spec : Bytes → SRes) (Rel : κ → Bytes → Prop) (s : EP κ) (D : List Item) : Prop :=
  ∃ h, Rel s.k h ∧ decodeW spec h = (h, []) ∧ refRun spec [] s.reads = (h, D)

theorem EExact.inv {s : EP κ} {D : List Item} (h : EExact spec Rel s D) : EInv spec Rel s D := by
  obtain ⟨b, hr, hd, hrun⟩ := h
  exact ⟨b, hr, by rw [hd, hrun]; simp⟩

def outItems : ROut → List Item
  | .item it => [it]
  | _ => []

/-- all payload bytes still queued in the transport script -/
def pending : List TEv → Bytes
  | [] => []
  | .data b :: rest => b ++ pending rest
  | _ :: rest => pending rest

theorem pending_split (b : Bytes) (n : Nat) (rest : List TEv) :
    b.take n ++ pending (if (b.drop n).isEmpty then rest else .data (b.drop n) :: rest) = b ++ pending rest := by
  by_cases he : (b.drop n).isEmpty
  · have : b.drop n = [] := by simpa using he
    simp only [he, if_true]
    have h2 : b.take n = b := by
      have := List.take_append_drop n b
      rw [‹b.drop n = []›] at this; simpa using this
    rw [h2]
  · simp only [he, Bool.false_eq_true, if_false, pending]
    rw [← List.append_assoc, List.take_append_drop]

theorem loop_full (Sim : IfaceSim I spec Rel) {ok : Bytes → Prop} (L : SpecLaws spec ok) (hwant : ∀ k h, Rel k h → decodeW spec h = (h, []) → 0 < (I.want k).2) (zero : Bool) :
    ∀ (fuel : Nat) (s : EP κ) (D : List Item), EExact spec Rel s D →
      EInv spec Rel (EP.loop I zero fuel s).1 (D ++ outItems (EP.loop I zero fuel s).2) ∧
      ((∀ it, (EP.loop I zero fuel s).2 ≠ .item it) → EExact spec Rel (EP.loop I zero fuel s).1 D) ∧
      ((EP.loop I zero fuel s).2 = .eos → (EP.loop I zero fuel s).1.eofReached = true) ∧
      (EP.loop I zero fuel s).1.reads.flatten ++ pending (EP.loop I zero fuel s).1.script
        = s.reads.flatten ++ pending s.script ∧
      s.nreads ≤ (EP.loop I zero fuel s).1.nreads := by
  intro fuel
  induction fuel with
  | zero =>
    intro s D hex
    simp only [EP.loop, outItems, List.append_nil]
    exact ⟨hex.inv, fun _ => hex, (fun h => by cases h), trivial, Nat.le_refl _⟩
  | succ fuel ih =>
    intro s D hex
    obtain ⟨h, hrel, hdec, hrun⟩ := hex
    have hw : ∀ (s' : EP κ), s'.k = (I.want s.k).1 → s'.reads = s.reads → EExact spec Rel s' D := by
      intro s' hk hr
      exact ⟨h, by rw [hk]; exact Sim.want_rel _ _ hrel, hdec, by rw [hr]; exact hrun⟩
    unfold EP.loop
    cases hsc : s.script with
    | nil =>
      simp only [outItems, List.append_nil]
      have := hw { s with k := (I.want s.k).1 } rfl rfl
      exact ⟨this.inv, fun _ => this, (fun h => by cases h), (by simp), Nat.le_refl _⟩
    | cons ev rest =>
      cases ev with
      | block =>
        simp only [outItems, List.append_nil]
        have := hw { s with k := (I.want s.k).1, script := rest, nreads := s.nreads + 1 } rfl rfl
        exact ⟨this.inv, fun _ => this, (fun h => by cases h), (by simp [pending]), Nat.le_succ _⟩
      | reset =>
        simp only [outItems, List.append_nil]
        have := hw { s with k := (I.want s.k).1, script := rest, nreads := s.nreads + 1 } rfl rfl
        exact ⟨this.inv, fun _ => this, (fun h => by cases h), (by simp [pending]), Nat.le_succ _⟩
      | oserr =>
        simp only [outItems, List.append_nil]
        have := hw { s with k := (I.want s.k).1, script := rest, nreads := s.nreads + 1 } rfl rfl
        exact ⟨this.inv, fun _ => this, (fun h => by cases h), (by simp [pending]), Nat.le_succ _⟩
      | eof =>
        simp only [outItems, List.append_nil]
        have := hw { s with k := (I.want s.k).1, script := rest, nreads := s.nreads + 1, eofReached := true } rfl rfl
        exact ⟨this.inv, fun _ => this, (fun _ => trivial), (by simp [pending]), Nat.le_succ _⟩
      | data b =>
        simp only
        by_cases hemp : (b.take (I.want s.k).2).isEmpty
        · simp only [hemp, if_true, outItems, List.append_nil]
          have := hw { s with k := (I.want s.k).1, script := rest, nreads := s.nreads + 1, eofReached := true } rfl rfl
          -- an empty read ends the stream; bytes the transport never handed over (`b`, if the requested size was 0) are dropped
          have hb : b = [] := by
            have hpos := hwant s.k h hrel hdec
            cases b with
            | nil => rfl
            | cons x xs =>
              cases hn : (I.want s.k).2 with
              | zero => omega
              | succ m => rw [hn] at hemp; simp at hemp
          refine ⟨this.inv, fun _ => this, (fun _ => trivial), ?_, Nat.le_succ _⟩
          simp [pending, hb]
        · simp only [hemp, Bool.false_eq_true, if_false]
          have hsnoc := refRun_snoc L s.reads (b.take (I.want s.k).2) h D hrun
          have hpend : (s.reads ++ [b.take (I.want s.k).2]).flatten ++
              pending (if (b.drop (I.want s.k).2).isEmpty then rest else .data (b.drop (I.want s.k).2) :: rest)
              = s.reads.flatten ++ pending (.data b :: rest) := by
            simp only [List.flatten_append, List.flatten_cons, List.flatten_nil, List.append_nil, List.append_assoc, pending]
            rw [pending_split]
          cases hfeed : I.feed (I.want s.k).1 (b.take (I.want s.k).2) with
          | mk k2 r =>
            cases r with
            | some it =>
              simp only [outItems]
              obtain ⟨h', hrel', hdec'⟩ := Sim.feed_some _ h _ k2 it hrel hdec (List.length_take_le _ _) hfeed
              refine ⟨⟨h', hrel', ?_⟩, (fun hne => absurd rfl (hne it)), (fun hc => by cases hc), hpend, Nat.le_succ _⟩
              show refRun spec [] (s.reads ++ [b.take (I.want s.k).2]) = _
              rw [hsnoc, hdec']
              simp [List.append_assoc]
            | none =>
              simp only
              obtain ⟨hrel', hdec'⟩ := Sim.feed_none _ h _ k2 hrel hdec (List.length_take_le _ _) hfeed
              have hex' : EExact spec Rel
                  { s with k := k2, nreads := s.nreads + 1, reads := s.reads ++ [b.take (I.want s.k).2],
                           script := if (b.drop (I.want s.k).2).isEmpty then rest else .data (b.drop (I.want s.k).2) :: rest } D := by
                refine ⟨h ++ b.take (I.want s.k).2, hrel', hdec', ?_⟩
                show refRun spec [] (s.reads ++ [b.take (I.want s.k).2]) = _
                rw [hsnoc, hdec']
                simp
              by_cases hz : zero = true ∧ (b.take (I.want s.k).2).length < (I.want s.k).2
              · simp only [hz, and_self, if_true, outItems, List.append_nil]
                exact ⟨hex'.inv, fun _ => hex', (fun hc => by cases hc), hpend, Nat.le_succ _⟩
              · simp only [hz, if_false]
                have := ih _ D hex'
                refine ⟨this.1, this.2.1, this.2.2.1, ?_, ?_⟩
                · rw [this.2.2.2.1]; exact hpend
                · have := this.2.2.2.2; simp only at this; omega

/-- one `recv_packet` call -/
theorem receive_full (Sim : IfaceSim I spec Rel) {ok : Bytes → Prop} (L : SpecLaws spec ok) (hwant : ∀ k h, Rel k h → decodeW spec h = (h, []) → 0 < (I.want k).2)
    (s : EP κ) (zero : Bool) (D : List Item) (hinv : EInv spec Rel s D) :
    EInv spec Rel (EP.receive I s zero).1 (D ++ outItems (EP.receive I s zero).2) ∧
    ((∀ it, (EP.receive I s zero).2 ≠ .item it) → EExact spec Rel (EP.receive I s zero).1 D) ∧
    ((EP.receive I s zero).2 = .eos → (EP.receive I s zero).1.eofReached = true) ∧
    (EP.receive I s zero).1.reads.flatten ++ pending (EP.receive I s zero).1.script
      = s.reads.flatten ++ pending s.script ∧
    s.nreads ≤ (EP.receive I s zero).1.nreads ∧
    (s.eofReached = true → (EP.receive I s zero).1.eofReached = true ∧ (EP.receive I s zero).1.nreads = s.nreads) := by
  obtain ⟨h, hrel, hrun⟩ := hinv
  cases hd : I.drainNext s.k with
  | mk k' r =>
    cases r with
    | some it =>
      have hrec : EP.receive I s zero = ({ s with k := k' }, .item it) := by
        unfold EP.receive; rw [hd]
      rw [hrec]
      obtain ⟨h', hrel', hdec'⟩ := Sim.drain_some _ h _ it hrel hd
      refine ⟨⟨h', hrel', ?_⟩, (fun hne => absurd rfl (hne it)), (fun hc => by cases hc), rfl, Nat.le_refl _,
        fun he => ⟨he, rfl⟩⟩
      show refRun spec [] s.reads = _
      rw [hrun, hdec']
      simp [outItems, List.append_assoc]
    | none =>
      obtain ⟨hrel', hdec'⟩ := Sim.drain_none _ h _ hrel hd
      have hex : EExact spec Rel { s with k := k' } D := by
        refine ⟨h, hrel', hdec', ?_⟩
        show refRun spec [] s.reads = _
        rw [hrun, hdec']; simp
      by_cases he : s.eofReached = true
      · have hrec : EP.receive I s zero = ({ s with k := k' }, .eos) := by
          unfold EP.receive; rw [hd]; simp [he]
        rw [hrec]
        refine ⟨?_, fun _ => hex, (fun _ => he), rfl, Nat.le_refl _, fun _ => ⟨he, rfl⟩⟩
        simpa [outItems] using hex.inv
      · have hrec : EP.receive I s zero = EP.loop I zero (scriptFuel s.script) { s with k := k' } := by
          unfold EP.receive; rw [hd]; simp [he]
        rw [hrec]
        have := loop_full Sim L hwant zero (scriptFuel s.script) { s with k := k' } D hex
        exact ⟨this.1, this.2.1, this.2.2.1, this.2.2.2.1, this.2.2.2.2, fun h => absurd h he⟩

theorem outItems_items (outs : List ROut) (o : ROut) : items (o :: outs) = outItems o ++ items outs := by
  cases o <;> rfl

/-- **Delivery invariant over any history of calls.** -/
theorem calls_full (Sim : IfaceSim I spec Rel) {ok : Bytes → Prop} (L : SpecLaws spec ok) (hwant : ∀ k h, Rel k h → decodeW spec h = (h, []) → 0 < (I.want k).2) :
    ∀ (zs : List Bool) (s : EP κ) (D : List Item), EInv spec Rel s D →
      EInv spec Rel (EP.calls I s zs).1 (D ++ items (EP.calls I s zs).2) ∧
      (EP.calls I s zs).1.reads.flatten ++ pending (EP.calls I s zs).1.script = s.reads.flatten ++ pending s.script := by
  intro zs
  induction zs with
  | nil => intro s D h; simp only [EP.calls, items, List.append_nil]; exact ⟨h, trivial⟩
  | cons z zs ih =>
    intro s D h
    have h1 := receive_full Sim L hwant s z D h
    have h2 := ih (EP.receive I s z).1 _ h1.1
    simp only [EP.calls]
    rw [outItems_items]
    refine ⟨by simpa [List.append_assoc] using h2.1, ?_⟩
    rw [h2.2, h1.2.2.2.1]

/-- **Sticky end-of-stream.**  Once the end of the stream has been observed and nothing complete is held, every further
    call reports end-of-stream, issues no transport read and delivers nothing. -/
theorem calls_sticky (Sim : IfaceSim I spec Rel) :
    ∀ (zs : List Bool) (s : EP κ) (D : List Item), EExact spec Rel s D → s.eofReached = true →
      (EP.calls I s zs).2 = zs.map (fun _ => ROut.eos) ∧ (EP.calls I s zs).1.nreads = s.nreads ∧
      (EP.calls I s zs).1.reads = s.reads := by
  intro zs
  induction zs with
  | nil => intro s D _ _; exact ⟨rfl, rfl, rfl⟩
  | cons z zs ih =>
    intro s D hex he
    obtain ⟨h, hrel, hdec, hrun⟩ := hex
    have hrecv : ∃ k', EP.receive I s z = ({ s with k := k' }, .eos) ∧ Rel k' h := by
      unfold EP.receive
      cases hd : I.drainNext s.k with
      | mk k' r =>
        cases r with
        | some it =>
          obtain ⟨h', _, hdec'⟩ := Sim.drain_some _ h _ it hrel hd
          rw [hdec] at hdec'
          have : ([] : List Item) = it :: (decodeW spec h').2 := congrArg Prod.snd hdec'
          cases this
        | none =>
          obtain ⟨hrel', _⟩ := Sim.drain_none _ h _ hrel hd
          exact ⟨k', by simp [he], hrel'⟩
    obtain ⟨k', hr, hrel'⟩ := hrecv
    have hex' : EExact spec Rel ({ s with k := k' } : EP κ) D := ⟨h, hrel', hdec, hrun⟩
    have := ih ({ s with k := k' } : EP κ) D hex' he
    simp only [EP.calls, hr, List.map_cons]
    exact ⟨by rw [this.1], this.2.1, this.2.2⟩

end EasyNet.C03
