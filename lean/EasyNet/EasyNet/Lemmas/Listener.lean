/-
  Invariants of the listener machine (Model/Listener.lean), for every history.
-/
import EasyNet.Model.Listener
namespace EasyNet.Lsn

/-- what holds in every reachable state -/
structure Inv (s : St) : Prop where
  marker : s.marker = true ↔ s.apc ≠ .idle
  cancelled : s.scopeCancelled = true → s.marker = true ∧ s.sockRef = false
  closing : s.cpc = .yielded → s.sockRef = false
  released : s.sockRef = false → s.cpc = .yielded ∨ s.osOpen = false
  open_ : s.sockRef = true → s.osOpen = true

theorem Inv.init : Inv St.init := by
  refine ⟨?_, ?_, ?_, ?_, ?_⟩ <;> simp [St.init]

theorem Inv.step {s s' : St} {e : Ev} {o : Option Out} (h : Inv s) (hs : step s e = some (s', o)) : Inv s' := by
  obtain ⟨h1, h2, h3, h4, h5⟩ := h
  rcases s with ⟨a, b, c, d, p, q⟩
  cases e with
  | acceptDone r =>
    cases r <;> cases a <;> cases b <;> cases c <;> cases d <;> cases p <;> cases q <;>
      simp [Lsn.step, St.enterScope, St.leave] at h1 h2 h3 h4 h5 hs ⊢ <;>
      (try (obtain ⟨rfl, rfl⟩ := hs)) <;> (refine ⟨?_, ?_, ?_, ?_, ?_⟩ <;> simp)
  | _ =>
    cases a <;> cases b <;> cases c <;> cases d <;> cases p <;> cases q <;>
      simp [Lsn.step, St.enterScope, St.leave] at h1 h2 h3 h4 h5 hs ⊢ <;>
      (try (obtain ⟨rfl, rfl⟩ := hs)) <;> (refine ⟨?_, ?_, ?_, ?_, ?_⟩ <;> simp)

theorem Inv.run {s : St} (h : Inv s) : ∀ (es : List Ev) {s0 : St}, s0 = s → Inv (run s0 es) := by
  intro es
  induction es generalizing s with
  | nil => intro s0 e; subst e; simpa [Lsn.run] using h
  | cons e es ih =>
    intro s0 e0; subst e0
    simp only [Lsn.run]
    cases hs : Lsn.step s0 e with
    | none => exact ih h rfl
    | some r =>
      obtain ⟨s', o⟩ := r
      exact ih (h.step hs) rfl

end EasyNet.Lsn
