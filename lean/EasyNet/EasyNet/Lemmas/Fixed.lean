/-
  Fixed-size framing: read_exactly (copying) and FixedSizePacketSerializer.buffered_incremental_deserialize
  refine `RE.spec n`, which satisfies the `SpecLaws` (no size errors exist for this framer).
-/
import EasyNet.Lemmas.ConsumerSim
import EasyNet.Lemmas.BufConsumerSim
import EasyNet.Lemmas.ChunkIndep
namespace EasyNet

def RE.Inv (n : Nat) (s : REState) (b : Bytes) : Prop := s.buf = b

theorem RE.refines (n : Nat) : Refines RE.init (RE.feed n) (RE.spec n) (RE.Inv n) := by
  constructor
  · rfl
  · intro s b c h
    unfold RE.Inv at h; subst h
    unfold RE.feed RE.spec
    by_cases hl : (s.buf ++ c).length < n
    · simp only [hl, if_true, Res.erase, true_and]
      intro s' hs'; injection hs' with hs'; subst hs'; rfl
    · simp only [hl, if_false, Res.erase, true_and]
      intro s' hs'; cases hs'

def BFX.Inv (s : BFXState) (b : Bytes) : Prop := s.nread = b.length

theorem BFX.refines (n cap : Nat) (hn : 0 < n) :
    BRefines BFX.init (BFX.feed n) (·.nread) (RE.spec n) BFX.Inv cap := by
  constructor
  · rfl
  · intro s b h; exact h
  · intro s buffer total _ hinv hfit
    have hl : (buffer.take (s.nread + total)).length = s.nread + total := by simp; omega
    unfold BFX.feed RE.spec
    rw [hl]
    by_cases hlt : s.nread + total < n
    · simp only [hlt, if_true, BRes.erase, true_and]
      intro s' st h; injection h with h1 h2; subst h1; subst h2
      exact ⟨hl.symm, rfl⟩
    · simp only [hlt, if_false, BRes.erase]
      refine ⟨?_, fun s' st h => by cases h⟩
      congr 1
      rw [List.take_take]; congr 1; omega
  · intro b d r h
    unfold RE.spec at h
    split at h
    · cases h
    · injection h with _ hr; subst hr; simp; omega
  · intro b r h
    unfold RE.spec at h
    split at h <;> cases h

theorem RE.spec_laws (n : Nat) (hn : 0 < n) : SpecLaws (RE.spec n) := by
  constructor
  · intro b d r h
    unfold RE.spec at h
    split at h
    · cases h
    · injection h with _ hr; subst hr; simp; omega
  · intro b r h; unfold RE.spec at h; split at h <;> cases h
  · intro b x d r h
    unfold RE.spec at h ⊢
    split at h
    · cases h
    · rename_i hl
      injection h with hd hr; subst hd; subst hr
      have : ¬ ((b ++ x).length < n) := by simp; omega
      simp only [this, if_false]
      congr 1
      · rw [List.take_append_of_le_length (by omega)]
      · rw [List.drop_append_of_le_length (by omega)]
  · intro b x h
    unfold RE.spec at h ⊢
    split at h
    · rename_i hl
      have : b.length < n := by simp at hl; omega
      simp [this]
    · cases h
  · intro b x d r _ _ r' hb
    unfold RE.spec at hb; split at hb <;> cases hb

/-- the stream of `ps`, each of exactly `n` bytes -/
theorem RE.decode_packets (n : Nat) (hn : 0 < n) (ps : List Bytes) (hv : ∀ p ∈ ps, p.length = n) :
    decodeW (RE.spec n) ps.flatten = ([], ps.map Item.frame) := by
  have L := RE.spec_laws n hn
  induction ps with
  | nil => rw [decodeW_unfold L]; simp
  | cons p ps ih =>
    have hp := hv p (by simp)
    rw [List.flatten_cons, decodeW_unfold L]
    have hne : (p ++ ps.flatten).isEmpty = false := by
      cases p with
      | nil => simp at hp; omega
      | cons x xs => simp
    have hspec : RE.spec n (p ++ ps.flatten) = .done p ps.flatten := by
      unfold RE.spec
      have : ¬ ((p ++ ps.flatten).length < n) := by simp; omega
      simp only [this, if_false]
      congr 1
      · rw [List.take_append_of_le_length (by omega), ← hp, List.take_length]
      · rw [List.drop_append_of_le_length (by omega), ← hp, List.drop_length]; simp
    rw [hspec]
    simp only [hne, Bool.false_eq_true, if_false]
    rw [ih (fun q hq => hv q (by simp [hq]))]
    simp

end EasyNet
