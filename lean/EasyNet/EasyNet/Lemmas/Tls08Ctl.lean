/-
  C08: the control invariant of the wrapper machine — the two transport locks.
  `cls` abstracts a program counter to what the task is doing with the locks; `LI` is the invariant of one FIFO lock.
-/
import EasyNet.Model.Tls08
namespace EasyNet.C08
open EasyNet

inductive Cl where
  | idle | holdS | waitS | holdR | waitR
  deriving DecidableEq, Repr

def cls : PC → Cl
  | .idle => .idle
  | .wrLock _ => .waitS | .wwLock _ => .waitS | .okLock _ => .waitS
  | .wrSend _ => .holdS | .wwSend _ => .holdS | .okSend _ => .holdS
  | .rdLock _ => .waitR
  | .rdInto _ => .holdR

/-- invariant of one lock: `h` = class of the task inside the critical section (awaiting the transport), `w` = parked -/
structure LI (k : Tid → Cl) (h w : Cl) (lk : Lock) : Prop where
  locked : ∀ t, k t = h → lk.locked = true
  uniq : ∀ t u, k t = h → k u = h → t = u
  wait : ∀ t, k t = w ↔ t ∈ lk.waiters
  nodup : lk.waiters.Nodup
  held : lk.locked = true → ∃ t, k t = h

theorem upd_same {α : Type} (f : Tid → α) (t : Tid) (v : α) : upd f t v t = v := by simp [upd]
theorem upd_other {α : Type} (f : Tid → α) (t u : Tid) (v : α) (h : u ≠ t) : upd f t v u = f u := by simp [upd, h]
theorem upd_self {α : Type} (f : Tid → α) (t : Tid) : upd f t (f t) = f := by
  funext u; unfold upd; split <;> simp_all

variable {k : Tid → Cl} {h w : Cl} {lk : Lock}

theorem LI.frame (hl : LI k h w lk) (t : Tid) (c : Cl) (h1 : k t ≠ h) (h2 : k t ≠ w) (h3 : c ≠ h) (h4 : c ≠ w) :
    LI (upd k t c) h w lk := by
  have key : ∀ u x, (x = h ∨ x = w) → (upd k t c u = x ↔ k u = x) := by
    intro u x hx
    by_cases hu : u = t
    · subst hu; rw [upd_same]
      rcases hx with rfl | rfl
      · exact ⟨fun e => absurd e h3, fun e => absurd e h1⟩
      · exact ⟨fun e => absurd e h4, fun e => absurd e h2⟩
    · rw [upd_other _ _ _ _ hu]
  refine ⟨fun u hu => hl.locked u ((key u h (.inl rfl)).1 hu), ?_, ?_, hl.nodup, ?_⟩
  · intro u v hu hv
    exact hl.uniq u v ((key u h (.inl rfl)).1 hu) ((key v h (.inl rfl)).1 hv)
  · intro u; rw [key u w (.inr rfl)]; exact hl.wait u
  · intro hlk
    obtain ⟨u, hu⟩ := hl.held hlk
    exact ⟨u, (key u h (.inl rfl)).2 hu⟩

theorem LI.acqFree (hl : LI k h w lk) (hne : h ≠ w) (t : Tid) (hf : lk.free = true) :
    LI (upd k t h) h w { locked := true, waiters := [] } := by
  simp only [Lock.free, Bool.and_eq_true, Bool.not_eq_true', List.isEmpty_iff] at hf
  have nohold : ∀ u, k u ≠ h := fun u hu => by have := hl.locked u hu; rw [hf.1] at this; cases this
  have nowait : ∀ u, k u ≠ w := fun u hu => by have := (hl.wait u).1 hu; rw [hf.2] at this; cases this
  refine ⟨fun _ _ => rfl, ?_, ?_, List.nodup_nil, fun _ => ⟨t, upd_same _ _ _⟩⟩
  · intro u v hu hv
    have : ∀ x, upd k t h x = h → x = t := by
      intro x hx
      by_cases hxt : x = t
      · exact hxt
      · rw [upd_other _ _ _ _ hxt] at hx; exact absurd hx (nohold x)
    rw [this u hu, this v hv]
  · intro u
    constructor
    · intro hu
      by_cases hut : u = t
      · subst hut; rw [upd_same] at hu; exact absurd hu hne
      · rw [upd_other _ _ _ _ hut] at hu; exact absurd hu (nowait u)
    · intro hu; cases hu

theorem LI.acqPark (hl : LI k h w lk) (hne : h ≠ w) (t : Tid) (h1 : k t ≠ h) (h2 : k t ≠ w) :
    LI (upd k t w) h w { lk with waiters := lk.waiters ++ [t] } := by
  have tnot : t ∉ lk.waiters := fun hm => h2 ((hl.wait t).2 hm)
  refine ⟨?_, ?_, ?_, ?_, ?_⟩
  · intro u hu
    by_cases hut : u = t
    · subst hut; rw [upd_same] at hu; exact absurd hu.symm hne
    · rw [upd_other _ _ _ _ hut] at hu; exact hl.locked u hu
  · intro u v hu hv
    have : ∀ x, upd k t w x = h → k x = h := by
      intro x hx
      by_cases hxt : x = t
      · subst hxt; rw [upd_same] at hx; exact absurd hx.symm hne
      · rwa [upd_other _ _ _ _ hxt] at hx
    exact hl.uniq u v (this u hu) (this v hv)
  · intro u
    simp only [List.mem_append, List.mem_singleton]
    by_cases hut : u = t
    · subst hut; rw [upd_same]; exact ⟨fun _ => .inr rfl, fun _ => rfl⟩
    · rw [upd_other _ _ _ _ hut, hl.wait u]
      exact ⟨.inl, fun hx => hx.elim id (fun e => absurd e hut)⟩
  · show (lk.waiters ++ [t]).Nodup
    rw [List.nodup_append]
    refine ⟨hl.nodup, by simp, ?_⟩
    intro a ha b hb
    simp only [List.mem_singleton] at hb
    subst hb
    exact fun e => tnot (e ▸ ha)
  · intro hlk
    obtain ⟨u, hu⟩ := hl.held hlk
    refine ⟨u, ?_⟩
    have : u ≠ t := fun e => h1 (e ▸ hu)
    rw [upd_other _ _ _ _ this]; exact hu

theorem LI.release (hl : LI k h w lk) (t : Tid) (ht : k t = h) (c : Cl) (hc : c ≠ h) (hc' : c ≠ w) (hne : h ≠ w) :
    LI (upd k t c) h w { lk with locked := false } := by
  have nohold : ∀ u, upd k t c u ≠ h := by
    intro u hu
    by_cases hut : u = t
    · subst hut; rw [upd_same] at hu; exact hc hu
    · rw [upd_other _ _ _ _ hut] at hu; exact hut (hl.uniq u t hu ht)
  refine ⟨fun u hu => absurd hu (nohold u), fun u v hu _ => absurd hu (nohold u), ?_, hl.nodup, fun hx => by cases hx⟩
  intro u
  by_cases hut : u = t
  · subst hut; rw [upd_same]
    constructor
    · intro e; exact absurd e hc'
    · intro hm; have := (hl.wait u).2 hm; rw [ht] at this; exact absurd this hne
  · rw [upd_other _ _ _ _ hut]; exact hl.wait u

theorem LI.grant (hl : LI k h w lk) (hne : h ≠ w) (t : Tid) (hu : lk.locked = false) (hd : lk.waiters.head? = some t) :
    LI (upd k t h) h w { locked := true, waiters := lk.waiters.tail } := by
  obtain ⟨rest, hw⟩ : ∃ rest, lk.waiters = t :: rest := by
    cases hws : lk.waiters with
    | nil => rw [hws] at hd; cases hd
    | cons a rest => rw [hws] at hd; simp only [List.head?_cons, Option.some.injEq] at hd; exact ⟨rest, by rw [hd]⟩
  have hnd := hl.nodup
  rw [hw] at hnd
  have tnot : t ∉ rest := (List.nodup_cons.1 hnd).1
  have nohold : ∀ u, k u ≠ h := fun u hu' => by have := hl.locked u hu'; rw [hu] at this; cases this
  refine ⟨fun _ _ => rfl, ?_, ?_, ?_, fun _ => ⟨t, upd_same _ _ _⟩⟩
  · intro u v hu' hv
    have : ∀ x, upd k t h x = h → x = t := by
      intro x hx
      by_cases hxt : x = t
      · exact hxt
      · rw [upd_other _ _ _ _ hxt] at hx; exact absurd hx (nohold x)
    rw [this u hu', this v hv]
  · intro u
    show upd k t h u = w ↔ u ∈ lk.waiters.tail
    rw [hw, List.tail_cons]
    by_cases hut : u = t
    · subst hut; rw [upd_same]
      exact ⟨fun e => absurd e hne, fun hm => absurd hm tnot⟩
    · rw [upd_other _ _ _ _ hut, hl.wait u, hw, List.mem_cons]
      exact ⟨fun hx => hx.elim (fun e => absurd e hut) id, .inr⟩
  · show lk.waiters.tail.Nodup
    rw [hw, List.tail_cons]; exact (List.nodup_cons.1 hnd).2

end EasyNet.C08
