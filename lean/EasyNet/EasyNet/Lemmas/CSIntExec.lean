/-
  C13 — interruption: micro-steps of the coroutine (shield-free fragment) and the moment the task parks.
-/
import EasyNet.Lemmas.CSIntRun
set_option linter.unusedSimpArgs false
set_option linter.unusedVariables false
namespace EasyNet.CS

/-! ### frames -/

theorem Core.setFrames {ms : List Handle} {k : K} (h : Core ms k) (fs : List Frame) (hsf : ∀ fr ∈ fs, fr.sf = true)
    (hids : scopeIds fs = scopeIds k.frames) : Core ms { k with frames := fs } :=
  h.mono hsf hids (fun x hx => Or.inl hx) (fun s hs => hs) (fun p hp => Or.inl hp) rfl (fun s => rfl)
    (fun s hs => Or.inl hs) rfl h.cbs

theorem Running.setFrames {k : K} (h : Running k) (fs : List Frame) : Running { k with frames := fs } :=
  h.mono (fun x hx => Or.inl hx) (fun f => rfl) rfl rfl rfl

theorem Core.push {ms : List Handle} {k : K} (h : Core ms k) (fr : Frame) (hsf : fr.sf = true) (hns : ∀ s t, fr ≠ .scopeF s t) :
    Core ms (k.push fr) :=
  h.setFrames (fr :: k.frames) (fun x hx => by
    rcases List.mem_cons.mp hx with hx | hx
    · subst hx; exact hsf
    · exact h.sfF x hx) (scopeIds_cons_of_notScope fr k.frames hns)

theorem Core.pop_notScope {ms : List Handle} {k : K} (h : Core ms k) (fr : Frame) (fs : List Frame) (hk : k.frames = fr :: fs)
    (hns : ∀ s t, fr ≠ .scopeF s t) : Core ms k.pop := by
  have : k.pop = { k with frames := fs } := by simp [K.pop, hk]
  rw [this]
  exact h.setFrames fs (fun x hx => h.sfF x (by rw [hk]; exact List.mem_cons_of_mem _ hx))
    (by rw [hk, scopeIds_cons_of_notScope fr fs hns])

theorem Running.push {k : K} (h : Running k) (fr : Frame) : Running (k.push fr) := h.setFrames _
theorem Running.pop {k : K} (h : Running k) : Running k.pop := h.setFrames _

theorem Core.newFut {ms : List Handle} {k : K} (h : Core ms k) : Core ms k.newFut :=
  h.mono (by simpa using h.sfF) (by simp) (fun x hx => Or.inl (by simpa using hx)) (fun s hs => by simpa using hs)
    (fun p hp => Or.inl (by simpa using hp)) (by simp) (fun s => by simp) (fun s hs => Or.inl (by simpa using hs)) (by simp)
    (fun f o => by rw [futCb_newFut]; exact h.cbs f o)

theorem Running.newFut {k : K} (h : Running k) : Running k.newFut :=
  h.mono (fun x hx => Or.inl (by simpa using hx)) (fun f => futCb_newFut k f) (by simp) (by simp) (by simp)

theorem Core.setBad {ms : List Handle} {k : K} (h : Core ms k) : Core ms { k with bad := k.bad || false } :=
  h.mono h.sfF rfl (fun x hx => Or.inl hx) (fun s hs => hs) (fun p hp => Or.inl hp) rfl (fun s => rfl)
    (fun s hs => Or.inl hs) (by simp) h.cbs

theorem Running.setBad {k : K} (h : Running k) (b : Bool) : Running { k with bad := b } :=
  h.mono (fun x hx => Or.inl hx) (fun f => rfl) rfl rfl rfl

theorem bubble_sf (fs : List Frame) (y : Yield) (k : K) (h : ∀ fr ∈ fs, fr.sf = true) : bubble fs y k = (fs, y, k) := by
  induction fs with
  | nil => rfl
  | cons fr fs ih =>
    have h1 := h fr (by simp)
    have h2 := ih (fun x hx => h x (by simp [hx]))
    cases fr <;> simp_all [bubble, Frame.sf]

theorem resumeOuter_sf (fs : List Frame) (sg : Signal) (k : K) (h : ∀ fr ∈ fs, fr.sf = true) :
    resumeOuter fs sg k = (fs, .go sg, k) := by
  induction fs with
  | nil => rfl
  | cons fr fs ih =>
    have h1 := h fr (by simp)
    have h2 := ih (fun x hx => h x (by simp [hx]))
    cases fr <;> simp_all [resumeOuter, Frame.sf]

/-! ### the task parks -/

theorem flagNow_spec (k : K) (h : k.flagNow = true) :
    ∃ s ∈ scopeIds k.frames, (scopeOf k.scopes s).cancelCalled = true := by
  unfold K.flagNow K.ccBits K.stack at h
  simp only [Bool.and_eq_true, List.any_eq_true, List.mem_map] at h
  obtain ⟨⟨b, ⟨s, hs, hb⟩, hbt⟩, _⟩ := h
  exact ⟨s, hs, by rw [← scope_eq, hb]; exact hbt⟩

/-- parked at a bare yield (`sleep(0)`, `coro_yield()`): `Task.__step` schedules the next step -/
theorem park_bare (k : K) (id : Nat) (flag : Bool) (fs : List Frame) (h : Core [] k) (hr : Running k)
    (hk : k.frames = .blkF id .bare flag :: fs)
    (hfl : flag = true → ∃ s ∈ scopeIds k.frames, (scopeOf k.scopes s).cancelCalled = true) :
    Core [] (k.callSoon .step) ∧ Parked (k.callSoon .step) := by
  have hnw := (wakes_nil_iff _).mp hr.noWake
  refine ⟨?_, ⟨⟨fun f hf => ?_, fun _ => by simpa using hr.waiter, fun f hf => ?_, ?_, fun f hf => ?_⟩, fun hF => ?_⟩⟩
  · exact h.mono (by simpa using h.sfF) (by simp) (fun x hx => by
        simp only [Q_callSoon, List.mem_append, List.mem_singleton] at hx
        rcases hx with hx | hx
        · exact Or.inl hx
        · subst hx; exact Or.inr ⟨rfl, fun s hs => by cases hs⟩)
      (fun s hs => by simp [hs]) (fun p hp => Or.inl (by simpa using hp)) (by simp) (fun s => by simp)
      (fun s hs => Or.inl (by simpa using hs)) (by simp) (fun f o => by simpa using h.cbs f o)
  · simp only [Q_callSoon, List.mem_append, List.mem_singleton] at hf
    rcases hf with hf | hf
    · have := hnw _ hf; simp [Handle.isWake] at this
    · cases hf
  · simp only [Q_callSoon, List.mem_append, List.mem_singleton] at hf
    rcases hf with hf | hf
    · have := hnw _ hf; simp [Handle.isWake] at this
    · cases hf
  · rw [Q_callSoon, wakes_append, hr.noWake]
    simp only [wakes, List.nil_append]
    exact Nat.le_trans (List.length_filter_le _ _) (by simp)
  · exact absurd (by simpa using hf) (hr.noCb f)
  · right
    obtain ⟨id', kd, fs', hF⟩ := hF
    simp only [callSoon_frames, hk] at hF
    injection hF with hF _
    injection hF with _ _ hflag
    obtain ⟨s, hs, hc⟩ := hfl hflag
    rcases h.ha s hs hc with h1 | h1
    · rw [Q_callSoon]; exact safe_of_mem _ _ s hnw h1
    · simp at h1

/-- parked at the future of `asyncio.sleep(d)`: `Task.__step` registers its wake-up on the future -/
theorem park_sleep (k : K) (id f : Nat) (flag : Bool) (fs : List Frame) (h : Core [] k) (hr : Running k)
    (hk : k.frames = .blkF id (.sleep f) flag :: fs) (hfv : f < k.futs.length)
    (hfl : flag = true → ∃ s ∈ scopeIds k.frames, (scopeOf k.scopes s).cancelCalled = true) :
    Core [] (k.setWaiter f) ∧ Parked (k.setWaiter f) := by
  have hnw := (wakes_nil_iff _).mp hr.noWake
  have hcb : ∀ f', (k.setWaiter f).futCb f' = if f' = f then .wakeup else k.futCb f' := by
    intro f'
    show (k.updFut f (fun x => { x with cb := .wakeup })).futCb f' = _
    by_cases hff : f' = f
    · subst hff; rw [futCb_updFut_self_cb]; simp [hfv]
    · rw [futCb_updFut_ne _ _ _ _ hff]; simp [hff]
  have hQ : (k.setWaiter f).Q = k.Q := rfl
  refine ⟨?_, ⟨⟨fun f' hf => ?_, fun hs => ?_, fun f' hf => ?_, ?_, fun f' hf => ?_⟩, fun hF => ?_⟩⟩
  · exact h.mono (by simpa using h.sfF) (by simp) (fun x hx => Or.inl (by rw [hQ] at hx; exact hx))
      (fun s hs => by rw [hQ]; exact hs) (fun p hp => Or.inl (by simpa using hp)) (by simp) (fun s => by simp)
      (fun s hs => Or.inl (by simpa using hs)) (by simp) (fun f' o => by
        rw [hcb]; split
        · simp
        · exact h.cbs f' o)
  · rw [hQ] at hf; have := hnw _ hf; simp [Handle.isWake] at this
  · rw [hQ] at hs; have := hnw _ hs; simp [Handle.isWake] at this
  · rw [hQ] at hf; have := hnw _ hf; simp [Handle.isWake] at this
  · rw [hQ, hr.noWake]; simp
  · rw [hcb] at hf
    split at hf
    · rename_i he; subst he; rfl
    · exact absurd hf (hr.noCb f')
  · right
    obtain ⟨id', kd, fs', hF⟩ := hF
    simp only [setWaiter_frames, hk] at hF
    injection hF with hF _
    injection hF with _ _ hflag
    obtain ⟨s, hs, hc⟩ := hfl hflag
    rcases h.ha s hs hc with h1 | h1
    · rw [hQ]
      have := safe_of_mem k.Q [] s hnw h1
      simpa using this
    · simp at h1

/-! ### micro-steps -/

theorem Core.sf_head {ms : List Handle} {k : K} {fr : Frame} {fs : List Frame} (h : Core ms k) (hk : k.frames = fr :: fs) :
    fr.sf = true := h.sfF fr (by rw [hk]; simp)

def CancelledOnStack (k : K) : Prop := ∃ s ∈ scopeIds k.frames, (scopeOf k.scopes s).cancelCalled = true

/-- what a micro-step of a shield-free coroutine leaves behind -/
def StepOK (k' : K) : Next → Prop
  | .cont c1 => Core [] k' ∧ Running k' ∧ ∀ sg, c1 ≠ .resume sg
  | .yielded .bare => Core [] k' ∧ Running k' ∧ ∃ id flag fs, k'.frames = .blkF id .bare flag :: fs ∧ (flag = true → CancelledOnStack k')
  | .yielded (.fut f) => Core [] k' ∧ Running k' ∧
      ∃ id flag fs, k'.frames = .blkF id (.sleep f) flag :: fs ∧ f < k'.futs.length ∧ (flag = true → CancelledOnStack k')
  | .finished _ => Core [] k' ∧ Running k' ∧ k'.frames = []

theorem startStmt_R (k : K) (st : Stmt) (hst : st.sf = true) (h : Core [] k) (hr : Running k) :
    StepOK (k.startStmt st).1 (k.startStmt st).2 := by
  cases st with
  | sleep id d =>
    cases d with
    | zero =>
      simp only [K.startStmt, StepOK]
      refine ⟨(h.emit _).push _ rfl (by intro s t; simp), (hr.emit _).push _, id, k.flagNow, k.frames, rfl, fun hf => ?_⟩
      obtain ⟨s, hs, hc⟩ := flagNow_spec k hf
      exact ⟨s, by simpa [K.push, scopeIds] using hs, by simpa using hc⟩
    | succ d =>
      simp only [K.startStmt, StepOK]
      refine ⟨(((h.emit _).newFut).callAt _ _ _ rfl).push _ rfl (by intro s t; simp), ((((hr.emit _).newFut).callAt _ _ _)).push _,
        id, k.flagNow, k.frames, rfl, by simp [K.newFut], fun hf => ?_⟩
      obtain ⟨s, hs, hc⟩ := flagNow_spec k hf
      exact ⟨s, by simpa [K.push, scopeIds] using hs, by simpa using hc⟩
  | yield_ id =>
    simp only [K.startStmt, StepOK]
    refine ⟨(h.emit _).push _ rfl (by intro s t; simp), (hr.emit _).push _, id, k.flagNow, k.frames, rfl, fun hf => ?_⟩
    obtain ⟨s, hs, hc⟩ := flagNow_spec k hf
    exact ⟨s, by simpa [K.push, scopeIds] using hs, by simpa using hc⟩
  | syield id => simp [Stmt.sf] at hst
  | cancel id i =>
    simp only [K.startStmt]
    split
    · rename_i s hs
      have hs' : s ∈ scopeIds k.frames := List.mem_of_getElem? hs
      have := scopeCancelCur_inv k s h hr hs'
      exact ⟨this.1.emit _, this.2.1.emit _, by intro sg; simp⟩
    · exact ⟨h, hr, by intro sg; simp⟩
  | resched id i d =>
    simp only [K.startStmt]
    split
    · rename_i s hs
      have hs' : s ∈ scopeIds k.frames := List.mem_of_getElem? hs
      have := rescheduleCur_inv k s (d.map (k.now + ·)) h hr hs'
      exact ⟨this.1.emit _, this.2.1.emit _, by intro sg; simp⟩
    · exact ⟨h, hr, by intro sg; simp⟩
  | scope id to delay pre body =>
    simp only [K.startStmt, StepOK]
    have := scopeEnter_inv k id to delay pre h hr
    have hb : (Frame.seq body).sf = true := by simpa [Stmt.sf, Frame.sf] using hst
    exact ⟨(this.1.emit _).push _ hb (by intro s t; simp), (this.2.1.emit _).push _, by intro sg; simp⟩
  | shield id body => simp [Stmt.sf] at hst
  | tryc id body => simp [Stmt.sf] at hst

theorem endScope_R (k : K) (s : Nat) (to : Bool) (e : Option Exc) (fs : List Frame) (hk : k.frames = .scopeF s to :: fs)
    (h : Core [] k) (hr : Running k) : StepOK (k.endScope s to e).1 (k.endScope s to e).2 := by
  have := scopeExitCur_inv k s to fs e hk h hr
  unfold K.endScope nextOf
  split <;> exact ⟨this.1.emit _, this.2.1.emit _, by intro sg; simp⟩

theorem notFlagged_of_frames {k : K} {id : Nat} {kd : BlkKind} {flag : Bool} {fs : List Frame}
    (hk : k.frames = .blkF id kd flag :: fs) (hn : ¬ Flagged k) : flag = false := by
  cases flag with
  | false => rfl
  | true => exact absurd ⟨id, kd, fs, hk⟩ hn

/-- a micro-step keeps the running invariant; it can only complete a blocking operation that is not flagged -/
theorem coStep_R (k : K) (c : Ctl) (h : Core [] k) (hr : Running k) (hc : c = .resume .ok → ¬ Flagged k) :
    StepOK (k.coStep c).1 (k.coStep c).2 := by
  unfold K.coStep
  split
  all_goals first
    | exact ⟨h, hr, by assumption⟩
    | (rename_i hfr; exact ⟨h.pop_notScope _ _ hfr (by intro s t; simp), hr.pop, by intro sg; simp⟩)
    | skip
  case h_6 =>
    rename_i s rest fs hfr
    have hsf := h.sf_head hfr
    simp only [Frame.sf, Stmt.sfList, Bool.and_eq_true] at hsf
    have h1 : Core [] { k with frames := .seq rest :: fs } :=
      h.setFrames _ (fun x hx => by
        rcases List.mem_cons.mp hx with hx | hx
        · subst hx; exact hsf.2
        · exact h.sfF x (by rw [hfr]; exact List.mem_cons_of_mem _ hx)) (by rw [hfr]; simp [scopeIds])
    exact startStmt_R _ s hsf.1 h1 (hr.setFrames _)
  case h_8 => rename_i hfr; exact endScope_R k _ _ _ _ hfr h hr
  case h_9 => rename_i hfr; exact endScope_R k _ _ _ _ hfr h hr
  case h_11 => rename_i hfr; have := h.sf_head hfr; simp [Frame.sf] at this
  case h_13 => rename_i hfr; have := h.sf_head hfr; simp [Frame.sf] at this
  case h_14 => rename_i hfr; have := h.sf_head hfr; simp [Frame.sf] at this
  case h_15 =>
    rename_i id f flag tail hfr
    have hflag : flag = false := notFlagged_of_frames hfr (hc rfl)
    subst hflag
    refine ⟨?_, ?_, by intro sg; simp⟩
    · exact Core.setBad (((h.pop_notScope _ _ hfr (by intro s t; simp)).cancelHandle_other _ rfl).emit _)
    · exact Running.setBad (((hr.pop).cancelHandle _).emit _) _
  case h_16 =>
    rename_i hfr
    exact ⟨((h.pop_notScope _ _ hfr (by intro s t; simp)).cancelHandle_other _ rfl).emit _, ((hr.pop).cancelHandle _).emit _,
      by intro sg; simp⟩
  case h_17 =>
    rename_i id flag tail hfr
    have hflag : flag = false := notFlagged_of_frames hfr (hc rfl)
    subst hflag
    refine ⟨?_, ?_, by intro sg; simp⟩
    · exact Core.setBad ((h.pop_notScope _ _ hfr (by intro s t; simp)).emit _)
    · exact Running.setBad ((hr.pop).emit _) _
  case h_18 =>
    rename_i hfr
    exact ⟨(h.pop_notScope _ _ hfr (by intro s t; simp)).emit _, (hr.pop).emit _, by intro sg; simp⟩
  case h_19 => rename_i hfr; have := h.sf_head hfr; simp [Frame.sf] at this
  case h_20 => rename_i hfr; have := h.sf_head hfr; simp [Frame.sf] at this
  case h_21 => exact ⟨h, hr, by intro sg; simp⟩
  case h_22 => exact ⟨h, hr, by intro sg; simp⟩

end EasyNet.CS
