/-
  _buffered_readuntil (buffered path, repaired variant): resumed, windowed search in the shared buffer
  = fresh scan of the received bytes (`BRU.spec`).
-/
import EasyNet.Lemmas.Find
import EasyNet.Lemmas.RUSpec
import EasyNet.Lemmas.BufConsumerSim
namespace EasyNet

def BRU.Inv (sep : Bytes) (cap : Nat) (s : BRUState) (b : Bytes) : Prop :=
  s.buflen = b.length ∧ (s.offset = 0 ∨ (s.offset + sep.length ≤ b.length + 1 ∧ b.length + 2 ≤ cap)) ∧
  ∀ j, j < s.offset → matchAt sep b j = false

theorem BRU.refines (sep : Bytes) (cap : Nat) (ke : Bool) (hsep : sep ≠ []) :
    BRefines BRU.init (BRU.feed true sep ke) (·.buflen) (BRU.spec sep cap ke) (BRU.Inv sep cap) cap := by
  have hpos : 0 < sep.length := List.length_pos_iff.mpr hsep
  constructor
  · exact ⟨rfl, Or.inl rfl, fun j hj => by simp [BRU.init] at hj⟩
  · intro s b h; exact h.1
  · intro s buffer total hcap hinv hfit
    obtain ⟨hlen, hfull, hno⟩ := hinv
    have hblen : (buffer.take s.buflen).length = s.buflen := by simp; omega
    have hb'len : (buffer.take (s.buflen + total)).length = s.buflen + total := by simp; omega
    -- matches strictly before the resume offset are excluded in the longer prefix too
    have hno' : ∀ j, j < s.offset → matchAt sep (buffer.take (s.buflen + total)) j = false := by
      intro j hj
      have hjl : j + sep.length ≤ s.buflen := by
        rcases hfull with h0 | ⟨h1, _⟩
        · omega
        · rw [hblen] at h1; omega
      have := hno j hj
      rw [matchAt_take _ _ _ _ hjl] at this
      rw [matchAt_take _ _ _ _ (by omega)]
      exact this
    unfold BRU.feed BRU.spec
    simp only [if_true]
    by_cases hsearch : s.offset + sep.length ≤ s.buflen + total
    · simp only [hsearch, if_true]
      have hfind : findIn sep buffer s.offset (s.buflen + total) = firstOcc sep (buffer.take (s.buflen + total)) := by
        unfold firstOcc findFrom
        rw [findIn_take, hb'len]
        exact findIn_resume sep _ s.offset _ hsep hno'
      rw [hfind]
      cases hf : firstOcc sep (buffer.take (s.buflen + total)) with
      | some i =>
        have hs := findIn_some _ _ _ _ _ (by unfold firstOcc findFrom at hf; exact hf)
        rw [hb'len] at hs
        simp only [BRes.erase]
        refine ⟨?_, fun s' st h => by cases h⟩
        congr 1
        rw [List.take_take]
        congr 1
        split <;> omega
      | none =>
        simp only [hb'len]
        by_cases hl : s.buflen + total + 1 - sep.length + sep.length + 1 > buffer.length
        · have hl' : s.buflen + total + 2 > cap ∧ sep.length ≤ s.buflen + total := by omega
          simp only [hl, hl', if_true, BRes.erase, and_self, true_and]
          intro s' st h; cases h
        · have hl' : ¬ (s.buflen + total + 2 > cap ∧ sep.length ≤ s.buflen + total) := by omega
          simp only [hl, hl', if_false, BRes.erase, true_and]
          intro s' st h
          injection h with h1 h2
          subst h1; subst h2
          refine ⟨⟨hb'len.symm, by right; simp only; rw [hb'len]; omega, ?_⟩, rfl⟩
          intro j hj
          simp only at hj
          unfold firstOcc findFrom at hf
          rw [hb'len] at hf
          exact findIn_none sep _ 0 _ hsep hf j (by omega) (by omega)
    · simp only [hsearch, if_false, BRes.erase]
      have hnone : firstOcc sep (buffer.take (s.buflen + total)) = none := by
        unfold firstOcc findFrom
        apply findIn_eq_none
        intro j _ hj
        rw [hb'len] at hj
        by_cases hlt : j < s.offset
        · exact hno' j hlt
        · omega
      rw [hnone]
      have hl' : ¬ ((buffer.take (s.buflen + total)).length + 2 > cap ∧ sep.length ≤ (buffer.take (s.buflen + total)).length) := by
        rw [hb'len]
        intro ⟨_, h2⟩
        -- no search happened: offset + |sep| > buflen'; with |sep| ≤ buflen' this forces offset > 0, i.e. a previous search,
        -- whose offset satisfies offset + |sep| ≤ old buflen + 1 ≤ buflen' + 1, so total = 0 and nothing changed
        rcases hfull with h0 | ⟨h1, h3⟩
        · omega
        · rw [hblen] at h1 h3; omega
      simp only [hl', if_false, true_and]
      intro s' st h
      injection h with h1 h2
      subst h1; subst h2
      refine ⟨⟨hb'len.symm, ?_, hno'⟩, rfl⟩
      rcases hfull with h0 | ⟨h1, h3⟩
      · left; exact h0
      · right; rw [hblen] at h1 h3; simp only; rw [hb'len]; omega
  · -- rest_lt
    intro b d r h
    unfold BRU.spec at h
    cases hf : firstOcc sep b with
    | none => rw [hf] at h; simp only at h; split at h <;> cases h
    | some i =>
      rw [hf] at h; simp only at h
      unfold firstOcc findFrom at hf
      have hs := findIn_some _ _ _ _ _ hf
      injection h with _ hr
      subst hr; simp; omega
  · -- rest_lt'
    intro b r h
    unfold BRU.spec at h
    cases hf : firstOcc sep b with
    | some i => rw [hf] at h; simp only at h; cases h
    | none =>
      rw [hf] at h; simp only at h
      split at h
      · rename_i hl
        injection h with hr
        have := limitRemainder_length_le b (b.length + 1 - sep.length) sep
        rw [hr] at this
        omega
      · cases h

end EasyNet
