/-
  C09 — laws about what OpenSSL may answer (`TlsEofLaws`) and the generic lemmas of the retry loop.

  The SSL object and the wrapped transport are the *script* of Model/TlsEof.lean.  The laws constrain scripts:

    lawClean need fed script     (`LawClean`)  a *clean* answer of `read` — it returns `b""` or raises (a subclass of)
                                 `SSLZeroReturnError` — is given only when at least `need` bytes have been written into the read
                                 BIO, `need` = the stream offset at which the peer's close_notify record ends; and the wrapped
                                 transport raises no SSL exception of its own.
    Ragged T rEof script         what a law-abiding engine answers to `read` once the wrapped transport has reported EOF and no
                                 complete close_notify was fed: buffered plaintext, WANT_READ as long as `read_bio.write_eof()` has
                                 not been called (answered by the transport with EOF again), afterwards the EOF error
                                 (`SSLEOFError`, or `SSLError` with the UNEXPECTED_EOF_WHILE_READING reason) — never WANT_READ.
    (UnwrapLaw is a hypothesis of C09_close_sends_notify: the first `unwrap()` appends the alert record to the write BIO.)
-/
import EasyNet.Model.TlsEof
namespace EasyNet.TlsEof
variable {ε : Type}

/-- a clean answer of `read` -/
def cleanAns (T : Tables ε) : SslAns ε → Bool
  | .ret 0 => true
  | .ret _ => false
  | .raise e _ => T.sub e T.zeroReturn

/-- `LawClean`: see the header.  `fed` = bytes written into the read BIO before the script starts. -/
def lawClean (T : Tables ε) (need : Nat) : Nat → List (Resp ε) → Bool
  | _, [] => true
  | fed, .tr (.n k) :: rest => lawClean T need (fed + (k + 1)) rest
  | fed, .ssl a _ _ :: rest => (!cleanAns T a || decide (need ≤ fed)) && lawClean T need fed rest
  | fed, .tr (.raise e) :: rest => !T.sub e T.sslError && lawClean T need fed rest
  | fed, .tr _ :: rest => lawClean T need fed rest

/-- bytes the wrapped transport delivers in the whole script -/
def totalFed : List (Resp ε) → Nat
  | [] => 0
  | .tr (.n k) :: rest => (k + 1) + totalFed rest
  | _ :: rest => totalFed rest

/-- what may leave the retry loop, as far as end-of-stream reporting is concerned -/
def rrOK (T : Tables ε) (need fed : Nat) : RR ε → Prop
  | .ret n => n = 0 → need ≤ fed
  | .exn (.cls e _) => (T.sub e T.zeroReturn = true → need ≤ fed) ∨ T.sub e T.sslError = false
  | .exn _ => True

theorem lawClean_mono_need (T : Tables ε) (need : Nat) : ∀ (script : List (Resp ε)) (fed fed' : Nat), fed ≤ fed' →
    lawClean T need fed script = true → lawClean T need fed' script = true := by
  intro script
  induction script with
  | nil => intros; rfl
  | cons r rest ih =>
    intro fed fed' hle h
    cases r with
    | ssl a out alert =>
      simp only [lawClean, Bool.and_eq_true, Bool.or_eq_true, Bool.not_eq_true', decide_eq_true_eq] at h ⊢
      refine ⟨?_, ih fed fed' hle h.2⟩
      cases h.1 with
      | inl h1 => exact Or.inl h1
      | inr h1 => exact Or.inr (by omega)
    | tr a =>
      cases a with
      | n k => simp only [lawClean] at h ⊢; exact ih _ _ (by omega) h
      | raise e =>
        simp only [lawClean, Bool.and_eq_true] at h ⊢
        exact ⟨h.1, ih fed fed' hle h.2⟩
      | ok => simp only [lawClean] at h ⊢; exact ih fed fed' hle h
      | eof => simp only [lawClean] at h ⊢; exact ih fed fed' hle h
      | cancel => simp only [lawClean] at h ⊢; exact ih fed fed' hle h
      | timeout => simp only [lawClean] at h ⊢; exact ih fed fed' hle h

/-! ### flush / sendPending keep the law and the ghost counter -/

theorem sendPending_spec (T : Tables ε) (need : Nat) (s : St) (script : List (Resp ε)) (x : Option (Exn ε)) (s2 : St)
    (rest2 : List (Resp ε)) (calls : List Call)
    (h : sendPending s script = some (x, s2, rest2, calls)) (hl : lawClean T need s.fed script = true) :
    s2.fed = s.fed ∧ s2.rEof = s.rEof ∧ lawClean T need s2.fed rest2 = true ∧ rest2.length < script.length ∧
    (∀ e p, x = some (.cls e p) → T.sub e T.sslError = false) := by
  unfold sendPending at h
  split at h
  all_goals first
    | (simp only [Option.some.injEq, Prod.mk.injEq] at h
       obtain ⟨hx, hs, hr, _⟩ := h
       subst hx; subst hs; subst hr
       simp only [lawClean, Bool.and_eq_true, Bool.not_eq_true'] at hl
       refine ⟨rfl, rfl, ?_, by simp, ?_⟩
       · first | exact hl | exact hl.2
       · intro e p hx
         first
           | (simp only [Option.some.injEq, Exn.cls.injEq] at hx; obtain ⟨he, _⟩ := hx; subst he; exact hl.1)
           | (simp at hx))
    | (simp at h)

theorem flush_spec (T : Tables ε) (need : Nat) (s : St) (script : List (Resp ε)) (x : Option (Exn ε)) (s2 : St)
    (rest2 : List (Resp ε)) (calls : List Call)
    (h : flush s script = some (x, s2, rest2, calls)) (hl : lawClean T need s.fed script = true) :
    s2.fed = s.fed ∧ s2.rEof = s.rEof ∧ lawClean T need s2.fed rest2 = true ∧ rest2.length ≤ script.length ∧
    (∀ e p, x = some (.cls e p) → T.sub e T.sslError = false) := by
  unfold flush at h
  split at h
  · simp only [Option.some.injEq, Prod.mk.injEq] at h
    obtain ⟨hx, hs, hr, _⟩ := h
    subst hx; subst hs; subst hr
    exact ⟨rfl, rfl, hl, Nat.le_refl _, by intro e p hx; simp at hx⟩
  · have := sendPending_spec T need s script x s2 rest2 calls h hl
    exact ⟨this.1, this.2.1, this.2.2.1, Nat.le_of_lt this.2.2.2.1, this.2.2.2.2⟩

@[simp] theorem addOut_fed (s : St) (o : Nat) (a : Bool) : (addOut s o a).fed = s.fed := rfl
@[simp] theorem addOut_rEof (s : St) (o : Nat) (a : Bool) : (addOut s o a).rEof = s.rEof := rfl
@[simp] theorem markBoth_fed (s : St) : (markBoth s).fed = s.fed := rfl
@[simp] theorem markBoth_rEof (s : St) : (markBoth s).rEof = true := rfl

theorem innerCatch_fed (T : Tables ε) (s : St) (x : Exn ε) : (innerCatch T s x).fed = s.fed := by
  cases x with
  | cls e p => simp only [innerCatch]; split <;> rfl
  | cancel => rfl
  | scopeTimeout => rfl

theorem innerCatch_rEof (T : Tables ε) (s : St) (x : Exn ε) (h : s.rEof = true) : (innerCatch T s x).rEof = true := by
  cases x with
  | cls e p => simp only [innerCatch]; split <;> simp [h]
  | cancel => exact h
  | scopeTimeout => exact h

/-- **the retry loop keeps the law**: whatever `_retry_ssl_method` returns or raises, the rest of the script still obeys
    `lawClean` for the bytes fed so far, the ghost counter only grows, and a clean result (`ret 0`, or a `SSLZeroReturnError`
    subclass coming out of the SSL object) implies that at least `need` bytes had been fed. -/
theorem retry_clean (T : Tables ε) (m : Method) (need : Nat) : ∀ (fuel : Nat) (s : St) (script : List (Resp ε)) (r : RR ε)
    (s' : St) (rest : List (Resp ε)) (calls : List Call),
    retry T m fuel s script = some (r, s', rest, calls) → lawClean T need s.fed script = true →
    s.fed ≤ s'.fed ∧ lawClean T need s'.fed rest = true ∧ rest.length < script.length ∧ rrOK T need s'.fed r ∧
    (s.rEof = true → s'.rEof = true) := by
  intro fuel
  induction fuel with
  | zero => intro s script r s' rest calls h; simp [retry] at h
  | succ fuel ih =>
    intro s script r s' rest calls h hl
    unfold retry at h
    split at h
    · -- ssl ret
      rename_i n out alert rest0
      simp only [lawClean, Bool.and_eq_true, Bool.or_eq_true, Bool.not_eq_true', decide_eq_true_eq] at hl
      have hn : n = 0 → need ≤ s.fed := by
        intro h0; subst h0
        cases hl.1 with
        | inl h1 => simp [cleanAns] at h1
        | inr h1 => exact h1
      split at h
      · simp only [Option.some.injEq, Prod.mk.injEq] at h
        obtain ⟨hr, hs, hrest, _⟩ := h
        subst hr; subst hs; subst hrest
        exact ⟨by simp, by simpa using hl.2, by simp, by simpa [rrOK] using hn, by simp⟩
      · split at h
        · simp at h
        · rename_i s2 rest2 calls2 hf
          have F := flush_spec T need (addOut s out alert) rest0 none s2 rest2 calls2 hf (by simpa using hl.2)
          simp only [Option.some.injEq, Prod.mk.injEq] at h
          obtain ⟨hr, hs, hrest, _⟩ := h
          subst hr; subst hs; subst hrest
          simp only [addOut_fed, addOut_rEof] at F
          refine ⟨by omega, F.2.2.1, by simp only [List.length_cons]; omega, ?_, by intro h1; rw [F.2.1]; exact h1⟩
          simp only [rrOK]; intro h0; have := hn h0; omega
        · rename_i x s2 rest2 calls2 hf
          have F := flush_spec T need (addOut s out alert) rest0 (some x) s2 rest2 calls2 hf (by simpa using hl.2)
          simp only [Option.some.injEq, Prod.mk.injEq] at h
          obtain ⟨hr, hs, hrest, _⟩ := h
          subst hr; subst hs; subst hrest
          simp only [addOut_fed, addOut_rEof] at F
          refine ⟨by omega, F.2.2.1, by simp only [List.length_cons]; omega, ?_, by intro h1; rw [F.2.1]; exact h1⟩
          cases x with
          | cls e p => exact Or.inr (F.2.2.2.2 e p rfl)
          | cancel => trivial
          | scopeTimeout => trivial
    · -- ssl raise
      rename_i e pat out alert rest0
      simp only [lawClean, Bool.and_eq_true, Bool.or_eq_true, Bool.not_eq_true', decide_eq_true_eq] at hl
      have he : T.sub e T.zeroReturn = true → need ≤ s.fed := by
        intro h0
        cases hl.1 with
        | inl h1 => simp [cleanAns, h0] at h1
        | inr h1 => exact h1
      split at h
      · -- wantRead
        split at h
        · simp at h
        · -- flush raised
          rename_i x s2 rest2 calls2 hf
          have F : s2.fed = s.fed ∧ s2.rEof = s.rEof ∧ lawClean T need s2.fed rest2 = true ∧ rest2.length ≤ rest0.length ∧
              (∀ e p, some x = some (Exn.cls e p) → T.sub e T.sslError = false) := by
            split at hf
            · have := flush_spec T need (addOut s out alert) rest0 (some x) s2 rest2 calls2 hf (by simpa using hl.2)
              simpa using this
            · simp at hf
          simp only [Option.some.injEq, Prod.mk.injEq] at h
          obtain ⟨hr, hs, hrest, _⟩ := h
          subst hr; subst hs; subst hrest
          refine ⟨by rw [innerCatch_fed]; omega, by rw [innerCatch_fed]; exact F.2.2.1, by simp only [List.length_cons]; omega, ?_,
            by intro h1; exact innerCatch_rEof T s2 x (by rw [F.2.1]; exact h1)⟩
          cases x with
          | cls e' p' => exact Or.inr (F.2.2.2.2 e' p' rfl)
          | cancel => trivial
          | scopeTimeout => trivial
        · -- flush ok
          rename_i s2 rest2 calls2 hf
          have F : s2.fed = s.fed ∧ s2.rEof = s.rEof ∧ lawClean T need s2.fed rest2 = true ∧ rest2.length ≤ rest0.length := by
            split at hf
            · have := flush_spec T need (addOut s out alert) rest0 none s2 rest2 calls2 hf (by simpa using hl.2)
              simpa using ⟨this.1, this.2.1, this.2.2.1, this.2.2.2.1⟩
            · simp only [Option.some.injEq, Prod.mk.injEq] at hf
              obtain ⟨_, hs, hr, _⟩ := hf
              subst hs; subst hr
              exact ⟨by simp, by simp, by simpa using hl.2, Nat.le_refl _⟩
          split at h
          · -- tr n k
            rename_i k rest3
            split at h
            · simp at h
            · rename_i r3 s3 rest4 calls' hrec
              have hl3 : lawClean T need (s2.fed + (k + 1)) rest3 = true := by
                have := F.2.2.1; simpa [lawClean] using this
              have I := ih { s2 with fed := s2.fed + (k + 1) } rest3 r3 s3 rest4 calls' hrec hl3
              simp only [Option.some.injEq, Prod.mk.injEq] at h
              obtain ⟨hr, hs, hrest, _⟩ := h
              subst hr; subst hs; subst hrest
              simp only at I
              refine ⟨by omega, I.2.1, ?_, I.2.2.2.1, ?_⟩
              · have := I.2.2.1; have := F.2.2.2; simp only [List.length_cons] at *; omega
              · intro h1; exact I.2.2.2.2 (by rw [F.2.1]; exact h1)
          · -- tr eof
            rename_i rest3
            split at h
            · simp at h
            · rename_i r3 s3 rest4 calls' hrec
              have hl3 : lawClean T need s2.fed rest3 = true := by
                have := F.2.2.1; simpa [lawClean] using this
              have I := ih { s2 with rEof := s2.rEof || T.readintoEofOnZero } rest3 r3 s3 rest4 calls' hrec hl3
              simp only [Option.some.injEq, Prod.mk.injEq] at h
              obtain ⟨hr, hs, hrest, _⟩ := h
              subst hr; subst hs; subst hrest
              simp only at I
              refine ⟨by omega, I.2.1, ?_, I.2.2.2.1, ?_⟩
              · have := I.2.2.1; have := F.2.2.2; simp only [List.length_cons] at *; omega
              · intro h1; exact I.2.2.2.2 (by rw [F.2.1, h1]; rfl)
          · -- tr raise
            rename_i e' rest3
            simp only [Option.some.injEq, Prod.mk.injEq] at h
            obtain ⟨hr, hs, hrest, _⟩ := h
            subst hr; subst hs; subst hrest
            have hl3 := F.2.2.1
            simp only [lawClean, Bool.and_eq_true, Bool.not_eq_true'] at hl3
            refine ⟨by rw [innerCatch_fed]; omega, by rw [innerCatch_fed]; exact hl3.2, ?_, Or.inr hl3.1,
              by intro h1; exact innerCatch_rEof T s2 _ (by rw [F.2.1]; exact h1)⟩
            have := F.2.2.2; simp only [List.length_cons] at *; omega
          · -- tr cancel
            rename_i rest3
            simp only [Option.some.injEq, Prod.mk.injEq] at h
            obtain ⟨hr, hs, hrest, _⟩ := h
            subst hr; subst hs; subst hrest
            have hl3 := F.2.2.1
            simp only [lawClean] at hl3
            refine ⟨by omega, hl3, ?_, trivial, by intro h1; rw [F.2.1]; exact h1⟩
            have := F.2.2.2; simp only [List.length_cons] at *; omega
          · -- tr timeout
            rename_i rest3
            simp only [Option.some.injEq, Prod.mk.injEq] at h
            obtain ⟨hr, hs, hrest, _⟩ := h
            subst hr; subst hs; subst hrest
            have hl3 := F.2.2.1
            simp only [lawClean] at hl3
            refine ⟨by omega, hl3, ?_, trivial, by intro h1; rw [F.2.1]; exact h1⟩
            have := F.2.2.2; simp only [List.length_cons] at *; omega
          · simp at h
      · -- wantWrite
        split at h
        · simp at h
        · rename_i x s2 rest2 calls2 hf
          have F := sendPending_spec T need (addOut s out alert) rest0 (some x) s2 rest2 calls2 hf (by simpa using hl.2)
          simp only [Option.some.injEq, Prod.mk.injEq] at h
          obtain ⟨hr, hs, hrest, _⟩ := h
          subst hr; subst hs; subst hrest
          simp only [addOut_fed, addOut_rEof] at F
          refine ⟨by omega, F.2.2.1, by simp only [List.length_cons]; omega, ?_, by intro h1; rw [F.2.1]; exact h1⟩
          cases x with
          | cls e' p' => exact Or.inr (F.2.2.2.2 e' p' rfl)
          | cancel => trivial
          | scopeTimeout => trivial
        · rename_i s2 rest2 calls2 hf
          have F := sendPending_spec T need (addOut s out alert) rest0 none s2 rest2 calls2 hf (by simpa using hl.2)
          simp only [addOut_fed, addOut_rEof] at F
          split at h
          · simp at h
          · rename_i r3 s3 rest3 calls' hrec
            have I := ih s2 rest2 r3 s3 rest3 calls' hrec F.2.2.1
            simp only [Option.some.injEq, Prod.mk.injEq] at h
            obtain ⟨hr, hs, hrest, _⟩ := h
            subst hr; subst hs; subst hrest
            refine ⟨by omega, I.2.1, ?_, I.2.2.2.1, by intro h1; exact I.2.2.2.2 (by rw [F.2.1]; exact h1)⟩
            have := I.2.2.1; have := F.2.2.2.1; simp only [List.length_cons] at *; omega
      · -- markEofReraise
        simp only [Option.some.injEq, Prod.mk.injEq] at h
        obtain ⟨hr, hs, hrest, _⟩ := h
        subst hr; subst hs; subst hrest
        exact ⟨by simp, by simpa using hl.2, by simp, Or.inl (by simpa using he), by simp⟩
      · simp at h
      · -- not caught
        simp only [Option.some.injEq, Prod.mk.injEq] at h
        obtain ⟨hr, hs, hrest, _⟩ := h
        subst hr; subst hs; subst hrest
        exact ⟨by simp, by simpa using hl.2, by simp, Or.inl (by simpa using he), by simp⟩
    · simp at h

/-! ### the ghost counter is exactly what the wrapped transport delivered -/

theorem sendPending_fed (s : St) (script : List (Resp ε)) (x : Option (Exn ε)) (s2 : St) (rest2 : List (Resp ε)) (calls : List Call)
    (h : sendPending s script = some (x, s2, rest2, calls)) : s2.fed = s.fed ∧ totalFed rest2 = totalFed script := by
  unfold sendPending at h
  split at h
  all_goals first
    | (simp only [Option.some.injEq, Prod.mk.injEq] at h
       obtain ⟨_, hs, hr, _⟩ := h
       subst hs; subst hr
       exact ⟨rfl, by simp [totalFed]⟩)
    | (simp at h)

theorem flush_fed (s : St) (script : List (Resp ε)) (x : Option (Exn ε)) (s2 : St) (rest2 : List (Resp ε)) (calls : List Call)
    (h : flush s script = some (x, s2, rest2, calls)) : s2.fed = s.fed ∧ totalFed rest2 = totalFed script := by
  unfold flush at h
  split at h
  · simp only [Option.some.injEq, Prod.mk.injEq] at h
    obtain ⟨_, hs, hr, _⟩ := h
    subst hs; subst hr
    exact ⟨rfl, rfl⟩
  · exact sendPending_fed s script x s2 rest2 calls h

theorem retry_fed (T : Tables ε) (m : Method) : ∀ (fuel : Nat) (s : St) (script : List (Resp ε)) (r : RR ε)
    (s' : St) (rest : List (Resp ε)) (calls : List Call),
    retry T m fuel s script = some (r, s', rest, calls) → s'.fed + totalFed rest = s.fed + totalFed script := by
  intro fuel
  induction fuel with
  | zero => intro s script r s' rest calls h; simp [retry] at h
  | succ fuel ih =>
    intro s script r s' rest calls h
    unfold retry at h
    split at h
    · rename_i n out alert rest0
      split at h
      · simp only [Option.some.injEq, Prod.mk.injEq] at h
        obtain ⟨_, hs, hrest, _⟩ := h
        subst hs; subst hrest
        simp [totalFed]
      · split at h
        · simp at h
        · rename_i s2 rest2 calls2 hf
          have F := flush_fed (addOut s out alert) rest0 none s2 rest2 calls2 hf
          simp only [Option.some.injEq, Prod.mk.injEq] at h
          obtain ⟨_, hs, hrest, _⟩ := h
          subst hs; subst hrest
          simp only [addOut_fed] at F
          simp only [totalFed]; omega
        · rename_i x s2 rest2 calls2 hf
          have F := flush_fed (addOut s out alert) rest0 (some x) s2 rest2 calls2 hf
          simp only [Option.some.injEq, Prod.mk.injEq] at h
          obtain ⟨_, hs, hrest, _⟩ := h
          subst hs; subst hrest
          simp only [addOut_fed] at F
          simp only [totalFed]; omega
    · rename_i e pat out alert rest0
      split at h
      · split at h
        · simp at h
        · rename_i x s2 rest2 calls2 hf
          have F : s2.fed = s.fed ∧ totalFed rest2 = totalFed rest0 := by
            split at hf
            · simpa using flush_fed (addOut s out alert) rest0 (some x) s2 rest2 calls2 hf
            · simp at hf
          simp only [Option.some.injEq, Prod.mk.injEq] at h
          obtain ⟨_, hs, hrest, _⟩ := h
          subst hs; subst hrest
          rw [innerCatch_fed]; simp only [totalFed]; omega
        · rename_i s2 rest2 calls2 hf
          have F : s2.fed = s.fed ∧ totalFed rest2 = totalFed rest0 := by
            split at hf
            · simpa using flush_fed (addOut s out alert) rest0 none s2 rest2 calls2 hf
            · simp only [Option.some.injEq, Prod.mk.injEq] at hf
              obtain ⟨_, hs, hr, _⟩ := hf
              subst hs; subst hr
              exact ⟨by simp, rfl⟩
          split at h
          · rename_i k rest3
            split at h
            · simp at h
            · rename_i r3 s3 rest4 calls' hrec
              have I := ih { s2 with fed := s2.fed + (k + 1) } rest3 r3 s3 rest4 calls' hrec
              simp only [Option.some.injEq, Prod.mk.injEq] at h
              obtain ⟨_, hs, hrest, _⟩ := h
              subst hs; subst hrest
              simp only at I
              have := F.2; simp only [totalFed] at this ⊢; omega
          · rename_i rest3
            split at h
            · simp at h
            · rename_i r3 s3 rest4 calls' hrec
              have I := ih { s2 with rEof := s2.rEof || T.readintoEofOnZero } rest3 r3 s3 rest4 calls' hrec
              simp only [Option.some.injEq, Prod.mk.injEq] at h
              obtain ⟨_, hs, hrest, _⟩ := h
              subst hs; subst hrest
              simp only at I
              have := F.2; simp only [totalFed] at this ⊢; omega
          · rename_i e' rest3
            simp only [Option.some.injEq, Prod.mk.injEq] at h
            obtain ⟨_, hs, hrest, _⟩ := h
            subst hs; subst hrest
            rw [innerCatch_fed]
            have := F.2; simp only [totalFed] at this ⊢; omega
          · rename_i rest3
            simp only [Option.some.injEq, Prod.mk.injEq] at h
            obtain ⟨_, hs, hrest, _⟩ := h
            subst hs; subst hrest
            have := F.2; simp only [totalFed] at this ⊢; omega
          · rename_i rest3
            simp only [Option.some.injEq, Prod.mk.injEq] at h
            obtain ⟨_, hs, hrest, _⟩ := h
            subst hs; subst hrest
            have := F.2; simp only [totalFed] at this ⊢; omega
          · simp at h
      · split at h
        · simp at h
        · rename_i x s2 rest2 calls2 hf
          have F := sendPending_fed (addOut s out alert) rest0 (some x) s2 rest2 calls2 hf
          simp only [Option.some.injEq, Prod.mk.injEq] at h
          obtain ⟨_, hs, hrest, _⟩ := h
          subst hs; subst hrest
          simp only [addOut_fed] at F
          simp only [totalFed]; omega
        · rename_i s2 rest2 calls2 hf
          have F := sendPending_fed (addOut s out alert) rest0 none s2 rest2 calls2 hf
          simp only [addOut_fed] at F
          split at h
          · simp at h
          · rename_i r3 s3 rest3 calls' hrec
            have I := ih s2 rest2 r3 s3 rest3 calls' hrec
            simp only [Option.some.injEq, Prod.mk.injEq] at h
            obtain ⟨_, hs, hrest, _⟩ := h
            subst hs; subst hrest
            simp only [totalFed]; omega
      · simp only [Option.some.injEq, Prod.mk.injEq] at h
        obtain ⟨_, hs, hrest, _⟩ := h
        subst hs; subst hrest
        simp [totalFed]
      · simp at h
      · simp only [Option.some.injEq, Prod.mk.injEq] at h
        obtain ⟨_, hs, hrest, _⟩ := h
        subst hs; subst hrest
        simp [totalFed]
    · simp at h

/-! ### sequences of receive calls -/

/-- any sequence of `recv` / `recv_into` calls on one transport, run against the script; stops where the script ends -/
def recvSeq (T : Tables ε) (sc : Bool) : List Which → St → List (Resp ε) → List (Out ε × St)
  | [], _, _ => []
  | w :: ws, s, script =>
    match recv T sc w s script with
    | none => []
    | some (o, s', rest, _) => (o, s') :: recvSeq T sc ws s' rest

end EasyNet.TlsEof
