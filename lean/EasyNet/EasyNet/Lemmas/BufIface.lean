/-
  The buffer-filling consumer satisfies the consumer interface laws (`C15.IfaceSim`) used by the endpoint (C03) and
  stream-server (C15) theorems, for any buffered framer that refines a byte-level spec.
-/
import EasyNet.Lemmas.BufConsumerSim
import EasyNet.Lemmas.StreamServer
namespace EasyNet
open EasyNet.C15

variable {σ : Type} {init : σ} {feed : σ → Bytes → Nat → BRes σ} {acc : σ → Nat}
  {spec : Bytes → SRes} {Inv : σ → Bytes → Prop}

theorem writeAt_nil (buf : Bytes) (pos : Nat) : writeAt buf pos [] = buf := by
  unfold writeAt; simp

/-- after `get_write_buffer()` a framer is always suspended -/
theorem BufConsumer.prepare_active (cap : Nat) (R : BRefines init feed acc spec Inv cap) (hcap : 0 < cap)
    (c : BufConsumer σ) (h : Bytes) (hrel : BufConsumer.Rel acc spec Inv cap c h) :
    ∃ s, (BufConsumer.prepare init 0 cap c).fr = some s ∧
      (BufConsumer.prepare init 0 cap c).buffer.length = cap ∧
      (BufConsumer.prepare init 0 cap c).start = acc s ∧
      (BufConsumer.prepare init 0 cap c).written = c.written ∧
      (BufConsumer.prepare init 0 cap c).crashed = false ∧
      acc s + c.written ≤ cap ∧
      (BufConsumer.prepare init 0 cap c).buffer.take (acc s + c.written) = h ∧
      Inv s ((BufConsumer.prepare init 0 cap c).buffer.take (acc s)) ∧
      (c.written = 0 → h = [] ∨ spec h = .need) := by
  have hacc0 : acc init = 0 := by have := R.acc_eq init [] R.init; simpa using this
  rcases hrel with ⟨hcr, ⟨hfr, hw, hh, hbuf⟩ | ⟨s, hfr, hlen, hst, hfit', htake, hinv, hw0⟩⟩
  · refine ⟨init, ?_, ?_, ?_, ?_, ?_, ?_, ?_, ?_, ?_⟩
    · simp [BufConsumer.prepare, hfr]
    · simp only [BufConsumer.prepare, hfr]
      rcases hbuf with hb | hb
      · simp [hb]
      · have : c.buffer.isEmpty = false := by
          cases hc : c.buffer with
          | nil => rw [hc] at hb; simp at hb; omega
          | cons x xs => rfl
        simp [this, hb]
    · simp [BufConsumer.prepare, hfr, hacc0]
    · simp [BufConsumer.prepare, hfr]
    · simp [BufConsumer.prepare, hfr, hcr]
    · omega
    · simp [hacc0, hw, hh]
    · simp only [hacc0, List.take_zero]; exact R.init
    · intro _; left; exact hh
  · have hne : c.buffer.isEmpty = false := by
      cases hc : c.buffer with
      | nil => rw [hc] at hlen; simp at hlen; omega
      | cons x xs => rfl
    refine ⟨s, ?_, ?_, ?_, ?_, ?_, hfit', ?_, ?_, hw0⟩ <;> simp [BufConsumer.prepare, hfr, hne, hlen, hst, hcr, htake, hinv]

theorem BufConsumer.prepare_rel (cap : Nat) (R : BRefines init feed acc spec Inv cap) (hcap : 0 < cap)
    (c : BufConsumer σ) (h : Bytes) (hrel : BufConsumer.Rel acc spec Inv cap c h) :
    BufConsumer.Rel acc spec Inv cap (BufConsumer.prepare init 0 cap c) h := by
  obtain ⟨s, pfr, plen, pst, pw, pcr, pfit, ptake, pinv, pw0⟩ := BufConsumer.prepare_active cap R hcap c h hrel
  refine ⟨pcr, Or.inr ⟨s, pfr, plen, pst, ?_, ?_, pinv, ?_⟩⟩
  · rw [pw]; exact pfit
  · rw [pw]; exact ptake
  · rw [pw]; exact pw0

/-- `next(None)` on the buffered consumer -/
theorem BufConsumer.drainNext_sim (cap : Nat) (R : BRefines init feed acc spec Inv cap) {ok : Bytes → Prop} (L : SpecLaws spec ok) (hcap : 0 < cap)
    (c : BufConsumer σ) (h : Bytes) (hrel : BufConsumer.Rel acc spec Inv cap c h) :
    (∀ k' it, BufConsumer.next init 0 cap feed c 0 = (k', some it) →
        ∃ h', BufConsumer.Rel acc spec Inv cap k' h' ∧ decodeW spec h = ((decodeW spec h').1, it :: (decodeW spec h').2)) ∧
    (∀ k', BufConsumer.next init 0 cap feed c 0 = (k', none) →
        BufConsumer.Rel acc spec Inv cap k' h ∧ decodeW spec h = (h, [])) := by
  rcases hrel with ⟨hcr, ⟨hfr, hw, hh, hbuf⟩ | ⟨s, hfr, hlen, hst, hfit, htake, hinv, hw0⟩⟩
  · have hnext : BufConsumer.next init 0 cap feed c 0 = (c, none) := by
      unfold BufConsumer.next; simp [hfr]
    rw [hnext]
    refine ⟨(fun k' it hc => by cases hc), fun k' hc => ?_⟩
    cases hc
    subst hh
    exact ⟨⟨hcr, Or.inl ⟨hfr, hw, rfl, hbuf⟩⟩, decodeW_nil L⟩
  · by_cases hw : c.written = 0
    · have hnext : BufConsumer.next init 0 cap feed c 0 = ({ c with written := 0 }, none) := by
        unfold BufConsumer.next; simp [hfr, hw]
      rw [hnext]
      refine ⟨(fun k' it hc => by cases hc), fun k' hc => ?_⟩
      cases hc
      have hrel' : BufConsumer.Rel acc spec Inv cap { c with written := 0 } h :=
        ⟨hcr, Or.inr ⟨s, hfr, hlen, hst, by simpa [hw] using hfit, by simpa [hw] using htake, hinv, fun _ => hw0 hw⟩⟩
      refine ⟨hrel', ?_⟩
      rcases hw0 hw with hnil | hneed
      · subst hnil; exact decodeW_nil L
      · exact decodeW_need L _ hneed
    · have hpos : 0 < 0 + c.written := by omega
      have hna := BufConsumer.next_active cap R hcap c s 0 hfr hlen hcr (by omega) hpos hinv
      have htake' : c.buffer.take (acc s + (0 + c.written)) = h := by simpa using htake
      rw [htake'] at hna
      have hb : h.isEmpty = false := by
        have : h.length = acc s + c.written := by rw [← htake]; simp; omega
        cases h with
        | nil => simp at this; omega
        | cons x xs => rfl
      have hunf := decodeW_unfold L h
      simp only [hb, Bool.false_eq_true, if_false] at hunf
      cases hs : spec h with
      | need =>
        rw [hs] at hna
        refine ⟨fun k' it hc => ?_, fun k' hc => ?_⟩
        · have := hna.1; rw [hc] at this; cases this
        · have e : k' = (BufConsumer.next init 0 cap feed c 0).1 := by rw [hc]
          rw [e]
          exact ⟨hna.2, decodeW_need L _ hs⟩
      | done d r =>
        rw [hs] at hna
        rw [hs] at hunf
        refine ⟨fun k' it hc => ?_, fun k' hc => ?_⟩
        · have e1 : k' = (BufConsumer.next init 0 cap feed c 0).1 := by rw [hc]
          have e2 : some it = some (Item.frame d) := by rw [← hna.1, hc]
          injection e2 with e2
          rw [e1, e2]
          exact ⟨r, hna.2.1, hunf⟩
        · have := hna.1; rw [hc] at this; cases this
      | fail r =>
        rw [hs] at hna
        rw [hs] at hunf
        refine ⟨fun k' it hc => ?_, fun k' hc => ?_⟩
        · have e1 : k' = (BufConsumer.next init 0 cap feed c 0).1 := by rw [hc]
          have e2 : some it = some Item.limit := by rw [← hna.1, hc]
          injection e2 with e2
          rw [e1, e2]
          exact ⟨r, hna.2.1, hunf⟩
        · have := hna.1; rw [hc] at this; cases this

/-- the transport wrote `d` into the offered buffer, then `next(len d)` -/
theorem BufConsumer.feed_sim (cap : Nat) (R : BRefines init feed acc spec Inv cap) {ok : Bytes → Prop} (L : SpecLaws spec ok) (hcap : 0 < cap)
    (c : BufConsumer σ) (h d : Bytes) (hrel : BufConsumer.Rel acc spec Inv cap c h)
    (hfit : d.length ≤ (BufConsumer.prepare init 0 cap c).room) :
    let c1 := BufConsumer.prepare init 0 cap c
    let c2 : BufConsumer σ := { c1 with buffer := writeAt c1.buffer (c1.start + c1.written) d }
    (∀ k' it, BufConsumer.next init 0 cap feed c2 d.length = (k', some it) →
        ∃ h', BufConsumer.Rel acc spec Inv cap k' h' ∧
          decodeW spec (h ++ d) = ((decodeW spec h').1, it :: (decodeW spec h').2)) ∧
    (∀ k', BufConsumer.next init 0 cap feed c2 d.length = (k', none) →
        BufConsumer.Rel acc spec Inv cap k' (h ++ d) ∧ decodeW spec (h ++ d) = (h ++ d, [])) := by
  intro c1 c2
  by_cases hd : d = []
  · -- nothing written: this is `next(0)` on the prepared consumer
    subst hd
    have hc2 : c2 = c1 := by
      show ({ c1 with buffer := writeAt c1.buffer (c1.start + c1.written) [] } : BufConsumer σ) = c1
      rw [writeAt_nil]
    rw [hc2]
    simp only [List.length_nil, List.append_nil]
    exact BufConsumer.drainNext_sim cap R L hcap c1 h (BufConsumer.prepare_rel cap R hcap c h hrel)
  · have hdpos : 0 < d.length := List.length_pos_iff.mpr hd
    obtain ⟨s, pfr, plen, pst, pw, pcr, pfit, ptake, pinv, _⟩ := BufConsumer.prepare_active cap R hcap c h hrel
    have hroom : (BufConsumer.prepare init 0 cap c).room = cap - (acc s + c.written) := by
      simp [BufConsumer.room, plen, pst, pw]
    rw [hroom] at hfit
    have hpos2 : c1.start + c1.written = acc s + c.written := by
      show (BufConsumer.prepare init 0 cap c).start + (BufConsumer.prepare init 0 cap c).written = _
      rw [pst, pw]
    have c2len : c2.buffer.length = cap := by
      show (writeAt c1.buffer (c1.start + c1.written) d).length = cap
      rw [hpos2, writeAt_length _ _ _ (by rw [show c1.buffer.length = cap from plen]; omega)]; exact plen
    have c2take : c2.buffer.take (acc s + (d.length + c2.written)) = h ++ d := by
      show (writeAt c1.buffer (c1.start + c1.written) d).take (acc s + (d.length + c1.written)) = h ++ d
      rw [hpos2, show c1.written = c.written from pw]
      have : acc s + (d.length + c.written) = (acc s + c.written) + d.length := by omega
      rw [this, writeAt_take_end _ _ _ (by rw [show c1.buffer.length = cap from plen]; omega), ptake]
    have c2inv : Inv s (c2.buffer.take (acc s)) := by
      show Inv s ((writeAt c1.buffer (c1.start + c1.written) d).take (acc s))
      rw [hpos2, writeAt_take_before _ _ _ _ (by omega) (by rw [show c1.buffer.length = cap from plen]; omega)]
      exact pinv
    have hna := BufConsumer.next_active cap R hcap c2 s d.length pfr c2len pcr
      (by show acc s + (d.length + c1.written) ≤ cap; rw [show c1.written = c.written from pw]; omega)
      (by omega) c2inv
    rw [c2take] at hna
    have hne : (h ++ d).isEmpty = false := by
      cases d with
      | nil => exact absurd rfl hd
      | cons x xs => simp
    have hunf := decodeW_unfold L (h ++ d)
    simp only [hne, Bool.false_eq_true, if_false] at hunf
    cases hs : spec (h ++ d) with
    | need =>
      rw [hs] at hna
      refine ⟨fun k' it hc => ?_, fun k' hc => ?_⟩
      · have := hna.1; rw [hc] at this; cases this
      · have e : k' = (BufConsumer.next init 0 cap feed c2 d.length).1 := by rw [hc]
        rw [e]
        exact ⟨hna.2, decodeW_need L _ hs⟩
    | done dd r =>
      rw [hs] at hna
      rw [hs] at hunf
      refine ⟨fun k' it hc => ?_, fun k' hc => ?_⟩
      · have e1 : k' = (BufConsumer.next init 0 cap feed c2 d.length).1 := by rw [hc]
        have e2 : some it = some (Item.frame dd) := by rw [← hna.1, hc]
        injection e2 with e2
        rw [e1, e2]
        exact ⟨r, hna.2.1, hunf⟩
      · have := hna.1; rw [hc] at this; cases this
    | fail r =>
      rw [hs] at hna
      rw [hs] at hunf
      refine ⟨fun k' it hc => ?_, fun k' hc => ?_⟩
      · have e1 : k' = (BufConsumer.next init 0 cap feed c2 d.length).1 := by rw [hc]
        have e2 : some it = some Item.limit := by rw [← hna.1, hc]
        injection e2 with e2
        rw [e1, e2]
        exact ⟨r, hna.2.1, hunf⟩
      · have := hna.1; rw [hc] at this; cases this

/-- **The buffered consumer satisfies the consumer interface laws.** -/
theorem bufIface_sim (cap : Nat) (R : BRefines init feed acc spec Inv cap) {ok : Bytes → Prop} (L : SpecLaws spec ok) (hcap : 0 < cap) :
    IfaceSim (bufIface init 0 cap feed) spec (BufConsumer.Rel acc spec Inv cap) := by
  refine ⟨?_, ?_, ?_, ?_, ?_⟩
  · intro k h k' it hrel hd
    exact (BufConsumer.drainNext_sim cap R L hcap k h hrel).1 k' it hd
  · intro k h k' hrel hd
    exact (BufConsumer.drainNext_sim cap R L hcap k h hrel).2 k' hd
  · intro k h hrel
    exact BufConsumer.prepare_rel cap R hcap k h hrel
  · intro k h d k' it hrel _ hfit hf
    exact (BufConsumer.feed_sim cap R L hcap k h d hrel hfit).1 k' it hf
  · intro k h d k' hrel _ hfit hf
    exact (BufConsumer.feed_sim cap R L hcap k h d hrel hfit).2 k' hf

end EasyNet
