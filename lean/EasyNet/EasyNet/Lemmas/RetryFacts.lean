/-
  Facts about `_retry` used by C11: without a timeout it never raises TimeoutError; when it raises TimeoutError the
  last attempt of the callback blocked.
-/
import EasyNet.Lemmas.Time
namespace EasyNet

/-- with an infinite timeout the waiting part never times out and hands the infinite timeout back -/
theorem retryWait_none (ri : Tmo) (b : Blk) (w : World) :
    match retryWait ri b none w with
    | .cont t' _ => t' = none
    | .timeout _ => False
    | .exhausted _ => True
    | .rterr _ => True := by
  unfold retryWait
  simp only [Tmo.isZero, Bool.false_eq_true, if_false]
  cases hs : w.sel with
  | nil => simp
  | cons e sel =>
    simp only []
    cases ri with
    | none =>
      simp only [Tmo.waitTime, Tmo.le, if_true]
      by_cases ha : e.avail = true <;> simp [ha]
    | some r =>
      simp only [Tmo.waitTime, Tmo.le, Bool.false_eq_true, if_false, Bool.and_false, Tmo.recompute]

theorem retry_none_no_timeout (cls : SockEv → Cls) (o : Obs) (ri : Tmo) :
    ∀ (sock : List SockCall) (w : World), (retry cls o ri sock none w).out ≠ .timeout := by
  intro sock
  induction sock with
  | nil => intro w; simp [retry]
  | cons c rest ih =>
    intro w
    unfold retry
    cases hcl : cls c.ev with
    | ok n => simp
    | got b => simp
    | err e => simp
    | bad => simp
    | block b =>
      simp only []
      have hw := retryWait_none ri b (w.afterCall o c.p)
      cases hr : retryWait ri b none (w.afterCall o c.p) with
      | cont t' w' => rw [hr] at hw; subst hw; exact ih w'
      | timeout w' => rw [hr] at hw; exact hw.elim
      | exhausted w' => simp
      | rterr w' => simp

/-- TimeoutError out of `_retry`: the last callback attempt raised WouldBlockOnRead/WouldBlockOnWrite -/
theorem retry_timeout_blocked (cls : SockEv → Cls) (o : Obs) (ri : Tmo) :
    ∀ (sock : List SockCall) (t : Tmo) (w : World), (retry cls o ri sock t w).out = .timeout →
      ∃ pre c blk, sock = pre ++ c :: (retry cls o ri sock t w).rest ∧ cls c.ev = .block blk := by
  intro sock
  induction sock with
  | nil => intro t w h; simp [retry] at h
  | cons c rest ih =>
    intro t w
    unfold retry
    cases hcl : cls c.ev with
    | ok n => simp
    | got b => simp
    | err e => simp
    | bad => simp
    | block b =>
      simp only []
      cases hr : retryWait ri b t (w.afterCall o c.p) with
      | cont t' w' =>
        simp only []
        intro h
        obtain ⟨pre, c', blk, h1, h2⟩ := ih t' w' h
        exact ⟨c :: pre, c', blk, by rw [List.cons_append, ← h1], h2⟩
      | timeout w' => intro _; exact ⟨[], c, b, rfl, hcl⟩
      | exhausted w' => simp
      | rterr w' => simp

theorem recvLoop_none_no_timeout {κ : Type} (fl : Flavour) (ri : Tmo) (room : κ → Nat) (next : κ → Bytes → κ × Option Item) :
    ∀ (sock : List SockCall) (cons : κ) (start : Nat) (w : World),
      (recvLoop fl ri room next sock cons none none start w).out ≠ .timeout := by
  intro sock
  induction sock with
  | nil => intro cons start w; simp [recvLoop]
  | cons c rest ih =>
    intro cons start w
    unfold recvLoop
    cases hcl : classifyRecv fl c.ev with
    | got b =>
      simp only []
      by_cases hemp : (b.take (room cons)).isEmpty = true
      · simp [hemp]
      · simp only [hemp, Bool.false_eq_true, if_false]
        cases hn : next cons (b.take (room cons)) with
        | mk cons' oit =>
          cases oit with
          | some it => simp
          | none => simp only [Tmo.isZero, Bool.not_false, if_true, Tmo.recompute]; exact ih _ _ _
    | ok k => simp
    | err e => simp
    | bad => simp
    | block blk =>
      simp only []
      have hw := retryWait_none ri blk (w.afterCall (.rcall (room cons)) c.p)
      cases hr : retryWait ri blk none (w.afterCall (.rcall (room cons)) c.p) with
      | cont t' w' => rw [hr] at hw; subst hw; exact ih _ _ _
      | timeout w' => rw [hr] at hw; exact hw.elim
      | exhausted w' => simp
      | rterr w' => simp

theorem receive_none_no_timeout {κ : Type} (fl : Flavour) (ri : Tmo) (room : κ → Nat) (next : κ → Bytes → κ × Option Item)
    (cons : κ) (eof : Bool) (sock : List SockCall) (w : World) :
    (receive fl ri room next cons eof none sock w).out ≠ .timeout := by
  unfold receive
  cases hn : next cons [] with
  | mk cons' oit =>
    cases oit with
    | some it => simp
    | none =>
      simp only []
      by_cases he : eof = true
      · simp [he]
      · simp only [he, Bool.false_eq_true, if_false]; exact recvLoop_none_no_timeout fl ri room next sock cons' w.now w

end EasyNet
