/-
  The four machines built around `_retry` keep the time invariant `Good` (Lemmas/Time.lean):
  a single `_retry`, send_all, the sendmsg loop and the receive loop — for every socket script.
-/
import EasyNet.Lemmas.Time
namespace EasyNet

theorem Tmo.isZero_eq {t : Tmo} (h : t.isZero = true) : t = some 0 := by
  cases t with
  | none => simp [Tmo.isZero] at h
  | some n => cases n with
    | zero => rfl
    | succ k => simp [Tmo.isZero] at h

variable {B D : Nat} {w0 : World}

theorem retry_good (cls : SockEv → Cls) (o : Obs) (ho : o.isSelect = false) (hl : o.isLockWait = false) (ri : Tmo)
    (tOut : Tmo) (start : Nat) :
    ∀ (sock : List SockCall) (t : Tmo) (w : World), Good B D tOut t start w0 w →
      GoodFin B D w0 (retry cls o ri sock t w).w (retry cls o ri sock t w).out.isTimeout := by
  intro sock
  induction sock with
  | nil => intro t w h; simpa [retry, Outcome.isTimeout] using h.fin
  | cons c rest ih =>
    intro t w h
    have hc := h.call o c.p ho hl
    unfold retry
    cases hcl : cls c.ev with
    | ok n => simpa [Outcome.isTimeout, RecvOut.isTimeout] using hc.fin
    | got b => simpa [Outcome.isTimeout, RecvOut.isTimeout] using hc.fin
    | err e => simpa [Outcome.isTimeout, RecvOut.isTimeout] using hc.fin
    | bad => simpa [Outcome.isTimeout, RecvOut.isTimeout] using hc.fin
    | block b =>
      have hw := hc.wait ri b
      simp only []
      cases hr : retryWait ri b t (w.afterCall o c.p) with
      | cont t' w' => rw [hr] at hw; simpa [Outcome.isTimeout, RecvOut.isTimeout] using ih t' w' hw
      | timeout w' => rw [hr] at hw; simpa [Outcome.isTimeout, RecvOut.isTimeout] using hw
      | exhausted w' => rw [hr] at hw; simpa [Outcome.isTimeout, RecvOut.isTimeout] using hw
      | rterr w' => rw [hr] at hw; simpa [Outcome.isTimeout, RecvOut.isTimeout] using hw

theorem sendAllLoop_good (fl : Flavour) (ri : Tmo) (data : Bytes) :
    ∀ (sock : List SockCall) (s : SAState) (w : World), Good B D s.tOut s.tIn s.start w0 w →
      GoodFin B D w0 (sendAllLoop fl ri data sock s w).2 (sendAllLoop fl ri data sock s w).1.isTimeout := by
  intro sock
  induction sock with
  | nil => intro s w h; simpa [sendAllLoop, Outcome.isTimeout] using h.fin
  | cons c rest ih =>
    intro s w h
    have hc := h.call (.call (data.length - s.total) 1) c.p rfl rfl
    unfold sendAllLoop
    cases hcl : classifySend fl c.ev with
    | ok k =>
      simp only []
      by_cases hdone : data.length ≤ s.total + min k (data.length - s.total)
      · simp only [hdone, if_true]
        simpa [Outcome.isTimeout, RecvOut.isTimeout] using (hc.put _).fin
      · simp only [hdone, if_false]
        exact ih _ _ (hc.round.put _)
    | got b => simpa [Outcome.isTimeout, RecvOut.isTimeout] using hc.fin
    | err e => simpa [Outcome.isTimeout, RecvOut.isTimeout] using hc.fin
    | bad => simpa [Outcome.isTimeout, RecvOut.isTimeout] using hc.fin
    | block b =>
      have hw := hc.wait ri b
      simp only []
      cases hr : retryWait ri b s.tIn (w.afterCall (.call (data.length - s.total) 1) c.p) with
      | cont t' w' => rw [hr] at hw; simpa [Outcome.isTimeout, RecvOut.isTimeout] using ih { s with tIn := t' } w' hw
      | timeout w' => rw [hr] at hw; simpa [Outcome.isTimeout, RecvOut.isTimeout] using hw
      | exhausted w' => rw [hr] at hw; simpa [Outcome.isTimeout, RecvOut.isTimeout] using hw
      | rterr w' => rw [hr] at hw; simpa [Outcome.isTimeout, RecvOut.isTimeout] using hw

theorem sendmsgLoop_good (fix : Bool) (ri : Tmo) (iov : Nat) (tOut : Tmo) (start : Nat) :
    ∀ (sock : List SockCall) (bufs : List Bytes) (t : Tmo) (w : World), Good B D tOut t start w0 w →
      GoodFin B D w0 (sendmsgLoop fix ri iov sock bufs t w).2
        (sendmsgLoop fix ri iov sock bufs t w).1.isTimeout := by
  intro sock
  induction sock with
  | nil =>
    intro bufs t w h
    cases bufs with
    | nil => simpa [sendmsgLoop, Outcome.isTimeout] using h.fin
    | cons b bs => simpa [sendmsgLoop, Outcome.isTimeout] using h.fin
  | cons c rest ih =>
    intro bufs t w h
    cases bufs with
    | nil => simpa [sendmsgLoop, Outcome.isTimeout] using h.fin
    | cons b bs =>
      have hc := h.call (.call (offered iov (b :: bs)) (min iov (bs.length + 1))) c.p rfl rfl
      unfold sendmsgLoop
      cases hcl : classifySend .plain c.ev with
      | ok k => simp only []; exact ih _ _ _ (hc.put _)
      | got x => simpa [Outcome.isTimeout, RecvOut.isTimeout] using hc.fin
      | err e => simpa [Outcome.isTimeout, RecvOut.isTimeout] using hc.fin
      | bad => simpa [Outcome.isTimeout, RecvOut.isTimeout] using hc.fin
      | block blk =>
        have hw := hc.wait ri blk
        simp only []
        cases hr : retryWait ri blk t (w.afterCall (.call (offered iov (b :: bs)) (min iov (bs.length + 1))) c.p) with
        | cont t' w' => rw [hr] at hw; simpa [Outcome.isTimeout, RecvOut.isTimeout] using ih (b :: bs) t' w' hw
        | timeout w' => rw [hr] at hw; simpa [Outcome.isTimeout, RecvOut.isTimeout] using hw
        | exhausted w' => rw [hr] at hw; simpa [Outcome.isTimeout, RecvOut.isTimeout] using hw
        | rterr w' => rw [hr] at hw; simpa [Outcome.isTimeout, RecvOut.isTimeout] using hw

theorem recvLoop_good {κ : Type} (fl : Flavour) (ri : Tmo) (room : κ → Nat) (next : κ → Bytes → κ × Option Item) :
    ∀ (sock : List SockCall) (cons : κ) (tOut tIn : Tmo) (start : Nat) (w : World), Good B D tOut tIn start w0 w →
      GoodFin B D w0 (recvLoop fl ri room next sock cons tOut tIn start w).w
        (recvLoop fl ri room next sock cons tOut tIn start w).out.isTimeout := by
  intro sock
  induction sock with
  | nil => intro cons tOut tIn start w h; simpa [recvLoop, RecvOut.isTimeout] using h.fin
  | cons c rest ih =>
    intro cons tOut tIn start w h
    have hc := h.call (.rcall (room cons)) c.p rfl rfl
    unfold recvLoop
    cases hcl : classifyRecv fl c.ev with
    | got b =>
      simp only []
      by_cases hemp : (b.take (room cons)).isEmpty = true
      · simp only [hemp, if_true]; simpa [Outcome.isTimeout, RecvOut.isTimeout] using hc.fin
      · simp only [hemp, Bool.false_eq_true, if_false]
        cases hn : next cons (b.take (room cons)) with
        | mk cons' oit =>
          cases oit with
          | some it => simpa [Outcome.isTimeout, RecvOut.isTimeout] using hc.fin
          | none =>
            simp only []
            by_cases hz : tOut.isZero = true
            · simp only [hz, Bool.not_true, Bool.false_eq_true, if_false]
              by_cases hshort : (b.take (room cons)).length < room cons
              · simp only [hshort, if_true]
                -- the budget is zero: the deadline has passed
                have hf := hc.fin
                obtain ⟨⟨a, b', ws, e1, e2, h1, h2, h3, h4, h5, h6⟩, _⟩ := hc
                have : a = 0 := by
                  have := Tmo.isZero_eq hz; rw [e1] at this; exact Option.some.inj this
                exact ⟨hf.budget, hf.unb, hf.lockw, hf.acct, hf.mono, hf.zero, hf.nlw, hf.slack, fun _ => by omega⟩
              · simp only [hshort, if_false]
                have hr := hc.round
                have e0 := Tmo.isZero_eq hz
                have : tOut.recompute ((w.afterCall (.rcall (room cons)) c.p).now - start) = tOut := by
                  rw [e0]; simp [Tmo.recompute]
                rw [this] at hr
                exact ih _ _ _ _ _ hr
            · simp only [hz, Bool.not_false, if_true]
              exact ih _ _ _ _ _ hc.round
    | ok k => simpa [Outcome.isTimeout, RecvOut.isTimeout] using hc.fin
    | err e => simpa [Outcome.isTimeout, RecvOut.isTimeout] using hc.fin
    | bad => simpa [Outcome.isTimeout, RecvOut.isTimeout] using hc.fin
    | block blk =>
      have hw := hc.wait ri blk
      simp only []
      cases hr : retryWait ri blk tIn (w.afterCall (.rcall (room cons)) c.p) with
      | cont t' w' => rw [hr] at hw; simpa [Outcome.isTimeout, RecvOut.isTimeout] using ih cons tOut t' start w' hw
      | timeout w' => rw [hr] at hw; simpa [Outcome.isTimeout, RecvOut.isTimeout] using hw
      | exhausted w' => rw [hr] at hw; simpa [Outcome.isTimeout, RecvOut.isTimeout] using hw
      | rterr w' => rw [hr] at hw; simpa [Outcome.isTimeout, RecvOut.isTimeout] using hw

end EasyNet
