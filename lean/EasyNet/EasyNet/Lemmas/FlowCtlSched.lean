/-
  C20 — invariants of the flow-control model, part 3: no lost wake-up.
  In every reachable state every sender task that exists is either parked on a *pending* drain waiter, or has a
  step / wake-up sitting in the loop's ready queue.
-/
import EasyNet.Lemmas.FlowCtl
namespace EasyNet.C20.FC
set_option linter.unusedSimpArgs false

/-- senders that exist have an id below `c.n` -/
def Bound (c : Cfg) (s : St) : Prop := ∀ i, (s.senders i).pc ≠ .idle → i < c.n

/-- every existing sender is waiting on a pending waiter or scheduled in `q` -/
def Sched (q : List Handle) (s : St) : Prop := ∀ i, (s.senders i).pc ≠ .idle → Waiting s i ∨ Handle.task i ∈ q

/-- `t` is `s` after transport / flow-control callbacks: the ready queue only grew, no task moved, and every waiter
    that stopped waiting has been scheduled -/
structure Good (c : Cfg) (s t : St) : Prop where
  sub : ∀ h, h ∈ s.ready → h ∈ t.ready
  pc : ∀ i, (t.senders i).pc = (s.senders i).pc
  wk : ∀ i, i < c.n → Waiting s i → Waiting t i ∨ Handle.task i ∈ t.ready

theorem Good.refl (c : Cfg) (s : St) : Good c s s := ⟨fun _ h => h, fun _ => rfl, fun _ _ h => Or.inl h⟩

theorem Good.trans {c : Cfg} {s t u : St} (a : Good c s t) (b : Good c t u) : Good c s u :=
  ⟨fun h hh => b.sub h (a.sub h hh), fun i => (b.pc i).trans (a.pc i), fun i hi hw => by
    rcases a.wk i hi hw with h | h
    · exact b.wk i hi h
    · exact Or.inr (b.sub _ h)⟩

/-- updates that touch neither the senders nor the ready queue (or only append to it) -/
theorem good_of_eq (c : Cfg) {s t : St} (hs : t.senders = s.senders) (hr : ∀ h, h ∈ s.ready → h ∈ t.ready) : Good c s t :=
  ⟨hr, fun i => by rw [hs], fun i _ hw => Or.inl (by simpa [Waiting, hs] using hw)⟩

theorem sched_of_good {c : Cfg} {s t : St} (g : Good c s t) (q : List Handle) (hb : Bound c s)
    (hs : Sched (q ++ s.ready) s) : Bound c t ∧ Sched (q ++ t.ready) t := by
  refine ⟨fun i hi => hb i (by rw [← g.pc i]; exact hi), ?_⟩
  intro i hi
  have hi' : (s.senders i).pc ≠ .idle := by rw [← g.pc i]; exact hi
  rcases hs i hi' with hw | hm
  · rcases g.wk i (hb i hi') hw with h | h
    · exact Or.inl h
    · exact Or.inr (by simp [h])
  · rcases List.mem_append.mp hm with h | h
    · exact Or.inr (by simp [h])
    · exact Or.inr (by simp [g.sub _ h])

theorem good_completeAll (c : Cfg) (s : St) (v : Fut) : Good c s (completeAll c s v) := by
  refine ⟨fun h hh => by simp [completeAll, hh], fun i => by simp only [completeAll]; split <;> rfl, ?_⟩
  intro i hi hw
  refine Or.inr ?_
  have hw' := hw
  unfold Waiting at hw'
  simp [completeAll, pendingIds, hi, hw']

theorem good_fcPause (c : Cfg) (s : St) : Good c s (fcPause s) := good_of_eq c rfl (fun _ h => h)

theorem good_fcResume (c : Cfg) (s : St) : Good c s (fcResume c s) :=
  (good_of_eq c (s := s) (t := { s with paused := false }) rfl (fun _ h => h)).trans (good_completeAll c _ _)

theorem good_fcLost (c : Cfg) (s : St) (e : Option Nat) : Good c s (fcLost c s e) := by
  unfold fcLost
  split
  · exact Good.refl c s
  · exact (good_of_eq c (s := s) (t := { s with paused := false, lost := true, lostExc := e }) rfl (fun _ h => h)).trans
      (good_completeAll c _ _)

theorem good_maybePause (c : Cfg) (s : St) : Good c s (maybePauseProtocol s) := by
  unfold maybePauseProtocol
  split
  · exact Good.refl c s
  · split
    · exact Good.refl c s
    · exact good_of_eq c rfl (fun _ h => h)

theorem good_maybeResume (c : Cfg) (s : St) : Good c s (maybeResumeProtocol c s) := by
  unfold maybeResumeProtocol
  split
  · exact (good_of_eq c (s := s) (t := { s with protoPaused := false }) rfl (fun _ h => h)).trans (good_fcResume c _)
  · exact Good.refl c s

theorem good_closeCheck (c : Cfg) (s : St) : Good c s (closeCheck c s) := by
  unfold closeCheck
  split
  · exact (good_of_eq c (s := s) (t := { s with connLost := true }) rfl (fun _ h => h)).trans (good_fcLost c _ _)
  · exact Good.refl c s

theorem good_tWriteReady (c : Cfg) (s : St) : Good c s (tWriteReady c s) := by
  unfold tWriteReady
  split
  · exact Good.refl c s
  · split
    · exact Good.refl c s
    · exact ((good_of_eq c (s := s) (t := flushStep s) rfl (fun _ h => h)).trans (good_maybeResume c _)).trans (good_closeCheck c _)

theorem good_pauseAfter (c : Cfg) (s t : St) (hs : t.senders = s.senders) (hr : t.ready = s.ready) :
    Good c s (maybePauseProtocol t) :=
  (good_of_eq c (s := s) (t := t) hs (fun _ h => by rw [hr]; exact h)).trans (good_maybePause c t)

theorem good_tWrite (c : Cfg) (s : St) (n : Nat) : Good c s (tWrite s n).1 := by
  unfold tWrite
  split
  · exact Good.refl c s
  · split
    · exact Good.refl c s
    · split
      · split
        · exact good_of_eq c rfl (fun _ h => h)
        · exact good_pauseAfter c s _ rfl rfl
      · exact good_pauseAfter c s _ rfl rfl

theorem good_tWritelines (c : Cfg) (s : St) (sizes : List Nat) : Good c s (tWritelines c s sizes).1 := by
  unfold tWritelines
  split
  · exact Good.refl c s
  · split
    · exact ((good_of_eq c (s := s) (t := extendBuf s sizes) rfl (fun _ h => h)).trans (good_tWriteReady c _)).trans (good_maybePause c _)
    · exact (good_of_eq c (s := s) (t := extendBuf s sizes) rfl (fun _ h => h)).trans (good_tWriteReady c _)

theorem good_tSetLimitsZero (c : Cfg) (s : St) : Good c s (tSetLimitsZero s) :=
  (good_of_eq c (s := s) (t := { s with high := 0, low := 0 }) rfl (fun _ h => h)).trans (good_maybePause c _)

theorem good_tSendto (c : Cfg) (s : St) (n : Nat) : Good c s (tSendto s n).1 := by
  unfold tSendto
  split
  · exact Good.refl c s
  · split
    · exact Good.refl c s
    · split
      · exact good_of_eq c rfl (fun _ h => h)
      · exact good_pauseAfter c s _ rfl rfl

theorem good_tSendtoReady (c : Cfg) (s : St) : Good c s (tSendtoReady c s) := by
  unfold tSendtoReady
  split
  · exact Good.refl c s
  · exact ((good_of_eq c (s := s) (t := sendtoStep s) rfl (fun _ h => h)).trans (good_maybeResume c _)).trans (good_closeCheck c _)

theorem good_tClose (c : Cfg) (s : St) : Good c s (tClose c s) := by
  unfold tClose
  repeat' split
  all_goals first
    | exact Good.refl c s
    | exact good_of_eq c rfl (fun _ h => by simp [h])

theorem good_tForceClose (c : Cfg) (s : St) (e : Option Nat) : Good c s (tForceClose s e) := by
  unfold tForceClose
  split
  · exact Good.refl c s
  · exact good_of_eq c rfl (fun _ h => by simp [h])

/-- sender `i` (whose handle is being run) is replaced by `x`; everything else about senders is unchanged -/
theorem sched_upd_self {c : Cfg} {s t : St} {rem : List Handle} (i : Nat) (x : Sender) (hi : i < c.n)
    (hs : t.senders = upd s.senders i x) (hr : ∀ h, h ∈ s.ready → h ∈ t.ready)
    (hx : x.pc = .idle ∨ (x.pc = .atWaiter ∧ x.fut = .pending) ∨ Handle.task i ∈ t.ready)
    (hb : Bound c s) (hq : Sched (Handle.task i :: rem ++ s.ready) s) : Bound c t ∧ Sched (rem ++ t.ready) t := by
  refine ⟨?_, ?_⟩
  · intro j hj
    by_cases hji : j = i
    · subst hji; exact hi
    · rw [hs] at hj; simp [upd, hji] at hj; exact hb j hj
  · intro j hj
    by_cases hji : j = i
    · subst hji
      rcases hx with h | h | h
      · rw [hs] at hj; simp [upd] at hj; exact absurd h hj
      · left; unfold Waiting; rw [hs]; simpa [upd] using h
      · right; simp [h]
    · have hj' : (s.senders j).pc ≠ .idle := by rw [hs] at hj; simpa [upd, hji] using hj
      rcases hq j hj' with h | h
      · left; unfold Waiting at h ⊢; rw [hs]; simpa [upd, hji] using h
      · right
        simp at h
        rcases h with h | h | h
        · exact absurd h hji
        · simp [h]
        · simp [hr _ h]

theorem sched_finish {c : Cfg} {s : St} {rem : List Handle} (i : Nat) (r : Res) (hi : i < c.n)
    (hb : Bound c s) (hq : Sched (Handle.task i :: rem ++ s.ready) s) :
    Bound c (finish s i r) ∧ Sched (rem ++ (finish s i r).ready) (finish s i r) :=
  sched_upd_self i _ hi rfl (fun _ h => h) (Or.inl rfl) hb hq

theorem sched_drainBody {c : Cfg} {s : St} {rem : List Handle} (i : Nat) (hi : i < c.n)
    (hb : Bound c s) (hq : Sched (Handle.task i :: rem ++ s.ready) s) :
    Bound c (drainBody c s i) ∧ Sched (rem ++ (drainBody c s i).ready) (drainBody c s i) := by
  unfold drainBody
  split
  · exact sched_finish i _ hi hb hq
  · split
    · exact sched_finish i _ hi hb hq
    · exact sched_upd_self i { (s.senders i) with pc := .atWaiter, fut := .pending } hi rfl (fun _ h => h)
        (Or.inr (Or.inl ⟨rfl, rfl⟩)) hb hq

theorem sched_drainHead {c : Cfg} {s : St} {rem : List Handle} (i : Nat) (hi : i < c.n)
    (hb : Bound c s) (hq : Sched (Handle.task i :: rem ++ s.ready) s) :
    Bound c (drainHead c s i) ∧ Sched (rem ++ (drainHead c s i).ready) (drainHead c s i) := by
  unfold drainHead
  split
  · exact sched_upd_self i { (s.senders i) with pc := .atYield } hi rfl (fun _ h => by simp [h])
      (Or.inr (Or.inr (by simp))) hb hq
  · exact sched_drainBody i hi hb hq

/-- `setEndOff` changes a ghost field only -/
theorem sched_setEndOff {c : Cfg} {s : St} {q : List Handle} (i : Nat) (acc : Bool)
    (hb : Bound c s) (hq : Sched q s) : Bound c (setEndOff s i acc) ∧ Sched q (setEndOff s i acc) := by
  have hpc : ∀ j, ((setEndOff s i acc).senders j).pc = (s.senders j).pc := by
    intro j; unfold setEndOff; split
    · by_cases hji : j = i
      · subst hji; simp [upd]
      · simp [upd, hji]
    · rfl
  have hfut : ∀ j, ((setEndOff s i acc).senders j).fut = (s.senders j).fut := by
    intro j; unfold setEndOff; split
    · by_cases hji : j = i
      · subst hji; simp [upd]
      · simp [upd, hji]
    · rfl
  refine ⟨fun j hj => hb j (by rw [← hpc j]; exact hj), ?_⟩
  intro j hj
  rcases hq j (by rw [← hpc j]; exact hj) with h | h
  · left; unfold Waiting at h ⊢; rw [hpc j, hfut j]; exact h
  · exact Or.inr h

theorem setEndOff_ready (s : St) (i acc) : (setEndOff s i acc).ready = s.ready := by
  unfold setEndOff; split <;> rfl

/-- after the synchronous transport part `t` of a first step (a `Good` transformation), ghost offset, then drain() -/
theorem sched_after_transport {c : Cfg} {s t : St} {rem : List Handle} (i : Nat) (acc : Bool) (hi : i < c.n)
    (g : Good c s t) (hb : Bound c s) (hq : Sched (Handle.task i :: rem ++ s.ready) s) :
    Bound c (drainHead c (setEndOff t i acc) i) ∧
      Sched (rem ++ (drainHead c (setEndOff t i acc) i).ready) (drainHead c (setEndOff t i acc) i) := by
  have h1 := sched_of_good g (Handle.task i :: rem) hb (by simpa using hq)
  have h2 := sched_setEndOff i acc h1.1 h1.2
  apply sched_drainHead i hi h2.1
  simpa [setEndOff_ready] using h2.2

theorem sched_runOp {c : Cfg} {s : St} {rem : List Handle} (i : Nat) (op : Op) (hi : i < c.n)
    (hb : Bound c s) (hq : Sched (Handle.task i :: rem ++ s.ready) s) :
    Bound c (runOp c s i op) ∧ Sched (rem ++ (runOp c s i op).ready) (runOp c s i op) := by
  cases op with
  | drain => exact sched_drainHead i hi hb hq
  | send n =>
    simp only [runOp]
    split
    · exact sched_after_transport i _ hi (good_tSendto c s n) hb hq
    · exact sched_after_transport i _ hi (good_tWrite c s n) hb hq
  | sendv sizes =>
    simp only [runOp]
    split
    · -- writelines, ghost offset, set_write_buffer_limits(0), drain()
      have h1 := sched_of_good (good_tWritelines c s sizes) (Handle.task i :: rem) hb (by simpa using hq)
      have h2 := sched_setEndOff i (tWritelines c s sizes).2 h1.1 h1.2
      have h3 := sched_of_good (good_tSetLimitsZero c (setEndOff (tWritelines c s sizes).1 i (tWritelines c s sizes).2))
        (Handle.task i :: rem) h2.1 (by simpa [setEndOff_ready] using h2.2)
      exact sched_drainHead i hi h3.1 (by simpa using h3.2)
    · exact sched_after_transport i _ hi (good_tWritelines c s sizes) hb hq

theorem sched_runTask {c : Cfg} {s : St} {rem : List Handle} (i : Nat)
    (hb : Bound c s) (hq : Sched (Handle.task i :: rem ++ s.ready) s) :
    Bound c (runTask c s i) ∧ Sched (rem ++ (runTask c s i).ready) (runTask c s i) := by
  unfold runTask
  split
  · rename_i hpc
    -- no such task: the handle is a no-op, nobody else was relying on it
    refine ⟨hb, fun j hj => ?_⟩
    rcases hq j hj with h | h
    · exact Or.inl h
    · simp at h
      rcases h with h | h | h
      · subst h; exact absurd hpc hj
      · exact Or.inr (by simp [h])
      · exact Or.inr (by simp [h])
  · rename_i op hpc
    have hi : i < c.n := hb i (by simp [hpc])
    split
    · exact sched_finish i _ hi hb hq
    · exact sched_runOp i op hi hb hq
  · rename_i hpc
    have hi : i < c.n := hb i (by simp [hpc])
    split
    · exact sched_finish i _ hi hb hq
    · exact sched_drainBody i hi hb hq
  · rename_i hpc
    have hi : i < c.n := hb i (by simp [hpc])
    split
    · exact sched_finish i _ hi hb hq
    · split
      · rename_i hf
        -- spurious wake-up of a sender whose waiter is still pending: it keeps waiting
        refine ⟨hb, fun j hj => ?_⟩
        by_cases hji : j = i
        · subst hji; exact Or.inl ⟨hpc, hf⟩
        · rcases hq j hj with h | h
          · exact Or.inl h
          · simp at h
            rcases h with h | h | h
            · exact absurd h hji
            · exact Or.inr (by simp [h])
            · exact Or.inr (by simp [h])
      · exact sched_finish i _ hi hb hq
      · exact sched_finish i _ hi hb hq
      · exact sched_finish i _ hi hb hq

theorem sched_runHandle {c : Cfg} {s : St} {rem : List Handle} (h : Handle)
    (hb : Bound c s) (hq : Sched (h :: rem ++ s.ready) s) :
    Bound c (runHandle c s h) ∧ Sched (rem ++ (runHandle c s h).ready) (runHandle c s h) := by
  cases h with
  | task i => exact sched_runTask i hb hq
  | connLost e =>
    have := sched_of_good (good_fcLost c s e) (Handle.connLost e :: rem) hb (by simpa using hq)
    refine ⟨this.1, fun j hj => ?_⟩
    rcases this.2 j hj with h | h
    · exact Or.inl h
    · simp at h; exact Or.inr (by simpa [runHandle] using h)

theorem sched_foldl {c : Cfg} (hs : List Handle) : ∀ {s : St}, Bound c s → Sched (hs ++ s.ready) s →
    Bound c (hs.foldl (runHandle c) s) ∧ Sched (hs.foldl (runHandle c) s).ready (hs.foldl (runHandle c) s) := by
  induction hs with
  | nil => intro s hb hq; exact ⟨hb, by simpa using hq⟩
  | cons x xs ih =>
    intro s hb hq
    have := sched_runHandle (rem := xs) x hb (by simpa using hq)
    exact ih this.1 this.2

/-- the invariant: every existing sender is below `c.n` and is waiting on a pending waiter or scheduled -/
def QInv (c : Cfg) (s : St) : Prop := Bound c s ∧ Sched s.ready s

theorem qinv_init (c : Cfg) : QInv c (St.init c) := by
  refine ⟨fun i hi => ?_, fun i hi => ?_⟩ <;> simp [St.init, Sender.init] at hi

theorem qinv_of_good {c : Cfg} {s t : St} (g : Good c s t) (h : QInv c s) : QInv c t := by
  have := sched_of_good g [] h.1 (by simpa using h.2)
  exact ⟨this.1, by simpa using this.2⟩

theorem qinv_step (c : Cfg) {s : St} (ev : Ev) (h : QInv c s) : QInv c (step c s ev).1 := by
  cases ev with
  | start i op =>
    simp only [step]
    split
    · rename_i hok
      have hi : i < c.n := by
        unfold startOk at hok; simp at hok; exact hok.1.1
      have hidle : (s.senders i).pc = .idle := by
        unfold startOk at hok; simp at hok; exact hok.1.2
      refine ⟨fun j hj => ?_, fun j hj => ?_⟩
      · by_cases hji : j = i
        · subst hji; exact hi
        · simp [upd, hji] at hj; exact h.1 j hj
      · by_cases hji : j = i
        · subst hji; right; simp
        · have hj' : (s.senders j).pc ≠ .idle := by simpa [upd, hji] using hj
          rcases h.2 j hj' with hw | hm
          · left; unfold Waiting at hw ⊢; simpa [upd, hji] using hw
          · right; simp [hm]
    · exact h
  | pause => exact qinv_of_good (good_fcPause c s) h
  | resume => exact qinv_of_good (good_fcResume c s) h
  | kernel k =>
    simp only [step]
    split
    · exact h
    · exact qinv_of_good ((good_of_eq c (s := s) (t := { s with kroom := s.kroom + k }) rfl (fun _ h => h)).trans
        (good_tWriteReady c _)) h
    · exact qinv_of_good ((good_of_eq c (s := s) (t := { s with kroom := s.kroom + k }) rfl (fun _ h => h)).trans
        (good_tSendtoReady c _)) h
  | lost e => exact qinv_of_good (good_fcLost c s e) h
  | fail e =>
    simp only [step]
    split
    · exact h
    · exact qinv_of_good (good_tForceClose c s e) h
  | close => exact qinv_of_good (good_tClose c s) h
  | cancel i =>
    simp only [step]
    unfold cancelTask
    split
    · exact h
    · rename_i op hpc
      have := sched_upd_self (c := c) (s := s) (rem := s.ready) (t := { s with senders := upd s.senders i { (s.senders i) with mustCancel := true } })
        i { (s.senders i) with mustCancel := true } (h.1 i (by simp [hpc])) rfl (fun _ hh => hh)
        (by
          right; right
          rcases h.2 i (by simp [hpc]) with hw | hm
          · unfold Waiting at hw; simp [hpc] at hw
          · exact hm) h.1 (fun j hj => by
            rcases h.2 j hj with hw | hm
            · exact Or.inl hw
            · exact Or.inr (by simp [hm]))
      exact ⟨this.1, fun j hj => by
        rcases this.2 j hj with hw | hm
        · exact Or.inl hw
        · exact Or.inr (by simpa using hm)⟩
    · rename_i hpc
      have := sched_upd_self (c := c) (s := s) (rem := s.ready) (t := { s with senders := upd s.senders i { (s.senders i) with mustCancel := true } })
        i { (s.senders i) with mustCancel := true } (h.1 i (by simp [hpc])) rfl (fun _ hh => hh)
        (by
          right; right
          rcases h.2 i (by simp [hpc]) with hw | hm
          · unfold Waiting at hw; simp [hpc] at hw
          · exact hm) h.1 (fun j hj => by
            rcases h.2 j hj with hw | hm
            · exact Or.inl hw
            · exact Or.inr (by simp [hm]))
      exact ⟨this.1, fun j hj => by
        rcases this.2 j hj with hw | hm
        · exact Or.inl hw
        · exact Or.inr (by simpa using hm)⟩
    · rename_i hpc
      split
      · -- the pending waiter is cancelled: its wake-up is scheduled
        have := sched_upd_self (c := c) (s := s) (rem := s.ready)
          (t := { s with senders := upd s.senders i { (s.senders i) with fut := .cancelled }, ready := s.ready ++ [.task i] })
          i { (s.senders i) with fut := .cancelled } (h.1 i (by simp [hpc])) rfl (fun _ hh => by simp [hh])
          (Or.inr (Or.inr (by simp))) h.1 (fun j hj => by
            rcases h.2 j hj with hw | hm
            · exact Or.inl hw
            · exact Or.inr (by simp [hm]))
        exact ⟨this.1, fun j hj => by
          rcases this.2 j hj with hw | hm
          · exact Or.inl hw
          · exact Or.inr (by simpa using hm)⟩
      · rename_i hf
        have := sched_upd_self (c := c) (s := s) (rem := s.ready) (t := { s with senders := upd s.senders i { (s.senders i) with mustCancel := true } })
          i { (s.senders i) with mustCancel := true } (h.1 i (by simp [hpc])) rfl (fun _ hh => hh)
          (by
            right; right
            rcases h.2 i (by simp [hpc]) with hw | hm
            · exact absurd hw.2 hf
            · exact hm) h.1 (fun j hj => by
              rcases h.2 j hj with hw | hm
              · exact Or.inl hw
              · exact Or.inr (by simp [hm]))
        exact ⟨this.1, fun j hj => by
          rcases this.2 j hj with hw | hm
          · exact Or.inl hw
          · exact Or.inr (by simpa using hm)⟩
  | turn =>
    simp only [step]
    have hb0 : Bound c (beginTurn s) := h.1
    have hq0 : Sched (s.ready ++ (beginTurn s).ready) (beginTurn s) := by
      intro j hj
      rcases h.2 j hj with hw | hm
      · exact Or.inl hw
      · exact Or.inr (by simp [beginTurn, hm])
    have := sched_foldl s.ready hb0 hq0
    exact ⟨this.1, this.2⟩

theorem qinv_run (c : Cfg) (evs : List Ev) : ∀ {s : St}, QInv c s → QInv c (run c s evs).1 := by
  induction evs with
  | nil => intro s h; exact h
  | cons e es ih => intro s h; simpa [run] using ih (qinv_step c e h)

end EasyNet.C20.FC
