/-
  Lemmas for C15: the request receivers and the handler driver of Model/StreamServer.lean deliver, in order and
  once each, exactly what the byte-level reference decoder `refRun` cuts out of the reads made.
-/
import EasyNet.Model.StreamServer
import EasyNet.Lemmas.ChunkIndep
import EasyNet.Lemmas.ConsumerSim
namespace EasyNet.C15
open EasyNet

/-- "the consumer state `k` retains the bytes `h`" for the operations the receivers use.
    `decodeW spec h = (h, [])` says: nothing complete is held. -/
structure IfaceSim {κ : Type} (I : Iface κ) (spec : Bytes → SRes) (Rel : κ → Bytes → Prop) : Prop where
  drain_some : ∀ k h k' it, Rel k h → I.drainNext k = (k', some it) →
    ∃ h', Rel k' h' ∧ decodeW spec h = ((decodeW spec h').1, it :: (decodeW spec h').2)
  drain_none : ∀ k h k', Rel k h → I.drainNext k = (k', none) → Rel k' h ∧ decodeW spec h = (h, [])
  want_rel : ∀ k h, Rel k h → Rel (I.want k).1 h
  feed_some : ∀ k h d k' it, Rel k h → decodeW spec h = (h, []) → d.length ≤ (I.want k).2 →
    I.feed (I.want k).1 d = (k', some it) →
    ∃ h', Rel k' h' ∧ decodeW spec (h ++ d) = ((decodeW spec h').1, it :: (decodeW spec h').2)
  feed_none : ∀ k h d k', Rel k h → decodeW spec h = (h, []) → d.length ≤ (I.want k).2 →
    I.feed (I.want k).1 d = (k', none) →
    Rel k' (h ++ d) ∧ decodeW spec (h ++ d) = (h ++ d, [])

/-! ### reference decoder: appending one read -/

theorem refRun_append (spec : Bytes → SRes) (h : Bytes) (a b : List Bytes) :
    refRun spec h (a ++ b) =
      ((refRun spec (refRun spec h a).1 b).1, (refRun spec h a).2 ++ (refRun spec (refRun spec h a).1 b).2) := by
  induction a generalizing h with
  | nil => simp [refRun]
  | cons c cs ih =>
    simp only [List.cons_append, refRun]
    rw [ih]
    simp [List.append_assoc]

theorem refRun_snoc {spec : Bytes → SRes} {ok : Bytes → Prop} (L : SpecLaws spec ok) (reads : List Bytes) (d h : Bytes) (D : List Item)
    (hr : refRun spec [] reads = (h, D)) :
    refRun spec [] (reads ++ [d]) = ((decodeW spec (h ++ d)).1, D ++ (decodeW spec (h ++ d)).2) := by
  rw [refRun_append, hr]
  simp only [refRun, List.append_nil]
  rw [refRecv_eq_decodeW L]

/-! ### invariants -/

def streamOf (tr : Transport) : Bytes := (tr.chunks.map (·.2)).flatten

variable {κ : Type} {I : Iface κ} {spec : Bytes → SRes} {Rel : κ → Bytes → Prop}

/-- the consumer holds `h`; the reference decoder run over the reads made so far has delivered `D` plus what is
    still complete inside `h` -/
def Inv (spec : Bytes → SRes) (Rel : κ → Bytes → Prop) (s : RState κ) (D : List Item) : Prop :=
  ∃ h, Rel s.k h ∧ refRun spec [] s.reads = ((decodeW spec h).1, D ++ (decodeW spec h).2)

/-- nothing complete is held: the reference decoder has delivered exactly `D` -/
def Exact (spec : Bytes → SRes) (Rel : κ → Bytes → Prop) (s : RState κ) (D : List Item) : Prop :=
  ∃ h, Rel s.k h ∧ decodeW spec h = (h, []) ∧ refRun spec [] s.reads = (h, D)

theorem Exact.inv {s : RState κ} {D : List Item} (h : Exact spec Rel s D) : Inv spec Rel s D := by
  obtain ⟨b, hr, hd, hrun⟩ := h
  exact ⟨b, hr, by rw [hd, hrun]; simp⟩

/-- everything needed about a receive-side state: delivery invariant, the reads are a prefix of the stream `S`,
    and once the end of the stream was seen nothing is pending -/
structure Full (spec : Bytes → SRes) (Rel : κ → Bytes → Prop) (S : Bytes) (s : RState κ) (D : List Item) : Prop where
  inv : Inv spec Rel s D
  pre : s.reads.flatten ++ streamOf s.tr = S
  fin : s.sawEnd = true → Exact spec Rel s D ∧ s.tr.chunks = []

def actItems : Action → List Item
  | .item it => [it]
  | _ => []

theorem streamOf_step (tr : Transport) (t : Nat) (d : Bytes) (rest : List (Nat × Bytes)) (n : Nat)
    (h : tr.chunks = (t, d) :: rest) :
    d.take n ++ streamOf { tr with chunks := if (d.drop n).isEmpty then rest else (t, d.drop n) :: rest } = streamOf tr := by
  simp only [streamOf, h]
  by_cases he : (d.drop n).isEmpty
  · have he' : d.drop n = [] := by simpa using he
    simp only [he, if_true, List.map_cons, List.flatten_cons]
    have ht : d.take n = d := by
      have := List.take_append_drop n d
      rw [he'] at this
      simpa using this
    rw [ht]
  · simp only [he, Bool.false_eq_true, if_false, List.map_cons, List.flatten_cons]
    rw [← List.append_assoc, List.take_append_drop]

/-- the loop of `next()` after the consumer was found drained -/
theorem recvLoop_full (Sim : IfaceSim I spec Rel) {ok : Bytes → Prop} (L : SpecLaws spec ok) (S : Bytes) :
    ∀ (fuel : Nat) (s : RState κ) (dl : Option Nat) (D : List Item),
      Exact spec Rel s D → s.reads.flatten ++ streamOf s.tr = S → (s.sawEnd = true → s.tr.chunks = []) →
      Full spec Rel S (recvLoop I fuel s dl).1 (D ++ actItems (recvLoop I fuel s dl).2) ∧
      ((recvLoop I fuel s dl).2 = .timeout ∨ (recvLoop I fuel s dl).2 = .eof ∨ (∃ b, (recvLoop I fuel s dl).2 = .exc b) →
        Exact spec Rel (recvLoop I fuel s dl).1 D) := by
  intro fuel
  induction fuel with
  | zero =>
    intro s dl D hex hpre hfin
    simp only [recvLoop, actItems, List.append_nil]
    exact ⟨⟨hex.inv, hpre, fun h => ⟨hex, hfin h⟩⟩, fun _ => hex⟩
  | succ fuel ih =>
    intro s dl D hex hpre hfin
    obtain ⟨h, hrel, hdec, hrun⟩ := hex
    have hwant : Exact spec Rel { s with k := (I.want s.k).1 } D := ⟨h, Sim.want_rel _ _ hrel, hdec, hrun⟩
    unfold recvLoop
    by_cases hp : dlPassed dl s.now
    · simp only [hp, if_true, actItems, List.append_nil]
      exact ⟨⟨hwant.inv, hpre, fun hs => ⟨hwant, hfin hs⟩⟩, fun _ => hwant⟩
    · simp only [hp, Bool.false_eq_true, if_false]
      cases hch : s.tr.chunks with
      | nil =>
        simp only
        by_cases hx : expired dl (max s.tr.endT s.now)
        · simp only [hx, if_true, actItems, List.append_nil]
          have hw2 : Exact spec Rel { s with k := (I.want s.k).1, now := atDeadline dl s.now } D :=
            ⟨h, Sim.want_rel _ _ hrel, hdec, hrun⟩
          exact ⟨⟨hw2.inv, hpre, fun hs => ⟨hw2, hfin hs⟩⟩, fun _ => hw2⟩
        · simp only [hx, Bool.false_eq_true, if_false]
          have hw2 : Exact spec Rel { s with k := (I.want s.k).1, now := max s.tr.endT s.now, sawEnd := true } D :=
            ⟨h, Sim.want_rel _ _ hrel, hdec, hrun⟩
          cases hk : s.tr.endKind with
          | eof =>
            simp only [actItems, List.append_nil]
            exact ⟨⟨hw2.inv, hpre, fun _ => ⟨hw2, hch⟩⟩, fun _ => hw2⟩
          | reset =>
            simp only
            by_cases hf : s.tr.filter
            · simp only [hf, if_true, actItems, List.append_nil]
              exact ⟨⟨hw2.inv, hpre, fun _ => ⟨hw2, hch⟩⟩, fun _ => hw2⟩
            · simp only [hf, Bool.false_eq_true, if_false, actItems, List.append_nil]
              exact ⟨⟨hw2.inv, hpre, fun _ => ⟨hw2, hch⟩⟩, fun _ => hw2⟩
          | oserror =>
            simp only [actItems, List.append_nil]
            exact ⟨⟨hw2.inv, hpre, fun _ => ⟨hw2, hch⟩⟩, fun _ => hw2⟩
      | cons c rest =>
        obtain ⟨t, d⟩ := c
        simp only
        have hnotEnd : s.sawEnd = false := by
          cases hs : s.sawEnd with
          | false => rfl
          | true => have := hfin hs; rw [hch] at this; cases this
        by_cases hx : expired dl (max t s.now)
        · simp only [hx, if_true, actItems, List.append_nil]
          have hw2 : Exact spec Rel { s with k := (I.want s.k).1, now := atDeadline dl s.now } D :=
            ⟨h, Sim.want_rel _ _ hrel, hdec, hrun⟩
          exact ⟨⟨hw2.inv, hpre, fun hs => ⟨hw2, hfin hs⟩⟩, fun _ => hw2⟩
        · simp only [hx, Bool.false_eq_true, if_false]
          have hpre' : (s.reads ++ [d.take (I.want s.k).2]).flatten ++
              streamOf { s.tr with chunks := if (d.drop (I.want s.k).2).isEmpty then rest
                                              else (t, d.drop (I.want s.k).2) :: rest } = S := by
            rw [← hpre]
            simp only [List.flatten_append, List.flatten_cons, List.flatten_nil, List.append_nil, List.append_assoc]
            rw [streamOf_step s.tr t d rest _ hch]
          have hsnoc := refRun_snoc L s.reads (d.take (I.want s.k).2) h D hrun
          cases hfeed : I.feed (I.want s.k).1 (d.take (I.want s.k).2) with
          | mk k2 r =>
            cases r with
            | some it =>
              simp only [actItems]
              obtain ⟨h', hrel', hdec'⟩ := Sim.feed_some _ h _ k2 it hrel hdec (List.length_take_le _ _) hfeed
              refine ⟨⟨⟨h', hrel', ?_⟩, hpre', ?_⟩, ?_⟩
              · show refRun spec [] (s.reads ++ [d.take (I.want s.k).2]) = _
                rw [hsnoc, hdec']
                simp [List.append_assoc]
              · intro hs
                simp only [hnotEnd] at hs
                cases hs
              · intro hc
                rcases hc with hc | hc | ⟨b, hc⟩ <;> cases hc
            | none =>
              simp only
              obtain ⟨hrel', hdec'⟩ := Sim.feed_none _ h _ k2 hrel hdec (List.length_take_le _ _) hfeed
              apply ih
              · refine ⟨h ++ d.take (I.want s.k).2, hrel', hdec', ?_⟩
                show refRun spec [] (s.reads ++ [d.take (I.want s.k).2]) = _
                rw [hsnoc, hdec']
                simp
              · exact hpre'
              · intro hs
                simp only [hnotEnd] at hs
                cases hs

/-- `request_receiver.next(timeout)` -/
theorem recvNext_full (Sim : IfaceSim I spec Rel) {ok : Bytes → Prop} (L : SpecLaws spec ok) (S : Bytes)
    (s : RState κ) (to : Option Nat) (D : List Item) (hF : Full spec Rel S s D) :
    Full spec Rel S (recvNext I s to).1 (D ++ actItems (recvNext I s to).2) ∧
    ((recvNext I s to).2 = .timeout ∨ (recvNext I s to).2 = .eof ∨ (∃ b, (recvNext I s to).2 = .exc b) →
      Exact spec Rel (recvNext I s to).1 D) := by
  obtain ⟨h, hrel, hrun⟩ := hF.inv
  unfold recvNext
  cases hd : I.drainNext s.k with
  | mk k' r =>
    cases r with
    | some it =>
      simp only [actItems]
      obtain ⟨h', hrel', hdec'⟩ := Sim.drain_some _ h k' it hrel hd
      refine ⟨⟨⟨h', hrel', ?_⟩, hF.pre, ?_⟩, ?_⟩
      · show refRun spec [] s.reads = _
        rw [hrun, hdec']
        simp [List.append_assoc]
      · intro hs
        -- after the end of the stream was seen nothing complete is held, so `drainNext` cannot deliver
        obtain ⟨⟨b, hb, hbd, _⟩, _⟩ := hF.fin hs
        obtain ⟨b', _, hbd'⟩ := Sim.drain_some _ b k' it hb hd
        rw [hbd] at hbd'
        simp at hbd'
      · intro hc
        rcases hc with hc | hc | ⟨b, hc⟩ <;> cases hc
    | none =>
      simp only
      obtain ⟨hrel', hdec'⟩ := Sim.drain_none _ h k' hrel hd
      have hex : Exact spec Rel { s with k := k' } D := by
        refine ⟨h, hrel', hdec', ?_⟩
        show refRun spec [] s.reads = _
        rw [hrun, hdec']
        simp
      exact recvLoop_full Sim L S _ { s with k := k' } _ D hex hF.pre (fun hs => (hF.fin hs).2)

/-! ### the handler driver -/

theorem delivered_append (a b : List Obs) : delivered (a ++ b) = delivered a ++ delivered b := by
  induction a with
  | nil => rfl
  | cons x xs ih => cases x <;> simp [delivered, ih]

theorem delivered_finish (c : Ctx κ) : delivered (finish c) = [] := rfl

theorem delivered_closeActive (layer : Layer) (name : String) (isOc : Bool) (c : Ctx κ) :
    delivered (closeActive layer name isOc c) = [] := by
  unfold closeActive
  split <;> rfl

theorem delivered_actionObs (name : String) (t : Nat) (a : Action) : delivered (actionObs name t a) = actItems a := by
  cases a <;> rfl

theorem delivered_post (name : String) (st : Step) (last : Bool) (c : Ctx κ) : delivered (post name st last c).2 = [] := by
  unfold post
  cases st.resp <;> cases st.close <;> cases last <;> rfl

theorem post_s (name : String) (st : Step) (last : Bool) (c : Ctx κ) : (post name st last c).1.s = c.s := rfl

theorem delivered_genStart (first : Bool) (name : String) (t : Nat) :
    delivered (if first = true then [Obs.genStart name t] else []) = [] := by
  cases first <;> rfl

theorem Full.now {S : Bytes} {s : RState κ} {D : List Item} (h : Full spec Rel S s D) (n : Nat) :
    Full spec Rel S { s with now := n } D := by
  obtain ⟨⟨b, hb, hrun⟩, hpre, hfin⟩ := h
  exact ⟨⟨b, hb, hrun⟩, hpre, fun hs => by
    obtain ⟨⟨b', hb', hd', hr'⟩, hc⟩ := hfin hs
    exact ⟨⟨b', hb', hd', hr'⟩, hc⟩⟩

theorem stepOnce_emptyGen (layer : Layer) (name : String) (isOc : Bool) (c : Ctx κ) :
    (stepOnce I layer (.emptyGen name isOc) c).ctx = c ∧ delivered (stepOnce I layer (.emptyGen name isOc) c).obs = [] := by
  simp only [stepOnce]
  by_cases h1 : layer = .high ∧ isOc = false ∧ c.closing = true
  · simp [h1, delivered, finish]
  · simp only [h1, if_false]
    by_cases h2 : isOc = true
    · simp [h2, delivered]
    · simp only [h2, Bool.false_eq_true, if_false]
      by_cases h3 : layer = .high
      · simp [h3, delivered, finish]
      · simp [h3, delivered, finish]

theorem stepOnce_full (Sim : IfaceSim I spec Rel) {ok : Bytes → Prop} (L : SpecLaws spec ok) (S : Bytes) (layer : Layer)
    (it : FItem) (c : Ctx κ) (D : List Item) (hF : Full spec Rel S c.s D) :
    Full spec Rel S (stepOnce I layer it c).ctx.s (D ++ delivered (stepOnce I layer it c).obs) := by
  cases it with
  | emptyGen name isOc =>
    rw [(stepOnce_emptyGen layer name isOc c).1, (stepOnce_emptyGen layer name isOc c).2]
    simpa using hF
  | step name isOc first last st =>
    simp only [stepOnce]
    by_cases h1 : first = true ∧ layer = .high ∧ isOc = false ∧ c.closing = true
    · simp only [h1, and_self, if_true]
      simpa [delivered, delivered_finish] using hF
    · simp only [h1, if_false]
      by_cases h2 : c.closing = true
      · simp only [h2, if_true, delivered_append, delivered_genStart, delivered_closeActive, List.append_nil]
        exact hF.now _
      · simp only [h2, Bool.false_eq_true, if_false]
        have hR := recvNext_full Sim L S { c.s with now := c.s.now + st.sleep } st.timeout D (hF.now _)
        by_cases heof : (recvNext I { c.s with now := c.s.now + st.sleep } st.timeout).2 = .eof
        · simp only [heof, if_true, delivered_append, delivered_genStart, delivered_closeActive, List.append_nil]
          have := hR.1
          rw [heof] at this
          simpa [actItems] using this
        · simp only [heof, if_false, delivered_append, delivered_genStart, delivered_actionObs, delivered_post,
            List.append_nil, List.nil_append, post_s]
          exact hR.1

theorem run_full (Sim : IfaceSim I spec Rel) {ok : Bytes → Prop} (L : SpecLaws spec ok) (S : Bytes) (layer : Layer) :
    ∀ (items : List FItem) (c : Ctx κ) (D : List Item), Full spec Rel S c.s D →
      Full spec Rel S (run I layer items c).2 (D ++ delivered (run I layer items c).1) := by
  intro items
  induction items with
  | nil =>
    intro c D hF
    simpa [run, delivered_finish] using hF
  | cons it rest ih =>
    intro c D hF
    have h1 := stepOnce_full Sim L S layer it c D hF
    unfold run
    split
    · exact h1
    · have h2 := ih _ _ h1
      simpa [delivered_append, List.append_assoc] using h2

theorem delivered_connObs (sh : Shape) : delivered (connObs sh) = [] := by
  unfold connObs
  split <;> rfl

/-- every session: what the handler generators received is what the reference decoder cuts out of the reads made,
    minus what is still complete in the consumer; the reads are a prefix of the stream; and once the end of the
    stream has been seen, nothing is left undelivered -/
theorem session_full (Sim : IfaceSim I spec Rel) {ok : Bytes → Prop} (L : SpecLaws spec ok) (k0 : κ) (hk0 : Rel k0 [])
    (sh : Shape) (tr : Transport) :
    Full spec Rel (streamOf tr) (sessionFull I k0 sh tr).2 (delivered (sessionFull I k0 sh tr).1) := by
  have h0 : Full spec Rel (streamOf tr) (initCtx k0 tr).s [] := by
    refine ⟨⟨[], hk0, ?_⟩, ?_, ?_⟩
    · have : decodeW spec [] = ([], []) := by rw [decodeW_unfold L]; simp
      simp [initCtx, refRun, this]
    · simp [initCtx]
    · intro hs
      simp [initCtx] at hs
  have := run_full Sim L (streamOf tr) sh.layer sh.flatten (initCtx k0 tr) [] h0
  simpa [sessionFull, delivered_append, delivered_connObs] using this

/-! ### the copying consumer satisfies the interface laws -/

theorem decodeW_nil {spec : Bytes → SRes} {ok : Bytes → Prop} (L : SpecLaws spec ok) : decodeW spec [] = ([], []) := by
  rw [decodeW_unfold L]; simp

theorem decodeW_need {spec : Bytes → SRes} {ok : Bytes → Prop} (L : SpecLaws spec ok) (h : Bytes) (hn : spec h = .need) : decodeW spec h = (h, []) := by
  rw [decodeW_unfold L]
  by_cases hb : h.isEmpty
  · have : h = [] := by simpa using hb
    subst this; simp
  · simp [hb, hn]

/-- feeding the bytes `b` (all that is retained plus the new data) to a framer that has seen `pre` -/
theorem framer_step {σ : Type} {init : σ} {feed : σ → Bytes → Res σ} {spec : Bytes → SRes} {FInv : σ → Bytes → Prop}
    (R : Refines init feed spec FInv) {ok : Bytes → Prop} (L : SpecLaws spec ok) (s : σ) (pre c : Bytes) (hinv : FInv s pre)
    (hne : (pre ++ c).isEmpty = false) :
    (∀ d r, feed s c = .done d r →
        Consumer.Rel spec FInv (⟨r, none⟩ : Consumer σ) r ∧
        decodeW spec (pre ++ c) = ((decodeW spec r).1, Item.frame d :: (decodeW spec r).2)) ∧
    (∀ r, feed s c = .fail r →
        Consumer.Rel spec FInv (⟨r, none⟩ : Consumer σ) r ∧
        decodeW spec (pre ++ c) = ((decodeW spec r).1, Item.limit :: (decodeW spec r).2)) ∧
    (∀ s', feed s c = .need s' →
        Consumer.Rel spec FInv (⟨[], some s'⟩ : Consumer σ) (pre ++ c) ∧ decodeW spec (pre ++ c) = (pre ++ c, [])) := by
  have hstep := R.step s pre c hinv
  refine ⟨?_, ?_, ?_⟩
  · intro d r hf
    have h1 := hstep.1; rw [hf] at h1; simp only [Res.erase] at h1
    refine ⟨Or.inl ⟨rfl, rfl⟩, ?_⟩
    rw [decodeW_unfold L (pre ++ c)]
    simp [hne, ← h1]
  · intro r hf
    have h1 := hstep.1; rw [hf] at h1; simp only [Res.erase] at h1
    refine ⟨Or.inl ⟨rfl, rfl⟩, ?_⟩
    rw [decodeW_unfold L (pre ++ c)]
    simp [hne, ← h1]
  · intro s' hf
    have h1 := hstep.1; rw [hf] at h1; simp only [Res.erase] at h1
    exact ⟨Or.inr ⟨s', rfl, rfl, hstep.2 s' hf, h1.symm⟩, decodeW_need L _ h1.symm⟩

theorem copyIface_sim {σ : Type} {init : σ} {feed : σ → Bytes → Res σ} {spec : Bytes → SRes} {FInv : σ → Bytes → Prop}
    (R : Refines init feed spec FInv) {ok : Bytes → Prop} (L : SpecLaws spec ok) (maxRecv : Nat) :
    IfaceSim (copyIface init feed maxRecv) spec (Consumer.Rel spec FInv) := by
  have key : ∀ (c : Consumer σ) (h d : Bytes) (k' : Consumer σ) (r : Option Item),
      Consumer.Rel spec FInv c h → (d = [] ∨ decodeW spec h = (h, [])) →
      Consumer.next init feed c d = (k', r) →
      (∀ it, r = some it → ∃ h', Consumer.Rel spec FInv k' h' ∧
          decodeW spec (h ++ d) = ((decodeW spec h').1, it :: (decodeW spec h').2)) ∧
      (r = none → Consumer.Rel spec FInv k' (h ++ d) ∧ decodeW spec (h ++ d) = (h ++ d, [])) := by
    intro c h d k' r hrel hcase hnext
    unfold Consumer.next at hnext
    rcases hrel with ⟨hfr, hbuf⟩ | ⟨s, hfr, hbuf, hinv, hneed⟩
    · -- no suspended framer, the retained bytes are in `buffer`
      subst hbuf
      by_cases he : (c.buffer ++ d).isEmpty
      · have he' : d.isEmpty = true ∧ c.buffer.isEmpty = true := by
          simp at he; simp [he.1, he.2]
        simp only [he', and_self, if_true] at hnext
        have hb : c.buffer = [] := by simpa using he'.2
        have hd : d = [] := by simpa using he'.1
        cases hnext
        refine ⟨fun it hit => (by cases hit), fun _ => ?_⟩
        rw [hb, hd]
        exact ⟨Or.inl ⟨hfr, by simpa using hb⟩, by simpa using decodeW_nil L⟩
      · have he' : ¬ (d.isEmpty = true ∧ c.buffer.isEmpty = true) := by
          intro hh; apply he; simp at hh; simp [hh.1, hh.2]
        have hrecv : (if d.isEmpty = true then c.buffer else c.buffer ++ d) = c.buffer ++ d := by
          by_cases hc : d.isEmpty
          · have : d = [] := by simpa using hc
            simp [this]
          · simp [hc]
        simp only [he', if_false, hfr, hrecv] at hnext
        have hne : ([] ++ (c.buffer ++ d)).isEmpty = false := by simpa using he
        have F := framer_step R L init [] (c.buffer ++ d) R.init hne
        simp only [List.nil_append] at F
        cases hf : feed init (c.buffer ++ d) with
        | done dd rr =>
          rw [hf] at hnext; cases hnext
          obtain ⟨h1, h2⟩ := F.1 dd rr hf
          exact ⟨fun it hit => (by cases hit; exact ⟨rr, h1, h2⟩), fun hn => (by cases hn)⟩
        | fail rr =>
          rw [hf] at hnext; cases hnext
          obtain ⟨h1, h2⟩ := F.2.1 rr hf
          exact ⟨fun it hit => (by cases hit; exact ⟨rr, h1, h2⟩), fun hn => (by cases hn)⟩
        | need s' =>
          rw [hf] at hnext; cases hnext
          obtain ⟨h1, h2⟩ := F.2.2 s' hf
          exact ⟨fun it hit => (by cases hit), fun _ => ⟨h1, h2⟩⟩
    · -- a framer is suspended on the bytes `h`
      by_cases hc : d.isEmpty
      · have hd : d = [] := by simpa using hc
        subst hd
        simp only [hbuf, List.isEmpty_nil, and_self, if_true] at hnext
        cases hnext
        refine ⟨fun it hit => (by cases hit), fun _ => ?_⟩
        simp only [List.append_nil]
        exact ⟨Or.inr ⟨s, hfr, hbuf, hinv, hneed⟩, decodeW_need L _ hneed⟩
      · have hne : (h ++ d).isEmpty = false := by
          cases d with
          | nil => simp at hc
          | cons x xs => simp
        simp only [hc, hbuf, Bool.false_eq_true, false_and, if_false, hfr, List.nil_append] at hnext
        have F := framer_step R L s h d hinv hne
        cases hf : feed s d with
        | done dd rr =>
          rw [hf] at hnext; cases hnext
          obtain ⟨h1, h2⟩ := F.1 dd rr hf
          exact ⟨fun it hit => (by cases hit; exact ⟨rr, h1, h2⟩), fun hn => (by cases hn)⟩
        | fail rr =>
          rw [hf] at hnext; cases hnext
          obtain ⟨h1, h2⟩ := F.2.1 rr hf
          exact ⟨fun it hit => (by cases hit; exact ⟨rr, h1, h2⟩), fun hn => (by cases hn)⟩
        | need s' =>
          rw [hf] at hnext; cases hnext
          obtain ⟨h1, h2⟩ := F.2.2 s' hf
          exact ⟨fun it hit => (by cases hit), fun _ => ⟨h1, h2⟩⟩
  refine ⟨?_, ?_, ?_, ?_, ?_⟩
  · intro k h k' it hrel hd
    have := (key k h [] k' (some it) hrel (Or.inl rfl) hd).1 it rfl
    simpa using this
  · intro k h k' hrel hd
    have := (key k h [] k' none hrel (Or.inl rfl) hd).2 rfl
    simpa using this
  · intro k h hrel
    exact hrel
  · intro k h d k' it hrel hdec _ hf
    exact (key k h d k' (some it) hrel (Or.inr hdec) hf).1 it rfl
  · intro k h d k' hrel hdec _ hf
    exact (key k h d k' none hrel (Or.inr hdec) hf).2 rfl

/-! ### a TimeoutError means: nothing was readable before the deadline -/

theorem recvLoop_timeout (I : Iface κ) :
    ∀ (fuel : Nat) (s : RState κ) (dl : Nat), s.now < dl → (∀ c ∈ s.tr.chunks, c.1 ≠ dl) →
      (recvLoop I fuel s (some dl)).2 = .timeout →
      (recvLoop I fuel s (some dl)).1.now = dl ∧
      (∀ c rest, (recvLoop I fuel s (some dl)).1.tr.chunks = c :: rest → dl < c.1) ∧
      ((recvLoop I fuel s (some dl)).1.tr.chunks = [] → dl < (recvLoop I fuel s (some dl)).1.tr.endT) := by
  intro fuel
  induction fuel with
  | zero =>
    intro s dl _ _ h
    simp [recvLoop] at h
  | succ fuel ih =>
    intro s dl hnow hne h
    have hp : dlPassed (some dl) s.now = false := by
      simp only [dlPassed, decide_eq_false_iff_not]; omega
    unfold recvLoop at h ⊢
    simp only [hp, Bool.false_eq_true, if_false] at h ⊢
    cases hch : s.tr.chunks with
    | nil =>
      simp only [hch] at h ⊢
      by_cases hx : expired (some dl) (max s.tr.endT s.now)
      · simp only [hx, if_true] at h ⊢
        refine ⟨rfl, ?_, ?_⟩
        · intro c rest hc
          rw [hch] at hc
          cases hc
        · intro _
          simp only [expired, decide_eq_true_eq] at hx
          omega
      · simp only [hx, Bool.false_eq_true, if_false] at h
        cases hk : s.tr.endKind <;> simp only [hk] at h
        · cases h
        · by_cases hf : s.tr.filter <;> simp [hf] at h
        · cases h
    | cons c rest =>
      obtain ⟨t, d⟩ := c
      simp only [hch] at h ⊢
      by_cases hx : expired (some dl) (max t s.now)
      · simp only [hx, if_true] at h ⊢
        refine ⟨rfl, ?_, ?_⟩
        · intro c' rest' hc
          rw [hch] at hc
          cases hc
          simp only [expired, decide_eq_true_eq] at hx
          omega
        · intro hc
          rw [hch] at hc
          cases hc
      · simp only [hx, Bool.false_eq_true, if_false] at h ⊢
        have ht : t ≠ dl := hne (t, d) (by rw [hch]; simp)
        simp only [expired, decide_eq_true_eq] at hx
        cases hfeed : I.feed (I.want s.k).1 (d.take (I.want s.k).2) with
        | mk k2 r =>
          cases r with
          | some it =>
            rw [hfeed] at h
            cases h
          | none =>
            rw [hfeed] at h
            simp only at h ⊢
            apply ih _ dl _ _ h
            · show max t s.now < dl
              omega
            · intro c hc
              simp only at hc
              by_cases he : (d.drop (I.want s.k).2).isEmpty
              · simp only [he, if_true] at hc
                exact hne c (by rw [hch]; exact List.mem_cons_of_mem _ hc)
              · simp only [he, Bool.false_eq_true, if_false, List.mem_cons] at hc
                rcases hc with rfl | hc
                · exact ht
                · exact hne c (by rw [hch]; exact List.mem_cons_of_mem _ hc)

/-! ### generators: started ones are ended exactly once, one at a time; the connection is closed -/

/-- well-bracketing automaton over the observable events: `active` = the generator currently open -/
def balanced : Option String → List Obs → Bool
  | a, [] => a.isNone
  | a, .genStart n _ :: rest => a.isNone && balanced (some n) rest
  | a, .genEnd n _ _ :: rest => (a == some n) && balanced none rest
  | a, .req n _ _ :: rest => (a == some n) && balanced a rest
  | a, .errTimeout n _ :: rest => (a == some n) && balanced a rest
  | a, .errExc n _ _ :: rest => (a == some n) && balanced a rest
  | a, .resp n _ :: rest => (a == some n) && balanced a rest
  | a, .closedBy n _ :: rest => (a == some n) && balanced a rest
  | a, .taskDone _ :: rest => a.isNone && balanced a rest
  | a, .conn _ :: rest => balanced a rest
  | a, .disc _ _ :: rest => a.isNone && balanced a rest
  | a, .final _ _ _ :: rest => a.isNone && balanced a rest

/-- the flattened handler is well formed w.r.t. the generator that is open before each item -/
def WF : Option String → List FItem → Prop
  | a, [] => a = none
  | a, .emptyGen _ _ :: rest => a = none ∧ WF none rest
  | a, .step n _ first last _ :: rest =>
    (first = true → a = none) ∧ (first = false → a = some n) ∧ WF (if last then none else some n) rest

theorem balanced_append_open (a b : Option String) (xs ys : List Obs)
    (h : ∀ zs, balanced b zs = true → balanced a (xs ++ zs) = true) (hy : balanced b ys = true) :
    balanced a (xs ++ ys) = true := h ys hy

theorem balanced_finish (c : Ctx κ) : balanced none (finish c) = true := by
  simp [finish, balanced]

theorem balanced_closeActive (layer : Layer) (n : String) (isOc : Bool) (c : Ctx κ) :
    balanced (some n) (closeActive layer n isOc c) = true := by
  unfold closeActive
  split <;> simp [balanced, finish]

theorem balanced_actionObs (n : String) (t : Nat) (a : Action) (zs : List Obs) (h : balanced (some n) zs = true) :
    balanced (some n) (actionObs n t a ++ zs) = true := by
  cases a <;> simp [actionObs, balanced, h]

theorem balanced_post (n : String) (st : Step) (last : Bool) (c : Ctx κ) (zs : List Obs)
    (h : balanced (if last then none else some n) zs = true) :
    balanced (some n) ((post n st last c).2 ++ zs) = true := by
  unfold post
  cases st.resp <;> cases st.close <;> cases last <;> simp_all [balanced]

theorem wf_flattenGen (name : String) (isOc : Bool) (rest : List FItem) (hrest : WF none rest) :
    ∀ (steps : List Step) (first : Bool), (first = false → steps ≠ []) →
      WF (if first then none else some name) (flattenGen name isOc steps first ++ rest) := by
  intro steps
  induction steps with
  | nil =>
    intro first hf
    cases first with
    | true => simpa [flattenGen, WF] using hrest
    | false => exact absurd rfl (hf rfl)
  | cons st tl ih =>
    intro first _
    cases tl with
    | nil =>
      cases first <;> simpa [flattenGen, WF] using hrest
    | cons st2 tl2 =>
      have := ih false (fun _ => by simp)
      cases first <;> simpa [flattenGen, WF] using this

theorem wf_flattenGens : ∀ (gs : List (List Step)) (k : Nat), WF none (flattenGens k gs) := by
  intro gs
  induction gs with
  | nil => intro k; simp [flattenGens, WF]
  | cons g gs ih =>
    intro k
    simp only [flattenGens]
    have := wf_flattenGen (toString k) false _ (ih (k + 1)) g true (fun h => by cases h)
    simpa using this

theorem wf_flatten (sh : Shape) : WF none sh.flatten := by
  unfold Shape.flatten
  cases sh.layer with
  | low =>
    have := wf_flattenGen "0" false [] (by simp [WF]) (sh.gens.headD []) true (fun h => by cases h)
    simpa using this
  | high =>
    simp only
    cases sh.onconn with
    | none => simpa using wf_flattenGens sh.gens 0
    | some steps =>
      have := wf_flattenGen "oc" true _ (wf_flattenGens sh.gens 0) steps true (fun h => by cases h)
      simpa using this

theorem run_balanced (I : Iface κ) (layer : Layer) :
    ∀ (items : List FItem) (a : Option String) (c : Ctx κ), WF a items → balanced a (run I layer items c).1 = true := by
  intro items
  induction items with
  | nil =>
    intro a c hwf
    simp only [WF] at hwf
    subst hwf
    simpa [run] using balanced_finish c
  | cons it rest ih =>
    intro a c hwf
    cases it with
    | emptyGen name isOc =>
      obtain ⟨ha, hrest⟩ := hwf
      subst ha
      unfold run
      simp only [stepOnce]
      by_cases h1 : layer = .high ∧ isOc = false ∧ c.closing = true
      · simp [h1, balanced, finish]
      · simp only [h1, if_false]
        by_cases h2 : isOc = true
        · have := ih none c hrest
          simp [h2, balanced, this]
        · simp only [h2, Bool.false_eq_true, if_false]
          by_cases h3 : layer = .high
          · simp [h3, balanced, finish]
          · simp [h3, balanced, finish]
    | step name isOc first last st =>
      obtain ⟨hf1, hf2, hrest⟩ := hwf
      unfold run
      simp only [stepOnce]
      -- the generator `name` is open after the optional start event
      have hstart : ∀ zs t, balanced (some name) zs = true →
          balanced a ((if first = true then [Obs.genStart name t] else []) ++ zs) = true := by
        intro zs t hz
        cases first with
        | true => simp [hf1 rfl, balanced, hz]
        | false => simp [hf2 rfl, hz]
      by_cases h1 : first = true ∧ layer = .high ∧ isOc = false ∧ c.closing = true
      · simp only [h1, and_self, if_true]
        simp [hf1 h1.1, balanced, finish]
      · simp only [h1, if_false]
        by_cases h2 : c.closing = true
        · simp only [h2, if_true]
          exact hstart _ _ (balanced_closeActive _ _ _ _)
        · simp only [h2, Bool.false_eq_true, if_false]
          by_cases heof : (recvNext I { c.s with now := c.s.now + st.sleep } st.timeout).2 = .eof
          · simp only [heof, if_true]
            exact hstart _ _ (balanced_closeActive _ _ _ _)
          · simp only [heof, if_false, List.append_assoc]
            apply hstart
            apply balanced_actionObs
            apply balanced_post
            exact ih _ _ hrest

theorem balanced_conn (sh : Shape) (zs : List Obs) (h : balanced none zs = true) : balanced none (connObs sh ++ zs) = true := by
  unfold connObs
  split <;> simp [balanced, h]

/-- the last event of every client task: the transport has been closed -/
theorem run_final (I : Iface κ) (layer : Layer) :
    ∀ (items : List FItem) (c : Ctx κ), ∃ pre a n, (run I layer items c).1 = pre ++ [Obs.final true a n] := by
  intro items
  induction items with
  | nil => intro c; exact ⟨[.taskDone c.s.now], _, _, rfl⟩
  | cons it rest ih =>
    intro c
    have hfin : ∀ c' : Ctx κ, ∃ pre a n, finish c' = pre ++ [Obs.final true a n] := fun c' => ⟨[.taskDone c'.s.now], _, _, rfl⟩
    have hclose : ∀ n isOc (c' : Ctx κ), ∃ pre a m, closeActive layer n isOc c' = pre ++ [Obs.final true a m] := by
      intro n isOc c'
      unfold closeActive
      split
      · exact ⟨[.genEnd n true c'.s.now, .disc c'.closing c'.s.now, .taskDone c'.s.now], _, _, rfl⟩
      · exact ⟨[.genEnd n true c'.s.now, .taskDone c'.s.now], _, _, rfl⟩
    have hpre : ∀ (xs ys : List Obs), (∃ pre a n, ys = pre ++ [Obs.final true a n]) →
        ∃ pre a n, xs ++ ys = pre ++ [Obs.final true a n] := by
      rintro xs ys ⟨pre, a, n, rfl⟩
      exact ⟨xs ++ pre, a, n, by simp⟩
    unfold run
    cases it with
    | emptyGen name isOc =>
      simp only [stepOnce]
      by_cases h1 : layer = .high ∧ isOc = false ∧ c.closing = true
      · simp only [h1, and_self, if_true]
        exact hpre [_] _ (hfin c)
      · simp only [h1, if_false]
        by_cases h2 : isOc = true
        · simp only [h2, if_true, Bool.false_eq_true, if_false]
          exact hpre _ _ (ih c)
        · simp only [h2, Bool.false_eq_true, if_false]
          by_cases h3 : layer = .high
          · simp only [h3, if_true]
            exact hpre [_, _, _] _ (hfin c)
          · simp only [h3, if_false, if_true]
            exact hpre [_, _] _ (hfin c)
    | step name isOc first last st =>
      simp only [stepOnce]
      by_cases h1 : first = true ∧ layer = .high ∧ isOc = false ∧ c.closing = true
      · simp only [h1, and_self, if_true]
        exact hpre [_] _ (hfin c)
      · simp only [h1, if_false]
        by_cases h2 : c.closing = true
        · simp only [h2, if_true]
          exact hpre _ _ (hclose _ _ _)
        · simp only [h2, Bool.false_eq_true, if_false]
          by_cases heof : (recvNext I { c.s with now := c.s.now + st.sleep } st.timeout).2 = .eof
          · simp only [heof, if_true]
            exact hpre _ _ (hclose _ _ _)
          · simp only [heof, if_false]
            exact hpre _ _ (ih _)

end EasyNet.C15
