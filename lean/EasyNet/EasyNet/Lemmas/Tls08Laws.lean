/-
  C08: the record-layer laws (`TlsLaws`) an SSL engine is assumed to obey, the invariant that ties an engine obeying them
  to the wrapper's ghost logs, and the refinement chain that gives transparency.

  `pOut` / `pIn` : "the plaintext carried by the complete records of a ciphertext stream" for the direction the engine
  writes / reads (the peer has them swapped).  Cryptography is not modelled: the laws say what OpenSSL is trusted to do.
-/
import EasyNet.Lemmas.Tls08Inv
namespace EasyNet.C08
open EasyNet

structure TlsLaws {σ : Type} (E : Engine σ) (pOut pIn : Bytes → Bytes) where
  good : σ → Prop
  acc : σ → Bytes        -- plaintext accepted by `write` so far
  out : σ → Bytes        -- bytes appended to the outgoing BIO so far
  inp : σ → Bytes        -- bytes taken out of the incoming BIO so far
  ret : σ → Bytes        -- plaintext handed out by `read` so far
  /-- bookkeeping of one call, and `good` is preserved -/
  step : ∀ e call rbio eof, good e →
    good (E.call e call rbio eof).1 ∧
    acc (E.call e call rbio eof).1 = acc e ++ acceptedBy call (E.call e call rbio eof).2 ∧
    out (E.call e call rbio eof).1 = out e ++ (E.call e call rbio eof).2.cout ∧
    inp (E.call e call rbio eof).1 = inp e ++ rbio.take (E.call e call rbio eof).2.cin ∧
    ret (E.call e call rbio eof).1 = ret e ++ readBy call (E.call e call rbio eof).2
  /-- `write p` appends whole records framing exactly `p`: the stream emitted so far carries the accepted plaintext -/
  carried : ∀ e, good e → pOut (out e) = acc e
  /-- `read` hands out, in order, only plaintext of complete records it has consumed -/
  delivered : ∀ e, good e → ret e <+: pIn (inp e)

/-- more ciphertext never changes the plaintext already carried -/
def Mono (p : Bytes → Bytes) : Prop := ∀ a b, p a <+: p (a ++ b)

theorem Mono.prefix {p : Bytes → Bytes} (hm : Mono p) {a b : Bytes} (h : a <+: b) : p a <+: p b := by
  obtain ⟨r, rfl⟩ := h
  exact hm a r

theorem untag_tag (o : Org) (b : Bytes) : untag (tag o b) = b := by
  simp [untag, tag, Function.comp_def]

/-- the engine's own logs agree with the wrapper's ghost logs -/
structure GL {σ : Type} {E : Engine σ} {pOut pIn : Bytes → Bytes} (L : TlsLaws E pOut pIn) (c : Core σ) : Prop where
  good : L.good c.eng
  acc : L.acc c.eng = c.accepted
  out : L.out c.eng = untag c.outAll
  inp : L.inp c.eng = c.consumed
  ret : L.ret c.eng = c.engRead

theorem GL.init {σ : Type} {E : Engine σ} {pOut pIn : Bytes → Bytes} (L : TlsLaws E pOut pIn) (e : σ) (c : Bool)
    (hg : L.good e) (hi : L.acc e = [] ∧ L.out e = [] ∧ L.inp e = [] ∧ L.ret e = []) : GL L (St.init e c).core :=
  ⟨hg, hi.1, by show L.out e = untag []; rw [hi.2.1]; rfl, hi.2.2.1, hi.2.2.2⟩

theorem GL.engStep {σ : Type} {E : Engine σ} {pOut pIn : Bytes → Bytes} {L : TlsLaws E pOut pIn} {c : Core σ}
    (h : GL L c) (call : Call) : GL L (c.engStep E call) := by
  obtain ⟨h1, h2, h3, h4, h5⟩ := L.step c.eng call c.rbio c.rEof h.good
  refine ⟨h1, ?_, ?_, ?_, ?_⟩
  · show L.acc (E.call c.eng call c.rbio c.rEof).1 = c.accepted ++ acceptedBy call (c.resp E call)
    rw [h2, h.acc]; rfl
  · show L.out (E.call c.eng call c.rbio c.rEof).1 = untag (c.outAll ++ tag .bio (c.resp E call).cout)
    rw [h3, h.out, untag_append, untag_tag]; rfl
  · show L.inp (E.call c.eng call c.rbio c.rEof).1 = c.consumed ++ c.rbio.take (c.resp E call).cin
    rw [h4, h.inp]; rfl
  · show L.ret (E.call c.eng call c.rbio c.rEof).1 = c.engRead ++ readBy call (c.resp E call)
    rw [h5, h.ret]; rfl

theorem GL.closed {σ : Type} {E : Engine σ} {pOut pIn : Bytes → Bytes} (L : TlsLaws E pOut pIn) :
    Closed E (GL L) where
  eng := fun c call h _ _ => h.engStep call
  readOk := fun c n h _ => by
    have := h.engStep (.read n)
    exact ⟨this.good, this.acc, this.out, this.inp, this.ret⟩
  write := fun c d dq h => by
    have := GL.engStep (c := c) ⟨h.good, h.acc, h.out, h.inp, h.ret⟩ (.write (untag d))
    exact ⟨this.good, this.acc, this.out, this.inp, this.ret⟩
  xmit := fun _ h => ⟨h.good, h.acc, h.out, h.inp, h.ret⟩
  eofs := fun _ h => ⟨h.good, h.acc, h.out, h.inp, h.ret⟩
  feed := fun _ _ h _ => ⟨h.good, h.acc, h.out, h.inp, h.ret⟩
  dropFeed := fun _ _ h => ⟨h.good, h.acc, h.out, h.inp, h.ret⟩
  enqueue := fun _ _ _ h => ⟨h.good, h.acc, h.out, h.inp, h.ret⟩
  done := fun _ _ h _ => ⟨h.good, h.acc, h.out, h.inp, h.ret⟩
  flushed := fun _ _ h => ⟨h.good, h.acc, h.out, h.inp, h.ret⟩

/-- **the refinement chain**: writer side `a`, reader side `b`, the network delivered a prefix of what `a` handed to its
    transport -/
theorem chain_prefix {σa σb : Type} {Ea : Engine σa} {Eb : Engine σb} {pAB pBA : Bytes → Bytes}
    (La : TlsLaws Ea pAB pBA) (Lb : TlsLaws Eb pBA pAB) (hm : Mono pAB)
    (a : Core σa) (b : Core σb) (ga : G1 a) (gb : G1 b) (la : GL La a) (lb : GL Lb b) (rb : RInv b)
    (net : b.taken <+: untag a.xmits.flatten) :
    b.returned <+: untag a.written := by
  -- returned = engRead = ret eB ≼ pAB (inp eB) = pAB consumed ≼ pAB fedAll ≼ pAB taken ≼ pAB wire ≼ pAB outAll = acc eA = accepted ≼ written
  have h1 : b.returned <+: pAB b.consumed := by
    rw [rb, ← lb.ret, ← lb.inp]; exact Lb.delivered _ lb.good
  have h2 : pAB b.consumed <+: pAB b.fedAll := hm.prefix ⟨b.rbio, gb.ins⟩
  have h3 : pAB b.fedAll <+: pAB b.taken := hm.prefix gb.fedTaken
  have h4 : pAB b.taken <+: pAB (untag a.xmits.flatten) := hm.prefix net
  have h5 : pAB (untag a.xmits.flatten) <+: pAB (untag a.outAll) :=
    hm.prefix ⟨untag a.wbio, by rw [← untag_append, ga.outs]⟩
  have h6 : pAB (untag a.outAll) = a.accepted := by
    rw [← la.out, ← la.acc]; exact La.carried _ la.good
  have h7 : a.accepted <+: untag a.written := ⟨untag a.deque.flatten, ga.once⟩
  exact h1.trans (h2.trans (h3.trans (h4.trans (h5.trans (h6 ▸ h7)))))

/-- equality at quiescence: nothing left in the backlog, in either BIO, on the wire or inside the reading engine -/
theorem chain_eq {σa σb : Type} {Ea : Engine σa} {Eb : Engine σb} {pAB pBA : Bytes → Bytes}
    (La : TlsLaws Ea pAB pBA) (Lb : TlsLaws Eb pBA pAB)
    (a : Core σa) (b : Core σb) (ga : G1 a) (gb : G1 b) (la : GL La a) (lb : GL Lb b) (rb : RInv b)
    (hdq : a.deque = []) (hw : a.wbio = []) (net : b.taken = untag a.xmits.flatten)
    (hr : b.rbio = []) (he : b.rEof = false) (hbuf : Lb.ret b.eng = pAB (Lb.inp b.eng)) :
    b.returned = untag a.written := by
  have h1 : b.returned = pAB b.consumed := by rw [rb, ← lb.ret, ← lb.inp]; exact hbuf
  have h2 : b.consumed = b.taken := by
    have := gb.ins
    rw [hr, List.append_nil] at this
    rw [this, gb.fedEq he]
  have h3 : untag a.xmits.flatten = untag a.outAll := by
    have := ga.outs
    rw [hw, List.append_nil] at this
    rw [this]
  have h4 : pAB (untag a.outAll) = a.accepted := by
    rw [← la.out, ← la.acc]; exact La.carried _ la.good
  have h5 : a.accepted = untag a.written := by
    have := ga.once
    rw [hdq] at this
    simpa [untag] using this
  rw [h1, h2, net, h3, h4, h5]

/-! ### a concrete engine obeying the laws (non-vacuity): the null cipher with one-byte records -/

structure NullSt where
  acc : Bytes := []
  out : Bytes := []
  inp : Bytes := []
  ret : Bytes := []
  deriving DecidableEq, Repr

/-- `write d` emits `d` (accepting at most `cap ≥ 1` bytes per call); `read n` hands out up to `n` pending bytes, else
    WANT_READ (EOF error at end of stream); `do_handshake` succeeds at once -/
def nullEngine (cap : Nat) : Engine NullSt where
  call := fun e call rbio eof =>
    match call with
    | .handshake => (e, { out := .ok 0 })
    | .write d =>
      ({ e with acc := e.acc ++ d.take (cap + 1), out := e.out ++ d.take (cap + 1) },
       { out := .ok (cap + 1), cout := d.take (cap + 1) })
    | .read n =>
      if rbio = [] ∨ n = 0 then (e, { out := if eof then .eofError else .wantRead })
      else ({ e with inp := e.inp ++ rbio.take n, ret := e.ret ++ rbio.take n },
            { out := .ok (min n rbio.length), data := rbio.take n, cin := n })

def nullLaws (cap : Nat) : TlsLaws (nullEngine cap) id id where
  good := fun e => e.out = e.acc ∧ e.ret = e.inp
  acc := NullSt.acc
  out := NullSt.out
  inp := NullSt.inp
  ret := NullSt.ret
  step := by
    intro e call rbio eof hg
    cases call with
    | handshake => simp [nullEngine, acceptedBy, readBy, hg.1, hg.2]
    | write d => simp [nullEngine, acceptedBy, readBy, hg.1, hg.2]
    | read n =>
      simp only [nullEngine]
      split
      · cases eof <;> simp [acceptedBy, readBy, hg.1, hg.2]
      · simp [acceptedBy, readBy, hg.1, hg.2]
  carried := fun e hg => hg.1
  delivered := fun e hg => by rw [hg.2]; exact List.prefix_refl _

theorem mono_id : Mono id := fun a b => List.prefix_append a b

end EasyNet.C08
