/-
  C09 — lemmas for the close path: the retry loop never touches the closing flags, and with `UnwrapLaw` (the first
  `unwrap()` appends the close_notify alert record to the write BIO) the first thing the wrapped transport is asked to do is
  to send bytes ending with that record.
-/
import EasyNet.Lemmas.TlsEofGen
namespace EasyNet.TlsEof
open EasyNet.Gen.TlsEof
variable {ε : Type}

/-- the fields the retry loop must not touch -/
def St.ctl (s : St) : Bool × Bool × Bool := (s.closing, s.closedEv, s.innerClosing)

@[simp] theorem addOut_ctl (s : St) (o : Nat) (a : Bool) : (addOut s o a).ctl = s.ctl := rfl
@[simp] theorem markBoth_ctl (s : St) : (markBoth s).ctl = s.ctl := rfl

theorem innerCatch_ctl (T : Tables ε) (s : St) (x : Exn ε) : (innerCatch T s x).ctl = s.ctl := by
  cases x with
  | cls e p => simp only [innerCatch]; split <;> rfl
  | cancel => rfl
  | scopeTimeout => rfl

theorem sendPending_ctl (s : St) (script : List (Resp ε)) (x : Option (Exn ε)) (s2 : St) (rest2 : List (Resp ε)) (calls : List Call)
    (h : sendPending s script = some (x, s2, rest2, calls)) : s2.ctl = s.ctl ∧ calls = [.send s.wpend s.walert] := by
  unfold sendPending at h
  split at h
  all_goals first
    | (simp only [Option.some.injEq, Prod.mk.injEq] at h
       obtain ⟨_, hs, _, hc⟩ := h
       subst hs; subst hc
       exact ⟨rfl, rfl⟩)
    | (simp at h)

theorem flush_ctl (s : St) (script : List (Resp ε)) (x : Option (Exn ε)) (s2 : St) (rest2 : List (Resp ε)) (calls : List Call)
    (h : flush s script = some (x, s2, rest2, calls)) : s2.ctl = s.ctl := by
  unfold flush at h
  split at h
  · simp only [Option.some.injEq, Prod.mk.injEq] at h
    obtain ⟨_, hs, _, _⟩ := h
    subst hs; rfl
  · exact (sendPending_ctl s script x s2 rest2 calls h).1

theorem retry_frame (T : Tables ε) (m : Method) : ∀ (fuel : Nat) (s : St) (script : List (Resp ε)) (r : RR ε)
    (s' : St) (rest : List (Resp ε)) (calls : List Call),
    retry T m fuel s script = some (r, s', rest, calls) → s'.ctl = s.ctl := by
  intro fuel
  induction fuel with
  | zero => intro s script r s' rest calls h; simp [retry] at h
  | succ fuel ih =>
    intro s script r s' rest calls h
    unfold retry at h
    split at h
    · rename_i n out alert rest0
      split at h
      · simp only [Option.some.injEq, Prod.mk.injEq] at h
        obtain ⟨_, hs, _, _⟩ := h
        subst hs; rfl
      · split at h
        · simp at h
        · rename_i s2 rest2 calls2 hf
          have F := flush_ctl (addOut s out alert) rest0 none s2 rest2 calls2 hf
          simp only [Option.some.injEq, Prod.mk.injEq] at h
          obtain ⟨_, hs, _, _⟩ := h
          subst hs; simpa using F
        · rename_i x s2 rest2 calls2 hf
          have F := flush_ctl (addOut s out alert) rest0 (some x) s2 rest2 calls2 hf
          simp only [Option.some.injEq, Prod.mk.injEq] at h
          obtain ⟨_, hs, _, _⟩ := h
          subst hs; simpa using F
    · rename_i e pat out alert rest0
      split at h
      · split at h
        · simp at h
        · rename_i x s2 rest2 calls2 hf
          have F : s2.ctl = s.ctl := by
            split at hf
            · simpa using flush_ctl (addOut s out alert) rest0 (some x) s2 rest2 calls2 hf
            · simp at hf
          simp only [Option.some.injEq, Prod.mk.injEq] at h
          obtain ⟨_, hs, _, _⟩ := h
          subst hs; rw [innerCatch_ctl]; exact F
        · rename_i s2 rest2 calls2 hf
          have F : s2.ctl = s.ctl := by
            split at hf
            · simpa using flush_ctl (addOut s out alert) rest0 none s2 rest2 calls2 hf
            · simp only [Option.some.injEq, Prod.mk.injEq] at hf
              obtain ⟨_, hs, _, _⟩ := hf
              subst hs; rfl
          split at h
          · rename_i k rest3
            split at h
            · simp at h
            · rename_i r3 s3 rest4 calls' hrec
              have I := ih { s2 with fed := s2.fed + (k + 1) } rest3 r3 s3 rest4 calls' hrec
              simp only [Option.some.injEq, Prod.mk.injEq] at h
              obtain ⟨_, hs, _, _⟩ := h
              subst hs; rw [I]; exact F
          · rename_i rest3
            split at h
            · simp at h
            · rename_i r3 s3 rest4 calls' hrec
              have I := ih { s2 with rEof := s2.rEof || T.readintoEofOnZero } rest3 r3 s3 rest4 calls' hrec
              simp only [Option.some.injEq, Prod.mk.injEq] at h
              obtain ⟨_, hs, _, _⟩ := h
              subst hs; rw [I]; exact F
          · simp only [Option.some.injEq, Prod.mk.injEq] at h
            obtain ⟨_, hs, _, _⟩ := h
            subst hs; rw [innerCatch_ctl]; exact F
          · simp only [Option.some.injEq, Prod.mk.injEq] at h
            obtain ⟨_, hs, _, _⟩ := h
            subst hs; exact F
          · simp only [Option.some.injEq, Prod.mk.injEq] at h
            obtain ⟨_, hs, _, _⟩ := h
            subst hs; exact F
          · simp at h
      · split at h
        · simp at h
        · rename_i x s2 rest2 calls2 hf
          have F := (sendPending_ctl (addOut s out alert) rest0 (some x) s2 rest2 calls2 hf).1
          simp only [Option.some.injEq, Prod.mk.injEq] at h
          obtain ⟨_, hs, _, _⟩ := h
          subst hs; simpa using F
        · rename_i s2 rest2 calls2 hf
          have F := (sendPending_ctl (addOut s out alert) rest0 none s2 rest2 calls2 hf).1
          split at h
          · simp at h
          · rename_i r3 s3 rest3 calls' hrec
            have I := ih s2 rest2 r3 s3 rest3 calls' hrec
            simp only [Option.some.injEq, Prod.mk.injEq] at h
            obtain ⟨_, hs, _, _⟩ := h
            subst hs; rw [I]; simpa using F
      · simp only [Option.some.injEq, Prod.mk.injEq] at h
        obtain ⟨_, hs, _, _⟩ := h
        subst hs; rfl
      · simp at h
      · simp only [Option.some.injEq, Prod.mk.injEq] at h
        obtain ⟨_, hs, _, _⟩ := h
        subst hs; rfl
    · simp at h

/-- answers of the first `unwrap()` that are not an error of the SSL object: it returned, or it wants I/O -/
def UnwrapAns (a : SslAns TExc) : Prop :=
  (∃ n, a = .ret n) ∨ (∃ p, a = .raise tables.wantReadCls p) ∨ (∃ p, a = .raise tables.wantWriteCls p)

theorem fact_wantw : retryAct tables tables.retryClauses tables.wantWriteCls = some .wantWrite := by decide
theorem fact_unwrap_flushes : tables.noFlushAfter.contains Method.unwrap = false := by decide

/-- **UnwrapLaw ⇒ the alert is handed over first**: if the first `unwrap()` appended `out > 0` bytes ending with the alert
    record, the calls of the retry loop start with `ssl.unwrap`, `transport.send_all(<everything pending, ending with the alert>)` -/
theorem retry_unwrap_first (fuel : Nat) (s : St) (a : SslAns TExc) (out : Nat) (hout : 0 < out) (rest0 : List (Resp TExc))
    (ha : UnwrapAns a) (r : RR TExc) (s2 : St) (rest : List (Resp TExc)) (calls : List Call)
    (h : retry tables .unwrap (fuel + 1) s (.ssl a out true :: rest0) = some (r, s2, rest, calls)) :
    ∃ tail, calls = .ssl .unwrap :: .send (s.wpend + out) true :: tail := by
  have hw : (addOut s out true).wpend = s.wpend + out := rfl
  have hal : (addOut s out true).walert = true := by simp [addOut]; omega
  have hne : ¬ (addOut s out true).wpend = 0 := by rw [hw]; omega
  rcases ha with ⟨n, ha⟩ | ⟨p, ha⟩ | ⟨p, ha⟩
  · subst ha
    simp only [retry, fact_unwrap_flushes, Bool.false_eq_true, if_false, flush, hne] at h
    split at h
    · simp at h
    · rename_i s3 rest3 calls3 hf
      have C := (sendPending_ctl _ _ _ _ _ _ hf).2
      simp only [Option.some.injEq, Prod.mk.injEq] at h
      obtain ⟨_, _, _, hc⟩ := h
      subst hc; rw [C, hw, hal]; exact ⟨[], rfl⟩
    · rename_i x s3 rest3 calls3 hf
      have C := (sendPending_ctl _ _ _ _ _ _ hf).2
      simp only [Option.some.injEq, Prod.mk.injEq] at h
      obtain ⟨_, _, _, hc⟩ := h
      subst hc; rw [C, hw, hal]; exact ⟨[], rfl⟩
  · subst ha
    simp only [retry, fact_want, fact_wantflush, if_true, flush, hne, if_false] at h
    split at h
    · simp at h
    · rename_i x s3 rest3 calls3 hf
      have C := (sendPending_ctl _ _ _ _ _ _ hf).2
      simp only [Option.some.injEq, Prod.mk.injEq] at h
      obtain ⟨_, _, _, hc⟩ := h
      subst hc; rw [C, hw, hal]; exact ⟨[], rfl⟩
    · rename_i s3 rest3 calls3 hf
      have C := (sendPending_ctl _ _ _ _ _ _ hf).2
      subst C
      split at h
      all_goals first
        | (split at h
           · simp at h
           · simp only [Option.some.injEq, Prod.mk.injEq] at h
             obtain ⟨_, _, _, hc⟩ := h
             subst hc; rw [hw, hal]; exact ⟨_, rfl⟩)
        | (simp only [Option.some.injEq, Prod.mk.injEq] at h
           obtain ⟨_, _, _, hc⟩ := h
           subst hc; rw [hw, hal]; exact ⟨_, rfl⟩)
        | (simp at h)
  · subst ha
    simp only [retry, fact_wantw] at h
    split at h
    · simp at h
    · rename_i x s3 rest3 calls3 hf
      have C := (sendPending_ctl _ _ _ _ _ _ hf).2
      simp only [Option.some.injEq, Prod.mk.injEq] at h
      obtain ⟨_, _, _, hc⟩ := h
      subst hc; rw [C, hw, hal]; exact ⟨[], rfl⟩
    · rename_i s3 rest3 calls3 hf
      have C := (sendPending_ctl _ _ _ _ _ _ hf).2
      subst C
      split at h
      · simp at h
      · simp only [Option.some.injEq, Prod.mk.injEq] at h
        obtain ⟨_, _, _, hc⟩ := h
        subst hc; rw [hw, hal]; exact ⟨_, rfl⟩

end EasyNet.TlsEof
