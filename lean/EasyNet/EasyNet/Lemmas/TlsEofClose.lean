/-
  C09 — lemmas for the close path: the retry loop never touches the closing flags, and with `UnwrapLaw` (the first
  `unwrap()` appends the close_notify alert record to the write BIO) the first thing the wrapped transport is asked to do is
  to send bytes ending with that record — also when that `unwrap()` call FAILED with an SSL error after writing the alert
  (`acloseUnwrap_alert_sent`; needs the clause `except SSLError: … __flush_pending_writes()` of `aclose`, i.e. the generated
  `acloseFlushesOnSslError`).
-/
import EasyNet.Lemmas.TlsEofGen
namespace EasyNet.TlsEof
open EasyNet.Gen.TlsEof
variable {ε : Type}

/-- the fields the retry loop must not touch -/
def St.ctl (s : St) : Bool × Bool × Bool := (s.closing, s.closedEv, s.innerClosing)

@[simp] theorem addOut_ctl (s : St) (o : Nat) (a : Bool) : (addOut s o a).ctl = s.ctl := rfl
@[simp] theorem markBoth_ctl (s : St) : (markBoth s).ctl = s.ctl := rfl

theorem innerCatch_ctl (T : Tables ε) (s : St) (x : Exn ε) : (innerCatch T s x).ctl = s.ctl := by
  cases x with
  | cls e p => simp only [innerCatch]; split <;> rfl
  | cancel => rfl
  | scopeTimeout => rfl

theorem sendPending_ctl (s : St) (script : List (Resp ε)) (x : Option (Exn ε)) (s2 : St) (rest2 : List (Resp ε)) (calls : List Call)
    (h : sendPending s script = some (x, s2, rest2, calls)) : s2.ctl = s.ctl ∧ calls = [.send s.wpend s.walert] := by
  unfold sendPending at h
  split at h
  all_goals first
    | (simp only [Option.some.injEq, Prod.mk.injEq] at h
       obtain ⟨_, hs, _, hc⟩ := h
       subst hs; subst hc
       exact ⟨rfl, rfl⟩)
    | (simp at h)

theorem flush_ctl (s : St) (script : List (Resp ε)) (x : Option (Exn ε)) (s2 : St) (rest2 : List (Resp ε)) (calls : List Call)
    (h : flush s script = some (x, s2, rest2, calls)) : s2.ctl = s.ctl := by
  unfold flush at h
  split at h
  · simp only [Option.some.injEq, Prod.mk.injEq] at h
    obtain ⟨_, hs, _, _⟩ := h
    subst hs; rfl
  · exact (sendPending_ctl s script x s2 rest2 calls h).1

theorem retry_frame (T : Tables ε) (m : Method) : ∀ (fuel : Nat) (s : St) (script : List (Resp ε)) (r : RR ε)
    (s' : St) (rest : List (Resp ε)) (calls : List Call),
    retry T m fuel s script = some (r, s', rest, calls) → s'.ctl = s.ctl := by
  intro fuel
  induction fuel with
  | zero => intro s script r s' rest calls h; simp [retry] at h
  | succ fuel ih =>
    intro s script r s' rest calls h
    unfold retry at h
    split at h
    · rename_i n out alert rest0
      split at h
      · simp only [Option.some.injEq, Prod.mk.injEq] at h
        obtain ⟨_, hs, _, _⟩ := h
        subst hs; rfl
      · split at h
        · simp at h
        · rename_i s2 rest2 calls2 hf
          have F := flush_ctl (addOut s out alert) rest0 none s2 rest2 calls2 hf
          simp only [Option.some.injEq, Prod.mk.injEq] at h
          obtain ⟨_, hs, _, _⟩ := h
          subst hs; simpa using F
        · rename_i x s2 rest2 calls2 hf
          have F := flush_ctl (addOut s out alert) rest0 (some x) s2 rest2 calls2 hf
          simp only [Option.some.injEq, Prod.mk.injEq] at h
          obtain ⟨_, hs, _, _⟩ := h
          subst hs; simpa using F
    · rename_i e pat out alert rest0
      split at h
      · split at h
        · simp at h
        · rename_i x s2 rest2 calls2 hf
          have F : s2.ctl = s.ctl := by
            split at hf
            · simpa using flush_ctl (addOut s out alert) rest0 (some x) s2 rest2 calls2 hf
            · simp at hf
          simp only [Option.some.injEq, Prod.mk.injEq] at h
          obtain ⟨_, hs, _, _⟩ := h
          subst hs; rw [innerCatch_ctl]; exact F
        · rename_i s2 rest2 calls2 hf
          have F : s2.ctl = s.ctl := by
            split at hf
            · simpa using flush_ctl (addOut s out alert) rest0 none s2 rest2 calls2 hf
            · simp only [Option.some.injEq, Prod.mk.injEq] at hf
              obtain ⟨_, hs, _, _⟩ := hf
              subst hs; rfl
          split at h
          · rename_i k rest3
            split at h
            · simp at h
            · rename_i r3 s3 rest4 calls' hrec
              have I := ih { s2 with fed := s2.fed + (k + 1) } rest3 r3 s3 rest4 calls' hrec
              simp only [Option.some.injEq, Prod.mk.injEq] at h
              obtain ⟨_, hs, _, _⟩ := h
              subst hs; rw [I]; exact F
          · rename_i rest3
            split at h
            · simp at h
            · rename_i r3 s3 rest4 calls' hrec
              have I := ih { s2 with rEof := s2.rEof || T.readintoEofOnZero } rest3 r3 s3 rest4 calls' hrec
              simp only [Option.some.injEq, Prod.mk.injEq] at h
              obtain ⟨_, hs, _, _⟩ := h
              subst hs; rw [I]; exact F
          · simp only [Option.some.injEq, Prod.mk.injEq] at h
            obtain ⟨_, hs, _, _⟩ := h
            subst hs; rw [innerCatch_ctl]; exact F
          · simp only [Option.some.injEq, Prod.mk.injEq] at h
            obtain ⟨_, hs, _, _⟩ := h
            subst hs; exact F
          · simp only [Option.some.injEq, Prod.mk.injEq] at h
            obtain ⟨_, hs, _, _⟩ := h
            subst hs; exact F
          · simp at h
      · split at h
        · simp at h
        · rename_i x s2 rest2 calls2 hf
          have F := (sendPending_ctl (addOut s out alert) rest0 (some x) s2 rest2 calls2 hf).1
          simp only [Option.some.injEq, Prod.mk.injEq] at h
          obtain ⟨_, hs, _, _⟩ := h
          subst hs; simpa using F
        · rename_i s2 rest2 calls2 hf
          have F := (sendPending_ctl (addOut s out alert) rest0 none s2 rest2 calls2 hf).1
          split at h
          · simp at h
          · rename_i r3 s3 rest3 calls' hrec
            have I := ih s2 rest2 r3 s3 rest3 calls' hrec
            simp only [Option.some.injEq, Prod.mk.injEq] at h
            obtain ⟨_, hs, _, _⟩ := h
            subst hs; rw [I]; simpa using F
      · simp only [Option.some.injEq, Prod.mk.injEq] at h
        obtain ⟨_, hs, _, _⟩ := h
        subst hs; rfl
      · simp at h
      · simp only [Option.some.injEq, Prod.mk.injEq] at h
        obtain ⟨_, hs, _, _⟩ := h
        subst hs; rfl
    · simp at h

/-- answers of the first `unwrap()` that are not an error of the SSL object: it returned, or it wants I/O -/
def UnwrapAns (a : SslAns TExc) : Prop :=
  (∃ n, a = .ret n) ∨ (∃ p, a = .raise tables.wantReadCls p) ∨ (∃ p, a = .raise tables.wantWriteCls p)

theorem fact_wantw : retryAct tables tables.retryClauses tables.wantWriteCls = some .wantWrite := by decide
theorem fact_unwrap_flushes : tables.noFlushAfter.contains Method.unwrap = false := by decide

/-- **UnwrapLaw ⇒ the alert is handed over first**: if the first `unwrap()` appended `out > 0` bytes ending with the alert
    record, the calls of the retry loop start with `ssl.unwrap`, `transport.send_all(<everything pending, ending with the alert>)` -/
theorem retry_unwrap_first (fuel : Nat) (s : St) (a : SslAns TExc) (out : Nat) (hout : 0 < out) (rest0 : List (Resp TExc))
    (ha : UnwrapAns a) (r : RR TExc) (s2 : St) (rest : List (Resp TExc)) (calls : List Call)
    (h : retry tables .unwrap (fuel + 1) s (.ssl a out true :: rest0) = some (r, s2, rest, calls)) :
    ∃ tail, calls = .ssl .unwrap :: .send (s.wpend + out) true :: tail := by
  have hw : (addOut s out true).wpend = s.wpend + out := rfl
  have hal : (addOut s out true).walert = true := by simp [addOut]; omega
  have hne : ¬ (addOut s out true).wpend = 0 := by rw [hw]; omega
  rcases ha with ⟨n, ha⟩ | ⟨p, ha⟩ | ⟨p, ha⟩
  · subst ha
    simp only [retry, fact_unwrap_flushes, Bool.false_eq_true, if_false, flush, hne] at h
    split at h
    · simp at h
    · rename_i s3 rest3 calls3 hf
      have C := (sendPending_ctl _ _ _ _ _ _ hf).2
      simp only [Option.some.injEq, Prod.mk.injEq] at h
      obtain ⟨_, _, _, hc⟩ := h
      subst hc; rw [C, hw, hal]; exact ⟨[], rfl⟩
    · rename_i x s3 rest3 calls3 hf
      have C := (sendPending_ctl _ _ _ _ _ _ hf).2
      simp only [Option.some.injEq, Prod.mk.injEq] at h
      obtain ⟨_, _, _, hc⟩ := h
      subst hc; rw [C, hw, hal]; exact ⟨[], rfl⟩
  · subst ha
    simp only [retry, fact_want, fact_wantflush, if_true, flush, hne, if_false] at h
    split at h
    · simp at h
    · rename_i x s3 rest3 calls3 hf
      have C := (sendPending_ctl _ _ _ _ _ _ hf).2
      simp only [Option.some.injEq, Prod.mk.injEq] at h
      obtain ⟨_, _, _, hc⟩ := h
      subst hc; rw [C, hw, hal]; exact ⟨[], rfl⟩
    · rename_i s3 rest3 calls3 hf
      have C := (sendPending_ctl _ _ _ _ _ _ hf).2
      subst C
      split at h
      all_goals first
        | (split at h
           · simp at h
           · simp only [Option.some.injEq, Prod.mk.injEq] at h
             obtain ⟨_, _, _, hc⟩ := h
             subst hc; rw [hw, hal]; exact ⟨_, rfl⟩)
        | (simp only [Option.some.injEq, Prod.mk.injEq] at h
           obtain ⟨_, _, _, hc⟩ := h
           subst hc; rw [hw, hal]; exact ⟨_, rfl⟩)
        | (simp at h)
  · subst ha
    simp only [retry, fact_wantw] at h
    split at h
    · simp at h
    · rename_i x s3 rest3 calls3 hf
      have C := (sendPending_ctl _ _ _ _ _ _ hf).2
      simp only [Option.some.injEq, Prod.mk.injEq] at h
      obtain ⟨_, _, _, hc⟩ := h
      subst hc; rw [C, hw, hal]; exact ⟨[], rfl⟩
    · rename_i s3 rest3 calls3 hf
      have C := (sendPending_ctl _ _ _ _ _ _ hf).2
      subst C
      split at h
      · simp at h
      · simp only [Option.some.injEq, Prod.mk.injEq] at h
        obtain ⟨_, _, _, hc⟩ := h
        subst hc; rw [hw, hal]; exact ⟨_, rfl⟩

/-! ### the inner `try` of `aclose` (unwrap, `except SSLError:` flush, `except OSError: pass`) -/

theorem acloseUnwrap_frame (T : Tables ε) (fuel : Nat) (s : St) (script : List (Resp ε)) (x : Option (Exn ε)) (s' : St)
    (rest : List (Resp ε)) (calls : List Call) (h : acloseUnwrap T fuel s script = some (x, s', rest, calls)) : s'.ctl = s.ctl := by
  unfold acloseUnwrap at h
  split at h
  · simp at h
  · rename_i n s2 rest2 calls2 hr
    have F := retry_frame T .unwrap _ _ _ _ _ _ _ hr
    simp only [Option.some.injEq, Prod.mk.injEq] at h
    obtain ⟨_, hs, _, _⟩ := h
    subst hs; exact F
  · rename_i y s2 rest2 calls2 hr
    have F := retry_frame T .unwrap _ _ _ _ _ _ _ hr
    split at h
    · split at h
      · simp at h
      · rename_i s3 rest3 calls3 hf
        have G := flush_ctl _ _ _ _ _ _ hf
        simp only [Option.some.injEq, Prod.mk.injEq] at h
        obtain ⟨_, hs, _, _⟩ := h
        subst hs; rw [G]; exact F
      · rename_i z s3 rest3 calls3 hf
        have G := flush_ctl _ _ _ _ _ _ hf
        simp only [Option.some.injEq, Prod.mk.injEq] at h
        obtain ⟨_, hs, _, _⟩ := h
        subst hs; rw [G]; exact F
    · simp only [Option.some.injEq, Prod.mk.injEq] at h
      obtain ⟨_, hs, _, _⟩ := h
      subst hs; exact F

/-- the first `unwrap()` FAILED: it raised an `SSLError` that is neither WANT_READ nor WANT_WRITE (OpenSSL's "application data
    after close notify", `SSLEOFError`, `SSLZeroReturnError`, `SSLSyscallError`, …) -/
def UnwrapFail (a : SslAns TExc) : Prop :=
  ∃ e p, a = .raise e p ∧ tables.sub e tables.sslError = true ∧ tables.sub e tables.wantReadCls = false ∧
    tables.sub e tables.wantWriteCls = false

theorem fact_fail_act (e : TExc) (h1 : tables.sub e tables.sslError = true) (h2 : tables.sub e tables.wantReadCls = false)
    (h3 : tables.sub e tables.wantWriteCls = false) : retryAct tables tables.retryClauses e = some .markEofReraise := by
  cases e <;> first | rfl | (exfalso; revert h1 h2 h3; decide)

/-- the generated table says `aclose` has the clause `except SSLError: with suppress(OSError): await self.__flush_pending_writes()`
    around the unwrap (a tree without it — the alert written by a failing `unwrap()` is never sent — stops here) -/
theorem fact_flush_clause : tables.acloseFlushesOnSslError = true := by decide

/-- … and that the clause is `except SSLError:` -/
theorem fact_flush_on : tables.acloseFlushOn = [tables.sslError] := by decide

theorem fact_fail_caught (e : TExc) (p : Bool) (h1 : tables.sub e tables.sslError = true) :
    sslFlushCaught tables (.cls e p) = true := by
  simp only [sslFlushCaught, fact_flush_clause, fact_flush_on, catches, List.any_cons, List.any_nil, Bool.or_false, Bool.true_and]
  exact h1

/-- **the alert produced by the first `unwrap()` is handed to the wrapped transport — whether that call returned, wanted
    I/O, or FAILED with an SSL error** (the inner `try` statement of `aclose`, table with the flush clause): the calls are
    `ssl.unwrap`, possibly the two BIO eof marks of the retry loop's `except SSLError` (no call of the wrapped transport),
    then `transport.send_all(<everything pending, ending with the alert>)`. -/
theorem acloseUnwrap_alert_sent (fuel : Nat) (s : St) (a : SslAns TExc) (out : Nat) (hout : 0 < out) (rest0 : List (Resp TExc))
    (ha : UnwrapAns a ∨ UnwrapFail a) (x : Option (Exn TExc)) (s2 : St) (rest : List (Resp TExc)) (calls : List Call)
    (h : acloseUnwrap tables (fuel + 1) s (.ssl a out true :: rest0) = some (x, s2, rest, calls)) :
    ∃ pre tail, calls = .ssl .unwrap :: (pre ++ .send (s.wpend + out) true :: tail) ∧ (pre = [] ∨ pre = [.rbioEof, .wbioEof]) := by
  rcases ha with ha | ⟨e, p, ha, h1, h2, h3⟩
  · -- returned / wants I/O: the retry loop itself sends it
    unfold acloseUnwrap at h
    split at h
    · simp at h
    · rename_i n s3 rest3 calls3 hr
      obtain ⟨tail, ht⟩ := retry_unwrap_first _ _ a out hout rest0 ha _ _ _ _ hr
      simp only [Option.some.injEq, Prod.mk.injEq] at h
      obtain ⟨_, _, _, hc⟩ := h
      subst hc; subst ht
      exact ⟨[], tail, rfl, Or.inl rfl⟩
    · rename_i y s3 rest3 calls3 hr
      obtain ⟨tail, ht⟩ := retry_unwrap_first _ _ a out hout rest0 ha _ _ _ _ hr
      subst ht
      split at h
      · split at h
        · simp at h
        · simp only [Option.some.injEq, Prod.mk.injEq] at h
          obtain ⟨_, _, _, hc⟩ := h
          subst hc
          exact ⟨[], tail ++ _, rfl, Or.inl rfl⟩
        · simp only [Option.some.injEq, Prod.mk.injEq] at h
          obtain ⟨_, _, _, hc⟩ := h
          subst hc
          exact ⟨[], tail ++ _, rfl, Or.inl rfl⟩
      · simp only [Option.some.injEq, Prod.mk.injEq] at h
        obtain ⟨_, _, _, hc⟩ := h
        subst hc
        exact ⟨[], tail, rfl, Or.inl rfl⟩
  · -- failed: `except SSLError` of the retry loop marks the BIOs and re-raises, `except SSLError` of aclose flushes
    subst ha
    have hw : (markBoth (addOut s out true)).wpend = s.wpend + out := rfl
    have hal : (markBoth (addOut s out true)).walert = true := by simp [markBoth, addOut]; omega
    have hne : ¬ (markBoth (addOut s out true)).wpend = 0 := by rw [hw]; omega
    have hr : retry tables .unwrap (fuel + 1) s (.ssl (.raise e p) out true :: rest0) =
        some (.exn (.cls e p), markBoth (addOut s out true), rest0, [.ssl .unwrap, .rbioEof, .wbioEof]) := by
      simp only [retry, fact_fail_act e h1 h2 h3]
    unfold acloseUnwrap at h
    rw [hr] at h
    simp only [fact_fail_caught e p h1, if_true, flush, hne, if_false] at h
    split at h
    · simp at h
    · rename_i s3 rest3 calls3 hf
      have C := (sendPending_ctl _ _ _ _ _ _ hf).2
      simp only [Option.some.injEq, Prod.mk.injEq] at h
      obtain ⟨_, _, _, hc⟩ := h
      subst hc; rw [C, hw, hal]
      exact ⟨[.rbioEof, .wbioEof], [], rfl, Or.inr rfl⟩
    · rename_i z s3 rest3 calls3 hf
      have C := (sendPending_ctl _ _ _ _ _ _ hf).2
      simp only [Option.some.injEq, Prod.mk.injEq] at h
      obtain ⟨_, _, _, hc⟩ := h
      subst hc; rw [C, hw, hal]
      exact ⟨[.rbioEof, .wbioEof], [], rfl, Or.inr rfl⟩

end EasyNet.TlsEof
