/-
  C12: the lock invariant (FairLock protocol + senders): mutual exclusion, waiters = parked senders,
  only the head waiter is ever set and only while the lock is free, an unlocked lock with waiters has its
  head set (no lost wake-up), arrival tickets are granted in increasing order (first come, first served),
  no call ends in BusyResourceError / RuntimeError.
-/
import EasyNet.Lemmas.SendersWire
namespace EasyNet.C12
open EasyNet

/-- the sender owns the lock -/
def PC.crit : PC → Bool
  | .holding => true
  | .sending _ => true
  | _ => false

theorem PC.crit_of_isSending {p : PC} (h : p.isSending = true) : p.crit = true := by
  cases p <;> simp_all [PC.isSending, PC.crit]

def Outcome.failed : Outcome → Bool
  | .busy => true
  | .lockError => true
  | .sentLockError => true
  | _ => false

structure LockInv (s : Sys) : Prop where
  locked : s.lock.locked = true ↔ ∃ t, (s.pc t).crit = true
  one : ∀ t u, (s.pc t).crit = true → (s.pc u).crit = true → t = u
  waiting : ∀ t, s.pc t = .waiting ↔ t ∈ s.lock.waiters.map (·.1)
  nodup : (s.lock.waiters.map (·.1)).Nodup
  tailUnset : ∀ w ∈ s.lock.waiters.tail, w.2 = false
  lockedUnset : s.lock.locked = true → ∀ w ∈ s.lock.waiters, w.2 = false
  headSet : s.lock.locked = false → ∀ w, s.lock.waiters.head? = some w → w.2 = true
  tickets : (s.granted ++ s.lock.waiters.map (fun w => s.ticket w.1)).Pairwise (· < ·)
  ticketsLt : ∀ x ∈ s.granted ++ s.lock.waiters.map (fun w => s.ticket w.1), x < s.next
  noFail : ∀ t, ∀ o ∈ s.res t, o.failed = false

theorem LockInv.init : LockInv Sys.init := by
  refine ⟨?_, ?_, ?_, ?_, ?_, ?_, ?_, ?_, ?_, ?_⟩ <;> simp [Sys.init, FairLock.new, PC.crit]

/-- nobody owns the lock when it is unlocked -/
theorem LockInv.no_crit {s : Sys} (h : LockInv s) (hl : s.lock.locked = false) (u : Tid) : (s.pc u).crit = false := by
  cases hu : (s.pc u).crit with
  | false => rfl
  | true => have := h.locked.2 ⟨u, hu⟩; rw [hl] at this; cases this

/-- a set waiter is the head of the queue, and the lock is free -/
theorem LockInv.set_is_head {s : Sys} (h : LockInv s) (t : Tid) (hs : s.lock.isSet t = true) :
    s.lock.locked = false ∧ ∃ rest, s.lock.waiters = (t, true) :: rest := by
  simp only [FairLock.isSet, List.any_eq_true, Bool.and_eq_true, beq_iff_eq] at hs
  obtain ⟨w, hw, hwt, hw2⟩ := hs
  have hl : s.lock.locked = false := by
    cases hl : s.lock.locked with
    | false => rfl
    | true => have := h.lockedUnset hl w hw; rw [hw2] at this; cases this
  refine ⟨hl, ?_⟩
  cases hws : s.lock.waiters with
  | nil => rw [hws] at hw; cases hw
  | cons x rest =>
    rw [hws] at hw
    rcases List.mem_cons.1 hw with rfl | hw
    · exact ⟨rest, by rw [← hwt, ← hw2]⟩
    · have := h.tailUnset w (by rw [hws]; exact hw); rw [hw2] at this; cases this

/-! ### preservation, one lemma per kind of step -/

/-- the owner moves on inside its critical section (enters the endpoint, writes some bytes) -/
theorem LockInv.critStay {s s' : Sys} (t : Tid) (h : LockInv s)
    (hc : (s.pc t).crit = true) (hc' : (s'.pc t).crit = true) (hpc : ∀ u, u ≠ t → s'.pc u = s.pc u)
    (hlock : s'.lock = s.lock) (hgr : s'.granted = s.granted) (htk : s'.ticket = s.ticket)
    (hnext : s'.next = s.next) (hres : s'.res = s.res) : LockInv s' := by
  have hcrit : ∀ u, (s'.pc u).crit = (s.pc u).crit := by
    intro u; by_cases hu : u = t
    · subst hu; rw [hc, hc']
    · rw [hpc u hu]
  have hwait : ∀ u, s'.pc u = .waiting ↔ s.pc u = .waiting := by
    intro u; by_cases hu : u = t
    · subst hu
      constructor
      · intro hx; rw [hx] at hc'; cases hc'
      · intro hx; rw [hx] at hc; cases hc
    · rw [hpc u hu]
  refine ⟨?_, ?_, ?_, ?_, ?_, ?_, ?_, ?_, ?_, ?_⟩
  · rw [hlock, h.locked]; simp only [hcrit]
  · intro a b ha hb; rw [hcrit] at ha hb; exact h.one a b ha hb
  · intro u; rw [hwait, hlock]; exact h.waiting u
  · rw [hlock]; exact h.nodup
  · rw [hlock]; exact h.tailUnset
  · rw [hlock]; exact h.lockedUnset
  · rw [hlock]; exact h.headSet
  · rw [hlock, hgr, htk]; exact h.tickets
  · rw [hlock, hgr, htk, hnext]; exact h.ticketsLt
  · rw [hres]; exact h.noFail

/-- `acquire()` on the fast path -/
theorem LockInv.sendFast {s s' : Sys} (t : Tid) (h : LockInv s) (_hidle : s.pc t = .idle)
    (hfree : s.lock.locked = false) (hempty : s.lock.waiters = [])
    (hpc : s'.pc = upd s.pc t .holding) (hlock : s'.lock = { s.lock with locked := true })
    (hgr : s'.granted = s.granted ++ [s.next]) (_htk : s'.ticket = upd s.ticket t s.next)
    (hnext : s'.next = s.next + 1) (hres : s'.res = s.res) : LockInv s' := by
  have hnc := h.no_crit hfree
  refine ⟨?_, ?_, ?_, ?_, ?_, ?_, ?_, ?_, ?_, ?_⟩
  · rw [hlock]; simp only [true_iff]; exact ⟨t, by rw [hpc]; simp [PC.crit]⟩
  · intro a b ha hb
    rw [hpc] at ha hb; simp only [upd_apply] at ha hb
    split at ha
    · split at hb
      · simp_all
      · rw [hnc] at hb; cases hb
    · rw [hnc] at ha; cases ha
  · intro u; rw [hlock, hpc]; simp only [upd_apply, hempty]
    split
    · simp
    · have := h.waiting u; rw [hempty] at this; simpa using this
  · rw [hlock]; simp [hempty]
  · rw [hlock]; simp [hempty]
  · rw [hlock]; simp [hempty]
  · rw [hlock]; simp
  · rw [hlock, hgr]; simp only [hempty, List.map_nil, List.append_nil]
    have h1 := h.tickets; have h2 := h.ticketsLt
    simp only [hempty, List.map_nil, List.append_nil] at h1 h2
    rw [List.pairwise_append]
    exact ⟨h1, by simp, fun a ha b hb => by simp at hb; subst hb; exact h2 a ha⟩
  · rw [hlock, hgr, hnext]; simp only [hempty, List.map_nil, List.append_nil]
    have h2 := h.ticketsLt
    simp only [hempty, List.map_nil, List.append_nil] at h2
    intro x hx
    rcases List.mem_append.1 hx with hx | hx
    · have := h2 x hx; omega
    · simp at hx; omega
  · rw [hres]; exact h.noFail

/-- `acquire()` has to wait: a fresh unset event is appended -/
theorem LockInv.sendPark {s s' : Sys} (t : Tid) (h : LockInv s) (hidle : s.pc t = .idle)
    (hbusy : s.lock.locked = true ∨ s.lock.waiters ≠ [])
    (hpc : s'.pc = upd s.pc t .waiting) (hlock : s'.lock = { s.lock with waiters := s.lock.waiters ++ [(t, false)] })
    (hgr : s'.granted = s.granted) (htk : s'.ticket = upd s.ticket t s.next)
    (hnext : s'.next = s.next + 1) (hres : s'.res = s.res) : LockInv s' := by
  have htn : t ∉ s.lock.waiters.map (·.1) := by
    intro hm; have := (h.waiting t).2 hm; rw [hidle] at this; cases this
  have hmap : (s.lock.waiters.map (fun w => upd s.ticket t s.next w.1)) = s.lock.waiters.map (fun w => s.ticket w.1) := by
    apply List.map_congr_left
    intro w hw
    have : w.1 ≠ t := fun hx => htn (by rw [← hx]; exact List.mem_map_of_mem hw)
    simp [upd_other _ _ _ _ this]
  refine ⟨?_, ?_, ?_, ?_, ?_, ?_, ?_, ?_, ?_, ?_⟩
  · rw [hlock, hpc]; simp only
    rw [h.locked]
    constructor
    · rintro ⟨u, hu⟩; refine ⟨u, ?_⟩
      have : u ≠ t := by intro hx; subst hx; rw [hidle] at hu; cases hu
      simp [upd_other _ _ _ _ this, hu]
    · rintro ⟨u, hu⟩; refine ⟨u, ?_⟩
      simp only [upd_apply] at hu; split at hu
      · cases hu
      · exact hu
  · intro a b ha hb
    rw [hpc] at ha hb; simp only [upd_apply] at ha hb
    split at ha
    · cases ha
    · split at hb
      · cases hb
      · exact h.one a b ha hb
  · intro u; rw [hlock, hpc]; simp only [upd_apply, List.map_append, List.map_cons, List.map_nil, List.mem_append,
      List.mem_singleton]
    split
    · rename_i hu; simp [hu]
    · rename_i hu; rw [h.waiting u]; simp [hu]
  · rw [hlock]; simp only [List.map_append, List.map_cons, List.map_nil]
    rw [List.nodup_append]
    refine ⟨h.nodup, by simp, ?_⟩
    intro a ha b hb; simp at hb; subst hb; intro hab; subst hab; exact htn ha
  · rw [hlock]; simp only
    intro w hw
    cases hws : s.lock.waiters with
    | nil => rw [hws] at hw; simp at hw
    | cons x rest =>
      rw [hws] at hw; simp only [List.cons_append, List.tail_cons, List.mem_append, List.mem_singleton] at hw
      rcases hw with hw | rfl
      · exact h.tailUnset w (by rw [hws]; exact hw)
      · rfl
  · rw [hlock]; simp only
    intro hl w hw
    rcases List.mem_append.1 hw with hw | hw
    · exact h.lockedUnset hl w hw
    · simp at hw; rw [hw]
  · rw [hlock]; simp only
    intro hl w hw
    cases hws : s.lock.waiters with
    | nil => rcases hbusy with hb | hb
             · rw [hl] at hb; cases hb
             · exact absurd hws hb
    | cons x rest =>
      rw [hws] at hw; simp only [List.cons_append, List.head?_cons, Option.some.injEq] at hw
      exact h.headSet hl w (by rw [hws, ← hw]; rfl)
  · rw [hlock, hgr, htk]; simp only [List.map_append, List.map_cons, List.map_nil, upd_same, hmap]
    rw [← List.append_assoc, List.pairwise_append]
    refine ⟨h.tickets, by simp, ?_⟩
    intro a ha b hb; simp at hb; subst hb; exact h.ticketsLt a ha
  · rw [hlock, hgr, htk, hnext]; simp only [List.map_append, List.map_cons, List.map_nil, upd_same, hmap]
    intro x hx
    rw [← List.append_assoc] at hx
    rcases List.mem_append.1 hx with hx | hx
    · have := h.ticketsLt x hx; omega
    · simp at hx; omega
  · rw [hres]; exact h.noFail

/-- the woken head waiter takes the lock -/
theorem LockInv.resume {s s' : Sys} (t : Tid) (h : LockInv s) (hw : s.pc t = .waiting) (hset : s.lock.isSet t = true)
    (hpc : s'.pc = upd s.pc t .holding) (hlock : s'.lock = s.lock.acquireResume t)
    (hgr : s'.granted = s.granted ++ [s.ticket t]) (htk : s'.ticket = s.ticket)
    (hnext : s'.next = s.next) (hres : s'.res = s.res) : LockInv s' := by
  obtain ⟨hfree, rest, hws⟩ := h.set_is_head t hset
  have hnc := h.no_crit hfree
  have hl' : s'.lock = ⟨true, rest⟩ := by rw [hlock]; simp [FairLock.acquireResume, hws, removeWaiter]
  have hnd := h.nodup; rw [hws] at hnd; simp only [List.map_cons, List.nodup_cons] at hnd
  refine ⟨?_, ?_, ?_, ?_, ?_, ?_, ?_, ?_, ?_, ?_⟩
  · rw [hl']; simp only [true_iff]; exact ⟨t, by rw [hpc]; simp [PC.crit]⟩
  · intro a b ha hb
    rw [hpc] at ha hb; simp only [upd_apply] at ha hb
    split at ha
    · split at hb
      · simp_all
      · rw [hnc] at hb; cases hb
    · rw [hnc] at ha; cases ha
  · intro u; rw [hl', hpc]; simp only [upd_apply]
    split
    · rename_i hu; subst hu; simp only [reduceCtorEq, false_iff]; exact hnd.1
    · rename_i hu; rw [h.waiting u, hws]; simp [hu]
  · rw [hl']; exact hnd.2
  · rw [hl']; intro w hw'
    exact h.tailUnset w (by rw [hws]; exact List.mem_of_mem_tail hw')
  · rw [hl']; intro _ w hw'
    exact h.tailUnset w (by rw [hws]; exact hw')
  · rw [hl']; intro hl; cases hl
  · rw [hl', hgr, htk]; have := h.tickets; rw [hws] at this; simpa using this
  · rw [hl', hgr, htk, hnext]; have := h.ticketsLt; rw [hws] at this; simpa using this
  · rw [hres]; exact h.noFail

/-- a parked sender is cancelled -/
theorem LockInv.cancel {s s' : Sys} (t : Tid) (h : LockInv s) (hw : s.pc t = .waiting)
    (hpc : s'.pc = upd s.pc t .idle) (hlock : s'.lock = s.lock.acquireCancel t)
    (hgr : s'.granted = s.granted) (htk : s'.ticket = s.ticket)
    (hnext : s'.next = s.next) (hres : s'.res = upd s.res t (s.res t ++ [.cancelled])) : LockInv s' := by
  have hlk : s'.lock.locked = s.lock.locked := by
    rw [hlock]; unfold FairLock.acquireCancel; split
    · rfl
    · rw [wakeUpFirst_locked]
  have hfst : s'.lock.waiters.map (·.1) = (removeWaiter t s.lock.waiters).map (·.1) := by
    rw [hlock]; unfold FairLock.acquireCancel; split
    · rfl
    · rw [wakeUpFirst_fst]
  have htail : s'.lock.waiters.tail = (removeWaiter t s.lock.waiters).tail := by
    rw [hlock]; unfold FairLock.acquireCancel; split
    · rfl
    · rw [wakeUpFirst_tail]
  have hcrit : ∀ u, (s'.pc u).crit = (s.pc u).crit := by
    intro u; rw [hpc]; simp only [upd_apply]; split
    · rename_i hu; subst hu; rw [hw]; rfl
    · rfl
  have hsub : ((s'.lock.waiters.map (fun w => s.ticket w.1))).Sublist (s.lock.waiters.map (fun w => s.ticket w.1)) := by
    have h1 : s'.lock.waiters.map (fun w => s.ticket w.1) = (s'.lock.waiters.map (·.1)).map s.ticket := by simp
    have h2 : s.lock.waiters.map (fun w => s.ticket w.1) = (s.lock.waiters.map (·.1)).map s.ticket := by simp
    rw [h1, h2, hfst]
    exact ((removeWaiter_sublist t s.lock.waiters).map _).map _
  refine ⟨?_, ?_, ?_, ?_, ?_, ?_, ?_, ?_, ?_, ?_⟩
  · rw [hlk, h.locked]; simp only [hcrit]
  · intro a b ha hb; rw [hcrit] at ha hb; exact h.one a b ha hb
  · intro u; rw [hfst, hpc]; simp only [upd_apply]
    split
    · rename_i hu; subst hu; simp only [reduceCtorEq, false_iff]; exact fst_not_mem_removeWaiter h.nodup
    · rename_i hu; rw [h.waiting u]; exact (fst_mem_removeWaiter_of_ne hu).symm
  · rw [hfst]; exact removeWaiter_nodup h.nodup
  · rw [htail]; intro w hw'; exact h.tailUnset w (removeWaiter_tail_subset t _ w hw')
  · rw [hlk]; intro hl w hw'
    rw [hlock] at hw'; unfold FairLock.acquireCancel at hw'; rw [if_pos hl] at hw'
    exact h.lockedUnset hl w ((removeWaiter_sublist t _).subset hw')
  · rw [hlk]; intro hl w hw'
    rw [hlock] at hw'; unfold FairLock.acquireCancel at hw'
    rw [if_neg (by rw [hl]; simp)] at hw'
    exact wakeUpFirst_head _ w hw'
  · rw [hgr, htk]
    exact List.Pairwise.sublist (List.Sublist.append (List.Sublist.refl _) hsub) h.tickets
  · rw [hgr, htk, hnext]
    intro x hx
    exact h.ticketsLt x ((List.Sublist.append (List.Sublist.refl _) hsub).subset hx)
  · intro u o ho; rw [hres] at ho; simp only [upd_apply] at ho
    split at ho
    · rename_i hu; subst hu
      rcases List.mem_append.1 ho with ho | ho
      · exact h.noFail u o ho
      · simp at ho; subst ho; rfl
    · exact h.noFail u o ho

/-- the owner leaves the `async with lock` block: `release()` -/
theorem LockInv.release {s s' : Sys} (t : Tid) (o : Outcome) (h : LockInv s) (hc : (s.pc t).crit = true)
    (ho : o.failed = false)
    (hpc : s'.pc = upd s.pc t .idle) (hlock : s'.lock = s.lock.release.1)
    (hgr : s'.granted = s.granted) (htk : s'.ticket = s.ticket)
    (hnext : s'.next = s.next) (hres : s'.res = upd s.res t (s.res t ++ [o])) : LockInv s' := by
  have hl : s.lock.locked = true := h.locked.2 ⟨t, hc⟩
  have hl' : s'.lock = FairLock.wakeUpFirst { s.lock with locked := false } := by
    rw [hlock]; simp [FairLock.release, hl]
  have hlk : s'.lock.locked = false := by rw [hl', wakeUpFirst_locked]
  have hfst : s'.lock.waiters.map (·.1) = s.lock.waiters.map (·.1) := by rw [hl', wakeUpFirst_fst]
  have htail : s'.lock.waiters.tail = s.lock.waiters.tail := by rw [hl', wakeUpFirst_tail]
  have hnc : ∀ u, (s'.pc u).crit = false := by
    intro u; rw [hpc]; simp only [upd_apply]; split
    · rfl
    · rename_i hu
      cases hcu : (s.pc u).crit with
      | false => rfl
      | true => exact absurd (h.one u t hcu hc) hu
  have hmap : s'.lock.waiters.map (fun w => s.ticket w.1) = s.lock.waiters.map (fun w => s.ticket w.1) := by
    have h1 : s'.lock.waiters.map (fun w => s.ticket w.1) = (s'.lock.waiters.map (·.1)).map s.ticket := by simp
    have h2 : s.lock.waiters.map (fun w => s.ticket w.1) = (s.lock.waiters.map (·.1)).map s.ticket := by simp
    rw [h1, h2, hfst]
  refine ⟨?_, ?_, ?_, ?_, ?_, ?_, ?_, ?_, ?_, ?_⟩
  · rw [hlk]; simp only [Bool.false_eq_true, false_iff, not_exists]; intro u; rw [hnc]; simp
  · intro a b ha; rw [hnc] at ha; cases ha
  · intro u; rw [hfst, hpc]; simp only [upd_apply]
    split
    · rename_i hu; subst hu; simp only [reduceCtorEq, false_iff]
      intro hm; have := (h.waiting u).2 hm; rw [this] at hc; cases hc
    · exact h.waiting u
  · rw [hfst]; exact h.nodup
  · rw [htail]; exact h.tailUnset
  · rw [hlk]; intro hx; cases hx
  · intro _ w hw; rw [hl'] at hw; exact wakeUpFirst_head _ w hw
  · rw [hgr, htk, hmap]; exact h.tickets
  · rw [hgr, htk, hnext, hmap]; exact h.ticketsLt
  · intro u o' ho'; rw [hres] at ho'; simp only [upd_apply] at ho'
    split at ho'
    · rename_i hu; subst hu
      rcases List.mem_append.1 ho' with ho' | ho'
      · exact h.noFail u o' ho'
      · simp at ho'; subst ho'; exact ho
    · exact h.noFail u o' ho'

/-- every step of the locked configuration preserves the lock invariant -/
theorem LockInv.step {cfg : Cfg} {s s' : Sys} {e : Ev} (hul : cfg.useLock = true) (hw : WireInv cfg s)
    (h : LockInv s) (hs : step cfg s e = some s') : LockInv s' := by
  have hrel : ∀ x : Sys, (x.unlock cfg).1.lock = x.lock.release.1 := by
    intro x; simp [Sys.unlock, hul]
  have hrel2 : ∀ x : Sys, x.lock.locked = true → (x.unlock cfg).2 = true := by
    intro x hx; simp [Sys.unlock, hul, FairLock.release, hx]
  -- entering the endpoint as the lock owner: the guard is free
  have henter : ∀ t, s.pc t = .holding → LockInv (s.enter cfg t) := by
    intro t hc
    have hg : s.guard = false := by
      cases hg : s.guard with
      | false => rfl
      | true =>
        obtain ⟨u, hu⟩ := hw.guard.1 hg
        have := h.one u t (PC.crit_of_isSending hu) (by rw [hc]; rfl)
        subst this; rw [hc] at hu; cases hu
    unfold Sys.enter; rw [if_neg (by rw [hg]; simp)]
    exact LockInv.critStay t h (by rw [hc]; rfl) (by simp [PC.crit]) (fun u hu => by simp [upd_other _ _ _ _ hu])
      rfl rfl rfl rfl rfl
  cases e with
  | send t =>
    simp only [C12.step] at hs
    split at hs
    · rename_i hidle
      try rw [if_pos hul] at hs
      split at hs
      · rename_i hfast
        cases hs
        have hcond : ¬ (s.lock.locked || !s.lock.waiters.isEmpty) = true := by
          intro hx; simp [FairLock.acquireCall, hx] at hfast
        have hfree : s.lock.locked = false := by
          cases hl : s.lock.locked with
          | false => rfl
          | true => simp [hl] at hcond
        have hempty : s.lock.waiters = [] := by
          cases hws : s.lock.waiters with
          | nil => rfl
          | cons x r => simp [hws] at hcond
        refine LockInv.sendFast (s := s) t h hidle hfree hempty (by simp) ?_ (by simp) (by simp) (by simp) (by simp)
        simp [FairLock.acquireCall, hcond]
      · rename_i hfast
        cases hs
        have hcond : (s.lock.locked || !s.lock.waiters.isEmpty) = true := by
          cases hx : (s.lock.locked || !s.lock.waiters.isEmpty) with
          | true => rfl
          | false => simp [FairLock.acquireCall, hx] at hfast
        have hbusy : s.lock.locked = true ∨ s.lock.waiters ≠ [] := by
          cases hl : s.lock.locked with
          | true => exact Or.inl rfl
          | false =>
            right; intro hws; simp [hl, hws] at hcond
        refine LockInv.sendPark (s := s) t h hidle hbusy (by simp) ?_ (by simp) (by simp) (by simp) (by simp)
        simp [FairLock.acquireCall, hcond]
    · cases hs
  | resume t =>
    simp only [C12.step] at hs
    split at hs
    · rename_i hc
      cases hs
      exact LockInv.resume (s := s) t h hc.1 hc.2 (by simp) (by simp) (by simp) (by simp) (by simp) (by simp)
    · cases hs
  | cancel t =>
    simp only [C12.step] at hs
    split at hs
    · rename_i hc
      cases hs
      exact LockInv.cancel (s := s) t h hc (by simp) (by simp) (by simp) (by simp) (by simp) (by simp)
    · cases hs
  | xmit t =>
    simp only [C12.step] at hs
    split at hs
    · rename_i hc; cases hs; exact henter t hc
    · cases hs
  | write t n =>
    simp only [C12.step] at hs
    split at hs
    · rename_i rest hc
      cases hs
      exact LockInv.critStay t h (by rw [hc]; rfl) (by simp [PC.crit]) (fun u hu => by simp [upd_other _ _ _ _ hu])
        rfl rfl rfl rfl rfl
    · cases hs
  | ret t =>
    simp only [C12.step] at hs
    split at hs
    · rename_i hc
      cases hs
      have hcr : (s.pc t).crit = true := by rw [hc]; rfl
      have hl : s.lock.locked = true := h.locked.2 ⟨t, hcr⟩
      refine LockInv.release (s := s) t _ h hcr ?_ (by simp) (by simp [hrel]) (by simp) (by simp) (by simp) (by simp; rfl)
      rw [if_pos (hrel2 { s with guard := false } hl)]; rfl
    · cases hs
  | rel t =>
    simp only [C12.step] at hs
    split at hs
    · rename_i hc
      cases hs
      have hcr : (s.pc t).crit = true := by rw [hc]; rfl
      have hl : s.lock.locked = true := h.locked.2 ⟨t, hcr⟩
      refine LockInv.release (s := s) t _ h hcr ?_ (by simp) (by simp [hrel]) (by simp) (by simp) (by simp) (by simp; rfl)
      rw [if_pos (hrel2 _ hl)]; rfl
    · cases hs

/-- reachable states of the locked configuration satisfy both invariants -/
theorem inv_run {cfg : Cfg} (hul : cfg.useLock = true) {evs : List Ev} {s s' : Sys}
    (hw : WireInv cfg s) (h : LockInv s) (hr : run cfg s evs = some s') : WireInv cfg s' ∧ LockInv s' := by
  induction evs generalizing s with
  | nil => simp only [C12.run, Option.some.injEq] at hr; subst hr; exact ⟨hw, h⟩
  | cons e es ih =>
    simp only [C12.run] at hr
    split at hr
    · rename_i s1 hs1; exact ih (hw.step hs1) (h.step hul hw hs1) hr
    · cases hr

end EasyNet.C12
