import EasyNet.Model.Datagram
import EasyNet.Lemmas.ConsumerSim
namespace EasyNet.C05
open EasyNet

theorem gots_cons (o : DOut) (os : List DOut) : gots (o :: os) = gotList o ++ gots os := by
  cases o <;> rfl

theorem wake_queue (q : DQ) : queued (DQ.wake q).1 = queued q ∧ (∀ d, (DQ.wake q).2 ≠ .got d) := by
  unfold DQ.wake
  cases q.excq with
  | nil => exact ⟨rfl, fun d h => by cases h⟩
  | cons e rest => exact ⟨rfl, fun d h => by cases h⟩

/-- one step: returned ++ still queued (after) = still queued (before) ++ accepted -/
theorem step_conserve (q : DQ) (e : DEv) :
    gotList (q.step e).2 ++ queued (q.step e).1 = queued q ++ accepts q e := by
  cases e with
  | dgram d =>
    simp only [DQ.step]
    by_cases ha : q.attached <;> simp [ha, queued, List.filterMap_append, gotList, accepts]
  | error x =>
    simp only [DQ.step]
    by_cases ha : q.attached <;> simp [ha, queued, List.filterMap_append, gotList, accepts]
  | lost x =>
    simp only [DQ.step]
    by_cases ha : q.attached <;> simp [ha, queued, List.filterMap_append, gotList, accepts]
  | close => simp [DQ.step, queued, gotList, accepts]
  | recv =>
    simp only [DQ.step]
    cases hq : q.recvq with
    | nil =>
      by_cases hc : q.closing
      · simp only [hc, if_true]
        have hw := wake_queue q
        have hnot : gotList (DQ.wake q).2 = [] := by
          cases h : (DQ.wake q).2 with
          | got d => exact absurd h (hw.2 d)
          | _ => rfl
        rw [hnot, hw.1]; simp [accepts]
      · simp [hc, gotList, accepts]
    | cons o rest =>
      cases o with
      | some d => simp [queued, hq, gotList, accepts]
      | none =>
        simp only
        have hw := wake_queue { q with recvq := rest }
        have hnot : gotList (DQ.wake { q with recvq := rest }).2 = [] := by
          cases h : (DQ.wake { q with recvq := rest }).2 with
          | got d => exact absurd h (hw.2 d)
          | _ => rfl
        rw [hnot, hw.1]
        simp [queued, hq, accepts]

theorem run_conserve (evs : List DEv) (q : DQ) :
    gots (DQ.run q evs).2 ++ queued (DQ.run q evs).1 = queued q ++ accepted q evs := by
  induction evs generalizing q with
  | nil => simp [DQ.run, gots, accepted]
  | cons e es ih =>
    have h1 := step_conserve q e
    have h2 := ih (q.step e).1
    simp only [DQ.run, accepted]
    rw [gots_cons, List.append_assoc, h2, ← List.append_assoc, h1, List.append_assoc]

end EasyNet.C05
