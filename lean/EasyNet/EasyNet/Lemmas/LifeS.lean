/-
  C18 — inductive invariants of the standalone (threads) server machine `Life.S` (Model/Life.lean), for any family
  of threads, any programs, any schedule; progress facts (deadlock freedom) and the restart schedule.
-/
import EasyNet.Model.Life
namespace EasyNet.Life.S
set_option maxHeartbeats 16000000
set_option linter.unusedSimpArgs false
set_option linter.unusedVariables false

theorem wake_pc (c : Caller) : (wake c).pc = match c.pc with | .dEvent _ g => .dWoken g | p => p := by
  unfold wake; split <;> simp_all

inductive StepKind (s s' : State) : Prop where
  | call (i : Nat) (g : G) (c : Caller) (w : Bool) (h : callStep i s.g (s.cs i) = some (g, c, w)) (e : s' = ⟨g, upd s.cs w i c⟩)
  | adv (i k : Nat) (g : G) (c : Caller) (w : Bool) (h : advStep i k s.g (s.cs i) = some (g, c, w)) (e : s' = ⟨g, upd s.cs w i c⟩)

theorem step_kind {s s' : State} {l : Label} (h : step s l = some s') : StepKind s s' := by
  cases l with
  | call i =>
    simp only [step, Option.map_eq_some_iff] at h
    obtain ⟨⟨g, c, w⟩, h1, h2⟩ := h
    exact .call i g c w h1 h2.symm
  | adv i k =>
    simp only [step, Option.map_eq_some_iff] at h
    obtain ⟨⟨g, c, w⟩, h1, h2⟩ := h
    exact .adv i k g c w h1 h2.symm

def Pc.holdsClose : Pc → Bool
  | .tBoot | .cBoot | .cInner => true
  | _ => false

def Pc.holdsBoot : Pc → Bool
  | .dInner _ | .cInner => true
  | _ => false

structure GI (g : G) : Prop where
  shut : g.isShutdown = true ↔ g.runner = none
  idle : g.runner = none → g.phase = .none ∧ g.attr = false ∧ g.lsOpen = false ∧ g.portalOpen = false
  cdone : g.closeDone = true → g.isClosed = true
  pend : (g.bootLock = none → g.pendingPortal = 0) ∧ (g.bootLock ≠ none → g.pendingPortal = 1)
  lso : g.lsOpen = true → g.phase ≠ .none
  po1 : g.portalOpen = true → g.phase ≠ .none ∧ g.attr = true
  po2 : g.portalOpen = false → g.phase = .stopped ∨ g.phase = .none
  att : g.runner ≠ none → g.attr = true
  /-- with the fix: once a server_close has returned, listeners are closed, or the runner is past the portal exit and
      closes them in its next step -/
  lsc : g.fix = true → g.isClosed = true → g.lsOpen = true → (g.attr = true ∧ g.portalOpen = false ∧ g.phase = .stopped)

def CI (j : Nat) (g : G) (c : Caller) : Prop :=
  (c.pc.inRun = true ↔ g.runner = some j) ∧
  (c.pc.holdsClose = true ↔ g.closeLock = some j) ∧
  (c.pc.holdsBoot = true ↔ g.bootLock = some j) ∧
  (match c.pc with
   | .tBoot => g.isClosed = false
   | .tLoop => g.attr = true ∧ g.portalOpen = true ∧ g.phase ≠ .none
   | .tDrain => g.attr = true ∧ g.portalOpen = false ∧ g.phase = .stopped
   | .tReacq => g.attr = true ∧ g.portalOpen = false ∧ g.phase = .none ∧ g.lsOpen = false
   | .dInner _ => g.attr = true ∧ (g.innerCancel = true ∨ g.phase = .stopping ∨ g.phase = .stopped)
   | .cInner => g.attr = true
   | .dEvent _ n => n = g.gen ∧ g.isShutdown = false ∧ (g.innerCancel = true ∨ g.phase = .stopping ∨ g.phase = .stopped ∨ g.phase = .none)
   | .dWoken n => n ≤ g.gen ∧ (n = g.gen → g.isShutdown = true)
   | _ => True)

structure Inv (s : State) : Prop where
  gi : GI s.g
  ci : ∀ j, CI j s.g (s.cs j)

theorem inv_init (fix : Bool) (progs : Nat → List Op) : Inv (State.init fix progs) := by
  refine ⟨⟨?_, ?_, ?_, ?_, ?_, ?_, ?_, ?_, ?_⟩, fun j => ?_⟩ <;> simp [State.init, G.init, CI, Caller.init, Pc.inRun, Pc.holdsClose, Pc.holdsBoot]

theorem call_actor {i : Nat} {g0 g : G} {c0 c : Caller} {w : Bool}
    (h : callStep i g0 c0 = some (g, c, w)) (G0 : GI g0) (C0 : CI i g0 c0) : GI g ∧ CI i g c := by
  obtain ⟨a1, a2, a3, a4⟩ := C0
  unfold callStep at h
  split at h
  · rename_i op rest hpc hprog
    simp only [hpc, Pc.inRun, Pc.holdsClose, Pc.holdsBoot] at a1 a2 a3 a4
    cases op <;> simp only [Option.some.injEq, Prod.mk.injEq] at h <;> obtain ⟨rfl, rfl, rfl⟩ := h <;>
      exact ⟨G0, by simp only [CI, Pc.inRun, Pc.holdsClose, Pc.holdsBoot]; exact ⟨a1, a2, a3, trivial⟩⟩
  · cases h

theorem call_other {i j : Nat} {g0 g : G} {c0 c cj : Caller} {w : Bool}
    (h : callStep i g0 c0 = some (g, c, w)) (Cj : CI j g0 cj) : CI j g (if w then wake cj else cj) := by
  unfold callStep at h
  split at h
  · rename_i op rest hpc hprog
    cases op <;> simp only [Option.some.injEq, Prod.mk.injEq] at h <;> obtain ⟨rfl, rfl, rfl⟩ := h <;> simpa using Cj
  · cases h

theorem adv_actor {i k : Nat} {g0 g : G} {c0 c : Caller} {w : Bool}
    (h : advStep i k g0 c0 = some (g, c, w)) (G0 : GI g0) (C0 : CI i g0 c0) : GI g ∧ CI i g c := by
  obtain ⟨s1, s2, s3, s4, s9, s6, s7, s8, s5⟩ := G0
  have hph : g0.phase = .none ∨ g0.phase = .setup ∨ g0.phase = .serving ∨ g0.phase = .stopping ∨ g0.phase = .stopped := by
    cases g0.phase <;> simp
  obtain ⟨a1, a2, a3, a4⟩ := C0
  unfold advStep at h
  split at h
  all_goals (rename_i hpc; simp only [hpc, Pc.inRun, Pc.holdsClose, Pc.holdsBoot] at a1 a2 a3 a4)
  all_goals (
    refine ⟨⟨?_, ?_, ?_, ?_, ?_, ?_, ?_, ?_, ?_⟩, ?_, ?_, ?_, ?_⟩ <;>
    grind [waitEvent, Caller.finish, Pc.inRun, Pc.holdsClose, Pc.holdsBoot])

/-- only the last step of serve_forever (`is_shutdown.set()`) wakes the waiters -/
theorem adv_wake {i k : Nat} {g0 g : G} {c0 c : Caller} {w : Bool}
    (h : advStep i k g0 c0 = some (g, c, w)) (hw : w = true) : c0.pc = .tReacq := by
  unfold advStep at h
  split at h <;> grind [waitEvent, Caller.finish]

theorem adv_other {i j k : Nat} {g0 g : G} {c0 c cj : Caller} {w : Bool}
    (h : advStep i k g0 c0 = some (g, c, w)) (hij : j ≠ i) (G0 : GI g0) (C0 : CI i g0 c0) (Cj : CI j g0 cj) :
    CI j g (if w then wake cj else cj) := by
  obtain ⟨s1, s2, s3, s4, s9, s6, s7, s8, s5⟩ := G0
  have hph : g0.phase = .none ∨ g0.phase = .setup ∨ g0.phase = .serving ∨ g0.phase = .stopping ∨ g0.phase = .stopped := by
    cases g0.phase <;> simp
  obtain ⟨a1, a2, a3, a4⟩ := C0
  obtain ⟨b1, b2, b3, b4⟩ := Cj
  have hw := wake_pc cj
  by_cases hwk : w = true
  · have hpc := adv_wake h hwk
    subst hwk
    simp only [if_true]
    simp only [hpc, Pc.inRun, Pc.holdsClose, Pc.holdsBoot] at a1 a2 a3 a4
    simp only [advStep, hpc] at h
    cases hj : cj.pc <;> simp only [hj, Pc.inRun, Pc.holdsClose, Pc.holdsBoot] at b1 b2 b3 b4 hw <;>
    (refine ⟨?_, ?_, ?_, ?_⟩ <;> grind [Caller.finish, Pc.inRun, Pc.holdsClose, Pc.holdsBoot, wake])
  · have hwf : w = false := by simpa using hwk
    subst hwf
    simp only [Bool.false_eq_true, if_false]
    unfold advStep at h
    split at h
    all_goals (rename_i hpc; simp only [hpc, Pc.inRun, Pc.holdsClose, Pc.holdsBoot] at a1 a2 a3 a4)
    all_goals (
      cases hj : cj.pc <;> simp only [hj, Pc.inRun, Pc.holdsClose, Pc.holdsBoot] at b1 b2 b3 b4 <;>
      (refine ⟨?_, ?_, ?_, ?_⟩ <;>
       grind [waitEvent, Caller.finish, Pc.inRun, Pc.holdsClose, Pc.holdsBoot]))

theorem inv_step {s s' : State} {l : Label} (I : Inv s) (h : step s l = some s') : Inv s' := by
  obtain ⟨gi, ci⟩ := I
  cases step_kind h with
  | call i g c w hc e =>
    subst e
    have A := call_actor hc gi (ci i)
    refine ⟨A.1, fun j => ?_⟩
    by_cases hj : j = i
    · subst hj; simpa [upd] using A.2
    · have B := call_other (j := j) hc (ci j)
      simpa [upd, hj] using B
  | adv i k g c w hc e =>
    subst e
    have A := adv_actor hc gi (ci i)
    refine ⟨A.1, fun j => ?_⟩
    by_cases hj : j = i
    · subst hj; simpa [upd] using A.2
    · have B := adv_other hc hj gi (ci i) (ci j)
      simpa [upd, hj] using B

theorem inv_run {s s' : State} (ls : List Label) (I : Inv s) (h : run s ls = some s') : Inv s' := by
  induction ls generalizing s with
  | nil => simp only [run, Option.some.injEq] at h; exact h ▸ I
  | cons l ls ih =>
    simp only [run] at h
    split at h
    · rename_i s1 hs; exact ih (inv_step I hs) h
    · cases h

theorem inv_reachable {s : State} (h : Reachable s) : Inv s := by
  obtain ⟨fix, progs, ls, hr⟩ := h
  exact inv_run ls (inv_init fix progs) hr


/-! ## progress -/

def CanAdv (s : State) (i : Nat) : Prop := (advStep i 0 s.g (s.cs i)).isSome = true

/-- some thread can take a step -/
def Progress (s : State) : Prop := ∃ i, CanAdv s i

theorem phase_cases (p : Phase) : p = .none ∨ p = .setup ∨ p = .serving ∨ p = .stopping ∨ p = .stopped := by
  cases p <;> simp

/-- the thread inside serve_forever can move once the embedded run scope is cancelled (or it is already stopping) -/
theorem runner_progress {s : State} (I : Inv s) (r : Nat) (hr : (s.cs r).pc.inRun = true)
    (hc : s.g.innerCancel = true ∨ s.g.phase = .stopping ∨ s.g.phase = .stopped ∨ s.g.phase = .none)
    (hb : s.g.bootLock = none) : Progress s := by
  obtain ⟨c1, c2, c3, c4⟩ := I.ci r
  have hp0 := I.gi.pend.1 hb
  cases hp : (s.cs r).pc <;> simp only [hp, Pc.inRun] at hr c4 <;> try (cases hr)
  · -- tLoop
    rcases phase_cases s.g.phase with h | h | h | h | h
    · exact absurd h c4.2.2
    · exact ⟨r, by simp [CanAdv, advStep, hp, h]⟩
    · have : s.g.innerCancel = true := by rcases hc with h' | h' | h' | h' <;> simp_all
      exact ⟨r, by simp [CanAdv, advStep, hp, h, this]⟩
    · exact ⟨r, by simp [CanAdv, advStep, hp, h]⟩
    · exact ⟨r, by simp [CanAdv, advStep, hp, h]⟩
  · exact ⟨r, by simp [CanAdv, advStep, hp, hp0]⟩
  · exact ⟨r, by simp [CanAdv, advStep, hp, hb]⟩

/-- the holder of the bootstrap lock can move, or the thread inside serve_forever it waits for can -/
theorem boot_holder_progress {s : State} (I : Inv s) (b : Nat) (hb : s.g.bootLock = some b) : Progress s := by
  obtain ⟨c1, c2, c3, c4⟩ := I.ci b
  have hh := c3.mpr hb
  cases hp : (s.cs b).pc <;> simp only [hp, Pc.holdsBoot] at hh c4 <;> try (cases hh)
  · -- dInner t
    rename_i t
    by_cases hdone : s.g.phase = .stopped ∨ s.g.phase = .none
    · exact ⟨b, by
        simp only [CanAdv, advStep, hp]
        rw [if_pos (by rcases hdone with h | h <;> simp [h])]
        simp⟩
    · have hrun : s.g.runner ≠ none := fun hn => by have := (I.gi.idle hn).2.1; simp_all
      obtain ⟨r, hr⟩ := Option.ne_none_iff_exists'.mp hrun
      have hrs : (s.cs r).pc.inRun = true := (I.ci r).1.mpr hr
      obtain ⟨d1, d2, d3, d4⟩ := I.ci r
      have hcan : s.g.innerCancel = true ∨ s.g.phase = .stopping := by
        rcases c4.2 with h' | h' | h'
        · exact Or.inl h'
        · exact Or.inr h'
        · exact absurd (Or.inl h') hdone
      cases hq : (s.cs r).pc <;> simp only [hq, Pc.inRun] at hrs d4 <;> try (cases hrs)
      · rcases phase_cases s.g.phase with h | h | h | h | h
        · exact absurd (Or.inr h) hdone
        · exact ⟨r, by simp [CanAdv, advStep, hq, h]⟩
        · rcases hcan with h' | h'
          · exact ⟨r, by simp [CanAdv, advStep, hq, h, h']⟩
          · simp_all
        · exact ⟨r, by simp [CanAdv, advStep, hq, h]⟩
        · exact absurd (Or.inl h) hdone
      · exact absurd (Or.inl d4.2.2) hdone
      · exact absurd (Or.inr d4.2.2.1) hdone
  · exact ⟨b, by simp only [CanAdv, advStep, hp]; split <;> (try split) <;> simp⟩

theorem need_boot_progress {s : State} (I : Inv s) : s.g.bootLock = none ∨ Progress s := by
  cases hb : s.g.bootLock with
  | none => exact Or.inl rfl
  | some b => exact Or.inr (boot_holder_progress I b hb)

/-- the holder of the close lock can move, or whoever it waits for can -/
theorem close_holder_progress {s : State} (I : Inv s) (h : Nat) (hh : s.g.closeLock = some h) : Progress s := by
  obtain ⟨c1, c2, c3, c4⟩ := I.ci h
  have hc := c2.mpr hh
  rcases need_boot_progress I with hb | hP
  · cases hp : (s.cs h).pc <;> simp only [hp, Pc.holdsClose] at hc c4 <;> try (cases hc)
    · exact ⟨h, by simp only [CanAdv, advStep, hp, hb]; split <;> simp⟩
    · exact ⟨h, by simp only [CanAdv, advStep, hp, hb]; split <;> simp⟩
    · exact ⟨h, by simp only [CanAdv, advStep, hp]; split <;> (try split) <;> simp⟩
  · exact hP

/-- **no deadlock**: in a reachable state some thread can take a step, or every thread is between two calls or is
    the one inside serve_forever, serving, with nobody having asked it to stop -/
theorem no_deadlock {s : State} (I : Inv s) :
    Progress s ∨ ∀ i, (s.cs i).pc = .idle ∨
      ((s.cs i).pc = .tLoop ∧ s.g.runner = some i ∧ s.g.phase = .serving ∧ s.g.innerCancel = false) := by
  by_cases hP : Progress s
  · exact Or.inl hP
  · refine Or.inr fun i => ?_
    obtain ⟨c1, c2, c3, c4⟩ := I.ci i
    have hboot : s.g.bootLock = none := by rcases need_boot_progress I with h | h; exact h; exact absurd h hP
    have hclose : s.g.closeLock = none := by
      cases hc : s.g.closeLock with
      | none => rfl
      | some h => exact absurd (close_holder_progress I h hc) hP
    cases hp : (s.cs i).pc with
    | idle => exact Or.inl rfl
    | tClose => exact absurd ⟨i, by simp only [CanAdv, advStep, hp, hclose]; split <;> simp⟩ hP
    | tBoot => exact absurd ⟨i, by simp only [CanAdv, advStep, hp, hboot]; split <;> simp⟩ hP
    | tLoop =>
      simp only [hp] at c4
      have hr : s.g.runner = some i := c1.mp (by simp [hp, Pc.inRun])
      rcases phase_cases s.g.phase with h | h | h | h | h
      · exact absurd h c4.2.2
      · exact absurd ⟨i, by simp [CanAdv, advStep, hp, h]⟩ hP
      · by_cases hcn : s.g.innerCancel = true
        · exact absurd ⟨i, by simp [CanAdv, advStep, hp, h, hcn]⟩ hP
        · exact Or.inr ⟨rfl, hr, h, by simpa using hcn⟩
      · exact absurd ⟨i, by simp [CanAdv, advStep, hp, h]⟩ hP
      · exact absurd ⟨i, by simp [CanAdv, advStep, hp, h]⟩ hP
    | tDrain => exact absurd ⟨i, by simp [CanAdv, advStep, hp, I.gi.pend.1 hboot]⟩ hP
    | tReacq => exact absurd ⟨i, by simp [CanAdv, advStep, hp, hboot]⟩ hP
    | dBoot t => exact absurd ⟨i, by simp only [CanAdv, advStep, hp, hboot]; split <;> simp [waitEvent] <;> split <;> simp⟩ hP
    | dInner t => exact absurd (boot_holder_progress I i (c3.mp (by simp [hp, Pc.holdsBoot]))) hP
    | dEvent t n =>
      simp only [hp] at c4
      have hrun : s.g.runner ≠ none := fun h => by have := I.gi.shut.mpr h; simp_all
      obtain ⟨r, hr⟩ := Option.ne_none_iff_exists'.mp hrun
      exact absurd (runner_progress I r ((I.ci r).1.mpr hr) c4.2.2 hboot) hP
    | dWoken n => exact absurd ⟨i, by simp [CanAdv, advStep, hp]⟩ hP
    | cClose => exact absurd ⟨i, by simp [CanAdv, advStep, hp, hclose]⟩ hP
    | cBoot => exact absurd ⟨i, by simp only [CanAdv, advStep, hp, hboot]; split <;> simp⟩ hP
    | cInner => exact absurd ⟨i, by simp only [CanAdv, advStep, hp]; split <;> (try split) <;> simp⟩ hP
    | bBoot => exact absurd ⟨i, by simp [CanAdv, advStep, hp, hboot]⟩ hP

/-- **restartable**: explicit schedule from a stopped, not closed server (nobody else inside serve_forever /
    server_close) to `is_serving() = True` -/
theorem restart {s : State} (I : Inv s) (i : Nat) (rest : List Op)
    (hrun : s.g.runner = none) (hcl : s.g.isClosed = false) (hlk : s.g.closeLock = none)
    (hpc : (s.cs i).pc = .idle) (hprog : (s.cs i).prog = .serve :: rest) :
    ∃ ls s', run s ls = some s' ∧ (s'.cs i).pc = .tLoop ∧ s'.g.runner = some i ∧ s'.g.phase = .serving ∧
      s'.g.lsOpen = true ∧ s'.g.portalOpen = true ∧ s'.g.attr = true ∧ (s'.cs i).results = (s.cs i).results := by
  have hsd : s.g.isShutdown = true := I.gi.shut.mpr hrun
  have hb : s.g.bootLock = none := by
    cases hb : s.g.bootLock with
    | none => rfl
    | some b =>
      exfalso
      obtain ⟨c1, c2, c3, c4⟩ := I.ci b
      have hh := c3.mpr hb
      have hat := (I.gi.idle hrun).2.1
      cases hp : (s.cs b).pc <;> simp only [hp, Pc.holdsBoot] at hh c4 <;> simp_all
  refine ⟨[.call i, .adv i 0, .adv i 0, .adv i 0], ?_⟩
  simp [run, step, callStep, advStep, upd, hpc, hprog, hsd, hcl, hlk, hb]

end EasyNet.Life.S
