/-
  C13 — interruption: definitions and list lemmas for the invariant behind `C13_interrupt`.

  Fragment: programs without shielded sections and without user-level `except CancelledError`
  (`Stmt.sfList`): nested move_on/timeout scopes with arbitrary deadlines, sleeps, checkpoints, explicit
  scope.cancel() / reschedule, any number of external task.cancel() at any tick, any tie position.

  The ghost monitor `K.bad` is raised by the model when a blocking operation that started under a cancelled scope
  completes normally.  The invariant says why it never is: when such an operation is parked, either a cancellation
  is already in flight (`_must_cancel` or the awaited future is cancelled), or the loop's queue holds a
  re-delivery callback of a cancelled scope *ahead of* the callback that will wake the task (`safe`).
-/
import EasyNet.Lemmas.CSAcctRun
set_option linter.unusedSimpArgs false
set_option linter.unusedVariables false
namespace EasyNet.CS

mutual
  /-- shield-free, try-free statements -/
  def Stmt.sf : Stmt → Bool
    | .scope _ _ _ _ body => Stmt.sfList body
    | .shield _ _ => false
    | .tryc _ _ => false
    | .syield _ => false
    | _ => true
  def Stmt.sfList : List Stmt → Bool
    | [] => true
    | s :: ss => s.sf && Stmt.sfList ss
end

def Frame.sf : Frame → Bool
  | .seq rest => Stmt.sfList rest
  | .scopeF _ _ => true
  | .shieldF _ _ _ _ => false
  | .tryF _ => false
  | .blkF _ .sbare _ => false
  | .blkF _ _ _ => true

def Handle.sf : Handle → Bool
  | .step => true
  | .wakeup _ => true
  | .deliver _ => true
  | .timeoutCancel _ => true
  | .sleepDone _ => true
  | .ext => true
  | _ => false

/-- the callbacks that are scheduled with `call_at` -/
def Handle.isTimer : Handle → Bool
  | .timeoutCancel _ => true
  | .sleepDone _ => true
  | .ext => true
  | _ => false

def Handle.isWake : Handle → Bool
  | .step => true
  | .wakeup _ => true
  | _ => false

def Handle.isDeliver : Handle → Bool
  | .deliver _ => true
  | _ => false

/-- the loop's queue in execution order: rest of this turn, then the next turn -/
def K.Q (k : K) : List Handle := k.batch ++ k.ready

/-- a re-delivery callback comes before any callback that wakes the task -/
def safe : List Handle → Bool
  | [] => false
  | .deliver _ :: _ => true
  | .step :: _ => false
  | .wakeup _ :: _ => false
  | _ :: t => safe t

theorem safe_append (a b : List Handle) (h : safe a = true) : safe (a ++ b) = true := by
  induction a with
  | nil => simp [safe] at h
  | cons x xs ih => cases x <;> simp_all [safe]

theorem safe_of_mem (a b : List Handle) (s : Nat) (hw : ∀ x ∈ a, x.isWake = false) (hm : Handle.deliver s ∈ a) :
    safe (a ++ b) = true := by
  induction a with
  | nil => simp at hm
  | cons x xs ih =>
    have hx := hw x (by simp)
    have hxs : ∀ y ∈ xs, y.isWake = false := fun y hy => hw y (by simp [hy])
    cases x <;> simp_all [safe, Handle.isWake]

theorem safe_filter (l : List Handle) (p : Handle → Bool)
    (hp : ∀ x, x.isWake = true ∨ x.isDeliver = true → p x = true) : safe (l.filter p) = safe l := by
  induction l with
  | nil => rfl
  | cons x xs ih =>
    by_cases hpx : p x = true
    · rw [List.filter_cons_of_pos hpx]
      cases x <;> simp_all [safe]
    · have hpx' : p x = false := by simpa using hpx
      rw [List.filter_cons_of_neg (by simpa using hpx')]
      have hnw : x.isWake = false := by
        cases hw : x.isWake
        · rfl
        · exact absurd (hp x (Or.inl hw)) hpx
      have hnd : x.isDeliver = false := by
        cases hd : x.isDeliver
        · rfl
        · exact absurd (hp x (Or.inr hd)) hpx
      cases x <;> simp_all [safe, Handle.isWake, Handle.isDeliver]

theorem safe_cons_other (x : Handle) (l : List Handle) (hw : x.isWake = false) (hd : x.isDeliver = false) :
    safe (x :: l) = safe l := by
  cases x <;> simp_all [safe, Handle.isWake, Handle.isDeliver]

theorem safe_cons_wake (x : Handle) (l : List Handle) (hw : x.isWake = true) : safe (x :: l) = false := by
  cases x <;> simp_all [safe, Handle.isWake]

/-- the task-waking callbacks in a queue -/
def wakes (l : List Handle) : List Handle := l.filter Handle.isWake

theorem wakes_append (a b : List Handle) : wakes (a ++ b) = wakes a ++ wakes b := by simp [wakes]

theorem wakes_nil_iff (l : List Handle) : wakes l = [] ↔ ∀ x ∈ l, x.isWake = false := by
  simp [wakes, List.filter_eq_nil_iff]

theorem wakes_filter (l : List Handle) (p : Handle → Bool) (hp : ∀ x, x.isWake = true → p x = true) :
    wakes (l.filter p) = wakes l := by
  induction l with
  | nil => rfl
  | cons x xs ih =>
    by_cases hpx : p x = true
    · rw [List.filter_cons_of_pos hpx]
      simp only [wakes] at *
      by_cases hw : x.isWake = true
      · rw [List.filter_cons_of_pos hw, List.filter_cons_of_pos hw, ih]
      · rw [List.filter_cons_of_neg hw, List.filter_cons_of_neg hw, ih]
    · rw [List.filter_cons_of_neg hpx]
      have hnw : ¬ x.isWake = true := fun hw => hpx (hp x hw)
      simp only [wakes] at *
      rw [List.filter_cons_of_neg hnw, ih]

/-- a cancellation is on its way to the parked task -/
def inflight (k : K) : Prop :=
  k.mustCancel = true ∨ ∃ f m, k.waiter = some f ∧ k.futState f = .cancelled m

/-- the task is parked at a blocking operation that started under a cancelled scope (ghost flag) -/
def Flagged (k : K) : Prop := ∃ id kd fs, k.frames = .blkF id kd true :: fs

end EasyNet.CS
