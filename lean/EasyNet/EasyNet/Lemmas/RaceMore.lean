/-
  More about the connection race: bookkeeping invariant, termination measure, progress.
-/
import EasyNet.Lemmas.Race
namespace EasyNet.Race

/-! ### second invariant: bookkeeping used by the progress / reporting theorems -/

structure Inv2 (cfg : Cfg) (s : St) : Prop where
  /-- children below `next` have been spawned -/
  spw : ∀ k, k < s.next → (s.ch k).pc ≠ .unspawned
  /-- a child is only ever cancelled when the task group had a reason to abort -/
  abt : s.aborted = true → s.abortable = true
  /-- as long as nobody won, crashed or was cancelled, every finished attempt left an error -/
  err : s.winner = none → s.crashed = false → s.aborted = false → ∀ k, (s.ch k).pc = .done → 1 ≤ s.errors

theorem bindFailed_pos {locals : Option (List Loc)} {a : Addr} {n : Nat} (h : beginRes locals a = .bindFailed n) :
    1 ≤ n := by
  unfold beginRes at h
  split at h
  · cases h
  · split at h
    · cases h
    · dsimp only at h
      split at h
      · cases h
      · split at h
        · cases h
        · rename_i hne
          cases h
          rename_i ls _
          cases hl : (bindLoop a.fam 0 ls).1 with
          | nil => simp [hl] at hne
          | cons x xs => simp

theorem beginRes_errors_pos {locals : Option (List Loc)} {a : Addr} (h : beginRes locals a ≠ .connecting) :
    1 ≤ (beginRes locals a).errors := by
  cases hb : beginRes locals a with
  | connecting => exact absurd hb h
  | noSocket => simp [BeginRes.errors]
  | noLocal => simp [BeginRes.errors]
  | bindFailed n => simpa [BeginRes.errors] using bindFailed_pos hb

theorem inv2_init (cfg : Cfg) : Inv2 cfg St.init := by
  refine ⟨?_, ?_, ?_⟩ <;> simp [St.init]

theorem inv2_step {cfg : Cfg} {s s' : St} (l : Label) (J : Inv2 cfg s)
    (h : step cfg s l = some s') : Inv2 cfg s' := by
  obtain ⟨spw, abt, err⟩ := J
  cases l with
  | spawn =>
    simp only [step] at h
    split at h
    · cases h
      refine ⟨?_, abt, ?_⟩
      · intro k hk
        by_cases hkn : k = s.next
        · subst hkn; simp
        · simp only [setCh_ch, hkn, if_false]
          exact spw k (by simp at hk; omega)
      · intro h1 h2 h3 k hk
        by_cases hkn : k = s.next
        · subst hkn; simp at hk
        · simp only [setCh_ch, hkn, if_false] at hk
          exact err h1 h2 h3 k hk
    · cases h
  | begin k =>
    simp only [step] at h
    split at h
    · rename_i g
      have hpos : beginRes cfg.locals (cfg.addr k) ≠ .connecting → 1 ≤ (beginRes cfg.locals (cfg.addr k)).errors :=
        beginRes_errors_pos
      have spw' : ∀ (c : Child), c.pc ≠ .unspawned → ∀ j, j < s.next → (if j = k then c else s.ch j).pc ≠ .unspawned := by
        intro c hc j hj
        by_cases hjk : j = k
        · simp [hjk, hc]
        · simpa [hjk] using spw j hj
      split at h
      · rename_i hb
        cases h
        refine ⟨fun j hj => by simpa using spw' ⟨.connecting, .opened⟩ (by simp) j hj, abt, ?_⟩
        intro h1 h2 h3 j hj
        by_cases hjk : j = k
        · subst hjk; simp at hj
        · simp only [setCh_ch, hjk, if_false] at hj
          exact err h1 h2 h3 j hj
      · cases h
        refine ⟨fun j hj => by simpa using spw' ⟨.done, .none⟩ (by simp) j hj, abt, ?_⟩
        intro _ _ _ _ _
        show 1 ≤ s.errors + 1
        omega
      · rename_i hb1 hb2
        cases h
        refine ⟨fun j hj => by simpa using spw' ⟨.done, .closed⟩ (by simp) j hj, abt, ?_⟩
        intro _ _ _ _ _
        have := hpos (by intro e; exact hb1 e)
        show 1 ≤ s.errors + _
        omega
    · cases h
  | res k r =>
    simp only [step] at h
    split at h
    · rename_i g
      have spw' : ∀ j, j < s.next → (if j = k then (⟨.done, .closed⟩ : Child) else s.ch j).pc ≠ .unspawned := by
        intro j hj
        by_cases hjk : j = k
        · simp [hjk]
        · simpa [hjk] using spw j hj
      cases r <;> simp only at h
      · split at h
        · split at h
          · cases h
            refine ⟨?_, ?_, ?_⟩
            · intro j hj
              by_cases hjk : j = k
              · simp [hjk]
              · simpa [hjk] using spw j hj
            · intro _; simp [St.abortable]
            · intro h1; simp at h1
          · cases h
            refine ⟨fun j hj => by simpa using spw' j hj, abt, ?_⟩
            intro h1; rename_i w hw; simp [hw] at h1
        · cases h
      · split at h
        · cases h
          refine ⟨fun j hj => by simpa using spw' j hj, abt, ?_⟩
          intro _ _ _ _ _
          show 1 ≤ s.errors + 1
          omega
        · cases h
      · split at h
        · cases h
          refine ⟨fun j hj => by simpa using spw' j hj, ?_, ?_⟩
          · intro _; simp [St.abortable]
          · intro _ h2; simp at h2
        · cases h
      · split at h
        · rename_i hab
          cases h
          refine ⟨fun j hj => by simpa using spw' j hj, ?_, ?_⟩
          · intro _; simpa [St.abortable] using hab
          · intro _ _ h3; simp at h3
        · cases h
    · cases h
  | cancel =>
    simp only [step] at h
    split at h
    · cases h
      refine ⟨spw, ?_, err⟩
      intro _; simp [St.abortable]
    · cases h
  | fin f =>
    simp only [step] at h
    split at h
    · have closeW : ∀ (rk : RaiseKind) (s'' : St),
          (match s.winner with
            | some w => s'' = { s.setCh w ⟨.done, .closed⟩ with fin := some (.raised rk) }
            | none => s'' = { s with fin := some (.raised rk) }) → Inv2 cfg s'' := by
        intro rk s'' e
        split at e
        · rename_i w hw
          subst e
          refine ⟨?_, ?_, ?_⟩
          · intro j hj
            by_cases hjw : j = w
            · simp [hjw]
            · simpa [hjw] using spw j hj
          · intro ha; simpa [St.abortable] using abt ha
          · intro h1; simp [hw] at h1
        · subst e
          exact ⟨spw, abt, err⟩
      cases f <;> simp only at h
      · split at h
        · split at h
          · cases h; exact ⟨spw, abt, err⟩
          · cases h
        · cases h
      · split at h
        · rename_i g3
          cases h
          have hw : s.winner = none := by simpa using g3.1
          exact closeW (.allfailed s.errors) _ (by rw [hw])
        · cases h
      · split at h
        · apply closeW .cancelled s'
          split at h <;> (cases h; simp [*])
        · cases h
      · split at h
        · apply closeW .crash s'
          split at h <;> (cases h; simp [*])
        · cases h
    · cases h


/-! ### termination measure -/

def rank : Pc → Nat
  | .unspawned => 3 | .spawned => 2 | .connecting => 1 | .done => 0

def sumTo (f : Nat → Nat) : Nat → Nat
  | 0 => 0
  | n + 1 => sumTo f n + f n

theorem sumTo_congr {f g : Nat → Nat} : ∀ n, (∀ k, k < n → f k = g k) → sumTo f n = sumTo g n
  | 0, _ => rfl
  | n + 1, h => by
    simp only [sumTo]
    rw [sumTo_congr n (fun k hk => h k (by omega)), h n (by omega)]

theorem sumTo_update_lt {f g : Nat → Nat} (k : Nat) : ∀ n, k < n → (∀ j, j ≠ k → g j = f j) → g k + 1 ≤ f k →
    sumTo g n + 1 ≤ sumTo f n
  | 0, h, _, _ => by omega
  | n + 1, h, hne, hk => by
    simp only [sumTo]
    by_cases hkn : k = n
    · subst hkn
      have := sumTo_congr (f := g) (g := f) k (fun j hj => hne j (by omega))
      omega
    · have := sumTo_update_lt k n (by omega) hne hk
      have := hne n (fun e => hkn e.symm)
      omega

def measure (cfg : Cfg) (s : St) : Nat :=
  sumTo (fun k => rank (s.ch k).pc) cfg.n + (if s.fin.isNone then 1 else 0)

theorem measure_init (cfg : Cfg) : measure cfg St.init = 3 * cfg.n + 1 := by
  unfold measure
  have : ∀ n, sumTo (fun k => rank (St.init.ch k).pc) n = 3 * n := by
    intro n
    induction n with
    | zero => rfl
    | succ n ih => simp only [sumTo, ih]; simp [St.init, rank]; omega
  rw [this]
  simp [St.init]

/-- a child that is not `unspawned` is one of the `n` children -/
theorem lt_n_of_pc {cfg : Cfg} {s : St} (I : Inv cfg s) {k : Nat} (h : (s.ch k).pc ≠ .unspawned) : k < cfg.n := by
  apply Classical.byContradiction
  intro hc
  exact h (I.nxt k (by have := I.bnd; omega))

theorem measure_step {cfg : Cfg} {s s' : St} (l : Label) (I : Inv cfg s) (h : step cfg s l = some s')
    (hl : l ≠ .cancel) : measure cfg s' + 1 ≤ measure cfg s := by
  -- a step that changes the pc of one child `k < n` to a lower rank and keeps `fin`
  have childStep : ∀ (k : Nat) (c : Child) (t : St), k < cfg.n → rank c.pc + 1 ≤ rank (s.ch k).pc →
      t.ch = (s.setCh k c).ch → t.fin = s.fin → measure cfg t + 1 ≤ measure cfg s := by
    intro k c t hk hr e1 e2
    unfold measure
    rw [e1, e2]
    have := sumTo_update_lt (f := fun j => rank (s.ch j).pc) (g := fun j => rank ((s.setCh k c).ch j).pc) k cfg.n hk
      (by intro j hj; simp [hj]) (by simpa using hr)
    omega
  cases l with
  | cancel => exact absurd rfl hl
  | spawn =>
    simp only [step] at h
    split at h
    · rename_i g
      cases h
      have hn := I.nxt s.next (Nat.le_refl _)
      exact childStep s.next ⟨.spawned, .none⟩ _ g.2.1 (by simp [hn, rank]) rfl rfl
    · cases h
  | begin k =>
    simp only [step] at h
    split at h
    · rename_i g
      have hk : k < cfg.n := lt_n_of_pc I (by rw [g.2]; simp)
      split at h <;> cases h
      · exact childStep k ⟨.connecting, .opened⟩ _ hk (by simp [g.2, rank]) rfl rfl
      · exact childStep k ⟨.done, .none⟩ _ hk (by simp [g.2, rank]) rfl rfl
      · exact childStep k ⟨.done, .closed⟩ _ hk (by simp [g.2, rank]) rfl rfl
    · cases h
  | res k r =>
    simp only [step] at h
    split at h
    · rename_i g
      have hk : k < cfg.n := lt_n_of_pc I (by rw [g.2]; simp)
      cases r <;> simp only at h
      · split at h
        · split at h <;> cases h
          · exact childStep k ⟨.done, .opened⟩ _ hk (by simp [g.2, rank]) rfl rfl
          · exact childStep k ⟨.done, .closed⟩ _ hk (by simp [g.2, rank]) rfl rfl
        · cases h
      · split at h
        · cases h; exact childStep k ⟨.done, .closed⟩ _ hk (by simp [g.2, rank]) rfl rfl
        · cases h
      · split at h
        · cases h; exact childStep k ⟨.done, .closed⟩ _ hk (by simp [g.2, rank]) rfl rfl
        · cases h
      · split at h
        · cases h; exact childStep k ⟨.done, .closed⟩ _ hk (by simp [g.2, rank]) rfl rfl
        · cases h
    · cases h
  | fin f =>
    simp only [step] at h
    split at h
    · rename_i g
      have hf : s.fin.isNone = true := g.1
      -- `fin` becomes `some _`; the pcs do not change (closing the winner keeps it `done`)
      have finStep : ∀ t : St, (∀ k, (t.ch k).pc = (s.ch k).pc) → t.fin.isSome = true →
          measure cfg t + 1 ≤ measure cfg s := by
        intro t e1 e2
        unfold measure
        rw [sumTo_congr (f := fun k => rank (t.ch k).pc) (g := fun k => rank (s.ch k).pc) cfg.n
          (fun k _ => by simp [e1 k])]
        have : t.fin.isNone = false := by
          cases ht : t.fin <;> simp [ht] at e2 ⊢
        simp [hf, this]
      have closeW : ∀ (rk : RaiseKind) (t : St),
          (match s.winner with
            | some w => t = { s.setCh w ⟨.done, .closed⟩ with fin := some (.raised rk) }
            | none => t = { s with fin := some (.raised rk) }) → measure cfg t + 1 ≤ measure cfg s := by
        intro rk t e
        split at e
        · rename_i w hw
          subst e
          apply finStep
          · intro k
            by_cases hkw : k = w
            · subst hkw; simp [I.win k hw]
            · simp [hkw]
          · rfl
        · subst e
          exact finStep _ (fun _ => rfl) rfl
      cases f <;> simp only at h
      · split at h
        · split at h
          · cases h; exact finStep _ (fun _ => rfl) rfl
          · cases h
        · cases h
      · split at h
        · rename_i g3
          cases h
          have hw : s.winner = none := by simpa using g3.1
          exact closeW (.allfailed s.errors) _ (by rw [hw])
        · cases h
      · split at h
        · apply closeW .cancelled s'
          split at h <;> (cases h; simp [*])
        · cases h
      · split at h
        · apply closeW .crash s'
          split at h <;> (cases h; simp [*])
        · cases h
    · cases h

theorem measure_cancel {cfg : Cfg} {s s' : St} (h : step cfg s .cancel = some s') : measure cfg s' = measure cfg s := by
  simp only [step] at h
  split at h
  · cases h; rfl
  · cases h

def nonCancel (ls : List Label) : Nat := (ls.filter fun l => l ≠ .cancel).length

theorem measure_run {cfg : Cfg} : ∀ (ls : List Label) {s s' : St}, Inv cfg s → run cfg s ls = some s' →
    nonCancel ls + measure cfg s' ≤ measure cfg s
  | [], s, s', _, h => by simp only [run] at h; cases h; simp [nonCancel]
  | l :: ls, s, s', I, h => by
    simp only [run] at h
    split at h
    · rename_i s1 h1
      have ih := measure_run ls (inv_step l I h1) h
      by_cases hl : l = .cancel
      · subst hl
        have := measure_cancel h1
        simp only [nonCancel, List.filter_cons] at ih ⊢
        simp at ih ⊢
        omega
      · have := measure_step l I h1 hl
        simp only [nonCancel, List.filter_cons] at ih ⊢
        simp [hl] at ih ⊢
        omega
    · cases h


theorem begin_enabled {cfg : Cfg} {s : St} {k : Nat} (hf : s.fin = none) (hk : (s.ch k).pc = .spawned) :
    (step cfg s (.begin k)).isSome = true := by
  simp only [step, hf, hk, Option.isNone_none, and_self, if_true]
  split <;> rfl

theorem progress {cfg : Cfg} {s : St} (I : Inv cfg s) (J : Inv2 cfg s) (hf : s.fin = none) :
    (∃ l, l ≠ Label.cancel ∧ (step cfg s l).isSome = true) ∨
    (∃ k, (s.ch k).pc = .connecting ∧ (cfg.addr k).out = .hang ∧ s.abortable = false) := by
  by_cases h1 : ∃ k, (s.ch k).pc = .spawned
  · obtain ⟨k, hk⟩ := h1
    exact Or.inl ⟨.begin k, by simp, begin_enabled hf hk⟩
  by_cases h2 : ∃ k, (s.ch k).pc = .connecting
  · obtain ⟨k, hk⟩ := h2
    by_cases hab : s.abortable = true
    · refine Or.inl ⟨.res k .cancelled, by simp, ?_⟩
      simp [step, hf, hk, hab]
    · cases ho : (cfg.addr k).out with
      | hang => exact Or.inr ⟨k, hk, ho, by simpa using hab⟩
      | ok =>
        refine Or.inl ⟨.res k .ok, by simp, ?_⟩
        simp only [step, hf, hk, ho, Res.matches, Option.isNone_none, and_self, if_true]
        split <;> rfl
      | err =>
        refine Or.inl ⟨.res k .err, by simp, ?_⟩
        simp [step, hf, hk, ho, Res.matches]
      | crash =>
        refine Or.inl ⟨.res k .crash, by simp, ?_⟩
        simp [step, hf, hk, ho, Res.matches]
  -- every child is unspawned or done
  have hpc : ∀ k, (s.ch k).pc = .unspawned ∨ (s.ch k).pc = .done := by
    intro k
    cases hp : (s.ch k).pc with
    | unspawned => exact Or.inl rfl
    | done => exact Or.inr rfl
    | spawned => exact absurd ⟨k, hp⟩ h1
    | connecting => exact absurd ⟨k, hp⟩ h2
  have hquiet : s.quiet cfg.n = true := by
    unfold St.quiet
    rw [List.all_eq_true]
    intro k _
    rcases hpc k with h | h <;> simp [h]
  left
  by_cases hcr : s.crashed = true
  · refine ⟨.fin .crash, by simp, ?_⟩
    simp only [step, hf, hquiet, hcr, Option.isNone_none, and_self, if_true]
    split <;> rfl
  have hcr' : s.crashed = false := by simpa using hcr
  cases hw : s.winner with
  | some w =>
    refine ⟨.fin .ret, by simp, ?_⟩
    simp [step, hf, hquiet, hw, hcr']
  | none =>
    by_cases hex : s.ext = true
    · refine ⟨.fin .cancelled, by simp, ?_⟩
      simp [step, hf, hquiet, hw, hcr', hex]
    have hex' : s.ext = false := by simpa using hex
    have hnab : s.abortable = false := by simp [St.abortable, hw, hex', hcr']
    have hnabt : s.aborted = false := by
      cases ha : s.aborted with
      | false => rfl
      | true => have := J.abt ha; rw [hnab] at this; cases this
    by_cases hn : s.next < cfg.n
    · refine ⟨.spawn, by simp, ?_⟩
      have hg : cfg.stagger = true ∨ s.next = 0 ∨ (s.ch (s.next - 1)).pc = .done := by
        by_cases h0 : s.next = 0
        · exact Or.inr (Or.inl h0)
        · right; right
          rcases hpc (s.next - 1) with h | h
          · exact absurd h (J.spw (s.next - 1) (by omega))
          · exact h
      simp [step, hf, hn, hg]
    · have hnn : s.next = cfg.n := by have := I.bnd; omega
      refine ⟨.fin .allfailed, by simp, ?_⟩
      have hall : s.allDone cfg.n = true := by
        unfold St.allDone
        rw [List.all_eq_true]
        intro k hk
        have hk' : k < s.next := by rw [hnn]; exact List.mem_range.mp hk
        rcases hpc k with h | h
        · exact absurd h (J.spw k hk')
        · simp [h]
      simp [step, hf, hquiet, hw, hcr', hnabt, hnn, hall]


/-! ### sequential attempts (`_create_connection_impl` over a list) -/

structure SeqInv (s : SeqSt) : Prop where
  opn : ∀ j, s.sock j = .opened ↔ (s.cur = some j ∨ s.fin = some (.ret j))
  excl : ∀ j, s.cur = some j → s.fin = none ∧ s.started = true

@[simp] theorem setSock_sock (s : SeqSt) (k j : Nat) (x : Sock) :
    (s.setSock k x).sock j = if j = k then x else s.sock j := rfl
@[simp] theorem setSock_cur (s : SeqSt) (k : Nat) (x : Sock) : (s.setSock k x).cur = s.cur := rfl
@[simp] theorem setSock_fin (s : SeqSt) (k : Nat) (x : Sock) : (s.setSock k x).fin = s.fin := rfl
@[simp] theorem setSock_started (s : SeqSt) (k : Nat) (x : Sock) : (s.setSock k x).started = s.started := rfl
@[simp] theorem setSock_errors (s : SeqSt) (k : Nat) (x : Sock) : (s.setSock k x).errors = s.errors := rfl

theorem seqFrom_inv (locals : Option (List Loc)) : ∀ (addrs : List Addr) (k : Nat) (s : SeqSt),
    (∀ j, s.sock j ≠ .opened) → s.fin = none → s.started = true → SeqInv (seqFrom locals addrs k s)
  | [], k, s, h, hf, hs => by
    refine ⟨?_, ?_⟩
    · intro j; simp [seqFrom, h j]
    · intro j; simp [seqFrom]
  | a :: rest, k, s, h, hf, hs => by
    unfold seqFrom
    split
    · refine ⟨?_, ?_⟩
      · intro j
        by_cases hj : j = k
        · subst hj; simp
        · have hkj : k ≠ j := fun e => hj e.symm
          simp [hj, hkj, h j, hf]
      · intro j; simp [hf, hs]
    · exact seqFrom_inv locals rest (k + 1) _ h hf hs
    · apply seqFrom_inv locals rest (k + 1)
      · intro j
        by_cases hj : j = k
        · subst hj; simp
        · simpa [hj] using h j
      · exact hf
      · exact hs

theorem seqInv_init : SeqInv SeqSt.init := by
  refine ⟨?_, ?_⟩ <;> simp [SeqSt.init]

theorem seqInv_step {cfg : Cfg} {s s' : SeqSt} (l : SeqLabel) (I : SeqInv s) (h : seqStep cfg s l = some s') :
    SeqInv s' := by
  cases l with
  | cancel =>
    simp only [seqStep] at h
    split at h
    · cases h; exact ⟨I.opn, I.excl⟩
    · cases h
  | start =>
    simp only [seqStep] at h
    split at h
    · rename_i g
      cases h
      have hf : s.fin = none := Option.isNone_iff_eq_none.mp g.2
      apply seqFrom_inv
      · intro j ho
        rcases (I.opn j).mp ho with hc | hr
        · have := (I.excl j hc).2
          exact g.1 this
        · simp [hf] at hr
      · exact hf
      · rfl
    · cases h
  | abort =>
    simp only [seqStep] at h
    split at h
    · rename_i g
      cases h
      have hf : s.fin = none := Option.isNone_iff_eq_none.mp g.2.1
      have hnc : ∀ j, s.cur ≠ some j := fun j hc => g.1 (I.excl j hc).2
      refine ⟨?_, ?_⟩
      · intro j
        have := I.opn j
        simp [hf, hnc j] at this
        simp [this, hnc j]
      · intro j hc; exact absurd hc (hnc j)
    · cases h
  | res r =>
    simp only [seqStep] at h
    split at h
    · rename_i k hfin hcur
      have hst := (I.excl k hcur).2
      have hopen : ∀ j, s.sock j = .opened ↔ j = k := by
        intro j
        rw [I.opn j, hcur, hfin]
        simp [eq_comm]
      have closed : ∀ j, (s.setSock k .closed).sock j ≠ .opened := by
        intro j
        by_cases hj : j = k
        · subst hj; simp
        · simpa [hj] using fun h => hj ((hopen j).mp h)
      cases r <;> simp only at h
      · split at h
        · cases h
          refine ⟨?_, ?_⟩
          · intro j; simp [hopen j, eq_comm]
          · intro j; simp
        · cases h
      · split at h
        · cases h
          exact seqFrom_inv _ _ _ _ closed hfin hst
        · cases h
      · split at h
        · cases h
          refine ⟨?_, ?_⟩
          · intro j; simpa using closed j
          · intro j; simp
        · cases h
      · split at h
        · cases h
          refine ⟨?_, ?_⟩
          · intro j; simpa using closed j
          · intro j; simp
        · cases h
    · cases h

theorem seqInv_run {cfg : Cfg} : ∀ (ls : List SeqLabel) {s s' : SeqSt}, SeqInv s → seqRun cfg s ls = some s' → SeqInv s'
  | [], s, s', I, h => by simp only [seqRun] at h; cases h; exact I
  | l :: ls, s, s', I, h => by
    simp only [seqRun] at h
    split at h
    · rename_i s1 h1
      exact seqInv_run ls (seqInv_step l I h1) h
    · cases h


theorem inv2_run {cfg : Cfg} : ∀ (ls : List Label) {s s' : St}, Inv cfg s → Inv2 cfg s → run cfg s ls = some s' → Inv2 cfg s'
  | [], s, s', _, J, h => by simp only [run] at h; cases h; exact J
  | l :: ls, s, s', I, J, h => by
    simp only [run] at h
    split at h
    · rename_i s1 h1
      exact inv2_run ls (inv_step l I h1) (inv2_step l J h1) h
    · cases h


theorem step_fin_none {cfg : Cfg} {s s' : St} {l : Label} (h : step cfg s l = some s') : s.fin = none := by
  cases l <;> simp only [step] at h <;> split at h <;> first
    | (rename_i g; exact Option.isNone_iff_eq_none.mp (by first | exact g.1 | exact g))
    | cases h

theorem allfailed_step {cfg : Cfg} {s s' : St} {l : Label} (J : Inv2 cfg s) (h : step cfg s l = some s')
    (m : Nat) (hm : s'.fin = some (.raised (.allfailed m))) (hn : 0 < cfg.n) : 1 ≤ m := by
  have hf := step_fin_none h
  cases l with
  | spawn => simp only [step] at h; split at h <;> cases h; simp [hf] at hm
  | begin k =>
    simp only [step] at h
    split at h
    · split at h <;> cases h <;> simp [hf] at hm
    · cases h
  | cancel => simp only [step] at h; split at h <;> cases h; simp [hf] at hm
  | res k r =>
    simp only [step] at h
    split at h
    · cases r <;> simp only at h
      · split at h
        · split at h <;> cases h <;> simp [hf] at hm
        · cases h
      all_goals (split at h <;> cases h; simp [hf] at hm)
    · cases h
  | fin f =>
    simp only [step] at h
    split at h
    · cases f <;> simp only at h
      · split at h
        · split at h <;> cases h; simp at hm
        · cases h
      · split at h
        · rename_i g
          cases h
          simp at hm
          subst hm
          have hw : s.winner = none := by simpa using g.1
          have h0 := allDone_spec g.2.2.2.2 0 hn
          exact J.err hw (by simpa using g.2.1) (by simpa using g.2.2.1) 0 h0
        · cases h
      · split at h
        · split at h <;> cases h <;> simp at hm
        · cases h
      · split at h
        · split at h <;> cases h <;> simp at hm
        · cases h
    · cases h

theorem allfailed_run {cfg : Cfg} (m : Nat) (hn : 0 < cfg.n) : ∀ (ls : List Label) {s s' : St}, Inv cfg s → Inv2 cfg s →
    run cfg s ls = some s' → (s.fin = some (.raised (.allfailed m)) → 1 ≤ m) →
    s'.fin = some (.raised (.allfailed m)) → 1 ≤ m
  | [], s, s', _, _, h, h0, hm => by simp only [run] at h; cases h; exact h0 hm
  | l :: ls, s, s', I, J, h, _, hm => by
    simp only [run] at h
    split at h
    · rename_i s1 h1
      exact allfailed_run m hn ls (inv_step l I h1) (inv2_step l J h1) h (fun e => allfailed_step J h1 m e hn) hm
    · cases h

theorem allfailed_errors (cfg : Cfg) (ls : List Label) {s : St} (h : run cfg St.init ls = some s) (m : Nat)
    (hfin : s.fin = some (.raised (.allfailed m))) (hn : 0 < cfg.n) : 1 ≤ m :=
  allfailed_run m hn ls (inv_init cfg) (inv2_init cfg) h (by simp [St.init]) hfin


end EasyNet.Race
