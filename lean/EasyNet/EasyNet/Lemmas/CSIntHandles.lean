/-
  C13 — interruption: every callback other than the task's own wake-up keeps the invariant.
-/
import EasyNet.Lemmas.CSIntParked
set_option linter.unusedSimpArgs false
set_option linter.unusedVariables false
namespace EasyNet.CS

/-- between two callbacks -/
def PInv (k : K) : Prop := Core [] k ∧ (k.done = none → Parked k)

/-! ### taking the next callback off the queue -/

theorem Q_setBatch (k : K) (rest : List Handle) : K.Q { k with batch := rest } = rest ++ k.ready := rfl

theorem Q_of_batch (k : K) (x : Handle) (rest : List Handle) (hb : k.batch = x :: rest) :
    k.Q = x :: K.Q { k with batch := rest } := by
  simp [K.Q, hb]

theorem pop_other_Core (k : K) (x : Handle) (rest : List Handle) (hb : k.batch = x :: rest) (h : Core [] k)
    (hd : x.isDeliver = false) : Core [] { k with batch := rest } := by
  have hQ := Q_of_batch k x rest hb
  refine h.mono h.sfF rfl (fun y hy => Or.inl (by rw [hQ]; exact List.mem_cons_of_mem _ hy)) (fun s hs => ?_)
    (fun p hp => Or.inl hp) rfl (fun s => rfl) (fun s hs => Or.inl hs) rfl h.cbs
  rw [hQ] at hs
  rcases List.mem_cons.mp hs with hs | hs
  · rw [← hs] at hd; simp [Handle.isDeliver] at hd
  · exact hs

theorem pop_other_Parked (k : K) (x : Handle) (rest : List Handle) (hb : k.batch = x :: rest) (h : Parked k)
    (hw : x.isWake = false) (hd : x.isDeliver = false) : Parked { k with batch := rest } := by
  have hQ := Q_of_batch k x rest hb
  refine h.mono ?_ (fun hs => ?_) (fun f => rfl) (fun f m hm => hm) rfl id rfl
  · rw [hQ]; simp [wakes, hw]
  · rw [hQ, safe_cons_other _ _ hw hd] at hs; exact hs

theorem pop_deliver (k : K) (s : Nat) (rest : List Handle) (hb : k.batch = .deliver s :: rest) (h : Core [] k) :
    Core [.deliver s] { k with batch := rest } ∧ s ∈ scopeIds k.frames := by
  have hQ := Q_of_batch k _ rest hb
  have hs : s ∈ scopeIds k.frames := h.hq s (by rw [hQ]; simp)
  refine ⟨⟨h.sfF, fun y hy => h.sfQ y (by rw [hQ]; exact List.mem_cons_of_mem _ hy), h.sfT, h.nodelay, h.sorted, h.st,
    h.act, fun s' hs' => h.hq s' (by rw [hQ]; exact List.mem_cons_of_mem _ hs'), fun s' hs' hc => ?_, h.nbad, h.cbs⟩, hs⟩
  rcases h.ha s' hs' hc with h1 | h1
  · rw [hQ] at h1
    rcases List.mem_cons.mp h1 with h1 | h1
    · exact Or.inr (by rw [h1]; simp)
    · exact Or.inl h1
  · simp at h1

theorem pop_deliver_Wake (k : K) (x : Handle) (rest : List Handle) (hb : k.batch = x :: rest) (h : Wake k)
    (hw : x.isWake = false) : Wake { k with batch := rest } := by
  have hQ := Q_of_batch k x rest hb
  refine h.mono ?_ (fun f => rfl) rfl
  rw [hQ]; simp [wakes, hw]

/-! ### `CancelScope.cancel` called by the timer (the task is not the current task) -/

theorem Core.markCancelled {k : K} (h : Core [] k) (s : Nat) :
    Core [.deliver s] (k.updScope s (fun x => { x with cancelCalled := true })) := by
  refine ⟨by simpa using h.sfF, by simpa using h.sfQ, by simpa using h.sfT, by simpa using h.nodelay,
    by simpa using h.sorted, fun s' hs' => ?_, fun s' hs' => ?_, fun s' hs' => h.hq s' (by simpa using hs'),
    fun s' hs' hc => ?_, by simpa using h.nbad, fun f o => by simpa using h.cbs f o⟩
  · simp only [updScope_scopes_eq]
    rw [scopeOf_updAt_active _ _ _ _ (by intro x; rfl)]
    exact h.st s' (by simpa using hs')
  · simp only [updScope_scopes_eq] at hs'
    rw [scopeOf_updAt_active _ _ _ _ (by intro x; rfl)] at hs'
    simpa using h.act s' hs'
  · by_cases hss : s' = s
    · subst hss; exact Or.inr (by simp)
    · simp only [updScope_scopes_eq] at hc
      rw [scopeOf_updAt_ne _ _ _ _ hss] at hc
      rcases h.ha s' (by simpa using hs') hc with h1 | h1
      · exact Or.inl (by simpa using h1)
      · simp at h1

theorem Core.markCancelled_off {k : K} (h : Core [] k) (s : Nat) (hs : s ∉ scopeIds k.frames) :
    Core [] (k.updScope s (fun x => { x with cancelCalled := true })) := by
  have h1 := h.markCancelled s
  refine ⟨h1.sfF, h1.sfQ, h1.sfT, h1.nodelay, h1.sorted, h1.st, h1.act, h1.hq, fun s' hs' hc => ?_, h1.nbad, h1.cbs⟩
  rcases h1.ha s' hs' hc with h2 | h2
  · exact Or.inl h2
  · simp only [List.mem_singleton] at h2
    injection h2 with h2
    subst h2
    exact absurd (by simpa using hs') hs

theorem Core.cancelHandle_other' {ms : List Handle} {k : K} (h : Core ms k) (x : Handle) (hx : x.isDeliver = false) :
    Core ms (k.cancelHandle x) := h.cancelHandle_other x hx

theorem deliver_inactive (k : K) (s : Nat) (cur : Bool) (h : (k.scope s).active = false) : k.deliver s cur = k := by
  unfold K.deliver; simp [h]

theorem scopeCancelH_inv (k : K) (s : Nat) (h : Core [] k) (hp : k.done = none → Parked k) :
    Core [] (k.scopeCancel s false) ∧ (k.done = none → Parked (k.scopeCancel s false)) := by
  unfold K.scopeCancel
  split
  · exact ⟨h, hp⟩
  · by_cases hs : s ∈ scopeIds k.frames
    · -- the scope is active: the cancellation is issued right away
      have h1 : Core [.deliver s] (((k.updScope s (fun x => { x with cancelCalled := true })).cancelHandle (.timeoutCancel s)).updScope s
          (fun x => { x with timeoutH := false })) :=
        (((h.markCancelled s).cancelHandle_other _ rfl).updScope_harmless s _ (by intro x; rfl) (by intro x; rfl))
      have hw : k.done = none → Wake (((k.updScope s (fun x => { x with cancelCalled := true })).cancelHandle (.timeoutCancel s)).updScope s
          (fun x => { x with timeoutH := false })) := fun hnd =>
        ((((hp hnd).updScope s _).cancelHandle_other _ rfl rfl).updScope s _).w
      have := deliverH_inv _ s h1 (by simpa using hs) (by simpa using hw)
      exact ⟨this.1, fun hnd => (this.2 (by simpa using hnd)).1⟩
    · -- not on the stack: not active, nothing is delivered
      have hna : (scopeOf k.scopes s).active = false := by
        cases ha : (scopeOf k.scopes s).active
        · rfl
        · exact absurd (h.act s ha) hs
      have h1 : Core [] (((k.updScope s (fun x => { x with cancelCalled := true })).cancelHandle (.timeoutCancel s)).updScope s
          (fun x => { x with timeoutH := false })) :=
        (((h.markCancelled_off s hs).cancelHandle_other _ rfl).updScope_harmless s _ (by intro x; rfl) (by intro x; rfl))
      rw [deliver_inactive]
      · exact ⟨h1, fun hnd => (((hp (by simpa using hnd)).updScope s _).cancelHandle_other _ rfl rfl).updScope s _⟩
      · rw [scope_eq]
        simp only [updScope_scopes_eq, cancelHandle_scopes]
        rw [scopeOf_updAt_active _ _ _ _ (by intro x; rfl), scopeOf_updAt_active _ _ _ _ (by intro x; rfl)]
        exact hna

end EasyNet.CS
