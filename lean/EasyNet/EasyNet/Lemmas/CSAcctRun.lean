/-
  C13 — the accounting invariant along whole runs: coroutine micro-steps, task steps, callbacks, turns.
-/
import EasyNet.Lemmas.CSAcctInv
set_option linter.unusedSimpArgs false
set_option linter.unusedVariables false
namespace EasyNet.CS

theorem AInv.setFrames {k : K} (h : AInv k) (hnd : k.done = none) (fs : List Frame)
    (hs : scopeIds fs = scopeIds k.frames) : AInv { k with frames := fs } :=
  ⟨h.acct, fun s ha => by show s ∈ scopeIds fs; rw [hs]; exact h.act s ha, fun hd => by simp [hnd] at hd⟩

theorem scopeIds_cons_of_notScope (fr : Frame) (fs : List Frame) (h : ∀ s t, fr ≠ .scopeF s t) :
    scopeIds (fr :: fs) = scopeIds fs := by
  cases fr <;> simp_all [scopeIds]

theorem AInv.push {k : K} (h : AInv k) (hnd : k.done = none) (fr : Frame) (hfr : ∀ s t, fr ≠ .scopeF s t) :
    AInv (k.push fr) :=
  h.setFrames hnd (fr :: k.frames) (scopeIds_cons_of_notScope fr k.frames hfr)

theorem AInv.pop_notScope {k : K} (h : AInv k) (hnd : k.done = none) (fr : Frame) (fs : List Frame)
    (hk : k.frames = fr :: fs) (hfr : ∀ s t, fr ≠ .scopeF s t) : AInv k.pop := by
  have : k.pop = { k with frames := fs } := by simp [K.pop, hk]
  rw [this]
  exact h.setFrames hnd fs (by rw [hk, scopeIds_cons_of_notScope fr fs hfr])

theorem AInv.setBad {k : K} (h : AInv k) (b : Bool) : AInv { k with bad := b } :=
  h.transfer rfl (fun _ => rfl) rfl rfl

/-! ### statements -/

theorem startStmt_Good (k : K) (st : Stmt) (h : AInv k) (hnd : k.done = none) :
    Good (k.startStmt st).1 ∧ ∀ e, (k.startStmt st).2 ≠ .finished e := by
  cases st with
  | sleep id d =>
    cases d with
    | zero => exact ⟨Or.inr ((h.emit _).push (by simpa using hnd) _ (by intro s t; simp)), by intro e; simp [K.startStmt]⟩
    | succ d =>
      refine ⟨Or.inr ?_, by intro e; simp [K.startStmt]⟩
      exact (((h.emit _).newFut).callAt _ _ _).push (by simpa using hnd) _ (by intro s t; simp)
  | yield_ id => exact ⟨Or.inr ((h.emit _).push (by simpa using hnd) _ (by intro s t; simp)), by intro e; simp [K.startStmt]⟩
  | syield id => exact ⟨Or.inr ((h.emit _).push (by simpa using hnd) _ (by intro s t; simp)), by intro e; simp [K.startStmt]⟩
  | cancel id i =>
    simp only [K.startStmt]
    split
    · exact ⟨Or.inr ((scopeCancel_AInv _ _ _ h).emit _), by intro e; simp⟩
    · exact ⟨Or.inr h, by intro e; simp⟩
  | resched id i d =>
    simp only [K.startStmt]
    split
    · exact ⟨Or.inr ((reschedule_AInv _ _ _ _ h).emit _), by intro e; simp⟩
    · exact ⟨Or.inr h, by intro e; simp⟩
  | scope id to delay pre body =>
    refine ⟨Or.inr ?_, by intro e; simp [K.startStmt]⟩
    have h1 := (scopeEnter_AInv k id to delay pre h hnd).emit (.enter id k.now k.numCancels)
    exact h1.push (by simpa using hnd) _ (by intro s t; simp)
  | shield id body =>
    refine ⟨Or.inr ?_, by intro e; simp [K.startStmt]⟩
    exact ((h.emit _).push (by simpa using hnd) _ (by intro s t; simp)).push (by simpa using hnd) _ (by intro s t; simp)
  | tryc id body =>
    refine ⟨Or.inr ?_, by intro e; simp [K.startStmt]⟩
    exact (h.push hnd _ (by intro s t; simp)).push (by simpa using hnd) _ (by intro s t; simp)

theorem endScope_AInv (k : K) (s : Nat) (to : Bool) (e : Option Exc) (fs : List Frame) (h : AInv k) (hnd : k.done = none)
    (hk : k.frames = .scopeF s to :: fs) : AInv (k.endScope s to e).1 := by
  unfold K.endScope
  refine AInv.emit (scopeExit_AInv k.pop s e (by simpa [Acct] using h.acct) (fun s' hs' => ?_) (fun hd => ?_)) _
  · have := h.act s' (by simpa using hs')
    rw [hk] at this
    simpa [K.pop, hk, scopeIds] using this
  · simp [hnd] at hd

theorem endScope_notFinished (k : K) (s : Nat) (to : Bool) (e : Option Exc) : ∀ e', (k.endScope s to e).2 ≠ .finished e' := by
  intro e'
  unfold K.endScope nextOf
  split <;> simp

theorem endShield_AInv (k : K) (id : Nat) (yl : Bool) (e : Option Exc) (fr : Frame) (fs : List Frame) (h : AInv k)
    (hnd : k.done = none) (hk : k.frames = fr :: fs) (hfr : ∀ s t, fr ≠ .scopeF s t) : AInv (k.endShield id yl e).1 := by
  unfold K.endShield
  split
  · exact (checkPending_AInv _ (h.pop_notScope hnd fr fs hk hfr)).emit _
  · exact (h.pop_notScope hnd fr fs hk hfr).emit _

theorem endShield_notFinished (k : K) (id : Nat) (yl : Bool) (e : Option Exc) : ∀ e', (k.endShield id yl e).2 ≠ .finished e' := by
  intro e'
  unfold K.endShield nextOf
  (repeat' split) <;> simp

/-- one micro-step of the coroutine keeps the invariant (or crashes), and the coroutine only ends with no frame left -/
theorem coStep_Good (k : K) (c : Ctl) (h : AInv k) (hnd : k.done = none) :
    Good (k.coStep c).1 ∧ ∀ e, (k.coStep c).2 = .finished e → (k.coStep c).1 = k ∧ k.frames = [] := by
  unfold K.coStep
  split
  all_goals first
    | exact ⟨Or.inr h, fun e _ => ⟨rfl, by assumption⟩⟩
    | (rename_i hfr; exact ⟨Or.inr (h.pop_notScope hnd _ _ hfr (by intro s t; simp)), by intro e he; simp at he⟩)
    | (rename_i hfr; exact ⟨Or.inr ((h.pop_notScope hnd _ _ hfr (by intro s t; simp)).emit _), by intro e he; simp at he⟩)
    | skip
  case h_6 =>
    rename_i s rest fs hfr
    have h1 : AInv { k with frames := .seq rest :: fs } :=
      h.setFrames hnd _ (by rw [hfr]; simp [scopeIds])
    have := startStmt_Good _ s h1 (by simpa using hnd)
    exact ⟨this.1, fun e he => absurd he (this.2 e)⟩
  case h_8 =>
    rename_i hfr
    exact ⟨Or.inr (endScope_AInv k _ _ _ _ h hnd hfr), fun e he => absurd he (endScope_notFinished _ _ _ _ e)⟩
  case h_9 =>
    rename_i hfr
    exact ⟨Or.inr (endScope_AInv k _ _ _ _ h hnd hfr), fun e he => absurd he (endScope_notFinished _ _ _ _ e)⟩
  case h_13 =>
    rename_i hfr
    exact ⟨Or.inr (endShield_AInv k _ _ _ _ _ h hnd hfr (by intro s t; simp)),
      fun e he => absurd he (endShield_notFinished _ _ _ _ e)⟩
  case h_14 =>
    rename_i hfr
    exact ⟨Or.inr (endShield_AInv k _ _ _ _ _ h hnd hfr (by intro s t; simp)),
      fun e he => absurd he (endShield_notFinished _ _ _ _ e)⟩
  case h_15 =>
    rename_i hfr
    refine ⟨Or.inr ?_, by intro e he; simp at he⟩
    exact AInv.setBad (((h.pop_notScope hnd _ _ hfr (by intro s t; simp)).cancelHandle _).emit _) _
  case h_16 =>
    rename_i hfr
    exact ⟨Or.inr (((h.pop_notScope hnd _ _ hfr (by intro s t; simp)).cancelHandle _).emit _), by intro e he; simp at he⟩
  case h_17 =>
    rename_i hfr
    refine ⟨Or.inr ?_, by intro e he; simp at he⟩
    exact AInv.setBad ((h.pop_notScope hnd _ _ hfr (by intro s t; simp)).emit _) _
  case h_20 =>
    rename_i hfr
    refine ⟨?_, by intro e he; simp at he⟩
    rcases reschedDelayed_Good _ _ (h.pop_notScope hnd _ _ hfr (by intro s t; simp)) with hc | hc
    · exact Or.inl (by simpa [Crashed] using hc)
    · exact Or.inr (hc.emit _)
  case h_21 => exact ⟨Or.inr h, by intro e he; simp at he⟩
  case h_22 => exact ⟨Or.inr h, by intro e he; simp at he⟩

/-! ### yields and resumptions travel through the shield drivers -/

theorem mem_scopeIds (fs : List Frame) (s : Nat) : s ∈ scopeIds fs ↔ ∃ t, Frame.scopeF s t ∈ fs := by
  induction fs with
  | nil => simp [scopeIds]
  | cons fr fs ih =>
    have hother : (∀ s' t', fr ≠ .scopeF s' t') → (s ∈ scopeIds (fr :: fs) ↔ ∃ t, Frame.scopeF s t ∈ fr :: fs) := by
      intro hne
      rw [scopeIds_cons_of_notScope fr fs hne, ih]
      constructor
      · rintro ⟨t, h⟩; exact ⟨t, List.mem_cons_of_mem _ h⟩
      · rintro ⟨t, h⟩
        rcases List.mem_cons.mp h with h | h
        · exact absurd h.symm (hne s t)
        · exact ⟨t, h⟩
    cases fr with
    | scopeF s' t' =>
      simp only [scopeIds, List.mem_cons, ih]
      constructor
      · rintro (h | ⟨t, h⟩)
        · exact ⟨t', Or.inl (by rw [h])⟩
        · exact ⟨t, Or.inr h⟩
      · rintro ⟨t, h | h⟩
        · injection h with h1 h2; exact Or.inl h1
        · exact Or.inr ⟨t, h⟩
    | seq r => exact hother (by intro s' t'; simp)
    | shieldF a b c d => exact hother (by intro s' t'; simp)
    | tryF a => exact hother (by intro s' t'; simp)
    | blkF a b c => exact hother (by intro s' t'; simp)

theorem Good.of_eq {k k' : K} (h : Good k) (ha : k'.acct = k.acct) (hs : k'.scopes = k.scopes)
    (hf : k'.frames = k.frames) (hd : k'.done = k.done) : Good k' := by
  rcases h with h | h
  · exact Or.inl (by unfold Crashed at *; rw [hd]; exact h)
  · exact Or.inr (h.transfer ha (fun s => by rw [hs]) hf hd)

theorem shieldWrap_spec (id : Nat) (y : Yield) (k : K) :
    (∃ a b c, (shieldWrap id y k).1 = .shieldF id a b c) ∧
    (shieldWrap id y k).2.2.acct = k.acct ∧ (shieldWrap id y k).2.2.scopes = k.scopes ∧
    (shieldWrap id y k).2.2.frames = k.frames ∧ (shieldWrap id y k).2.2.done = k.done := by
  unfold shieldWrap
  split
  · exact ⟨⟨_, _, _, rfl⟩, rfl, rfl, rfl, rfl⟩
  · exact ⟨⟨_, _, _, rfl⟩, by simp, by simp, by simp, by simp⟩

theorem bubble_spec (fs : List Frame) (y : Yield) (k : K) :
    (∀ s t, Frame.scopeF s t ∈ (bubble fs y k).1 ↔ Frame.scopeF s t ∈ fs) ∧
    (bubble fs y k).2.2.acct = k.acct ∧ (bubble fs y k).2.2.scopes = k.scopes ∧
    (bubble fs y k).2.2.frames = k.frames ∧ (bubble fs y k).2.2.done = k.done := by
  induction fs generalizing y k with
  | nil => simp [bubble]
  | cons fr fs ih =>
    cases fr with
    | shieldF id a b c =>
      have hw := shieldWrap_spec id y k
      obtain ⟨⟨a', b', c', hfr⟩, h1, h2, h3, h4⟩ := hw
      have := ih (shieldWrap id y k).2.1 (shieldWrap id y k).2.2
      obtain ⟨i1, i2, i3, i4, i5⟩ := this
      simp only [bubble]
      refine ⟨fun s t => ?_, by rw [i2, h1], by rw [i3, h2], by rw [i4, h3], by rw [i5, h4]⟩
      simp [hfr, i1]
    | seq r => have := ih y k; simpa [bubble] using this
    | scopeF s' t' =>
      have := ih y k
      simp only [bubble]
      refine ⟨fun s t => ?_, this.2⟩
      simp [this.1]
    | tryF id => have := ih y k; simpa [bubble] using this
    | blkF id kd fl => have := ih y k; simpa [bubble] using this

theorem resumeOuter_spec (fs : List Frame) (sg : Signal) (k : K) (h : Good k) :
    (∀ s t, Frame.scopeF s t ∈ (resumeOuter fs sg k).1 ↔ Frame.scopeF s t ∈ fs) ∧
    Good (resumeOuter fs sg k).2.2 ∧ (resumeOuter fs sg k).2.2.frames = k.frames ∧
    ((resumeOuter fs sg k).2.2.done = k.done ∨ Crashed (resumeOuter fs sg k).2.2) := by
  induction fs generalizing sg k with
  | nil => simp [resumeOuter, h]
  | cons fr fs ih =>
    cases fr with
    | seq r =>
      have := ih sg k h
      simp only [resumeOuter]
      exact ⟨fun s t => by simp [this.1], this.2⟩
    | scopeF s' t' =>
      have := ih sg k h
      simp only [resumeOuter]
      exact ⟨fun s t => by simp [this.1], this.2⟩
    | tryF id =>
      have := ih sg k h
      simp only [resumeOuter]
      exact ⟨fun s t => by simp [this.1], this.2⟩
    | blkF id kd fl =>
      have := ih sg k h
      simp only [resumeOuter]
      exact ⟨fun s t => by simp [this.1], this.2⟩
    | shieldF id yl inner lastC =>
      -- the three ways the driver continues the inner coroutine share this shape
      have cont : ∀ (sg' : Signal) (k' : K), Good k' → k'.frames = k.frames → (k'.done = k.done ∨ Crashed k') →
          let r := resumeOuter fs sg' k'
          let res : List Frame × RRes × K := match r.2.1 with
            | .go sg'' => (.shieldF id yl none none :: r.1, .go sg'', r.2.2)
            | .susp y => ((shieldWrap id y r.2.2).1 :: r.1, .susp (shieldWrap id y r.2.2).2.1, (shieldWrap id y r.2.2).2.2)
          (∀ s t, Frame.scopeF s t ∈ res.1 ↔ Frame.scopeF s t ∈ fs) ∧ Good res.2.2 ∧ res.2.2.frames = k.frames ∧
            (res.2.2.done = k.done ∨ Crashed res.2.2) := by
        intro sg' k' hk' hfk hdk
        have hi := ih sg' k' hk'
        obtain ⟨i1, i2, i3, i4⟩ := hi
        have hd' : (resumeOuter fs sg' k').2.2.done = k.done ∨ Crashed (resumeOuter fs sg' k').2.2 := by
          rcases i4 with i4 | i4
          · rcases hdk with hdk | hdk
            · exact Or.inl (by rw [i4, hdk])
            · exact Or.inr (by unfold Crashed at *; rw [i4]; exact hdk)
          · exact Or.inr i4
        dsimp only
        split
        · exact ⟨fun s t => by simp [i1], i2, by rw [i3, hfk], hd'⟩
        · rename_i y hy
          obtain ⟨⟨a', b', c', hfr⟩, w1, w2, w3, w4⟩ := shieldWrap_spec id y (resumeOuter fs sg' k').2.2
          refine ⟨fun s t => by simp [hfr, i1], i2.of_eq w1 w2 w3 w4, by rw [w3, i3, hfk], ?_⟩
          rcases hd' with hd' | hd'
          · exact Or.inl (by rw [w4, hd'])
          · exact Or.inr (by unfold Crashed at *; rw [w4]; exact hd')
      have hro : ∀ o, Good (k.reschedOpt o) ∧ (k.reschedOpt o).frames = k.frames ∧
          ((k.reschedOpt o).done = k.done ∨ Crashed (k.reschedOpt o)) := by
        intro o
        refine ⟨reschedOpt_Good _ _ h, by simp, ?_⟩
        cases o with
        | none => exact Or.inl rfl
        | some m =>
          simp only [K.reschedOpt, K.reschedDelayed]
          split
          · exact Or.inr (by simp [Crashed])
          · exact Or.inl (by simp)
      cases inner with
      | none =>
        cases sg with
        | ok =>
          simp only [resumeOuter]
          obtain ⟨c1, c2⟩ := cont .ok (k.reschedOpt lastC) (hro lastC).1 (hro lastC).2.1 (hro lastC).2.2
          exact ⟨fun s t => (c1 s t).trans (by simp), c2⟩
        | cancelled m =>
          simp only [resumeOuter]
          obtain ⟨c1, c2⟩ := cont .ok (k.reschedOpt (some m)) (hro (some m)).1 (hro (some m)).2.1 (hro (some m)).2.2
          exact ⟨fun s t => (c1 s t).trans (by simp), c2⟩
      | some f =>
        cases hf : k.futState f with
        | pending =>
          simp only [resumeOuter, hf]
          exact ⟨fun s t => by simp, h.of_eq (by simp) (by simp) (by simp) (by simp), by simp, Or.inl (by simp)⟩
        | cancelled m' =>
          simp only [resumeOuter, hf]
          obtain ⟨c1, c2⟩ := cont (.cancelled m') k h rfl (Or.inl rfl)
          exact ⟨fun s t => (c1 s t).trans (by simp), c2⟩
        | result =>
          cases sg with
          | ok =>
            simp only [resumeOuter, hf]
            obtain ⟨c1, c2⟩ := cont .ok (k.reschedOpt lastC) (hro lastC).1 (hro lastC).2.1 (hro lastC).2.2
            exact ⟨fun s t => (c1 s t).trans (by simp), c2⟩
          | cancelled m =>
            simp only [resumeOuter, hf]
            obtain ⟨c1, c2⟩ := cont .ok (k.reschedOpt (some m)) (hro (some m)).1 (hro (some m)).2.1 (hro (some m)).2.2
            exact ⟨fun s t => (c1 s t).trans (by simp), c2⟩

/-! ### task steps -/

theorem AInv.reframe {k k' : K} (h : AInv k) (ha : k'.acct = k.acct) (hs : k'.scopes = k.scopes)
    (hm : ∀ s t, Frame.scopeF s t ∈ k'.frames ↔ Frame.scopeF s t ∈ k.frames)
    (hfin : k'.done.isSome = true → k'.frames = []) : AInv k' :=
  ⟨Acct_of_acct_eq ha h.acct,
   fun s hs' => by
    rw [mem_scopeIds]
    obtain ⟨t, ht⟩ := (mem_scopeIds _ _).mp (h.act s (by rw [← hs]; exact hs'))
    exact ⟨t, (hm s t).mpr ht⟩,
   hfin⟩

theorem taskYield_acct (k : K) (y : Yield) : (k.taskYield y).acct = k.acct := by simp [K.acct]

theorem taskYield_Good (k : K) (y : Yield) (h : Good k) : Good (k.taskYield y) :=
  h.of_eq (taskYield_acct k y) (by simp) (by simp) (by simp)

theorem taskFinish_AInv (k : K) (e : Option Exc) (h : AInv k) (hf : k.frames = []) : AInv (k.taskFinish e) :=
  ⟨Acct_of_acct_eq (by simp [K.acct]) h.acct, fun s hs => by simpa using h.act s (by simpa using hs),
   fun _ => by simpa using hf⟩

theorem Good.crashed_or {k : K} (h : Good k) (hnd : k.done = none) : AInv k := by
  rcases h with h | h
  · simp [Crashed, hnd] at h
  · exact h

theorem exec_Good (fuel : Nat) : ∀ (k : K) (c : Ctl), Good k → Good (K.exec fuel k c) := by
  induction fuel with
  | zero => intro k c h; exact Or.inl (by simp [K.exec, Crashed])
  | succ fuel ih =>
    intro k c h
    unfold K.exec
    split
    · exact h
    · rename_i hd
      have hnd : k.done = none := by simpa using hd
      have hA := h.crashed_or hnd
      have hc := coStep_Good k c hA hnd
      split
      · rename_i k1 c1 heq
        rw [heq] at hc
        exact ih _ _ hc.1
      · rename_i k1 y heq
        rw [heq] at hc
        have hb := bubble_spec k1.frames y k1
        obtain ⟨b1, b2, b3, b4, b5⟩ := hb
        apply taskYield_Good
        rcases hc.1 with hcr | hAk1
        · exact Or.inl (by simp only [Crashed] at *; rw [b5]; exact hcr)
        · refine Or.inr (hAk1.reframe (by simpa [K.acct] using b2) b3 b1 (fun hdn => ?_))
          have : k1.frames = [] := hAk1.fin (by rw [← b5]; exact hdn)
          simp [this, bubble]
      · rename_i k1 e heq
        rw [heq] at hc
        obtain ⟨hk1, hfr⟩ := hc.2 e rfl
        subst hk1
        exact Or.inr (taskFinish_AInv _ _ hA hfr)

theorem afterDrivers_Good (k : K) (sg0 : Signal) (h : Good k) (hnd : k.done = none) : Good (k.afterDrivers sg0) := by
  have hA := h.crashed_or hnd
  have hA1 : AInv { k with mustCancel := false, waiter := none } := hA.transfer rfl (fun _ => rfl) rfl rfl
  have hr := resumeOuter_spec k.frames.reverse (k.wakeSignal sg0) { k with mustCancel := false, waiter := none } (Or.inr hA1)
  unfold K.afterDrivers K.resumed
  generalize resumeOuter k.frames.reverse (k.wakeSignal sg0) { k with mustCancel := false, waiter := none } = r at hr ⊢
  obtain ⟨r1, r2, r3, r4⟩ := hr
  have r3' : r.2.2.frames = k.frames := r3
  rcases r2 with hcr | hAr
  · exact Or.inl hcr
  · rcases r4 with r4 | r4
    · have r4' : r.2.2.done = none := by rw [r4]; exact hnd
      refine Or.inr (hAr.reframe rfl rfl (fun s t => ?_) (fun hdn => ?_))
      · show Frame.scopeF s t ∈ r.1.reverse ↔ Frame.scopeF s t ∈ r.2.2.frames
        rw [List.mem_reverse, r1, r3', List.mem_reverse]
      · have : r.2.2.done.isSome = true := hdn
        rw [r4'] at this
        simp at this
    · exact Or.inl r4

theorem taskStep_Good (k : K) (sg0 : Signal) (h : Good k) : Good (k.taskStep sg0) := by
  unfold K.taskStep
  split
  · exact h
  · rename_i hd
    have hnd : k.done = none := by simpa using hd
    have hk2 := afterDrivers_Good k sg0 h hnd
    split
    · exact taskYield_Good _ _ hk2
    · exact exec_Good _ _ _ hk2

/-! ### callbacks, turns, runs -/

theorem runHandleCore_Good (k : K) (x : Handle) (h : AInv k) : Good (k.runHandleCore x) := by
  cases x with
  | step => exact taskStep_Good _ _ (Or.inr h)
  | wakeup f =>
    simp only [K.runHandleCore]
    split <;> exact taskStep_Good _ _ (Or.inr h)
  | deliver s => exact Or.inr (deliver_AInv _ _ _ h)
  | timeoutCancel s =>
    exact Or.inr (scopeCancel_AInv _ _ _ (h.updScope_same s _ (by intro x; rfl) (by intro x; rfl)))
  | sleepDone f => exact Or.inr (h.futSetResult f)
  | delayedCancel m =>
    simp only [K.runHandleCore]
    split
    · exact Or.inr h
    · rename_i hd
      have hnd : k.done = none := by simpa using hd
      generalize hk' : ({ k.taskUncancel with phantom := k.phantom + (if k.numCancels = 0 then 1 else 0) } : K) = k'
      have e1 : k'.numCancels = k.numCancels - 1 := by subst hk'; rfl
      have e2 : k'.extCount = k.extCount := by subst hk'; rfl
      have e3 : k'.scopes = k.scopes := by subst hk'; rfl
      have e4 : k'.phantom = k.phantom + (if k.numCancels = 0 then 1 else 0) := by subst hk'; rfl
      have e5 : k'.done = none := by subst hk'; exact hnd
      have e6 : k'.frames = k.frames := by subst hk'; rfl
      refine Or.inr ⟨?_, fun s hs => ?_, fun hdn => ?_⟩
      · have hA := h.acct
        have h1 := taskCancel_acct k' m
        unfold Acct at *
        simp only [K.acct, Prod.mk.injEq, e5] at h1
        obtain ⟨a1, a2, a3, a4⟩ := h1
        rw [a1, a2, a3, a4, e1, e2, e3, e4]
        simp only [Option.isSome_none, Bool.false_eq_true, if_false]
        split <;> omega
      · simp only [taskCancel_frames, e6]
        exact h.act s (by simpa [e3] using hs)
      · simp only [taskCancel_frames, e6]
        exact h.fin (by simpa [e5] using hdn)
  | delayedPop => exact Or.inr (h.transfer rfl (fun _ => rfl) rfl rfl)
  | innerDone f o =>
    simp only [K.runHandleCore]
    split
    · exact Or.inr h
    · split
      · exact Or.inr (h.futCancel o none)
      · exact Or.inr (h.futSetResult o)
  | ext =>
    simp only [K.runHandleCore]
    generalize hk1 : k.emit (.ext k.now k.done.isSome) = k1
    have hA1 : AInv k1 := by subst hk1; exact h.emit _
    split
    · exact Or.inr hA1
    · rename_i hd
      have hnd : k1.done = none := by simpa using hd
      refine Or.inr ⟨?_, fun s hs => ?_, fun hdn => ?_⟩
      · have hA := hA1.acct
        have h1 := taskCancel_acct k1 none
        unfold Acct at *
        simp only [K.acct, Prod.mk.injEq] at h1
        obtain ⟨a1, a2, a3, a4⟩ := h1
        show (K.taskCancel k1 none).numCancels = k1.extCount + 1 + sumCalls (K.taskCancel k1 none).scopes + (K.taskCancel k1 none).phantom
        rw [a1, a3, a4, hnd]
        simp only [Option.isSome_none, Bool.false_eq_true, if_false]
        omega
      · show s ∈ scopeIds (K.taskCancel k1 none).frames
        simp only [taskCancel_frames]
        exact hA1.act s (by simpa using hs)
      · show (K.taskCancel k1 none).frames = []
        simp only [taskCancel_frames]
        exact hA1.fin (by simpa using hdn)

theorem runHandle_Good (k : K) (x : Handle) (h : Good k) : Good (k.runHandle x) := by
  unfold K.runHandle
  split
  · exact h
  · rename_i hc
    rcases h with h | h
    · exact absurd h hc
    · exact runHandleCore_Good _ _ h

theorem runBatch_Good (n : Nat) : ∀ k : K, Good k → Good (K.runBatch n k) := by
  induction n with
  | zero => intro k h; exact h
  | succ n ih =>
    intro k h
    unfold K.runBatch
    split
    · exact h
    · exact ih _ (runHandle_Good _ _ (h.of_eq rfl rfl rfl rfl))

theorem turn_Good (k k' : K) (h : Good k) (ht : k.turn = some k') : Good k' := by
  unfold K.turn at ht
  split at ht
  · simp at ht
  · simp only [Option.some.injEq] at ht
    subst ht
    exact (runBatch_Good _ _ (h.of_eq (k' := k.beginTurn) rfl rfl rfl rfl)).of_eq rfl rfl rfl rfl

theorem runTurns_Good (n : Nat) : ∀ k : K, Good k → Good (K.runTurns n k).1 := by
  induction n with
  | zero => intro k h; exact h
  | succ n ih =>
    intro k h
    unfold K.runTurns
    split
    · exact h
    · split
      · exact h
      · rename_i k1 hk1
        exact ih _ (turn_Good _ _ h hk1)

theorem addExt_Good (extLast : Bool) (ext : List Nat) : ∀ k : K, Good k → Good (addExt extLast ext k) := by
  induction ext with
  | nil => intro k h; exact h
  | cons t ts ih => intro k h; exact ih _ (h.of_eq (by simp) (by simp) (by simp) (by simp))

theorem init_Good (prog : List Stmt) (ext : List Nat) (extLast fix : Bool) : Good (K.init prog ext extLast fix) := by
  unfold K.init
  apply addExt_Good
  refine Or.inr (AInv.callSoon ⟨by simp [Acct, sumCalls], fun s hs => ?_, fun hd => by simp at hd⟩ _)
  simp [scopeOf, defaultScope] at hs

/-- every state reached by any program under any schedule of external cancels balances its cancel requests -/
theorem run_Good (prog : List Stmt) (ext : List Nat) (extLast fix : Bool) (n : Nat) :
    Good (run prog ext extLast fix n).1 :=
  runTurns_Good _ _ (init_Good _ _ _ _)

end EasyNet.CS
