/-
  C13 — interruption: task steps, the callback dispatcher, turns and whole runs.
-/
import EasyNet.Lemmas.CSIntExec
set_option linter.unusedSimpArgs false
set_option linter.unusedVariables false
namespace EasyNet.CS

/-- crashed (model artefact) without the monitor having fired, or the invariant -/
def Good2 (k : K) : Prop := (Crashed k ∧ k.bad = false) ∨ PInv k

theorem K.eta_frames (k : K) : ({ k with frames := k.frames } : K) = k := rfl

theorem taskFinish_done (k : K) (e : Option Exc) : (k.taskFinish e).done ≠ none := by
  unfold K.taskFinish
  (repeat' split) <;> simp

theorem exec_R (fuel : Nat) : ∀ (k : K) (c : Ctl), Core [] k → Running k → (c = .resume .ok → ¬ Flagged k) →
    Good2 (K.exec fuel k c) := by
  induction fuel with
  | zero => intro k c h hr hc; exact Or.inl ⟨by simp [K.exec, Crashed], by simpa [K.exec] using h.nbad⟩
  | succ fuel ih =>
    intro k c h hr hc
    unfold K.exec
    split
    · rename_i hd; rw [hr.nd] at hd; simp at hd
    · have hs := coStep_R k c h hr hc
      split
      · rename_i k1 c1 heq
        rw [heq] at hs
        exact ih k1 c1 hs.1 hs.2.1 (fun he => absurd he (hs.2.2 _))
      · rename_i k1 y heq
        rw [heq] at hs
        cases y with
        | bare =>
          obtain ⟨h1, hr1, id, flag, fs, hfr, hfl⟩ := hs
          rw [bubble_sf _ _ _ h1.sfF]
          show Good2 (k1.callSoon .step)
          have := park_bare k1 id flag fs h1 hr1 hfr hfl
          exact Or.inr ⟨this.1, fun _ => this.2⟩
        | fut f =>
          obtain ⟨h1, hr1, id, flag, fs, hfr, hfv, hfl⟩ := hs
          rw [bubble_sf _ _ _ h1.sfF]
          show Good2 (k1.taskYield (.fut f))
          have hmc : k1.mustCancel = false := hr1.mc
          have hty : k1.taskYield (.fut f) = k1.setWaiter f := by simp [K.taskYield, hmc]
          rw [hty]
          have := park_sleep k1 id f flag fs h1 hr1 hfr hfv hfl
          exact Or.inr ⟨this.1, fun _ => this.2⟩
      · rename_i k1 e heq
        rw [heq] at hs
        obtain ⟨h1, hr1, hfr⟩ := hs
        refine Or.inr ⟨?_, fun hd => absurd hd (taskFinish_done k1 e)⟩
        exact h1.mono (by simpa using h1.sfF) (by simp) (fun x hx => Or.inl (by simpa [K.Q] using hx))
          (fun s hs => by simpa [K.Q] using hs) (fun p hp => Or.inl (by simpa using hp)) (by simp) (fun s => by simp)
          (fun s hs => Or.inl (by simpa using hs)) (by simp) (fun f o => by simpa [K.futCb] using h1.cbs f o)

/-- `Task.__step` on the state from which the waking callback has just been taken -/
theorem taskStep_R (k : K) (sg0 : Signal) (h : Core [] k) (hnd : k.done = none) (hnw : wakes k.Q = [])
    (hncb : ∀ f, k.futCb f ≠ .wakeup) (hsig : Flagged k → ∃ m, k.wakeSignal sg0 = .cancelled m) :
    Good2 (k.taskStep sg0) := by
  have hrev : ∀ fr ∈ k.frames.reverse, fr.sf = true := fun fr hfr => h.sfF fr (by simpa using hfr)
  have hres : k.resumed sg0 = (k.frames.reverse, .go (k.wakeSignal sg0), { k with mustCancel := false, waiter := none }) := by
    unfold K.resumed
    exact resumeOuter_sf _ _ _ hrev
  have haft : k.afterDrivers sg0 = { k with mustCancel := false, waiter := none } := by
    unfold K.afterDrivers
    rw [hres]
    simp
  unfold K.taskStep
  simp only [hnd, Option.isSome_none, Bool.false_eq_true, if_false]
  rw [hres, haft]
  have h1 : Core [] { k with mustCancel := false, waiter := none } :=
    h.mono h.sfF rfl (fun x hx => Or.inl hx) (fun s hs => hs) (fun p hp => Or.inl hp) rfl (fun s => rfl)
      (fun s hs => Or.inl hs) rfl h.cbs
  have hr1 : Running { k with mustCancel := false, waiter := none } := ⟨hnw, hncb, rfl, rfl, hnd⟩
  refine exec_R _ _ _ h1 hr1 (fun he hF => ?_)
  obtain ⟨m, hm⟩ := hsig hF
  injection he with he
  rw [hm] at he
  cases he

/-! ### the dispatcher -/

theorem wakeSignal_must (k : K) (sg0 : Signal) (h : k.mustCancel = true) : ∃ m, k.wakeSignal sg0 = .cancelled m := by
  unfold K.wakeSignal
  cases sg0 <;> simp [h]

theorem wakeSignal_cancelled (k : K) (m : Msg) : ∃ m', k.wakeSignal (.cancelled m) = .cancelled m' := by
  unfold K.wakeSignal
  split <;> simp

theorem Core.popWake {k : K} (x : Handle) (rest : List Handle) (hb : k.batch = x :: rest) (h : Core [] k)
    (hw : x.isWake = true) : Core [] { k with batch := rest } :=
  pop_other_Core k x rest hb h (by cases x <;> simp_all [Handle.isWake, Handle.isDeliver])

theorem wakes_after_pop (k : K) (x : Handle) (rest : List Handle) (hb : k.batch = x :: rest) (hp : Wake k)
    (hw : x.isWake = true) : wakes (K.Q { k with batch := rest }) = [] := by
  have hQ := Q_of_batch k x rest hb
  have := hp.wd
  rw [hQ] at this
  simp only [wakes, List.filter_cons_of_pos hw, List.length_cons] at this
  exact List.eq_nil_of_length_eq_zero (by simp only [wakes]; omega)

theorem runHandle_G2 (k : K) (x : Handle) (rest : List Handle) (hb : k.batch = x :: rest) (h : PInv k) :
    Good2 (K.runHandle { k with batch := rest } x) := by
  obtain ⟨hc, hp⟩ := h
  have hQ := Q_of_batch k x rest hb
  unfold K.runHandle
  split
  · rename_i hcr
    exact Or.inl ⟨hcr, hc.nbad⟩
  · have hxsf : x.sf = true := hc.sfQ x (by rw [hQ]; simp)
    cases x with
    | step =>
      simp only [K.runHandleCore]
      by_cases hnd : k.done = none
      · have hP := hp hnd
        have hwn : k.waiter = none := hP.w.wb2 (by rw [hQ]; simp)
        refine taskStep_R _ _ (hc.popWake _ rest hb rfl) hnd (wakes_after_pop k _ rest hb hP.w rfl)
          (fun f hf => ?_) (fun hF => ?_)
        · have := hP.w.c f hf; rw [hwn] at this; cases this
        · rcases hP.g hF with hin | hs
          · rcases hin with hm | ⟨f, m, hw, _⟩
            · exact wakeSignal_must _ _ hm
            · rw [hwn] at hw; cases hw
          · rw [hQ, safe_cons_wake _ _ rfl] at hs; cases hs
      · have : K.taskStep { k with batch := rest } .ok = { k with batch := rest } := by
          unfold K.taskStep
          cases hd : k.done with
          | none => exact absurd hd hnd
          | some r => simp [hd]
        rw [this]
        exact Or.inr ⟨hc.popWake _ rest hb rfl, fun hd => absurd hd hnd⟩
    | wakeup f =>
      simp only [K.runHandleCore]
      by_cases hnd : k.done = none
      · have hP := hp hnd
        have hwf : k.waiter = some f := hP.w.wb1 f (by rw [hQ]; simp)
        have hncb : ∀ f', K.futCb { k with batch := rest } f' ≠ .wakeup := by
          intro f' hf'
          have h1 := hP.w.c f' hf'
          rw [hwf] at h1
          injection h1 with h1
          subst h1
          exact hP.w.wc _ (by rw [hQ]; simp) hf'
        have hsig : ∀ sg0, (∀ m, k.futState f = .cancelled m → ∃ m', sg0 = Signal.cancelled m') →
            Flagged { k with batch := rest } → ∃ m, K.wakeSignal { k with batch := rest } sg0 = .cancelled m := by
          intro sg0 hsg hF
          rcases hP.g hF with hin | hs
          · rcases hin with hm | ⟨f1, m, hw, hst⟩
            · exact wakeSignal_must _ _ hm
            · rw [hwf] at hw
              injection hw with hw
              subst hw
              obtain ⟨m', hm'⟩ := hsg m hst
              rw [hm']
              exact wakeSignal_cancelled _ _
          · rw [hQ, safe_cons_wake _ _ rfl] at hs; cases hs
        split
        · rename_i m hst
          exact taskStep_R _ _ (hc.popWake _ rest hb rfl) hnd (wakes_after_pop k _ rest hb hP.w rfl) hncb
            (hsig _ (fun m' _ => ⟨m, rfl⟩))
        · rename_i hst
          exact taskStep_R _ _ (hc.popWake _ rest hb rfl) hnd (wakes_after_pop k _ rest hb hP.w rfl) hncb
            (hsig _ (fun m' hm' => absurd hm' (hst m')))
      · have : ∀ sg, K.taskStep { k with batch := rest } sg = { k with batch := rest } := by
          intro sg
          unfold K.taskStep
          cases hd : k.done with
          | none => exact absurd hd hnd
          | some r => simp [hd]
        split <;> (rw [this]; exact Or.inr ⟨hc.popWake _ rest hb rfl, fun hd => absurd hd hnd⟩)
    | deliver s =>
      simp only [K.runHandleCore]
      have h1 := pop_deliver k s rest hb hc
      have := deliverH_inv _ s h1.1 h1.2 (fun hnd => pop_deliver_Wake k _ rest hb (hp hnd).w rfl)
      exact Or.inr ⟨this.1, fun hnd => (this.2 (by simpa using hnd)).1⟩
    | timeoutCancel s =>
      simp only [K.runHandleCore]
      have h1 := pop_other_Core k _ rest hb hc rfl
      have hp1 : k.done = none → Parked { k with batch := rest } := fun hnd => pop_other_Parked k _ rest hb (hp hnd) rfl rfl
      have := scopeCancelH_inv _ s (h1.updScope_harmless s (fun x => { x with timeoutH := false }) (by intro x; rfl) (by intro x; rfl))
        (fun hnd => (hp1 (by simpa using hnd)).updScope s _)
      exact Or.inr ⟨this.1, fun hnd => this.2 (by simpa using hnd)⟩
    | sleepDone f =>
      simp only [K.runHandleCore]
      have h1 := pop_other_Core k _ rest hb hc rfl
      have hp1 : k.done = none → Parked { k with batch := rest } := fun hnd => pop_other_Parked k _ rest hb (hp hnd) rfl rfl
      exact Or.inr ⟨futSetResult_Core _ f h1, fun hnd => futSetResult_Parked _ f h1 (hp1 (by simpa using hnd))⟩
    | ext =>
      simp only [K.runHandleCore]
      have h1 := (pop_other_Core k _ rest hb hc rfl).emit (.ext k.now k.done.isSome)
      have hp1 : k.done = none → Parked (K.emit { k with batch := rest } (.ext k.now k.done.isSome)) := fun hnd =>
        (pop_other_Parked k _ rest hb (hp hnd) rfl rfl).mono rfl id (fun f => rfl) (fun f m hm => hm) rfl id rfl
      split
      · rename_i hd
        exact Or.inr ⟨h1, fun hnd => by rw [hnd] at hd; simp at hd⟩
      · rename_i hd
        have hnd : k.done = none := by simpa using hd
        have hc2 := taskCancel_Core _ none h1
        have hp2 := taskCancel_Parked _ none h1 (hp1 hnd).w (by simpa using hnd)
        refine Or.inr ⟨?_, fun _ => ?_⟩
        · exact hc2.mono hc2.sfF rfl (fun x hx => Or.inl hx) (fun s hs => hs) (fun p hp => Or.inl hp) rfl (fun s => rfl)
            (fun s hs => Or.inl hs) rfl hc2.cbs
        · exact hp2.1.mono rfl id (fun f => rfl) (fun f m hm => hm) rfl id rfl
    | delayedCancel m => simp [Handle.sf] at hxsf
    | delayedPop => simp [Handle.sf] at hxsf
    | innerDone f o => simp [Handle.sf] at hxsf

theorem runBatch_G2 (n : Nat) : ∀ k : K, Good2 k → Good2 (K.runBatch n k) := by
  induction n with
  | zero => intro k h; exact h
  | succ n ih =>
    intro k h
    unfold K.runBatch
    split
    · exact h
    · rename_i x rest hb
      rcases h with ⟨hcr, hbad⟩ | h
      · refine ih _ ?_
        have hcr' : K.done { k with batch := rest } = some .crash := hcr
        have : K.runHandle { k with batch := rest } x = { k with batch := rest } := by
          unfold K.runHandle; rw [if_pos hcr']
        rw [this]
        exact Or.inl ⟨hcr, hbad⟩
      · exact ih _ (runHandle_G2 k x rest hb h)

/-! ### turns and runs -/

theorem isTimer_spec (x : Handle) (h : x.isTimer = true) : x.sf = true ∧ x.isWake = false ∧ x.isDeliver = false := by
  cases x <;> simp_all [Handle.isTimer, Handle.sf, Handle.isWake, Handle.isDeliver]

theorem mem_of_mem_takeWhile' {α} (p : α → Bool) (l : List α) (x : α) (h : x ∈ l.takeWhile p) : x ∈ l := by
  induction l with
  | nil => simp at h
  | cons y ys ih =>
    simp only [List.takeWhile] at h
    split at h
    · rcases List.mem_cons.mp h with h | h
      · exact h ▸ List.mem_cons_self
      · exact List.mem_cons_of_mem _ (ih h)
    · simp at h

theorem mem_of_mem_dropWhile' {α} (p : α → Bool) (l : List α) (x : α) (h : x ∈ l.dropWhile p) : x ∈ l := by
  induction l with
  | nil => simp at h
  | cons y ys ih =>
    simp only [List.dropWhile] at h
    split at h
    · exact List.mem_cons_of_mem _ (ih h)
    · exact h

theorem mem_dueTimers (now : Nat) (ts : List (Nat × Int × Handle)) (x : Handle) (h : x ∈ dueTimers now ts) :
    ∃ p ∈ ts, p.2.2 = x := by
  unfold dueTimers at h
  simp only [List.mem_map] at h
  obtain ⟨p, hp, hx⟩ := h
  exact ⟨p, mem_of_mem_takeWhile' _ _ _ hp, hx⟩

theorem Q_beginTurn (k : K) : k.beginTurn.Q = k.Q ++ dueTimers k.turnNow k.timers := by
  simp [K.Q, K.beginTurn]

theorem beginTurn_PInv (k : K) (h : PInv k) : PInv k.beginTurn := by
  obtain ⟨hc, hp⟩ := h
  have hdue : ∀ x ∈ dueTimers k.turnNow k.timers, x.sf = true ∧ x.isWake = false ∧ x.isDeliver = false := by
    intro x hx
    obtain ⟨p, hp', hpx⟩ := mem_dueTimers _ _ _ hx
    exact isTimer_spec x (by rw [← hpx]; exact hc.sfT p hp')
  have hwk : wakes k.beginTurn.Q = wakes k.Q := by
    rw [Q_beginTurn, wakes_append]
    have : wakes (dueTimers k.turnNow k.timers) = [] := (wakes_nil_iff _).mpr (fun x hx => (hdue x hx).2.1)
    rw [this]; simp
  refine ⟨?_, fun hnd => ?_⟩
  · refine hc.mono hc.sfF rfl (fun x hx => ?_) (fun s hs => by rw [Q_beginTurn]; simp [hs])
      (fun p hp' => Or.inl (mem_of_mem_dropWhile' _ _ _ hp')) rfl (fun s => rfl) (fun s hs => Or.inl hs) rfl hc.cbs
    rw [Q_beginTurn] at hx
    rcases List.mem_append.mp hx with hx | hx
    · exact Or.inl hx
    · refine Or.inr ⟨(hdue x hx).1, fun s hs => ?_⟩
      have := (hdue x hx).2.2
      rw [hs] at this
      simp [Handle.isDeliver] at this
  · exact (hp hnd).mono hwk (fun hs => by rw [Q_beginTurn]; exact safe_append _ _ hs) (fun f => rfl) (fun f m hm => hm)
      rfl id rfl

theorem endTurn_PInv (k : K) (h : PInv k) : PInv k.endTurn :=
  ⟨h.1.mono h.1.sfF rfl (fun x hx => Or.inl hx) (fun s hs => hs) (fun p hp => Or.inl hp) rfl (fun s => rfl)
      (fun s hs => Or.inl hs) rfl h.1.cbs,
   fun hnd => (h.2 hnd).mono rfl id (fun f => rfl) (fun f m hm => hm) rfl id rfl⟩

theorem turn_G2 (k k' : K) (h : Good2 k) (ht : k.turn = some k') : Good2 k' := by
  unfold K.turn at ht
  split at ht
  · simp at ht
  · simp only [Option.some.injEq] at ht
    subst ht
    have h1 : Good2 k.beginTurn := by
      rcases h with ⟨hcr, hb⟩ | h
      · exact Or.inl ⟨hcr, hb⟩
      · exact Or.inr (beginTurn_PInv k h)
    rcases runBatch_G2 _ _ h1 with ⟨hcr, hb⟩ | h2
    · exact Or.inl ⟨hcr, hb⟩
    · exact Or.inr (endTurn_PInv _ h2)

theorem runTurns_G2 (n : Nat) : ∀ k : K, Good2 k → Good2 (K.runTurns n k).1 := by
  induction n with
  | zero => intro k h; exact h
  | succ n ih =>
    intro k h
    unfold K.runTurns
    split
    · exact h
    · split
      · exact h
      · rename_i k1 hk1
        exact ih _ (turn_G2 _ _ h hk1)

theorem addExt_PInv (extLast : Bool) (ext : List Nat) : ∀ k : K, PInv k → PInv (addExt extLast ext k) := by
  induction ext with
  | nil => intro k h; exact h
  | cons t ts ih =>
    intro k h
    refine ih _ ⟨h.1.callAt _ _ _ rfl, fun hnd => ?_⟩
    exact (h.2 (by simpa using hnd)).mono rfl id (fun f => rfl) (fun f m hm => hm) rfl id rfl

theorem init_PInv (prog : List Stmt) (ext : List Nat) (extLast fix : Bool) (hsf : Stmt.sfList prog = true) :
    PInv (K.init prog ext extLast fix) := by
  unfold K.init
  apply addExt_PInv
  refine ⟨⟨?_, ?_, ?_, rfl, ?_, ?_, ?_, ?_, ?_, rfl, ?_⟩, fun _ => ⟨⟨?_, ?_, ?_, ?_, ?_⟩, ?_⟩⟩
  · intro fr hfr
    simp only [K.callSoon, List.mem_singleton] at hfr
    subst hfr
    exact hsf
  · intro x hx; simp [K.Q, K.callSoon] at hx; subst hx; rfl
  · intro p hp; simp [K.callSoon] at hp
  · simp [K.callSoon, scopeIds]
  · intro s hs; simp [K.callSoon, scopeIds] at hs
  · intro s hs; simp [K.callSoon, scopeOf, defaultScope] at hs
  · intro s hs; simp [K.Q, K.callSoon] at hs
  · intro s hs; simp [K.callSoon, scopeIds] at hs
  · intro f o; simp [K.futCb, K.callSoon]
  · intro f hf; simp [K.Q, K.callSoon] at hf
  · intro _; rfl
  · intro f hf; simp [K.Q, K.callSoon] at hf
  · exact Nat.le_trans (List.length_filter_le _ _) (by simp [K.Q, K.callSoon])
  · intro f hf; simp [K.futCb, K.callSoon] at hf
  · intro hF
    obtain ⟨id, kd, fs, hF⟩ := hF
    simp [K.callSoon] at hF

/-- **no blocking operation started under a cancelled scope ever completes normally** (shield-free programs,
    every schedule of external cancels, every run length) -/
theorem run_not_bad (prog : List Stmt) (ext : List Nat) (extLast fix : Bool) (n : Nat) (hsf : Stmt.sfList prog = true) :
    (run prog ext extLast fix n).1.bad = false := by
  have := runTurns_G2 n _ (Or.inr (init_PInv prog ext extLast fix hsf))
  rcases this with ⟨_, hb⟩ | h
  · exact hb
  · exact h.1.nbad

end EasyNet.CS
