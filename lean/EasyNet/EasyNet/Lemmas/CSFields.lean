/-
  C13 — which fields of the machine state each operation of the model leaves alone (generated, mechanical).
  One `@[simp]` lemma per operation and untouched field.
-/
import EasyNet.Model.CancelScope
set_option linter.unusedSimpArgs false
set_option linter.unusedVariables false
namespace EasyNet.CS

@[simp] theorem emit_now (k : K) (e : Ev) : (k.emit e).now = k.now := by
  rfl

@[simp] theorem emit_ready (k : K) (e : Ev) : (k.emit e).ready = k.ready := by
  rfl

@[simp] theorem emit_batch (k : K) (e : Ev) : (k.emit e).batch = k.batch := by
  rfl

@[simp] theorem emit_timers (k : K) (e : Ev) : (k.emit e).timers = k.timers := by
  rfl

@[simp] theorem emit_futs (k : K) (e : Ev) : (k.emit e).futs = k.futs := by
  rfl

@[simp] theorem emit_mustCancel (k : K) (e : Ev) : (k.emit e).mustCancel = k.mustCancel := by
  rfl

@[simp] theorem emit_cancelMsg (k : K) (e : Ev) : (k.emit e).cancelMsg = k.cancelMsg := by
  rfl

@[simp] theorem emit_numCancels (k : K) (e : Ev) : (k.emit e).numCancels = k.numCancels := by
  rfl

@[simp] theorem emit_waiter (k : K) (e : Ev) : (k.emit e).waiter = k.waiter := by
  rfl

@[simp] theorem emit_done (k : K) (e : Ev) : (k.emit e).done = k.done := by
  rfl

@[simp] theorem emit_frames (k : K) (e : Ev) : (k.emit e).frames = k.frames := by
  rfl

@[simp] theorem emit_scopes (k : K) (e : Ev) : (k.emit e).scopes = k.scopes := by
  rfl

@[simp] theorem emit_delayed (k : K) (e : Ev) : (k.emit e).delayed = k.delayed := by
  rfl

@[simp] theorem emit_stepFuel (k : K) (e : Ev) : (k.emit e).stepFuel = k.stepFuel := by
  rfl

@[simp] theorem emit_fix (k : K) (e : Ev) : (k.emit e).fix = k.fix := by
  rfl

@[simp] theorem emit_extCount (k : K) (e : Ev) : (k.emit e).extCount = k.extCount := by
  rfl

@[simp] theorem emit_phantom (k : K) (e : Ev) : (k.emit e).phantom = k.phantom := by
  rfl

@[simp] theorem emit_bad (k : K) (e : Ev) : (k.emit e).bad = k.bad := by
  rfl

@[simp] theorem callSoon_now (k : K) (h : Handle) : (k.callSoon h).now = k.now := by
  rfl

@[simp] theorem callSoon_batch (k : K) (h : Handle) : (k.callSoon h).batch = k.batch := by
  rfl

@[simp] theorem callSoon_timers (k : K) (h : Handle) : (k.callSoon h).timers = k.timers := by
  rfl

@[simp] theorem callSoon_futs (k : K) (h : Handle) : (k.callSoon h).futs = k.futs := by
  rfl

@[simp] theorem callSoon_mustCancel (k : K) (h : Handle) : (k.callSoon h).mustCancel = k.mustCancel := by
  rfl

@[simp] theorem callSoon_cancelMsg (k : K) (h : Handle) : (k.callSoon h).cancelMsg = k.cancelMsg := by
  rfl

@[simp] theorem callSoon_numCancels (k : K) (h : Handle) : (k.callSoon h).numCancels = k.numCancels := by
  rfl

@[simp] theorem callSoon_waiter (k : K) (h : Handle) : (k.callSoon h).waiter = k.waiter := by
  rfl

@[simp] theorem callSoon_done (k : K) (h : Handle) : (k.callSoon h).done = k.done := by
  rfl

@[simp] theorem callSoon_frames (k : K) (h : Handle) : (k.callSoon h).frames = k.frames := by
  rfl

@[simp] theorem callSoon_scopes (k : K) (h : Handle) : (k.callSoon h).scopes = k.scopes := by
  rfl

@[simp] theorem callSoon_delayed (k : K) (h : Handle) : (k.callSoon h).delayed = k.delayed := by
  rfl

@[simp] theorem callSoon_stepFuel (k : K) (h : Handle) : (k.callSoon h).stepFuel = k.stepFuel := by
  rfl

@[simp] theorem callSoon_fix (k : K) (h : Handle) : (k.callSoon h).fix = k.fix := by
  rfl

@[simp] theorem callSoon_extCount (k : K) (h : Handle) : (k.callSoon h).extCount = k.extCount := by
  rfl

@[simp] theorem callSoon_phantom (k : K) (h : Handle) : (k.callSoon h).phantom = k.phantom := by
  rfl

@[simp] theorem callSoon_bad (k : K) (h : Handle) : (k.callSoon h).bad = k.bad := by
  rfl

@[simp] theorem callSoon_out (k : K) (h : Handle) : (k.callSoon h).out = k.out := by
  rfl

@[simp] theorem callAt_now (k : K) (w : Nat) (p : Int) (h : Handle) : (k.callAt w p h).now = k.now := by
  rfl

@[simp] theorem callAt_ready (k : K) (w : Nat) (p : Int) (h : Handle) : (k.callAt w p h).ready = k.ready := by
  rfl

@[simp] theorem callAt_batch (k : K) (w : Nat) (p : Int) (h : Handle) : (k.callAt w p h).batch = k.batch := by
  rfl

@[simp] theorem callAt_futs (k : K) (w : Nat) (p : Int) (h : Handle) : (k.callAt w p h).futs = k.futs := by
  rfl

@[simp] theorem callAt_mustCancel (k : K) (w : Nat) (p : Int) (h : Handle) : (k.callAt w p h).mustCancel = k.mustCancel := by
  rfl

@[simp] theorem callAt_cancelMsg (k : K) (w : Nat) (p : Int) (h : Handle) : (k.callAt w p h).cancelMsg = k.cancelMsg := by
  rfl

@[simp] theorem callAt_numCancels (k : K) (w : Nat) (p : Int) (h : Handle) : (k.callAt w p h).numCancels = k.numCancels := by
  rfl

@[simp] theorem callAt_waiter (k : K) (w : Nat) (p : Int) (h : Handle) : (k.callAt w p h).waiter = k.waiter := by
  rfl

@[simp] theorem callAt_done (k : K) (w : Nat) (p : Int) (h : Handle) : (k.callAt w p h).done = k.done := by
  rfl

@[simp] theorem callAt_frames (k : K) (w : Nat) (p : Int) (h : Handle) : (k.callAt w p h).frames = k.frames := by
  rfl

@[simp] theorem callAt_scopes (k : K) (w : Nat) (p : Int) (h : Handle) : (k.callAt w p h).scopes = k.scopes := by
  rfl

@[simp] theorem callAt_delayed (k : K) (w : Nat) (p : Int) (h : Handle) : (k.callAt w p h).delayed = k.delayed := by
  rfl

@[simp] theorem callAt_stepFuel (k : K) (w : Nat) (p : Int) (h : Handle) : (k.callAt w p h).stepFuel = k.stepFuel := by
  rfl

@[simp] theorem callAt_fix (k : K) (w : Nat) (p : Int) (h : Handle) : (k.callAt w p h).fix = k.fix := by
  rfl

@[simp] theorem callAt_extCount (k : K) (w : Nat) (p : Int) (h : Handle) : (k.callAt w p h).extCount = k.extCount := by
  rfl

@[simp] theorem callAt_phantom (k : K) (w : Nat) (p : Int) (h : Handle) : (k.callAt w p h).phantom = k.phantom := by
  rfl

@[simp] theorem callAt_bad (k : K) (w : Nat) (p : Int) (h : Handle) : (k.callAt w p h).bad = k.bad := by
  rfl

@[simp] theorem callAt_out (k : K) (w : Nat) (p : Int) (h : Handle) : (k.callAt w p h).out = k.out := by
  rfl

@[simp] theorem cancelHandle_now (k : K) (h : Handle) : (k.cancelHandle h).now = k.now := by
  rfl

@[simp] theorem cancelHandle_futs (k : K) (h : Handle) : (k.cancelHandle h).futs = k.futs := by
  rfl

@[simp] theorem cancelHandle_mustCancel (k : K) (h : Handle) : (k.cancelHandle h).mustCancel = k.mustCancel := by
  rfl

@[simp] theorem cancelHandle_cancelMsg (k : K) (h : Handle) : (k.cancelHandle h).cancelMsg = k.cancelMsg := by
  rfl

@[simp] theorem cancelHandle_numCancels (k : K) (h : Handle) : (k.cancelHandle h).numCancels = k.numCancels := by
  rfl

@[simp] theorem cancelHandle_waiter (k : K) (h : Handle) : (k.cancelHandle h).waiter = k.waiter := by
  rfl

@[simp] theorem cancelHandle_done (k : K) (h : Handle) : (k.cancelHandle h).done = k.done := by
  rfl

@[simp] theorem cancelHandle_frames (k : K) (h : Handle) : (k.cancelHandle h).frames = k.frames := by
  rfl

@[simp] theorem cancelHandle_scopes (k : K) (h : Handle) : (k.cancelHandle h).scopes = k.scopes := by
  rfl

@[simp] theorem cancelHandle_delayed (k : K) (h : Handle) : (k.cancelHandle h).delayed = k.delayed := by
  rfl

@[simp] theorem cancelHandle_stepFuel (k : K) (h : Handle) : (k.cancelHandle h).stepFuel = k.stepFuel := by
  rfl

@[simp] theorem cancelHandle_fix (k : K) (h : Handle) : (k.cancelHandle h).fix = k.fix := by
  rfl

@[simp] theorem cancelHandle_extCount (k : K) (h : Handle) : (k.cancelHandle h).extCount = k.extCount := by
  rfl

@[simp] theorem cancelHandle_phantom (k : K) (h : Handle) : (k.cancelHandle h).phantom = k.phantom := by
  rfl

@[simp] theorem cancelHandle_bad (k : K) (h : Handle) : (k.cancelHandle h).bad = k.bad := by
  rfl

@[simp] theorem cancelHandle_out (k : K) (h : Handle) : (k.cancelHandle h).out = k.out := by
  rfl

@[simp] theorem updFut_now (k : K) (f : Nat) (g : Fut → Fut) : (k.updFut f g).now = k.now := by
  rfl

@[simp] theorem updFut_ready (k : K) (f : Nat) (g : Fut → Fut) : (k.updFut f g).ready = k.ready := by
  rfl

@[simp] theorem updFut_batch (k : K) (f : Nat) (g : Fut → Fut) : (k.updFut f g).batch = k.batch := by
  rfl

@[simp] theorem updFut_timers (k : K) (f : Nat) (g : Fut → Fut) : (k.updFut f g).timers = k.timers := by
  rfl

@[simp] theorem updFut_mustCancel (k : K) (f : Nat) (g : Fut → Fut) : (k.updFut f g).mustCancel = k.mustCancel := by
  rfl

@[simp] theorem updFut_cancelMsg (k : K) (f : Nat) (g : Fut → Fut) : (k.updFut f g).cancelMsg = k.cancelMsg := by
  rfl

@[simp] theorem updFut_numCancels (k : K) (f : Nat) (g : Fut → Fut) : (k.updFut f g).numCancels = k.numCancels := by
  rfl

@[simp] theorem updFut_waiter (k : K) (f : Nat) (g : Fut → Fut) : (k.updFut f g).waiter = k.waiter := by
  rfl

@[simp] theorem updFut_done (k : K) (f : Nat) (g : Fut → Fut) : (k.updFut f g).done = k.done := by
  rfl

@[simp] theorem updFut_frames (k : K) (f : Nat) (g : Fut → Fut) : (k.updFut f g).frames = k.frames := by
  rfl

@[simp] theorem updFut_scopes (k : K) (f : Nat) (g : Fut → Fut) : (k.updFut f g).scopes = k.scopes := by
  rfl

@[simp] theorem updFut_delayed (k : K) (f : Nat) (g : Fut → Fut) : (k.updFut f g).delayed = k.delayed := by
  rfl

@[simp] theorem updFut_stepFuel (k : K) (f : Nat) (g : Fut → Fut) : (k.updFut f g).stepFuel = k.stepFuel := by
  rfl

@[simp] theorem updFut_fix (k : K) (f : Nat) (g : Fut → Fut) : (k.updFut f g).fix = k.fix := by
  rfl

@[simp] theorem updFut_extCount (k : K) (f : Nat) (g : Fut → Fut) : (k.updFut f g).extCount = k.extCount := by
  rfl

@[simp] theorem updFut_phantom (k : K) (f : Nat) (g : Fut → Fut) : (k.updFut f g).phantom = k.phantom := by
  rfl

@[simp] theorem updFut_bad (k : K) (f : Nat) (g : Fut → Fut) : (k.updFut f g).bad = k.bad := by
  rfl

@[simp] theorem updFut_out (k : K) (f : Nat) (g : Fut → Fut) : (k.updFut f g).out = k.out := by
  rfl

@[simp] theorem newFut_now (k : K) : (k.newFut).now = k.now := by
  rfl

@[simp] theorem newFut_ready (k : K) : (k.newFut).ready = k.ready := by
  rfl

@[simp] theorem newFut_batch (k : K) : (k.newFut).batch = k.batch := by
  rfl

@[simp] theorem newFut_timers (k : K) : (k.newFut).timers = k.timers := by
  rfl

@[simp] theorem newFut_mustCancel (k : K) : (k.newFut).mustCancel = k.mustCancel := by
  rfl

@[simp] theorem newFut_cancelMsg (k : K) : (k.newFut).cancelMsg = k.cancelMsg := by
  rfl

@[simp] theorem newFut_numCancels (k : K) : (k.newFut).numCancels = k.numCancels := by
  rfl

@[simp] theorem newFut_waiter (k : K) : (k.newFut).waiter = k.waiter := by
  rfl

@[simp] theorem newFut_done (k : K) : (k.newFut).done = k.done := by
  rfl

@[simp] theorem newFut_frames (k : K) : (k.newFut).frames = k.frames := by
  rfl

@[simp] theorem newFut_scopes (k : K) : (k.newFut).scopes = k.scopes := by
  rfl

@[simp] theorem newFut_delayed (k : K) : (k.newFut).delayed = k.delayed := by
  rfl

@[simp] theorem newFut_stepFuel (k : K) : (k.newFut).stepFuel = k.stepFuel := by
  rfl

@[simp] theorem newFut_fix (k : K) : (k.newFut).fix = k.fix := by
  rfl

@[simp] theorem newFut_extCount (k : K) : (k.newFut).extCount = k.extCount := by
  rfl

@[simp] theorem newFut_phantom (k : K) : (k.newFut).phantom = k.phantom := by
  rfl

@[simp] theorem newFut_bad (k : K) : (k.newFut).bad = k.bad := by
  rfl

@[simp] theorem newFut_out (k : K) : (k.newFut).out = k.out := by
  rfl

@[simp] theorem push_now (k : K) (f : Frame) : (k.push f).now = k.now := by
  rfl

@[simp] theorem push_ready (k : K) (f : Frame) : (k.push f).ready = k.ready := by
  rfl

@[simp] theorem push_batch (k : K) (f : Frame) : (k.push f).batch = k.batch := by
  rfl

@[simp] theorem push_timers (k : K) (f : Frame) : (k.push f).timers = k.timers := by
  rfl

@[simp] theorem push_futs (k : K) (f : Frame) : (k.push f).futs = k.futs := by
  rfl

@[simp] theorem push_mustCancel (k : K) (f : Frame) : (k.push f).mustCancel = k.mustCancel := by
  rfl

@[simp] theorem push_cancelMsg (k : K) (f : Frame) : (k.push f).cancelMsg = k.cancelMsg := by
  rfl

@[simp] theorem push_numCancels (k : K) (f : Frame) : (k.push f).numCancels = k.numCancels := by
  rfl

@[simp] theorem push_waiter (k : K) (f : Frame) : (k.push f).waiter = k.waiter := by
  rfl

@[simp] theorem push_done (k : K) (f : Frame) : (k.push f).done = k.done := by
  rfl

@[simp] theorem push_scopes (k : K) (f : Frame) : (k.push f).scopes = k.scopes := by
  rfl

@[simp] theorem push_delayed (k : K) (f : Frame) : (k.push f).delayed = k.delayed := by
  rfl

@[simp] theorem push_stepFuel (k : K) (f : Frame) : (k.push f).stepFuel = k.stepFuel := by
  rfl

@[simp] theorem push_fix (k : K) (f : Frame) : (k.push f).fix = k.fix := by
  rfl

@[simp] theorem push_extCount (k : K) (f : Frame) : (k.push f).extCount = k.extCount := by
  rfl

@[simp] theorem push_phantom (k : K) (f : Frame) : (k.push f).phantom = k.phantom := by
  rfl

@[simp] theorem push_bad (k : K) (f : Frame) : (k.push f).bad = k.bad := by
  rfl

@[simp] theorem push_out (k : K) (f : Frame) : (k.push f).out = k.out := by
  rfl

@[simp] theorem pop_now (k : K) : (k.pop).now = k.now := by
  rfl

@[simp] theorem pop_ready (k : K) : (k.pop).ready = k.ready := by
  rfl

@[simp] theorem pop_batch (k : K) : (k.pop).batch = k.batch := by
  rfl

@[simp] theorem pop_timers (k : K) : (k.pop).timers = k.timers := by
  rfl

@[simp] theorem pop_futs (k : K) : (k.pop).futs = k.futs := by
  rfl

@[simp] theorem pop_mustCancel (k : K) : (k.pop).mustCancel = k.mustCancel := by
  rfl

@[simp] theorem pop_cancelMsg (k : K) : (k.pop).cancelMsg = k.cancelMsg := by
  rfl

@[simp] theorem pop_numCancels (k : K) : (k.pop).numCancels = k.numCancels := by
  rfl

@[simp] theorem pop_waiter (k : K) : (k.pop).waiter = k.waiter := by
  rfl

@[simp] theorem pop_done (k : K) : (k.pop).done = k.done := by
  rfl

@[simp] theorem pop_scopes (k : K) : (k.pop).scopes = k.scopes := by
  rfl

@[simp] theorem pop_delayed (k : K) : (k.pop).delayed = k.delayed := by
  rfl

@[simp] theorem pop_stepFuel (k : K) : (k.pop).stepFuel = k.stepFuel := by
  rfl

@[simp] theorem pop_fix (k : K) : (k.pop).fix = k.fix := by
  rfl

@[simp] theorem pop_extCount (k : K) : (k.pop).extCount = k.extCount := by
  rfl

@[simp] theorem pop_phantom (k : K) : (k.pop).phantom = k.phantom := by
  rfl

@[simp] theorem pop_bad (k : K) : (k.pop).bad = k.bad := by
  rfl

@[simp] theorem pop_out (k : K) : (k.pop).out = k.out := by
  rfl

@[simp] theorem updScope_now (k : K) (s : Nat) (g : Scope → Scope) : (k.updScope s g).now = k.now := by
  rfl

@[simp] theorem updScope_ready (k : K) (s : Nat) (g : Scope → Scope) : (k.updScope s g).ready = k.ready := by
  rfl

@[simp] theorem updScope_batch (k : K) (s : Nat) (g : Scope → Scope) : (k.updScope s g).batch = k.batch := by
  rfl

@[simp] theorem updScope_timers (k : K) (s : Nat) (g : Scope → Scope) : (k.updScope s g).timers = k.timers := by
  rfl

@[simp] theorem updScope_futs (k : K) (s : Nat) (g : Scope → Scope) : (k.updScope s g).futs = k.futs := by
  rfl

@[simp] theorem updScope_mustCancel (k : K) (s : Nat) (g : Scope → Scope) : (k.updScope s g).mustCancel = k.mustCancel := by
  rfl

@[simp] theorem updScope_cancelMsg (k : K) (s : Nat) (g : Scope → Scope) : (k.updScope s g).cancelMsg = k.cancelMsg := by
  rfl

@[simp] theorem updScope_numCancels (k : K) (s : Nat) (g : Scope → Scope) : (k.updScope s g).numCancels = k.numCancels := by
  rfl

@[simp] theorem updScope_waiter (k : K) (s : Nat) (g : Scope → Scope) : (k.updScope s g).waiter = k.waiter := by
  rfl

@[simp] theorem updScope_done (k : K) (s : Nat) (g : Scope → Scope) : (k.updScope s g).done = k.done := by
  rfl

@[simp] theorem updScope_frames (k : K) (s : Nat) (g : Scope → Scope) : (k.updScope s g).frames = k.frames := by
  rfl

@[simp] theorem updScope_delayed (k : K) (s : Nat) (g : Scope → Scope) : (k.updScope s g).delayed = k.delayed := by
  rfl

@[simp] theorem updScope_stepFuel (k : K) (s : Nat) (g : Scope → Scope) : (k.updScope s g).stepFuel = k.stepFuel := by
  rfl

@[simp] theorem updScope_fix (k : K) (s : Nat) (g : Scope → Scope) : (k.updScope s g).fix = k.fix := by
  rfl

@[simp] theorem updScope_extCount (k : K) (s : Nat) (g : Scope → Scope) : (k.updScope s g).extCount = k.extCount := by
  rfl

@[simp] theorem updScope_phantom (k : K) (s : Nat) (g : Scope → Scope) : (k.updScope s g).phantom = k.phantom := by
  rfl

@[simp] theorem updScope_bad (k : K) (s : Nat) (g : Scope → Scope) : (k.updScope s g).bad = k.bad := by
  rfl

@[simp] theorem updScope_out (k : K) (s : Nat) (g : Scope → Scope) : (k.updScope s g).out = k.out := by
  rfl

@[simp] theorem taskUncancel_now (k : K) : (k.taskUncancel).now = k.now := by
  rfl

@[simp] theorem taskUncancel_ready (k : K) : (k.taskUncancel).ready = k.ready := by
  rfl

@[simp] theorem taskUncancel_batch (k : K) : (k.taskUncancel).batch = k.batch := by
  rfl

@[simp] theorem taskUncancel_timers (k : K) : (k.taskUncancel).timers = k.timers := by
  rfl

@[simp] theorem taskUncancel_futs (k : K) : (k.taskUncancel).futs = k.futs := by
  rfl

@[simp] theorem taskUncancel_mustCancel (k : K) : (k.taskUncancel).mustCancel = k.mustCancel := by
  rfl

@[simp] theorem taskUncancel_cancelMsg (k : K) : (k.taskUncancel).cancelMsg = k.cancelMsg := by
  rfl

@[simp] theorem taskUncancel_waiter (k : K) : (k.taskUncancel).waiter = k.waiter := by
  rfl

@[simp] theorem taskUncancel_done (k : K) : (k.taskUncancel).done = k.done := by
  rfl

@[simp] theorem taskUncancel_frames (k : K) : (k.taskUncancel).frames = k.frames := by
  rfl

@[simp] theorem taskUncancel_scopes (k : K) : (k.taskUncancel).scopes = k.scopes := by
  rfl

@[simp] theorem taskUncancel_delayed (k : K) : (k.taskUncancel).delayed = k.delayed := by
  rfl

@[simp] theorem taskUncancel_stepFuel (k : K) : (k.taskUncancel).stepFuel = k.stepFuel := by
  rfl

@[simp] theorem taskUncancel_fix (k : K) : (k.taskUncancel).fix = k.fix := by
  rfl

@[simp] theorem taskUncancel_extCount (k : K) : (k.taskUncancel).extCount = k.extCount := by
  rfl

@[simp] theorem taskUncancel_phantom (k : K) : (k.taskUncancel).phantom = k.phantom := by
  rfl

@[simp] theorem taskUncancel_bad (k : K) : (k.taskUncancel).bad = k.bad := by
  rfl

@[simp] theorem taskUncancel_out (k : K) : (k.taskUncancel).out = k.out := by
  rfl

@[simp] theorem scheduleCb_now (k : K) (f : Nat) : (k.scheduleCb f).now = k.now := by
  unfold K.scheduleCb; split <;> simp

@[simp] theorem scheduleCb_batch (k : K) (f : Nat) : (k.scheduleCb f).batch = k.batch := by
  unfold K.scheduleCb; split <;> simp

@[simp] theorem scheduleCb_timers (k : K) (f : Nat) : (k.scheduleCb f).timers = k.timers := by
  unfold K.scheduleCb; split <;> simp

@[simp] theorem scheduleCb_mustCancel (k : K) (f : Nat) : (k.scheduleCb f).mustCancel = k.mustCancel := by
  unfold K.scheduleCb; split <;> simp

@[simp] theorem scheduleCb_cancelMsg (k : K) (f : Nat) : (k.scheduleCb f).cancelMsg = k.cancelMsg := by
  unfold K.scheduleCb; split <;> simp

@[simp] theorem scheduleCb_numCancels (k : K) (f : Nat) : (k.scheduleCb f).numCancels = k.numCancels := by
  unfold K.scheduleCb; split <;> simp

@[simp] theorem scheduleCb_waiter (k : K) (f : Nat) : (k.scheduleCb f).waiter = k.waiter := by
  unfold K.scheduleCb; split <;> simp

@[simp] theorem scheduleCb_done (k : K) (f : Nat) : (k.scheduleCb f).done = k.done := by
  unfold K.scheduleCb; split <;> simp

@[simp] theorem scheduleCb_frames (k : K) (f : Nat) : (k.scheduleCb f).frames = k.frames := by
  unfold K.scheduleCb; split <;> simp

@[simp] theorem scheduleCb_scopes (k : K) (f : Nat) : (k.scheduleCb f).scopes = k.scopes := by
  unfold K.scheduleCb; split <;> simp

@[simp] theorem scheduleCb_delayed (k : K) (f : Nat) : (k.scheduleCb f).delayed = k.delayed := by
  unfold K.scheduleCb; split <;> simp

@[simp] theorem scheduleCb_stepFuel (k : K) (f : Nat) : (k.scheduleCb f).stepFuel = k.stepFuel := by
  unfold K.scheduleCb; split <;> simp

@[simp] theorem scheduleCb_fix (k : K) (f : Nat) : (k.scheduleCb f).fix = k.fix := by
  unfold K.scheduleCb; split <;> simp

@[simp] theorem scheduleCb_extCount (k : K) (f : Nat) : (k.scheduleCb f).extCount = k.extCount := by
  unfold K.scheduleCb; split <;> simp

@[simp] theorem scheduleCb_phantom (k : K) (f : Nat) : (k.scheduleCb f).phantom = k.phantom := by
  unfold K.scheduleCb; split <;> simp

@[simp] theorem scheduleCb_bad (k : K) (f : Nat) : (k.scheduleCb f).bad = k.bad := by
  unfold K.scheduleCb; split <;> simp

@[simp] theorem scheduleCb_out (k : K) (f : Nat) : (k.scheduleCb f).out = k.out := by
  unfold K.scheduleCb; split <;> simp

@[simp] theorem futCancel_now (k : K) (f : Nat) (m : Msg) : ((k.futCancel f m).1).now = k.now := by
  unfold K.futCancel; split <;> simp

@[simp] theorem futCancel_batch (k : K) (f : Nat) (m : Msg) : ((k.futCancel f m).1).batch = k.batch := by
  unfold K.futCancel; split <;> simp

@[simp] theorem futCancel_timers (k : K) (f : Nat) (m : Msg) : ((k.futCancel f m).1).timers = k.timers := by
  unfold K.futCancel; split <;> simp

@[simp] theorem futCancel_mustCancel (k : K) (f : Nat) (m : Msg) : ((k.futCancel f m).1).mustCancel = k.mustCancel := by
  unfold K.futCancel; split <;> simp

@[simp] theorem futCancel_cancelMsg (k : K) (f : Nat) (m : Msg) : ((k.futCancel f m).1).cancelMsg = k.cancelMsg := by
  unfold K.futCancel; split <;> simp

@[simp] theorem futCancel_numCancels (k : K) (f : Nat) (m : Msg) : ((k.futCancel f m).1).numCancels = k.numCancels := by
  unfold K.futCancel; split <;> simp

@[simp] theorem futCancel_waiter (k : K) (f : Nat) (m : Msg) : ((k.futCancel f m).1).waiter = k.waiter := by
  unfold K.futCancel; split <;> simp

@[simp] theorem futCancel_done (k : K) (f : Nat) (m : Msg) : ((k.futCancel f m).1).done = k.done := by
  unfold K.futCancel; split <;> simp

@[simp] theorem futCancel_frames (k : K) (f : Nat) (m : Msg) : ((k.futCancel f m).1).frames = k.frames := by
  unfold K.futCancel; split <;> simp

@[simp] theorem futCancel_scopes (k : K) (f : Nat) (m : Msg) : ((k.futCancel f m).1).scopes = k.scopes := by
  unfold K.futCancel; split <;> simp

@[simp] theorem futCancel_delayed (k : K) (f : Nat) (m : Msg) : ((k.futCancel f m).1).delayed = k.delayed := by
  unfold K.futCancel; split <;> simp

@[simp] theorem futCancel_stepFuel (k : K) (f : Nat) (m : Msg) : ((k.futCancel f m).1).stepFuel = k.stepFuel := by
  unfold K.futCancel; split <;> simp

@[simp] theorem futCancel_fix (k : K) (f : Nat) (m : Msg) : ((k.futCancel f m).1).fix = k.fix := by
  unfold K.futCancel; split <;> simp

@[simp] theorem futCancel_extCount (k : K) (f : Nat) (m : Msg) : ((k.futCancel f m).1).extCount = k.extCount := by
  unfold K.futCancel; split <;> simp

@[simp] theorem futCancel_phantom (k : K) (f : Nat) (m : Msg) : ((k.futCancel f m).1).phantom = k.phantom := by
  unfold K.futCancel; split <;> simp

@[simp] theorem futCancel_bad (k : K) (f : Nat) (m : Msg) : ((k.futCancel f m).1).bad = k.bad := by
  unfold K.futCancel; split <;> simp

@[simp] theorem futCancel_out (k : K) (f : Nat) (m : Msg) : ((k.futCancel f m).1).out = k.out := by
  unfold K.futCancel; split <;> simp

@[simp] theorem futSetResult_now (k : K) (f : Nat) : (k.futSetResult f).now = k.now := by
  unfold K.futSetResult; split <;> simp

@[simp] theorem futSetResult_batch (k : K) (f : Nat) : (k.futSetResult f).batch = k.batch := by
  unfold K.futSetResult; split <;> simp

@[simp] theorem futSetResult_timers (k : K) (f : Nat) : (k.futSetResult f).timers = k.timers := by
  unfold K.futSetResult; split <;> simp

@[simp] theorem futSetResult_mustCancel (k : K) (f : Nat) : (k.futSetResult f).mustCancel = k.mustCancel := by
  unfold K.futSetResult; split <;> simp

@[simp] theorem futSetResult_cancelMsg (k : K) (f : Nat) : (k.futSetResult f).cancelMsg = k.cancelMsg := by
  unfold K.futSetResult; split <;> simp

@[simp] theorem futSetResult_numCancels (k : K) (f : Nat) : (k.futSetResult f).numCancels = k.numCancels := by
  unfold K.futSetResult; split <;> simp

@[simp] theorem futSetResult_waiter (k : K) (f : Nat) : (k.futSetResult f).waiter = k.waiter := by
  unfold K.futSetResult; split <;> simp

@[simp] theorem futSetResult_done (k : K) (f : Nat) : (k.futSetResult f).done = k.done := by
  unfold K.futSetResult; split <;> simp

@[simp] theorem futSetResult_frames (k : K) (f : Nat) : (k.futSetResult f).frames = k.frames := by
  unfold K.futSetResult; split <;> simp

@[simp] theorem futSetResult_scopes (k : K) (f : Nat) : (k.futSetResult f).scopes = k.scopes := by
  unfold K.futSetResult; split <;> simp

@[simp] theorem futSetResult_delayed (k : K) (f : Nat) : (k.futSetResult f).delayed = k.delayed := by
  unfold K.futSetResult; split <;> simp

@[simp] theorem futSetResult_stepFuel (k : K) (f : Nat) : (k.futSetResult f).stepFuel = k.stepFuel := by
  unfold K.futSetResult; split <;> simp

@[simp] theorem futSetResult_fix (k : K) (f : Nat) : (k.futSetResult f).fix = k.fix := by
  unfold K.futSetResult; split <;> simp

@[simp] theorem futSetResult_extCount (k : K) (f : Nat) : (k.futSetResult f).extCount = k.extCount := by
  unfold K.futSetResult; split <;> simp

@[simp] theorem futSetResult_phantom (k : K) (f : Nat) : (k.futSetResult f).phantom = k.phantom := by
  unfold K.futSetResult; split <;> simp

@[simp] theorem futSetResult_bad (k : K) (f : Nat) : (k.futSetResult f).bad = k.bad := by
  unfold K.futSetResult; split <;> simp

@[simp] theorem futSetResult_out (k : K) (f : Nat) : (k.futSetResult f).out = k.out := by
  unfold K.futSetResult; split <;> simp

@[simp] theorem taskCancel_now (k : K) (m : Msg) : (k.taskCancel m).now = k.now := by
  unfold K.taskCancel; (repeat' split) <;> simp

@[simp] theorem taskCancel_batch (k : K) (m : Msg) : (k.taskCancel m).batch = k.batch := by
  unfold K.taskCancel; (repeat' split) <;> simp

@[simp] theorem taskCancel_timers (k : K) (m : Msg) : (k.taskCancel m).timers = k.timers := by
  unfold K.taskCancel; (repeat' split) <;> simp

@[simp] theorem taskCancel_waiter (k : K) (m : Msg) : (k.taskCancel m).waiter = k.waiter := by
  unfold K.taskCancel; (repeat' split) <;> simp

@[simp] theorem taskCancel_done (k : K) (m : Msg) : (k.taskCancel m).done = k.done := by
  unfold K.taskCancel; (repeat' split) <;> simp

@[simp] theorem taskCancel_frames (k : K) (m : Msg) : (k.taskCancel m).frames = k.frames := by
  unfold K.taskCancel; (repeat' split) <;> simp

@[simp] theorem taskCancel_scopes (k : K) (m : Msg) : (k.taskCancel m).scopes = k.scopes := by
  unfold K.taskCancel; (repeat' split) <;> simp

@[simp] theorem taskCancel_delayed (k : K) (m : Msg) : (k.taskCancel m).delayed = k.delayed := by
  unfold K.taskCancel; (repeat' split) <;> simp

@[simp] theorem taskCancel_stepFuel (k : K) (m : Msg) : (k.taskCancel m).stepFuel = k.stepFuel := by
  unfold K.taskCancel; (repeat' split) <;> simp

@[simp] theorem taskCancel_fix (k : K) (m : Msg) : (k.taskCancel m).fix = k.fix := by
  unfold K.taskCancel; (repeat' split) <;> simp

@[simp] theorem taskCancel_extCount (k : K) (m : Msg) : (k.taskCancel m).extCount = k.extCount := by
  unfold K.taskCancel; (repeat' split) <;> simp

@[simp] theorem taskCancel_phantom (k : K) (m : Msg) : (k.taskCancel m).phantom = k.phantom := by
  unfold K.taskCancel; (repeat' split) <;> simp

@[simp] theorem taskCancel_bad (k : K) (m : Msg) : (k.taskCancel m).bad = k.bad := by
  unfold K.taskCancel; (repeat' split) <;> simp

@[simp] theorem taskCancel_out (k : K) (m : Msg) : (k.taskCancel m).out = k.out := by
  unfold K.taskCancel; (repeat' split) <;> simp

@[simp] theorem deliver_now (k : K) (s : Nat) (cur : Bool) : (k.deliver s cur).now = k.now := by
  unfold K.deliver; (repeat' split) <;> simp

@[simp] theorem deliver_batch (k : K) (s : Nat) (cur : Bool) : (k.deliver s cur).batch = k.batch := by
  unfold K.deliver; (repeat' split) <;> simp

@[simp] theorem deliver_timers (k : K) (s : Nat) (cur : Bool) : (k.deliver s cur).timers = k.timers := by
  unfold K.deliver; (repeat' split) <;> simp

@[simp] theorem deliver_waiter (k : K) (s : Nat) (cur : Bool) : (k.deliver s cur).waiter = k.waiter := by
  unfold K.deliver; (repeat' split) <;> simp

@[simp] theorem deliver_done (k : K) (s : Nat) (cur : Bool) : (k.deliver s cur).done = k.done := by
  unfold K.deliver; (repeat' split) <;> simp

@[simp] theorem deliver_frames (k : K) (s : Nat) (cur : Bool) : (k.deliver s cur).frames = k.frames := by
  unfold K.deliver; (repeat' split) <;> simp

@[simp] theorem deliver_delayed (k : K) (s : Nat) (cur : Bool) : (k.deliver s cur).delayed = k.delayed := by
  unfold K.deliver; (repeat' split) <;> simp

@[simp] theorem deliver_stepFuel (k : K) (s : Nat) (cur : Bool) : (k.deliver s cur).stepFuel = k.stepFuel := by
  unfold K.deliver; (repeat' split) <;> simp

@[simp] theorem deliver_fix (k : K) (s : Nat) (cur : Bool) : (k.deliver s cur).fix = k.fix := by
  unfold K.deliver; (repeat' split) <;> simp

@[simp] theorem deliver_extCount (k : K) (s : Nat) (cur : Bool) : (k.deliver s cur).extCount = k.extCount := by
  unfold K.deliver; (repeat' split) <;> simp

@[simp] theorem deliver_phantom (k : K) (s : Nat) (cur : Bool) : (k.deliver s cur).phantom = k.phantom := by
  unfold K.deliver; (repeat' split) <;> simp

@[simp] theorem deliver_bad (k : K) (s : Nat) (cur : Bool) : (k.deliver s cur).bad = k.bad := by
  unfold K.deliver; (repeat' split) <;> simp

@[simp] theorem deliver_out (k : K) (s : Nat) (cur : Bool) : (k.deliver s cur).out = k.out := by
  unfold K.deliver; (repeat' split) <;> simp

@[simp] theorem scopeCancel_now (k : K) (s : Nat) (cur : Bool) : (k.scopeCancel s cur).now = k.now := by
  unfold K.scopeCancel; split <;> simp

@[simp] theorem scopeCancel_waiter (k : K) (s : Nat) (cur : Bool) : (k.scopeCancel s cur).waiter = k.waiter := by
  unfold K.scopeCancel; split <;> simp

@[simp] theorem scopeCancel_done (k : K) (s : Nat) (cur : Bool) : (k.scopeCancel s cur).done = k.done := by
  unfold K.scopeCancel; split <;> simp

@[simp] theorem scopeCancel_frames (k : K) (s : Nat) (cur : Bool) : (k.scopeCancel s cur).frames = k.frames := by
  unfold K.scopeCancel; split <;> simp

@[simp] theorem scopeCancel_delayed (k : K) (s : Nat) (cur : Bool) : (k.scopeCancel s cur).delayed = k.delayed := by
  unfold K.scopeCancel; split <;> simp

@[simp] theorem scopeCancel_stepFuel (k : K) (s : Nat) (cur : Bool) : (k.scopeCancel s cur).stepFuel = k.stepFuel := by
  unfold K.scopeCancel; split <;> simp

@[simp] theorem scopeCancel_fix (k : K) (s : Nat) (cur : Bool) : (k.scopeCancel s cur).fix = k.fix := by
  unfold K.scopeCancel; split <;> simp

@[simp] theorem scopeCancel_extCount (k : K) (s : Nat) (cur : Bool) : (k.scopeCancel s cur).extCount = k.extCount := by
  unfold K.scopeCancel; split <;> simp

@[simp] theorem scopeCancel_phantom (k : K) (s : Nat) (cur : Bool) : (k.scopeCancel s cur).phantom = k.phantom := by
  unfold K.scopeCancel; split <;> simp

@[simp] theorem scopeCancel_bad (k : K) (s : Nat) (cur : Bool) : (k.scopeCancel s cur).bad = k.bad := by
  unfold K.scopeCancel; split <;> simp

@[simp] theorem scopeCancel_out (k : K) (s : Nat) (cur : Bool) : (k.scopeCancel s cur).out = k.out := by
  unfold K.scopeCancel; split <;> simp

@[simp] theorem setupTimeout_now (k : K) (s : Nat) (cur : Bool) : (k.setupTimeout s cur).now = k.now := by
  unfold K.setupTimeout; (repeat' split) <;> simp

@[simp] theorem setupTimeout_waiter (k : K) (s : Nat) (cur : Bool) : (k.setupTimeout s cur).waiter = k.waiter := by
  unfold K.setupTimeout; (repeat' split) <;> simp

@[simp] theorem setupTimeout_done (k : K) (s : Nat) (cur : Bool) : (k.setupTimeout s cur).done = k.done := by
  unfold K.setupTimeout; (repeat' split) <;> simp

@[simp] theorem setupTimeout_frames (k : K) (s : Nat) (cur : Bool) : (k.setupTimeout s cur).frames = k.frames := by
  unfold K.setupTimeout; (repeat' split) <;> simp

@[simp] theorem setupTimeout_delayed (k : K) (s : Nat) (cur : Bool) : (k.setupTimeout s cur).delayed = k.delayed := by
  unfold K.setupTimeout; (repeat' split) <;> simp

@[simp] theorem setupTimeout_stepFuel (k : K) (s : Nat) (cur : Bool) : (k.setupTimeout s cur).stepFuel = k.stepFuel := by
  unfold K.setupTimeout; (repeat' split) <;> simp

@[simp] theorem setupTimeout_fix (k : K) (s : Nat) (cur : Bool) : (k.setupTimeout s cur).fix = k.fix := by
  unfold K.setupTimeout; (repeat' split) <;> simp

@[simp] theorem setupTimeout_extCount (k : K) (s : Nat) (cur : Bool) : (k.setupTimeout s cur).extCount = k.extCount := by
  unfold K.setupTimeout; (repeat' split) <;> simp

@[simp] theorem setupTimeout_phantom (k : K) (s : Nat) (cur : Bool) : (k.setupTimeout s cur).phantom = k.phantom := by
  unfold K.setupTimeout; (repeat' split) <;> simp

@[simp] theorem setupTimeout_bad (k : K) (s : Nat) (cur : Bool) : (k.setupTimeout s cur).bad = k.bad := by
  unfold K.setupTimeout; (repeat' split) <;> simp

@[simp] theorem setupTimeout_out (k : K) (s : Nat) (cur : Bool) : (k.setupTimeout s cur).out = k.out := by
  unfold K.setupTimeout; (repeat' split) <;> simp

@[simp] theorem reschedule_now (k : K) (s : Nat) (w : Option Nat) (cur : Bool) : (k.reschedule s w cur).now = k.now := by
  unfold K.reschedule; split <;> simp

@[simp] theorem reschedule_waiter (k : K) (s : Nat) (w : Option Nat) (cur : Bool) : (k.reschedule s w cur).waiter = k.waiter := by
  unfold K.reschedule; split <;> simp

@[simp] theorem reschedule_done (k : K) (s : Nat) (w : Option Nat) (cur : Bool) : (k.reschedule s w cur).done = k.done := by
  unfold K.reschedule; split <;> simp

@[simp] theorem reschedule_frames (k : K) (s : Nat) (w : Option Nat) (cur : Bool) : (k.reschedule s w cur).frames = k.frames := by
  unfold K.reschedule; split <;> simp

@[simp] theorem reschedule_delayed (k : K) (s : Nat) (w : Option Nat) (cur : Bool) : (k.reschedule s w cur).delayed = k.delayed := by
  unfold K.reschedule; split <;> simp

@[simp] theorem reschedule_stepFuel (k : K) (s : Nat) (w : Option Nat) (cur : Bool) : (k.reschedule s w cur).stepFuel = k.stepFuel := by
  unfold K.reschedule; split <;> simp

@[simp] theorem reschedule_fix (k : K) (s : Nat) (w : Option Nat) (cur : Bool) : (k.reschedule s w cur).fix = k.fix := by
  unfold K.reschedule; split <;> simp

@[simp] theorem reschedule_extCount (k : K) (s : Nat) (w : Option Nat) (cur : Bool) : (k.reschedule s w cur).extCount = k.extCount := by
  unfold K.reschedule; split <;> simp

@[simp] theorem reschedule_phantom (k : K) (s : Nat) (w : Option Nat) (cur : Bool) : (k.reschedule s w cur).phantom = k.phantom := by
  unfold K.reschedule; split <;> simp

@[simp] theorem reschedule_bad (k : K) (s : Nat) (w : Option Nat) (cur : Bool) : (k.reschedule s w cur).bad = k.bad := by
  unfold K.reschedule; split <;> simp

@[simp] theorem reschedule_out (k : K) (s : Nat) (w : Option Nat) (cur : Bool) : (k.reschedule s w cur).out = k.out := by
  unfold K.reschedule; split <;> simp

@[simp] theorem checkPendingFrom_now (k : K) (l : List Nat) : (k.checkPendingFrom l).now = k.now := by
  induction l with
  | nil => rfl
  | cons p ps ih => unfold K.checkPendingFrom; (repeat' split) <;> simp [ih]

@[simp] theorem checkPendingFrom_batch (k : K) (l : List Nat) : (k.checkPendingFrom l).batch = k.batch := by
  induction l with
  | nil => rfl
  | cons p ps ih => unfold K.checkPendingFrom; (repeat' split) <;> simp [ih]

@[simp] theorem checkPendingFrom_timers (k : K) (l : List Nat) : (k.checkPendingFrom l).timers = k.timers := by
  induction l with
  | nil => rfl
  | cons p ps ih => unfold K.checkPendingFrom; (repeat' split) <;> simp [ih]

@[simp] theorem checkPendingFrom_waiter (k : K) (l : List Nat) : (k.checkPendingFrom l).waiter = k.waiter := by
  induction l with
  | nil => rfl
  | cons p ps ih => unfold K.checkPendingFrom; (repeat' split) <;> simp [ih]

@[simp] theorem checkPendingFrom_done (k : K) (l : List Nat) : (k.checkPendingFrom l).done = k.done := by
  induction l with
  | nil => rfl
  | cons p ps ih => unfold K.checkPendingFrom; (repeat' split) <;> simp [ih]

@[simp] theorem checkPendingFrom_frames (k : K) (l : List Nat) : (k.checkPendingFrom l).frames = k.frames := by
  induction l with
  | nil => rfl
  | cons p ps ih => unfold K.checkPendingFrom; (repeat' split) <;> simp [ih]

@[simp] theorem checkPendingFrom_delayed (k : K) (l : List Nat) : (k.checkPendingFrom l).delayed = k.delayed := by
  induction l with
  | nil => rfl
  | cons p ps ih => unfold K.checkPendingFrom; (repeat' split) <;> simp [ih]

@[simp] theorem checkPendingFrom_stepFuel (k : K) (l : List Nat) : (k.checkPendingFrom l).stepFuel = k.stepFuel := by
  induction l with
  | nil => rfl
  | cons p ps ih => unfold K.checkPendingFrom; (repeat' split) <;> simp [ih]

@[simp] theorem checkPendingFrom_fix (k : K) (l : List Nat) : (k.checkPendingFrom l).fix = k.fix := by
  induction l with
  | nil => rfl
  | cons p ps ih => unfold K.checkPendingFrom; (repeat' split) <;> simp [ih]

@[simp] theorem checkPendingFrom_extCount (k : K) (l : List Nat) : (k.checkPendingFrom l).extCount = k.extCount := by
  induction l with
  | nil => rfl
  | cons p ps ih => unfold K.checkPendingFrom; (repeat' split) <;> simp [ih]

@[simp] theorem checkPendingFrom_phantom (k : K) (l : List Nat) : (k.checkPendingFrom l).phantom = k.phantom := by
  induction l with
  | nil => rfl
  | cons p ps ih => unfold K.checkPendingFrom; (repeat' split) <;> simp [ih]

@[simp] theorem checkPendingFrom_bad (k : K) (l : List Nat) : (k.checkPendingFrom l).bad = k.bad := by
  induction l with
  | nil => rfl
  | cons p ps ih => unfold K.checkPendingFrom; (repeat' split) <;> simp [ih]

@[simp] theorem checkPendingFrom_out (k : K) (l : List Nat) : (k.checkPendingFrom l).out = k.out := by
  induction l with
  | nil => rfl
  | cons p ps ih => unfold K.checkPendingFrom; (repeat' split) <;> simp [ih]

@[simp] theorem checkPending_now (k : K) : (k.checkPending).now = k.now := by
  unfold K.checkPending; simp

@[simp] theorem checkPending_batch (k : K) : (k.checkPending).batch = k.batch := by
  unfold K.checkPending; simp

@[simp] theorem checkPending_timers (k : K) : (k.checkPending).timers = k.timers := by
  unfold K.checkPending; simp

@[simp] theorem checkPending_waiter (k : K) : (k.checkPending).waiter = k.waiter := by
  unfold K.checkPending; simp

@[simp] theorem checkPending_done (k : K) : (k.checkPending).done = k.done := by
  unfold K.checkPending; simp

@[simp] theorem checkPending_frames (k : K) : (k.checkPending).frames = k.frames := by
  unfold K.checkPending; simp

@[simp] theorem checkPending_delayed (k : K) : (k.checkPending).delayed = k.delayed := by
  unfold K.checkPending; simp

@[simp] theorem checkPending_stepFuel (k : K) : (k.checkPending).stepFuel = k.stepFuel := by
  unfold K.checkPending; simp

@[simp] theorem checkPending_fix (k : K) : (k.checkPending).fix = k.fix := by
  unfold K.checkPending; simp

@[simp] theorem checkPending_extCount (k : K) : (k.checkPending).extCount = k.extCount := by
  unfold K.checkPending; simp

@[simp] theorem checkPending_phantom (k : K) : (k.checkPending).phantom = k.phantom := by
  unfold K.checkPending; simp

@[simp] theorem checkPending_bad (k : K) : (k.checkPending).bad = k.bad := by
  unfold K.checkPending; simp

@[simp] theorem checkPending_out (k : K) : (k.checkPending).out = k.out := by
  unfold K.checkPending; simp

@[simp] theorem reschedDelayed_now (k : K) (m : Msg) : (k.reschedDelayed m).now = k.now := by
  unfold K.reschedDelayed; split <;> simp

@[simp] theorem reschedDelayed_batch (k : K) (m : Msg) : (k.reschedDelayed m).batch = k.batch := by
  unfold K.reschedDelayed; split <;> simp

@[simp] theorem reschedDelayed_timers (k : K) (m : Msg) : (k.reschedDelayed m).timers = k.timers := by
  unfold K.reschedDelayed; split <;> simp

@[simp] theorem reschedDelayed_futs (k : K) (m : Msg) : (k.reschedDelayed m).futs = k.futs := by
  unfold K.reschedDelayed; split <;> simp

@[simp] theorem reschedDelayed_mustCancel (k : K) (m : Msg) : (k.reschedDelayed m).mustCancel = k.mustCancel := by
  unfold K.reschedDelayed; split <;> simp

@[simp] theorem reschedDelayed_cancelMsg (k : K) (m : Msg) : (k.reschedDelayed m).cancelMsg = k.cancelMsg := by
  unfold K.reschedDelayed; split <;> simp

@[simp] theorem reschedDelayed_numCancels (k : K) (m : Msg) : (k.reschedDelayed m).numCancels = k.numCancels := by
  unfold K.reschedDelayed; split <;> simp

@[simp] theorem reschedDelayed_waiter (k : K) (m : Msg) : (k.reschedDelayed m).waiter = k.waiter := by
  unfold K.reschedDelayed; split <;> simp

@[simp] theorem reschedDelayed_frames (k : K) (m : Msg) : (k.reschedDelayed m).frames = k.frames := by
  unfold K.reschedDelayed; split <;> simp

@[simp] theorem reschedDelayed_scopes (k : K) (m : Msg) : (k.reschedDelayed m).scopes = k.scopes := by
  unfold K.reschedDelayed; split <;> simp

@[simp] theorem reschedDelayed_stepFuel (k : K) (m : Msg) : (k.reschedDelayed m).stepFuel = k.stepFuel := by
  unfold K.reschedDelayed; split <;> simp

@[simp] theorem reschedDelayed_fix (k : K) (m : Msg) : (k.reschedDelayed m).fix = k.fix := by
  unfold K.reschedDelayed; split <;> simp

@[simp] theorem reschedDelayed_extCount (k : K) (m : Msg) : (k.reschedDelayed m).extCount = k.extCount := by
  unfold K.reschedDelayed; split <;> simp

@[simp] theorem reschedDelayed_phantom (k : K) (m : Msg) : (k.reschedDelayed m).phantom = k.phantom := by
  unfold K.reschedDelayed; split <;> simp

@[simp] theorem reschedDelayed_bad (k : K) (m : Msg) : (k.reschedDelayed m).bad = k.bad := by
  unfold K.reschedDelayed; split <;> simp

@[simp] theorem reschedOpt_now (k : K) (o : Option Msg) : (k.reschedOpt o).now = k.now := by
  cases o <;> simp [K.reschedOpt]

@[simp] theorem reschedOpt_batch (k : K) (o : Option Msg) : (k.reschedOpt o).batch = k.batch := by
  cases o <;> simp [K.reschedOpt]

@[simp] theorem reschedOpt_timers (k : K) (o : Option Msg) : (k.reschedOpt o).timers = k.timers := by
  cases o <;> simp [K.reschedOpt]

@[simp] theorem reschedOpt_futs (k : K) (o : Option Msg) : (k.reschedOpt o).futs = k.futs := by
  cases o <;> simp [K.reschedOpt]

@[simp] theorem reschedOpt_mustCancel (k : K) (o : Option Msg) : (k.reschedOpt o).mustCancel = k.mustCancel := by
  cases o <;> simp [K.reschedOpt]

@[simp] theorem reschedOpt_cancelMsg (k : K) (o : Option Msg) : (k.reschedOpt o).cancelMsg = k.cancelMsg := by
  cases o <;> simp [K.reschedOpt]

@[simp] theorem reschedOpt_numCancels (k : K) (o : Option Msg) : (k.reschedOpt o).numCancels = k.numCancels := by
  cases o <;> simp [K.reschedOpt]

@[simp] theorem reschedOpt_waiter (k : K) (o : Option Msg) : (k.reschedOpt o).waiter = k.waiter := by
  cases o <;> simp [K.reschedOpt]

@[simp] theorem reschedOpt_frames (k : K) (o : Option Msg) : (k.reschedOpt o).frames = k.frames := by
  cases o <;> simp [K.reschedOpt]

@[simp] theorem reschedOpt_scopes (k : K) (o : Option Msg) : (k.reschedOpt o).scopes = k.scopes := by
  cases o <;> simp [K.reschedOpt]

@[simp] theorem reschedOpt_stepFuel (k : K) (o : Option Msg) : (k.reschedOpt o).stepFuel = k.stepFuel := by
  cases o <;> simp [K.reschedOpt]

@[simp] theorem reschedOpt_fix (k : K) (o : Option Msg) : (k.reschedOpt o).fix = k.fix := by
  cases o <;> simp [K.reschedOpt]

@[simp] theorem reschedOpt_extCount (k : K) (o : Option Msg) : (k.reschedOpt o).extCount = k.extCount := by
  cases o <;> simp [K.reschedOpt]

@[simp] theorem reschedOpt_phantom (k : K) (o : Option Msg) : (k.reschedOpt o).phantom = k.phantom := by
  cases o <;> simp [K.reschedOpt]

@[simp] theorem reschedOpt_bad (k : K) (o : Option Msg) : (k.reschedOpt o).bad = k.bad := by
  cases o <;> simp [K.reschedOpt]

@[simp] theorem uncancelLoop_now (k : K) (s : Nat) (m : Msg) (n : Nat) : ((k.uncancelLoop s m n).1).now = k.now := by
  induction n generalizing k with
  | zero => rfl
  | succ n ih => unfold K.uncancelLoop; split <;> simp [ih]

@[simp] theorem uncancelLoop_ready (k : K) (s : Nat) (m : Msg) (n : Nat) : ((k.uncancelLoop s m n).1).ready = k.ready := by
  induction n generalizing k with
  | zero => rfl
  | succ n ih => unfold K.uncancelLoop; split <;> simp [ih]

@[simp] theorem uncancelLoop_batch (k : K) (s : Nat) (m : Msg) (n : Nat) : ((k.uncancelLoop s m n).1).batch = k.batch := by
  induction n generalizing k with
  | zero => rfl
  | succ n ih => unfold K.uncancelLoop; split <;> simp [ih]

@[simp] theorem uncancelLoop_timers (k : K) (s : Nat) (m : Msg) (n : Nat) : ((k.uncancelLoop s m n).1).timers = k.timers := by
  induction n generalizing k with
  | zero => rfl
  | succ n ih => unfold K.uncancelLoop; split <;> simp [ih]

@[simp] theorem uncancelLoop_futs (k : K) (s : Nat) (m : Msg) (n : Nat) : ((k.uncancelLoop s m n).1).futs = k.futs := by
  induction n generalizing k with
  | zero => rfl
  | succ n ih => unfold K.uncancelLoop; split <;> simp [ih]

@[simp] theorem uncancelLoop_mustCancel (k : K) (s : Nat) (m : Msg) (n : Nat) : ((k.uncancelLoop s m n).1).mustCancel = k.mustCancel := by
  induction n generalizing k with
  | zero => rfl
  | succ n ih => unfold K.uncancelLoop; split <;> simp [ih]

@[simp] theorem uncancelLoop_cancelMsg (k : K) (s : Nat) (m : Msg) (n : Nat) : ((k.uncancelLoop s m n).1).cancelMsg = k.cancelMsg := by
  induction n generalizing k with
  | zero => rfl
  | succ n ih => unfold K.uncancelLoop; split <;> simp [ih]

@[simp] theorem uncancelLoop_waiter (k : K) (s : Nat) (m : Msg) (n : Nat) : ((k.uncancelLoop s m n).1).waiter = k.waiter := by
  induction n generalizing k with
  | zero => rfl
  | succ n ih => unfold K.uncancelLoop; split <;> simp [ih]

@[simp] theorem uncancelLoop_done (k : K) (s : Nat) (m : Msg) (n : Nat) : ((k.uncancelLoop s m n).1).done = k.done := by
  induction n generalizing k with
  | zero => rfl
  | succ n ih => unfold K.uncancelLoop; split <;> simp [ih]

@[simp] theorem uncancelLoop_frames (k : K) (s : Nat) (m : Msg) (n : Nat) : ((k.uncancelLoop s m n).1).frames = k.frames := by
  induction n generalizing k with
  | zero => rfl
  | succ n ih => unfold K.uncancelLoop; split <;> simp [ih]

@[simp] theorem uncancelLoop_delayed (k : K) (s : Nat) (m : Msg) (n : Nat) : ((k.uncancelLoop s m n).1).delayed = k.delayed := by
  induction n generalizing k with
  | zero => rfl
  | succ n ih => unfold K.uncancelLoop; split <;> simp [ih]

@[simp] theorem uncancelLoop_stepFuel (k : K) (s : Nat) (m : Msg) (n : Nat) : ((k.uncancelLoop s m n).1).stepFuel = k.stepFuel := by
  induction n generalizing k with
  | zero => rfl
  | succ n ih => unfold K.uncancelLoop; split <;> simp [ih]

@[simp] theorem uncancelLoop_fix (k : K) (s : Nat) (m : Msg) (n : Nat) : ((k.uncancelLoop s m n).1).fix = k.fix := by
  induction n generalizing k with
  | zero => rfl
  | succ n ih => unfold K.uncancelLoop; split <;> simp [ih]

@[simp] theorem uncancelLoop_extCount (k : K) (s : Nat) (m : Msg) (n : Nat) : ((k.uncancelLoop s m n).1).extCount = k.extCount := by
  induction n generalizing k with
  | zero => rfl
  | succ n ih => unfold K.uncancelLoop; split <;> simp [ih]

@[simp] theorem uncancelLoop_phantom (k : K) (s : Nat) (m : Msg) (n : Nat) : ((k.uncancelLoop s m n).1).phantom = k.phantom := by
  induction n generalizing k with
  | zero => rfl
  | succ n ih => unfold K.uncancelLoop; split <;> simp [ih]

@[simp] theorem uncancelLoop_bad (k : K) (s : Nat) (m : Msg) (n : Nat) : ((k.uncancelLoop s m n).1).bad = k.bad := by
  induction n generalizing k with
  | zero => rfl
  | succ n ih => unfold K.uncancelLoop; split <;> simp [ih]

@[simp] theorem uncancelLoop_out (k : K) (s : Nat) (m : Msg) (n : Nat) : ((k.uncancelLoop s m n).1).out = k.out := by
  induction n generalizing k with
  | zero => rfl
  | succ n ih => unfold K.uncancelLoop; split <;> simp [ih]

@[simp] theorem undoRemaining_now (k : K) (s : Nat) : (k.undoRemaining s).now = k.now := by
  rfl

@[simp] theorem undoRemaining_ready (k : K) (s : Nat) : (k.undoRemaining s).ready = k.ready := by
  rfl

@[simp] theorem undoRemaining_batch (k : K) (s : Nat) : (k.undoRemaining s).batch = k.batch := by
  rfl

@[simp] theorem undoRemaining_timers (k : K) (s : Nat) : (k.undoRemaining s).timers = k.timers := by
  rfl

@[simp] theorem undoRemaining_futs (k : K) (s : Nat) : (k.undoRemaining s).futs = k.futs := by
  rfl

@[simp] theorem undoRemaining_mustCancel (k : K) (s : Nat) : (k.undoRemaining s).mustCancel = k.mustCancel := by
  rfl

@[simp] theorem undoRemaining_cancelMsg (k : K) (s : Nat) : (k.undoRemaining s).cancelMsg = k.cancelMsg := by
  rfl

@[simp] theorem undoRemaining_waiter (k : K) (s : Nat) : (k.undoRemaining s).waiter = k.waiter := by
  rfl

@[simp] theorem undoRemaining_done (k : K) (s : Nat) : (k.undoRemaining s).done = k.done := by
  rfl

@[simp] theorem undoRemaining_frames (k : K) (s : Nat) : (k.undoRemaining s).frames = k.frames := by
  rfl

@[simp] theorem undoRemaining_delayed (k : K) (s : Nat) : (k.undoRemaining s).delayed = k.delayed := by
  rfl

@[simp] theorem undoRemaining_stepFuel (k : K) (s : Nat) : (k.undoRemaining s).stepFuel = k.stepFuel := by
  rfl

@[simp] theorem undoRemaining_fix (k : K) (s : Nat) : (k.undoRemaining s).fix = k.fix := by
  rfl

@[simp] theorem undoRemaining_extCount (k : K) (s : Nat) : (k.undoRemaining s).extCount = k.extCount := by
  rfl

@[simp] theorem undoRemaining_phantom (k : K) (s : Nat) : (k.undoRemaining s).phantom = k.phantom := by
  rfl

@[simp] theorem undoRemaining_bad (k : K) (s : Nat) : (k.undoRemaining s).bad = k.bad := by
  rfl

@[simp] theorem undoRemaining_out (k : K) (s : Nat) : (k.undoRemaining s).out = k.out := by
  rfl

@[simp] theorem exitCatch_now (k : K) (s : Nat) (e : Option Exc) : (k.exitCatch s e).now = k.now := by
  unfold K.exitCatch; (repeat' split) <;> simp

@[simp] theorem exitCatch_ready (k : K) (s : Nat) (e : Option Exc) : (k.exitCatch s e).ready = k.ready := by
  unfold K.exitCatch; (repeat' split) <;> simp

@[simp] theorem exitCatch_batch (k : K) (s : Nat) (e : Option Exc) : (k.exitCatch s e).batch = k.batch := by
  unfold K.exitCatch; (repeat' split) <;> simp

@[simp] theorem exitCatch_timers (k : K) (s : Nat) (e : Option Exc) : (k.exitCatch s e).timers = k.timers := by
  unfold K.exitCatch; (repeat' split) <;> simp

@[simp] theorem exitCatch_futs (k : K) (s : Nat) (e : Option Exc) : (k.exitCatch s e).futs = k.futs := by
  unfold K.exitCatch; (repeat' split) <;> simp

@[simp] theorem exitCatch_mustCancel (k : K) (s : Nat) (e : Option Exc) : (k.exitCatch s e).mustCancel = k.mustCancel := by
  unfold K.exitCatch; (repeat' split) <;> simp

@[simp] theorem exitCatch_cancelMsg (k : K) (s : Nat) (e : Option Exc) : (k.exitCatch s e).cancelMsg = k.cancelMsg := by
  unfold K.exitCatch; (repeat' split) <;> simp

@[simp] theorem exitCatch_waiter (k : K) (s : Nat) (e : Option Exc) : (k.exitCatch s e).waiter = k.waiter := by
  unfold K.exitCatch; (repeat' split) <;> simp

@[simp] theorem exitCatch_done (k : K) (s : Nat) (e : Option Exc) : (k.exitCatch s e).done = k.done := by
  unfold K.exitCatch; (repeat' split) <;> simp

@[simp] theorem exitCatch_frames (k : K) (s : Nat) (e : Option Exc) : (k.exitCatch s e).frames = k.frames := by
  unfold K.exitCatch; (repeat' split) <;> simp

@[simp] theorem exitCatch_delayed (k : K) (s : Nat) (e : Option Exc) : (k.exitCatch s e).delayed = k.delayed := by
  unfold K.exitCatch; (repeat' split) <;> simp

@[simp] theorem exitCatch_stepFuel (k : K) (s : Nat) (e : Option Exc) : (k.exitCatch s e).stepFuel = k.stepFuel := by
  unfold K.exitCatch; (repeat' split) <;> simp

@[simp] theorem exitCatch_fix (k : K) (s : Nat) (e : Option Exc) : (k.exitCatch s e).fix = k.fix := by
  unfold K.exitCatch; (repeat' split) <;> simp

@[simp] theorem exitCatch_extCount (k : K) (s : Nat) (e : Option Exc) : (k.exitCatch s e).extCount = k.extCount := by
  unfold K.exitCatch; (repeat' split) <;> simp

@[simp] theorem exitCatch_phantom (k : K) (s : Nat) (e : Option Exc) : (k.exitCatch s e).phantom = k.phantom := by
  unfold K.exitCatch; (repeat' split) <;> simp

@[simp] theorem exitCatch_bad (k : K) (s : Nat) (e : Option Exc) : (k.exitCatch s e).bad = k.bad := by
  unfold K.exitCatch; (repeat' split) <;> simp

@[simp] theorem exitCatch_out (k : K) (s : Nat) (e : Option Exc) : (k.exitCatch s e).out = k.out := by
  unfold K.exitCatch; (repeat' split) <;> simp

@[simp] theorem dropOwnDelayed_now (k : K) (s : Nat) : (k.dropOwnDelayed s).now = k.now := by
  unfold K.dropOwnDelayed; (repeat' split) <;> simp

@[simp] theorem dropOwnDelayed_futs (k : K) (s : Nat) : (k.dropOwnDelayed s).futs = k.futs := by
  unfold K.dropOwnDelayed; (repeat' split) <;> simp

@[simp] theorem dropOwnDelayed_mustCancel (k : K) (s : Nat) : (k.dropOwnDelayed s).mustCancel = k.mustCancel := by
  unfold K.dropOwnDelayed; (repeat' split) <;> simp

@[simp] theorem dropOwnDelayed_cancelMsg (k : K) (s : Nat) : (k.dropOwnDelayed s).cancelMsg = k.cancelMsg := by
  unfold K.dropOwnDelayed; (repeat' split) <;> simp

@[simp] theorem dropOwnDelayed_numCancels (k : K) (s : Nat) : (k.dropOwnDelayed s).numCancels = k.numCancels := by
  unfold K.dropOwnDelayed; (repeat' split) <;> simp

@[simp] theorem dropOwnDelayed_waiter (k : K) (s : Nat) : (k.dropOwnDelayed s).waiter = k.waiter := by
  unfold K.dropOwnDelayed; (repeat' split) <;> simp

@[simp] theorem dropOwnDelayed_done (k : K) (s : Nat) : (k.dropOwnDelayed s).done = k.done := by
  unfold K.dropOwnDelayed; (repeat' split) <;> simp

@[simp] theorem dropOwnDelayed_frames (k : K) (s : Nat) : (k.dropOwnDelayed s).frames = k.frames := by
  unfold K.dropOwnDelayed; (repeat' split) <;> simp

@[simp] theorem dropOwnDelayed_scopes (k : K) (s : Nat) : (k.dropOwnDelayed s).scopes = k.scopes := by
  unfold K.dropOwnDelayed; (repeat' split) <;> simp

@[simp] theorem dropOwnDelayed_stepFuel (k : K) (s : Nat) : (k.dropOwnDelayed s).stepFuel = k.stepFuel := by
  unfold K.dropOwnDelayed; (repeat' split) <;> simp

@[simp] theorem dropOwnDelayed_fix (k : K) (s : Nat) : (k.dropOwnDelayed s).fix = k.fix := by
  unfold K.dropOwnDelayed; (repeat' split) <;> simp

@[simp] theorem dropOwnDelayed_extCount (k : K) (s : Nat) : (k.dropOwnDelayed s).extCount = k.extCount := by
  unfold K.dropOwnDelayed; (repeat' split) <;> simp

@[simp] theorem dropOwnDelayed_phantom (k : K) (s : Nat) : (k.dropOwnDelayed s).phantom = k.phantom := by
  unfold K.dropOwnDelayed; (repeat' split) <;> simp

@[simp] theorem dropOwnDelayed_bad (k : K) (s : Nat) : (k.dropOwnDelayed s).bad = k.bad := by
  unfold K.dropOwnDelayed; (repeat' split) <;> simp

@[simp] theorem dropOwnDelayed_out (k : K) (s : Nat) : (k.dropOwnDelayed s).out = k.out := by
  unfold K.dropOwnDelayed; (repeat' split) <;> simp

@[simp] theorem exitCancelled_now (k : K) (s : Nat) (e : Option Exc) : (k.exitCancelled s e).now = k.now := by
  unfold K.exitCancelled; split <;> simp

@[simp] theorem exitCancelled_futs (k : K) (s : Nat) (e : Option Exc) : (k.exitCancelled s e).futs = k.futs := by
  unfold K.exitCancelled; split <;> simp

@[simp] theorem exitCancelled_mustCancel (k : K) (s : Nat) (e : Option Exc) : (k.exitCancelled s e).mustCancel = k.mustCancel := by
  unfold K.exitCancelled; split <;> simp

@[simp] theorem exitCancelled_cancelMsg (k : K) (s : Nat) (e : Option Exc) : (k.exitCancelled s e).cancelMsg = k.cancelMsg := by
  unfold K.exitCancelled; split <;> simp

@[simp] theorem exitCancelled_waiter (k : K) (s : Nat) (e : Option Exc) : (k.exitCancelled s e).waiter = k.waiter := by
  unfold K.exitCancelled; split <;> simp

@[simp] theorem exitCancelled_done (k : K) (s : Nat) (e : Option Exc) : (k.exitCancelled s e).done = k.done := by
  unfold K.exitCancelled; split <;> simp

@[simp] theorem exitCancelled_frames (k : K) (s : Nat) (e : Option Exc) : (k.exitCancelled s e).frames = k.frames := by
  unfold K.exitCancelled; split <;> simp

@[simp] theorem exitCancelled_stepFuel (k : K) (s : Nat) (e : Option Exc) : (k.exitCancelled s e).stepFuel = k.stepFuel := by
  unfold K.exitCancelled; split <;> simp

@[simp] theorem exitCancelled_fix (k : K) (s : Nat) (e : Option Exc) : (k.exitCancelled s e).fix = k.fix := by
  unfold K.exitCancelled; split <;> simp

@[simp] theorem exitCancelled_extCount (k : K) (s : Nat) (e : Option Exc) : (k.exitCancelled s e).extCount = k.extCount := by
  unfold K.exitCancelled; split <;> simp

@[simp] theorem exitCancelled_phantom (k : K) (s : Nat) (e : Option Exc) : (k.exitCancelled s e).phantom = k.phantom := by
  unfold K.exitCancelled; split <;> simp

@[simp] theorem exitCancelled_bad (k : K) (s : Nat) (e : Option Exc) : (k.exitCancelled s e).bad = k.bad := by
  unfold K.exitCancelled; split <;> simp

@[simp] theorem exitCancelled_out (k : K) (s : Nat) (e : Option Exc) : (k.exitCancelled s e).out = k.out := by
  unfold K.exitCancelled; split <;> simp

@[simp] theorem scopeExit_now (k : K) (s : Nat) (e : Option Exc) : (k.scopeExit s e).now = k.now := by
  unfold K.scopeExit; split <;> simp

@[simp] theorem scopeExit_waiter (k : K) (s : Nat) (e : Option Exc) : (k.scopeExit s e).waiter = k.waiter := by
  unfold K.scopeExit; split <;> simp

@[simp] theorem scopeExit_done (k : K) (s : Nat) (e : Option Exc) : (k.scopeExit s e).done = k.done := by
  unfold K.scopeExit; split <;> simp

@[simp] theorem scopeExit_frames (k : K) (s : Nat) (e : Option Exc) : (k.scopeExit s e).frames = k.frames := by
  unfold K.scopeExit; split <;> simp

@[simp] theorem scopeExit_stepFuel (k : K) (s : Nat) (e : Option Exc) : (k.scopeExit s e).stepFuel = k.stepFuel := by
  unfold K.scopeExit; split <;> simp

@[simp] theorem scopeExit_fix (k : K) (s : Nat) (e : Option Exc) : (k.scopeExit s e).fix = k.fix := by
  unfold K.scopeExit; split <;> simp

@[simp] theorem scopeExit_extCount (k : K) (s : Nat) (e : Option Exc) : (k.scopeExit s e).extCount = k.extCount := by
  unfold K.scopeExit; split <;> simp

@[simp] theorem scopeExit_phantom (k : K) (s : Nat) (e : Option Exc) : (k.scopeExit s e).phantom = k.phantom := by
  unfold K.scopeExit; split <;> simp

@[simp] theorem scopeExit_bad (k : K) (s : Nat) (e : Option Exc) : (k.scopeExit s e).bad = k.bad := by
  unfold K.scopeExit; split <;> simp

@[simp] theorem scopeExit_out (k : K) (s : Nat) (e : Option Exc) : (k.scopeExit s e).out = k.out := by
  unfold K.scopeExit; split <;> simp

@[simp] theorem scopeEnter_now (k : K) (sid : Nat) (to : Bool) (delay : Option Nat) (pre : Bool) : (k.scopeEnter sid to delay pre).now = k.now := by
  unfold K.scopeEnter; split <;> simp

@[simp] theorem scopeEnter_waiter (k : K) (sid : Nat) (to : Bool) (delay : Option Nat) (pre : Bool) : (k.scopeEnter sid to delay pre).waiter = k.waiter := by
  unfold K.scopeEnter; split <;> simp

@[simp] theorem scopeEnter_done (k : K) (sid : Nat) (to : Bool) (delay : Option Nat) (pre : Bool) : (k.scopeEnter sid to delay pre).done = k.done := by
  unfold K.scopeEnter; split <;> simp

@[simp] theorem scopeEnter_delayed (k : K) (sid : Nat) (to : Bool) (delay : Option Nat) (pre : Bool) : (k.scopeEnter sid to delay pre).delayed = k.delayed := by
  unfold K.scopeEnter; split <;> simp

@[simp] theorem scopeEnter_stepFuel (k : K) (sid : Nat) (to : Bool) (delay : Option Nat) (pre : Bool) : (k.scopeEnter sid to delay pre).stepFuel = k.stepFuel := by
  unfold K.scopeEnter; split <;> simp

@[simp] theorem scopeEnter_fix (k : K) (sid : Nat) (to : Bool) (delay : Option Nat) (pre : Bool) : (k.scopeEnter sid to delay pre).fix = k.fix := by
  unfold K.scopeEnter; split <;> simp

@[simp] theorem scopeEnter_extCount (k : K) (sid : Nat) (to : Bool) (delay : Option Nat) (pre : Bool) : (k.scopeEnter sid to delay pre).extCount = k.extCount := by
  unfold K.scopeEnter; split <;> simp

@[simp] theorem scopeEnter_phantom (k : K) (sid : Nat) (to : Bool) (delay : Option Nat) (pre : Bool) : (k.scopeEnter sid to delay pre).phantom = k.phantom := by
  unfold K.scopeEnter; split <;> simp

@[simp] theorem scopeEnter_bad (k : K) (sid : Nat) (to : Bool) (delay : Option Nat) (pre : Bool) : (k.scopeEnter sid to delay pre).bad = k.bad := by
  unfold K.scopeEnter; split <;> simp

@[simp] theorem scopeEnter_out (k : K) (sid : Nat) (to : Bool) (delay : Option Nat) (pre : Bool) : (k.scopeEnter sid to delay pre).out = k.out := by
  unfold K.scopeEnter; split <;> simp

@[simp] theorem setWaiter_now (k : K) (f : Nat) : (k.setWaiter f).now = k.now := by
  rfl

@[simp] theorem setWaiter_ready (k : K) (f : Nat) : (k.setWaiter f).ready = k.ready := by
  rfl

@[simp] theorem setWaiter_batch (k : K) (f : Nat) : (k.setWaiter f).batch = k.batch := by
  rfl

@[simp] theorem setWaiter_timers (k : K) (f : Nat) : (k.setWaiter f).timers = k.timers := by
  rfl

@[simp] theorem setWaiter_mustCancel (k : K) (f : Nat) : (k.setWaiter f).mustCancel = k.mustCancel := by
  rfl

@[simp] theorem setWaiter_cancelMsg (k : K) (f : Nat) : (k.setWaiter f).cancelMsg = k.cancelMsg := by
  rfl

@[simp] theorem setWaiter_numCancels (k : K) (f : Nat) : (k.setWaiter f).numCancels = k.numCancels := by
  rfl

@[simp] theorem setWaiter_done (k : K) (f : Nat) : (k.setWaiter f).done = k.done := by
  rfl

@[simp] theorem setWaiter_frames (k : K) (f : Nat) : (k.setWaiter f).frames = k.frames := by
  rfl

@[simp] theorem setWaiter_scopes (k : K) (f : Nat) : (k.setWaiter f).scopes = k.scopes := by
  rfl

@[simp] theorem setWaiter_delayed (k : K) (f : Nat) : (k.setWaiter f).delayed = k.delayed := by
  rfl

@[simp] theorem setWaiter_stepFuel (k : K) (f : Nat) : (k.setWaiter f).stepFuel = k.stepFuel := by
  rfl

@[simp] theorem setWaiter_fix (k : K) (f : Nat) : (k.setWaiter f).fix = k.fix := by
  rfl

@[simp] theorem setWaiter_extCount (k : K) (f : Nat) : (k.setWaiter f).extCount = k.extCount := by
  rfl

@[simp] theorem setWaiter_phantom (k : K) (f : Nat) : (k.setWaiter f).phantom = k.phantom := by
  rfl

@[simp] theorem setWaiter_bad (k : K) (f : Nat) : (k.setWaiter f).bad = k.bad := by
  rfl

@[simp] theorem setWaiter_out (k : K) (f : Nat) : (k.setWaiter f).out = k.out := by
  rfl

@[simp] theorem taskYield_now (k : K) (y : Yield) : (k.taskYield y).now = k.now := by
  unfold K.taskYield; (repeat' split) <;> simp

@[simp] theorem taskYield_batch (k : K) (y : Yield) : (k.taskYield y).batch = k.batch := by
  unfold K.taskYield; (repeat' split) <;> simp

@[simp] theorem taskYield_timers (k : K) (y : Yield) : (k.taskYield y).timers = k.timers := by
  unfold K.taskYield; (repeat' split) <;> simp

@[simp] theorem taskYield_cancelMsg (k : K) (y : Yield) : (k.taskYield y).cancelMsg = k.cancelMsg := by
  unfold K.taskYield; (repeat' split) <;> simp

@[simp] theorem taskYield_numCancels (k : K) (y : Yield) : (k.taskYield y).numCancels = k.numCancels := by
  unfold K.taskYield; (repeat' split) <;> simp

@[simp] theorem taskYield_done (k : K) (y : Yield) : (k.taskYield y).done = k.done := by
  unfold K.taskYield; (repeat' split) <;> simp

@[simp] theorem taskYield_frames (k : K) (y : Yield) : (k.taskYield y).frames = k.frames := by
  unfold K.taskYield; (repeat' split) <;> simp

@[simp] theorem taskYield_scopes (k : K) (y : Yield) : (k.taskYield y).scopes = k.scopes := by
  unfold K.taskYield; (repeat' split) <;> simp

@[simp] theorem taskYield_delayed (k : K) (y : Yield) : (k.taskYield y).delayed = k.delayed := by
  unfold K.taskYield; (repeat' split) <;> simp

@[simp] theorem taskYield_stepFuel (k : K) (y : Yield) : (k.taskYield y).stepFuel = k.stepFuel := by
  unfold K.taskYield; (repeat' split) <;> simp

@[simp] theorem taskYield_fix (k : K) (y : Yield) : (k.taskYield y).fix = k.fix := by
  unfold K.taskYield; (repeat' split) <;> simp

@[simp] theorem taskYield_extCount (k : K) (y : Yield) : (k.taskYield y).extCount = k.extCount := by
  unfold K.taskYield; (repeat' split) <;> simp

@[simp] theorem taskYield_phantom (k : K) (y : Yield) : (k.taskYield y).phantom = k.phantom := by
  unfold K.taskYield; (repeat' split) <;> simp

@[simp] theorem taskYield_bad (k : K) (y : Yield) : (k.taskYield y).bad = k.bad := by
  unfold K.taskYield; (repeat' split) <;> simp

@[simp] theorem taskYield_out (k : K) (y : Yield) : (k.taskYield y).out = k.out := by
  unfold K.taskYield; (repeat' split) <;> simp

@[simp] theorem taskFinish_now (k : K) (e : Option Exc) : (k.taskFinish e).now = k.now := by
  unfold K.taskFinish; (repeat' split) <;> simp

@[simp] theorem taskFinish_ready (k : K) (e : Option Exc) : (k.taskFinish e).ready = k.ready := by
  unfold K.taskFinish; (repeat' split) <;> simp

@[simp] theorem taskFinish_batch (k : K) (e : Option Exc) : (k.taskFinish e).batch = k.batch := by
  unfold K.taskFinish; (repeat' split) <;> simp

@[simp] theorem taskFinish_timers (k : K) (e : Option Exc) : (k.taskFinish e).timers = k.timers := by
  unfold K.taskFinish; (repeat' split) <;> simp

@[simp] theorem taskFinish_futs (k : K) (e : Option Exc) : (k.taskFinish e).futs = k.futs := by
  unfold K.taskFinish; (repeat' split) <;> simp

@[simp] theorem taskFinish_cancelMsg (k : K) (e : Option Exc) : (k.taskFinish e).cancelMsg = k.cancelMsg := by
  unfold K.taskFinish; (repeat' split) <;> simp

@[simp] theorem taskFinish_numCancels (k : K) (e : Option Exc) : (k.taskFinish e).numCancels = k.numCancels := by
  unfold K.taskFinish; (repeat' split) <;> simp

@[simp] theorem taskFinish_waiter (k : K) (e : Option Exc) : (k.taskFinish e).waiter = k.waiter := by
  unfold K.taskFinish; (repeat' split) <;> simp

@[simp] theorem taskFinish_frames (k : K) (e : Option Exc) : (k.taskFinish e).frames = k.frames := by
  unfold K.taskFinish; (repeat' split) <;> simp

@[simp] theorem taskFinish_scopes (k : K) (e : Option Exc) : (k.taskFinish e).scopes = k.scopes := by
  unfold K.taskFinish; (repeat' split) <;> simp

@[simp] theorem taskFinish_delayed (k : K) (e : Option Exc) : (k.taskFinish e).delayed = k.delayed := by
  unfold K.taskFinish; (repeat' split) <;> simp

@[simp] theorem taskFinish_stepFuel (k : K) (e : Option Exc) : (k.taskFinish e).stepFuel = k.stepFuel := by
  unfold K.taskFinish; (repeat' split) <;> simp

@[simp] theorem taskFinish_fix (k : K) (e : Option Exc) : (k.taskFinish e).fix = k.fix := by
  unfold K.taskFinish; (repeat' split) <;> simp

@[simp] theorem taskFinish_extCount (k : K) (e : Option Exc) : (k.taskFinish e).extCount = k.extCount := by
  unfold K.taskFinish; (repeat' split) <;> simp

@[simp] theorem taskFinish_phantom (k : K) (e : Option Exc) : (k.taskFinish e).phantom = k.phantom := by
  unfold K.taskFinish; (repeat' split) <;> simp

@[simp] theorem taskFinish_bad (k : K) (e : Option Exc) : (k.taskFinish e).bad = k.bad := by
  unfold K.taskFinish; (repeat' split) <;> simp

@[simp] theorem taskFinish_out (k : K) (e : Option Exc) : (k.taskFinish e).out = k.out := by
  unfold K.taskFinish; (repeat' split) <;> simp

end EasyNet.CS
