/-
  Self-delimited documents of the raw JSON framer and the run of the reference decoder over a stream of them.

  `IsFrame limit f`   (semantic) `f` is cut out exactly, whatever acceptable bytes follow, and no proper prefix of it
                      completes or is rejected.
  `Doc.ok limit d`    (decidable, syntactic) a sufficient criterion in terms of the scanner: an enclosure document that the
                      scanner closes exactly on its last byte, or a run of value bytes followed by one whitespace byte.
  `refRun_frames`     every chunking of `docs ++ tail` yields exactly the documents, in order, and retains the tail.

  "Acceptable bytes" (`goodRest`): nothing, or something that does not start with whitespace — `_split_partial_document`
  attaches whitespace that follows a document in the same buffer to that document, so with optional whitespace between
  documents the frames cut out are not the same under every chunking (they differ by where that whitespace goes).
-/
import EasyNet.Lemmas.JRawLaws
namespace EasyNet
namespace JRaw

def goodRest : Bytes → Bool
  | [] => true
  | c :: _ => !isWs c

theorem wsRun_good (x : Bytes) (h : goodRest x = true) : wsRun x = 0 := by
  cases x with
  | nil => rfl
  | cons c xs => simp only [goodRest, Bool.not_eq_true'] at h; simp [wsRun, h]

theorem goodRest_append (g y : Bytes) (hg : goodRest g = true) (hne : g ≠ []) : goodRest (g ++ y) = true := by
  cases g with
  | nil => exact absurd rfl hne
  | cons c cs => simpa [goodRest] using hg

theorem goodRest_prefix (b x : Bytes) (h : goodRest (b ++ x) = true) (hb : b ≠ []) : goodRest b = true := by
  cases b with
  | nil => exact absurd rfl hb
  | cons c cs => simpa [goodRest] using h

structure IsFrame (limit : Nat) (f : Bytes) : Prop where
  ne : f ≠ []
  good : goodRest f = true
  done : ∀ x, goodRest x = true → spec limit (f ++ x) = .done f x
  need : ∀ b x, f = b ++ x → b ≠ [] → x ≠ [] → spec limit b = .need

/-- incomplete tail: every non-empty prefix is incomplete and within the limit -/
structure IsTail (limit : Nat) (t : Bytes) : Prop where
  good : goodRest t = true
  need : ∀ b x, t = b ++ x → b ≠ [] → spec limit b = .need

theorem isTail_nil (limit : Nat) : IsTail limit [] :=
  ⟨rfl, fun b x h hb => by
    have : b = [] := by
      have := congrArg List.length h
      simp at this
      exact List.eq_nil_of_length_eq_zero (by omega)
    exact absurd this hb⟩

/-! ### syntactic documents -/

inductive Doc where
  | encl (f : Bytes)                 -- object / array / string: the bytes
  | plain (v : Bytes) (w : UInt8)    -- plain value `v` and the whitespace byte that terminates it
  deriving Repr, DecidableEq

def Doc.bytes : Doc → Bytes
  | .encl f => f
  | .plain v w => v ++ [w]

/-- well delimited and within the limit -/
def Doc.ok (limit : Nat) : Doc → Prop
  | .encl f => sscan .lead 0 f = .closed f.length ∧ f.length ≤ limit ∧ goodRest f = true
  | .plain v w => v ≠ [] ∧ v.all isValueByte = true ∧ isWs w = true ∧ sscan .lead 0 v = .plain 0 ∧ v.length ≤ limit

instance (limit : Nat) (d : Doc) : Decidable (d.ok limit) := by
  cases d <;> unfold Doc.ok <;> infer_instance

theorem isWs_not_value (w : UInt8) (h : isWs w = true) : isValueByte w = false := by
  simp only [isWs, Bool.or_eq_true, beq_iff_eq] at h
  rcases h with ((h | h) | h) | h <;> subst h <;> decide

theorem nprintIdx_value (v : Bytes) (hv : v.all isValueByte = true) : nprintIdx v = none := by
  unfold nprintIdx
  induction v with
  | nil => rfl
  | cons c cs ih =>
    simp only [List.all_cons, Bool.and_eq_true] at hv
    simp [List.findIdx?_cons, hv.1, ih hv.2]

theorem nprintIdx_value_then (v : Bytes) (w : UInt8) (x : Bytes) (hv : v.all isValueByte = true)
    (hw : isValueByte w = false) : nprintIdx (v ++ w :: x) = some v.length := by
  unfold nprintIdx
  induction v with
  | nil => simp [List.findIdx?_cons, hw]
  | cons c cs ih =>
    simp only [List.all_cons, Bool.and_eq_true] at hv
    simp [List.findIdx?_cons, hv.1, ih hv.2]

theorem all_prefix (b y : Bytes) (p : UInt8 → Bool) (h : (b ++ y).all p = true) : b.all p = true := by
  simp only [List.all_append, Bool.and_eq_true] at h; exact h.1

theorem Doc.isFrame (limit : Nat) (d : Doc) (hd : d.ok limit) : IsFrame limit d.bytes := by
  cases d with
  | encl f =>
    obtain ⟨hscan, hlen, hgood⟩ := hd
    have hb := sscan_closed_bounds f .lead 0 f.length hscan
    have hne : f ≠ [] := by intro h0; subst h0; simp at hb
    refine ⟨hne, hgood, ?_, ?_⟩
    · intro x hx
      have happ := sscan_append f x .lead 0
      rw [hscan] at happ
      simp only at happ
      simp only [Doc.bytes]
      unfold spec
      rw [happ]
      simp only
      unfold splitS
      have h1 : ¬ (f.length > limit) := by omega
      simp only [h1, if_false, List.drop_left', wsRun_good x hx, Nat.add_zero, List.take_left', List.length_append]
      cases x with
      | nil => simp
      | cons c xs =>
        have : ¬ (f.length = f.length + (xs.length + 1)) := by omega
        have hfe : f.isEmpty = false := by cases f with
          | nil => exact absurd rfl hne
          | cons _ _ => rfl
        simp [hfe]
    · intro b x hf hbne hxne
      simp only [Doc.bytes] at hf
      subst hf
      have hxl : 0 < x.length := List.length_pos_iff.mpr hxne
      obtain ⟨st, hst⟩ := sscan_prefix_of_closed b x .lead 0 _ hscan (by simp; omega)
      unfold spec
      rw [hst]
      simp only [List.length_append] at hlen
      have : ¬ (b.length > limit) := by omega
      simp [this]
  | plain v w =>
    obtain ⟨hvne, hval, hws, hscan, hlen⟩ := hd
    have hwv := isWs_not_value w hws
    have hgood : goodRest (v ++ [w]) = true := by
      cases v with
      | nil => exact absurd rfl hvne
      | cons c cs =>
        simp only [List.all_cons, Bool.and_eq_true] at hval
        simp only [List.cons_append, goodRest, Bool.not_eq_true']
        cases hc : isWs c with
        | false => rfl
        | true => have := isWs_not_value c hc; rw [this] at hval; exact absurd hval.1 (by simp)
    refine ⟨by simp [Doc.bytes], hgood, ?_, ?_⟩
    · intro x hx
      simp only [Doc.bytes]
      have happ := sscan_append v ([w] ++ x) .lead 0
      rw [hscan] at happ
      simp only at happ
      unfold spec
      rw [List.append_assoc, happ]
      simp only [List.drop_zero]
      unfold plainS
      have hn := nprintIdx_value_then v w x hval hwv
      simp only [List.singleton_append]
      rw [hn]
      simp only
      unfold splitS
      have h1 : ¬ (v.length > limit) := by omega
      have hws' : wsRun (w :: x) = 1 := by simp [wsRun, hws, wsRun_good x hx]
      simp only [h1, if_false, List.drop_left', hws', List.length_append, List.length_cons]
      cases x with
      | nil => simp
      | cons c xs =>
        have : ¬ (v.length + 1 = v.length + (xs.length + 1 + 1)) := by omega
        have ht : List.take (v.length + 1) (v ++ w :: c :: xs) = v ++ [w] := by
          have : v ++ w :: c :: xs = (v ++ [w]) ++ (c :: xs) := by simp
          rw [this]
          exact List.take_left' (by simp)
        have hdr : List.drop (v.length + 1) (v ++ w :: c :: xs) = c :: xs := by
          have : v ++ w :: c :: xs = (v ++ [w]) ++ (c :: xs) := by simp
          rw [this]
          exact List.drop_left' (by simp)
        simp [ht, hdr]
    · intro b x hf hbne hxne
      simp only [Doc.bytes] at hf
      -- `b` is a prefix of `v`
      have hpre : ∃ y, v = b ++ y := by
        rcases List.append_eq_append_iff.mp hf with ⟨c', h1, h2⟩ | ⟨a', h1, h2⟩
        · -- b = v ++ c', [w] = c' ++ x with x ≠ []  → c' = []
          cases c' with
          | nil => exact ⟨[], by simpa using h1.symm⟩
          | cons e es =>
            have := congrArg List.length h2
            simp only [List.length_cons, List.length_append, List.length_nil] at this
            have hxl : 0 < x.length := List.length_pos_iff.mpr hxne
            omega
        · exact ⟨a', h1⟩
      obtain ⟨y, hy⟩ := hpre
      subst hy
      have hbl : 0 < b.length := List.length_pos_iff.mpr hbne
      have hsb : sscan .lead 0 b = .plain 0 := by
        have happ := sscan_append b y .lead 0
        rw [hscan] at happ
        cases hb : sscan .lead 0 b with
        | opened st' =>
          rw [hb] at happ; simp only at happ
          have := sscan_plain_bounds y st' (0 + b.length) 0 happ.symm
          omega
        | closed k => rw [hb] at happ; simp at happ
        | plain w' => rw [hb] at happ; simp only at happ; rw [← happ]
      unfold spec
      rw [hsb]
      simp only [List.drop_zero]
      unfold plainS
      rw [nprintIdx_value b (all_prefix b y _ hval)]
      simp only [List.length_append] at hlen
      have : ¬ (b.length > limit) := by omega
      simp [this]

/-! ### the reference decoder over a stream of frames -/

theorem goodRest_stream (limit : Nat) (fs : List Bytes) (hfs : ∀ f ∈ fs, IsFrame limit f) (t : Bytes)
    (ht : goodRest t = true) : goodRest (fs.flatten ++ t) = true := by
  cases fs with
  | nil => simpa using ht
  | cons g gs =>
    have hg := hfs g (by simp)
    simp only [List.flatten_cons, List.append_assoc]
    exact goodRest_append g _ hg.good hg.ne

/-- one-go decoding of whole frames followed by an incomplete tail -/
theorem decodeW_frames (limit : Nat) (fs : List Bytes) (hfs : ∀ f ∈ fs, IsFrame limit f) (t : Bytes)
    (ht : goodRest t = true) (htn : t = [] ∨ spec limit t = .need) :
    decodeW (spec limit) (fs.flatten ++ t) = (t, fs.map Item.frame) := by
  have L := spec_prog limit
  induction fs with
  | nil =>
    simp only [List.flatten_nil, List.nil_append, List.map_nil]
    rw [Prog.decodeW_unfold L]
    by_cases he : t.isEmpty
    · have : t = [] := by simpa using he
      subst this; simp
    · rcases htn with h0 | hn
      · subst h0; simp at he
      · simp [he, hn]
  | cons f fs ih =>
    have hf := hfs f (by simp)
    have hrest : goodRest (fs.flatten ++ t) = true :=
      goodRest_stream limit fs (fun g hg => hfs g (by simp [hg])) t ht
    simp only [List.flatten_cons, List.append_assoc, List.map_cons]
    rw [Prog.decodeW_unfold L]
    have hne : (f ++ (fs.flatten ++ t)).isEmpty = false := by
      cases f with
      | nil => exact absurd rfl hf.ne
      | cons _ _ => rfl
    rw [hf.done _ hrest]
    simp only [hne, Bool.false_eq_true, if_false]
    rw [ih (fun g hg => hfs g (by simp [hg]))]

/-- every prefix of a stream of frames is: some whole frames, then a proper prefix of the next frame (or a prefix of the tail) -/
theorem prefix_decomp (fs : List Bytes) (hne : ∀ f ∈ fs, f ≠ []) (t : Bytes) :
    ∀ (b y : Bytes), b ++ y = fs.flatten ++ t →
      ∃ fs1 fs2 t', fs = fs1 ++ fs2 ∧ b = fs1.flatten ++ t' ∧ t' ++ y = fs2.flatten ++ t ∧
        (match fs2 with | [] => True | g :: _ => ∃ z, z ≠ [] ∧ g = t' ++ z) := by
  induction fs with
  | nil =>
    intro b y h
    exact ⟨[], [], b, rfl, by simp, by simpa using h, trivial⟩
  | cons f fs ih =>
    intro b y h
    simp only [List.flatten_cons, List.append_assoc] at h
    rcases List.append_eq_append_iff.mp h with ⟨a', h1, h2⟩ | ⟨c', h1, h2⟩
    · -- f = b ++ a'
      cases a' with
      | nil =>
        -- b = f exactly: one whole frame, nothing of the next
        simp only [List.append_nil] at h1
        simp only [List.nil_append] at h2
        obtain ⟨fs1, fs2, t', e1, e2, e3, e4⟩ := ih (fun g hg => hne g (by simp [hg])) [] y (by simpa using h2)
        refine ⟨f :: fs1, fs2, t', by simp [e1], ?_, e3, e4⟩
        simp only [List.flatten_cons, List.append_assoc]
        rw [← e2]; simp [h1]
      | cons e es =>
        refine ⟨[], f :: fs, b, rfl, by simp, ?_, ⟨e :: es, by simp, h1⟩⟩
        simp only [List.flatten_cons, List.append_assoc]
        exact h
    · -- b = f ++ c'
      obtain ⟨fs1, fs2, t', e1, e2, e3, e4⟩ := ih (fun g hg => hne g (by simp [hg])) c' y h2.symm
      refine ⟨f :: fs1, fs2, t', by simp [e1], ?_, e3, e4⟩
      simp only [List.flatten_cons, List.append_assoc]
      rw [h1, e2]

/-- **every chunking of a stream of frames + incomplete tail** yields exactly the frames, in order, and retains the tail -/
theorem refRun_frames (limit : Nat) (t : Bytes) (ht : IsTail limit t) :
    ∀ (chunks : List Bytes) (fs : List Bytes) (h : Bytes), (∀ f ∈ fs, IsFrame limit f) →
      h ++ chunks.flatten = fs.flatten ++ t →
      (match fs with | [] => True | g :: _ => ∃ z, z ≠ [] ∧ g = h ++ z) →
      refRun (spec limit) h chunks = (t, fs.map Item.frame) := by
  have L := spec_prog limit
  intro chunks
  induction chunks with
  | nil =>
    intro fs h hfs hcat hpre
    simp only [List.flatten_nil, List.append_nil] at hcat
    cases fs with
    | nil => simp only [List.flatten_nil, List.nil_append] at hcat; subst hcat; rfl
    | cons g gs =>
      obtain ⟨z, hz, hg⟩ := hpre
      have hzl : 0 < z.length := List.length_pos_iff.mpr hz
      have := congrArg List.length hcat
      rw [hg] at this
      simp only [List.flatten_cons, List.length_append] at this
      omega
  | cons c cs ih =>
    intro fs h hfs hcat hpre
    simp only [List.flatten_cons] at hcat
    obtain ⟨fs1, fs2, t', e1, e2, e3, e4⟩ :=
      prefix_decomp fs (fun f hf => (hfs f hf).ne) t (h ++ c) cs.flatten (by simpa [List.append_assoc] using hcat)
    have hfs1 : ∀ f ∈ fs1, IsFrame limit f := fun f hf => hfs f (by rw [e1]; simp [hf])
    have hfs2 : ∀ f ∈ fs2, IsFrame limit f := fun f hf => hfs f (by rw [e1]; simp [hf])
    -- the retained part is a proper prefix of the next frame, or a prefix of the tail
    have ht' : goodRest t' = true ∧ (t' = [] ∨ spec limit t' = .need) := by
      by_cases hte : t' = []
      · subst hte; exact ⟨rfl, Or.inl rfl⟩
      · cases fs2 with
        | nil =>
          simp only [List.flatten_nil, List.nil_append] at e3
          exact ⟨goodRest_prefix t' _ (by rw [e3]; exact ht.good) hte, Or.inr (ht.need t' _ e3.symm hte)⟩
        | cons g gs =>
          obtain ⟨z, hz, hg⟩ := e4
          have hgf := hfs2 g (by simp)
          exact ⟨goodRest_prefix t' z (by rw [← hg]; exact hgf.good) hte, Or.inr (hgf.need t' z hg hte hz)⟩
    simp only [refRun]
    rw [Prog.refRecv_eq_decodeW L, e2, decodeW_frames limit fs1 hfs1 t' ht'.1 ht'.2]
    simp only
    rw [ih fs2 t' hfs2 e3 e4, e1]
    simp

end JRaw
end EasyNet
