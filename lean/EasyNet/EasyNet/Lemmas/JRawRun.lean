/-
  Consumer-level consequences for the raw JSON framer: what the copying consumer retains, a decidable criterion for
  incomplete tails, and the run over a stream of well-delimited documents.
-/
import EasyNet.Lemmas.JRawGrammar
namespace EasyNet

/-- After any sequence of reads the copying consumer's own buffer is empty (everything not yet delivered sits in the suspended
    generator), provided every item produced from a fresh generator consumes at least one byte. -/
theorem Consumer.drain_buffer_nil {σ} (init : σ) (feed : σ → Bytes → Res σ)
    (hd : ∀ b d r, feed init b = .done d r → r.length < b.length)
    (hf : ∀ b r, feed init b = .fail r → r.length < b.length) :
    ∀ (fuel : Nat) (c : Consumer σ), c.fr = none → c.buffer.length < fuel →
      (Consumer.drain init feed fuel c).1.buffer = [] := by
  intro fuel
  induction fuel with
  | zero => intro c _ h; omega
  | succ fuel ih =>
    intro c hfr hlen
    unfold Consumer.drain Consumer.next
    by_cases hb : c.buffer.isEmpty
    · have : c.buffer = [] := by simpa using hb
      simp [this]
    · simp only [hb, List.isEmpty_nil, Bool.false_eq_true, and_false, if_false, if_true, hfr]
      cases hfe : feed init c.buffer with
      | need s => simp
      | done d r =>
        simp only
        have := hd _ _ _ hfe
        exact ih ⟨r, none⟩ rfl (by simp only; omega)
      | fail r =>
        simp only
        have := hf _ _ hfe
        exact ih ⟨r, none⟩ rfl (by simp only; omega)

theorem Consumer.recvChunk_buffer_nil {σ} (init : σ) (feed : σ → Bytes → Res σ)
    (hd : ∀ b d r, feed init b = .done d r → r.length < b.length)
    (hf : ∀ b r, feed init b = .fail r → r.length < b.length)
    (c : Consumer σ) (chunk : Bytes) (hc : c.buffer = []) :
    (Consumer.recvChunk init feed c chunk).1.buffer = [] := by
  unfold Consumer.recvChunk Consumer.next
  by_cases h0 : chunk.isEmpty = true ∧ c.buffer.isEmpty = true
  · simp [h0, hc]
  · simp only [h0, if_false]
    cases hfe : feed (match c.fr with | some s => s | none => init) (if chunk.isEmpty = true then c.buffer else c.buffer ++ chunk) with
    | need s => simp
    | done d r => simp only; exact Consumer.drain_buffer_nil init feed hd hf _ ⟨r, none⟩ rfl (by simp)
    | fail r => simp only; exact Consumer.drain_buffer_nil init feed hd hf _ ⟨r, none⟩ rfl (by simp)

theorem Consumer.run_buffer_nil {σ} (init : σ) (feed : σ → Bytes → Res σ)
    (hd : ∀ b d r, feed init b = .done d r → r.length < b.length)
    (hf : ∀ b r, feed init b = .fail r → r.length < b.length) :
    ∀ (chunks : List Bytes) (c : Consumer σ), c.buffer = [] → (Consumer.run init feed c chunks).1.buffer = [] := by
  intro chunks
  induction chunks with
  | nil => intro c hc; simpa [Consumer.run] using hc
  | cons ch chs ih =>
    intro c hc
    simp only [Consumer.run]
    exact ih _ (Consumer.recvChunk_buffer_nil init feed hd hf c ch hc)

namespace JRaw

theorem feed_init_progress (limit : Nat) :
    (∀ b d r, feed limit init b = .done d r → r.length < b.length) ∧
    (∀ b r, feed limit init b = .fail r → r.length < b.length) := by
  have L := spec_prog limit
  constructor
  · intro b d r h
    have := (feed_spec limit init [] b (inv_init limit)).1
    rw [h] at this
    simp only [Res.erase, List.nil_append] at this
    exact L.progress_done b d r this.symm
  · intro b r h
    have := (feed_spec limit init [] b (inv_init limit)).1
    rw [h] at this
    simp only [Res.erase, List.nil_append] at this
    exact L.progress_fail b r this.symm

/-- a generator suspended on no bytes at all holds nothing -/
theorem inv_nil_doc (limit : Nat) (s : State) (h : Inv limit s []) : s.doc = [] := by
  rcases h with ⟨_, hdoc, _⟩ | ⟨_, w, hscan, _⟩
  · exact hdoc
  · simp [sscan] at hscan

/-- **after every read the consumer retains at most `limit` bytes**, whatever was received and however it was cut -/
theorem run_held_le (limit : Nat) (chunks : List Bytes) :
    (Consumer.held (·.doc) (Consumer.run init (feed limit) Consumer.new chunks).1).length ≤ limit := by
  have hsim := Consumer.run_ref (refines limit) chunks Consumer.new [] (Or.inl ⟨rfl, rfl⟩)
  have hp := feed_init_progress limit
  have hnil := Consumer.run_buffer_nil init (feed limit) hp.1 hp.2 chunks Consumer.new rfl
  rcases hsim.2 with ⟨hfr, _⟩ | ⟨s, hfr, _, hinv, _⟩
  · simp [Consumer.held, hfr, hnil]
  · simp only [Consumer.held, hfr]
    exact inv_doc_le limit s _ hinv

/-! ### incomplete tails: a decidable sufficient criterion -/

def isOpened : SOut → Bool
  | .opened _ => true
  | _ => false

/-- `t` does not start with whitespace, is within the limit, and is either an unfinished enclosure document or an
    unterminated run of value bytes -/
def TailOk (limit : Nat) (t : Bytes) : Prop :=
  goodRest t = true ∧ t.length ≤ limit ∧
    (isOpened (sscan .lead 0 t) = true ∨ (sscan .lead 0 t = .plain 0 ∧ t.all isValueByte = true))

instance (limit : Nat) (t : Bytes) : Decidable (TailOk limit t) := by unfold TailOk; infer_instance

theorem plain0_prefix (b y : Bytes) (h : sscan .lead 0 (b ++ y) = .plain 0) (hb : b ≠ []) : sscan .lead 0 b = .plain 0 := by
  have hbl : 0 < b.length := List.length_pos_iff.mpr hb
  have happ := sscan_append b y .lead 0
  rw [h] at happ
  cases hsb : sscan .lead 0 b with
  | opened st' =>
    rw [hsb] at happ; simp only at happ
    have := sscan_plain_bounds y st' (0 + b.length) 0 happ.symm
    omega
  | closed k => rw [hsb] at happ; simp at happ
  | plain w' => rw [hsb] at happ; simp only at happ; rw [← happ]

theorem TailOk.isTail {limit : Nat} {t : Bytes} (h : TailOk limit t) : IsTail limit t := by
  obtain ⟨hgood, hlen, hcase⟩ := h
  refine ⟨hgood, ?_⟩
  intro b x htx hb
  subst htx
  simp only [List.length_append] at hlen
  have hnl : ¬ (b.length > limit) := by omega
  rcases hcase with ho | ⟨hp, hv⟩
  · cases hs : sscan .lead 0 (b ++ x) with
    | opened st =>
      obtain ⟨st'', hst⟩ := sscan_prefix_opened b x .lead 0 st hs
      unfold spec; rw [hst]; simp [hnl]
    | closed k => rw [hs] at ho; simp [isOpened] at ho
    | plain w => rw [hs] at ho; simp [isOpened] at ho
  · have hsb := plain0_prefix b x hp hb
    unfold spec
    rw [hsb]
    simp only [List.drop_zero]
    unfold plainS
    rw [nprintIdx_value b (all_prefix b x _ hv)]
    simp [hnl]

/-! ### the run over well-delimited documents -/

/-- reference run: every chunking of `docs ++ tail` gives exactly the documents and retains the tail -/
theorem refRun_docs (limit : Nat) (docs : List Doc) (hok : ∀ d ∈ docs, d.ok limit) (t : Bytes) (ht : IsTail limit t)
    (chunks : List Bytes) (hcut : chunks.flatten = (docs.map Doc.bytes).flatten ++ t) :
    refRun (spec limit) [] chunks = (t, docs.map (fun d => Item.frame d.bytes)) := by
  have hfs : ∀ f ∈ docs.map Doc.bytes, IsFrame limit f := by
    intro f hf
    simp only [List.mem_map] at hf
    obtain ⟨d, hd, rfl⟩ := hf
    exact d.isFrame limit (hok d hd)
  have := refRun_frames limit t ht chunks (docs.map Doc.bytes) [] hfs (by simpa using hcut)
    (by
      cases hdm : docs.map Doc.bytes with
      | nil => trivial
      | cons g gs =>
        simp only
        exact ⟨g, (hfs g (by rw [hdm]; simp)).ne, by simp⟩)
  rw [this, List.map_map]
  rfl

/-- the consumer over the real framer model: same items -/
theorem run_docs (limit : Nat) (docs : List Doc) (hok : ∀ d ∈ docs, d.ok limit) (t : Bytes) (ht : IsTail limit t)
    (chunks : List Bytes) (hcut : chunks.flatten = (docs.map Doc.bytes).flatten ++ t) :
    (Consumer.run init (feed limit) Consumer.new chunks).2 = docs.map (fun d => Item.frame d.bytes) ∧
    (t = [] → Consumer.held (·.doc) (Consumer.run init (feed limit) Consumer.new chunks).1 = []) := by
  have hsim := Consumer.run_ref (refines limit) chunks Consumer.new [] (Or.inl ⟨rfl, rfl⟩)
  rw [refRun_docs limit docs hok t ht chunks hcut] at hsim
  refine ⟨hsim.1, ?_⟩
  intro ht0
  subst ht0
  rcases hsim.2 with ⟨hfr, hbuf⟩ | ⟨s, hfr, _, hinv, _⟩
  · simp [Consumer.held, hfr, hbuf]
  · simp only [Consumer.held, hfr]
    exact inv_nil_doc limit s hinv

end JRaw
end EasyNet
