/-
  Resumption after a size rejection (C02, second sentence).

  Stream = big ++ sep ++ tail where the first occurrence of the separator in `big ++ sep` is the appended one.
  Whatever the chunking, and however many size errors / fragments are reported for `big`, the separator that
  terminates `big` is never cut through: once it has been consumed, decoding continues exactly as a fresh decoder
  would decode `tail`.  The key fact is that `LimitOverrunError` keeps the longest suffix of the data that is a
  prefix of the separator (`stripToSepPrefix`).
-/
import EasyNet.Lemmas.RUSpec
import EasyNet.Lemmas.BRUSpec
namespace EasyNet

/-- `stripToSepPrefix` returns a suffix of its argument … -/
theorem stripToSepPrefix_suffix (sep x : Bytes) : ∃ m, m ≤ x.length ∧ stripToSepPrefix sep x = x.drop m := by
  induction x with
  | nil => exact ⟨0, Nat.le_refl _, rfl⟩
  | cons a xs ih =>
    unfold stripToSepPrefix
    split
    · exact ⟨0, Nat.zero_le _, rfl⟩
    · obtain ⟨m, hm, he⟩ := ih
      exact ⟨m + 1, by simp; omega, by simpa using he⟩

/-- … the *longest* one that is a prefix of the separator: any suffix `x.drop m'` that is a prefix of `sep` is kept -/
theorem stripToSepPrefix_longest (sep x : Bytes) (m' : Nat) (hm' : m' ≤ x.length)
    (hpre : (x.drop m').take sep.length = sep.take (x.drop m').length) :
    ∃ m, m ≤ m' ∧ stripToSepPrefix sep x = x.drop m := by
  induction x generalizing m' with
  | nil => exact ⟨0, Nat.zero_le _, rfl⟩
  | cons a xs ih =>
    unfold stripToSepPrefix
    split
    · exact ⟨0, Nat.zero_le _, rfl⟩
    · rename_i hne
      cases m' with
      | zero =>
        exfalso; apply hne
        simp only [List.drop_zero] at hpre
        simp [hpre]
      | succ k =>
        have hk : k ≤ xs.length := by simp at hm'; omega
        obtain ⟨m, hm, he⟩ := ih k hk (by simpa using hpre)
        exact ⟨m + 1, by omega, by simpa using he⟩

theorem matchAt_drop (sep X : Bytes) (k i : Nat) : matchAt sep (X.drop k) i = matchAt sep X (k + i) := by
  unfold matchAt
  rw [List.drop_drop]

/-- the first occurrence of `sep` in a suffix of `big ++ sep` is still the appended one -/
theorem firstOcc_suffix (sep big : Bytes) (hsep : sep ≠ []) (hbig : firstOcc sep (big ++ sep) = some big.length)
    (k : Nat) (hk : k ≤ big.length) : firstOcc sep (big.drop k ++ sep) = some (big.length - k) := by
  have hpos : 0 < sep.length := List.length_pos_iff.mpr hsep
  unfold firstOcc findFrom at hbig ⊢
  have hs := findIn_some _ _ _ _ _ hbig
  have hX : big.drop k ++ sep = (big ++ sep).drop k := by
    rw [List.drop_append_of_le_length hk]
  apply findIn_eq_some sep _ 0 _ (big.length - k) hsep (Nat.zero_le _)
  · simp
  · rw [hX, matchAt_drop]
    have : k + (big.length - k) = big.length := by omega
    rw [this]; exact hs.2.2.1
  · intro j _ hj
    rw [hX, matchAt_drop]
    exact hs.2.2.2 (k + j) (Nat.zero_le _) (by omega)

theorem limitRemainder_found (sep b : Bytes) (i : Nat) (hsep : sep ≠ []) (hm : matchAt sep b i = true) :
    limitRemainder b i sep = b.drop (i + sep.length) := by
  have hpos : 0 < sep.length := List.length_pos_iff.mpr hsep
  unfold limitRemainder
  have h0 : ¬ (sep.length = 0) := by omega
  simp only [h0, if_false]
  unfold matchAt at hm
  simp only [hm, if_true]
  try rw [List.drop_drop]

/-- **The separator is never cut through.**  `b` (no complete separator inside) is a prefix of `pre ++ sep ++ …`;
    the remainder kept by the size error is a suffix of `b` that starts at or before the end of `pre`. -/
theorem limitRemainder_notfound (sep b rest pre tl : Bytes) (hsep : sep ≠ [])
    (hnone : firstOcc sep b = none) (hpre : firstOcc sep (pre ++ sep) = some pre.length)
    (heq : b ++ rest = pre ++ sep ++ tl) :
    ∃ m, m ≤ pre.length ∧ m ≤ b.length ∧ limitRemainder b (b.length + 1 - sep.length) sep = b.drop m := by
  have hpos : 0 < sep.length := List.length_pos_iff.mpr hsep
  have hfo : firstOcc sep (b ++ rest) = some pre.length := by
    rw [heq]; exact firstOcc_append_some sep (pre ++ sep) tl pre.length hsep hpre
  have hshort := firstOcc_prefix_short sep b rest pre.length hsep hfo hnone
  -- the remainder is `stripToSepPrefix` of the last |sep|-1 bytes
  have hxlen : (b.drop (b.length + 1 - sep.length)).length < sep.length := by simp; omega
  have hlr : limitRemainder b (b.length + 1 - sep.length) sep = stripToSepPrefix sep (b.drop (b.length + 1 - sep.length)) := by
    unfold limitRemainder
    have h0 : ¬ (sep.length = 0) := by omega
    simp only [h0, if_false]
    have : ¬ ((b.drop (b.length + 1 - sep.length)).take sep.length == sep) = true := by
      intro hc
      have := eq_of_beq hc
      have hl : ((b.drop (b.length + 1 - sep.length)).take sep.length).length = sep.length := by rw [this]
      simp at hl; omega
    simp only [this, Bool.false_eq_true, if_false]
  rw [hlr]
  by_cases hle : b.length ≤ pre.length
  · obtain ⟨m0, hm0, he⟩ := stripToSepPrefix_suffix sep (b.drop (b.length + 1 - sep.length))
    refine ⟨(b.length + 1 - sep.length) + m0, ?_, ?_, ?_⟩
    · simp at hm0; omega
    · simp at hm0; omega
    · rw [he, List.drop_drop]
  · -- `b` reaches into the terminator: its last j bytes are `sep.take j`
    have hj : b.length - pre.length < sep.length := by omega
    have hb : b = pre ++ sep.take (b.length - pre.length) := by
      have h1 : (pre ++ sep ++ tl).take b.length = b := by rw [← heq]; simp
      have h2 : (pre ++ sep ++ tl).take b.length = pre ++ sep.take (b.length - pre.length) := by
        rw [List.append_assoc, List.take_append, List.take_of_length_le (by omega),
          List.take_append_of_le_length (by omega)]
      exact h1.symm.trans h2
    have hc : b.length + 1 - sep.length ≤ pre.length := by omega
    have hm' : pre.length - (b.length + 1 - sep.length) ≤ (b.drop (b.length + 1 - sep.length)).length := by simp; omega
    have hdrop : (b.drop (b.length + 1 - sep.length)).drop (pre.length - (b.length + 1 - sep.length)) = sep.take (b.length - pre.length) := by
      rw [List.drop_drop]
      have : b.length + 1 - sep.length + (pre.length - (b.length + 1 - sep.length)) = pre.length := by omega
      rw [this]
      conv => lhs; rw [hb]
      rw [List.drop_append_of_le_length (Nat.le_refl _)]
      simp
    obtain ⟨m0, hm0, he⟩ := stripToSepPrefix_longest sep (b.drop (b.length + 1 - sep.length))
      (pre.length - (b.length + 1 - sep.length)) hm' (by
        rw [hdrop]
        simp only [List.length_take]
        rw [List.take_take]
        congr 1
        omega)
    refine ⟨(b.length + 1 - sep.length) + m0, by omega, by omega, ?_⟩
    rw [he, List.drop_drop]

/-- what the resumption argument needs to know about a separator spec -/
structure SepSpec (sep : Bytes) (spec : Bytes → SRes) : Prop where
  done_pos : ∀ b d r, spec b = .done d r → ∃ i, firstOcc sep b = some i ∧ r = b.drop (i + sep.length)
  fail_cases : ∀ b r, spec b = .fail r →
    (∃ i, firstOcc sep b = some i ∧ r = b.drop (i + sep.length)) ∨
    (firstOcc sep b = none ∧ r = limitRemainder b (b.length + 1 - sep.length) sep)
  need_none : ∀ b, spec b = .need → firstOcc sep b = none

theorem RU.sepSpec (sep : Bytes) (limit : Nat) (ke : Bool) (hsep : sep ≠ []) : SepSpec sep (RU.spec sep limit ke) := by
  constructor
  · intro b d r h
    unfold RU.spec at h
    cases hf : firstOcc sep b with
    | none => rw [hf] at h; simp only at h; split at h <;> cases h
    | some i =>
      rw [hf] at h; simp only at h
      split at h
      · cases h
      · injection h with _ hr; exact ⟨i, rfl, hr.symm⟩
  · intro b r h
    unfold RU.spec at h
    cases hf : firstOcc sep b with
    | none =>
      rw [hf] at h; simp only at h
      split at h
      · injection h with hr; right; exact ⟨rfl, hr.symm⟩
      · cases h
    | some i =>
      rw [hf] at h; simp only at h
      split at h
      · injection h with hr
        left
        have hs := findIn_some _ _ _ _ _ (by unfold firstOcc findFrom at hf; exact hf)
        exact ⟨i, rfl, by rw [← hr, limitRemainder_found sep b i hsep hs.2.2.1]⟩
      · cases h
  · intro b h
    unfold RU.spec at h
    cases hf : firstOcc sep b with
    | none => rfl
    | some i => rw [hf] at h; simp only at h; split at h <;> cases h

theorem BRU.sepSpec (sep : Bytes) (cap : Nat) (ke : Bool) : SepSpec sep (BRU.spec sep cap ke) := by
  constructor
  · intro b d r h
    unfold BRU.spec at h
    cases hf : firstOcc sep b with
    | none => rw [hf] at h; simp only at h; split at h <;> cases h
    | some i => rw [hf] at h; simp only at h; injection h with _ hr; exact ⟨i, rfl, hr.symm⟩
  · intro b r h
    unfold BRU.spec at h
    cases hf : firstOcc sep b with
    | none =>
      rw [hf] at h; simp only at h
      split at h
      · injection h with hr; right; exact ⟨rfl, hr.symm⟩
      · cases h
    | some i => rw [hf] at h; simp only at h; cases h
  · intro b h
    unfold BRU.spec at h
    cases hf : firstOcc sep b with
    | none => rfl
    | some i => rw [hf] at h; simp only at h; cases h

section
variable {sep : Bytes} {spec : Bytes → SRes} {ok : Bytes → Prop}

/-- decoding `b`, a prefix of `big.drop k ++ sep ++ tail`: either we are still in front of the terminator of `big`
    (possibly further inside `big`), or the terminator has been consumed and what follows is the decoding of the
    part `t1` of `tail` received so far — preceded by at least one item for `big` -/
theorem decodeW_resume (hsep : sep ≠ []) (SS : SepSpec sep spec) (L : SpecLaws spec ok) (big tail : Bytes)
    (hbig : firstOcc sep (big ++ sep) = some big.length) :
    ∀ (n : Nat) (b : Bytes), b.length ≤ n → ∀ (k : Nat) (rest : Bytes), k ≤ big.length →
      b ++ rest = big.drop k ++ sep ++ tail →
      (∃ k', k ≤ k' ∧ k' ≤ big.length ∧ (decodeW spec b).1 ++ rest = big.drop k' ++ sep ++ tail) ∨
      (∃ junk t1, junk ≠ [] ∧ (decodeW spec b).2 = junk ++ (decodeW spec t1).2 ∧
          (decodeW spec b).1 = (decodeW spec t1).1 ∧ t1 ++ rest = tail) := by
  have hpos : 0 < sep.length := List.length_pos_iff.mpr hsep
  intro n
  induction n with
  | zero =>
    intro b hb k rest hk heq
    have : b = [] := List.eq_nil_of_length_eq_zero (by omega)
    subst this
    left
    refine ⟨k, Nat.le_refl _, hk, ?_⟩
    rw [decodeW_unfold L]; simpa using heq
  | succ n ih =>
    intro b hb k rest hk heq
    by_cases he : b.isEmpty
    · have : b = [] := by simpa using he
      subst this
      left
      refine ⟨k, Nat.le_refl _, hk, ?_⟩
      rw [decodeW_unfold L]; simpa using heq
    · have hunf := decodeW_unfold L b
      simp only [he, Bool.false_eq_true, if_false] at hunf
      -- the first occurrence of the separator in the remaining stream is the terminator of `big`
      have hfirst : firstOcc sep (b ++ rest) = some (big.length - k) := by
        rw [heq]
        exact firstOcc_append_some sep (big.drop k ++ sep) tail _ hsep (firstOcc_suffix sep big hsep hbig k hk)
      -- consuming a frame that ends with that terminator leaves exactly a prefix of `tail`
      have hpast : ∀ i r, firstOcc sep b = some i → r = b.drop (i + sep.length) → r ++ rest = tail := by
        intro i r hfi hr
        have := firstOcc_append_some sep b rest i hsep hfi
        rw [hfirst] at this
        injection this with hi
        have hs := findIn_some _ _ _ _ _ (by unfold firstOcc findFrom at hfi; exact hfi)
        have h1 : (b ++ rest).drop (i + sep.length) = r ++ rest := by
          rw [List.drop_append_of_le_length (by omega), hr]
        rw [← h1, heq, ← hi]
        have hl : (big.drop k ++ sep).length = big.length - k + sep.length := by simp
        rw [← hl, List.drop_append_of_le_length (Nat.le_refl _), List.drop_length]
        simp
      cases hs : spec b with
      | need =>
        rw [hs] at hunf
        left
        exact ⟨k, Nat.le_refl _, hk, by rw [hunf]; exact heq⟩
      | done d r =>
        rw [hs] at hunf
        obtain ⟨i, hfi, hr⟩ := SS.done_pos b d r hs
        right
        refine ⟨[Item.frame d], r, by simp, ?_, ?_, hpast i r hfi hr⟩
        · rw [hunf]; rfl
        · rw [hunf]
      | fail r =>
        rw [hs] at hunf
        rcases SS.fail_cases b r hs with ⟨i, hfi, hr⟩ | ⟨hnone, hr⟩
        · right
          refine ⟨[Item.limit], r, by simp, ?_, ?_, hpast i r hfi hr⟩
          · rw [hunf]; rfl
          · rw [hunf]
        · -- size error before the terminator was complete: the kept remainder still contains what was received of it
          have hpre : firstOcc sep (big.drop k ++ sep) = some (big.drop k).length := by
            rw [firstOcc_suffix sep big hsep hbig k hk]; simp
          obtain ⟨m, hm1, hm2, hrm⟩ := limitRemainder_notfound sep b rest (big.drop k) tail hsep hnone hpre heq
          rw [← hr] at hrm
          have hm1' : m ≤ big.length - k := by simpa using hm1
          have hlt := L.progress_fail b r hs
          have heq' : r ++ rest = big.drop (k + m) ++ sep ++ tail := by
            rw [hrm]
            have : b.drop m ++ rest = (b ++ rest).drop m := by rw [List.drop_append_of_le_length hm2]
            rw [this, heq, List.append_assoc, List.drop_append_of_le_length (by simp; omega), List.drop_drop,
              List.append_assoc]
          rcases ih r (by omega) (k + m) rest (by omega) heq' with ⟨k', hk1, hk2, hh⟩ | ⟨junk, t1, hj, h1, h2, h3⟩
          · left
            exact ⟨k', by omega, hk2, by rw [hunf]; exact hh⟩
          · right
            refine ⟨Item.limit :: junk, t1, by simp, ?_, ?_, h3⟩
            · rw [hunf]; simp [h1]
            · rw [hunf]; exact h2

/-- **Resumption, reference level.**  Whatever the chunking of `big ++ sep ++ tail`, the items delivered are some
    non-empty junk for `big` followed by exactly what a fresh decoder delivers for `tail` (cut as the chunking cuts it). -/
theorem refRun_resume (hsep : sep ≠ []) (SS : SepSpec sep spec) (L : SpecLaws spec ok) (big tail : Bytes)
    (hbig : firstOcc sep (big ++ sep) = some big.length) :
    ∀ (cs : List Bytes) (h : Bytes) (k : Nat), (h = [] ∨ spec h = .need) → k ≤ big.length →
      h ++ cs.flatten = big.drop k ++ sep ++ tail →
      ∃ junk cs', junk ≠ [] ∧ cs'.flatten = tail ∧ (refRun spec h cs).2 = junk ++ (refRun spec [] cs').2 ∧
        (refRun spec h cs).1 = (refRun spec [] cs').1 := by
  have hpos : 0 < sep.length := List.length_pos_iff.mpr hsep
  intro cs
  induction cs with
  | nil =>
    intro h k hheld hk heq
    exfalso
    simp only [List.flatten_nil, List.append_nil] at heq
    have hfo : firstOcc sep h = some (big.length - k) := by
      rw [heq]
      exact firstOcc_append_some sep (big.drop k ++ sep) tail _ hsep (firstOcc_suffix sep big hsep hbig k hk)
    rcases hheld with hnil | hneed
    · subst hnil
      rw [firstOcc_none_nil sep hsep] at hfo; cases hfo
    · rw [SS.need_none h hneed] at hfo; cases hfo
  | cons c cs ih =>
    intro h k hheld hk heq
    simp only [refRun]
    rw [refRecv_eq_decodeW L]
    have heq' : (h ++ c) ++ cs.flatten = big.drop k ++ sep ++ tail := by
      rw [← heq]; simp [List.append_assoc]
    rcases decodeW_resume hsep SS L big tail hbig (h ++ c).length (h ++ c) (Nat.le_refl _) k cs.flatten hk heq' with
      ⟨k', _, hk2, hh⟩ | ⟨junk, t1, hj, h1, h2, h3⟩
    · obtain ⟨junk, cs', hj, hfl, hi1, hi2⟩ := ih _ k' (decodeW_held L _) hk2 hh
      refine ⟨(decodeW spec (h ++ c)).2 ++ junk, cs', by simp [hj], hfl, ?_, hi2⟩
      rw [hi1]; simp [List.append_assoc]
    · refine ⟨junk, t1 :: cs, hj, by simpa using h3, ?_, ?_⟩
      · simp only [refRun, List.nil_append]
        rw [refRecv_eq_decodeW L, List.nil_append, h1, h2]
        simp [List.append_assoc]
      · simp only [refRun, List.nil_append]
        rw [refRecv_eq_decodeW L, List.nil_append, h2]

end

end EasyNet
