/-
  C14 — a static analysis of close-path programs and its soundness w.r.t. `exec`, for every decision list.

    CN t p    "if p completes normally, flag t is set"
    CRc t p   "if p raises a cancellation (external or from a cancel scope), flag t is set"
    CRe t p   "if p raises an error (OSError / TimeoutError), flag t is set"
  (flags are never cleared, so a flag set before stays set).
-/
import EasyNet.Model.ClosePaths
namespace EasyNet.C14

mutual
  def CN (t : Tgt) : Prog → Bool
    | .skip => false
    | .mark t' => t == t'
    | .await => false
    | .park => false
    | .raiseErr => true
    | .seq a b => CN t a || CN t b
    | .many _ => false
    | .tryExcept b _ => CN t b
    | .tryExceptCancel b _ => CN t b
    | .tryFinally b f => CN t b || CN t f
    | .suppressErr b => CN t b && CRe t b
    | .moveOnAfter b c n => (CN t b || CN t n) && (CRc t b || CN t c)
    | .forcefully b => CN t b && CRc t b
    | .timeoutScope b => CN t b
    | .ifFlag t' a b => if t = t' then CN t b else CN t a && CN t b
  def CRc (t : Tgt) : Prog → Bool
    | .skip => true
    | .mark _ => true
    | .await => false
    | .park => false
    | .raiseErr => true
    | .seq a b => CRc t a && (CN t a || CRc t b)
    | .many a => CRc t a
    | .tryExcept b h => (CRc t b && CRe t b) || (CN t h && CRc t h && CRe t h)
    | .tryExceptCancel b h => CRc t b || (CN t h && CRc t h)
    | .tryFinally b f => ((CRc t b && CRe t b) || (CN t f && CRc t f && CRe t f)) && (CN t b || CRc t f)
    | .suppressErr b => CRc t b
    | .moveOnAfter b c n => CRc t b && (CN t b || CRc t n) && CRc t c
    | .forcefully b => CRc t b
    | .timeoutScope b => CRc t b
    | .ifFlag t' a b => if t = t' then CRc t b else CRc t a && CRc t b
  def CRe (t : Tgt) : Prog → Bool
    | .skip => true
    | .mark _ => true
    | .await => false
    | .park => true
    | .raiseErr => false
    | .seq a b => CRe t a && (CN t a || CRe t b)
    | .many _ => false
    | .tryExcept b h => (CRc t b && CRe t b) || (CN t h && CRc t h && CRe t h)
    | .tryExceptCancel b h => CRe t b && (CRc t b || CRe t h)
    | .tryFinally b f => ((CRc t b && CRe t b) || (CN t f && CRc t f && CRe t f)) && (CN t b || CRe t f)
    | .suppressErr _ => true
    | .moveOnAfter b c n => CRe t b && (CN t b || CRe t n) && (CRc t b || CRe t c)
    | .forcefully b => CRe t b
    | .timeoutScope b => CRe t b && CRc t b
    | .ifFlag t' a b => if t = t' then CRe t b else CRe t a && CRe t b
end

/-- what the analysis promises about flag `t` for an outcome -/
def guar (t : Tgt) (p : Prog) : Out → Bool
  | .ok => CN t p
  | .raised e => if isCancel e then CRc t p else CRe t p

/-- all three: whatever happens, the flag is set -/
def CAll (t : Tgt) (p : Prog) : Bool := CN t p && CRc t p && CRe t p

theorem St.has_set_self (s : St) (t : Tgt) : (s.set t).has t = true := by
  unfold St.set
  split
  · assumption
  · simp [St.has]

theorem St.has_set_mono (s : St) (t t' : Tgt) (h : s.has t' = true) : (s.set t).has t' = true := by
  unfold St.set
  split
  · exact h
  · simp only [St.has, List.contains_cons, List.contains_iff_mem, Bool.or_eq_true, beq_iff_eq] at h ⊢
    exact Or.inr h

/-- soundness of the analysis for one program -/
def Sound (p : Prog) : Prop :=
  ∀ (env : Env) (ds : List Dec) (st : St) (t : Tgt),
    (st.has t = true ∨ guar t p (exec p env ds st).out = true) → (exec p env ds st).st.has t = true

theorem suspend_st (c : Bool) (env : Env) (ds : List Dec) (st : St) : (suspend c env ds st).st = st := by
  unfold suspend
  cases ds with
  | nil => cases env.forced <;> rfl
  | cons d rest =>
    cases env.forced with
    | some f => simp only; split <;> rfl
    | none =>
      cases d <;> simp only
      · split <;> rfl
      · cases env.timed <;> rfl
      · split <;> rfl

theorem suspend_park_not_err (env : Env) (ds : List Dec) (st : St) (e : Exc)
    (h : (suspend false env ds st).out = .raised e) : isCancel e = true := by
  unfold suspend at h
  cases ds with
  | nil =>
    cases hf : env.forced <;> simp [hf] at h
    subst h; rfl
  | cons d rest =>
    cases hf : env.forced with
    | some f =>
      simp only [hf] at h
      split at h <;> (simp at h; subst h; rfl)
    | none =>
      simp only [hf] at h
      cases d <;> simp at h
      · subst h; rfl
      · cases ht : env.timed <;> simp [ht] at h
        subst h; rfl

theorem sound_skip : Sound .skip := by
  intro env ds st t h
  simpa [exec, guar, CN] using h

theorem sound_mark (t' : Tgt) : Sound (.mark t') := by
  intro env ds st t h
  simp only [exec, guar, CN] at h ⊢
  rcases h with h | h
  · exact St.has_set_mono _ _ _ h
  · have : t = t' := by simpa using h
    subst this
    exact St.has_set_self _ _

theorem sound_await : Sound .await := by
  intro env ds st t h
  simp only [exec, suspend_st]
  rcases h with h | h
  · exact h
  · simp only [exec, guar] at h
    split at h
    · simp [CN] at h
    · split at h <;> simp [CRc, CRe] at h

theorem sound_park : Sound .park := by
  intro env ds st t h
  simp only [exec, suspend_st]
  rcases h with h | h
  · exact h
  · simp only [exec, guar] at h
    split at h
    · simp [CN] at h
    · rename_i e he
      have := suspend_park_not_err env ds st e he
      simp [this, CRc] at h

theorem sound_raiseErr : Sound .raiseErr := by
  intro env ds st t h
  simp only [exec] at h ⊢
  rcases h with h | h
  · exact h
  · simp [guar, isCancel, CRe] at h

theorem sound_seq (a b : Prog) (ha : Sound a) (hb : Sound b) : Sound (.seq a b) := by
  intro env ds st t h
  have A := ha env ds st t
  simp only [exec] at h ⊢
  cases hra : exec a env ds st with
  | mk o st' ds' =>
    rw [hra] at A h
    cases o with
    | ok =>
      simp only at h ⊢
      have B := hb env ds' st' t
      apply B
      rcases h with h | h
      · exact Or.inl (A (Or.inl h))
      · simp only [guar] at h A
        cases hrb : (exec b env ds' st').out with
        | ok =>
          rw [hrb] at h
          simp only [CN, Bool.or_eq_true] at h
          rcases h with h | h
          · exact Or.inl (A (Or.inr h))
          · right; simp [guar, h]
        | raised e =>
          rw [hrb] at h
          by_cases hc : isCancel e
          · simp only [hc, if_true, CRc, Bool.and_eq_true, Bool.or_eq_true] at h
            rcases h.2 with h2 | h2
            · exact Or.inl (A (Or.inr h2))
            · right; simp [guar, hc, h2]
          · simp only [hc, Bool.false_eq_true, if_false, CRe, Bool.and_eq_true, Bool.or_eq_true] at h
            rcases h.2 with h2 | h2
            · exact Or.inl (A (Or.inr h2))
            · right; simp [guar, hc, h2]
    | raised e =>
      simp only at h ⊢
      apply A
      rcases h with h | h
      · exact Or.inl h
      · right
        simp only [guar] at h ⊢
        by_cases hc : isCancel e
        · simp only [hc, if_true, CRc, Bool.and_eq_true] at h ⊢
          exact h.1
        · simp only [hc, Bool.false_eq_true, if_false, CRe, Bool.and_eq_true] at h ⊢
          exact h.1

theorem iterate_sound (a : Prog) (env : Env) (ha : Sound a) :
    ∀ (fuel : Nat) (ds : List Dec) (st : St) (t : Tgt),
      (st.has t = true ∨ guar t (.many a) (iterate (exec a env) fuel ds st).out = true) →
      (iterate (exec a env) fuel ds st).st.has t = true := by
  intro fuel
  induction fuel with
  | zero =>
    intro ds st t h
    simpa [iterate, guar, CN] using h
  | succ fuel ih =>
    intro ds st t h
    cases ds with
    | nil => simpa [iterate, guar, CN] using h
    | cons d rest =>
      unfold iterate at h ⊢
      by_cases hs : d = .stop
      · simpa [hs, guar, CN] using h
      · simp only [hs, if_false] at h ⊢
        by_cases hf : d = .fail
        · simpa [hf, guar, isCancel, CRe] using h
        · simp only [hf, if_false] at h ⊢
          have A := ha env (d :: rest) st t
          cases hra : exec a env (d :: rest) st with
          | mk o st' ds' =>
            rw [hra] at A h
            cases o with
            | ok =>
              simp only at h ⊢
              apply ih
              rcases h with h | h
              · exact Or.inl (A (Or.inl h))
              · exact Or.inr h
            | raised e =>
              simp only at h ⊢
              apply A
              rcases h with h | h
              · exact Or.inl h
              · right
                simp only [guar] at h ⊢
                by_cases hc : isCancel e
                · simpa [hc, CRc] using h
                · simp [hc, CRe] at h

theorem sound_many (a : Prog) (ha : Sound a) : Sound (.many a) := by
  intro env ds st t h
  simp only [exec] at h ⊢
  exact iterate_sound a env ha _ ds st t h

theorem guar_raised (t : Tgt) (p : Prog) (e : Exc) :
    guar t p (.raised e) = (if isCancel e then CRc t p else CRe t p) := rfl

theorem guar_ok (t : Tgt) (p : Prog) : guar t p .ok = CN t p := rfl

theorem sound_tryExcept (b h : Prog) (hb : Sound b) (hh : Sound h) : Sound (.tryExcept b h) := by
  intro env ds st t H
  have B := hb env ds st t
  simp only [exec] at H ⊢
  cases hrb : exec b env ds st with
  | mk o st' ds' =>
    rw [hrb] at B H
    cases o with
    | ok =>
      simp only [guar_ok, CN] at H B ⊢
      exact B H
    | raised e =>
      simp only at H ⊢
      have Hh := hh env ds' st' t
      cases hrh : exec h env ds' st' with
      | mk o2 st'' ds'' =>
        rw [hrh] at Hh H
        cases o2 with
        | ok =>
          simp only [guar_raised, guar_ok, CRc, CRe] at H B Hh ⊢
          by_cases hc : isCancel e <;> simp only [hc, if_true, if_false, Bool.false_eq_true] at H B <;> grind
        | raised e2 =>
          simp only [guar_raised, CRc, CRe] at H B Hh ⊢
          by_cases hc : isCancel e <;> by_cases hc2 : isCancel e2 <;>
            simp only [hc, hc2, if_true, if_false, Bool.false_eq_true] at H B Hh <;> grind

theorem sound_tryExceptCancel (b h : Prog) (hb : Sound b) (hh : Sound h) : Sound (.tryExceptCancel b h) := by
  intro env ds st t H
  have B := hb env ds st t
  simp only [exec] at H ⊢
  cases hrb : exec b env ds st with
  | mk o st' ds' =>
    rw [hrb] at B H
    cases o with
    | ok =>
      simp only [guar_ok, CN] at H B ⊢
      exact B H
    | raised e =>
      simp only at H ⊢
      by_cases hc : isCancel e
      · simp only [hc, if_true] at H ⊢
        have Hh := hh env ds' st' t
        cases hrh : exec h env ds' st' with
        | mk o2 st'' ds'' =>
          rw [hrh] at Hh H
          cases o2 with
          | ok =>
            simp only [guar_raised, guar_ok, CRc, CRe, hc, if_true] at H B Hh ⊢
            grind
          | raised e2 =>
            simp only [guar_raised, CRc, CRe, hc, if_true] at H B Hh ⊢
            by_cases hc2 : isCancel e2 <;> simp only [hc2, if_true, if_false, Bool.false_eq_true] at H Hh <;> grind
      · simp only [hc, Bool.false_eq_true, if_false, guar_raised, CRe] at H B ⊢
        grind

theorem sound_tryFinally (b f : Prog) (hb : Sound b) (hf : Sound f) : Sound (.tryFinally b f) := by
  intro env ds st t H
  have B := hb env ds st t
  simp only [exec] at H ⊢
  cases hrb : exec b env ds st with
  | mk o st' ds' =>
    rw [hrb] at B H
    simp only at H ⊢
    have F := hf env ds' st' t
    cases hrf : exec f env ds' st' with
    | mk o2 st'' ds'' =>
      rw [hrf] at F H
      cases o2 with
      | ok =>
        cases o with
        | ok =>
          simp only [guar_ok, CN] at H B F ⊢
          grind
        | raised e =>
          simp only [guar_raised, guar_ok, CRc, CRe] at H B F ⊢
          by_cases hc : isCancel e <;> simp only [hc, if_true, if_false, Bool.false_eq_true] at H B <;> grind
      | raised e2 =>
        cases o with
        | ok =>
          simp only [guar_raised, guar_ok, CRc, CRe] at H B F ⊢
          by_cases hc2 : isCancel e2 <;> simp only [hc2, if_true, if_false, Bool.false_eq_true] at H F <;> grind
        | raised e =>
          simp only [guar_raised, CRc, CRe] at H B F ⊢
          by_cases hc : isCancel e <;> by_cases hc2 : isCancel e2 <;>
            simp only [hc, hc2, if_true, if_false, Bool.false_eq_true] at H B F <;> grind

theorem isOSError_not_cancel (e : Exc) (h : isOSError e = true) : isCancel e = false := by
  cases e <;> simp_all [isOSError, isCancel]

theorem sound_suppressErr (b : Prog) (hb : Sound b) : Sound (.suppressErr b) := by
  intro env ds st t H
  have B := hb env ds st t
  simp only [exec] at H ⊢
  cases hrb : exec b env ds st with
  | mk o st' ds' =>
    rw [hrb] at B H
    cases o with
    | ok =>
      simp only [guar_ok, CN] at H B ⊢
      grind
    | raised e =>
      simp only at H ⊢
      by_cases ho : isOSError e
      · have hc := isOSError_not_cancel e ho
        simp only [ho, if_true, guar_ok, CN] at H ⊢
        simp only [guar_raised, hc, Bool.false_eq_true, if_false] at B
        grind
      · have hc : isCancel e = true := by
          cases e <;> simp_all [isOSError, isCancel]
        simp only [ho, Bool.false_eq_true, if_false, guar_raised, CRc, CRe, hc, if_true] at H B ⊢
        exact B H

theorem sound_forcefully (b : Prog) (hb : Sound b) : Sound (.forcefully b) := by
  intro env ds st t H
  have B := hb { depth := env.depth + 1, forced := some env.depth, timed := env.timed } ds st t
  simp only [exec] at H ⊢
  cases hrb : exec b { depth := env.depth + 1, forced := some env.depth, timed := env.timed } ds st with
  | mk o st' ds' =>
    rw [hrb] at B H
    cases o with
    | ok =>
      simp only [guar_ok, CN] at H B ⊢
      grind
    | raised e =>
      simp only at H ⊢
      by_cases he : e = .scope env.depth
      · subst he
        simp only [if_true, guar_ok, CN] at H ⊢
        simp only [guar_raised, isCancel, if_true] at B
        grind
      · simp only [he, if_false, guar_raised, CRc, CRe] at H B ⊢
        exact B H

theorem sound_timeoutScope (b : Prog) (hb : Sound b) : Sound (.timeoutScope b) := by
  intro env ds st t H
  have B := hb { depth := env.depth + 1, forced := env.forced, timed := some env.depth } ds st t
  simp only [exec] at H ⊢
  cases hrb : exec b { depth := env.depth + 1, forced := env.forced, timed := some env.depth } ds st with
  | mk o st' ds' =>
    rw [hrb] at B H
    cases o with
    | ok =>
      simp only [guar_ok, CN] at H B ⊢
      exact B H
    | raised e =>
      simp only at H ⊢
      by_cases he : e = .scope env.depth
      · subst he
        simp only [if_true, guar_raised, isCancel, Bool.false_eq_true, if_false, CRe] at H B ⊢
        grind
      · simp only [he, if_false, guar_raised, CRc, CRe] at H B ⊢
        by_cases hc : isCancel e <;> simp only [hc, if_true, if_false, Bool.false_eq_true] at H B <;> grind

theorem sound_moveOnAfter (b c n : Prog) (hb : Sound b) (hc : Sound c) (hn : Sound n) : Sound (.moveOnAfter b c n) := by
  intro env ds st t H
  have B := hb { depth := env.depth + 1, forced := env.forced, timed := some env.depth } ds st t
  simp only [exec] at H ⊢
  cases hrb : exec b { depth := env.depth + 1, forced := env.forced, timed := some env.depth } ds st with
  | mk o st' ds' =>
    rw [hrb] at B H
    cases o with
    | ok =>
      simp only at H ⊢
      have N := hn env ds' st' t
      apply N
      simp only [guar_ok] at B
      cases hro : (exec n env ds' st').out with
      | ok =>
        rw [hro] at H
        simp only [guar_ok, CN] at H ⊢
        grind
      | raised e =>
        rw [hro] at H
        simp only [guar_raised, CRc, CRe] at H ⊢
        by_cases hx : isCancel e <;> simp only [hx, if_true, if_false, Bool.false_eq_true] at H ⊢ <;> grind
    | raised e =>
      simp only at H ⊢
      by_cases he : e = .scope env.depth
      · subst he
        simp only [if_true] at H ⊢
        have C := hc env ds' st' t
        apply C
        simp only [guar_raised, isCancel, if_true] at B
        cases hro : (exec c env ds' st').out with
        | ok =>
          rw [hro] at H
          simp only [guar_ok, CN] at H ⊢
          grind
        | raised e2 =>
          rw [hro] at H
          simp only [guar_raised, CRc, CRe] at H ⊢
          by_cases hx : isCancel e2 <;> simp only [hx, if_true, if_false, Bool.false_eq_true] at H ⊢ <;> grind
      · simp only [he, if_false, guar_raised, CRc, CRe] at H B ⊢
        by_cases hx : isCancel e <;> simp only [hx, if_true, if_false, Bool.false_eq_true] at H B <;> grind

theorem sound_ifFlag (t' : Tgt) (a b : Prog) (ha : Sound a) (hb : Sound b) : Sound (.ifFlag t' a b) := by
  intro env ds st t H
  simp only [exec] at H ⊢
  by_cases hfl : st.has t' = true
  · simp only [hfl, if_true] at H ⊢
    apply ha env ds st t
    by_cases heq : t = t'
    · subst heq
      exact Or.inl hfl
    · rcases H with H | H
      · exact Or.inl H
      · right
        cases hro : (exec a env ds st).out with
        | ok =>
          rw [hro] at H
          simp only [guar_ok, CN, heq, if_false, Bool.and_eq_true] at H ⊢
          exact H.1
        | raised e =>
          rw [hro] at H
          simp only [guar_raised, CRc, CRe, heq, if_false] at H ⊢
          by_cases hx : isCancel e <;> simp only [hx, if_true, if_false, Bool.false_eq_true, Bool.and_eq_true] at H ⊢ <;> exact H.1
  · simp only [hfl, Bool.false_eq_true, if_false] at H ⊢
    apply hb env ds st t
    rcases H with H | H
    · exact Or.inl H
    · right
      cases hro : (exec b env ds st).out with
      | ok =>
        rw [hro] at H
        simp only [guar_ok, CN] at H ⊢
        by_cases heq : t = t' <;> simp only [heq, if_true, if_false, Bool.and_eq_true] at H <;> grind
      | raised e =>
        rw [hro] at H
        simp only [guar_raised, CRc, CRe] at H ⊢
        by_cases hx : isCancel e <;> by_cases heq : t = t' <;>
          simp only [hx, heq, if_true, if_false, Bool.false_eq_true, Bool.and_eq_true] at H ⊢ <;> grind

/-- **soundness of the analysis**, for every program, environment, decision list and start state -/
theorem sound : ∀ p : Prog, Sound p
  | .skip => sound_skip
  | .mark t => sound_mark t
  | .await => sound_await
  | .park => sound_park
  | .raiseErr => sound_raiseErr
  | .seq a b => sound_seq a b (sound a) (sound b)
  | .many a => sound_many a (sound a)
  | .tryExcept b h => sound_tryExcept b h (sound b) (sound h)
  | .tryExceptCancel b h => sound_tryExceptCancel b h (sound b) (sound h)
  | .tryFinally b f => sound_tryFinally b f (sound b) (sound f)
  | .suppressErr b => sound_suppressErr b (sound b)
  | .moveOnAfter b c n => sound_moveOnAfter b c n (sound b) (sound c) (sound n)
  | .forcefully b => sound_forcefully b (sound b)
  | .timeoutScope b => sound_timeoutScope b (sound b)
  | .ifFlag t a b => sound_ifFlag t a b (sound a) (sound b)

/-- corollary used by the property theorems: if the analysis says "set whatever happens", the flag is set at the end
    of every execution -/
theorem closes_always (p : Prog) (t : Tgt) (h : CAll t p = true) (env : Env) (ds : List Dec) (st : St) :
    (exec p env ds st).st.has t = true := by
  apply sound p env ds st t
  right
  simp only [CAll, Bool.and_eq_true] at h
  cases ho : (exec p env ds st).out with
  | ok => simpa [guar] using h.1.1
  | raised e =>
    simp only [guar]
    by_cases hc : isCancel e
    · simpa [hc] using h.1.2
    · simpa [hc] using h.2

end EasyNet.C14
