/-
  C13 — interruption: the scope operations executed by the task itself (the task is the current task) keep the
  invariant.
-/
import EasyNet.Lemmas.CSIntHandles
set_option linter.unusedSimpArgs false
set_option linter.unusedVariables false
namespace EasyNet.CS

theorem mem_insertTimer (x p : Nat × Int × Handle) (l : List (Nat × Int × Handle)) :
    p ∈ insertTimer x l ↔ p = x ∨ p ∈ l := by
  induction l with
  | nil => simp [insertTimer]
  | cons y ys ih =>
    unfold insertTimer
    split
    · simp only [List.mem_cons, ih]
      constructor
      · rintro (h | h | h)
        · exact Or.inr (Or.inl h)
        · exact Or.inl h
        · exact Or.inr (Or.inr h)
      · rintro (h | h | h)
        · exact Or.inr (Or.inl h)
        · exact Or.inl h
        · exact Or.inr (Or.inr h)
    · simp

theorem Running.updScope {k : K} (h : Running k) (s : Nat) (g : Scope → Scope) : Running (k.updScope s g) :=
  h.mono (fun x hx => Or.inl (by simpa using hx)) (fun f => by simp) (by simp) (by simp) (by simp)

theorem Running.callSoon_other {k : K} (h : Running k) (x : Handle) (hw : x.isWake = false) : Running (k.callSoon x) :=
  h.mono (fun y hy => by
    simp only [Q_callSoon, List.mem_append, List.mem_singleton] at hy
    rcases hy with hy | hy
    · exact Or.inl hy
    · subst hy; exact Or.inr hw) (fun f => by simp) (by simp) (by simp) (by simp)

theorem Running.cancelHandle {k : K} (h : Running k) (x : Handle) : Running (k.cancelHandle x) :=
  h.mono (fun y hy => Or.inl (by simp only [Q_cancelHandle, List.mem_filter] at hy; exact hy.1)) (fun f => rfl)
    (by simp) (by simp) (by simp)

theorem Running.callAt {k : K} (h : Running k) (w : Nat) (p : Int) (x : Handle) : Running (k.callAt w p x) :=
  h.mono (fun y hy => Or.inl (by simpa using hy)) (fun f => rfl) (by simp) (by simp) (by simp)

theorem Running.emit {k : K} (h : Running k) (e : Ev) : Running (k.emit e) :=
  h.mono (fun y hy => Or.inl (by simpa using hy)) (fun f => rfl) (by simp) (by simp) (by simp)

theorem Core.emit {ms : List Handle} {k : K} (h : Core ms k) (e : Ev) : Core ms (k.emit e) :=
  h.mono (by simpa using h.sfF) (by simp) (fun x hx => Or.inl (by simpa using hx)) (fun s hs => by simpa using hs)
    (fun p hp => Or.inl (by simpa using hp)) (by simp) (fun s => by simp) (fun s hs => Or.inl (by simpa using hs)) (by simp)
    (fun f o => by simpa [K.futCb] using h.cbs f o)

theorem Core.callAt {ms : List Handle} {k : K} (h : Core ms k) (w : Nat) (p : Int) (x : Handle) (hx : x.isTimer = true) :
    Core ms (k.callAt w p x) :=
  h.mono (by simpa using h.sfF) (by simp) (fun y hy => Or.inl (by simpa using hy)) (fun s hs => by simpa using hs)
    (fun q hq => by
      simp only [K.callAt, mem_insertTimer] at hq
      rcases hq with hq | hq
      · subst hq; exact Or.inr hx
      · exact Or.inl hq)
    (by simp) (fun s => by simp) (fun s hs => Or.inl (by simpa using hs)) (by simp)
    (fun f o => by simpa [K.futCb] using h.cbs f o)

/-! ### `__deliver_cancellation` / `cancel` / timeout set-up / reschedule / pending check, called by the task -/

theorem deliverCur_eq (k : K) (s : Nat) (hd : k.delayed = none) (ha : (scopeOf k.scopes s).active = true) :
    k.deliver s true = (k.updScope s (fun x => { x with cancelH := true })).callSoon (.deliver s) := by
  rw [deliver_nodelay _ _ _ hd]
  simp [scope_eq, ha]

theorem deliverCur_inv (k : K) (s : Nat) {ms : List Handle} (h : Core ms k) (hr : Running k) (hs : s ∈ scopeIds k.frames) :
    Core ms (k.deliver s true) ∧ Running (k.deliver s true) ∧ Handle.deliver s ∈ (k.deliver s true).Q ∧
      (k.deliver s true).frames = k.frames := by
  rw [deliverCur_eq k s h.nodelay (h.st s hs)]
  exact ⟨(h.updScope_harmless s _ (by intro x; rfl) (by intro x; rfl)).callSoon_deliver s (by simpa using hs),
    (hr.updScope s _).callSoon_other _ rfl, by simp, by simp⟩

theorem Core.fill {k : K} {s : Nat} (h : Core [.deliver s] k) (hq : Handle.deliver s ∈ k.Q) : Core [] k := by
  refine ⟨h.sfF, h.sfQ, h.sfT, h.nodelay, h.sorted, h.st, h.act, h.hq, fun s' hs' hc => ?_, h.nbad, h.cbs⟩
  rcases h.ha s' hs' hc with h2 | h2
  · exact Or.inl h2
  · simp only [List.mem_singleton] at h2
    injection h2 with h2
    subst h2
    exact Or.inl hq

theorem scopeCancelCur_inv (k : K) (s : Nat) (h : Core [] k) (hr : Running k) (hs : s ∈ scopeIds k.frames) :
    Core [] (k.scopeCancel s true) ∧ Running (k.scopeCancel s true) ∧ (k.scopeCancel s true).frames = k.frames := by
  unfold K.scopeCancel
  split
  · exact ⟨h, hr, rfl⟩
  · have h1 : Core [.deliver s] (((k.updScope s (fun x => { x with cancelCalled := true })).cancelHandle (.timeoutCancel s)).updScope s
        (fun x => { x with timeoutH := false })) :=
      (((h.markCancelled s).cancelHandle_other _ rfl).updScope_harmless s _ (by intro x; rfl) (by intro x; rfl))
    have hr1 : Running (((k.updScope s (fun x => { x with cancelCalled := true })).cancelHandle (.timeoutCancel s)).updScope s
        (fun x => { x with timeoutH := false })) := ((hr.updScope s _).cancelHandle _).updScope s _
    have := deliverCur_inv _ s h1 hr1 (by simpa using hs)
    exact ⟨this.1.fill this.2.2.1, this.2.1, by rw [this.2.2.2]; simp⟩

theorem setupTimeoutCur_inv (k : K) (s : Nat) (h : Core [] k) (hr : Running k) (hs : s ∈ scopeIds k.frames) :
    Core [] (k.setupTimeout s true) ∧ Running (k.setupTimeout s true) ∧ (k.setupTimeout s true).frames = k.frames := by
  unfold K.setupTimeout
  split
  · exact ⟨h, hr, rfl⟩
  · split
    · exact scopeCancelCur_inv k s h hr hs
    · exact ⟨(h.updScope_harmless s _ (by intro x; rfl) (by intro x; rfl)).callAt _ _ _ rfl,
        (hr.updScope s _).callAt _ _ _, by simp⟩

theorem rescheduleCur_inv (k : K) (s : Nat) (w : Option Nat) (h : Core [] k) (hr : Running k) (hs : s ∈ scopeIds k.frames) :
    Core [] (k.reschedule s w true) ∧ Running (k.reschedule s w true) ∧ (k.reschedule s w true).frames = k.frames := by
  have h1 : Core [] (((k.updScope s (fun x => { x with deadline := w })).cancelHandle (.timeoutCancel s)).updScope s
      (fun x => { x with timeoutH := false })) :=
    (((h.updScope_harmless s _ (by intro x; rfl) (by intro x; rfl)).cancelHandle_other _ rfl).updScope_harmless s _
      (by intro x; rfl) (by intro x; rfl))
  have hr1 : Running (((k.updScope s (fun x => { x with deadline := w })).cancelHandle (.timeoutCancel s)).updScope s
      (fun x => { x with timeoutH := false })) := ((hr.updScope s _).cancelHandle _).updScope s _
  unfold K.reschedule
  split
  · have := setupTimeoutCur_inv _ s h1 hr1 (by simpa using hs)
    exact ⟨this.1, this.2.1, by rw [this.2.2]; simp⟩
  · exact ⟨h1, hr1, by simp⟩

theorem checkPendingFromCur_inv (l : List Nat) : ∀ (k : K), Core [] k → Running k → (∀ p ∈ l, p ∈ scopeIds k.frames) →
    Core [] (k.checkPendingFrom l) ∧ Running (k.checkPendingFrom l) ∧ (k.checkPendingFrom l).frames = k.frames := by
  induction l with
  | nil => intro k h hr _; exact ⟨h, hr, rfl⟩
  | cons p ps ih =>
    intro k h hr hl
    unfold K.checkPendingFrom
    split
    · split
      · have := deliverCur_inv k p h hr (hl p (by simp))
        exact ⟨this.1, this.2.1, this.2.2.2⟩
      · exact ⟨h, hr, rfl⟩
    · exact ih k h hr (fun q hq => hl q (by simp [hq]))

theorem checkPendingCur_inv (k : K) (h : Core [] k) (hr : Running k) :
    Core [] k.checkPending ∧ Running k.checkPending ∧ k.checkPending.frames = k.frames :=
  checkPendingFromCur_inv _ k h hr (fun p hp => hp)

/-! ### entering a scope -/

theorem scopeOf_append_new (l : List Scope) (x : Scope) : scopeOf (l ++ [x]) l.length = x := by
  simp [scopeOf]

theorem Core.same_but_scopes {ms : List Handle} {k k' : K} (h : Core ms k) (hfr : k'.frames = k.frames) (hb : k'.batch = k.batch)
    (hrd : k'.ready = k.ready) (hT : k'.timers = k.timers) (hd : k'.delayed = k.delayed)
    (hact : ∀ s, (scopeOf k'.scopes s).active = (scopeOf k.scopes s).active)
    (hcc : ∀ s, (scopeOf k'.scopes s).cancelCalled = (scopeOf k.scopes s).cancelCalled)
    (hbad : k'.bad = k.bad) (hfuts : k'.futs = k.futs) : Core ms k' := by
  have hQ : k'.Q = k.Q := by simp [K.Q, hb, hrd]
  exact h.mono (by rw [hfr]; exact h.sfF) (by rw [hfr]) (fun x hx => Or.inl (by rw [← hQ]; exact hx))
    (fun s hs => by rw [hQ]; exact hs) (fun p hp => Or.inl (by rw [← hT]; exact hp)) hd hact
    (fun s hs => Or.inl (by rw [← hcc]; exact hs)) hbad (fun f o => by simpa [K.futCb, hfuts] using h.cbs f o)

theorem Running.same_but_scopes {k k' : K} (h : Running k) (hb : k'.batch = k.batch) (hrd : k'.ready = k.ready)
    (hfuts : k'.futs = k.futs) (hw : k'.waiter = k.waiter) (hm : k'.mustCancel = k.mustCancel) (hd : k'.done = k.done) :
    Running k' :=
  h.mono (fun x hx => Or.inl (by simpa [K.Q, hb, hrd] using hx)) (fun f => by simp [K.futCb, hfuts]) hw hm hd

theorem scopeEnter_inv (k : K) (sid : Nat) (to : Bool) (delay : Option Nat) (pre : Bool) (h : Core [] k) (hr : Running k) :
    Core [] (k.scopeEnter sid to delay pre) ∧ Running (k.scopeEnter sid to delay pre) ∧
      (k.scopeEnter sid to delay pre).frames = .scopeF k.scopes.length to :: k.frames := by
  -- the state right after `__enter__` pushed the scope, before the cancellation/timeout is set up
  generalize hk1 : ({ k with
      scopes := k.scopes ++ [(⟨sid, true, pre, false, delay.map (k.now + ·), false, false, k.numCancels, 0⟩ : Scope)],
      frames := .scopeF k.scopes.length to :: k.frames } : K) = k1
  have e_scopes : k1.scopes = k.scopes ++ [(⟨sid, true, pre, false, delay.map (k.now + ·), false, false, k.numCancels, 0⟩ : Scope)] := by
    subst hk1; rfl
  have e_frames : k1.frames = .scopeF k.scopes.length to :: k.frames := by subst hk1; rfl
  have e_Q : k1.Q = k.Q := by subst hk1; rfl
  have hlt : ∀ s ∈ scopeIds k.frames, s < k.scopes.length := fun s hs => h.valid hs
  have hin : k.scopes.length ∈ scopeIds k1.frames := by rw [e_frames]; simp [scopeIds]
  have hc1 : Core (if pre then [.deliver k.scopes.length] else []) k1 := by
    refine ⟨fun fr hfr => ?_, by rw [e_Q]; exact h.sfQ, by subst hk1; exact h.sfT, by subst hk1; exact h.nodelay, ?_,
      fun s hs => ?_, fun s hs => ?_, fun s hs => ?_, fun s hs hc => ?_, by subst hk1; exact h.nbad,
      by subst hk1; exact h.cbs⟩
    · rw [e_frames] at hfr
      rcases List.mem_cons.mp hfr with hfr | hfr
      · subst hfr; rfl
      · exact h.sfF fr hfr
    · rw [e_frames]
      simp only [scopeIds, List.pairwise_cons]
      exact ⟨fun s hs => hlt s hs, h.sorted⟩
    · rw [e_frames] at hs
      simp only [scopeIds, List.mem_cons] at hs
      rw [e_scopes]
      rcases hs with hs | hs
      · subst hs; rw [scopeOf_append_new]
      · rw [scopeOf_append_left _ _ _ (hlt s hs)]; exact h.st s hs
    · rw [e_frames]
      simp only [scopeIds, List.mem_cons]
      rw [e_scopes] at hs
      by_cases hl : s < k.scopes.length
      · rw [scopeOf_append_left _ _ _ hl] at hs; exact Or.inr (h.act s hs)
      · by_cases he : s = k.scopes.length
        · exact Or.inl he
        · rw [scopeOf_invalid _ _ (by simp; omega)] at hs; simp [defaultScope] at hs
    · rw [e_Q] at hs
      rw [e_frames]
      simp only [scopeIds, List.mem_cons]
      exact Or.inr (h.hq s hs)
    · rw [e_frames] at hs
      simp only [scopeIds, List.mem_cons] at hs
      rw [e_scopes] at hc
      rcases hs with hs | hs
      · subst hs
        rw [scopeOf_append_new] at hc
        simp only at hc
        right; simp [hc]
      · rw [scopeOf_append_left _ _ _ (hlt s hs)] at hc
        rcases h.ha s hs hc with h1 | h1
        · exact Or.inl (by rw [e_Q]; exact h1)
        · simp at h1
  have hr1 : Running k1 := by
    subst hk1
    exact hr.mono (fun x hx => Or.inl hx) (fun f => rfl) rfl rfl rfl
  unfold K.scopeEnter
  split
  · rename_i hpre
    simp only [hpre, if_true] at hc1
    rw [hk1]
    have := deliverCur_inv k1 k.scopes.length hc1 hr1 hin
    exact ⟨this.1.fill this.2.2.1, this.2.1, by rw [this.2.2.2, e_frames]⟩
  · rename_i hpre
    have hpre' : pre = false := by simpa using hpre
    simp only [hpre', Bool.false_eq_true, if_false] at hc1
    rw [hk1]
    have := setupTimeoutCur_inv k1 k.scopes.length hc1 hr1 hin
    exact ⟨this.1, this.2.1, by rw [this.2.2, e_frames]⟩

/-! ### leaving a scope -/

theorem uncancelLoop_flags (s : Nat) (m : Msg) (n : Nat) : ∀ (k : K) (s' : Nat),
    (scopeOf (k.uncancelLoop s m n).1.scopes s').active = (scopeOf k.scopes s').active ∧
    (scopeOf (k.uncancelLoop s m n).1.scopes s').cancelCalled = (scopeOf k.scopes s').cancelCalled := by
  induction n with
  | zero => intro k s'; exact ⟨rfl, rfl⟩
  | succ n ih =>
    intro k s'
    unfold K.uncancelLoop
    split
    · simp [scopeOf_updAt_active, scopeOf_updAt_cancelCalled]
    · have := ih ((k.updScope s (fun x => { x with calls := x.calls - 1 })).taskUncancel) s'
      simpa [scopeOf_updAt_active, scopeOf_updAt_cancelCalled] using this

theorem exitCatch_flags (k : K) (s : Nat) (e : Option Exc) (s' : Nat) :
    (scopeOf (k.exitCatch s e).scopes s').active = (scopeOf k.scopes s').active ∧
    (scopeOf (k.exitCatch s e).scopes s').cancelCalled = (scopeOf k.scopes s').cancelCalled := by
  unfold K.exitCatch
  split
  · have := uncancelLoop_flags s ‹Msg› (k.scope s).calls k s'
    simpa [scopeOf_updAt_active, scopeOf_updAt_cancelCalled] using this
  · simp [scopeOf_updAt_active, scopeOf_updAt_cancelCalled]
  · exact ⟨rfl, rfl⟩

theorem dropOwnDelayed_none (k : K) (s : Nat) (h : k.delayed = none) : k.dropOwnDelayed s = k := by
  unfold K.dropOwnDelayed; simp [h]

theorem exitCancelled_inv (k : K) (s : Nat) (e : Option Exc) {ms : List Handle} (h : Core ms k) (hr : Running k) :
    Core ms (k.exitCancelled s e) ∧ Running (k.exitCancelled s e) ∧ (k.exitCancelled s e).frames = k.frames := by
  have h1 : Core ms (k.exitCatch s e) :=
    h.same_but_scopes (by simp) (by simp) (by simp) (by simp) (by simp) (fun s' => (exitCatch_flags k s e s').1)
      (fun s' => (exitCatch_flags k s e s').2) (by simp) (by simp)
  have hr1 : Running (k.exitCatch s e) := hr.same_but_scopes (by simp) (by simp) (by simp) (by simp) (by simp) (by simp)
  have h2 : Core ms ((k.exitCatch s e).undoRemaining s) :=
    h1.same_but_scopes (by simp) (by simp) (by simp) (by simp) (by simp)
      (fun s' => by simp [K.undoRemaining, scopeOf_updAt_active]) (fun s' => by simp [K.undoRemaining, scopeOf_updAt_cancelCalled])
      (by simp) (by simp)
  have hr2 : Running ((k.exitCatch s e).undoRemaining s) :=
    hr1.same_but_scopes (by simp) (by simp) (by simp) (by simp) (by simp) (by simp)
  unfold K.exitCancelled
  split
  · rw [dropOwnDelayed_none _ _ (by simpa using h.nodelay)]
    exact ⟨h2, hr2, by simp⟩
  · rw [dropOwnDelayed_none _ _ (by simpa using h.nodelay)]
    exact ⟨h1, hr1, by simp⟩

theorem pairwise_gt_head_notMem {s : Nat} {l : List Nat} (h : (s :: l).Pairwise (· > ·)) : s ∉ l := by
  intro hm
  have := (List.pairwise_cons.mp h).1 s hm
  omega

/-- `__exit__` of the innermost scope, its `with` frame already popped -/
theorem scopeExitCur_inv (k : K) (s : Nat) (to : Bool) (fs : List Frame) (e : Option Exc)
    (hk : k.frames = .scopeF s to :: fs) (h : Core [] k) (hr : Running k) :
    Core [] (k.pop.scopeExit s e) ∧ Running (k.pop.scopeExit s e) ∧ (k.pop.scopeExit s e).frames = fs := by
  have hsorted : (s :: scopeIds fs).Pairwise (· > ·) := by have := h.sorted; rw [hk] at this; simpa [scopeIds] using this
  have hnot : s ∉ scopeIds fs := pairwise_gt_head_notMem hsorted
  have hstack : scopeIds k.frames = s :: scopeIds fs := by rw [hk]; simp [scopeIds]
  generalize hkA : (((k.pop.cancelHandle (.timeoutCancel s)).cancelHandle (.deliver s)).updScope s
      (fun x => { x with active := false, timeoutH := false, cancelH := false })) = kA
  have eA_frames : kA.frames = fs := by subst hkA; simp [K.pop, hk]
  have eA_Q : kA.Q = (k.Q.filter (· != .timeoutCancel s)).filter (· != .deliver s) := by subst hkA; simp
  have eA_scopes : kA.scopes = updAt k.scopes s (fun x => { x with active := false, timeoutH := false, cancelH := false }) := by
    subst hkA; simp
  have hcA : Core [] kA := by
    refine ⟨fun fr hfr => ?_, fun x hx => ?_, fun p hp => ?_, by subst hkA; simpa using h.nodelay, ?_,
      fun s' hs' => ?_, fun s' hs' => ?_, fun s' hs' => ?_, fun s' hs' hc => ?_, by subst hkA; simpa using h.nbad,
      fun f o => by subst hkA; simpa [K.futCb] using h.cbs f o⟩
    · rw [eA_frames] at hfr; exact h.sfF fr (by rw [hk]; exact List.mem_cons_of_mem _ hfr)
    · rw [eA_Q] at hx
      simp only [List.mem_filter] at hx
      exact h.sfQ x hx.1.1
    · subst hkA
      simp only [K.updScope, K.cancelHandle, K.pop, List.mem_filter] at hp
      exact h.sfT p hp.1.1
    · rw [eA_frames]; exact (List.pairwise_cons.mp hsorted).2
    · rw [eA_frames] at hs'
      have hne : s' ≠ s := fun he => hnot (he ▸ hs')
      rw [eA_scopes, scopeOf_updAt_ne _ _ _ _ hne]
      exact h.st s' (by rw [hstack]; exact List.mem_cons_of_mem _ hs')
    · rw [eA_frames]
      rw [eA_scopes] at hs'
      by_cases hne : s' = s
      · subst hne
        by_cases hv : s' < k.scopes.length
        · rw [scopeOf_updAt_self _ _ _ hv] at hs'; simp at hs'
        · rw [updAt_invalid _ _ _ (by omega), scopeOf_invalid _ _ (by omega)] at hs'; simp [defaultScope] at hs'
      · rw [scopeOf_updAt_ne _ _ _ _ hne] at hs'
        have := h.act s' hs'
        rw [hstack] at this
        rcases List.mem_cons.mp this with h1 | h1
        · exact absurd h1 hne
        · exact h1
    · rw [eA_Q] at hs'
      simp only [List.mem_filter, bne_iff_ne, ne_eq] at hs'
      rw [eA_frames]
      have := h.hq s' hs'.1.1
      rw [hstack] at this
      rcases List.mem_cons.mp this with h1 | h1
      · exact absurd (by rw [h1]) hs'.2
      · exact h1
    · rw [eA_frames] at hs'
      have hne : s' ≠ s := fun he => hnot (he ▸ hs')
      rw [eA_scopes, scopeOf_updAt_ne _ _ _ _ hne] at hc
      rcases h.ha s' (by rw [hstack]; exact List.mem_cons_of_mem _ hs') hc with h1 | h1
      · left
        rw [eA_Q]
        simp only [List.mem_filter, bne_iff_ne, ne_eq]
        refine ⟨⟨h1, by simp⟩, ?_⟩
        intro he; injection he with he; exact hne he
      · simp at h1
  have hrA : Running kA := by
    subst hkA
    exact (((hr.mono (k' := k.pop) (fun x hx => Or.inl hx) (fun f => rfl) rfl rfl rfl).cancelHandle _).cancelHandle _).updScope s _
  unfold K.scopeExit
  rw [hkA]
  split
  · have h2 := exitCancelled_inv kA s e hcA hrA
    have h3 := checkPendingCur_inv _ h2.1 h2.2.1
    exact ⟨h3.1, h3.2.1, by rw [h3.2.2, h2.2.2, eA_frames]⟩
  · have h3 := checkPendingCur_inv _ hcA hrA
    exact ⟨h3.1, h3.2.1, by rw [h3.2.2, eA_frames]⟩

end EasyNet.CS
