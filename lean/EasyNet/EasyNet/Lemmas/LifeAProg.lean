/-
  C18 — progress facts of the asynchronous server machine `Life.A`: which steps are enabled in a reachable state
  (deadlock freedom), and an explicit schedule that brings a stopped, not closed server up again.
-/
import EasyNet.Lemmas.LifeA
namespace EasyNet.Life.A
set_option maxHeartbeats 8000000
set_option linter.unusedSimpArgs false
set_option linter.unusedVariables false

/-- caller `i` can resume (with the first of the outcomes it may choose from) -/
def CanAdv (s : State) (i : Nat) : Prop := (advStep i 0 s.g (s.cs i)).isSome = true

/-- some internal step of the system is enabled: a caller resumes, the listener task runs / dies, a client task
    cancelled by the tear-down dies -/
def Progress (s : State) : Prop :=
  (∃ i, CanAdv s i) ∨ s.g.tasks = .starting ∨ s.g.tasks = .dying ∨ (s.g.clientsDying = true ∧ 0 < s.g.clients)

theorem cancelOuts_ne (g : G) (c : Caller) : (cancelOuts g c)[0]?.isSome = true := by
  unfold cancelOuts; by_cases h1 : c.ext = true <;> by_cases h2 : g.runCancel = true <;> simp [h1, h2]

theorem facOuts_ne (g : G) (c : Caller) (h : c.ext = true ∨ g.runCancel = true ∨ g.facCancel = true) :
    (facOuts g c)[0]?.isSome = true ∧ 0 < (facOuts g c).length := by
  have hc := cancelOuts_ne g c
  unfold facOuts
  by_cases h3 : g.facCancel = true
  · simp [h3]
  · have h3' : g.facCancel = false := by simpa using h3
    have : c.ext = true ∨ g.runCancel = true := by simpa [h3'] using h
    simp only [h3', Bool.false_eq_true, if_false, List.nil_append, not_false_eq_true, or_true, if_true]
    refine ⟨hc, ?_⟩
    cases hl : cancelOuts g c with
    | nil => simp [hl] at hc
    | cons a l => simp

/-- the runner can move, or something it waits for can, unless it is in its main sleep and nobody cancelled it -/
theorem runner_progress {s : State} (I : Inv s) (r : Nat) (hr : (s.cs r).pc.inServe = true)
    (hc : s.g.runCancel = true ∨ s.g.runScope = false) : Progress s := by
  have C := I.ci r
  obtain ⟨c1, c2, c3, c4⟩ := C
  have hco := cancelOuts_ne s.g (s.cs r)
  cases hp : (s.cs r).pc <;> simp only [hp, Pc.inServe] at hr c4 <;> try (cases hr)
  · -- sAct
    have hcan : s.g.runCancel = true := by rcases hc with h | h <;> simp_all
    have := facOuts_ne s.g (s.cs r) (Or.inr (Or.inl hcan))
    exact Or.inl ⟨r, by simp [CanAdv, advStep, hp, hcan, this.1]⟩
  · -- sFac
    have hcan : s.g.runCancel = true := by rcases hc with h | h <;> simp_all
    have := facOuts_ne s.g (s.cs r) (Or.inr (Or.inl hcan))
    exact Or.inl ⟨r, by simp [CanAdv, advStep, hp, hcan, this.1, this.2]⟩
  · -- sInit
    have hcan : s.g.runCancel = true := by rcases hc with h | h <;> simp_all
    exact Or.inl ⟨r, by simp [CanAdv, advStep, hp, hcan, hco]⟩
  · -- sStart
    have hcan : s.g.runCancel = true := by rcases hc with h | h <;> simp_all
    exact Or.inl ⟨r, by simp [CanAdv, advStep, hp, hcan]⟩
  · -- sSleep
    have hcan : s.g.runCancel = true := by rcases hc with h | h <;> simp_all
    exact Or.inl ⟨r, by simp [CanAdv, advStep, hp, hcan]⟩
  · -- sTg
    by_cases hd : s.g.tasks = .dying
    · exact Or.inr (Or.inr (Or.inl hd))
    · by_cases hcl : s.g.clients = 0
      · have ht : s.g.tasks = .none ∨ s.g.tasks = .done := by rcases c4.1 with h | h | h <;> simp_all
        exact Or.inl ⟨r, by simp [CanAdv, advStep, hp, ht, hcl]⟩
      · exact Or.inr (Or.inr (Or.inr ⟨c4.2, by omega⟩))
  · -- sQuit
    exact Or.inl ⟨r, by simp [CanAdv, advStep, hp, hco]⟩

/-- the holder of the close lock can move, or the listener task it waits for can -/
theorem holder_progress {s : State} (I : Inv s) (h : Nat) (hh : (s.cs h).pc.holdsLock = true) : Progress s := by
  obtain ⟨c1, c2, c3, c4⟩ := I.ci h
  cases hp : (s.cs h).pc <;> simp only [hp, Pc.holdsLock] at hh c4 <;> try (cases hh)
  · rename_i w
    by_cases hd : s.g.tasks = .dying
    · exact Or.inr (Or.inr (Or.inl hd))
    · by_cases hw : w = true
      · have ht : s.g.tasks = .none ∨ s.g.tasks = .done := by rcases c4.2 hw with h | h | h <;> simp_all
        exact Or.inl ⟨h, by simp [CanAdv, advStep, hp, ht]⟩
      · exact Or.inl ⟨h, by simp [CanAdv, advStep, hp, hw]⟩
  · exact Or.inl ⟨h, by simp [CanAdv, advStep, hp]⟩

/-- **no deadlock**: in a reachable state either an internal step is enabled, or every caller is between two calls
    or is the runner in its main sleep, not cancelled -/
theorem no_deadlock {s : State} (I : Inv s) :
    Progress s ∨ ∀ i, (s.cs i).pc = .idle ∨
      ((s.cs i).pc = .sSleep ∧ s.g.runner = some i ∧ s.g.runCancel = false ∧ (s.cs i).ext = false) := by
  by_cases hP : Progress s
  · exact Or.inl hP
  · refine Or.inr fun i => ?_
    obtain ⟨c1, c2, c3, c4⟩ := I.ci i
    have hco := cancelOuts_ne s.g (s.cs i)
    cases hp : (s.cs i).pc with
    | idle => exact Or.inl rfl
    | sSleep =>
      refine Or.inr ⟨rfl, by simpa [hp, Pc.inServe] using c1, ?_, ?_⟩
      · by_cases hc : s.g.runCancel = true
        · exact absurd (Or.inl ⟨i, by simp [CanAdv, advStep, hp, hc]⟩) hP
        · simpa using hc
      · by_cases hc : (s.cs i).ext = true
        · exact absurd (Or.inl ⟨i, by simp [CanAdv, advStep, hp, hc]⟩) hP
        · simpa using hc
    | sAct =>
      by_cases hc : (s.cs i).ext = true ∨ s.g.runCancel = true ∨ s.g.facCancel = true
      · have := facOuts_ne s.g (s.cs i) hc
        exact absurd (Or.inl ⟨i, by simp [CanAdv, advStep, hp, hc, this.1]⟩) hP
      · exact absurd (Or.inl ⟨i, by simp [CanAdv, advStep, hp, hc]⟩) hP
    | sFac =>
      by_cases hc : (s.cs i).ext = true ∨ s.g.runCancel = true ∨ s.g.facCancel = true
      · have := facOuts_ne s.g (s.cs i) hc
        refine absurd (Or.inl ⟨i, ?_⟩) hP
        simp only [CanAdv, advStep, hp]
        by_cases hf : s.g.facCancel = true
        · simp [hf, this.1]
        · have hc' : (s.cs i).ext = true ∨ s.g.runCancel = true := by simpa [hf] using hc
          simp [hf, hc', this.1, this.2]
      · have h1 : ¬ s.g.facCancel = true := fun h => hc (Or.inr (Or.inr h))
        have h2 : ¬ ((s.cs i).ext = true ∨ s.g.runCancel = true) := fun h => hc (by rcases h with h | h <;> simp [h])
        have n1 : ¬ (s.g.facCancel = true ∨ (((s.cs i).ext = true ∨ s.g.runCancel = true) ∧
            0 < (facOuts s.g (s.cs i)).length)) := by
          rintro (h | ⟨h, _⟩)
          · exact h1 h
          · exact h2 h
        have n2 : ¬ (((s.cs i).ext = true ∨ s.g.runCancel = true) ∧ 0 ≠ (facOuts s.g (s.cs i)).length) := fun h => h2 h.1
        refine absurd (Or.inl ⟨i, ?_⟩) hP
        simp only [CanAdv, advStep, hp]
        rw [if_neg n1, if_neg n2]
        unfold enterGuard; split <;> simp
    | sInit =>
      refine absurd (Or.inl ⟨i, ?_⟩) hP
      simp only [CanAdv, advStep, hp]; split <;> simp [hco]
    | sStart =>
      simp only [hp] at c4
      by_cases hc : (s.cs i).ext = true ∨ s.g.runCancel = true
      · exact absurd (Or.inl ⟨i, by simp [CanAdv, advStep, hp, hc]⟩) hP
      · rcases c4.1 with ht | ht
        · exact absurd (Or.inr (Or.inl ht)) hP
        · exact absurd (Or.inl ⟨i, by simp [CanAdv, advStep, hp, hc, ht]⟩) hP
    | sTg => exact absurd (runner_progress I i (by simp [hp, Pc.inServe]) (by
        by_cases h : s.g.runCancel = true
        · exact Or.inl h
        · -- tear-down does not need the flag: reuse the sTg case of `runner_progress` through either disjunct
          exact Or.inl (by
            exfalso
            simp only [hp] at c4
            by_cases hd : s.g.tasks = .dying
            · exact hP (Or.inr (Or.inr (Or.inl hd)))
            · by_cases hcl : s.g.clients = 0
              · have ht : s.g.tasks = .none ∨ s.g.tasks = .done := by rcases c4.1 with h | h | h <;> simp_all
                exact hP (Or.inl ⟨i, by simp [CanAdv, advStep, hp, ht, hcl]⟩)
              · exact hP (Or.inr (Or.inr (Or.inr ⟨c4.2, by omega⟩)))))) hP
    | sQuit => exact absurd (Or.inl ⟨i, by simp [CanAdv, advStep, hp, hco]⟩) hP
    | dWoken n => exact absurd (Or.inl ⟨i, by simp [CanAdv, advStep, hp]⟩) hP
    | dWait n =>
      simp only [hp] at c4
      have hrun : s.g.runner ≠ none := fun h => by have := I.gi.shut.mpr h; simp_all
      obtain ⟨r, hr⟩ := Option.ne_none_iff_exists'.mp hrun
      have hrs : (s.cs r).pc.inServe = true := (I.ci r).1.mpr hr
      exact absurd (runner_progress I r hrs c4.2.2) hP
    | cLock =>
      cases hl : s.g.closeLock with
      | none =>
        refine absurd (Or.inl ⟨i, ?_⟩) hP
        simp only [CanAdv, advStep, hp, hl]; unfold closeBody; split <;> simp
      | some h =>
        have hh : (s.cs h).pc.holdsLock = true := (I.ci h).2.1.mpr hl
        exact absurd (holder_progress I h hh) hP
    | cTasks w => exact absurd (holder_progress I i (by simp [hp, Pc.holdsLock])) hP
    | cLs => exact absurd (holder_progress I i (by simp [hp, Pc.holdsLock])) hP


/-- nobody holds the close guard when there is no runner and the server is not closed -/
theorem guard_free {s : State} (I : Inv s) (hrun : s.g.runner = none) (hcb : s.g.factoryCb = true) : s.g.guard = none := by
  cases hg : s.g.guard with
  | none => rfl
  | some j =>
    exfalso
    obtain ⟨c1, c2, c3, c4⟩ := I.ci j
    have hh := c3.mpr hg
    cases hp : (s.cs j).pc <;> simp only [hp, Pc.holdsGuard, Pc.inServe] at hh c1 c4 <;> simp_all

/-- **restartable**: explicit schedule from a stopped, not closed server to `is_serving() = True` -/
theorem restart {s : State} (I : Inv s) (i : Nat) (rest : List Op)
    (hrun : s.g.runner = none) (hcb : s.g.factoryCb = true) (hpc : (s.cs i).pc = .idle)
    (hprog : (s.cs i).prog = .serve :: rest) :
    ∃ ls s', run s ls = some s' ∧ serving s'.g = true ∧ (s'.cs i).pc = .sSleep ∧ s'.g.runner = some i ∧
      (s'.cs i).results = (s.cs i).results := by
  have hsd : s.g.isShutdown = true := I.gi.shut.mpr hrun
  obtain ⟨ht, hl, hrs⟩ := I.gi.idle hrun
  have hg := guard_free I hrun hcb
  have hext : (s.cs i).ext = false := by
    have := (I.ci i).2.2.2; simpa [hpc] using this
  by_cases hsv : s.g.servers = true
  · have hlo := I.gi.lsv hcb hsv
    refine ⟨[.call i, .adv i 0, .taskRun, .adv i 0], ?_⟩
    simp [run, step, callStep, advStep, upd, enterGuard, hpc, hprog, hsd, hcb, hsv, hg, hext, serving, listening, hlo]
    decide
  · have hsv' : s.g.servers = false := by simpa using hsv
    refine ⟨[.call i, .adv i 0, .adv i 0, .adv i 0, .taskRun, .adv i 0], ?_⟩
    simp [run, step, callStep, advStep, upd, enterGuard, hpc, hprog, hsd, hcb, hsv', hg, hext, serving, listening, facOuts, cancelOuts]
    decide

end EasyNet.Life.A
