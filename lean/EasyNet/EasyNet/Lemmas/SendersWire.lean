/-
  C12: the wire invariant.  It rests on the ResourceGuard alone (at most one sender is inside the transport),
  so it holds with and without the lock above the endpoint.
-/
import EasyNet.Lemmas.SendersList
namespace EasyNet.C12
open EasyNet

def PC.isSending : PC → Bool
  | .sending _ => true
  | _ => false

/-- the bytes of the packets listed in `order`, concatenated -/
def flat (cfg : Cfg) (order : List (Tid × Nat)) : Bytes :=
  (order.map (fun p => cfg.pkt p.1 p.2)).flatten

theorem flat_append (cfg : Cfg) (a b : List (Tid × Nat)) : flat cfg (a ++ b) = flat cfg a ++ flat cfg b := by
  simp [flat]

/-! ### field lemmas -/

section fields
variable (cfg : Cfg) (s : Sys) (t : Tid) (o : Outcome)

@[simp] theorem unlock_guard : (s.unlock cfg).1.guard = s.guard := by unfold Sys.unlock; split <;> rfl
@[simp] theorem unlock_wire : (s.unlock cfg).1.wire = s.wire := by unfold Sys.unlock; split <;> rfl
@[simp] theorem unlock_pc : (s.unlock cfg).1.pc = s.pc := by unfold Sys.unlock; split <;> rfl
@[simp] theorem unlock_idx : (s.unlock cfg).1.idx = s.idx := by unfold Sys.unlock; split <;> rfl
@[simp] theorem unlock_res : (s.unlock cfg).1.res = s.res := by unfold Sys.unlock; split <;> rfl
@[simp] theorem unlock_order : (s.unlock cfg).1.order = s.order := by unfold Sys.unlock; split <;> rfl
@[simp] theorem unlock_next : (s.unlock cfg).1.next = s.next := by unfold Sys.unlock; split <;> rfl
@[simp] theorem unlock_ticket : (s.unlock cfg).1.ticket = s.ticket := by unfold Sys.unlock; split <;> rfl
@[simp] theorem unlock_granted : (s.unlock cfg).1.granted = s.granted := by unfold Sys.unlock; split <;> rfl

@[simp] theorem complete_guard : (s.complete t o).guard = s.guard := rfl
@[simp] theorem complete_wire : (s.complete t o).wire = s.wire := rfl
@[simp] theorem complete_lock : (s.complete t o).lock = s.lock := rfl
@[simp] theorem complete_order : (s.complete t o).order = s.order := rfl
@[simp] theorem complete_next : (s.complete t o).next = s.next := rfl
@[simp] theorem complete_ticket : (s.complete t o).ticket = s.ticket := rfl
@[simp] theorem complete_granted : (s.complete t o).granted = s.granted := rfl
@[simp] theorem complete_pc : (s.complete t o).pc = upd s.pc t .idle := rfl
@[simp] theorem complete_idx : (s.complete t o).idx = upd s.idx t (s.idx t + 1) := rfl
@[simp] theorem complete_res : (s.complete t o).res = upd s.res t (s.res t ++ [o]) := rfl

@[simp] theorem grant_guard : (s.grant t).guard = s.guard := rfl
@[simp] theorem grant_wire : (s.grant t).wire = s.wire := rfl
@[simp] theorem grant_lock : (s.grant t).lock = s.lock := rfl
@[simp] theorem grant_order : (s.grant t).order = s.order := rfl
@[simp] theorem grant_idx : (s.grant t).idx = s.idx := rfl
@[simp] theorem grant_res : (s.grant t).res = s.res := rfl
@[simp] theorem grant_next : (s.grant t).next = s.next := rfl
@[simp] theorem grant_ticket : (s.grant t).ticket = s.ticket := rfl
@[simp] theorem grant_pc : (s.grant t).pc = upd s.pc t .holding := rfl
@[simp] theorem grant_granted : (s.grant t).granted = s.granted ++ [s.ticket t] := rfl

end fields

/-! ### the invariant -/

structure WireInv (cfg : Cfg) (s : Sys) : Prop where
  /-- at most one sender is inside the transport -/
  one : ∀ t u, (s.pc t).isSending = true → (s.pc u).isSending = true → t = u
  /-- the guard is held exactly while a sender is inside the transport -/
  guard : s.guard = true ↔ ∃ t, (s.pc t).isSending = true
  /-- the wire = the completed packets, in completion order, followed by a prefix of the packet in flight -/
  wire : ∃ pre, s.wire = flat cfg s.order ++ pre ∧
      (∀ t r, s.pc t = .sending r → cfg.pkt t (s.idx t) = pre ++ r) ∧
      ((∀ t, (s.pc t).isSending = false) → pre = [])
  len : ∀ t, (s.res t).length = s.idx t
  /-- the packets of sender `t` on the wire are exactly its successful calls, in call order -/
  ord : ∀ t, (s.order.filter (fun p => p.1 == t)).map (·.2) = okIdx (s.res t) 0

theorem WireInv.init (cfg : Cfg) : WireInv cfg Sys.init := by
  refine ⟨?_, ?_, ⟨[], ?_, ?_, ?_⟩, ?_, ?_⟩ <;> simp [Sys.init, PC.isSending, flat, okIdx]

/-- Frame lemma: only sender `t` changes; it is not inside the transport before or after; it either stays in its
    current call or finishes it with an outcome that wrote nothing. -/
theorem WireInv.frame {cfg : Cfg} {s s' : Sys} (t : Tid) (h : WireInv cfg s)
    (hg : s'.guard = s.guard) (hw : s'.wire = s.wire) (ho : s'.order = s.order)
    (hpc : ∀ u, u ≠ t → s'.pc u = s.pc u) (hidx : ∀ u, u ≠ t → s'.idx u = s.idx u)
    (hres : ∀ u, u ≠ t → s'.res u = s.res u)
    (hns : (s.pc t).isSending = false) (hns' : (s'.pc t).isSending = false)
    (hcall : (s'.idx t = s.idx t ∧ s'.res t = s.res t) ∨
             (∃ o, o.written = false ∧ s'.idx t = s.idx t + 1 ∧ s'.res t = s.res t ++ [o])) :
    WireInv cfg s' := by
  have hsend : ∀ u, (s'.pc u).isSending = (s.pc u).isSending := by
    intro u
    by_cases hu : u = t
    · subst hu; rw [hns, hns']
    · rw [hpc u hu]
  obtain ⟨pre, hwire, hfl, hq⟩ := h.wire
  refine ⟨?_, ?_, ⟨pre, ?_, ?_, ?_⟩, ?_, ?_⟩
  · intro a b ha hb; rw [hsend] at ha hb; exact h.one a b ha hb
  · rw [hg, h.guard]; simp only [hsend]
  · rw [hw, ho]; exact hwire
  · intro u r hu
    by_cases hut : u = t
    · subst hut; rw [hu] at hns'; simp [PC.isSending] at hns'
    · rw [hpc u hut] at hu; rw [hidx u hut]; exact hfl u r hu
  · intro hall; apply hq; intro u; rw [← hsend]; exact hall u
  · intro u
    by_cases hut : u = t
    · subst hut
      rcases hcall with ⟨h1, h2⟩ | ⟨o, _, h1, h2⟩
      · rw [h1, h2]; exact h.len u
      · rw [h1, h2, List.length_append, h.len u]; rfl
    · rw [hres u hut, hidx u hut]; exact h.len u
  · intro u
    rw [ho]
    by_cases hut : u = t
    · subst hut
      rcases hcall with ⟨_, h2⟩ | ⟨o, hwr, _, h2⟩
      · rw [h2]; exact h.ord u
      · rw [h2, okIdx_append, hwr]; simp [h.ord u]
    · rw [hres u hut]; exact h.ord u

/-- `with self.__send_guard:` succeeds and the transport call starts -/
theorem WireInv.enter_free {cfg : Cfg} {s : Sys} (t : Tid) (h : WireInv cfg s) (hg : s.guard = false)
    : WireInv cfg { s with guard := true, pc := upd s.pc t (.sending (cfg.pkt t (s.idx t))) } := by
  have hnone : ∀ u, (s.pc u).isSending = false := by
    intro u
    cases hu : (s.pc u).isSending with
    | false => rfl
    | true => have := h.guard.2 ⟨u, hu⟩; rw [hg] at this; cases this
  obtain ⟨pre, hwire, hfl, hq⟩ := h.wire
  have hpre : pre = [] := hq hnone
  subst hpre
  refine ⟨?_, ?_, ⟨[], ?_, ?_, ?_⟩, ?_, ?_⟩
  · intro a b ha hb
    simp only [upd_apply] at ha hb
    split at ha
    · split at hb
      · simp_all
      · rw [hnone] at hb; cases hb
    · rw [hnone] at ha; cases ha
  · simp only [true_iff]; exact ⟨t, by simp [PC.isSending]⟩
  · exact hwire
  · intro u r hu
    simp only [upd_apply] at hu
    split at hu
    · rename_i hut; subst hut; simp only [PC.sending.injEq] at hu; simp [hu]
    · have := hnone u; rw [hu] at this; simp [PC.isSending] at this
  · intro _; rfl
  · exact h.len
  · exact h.ord

/-- the transport writes `n` more bytes of the packet in flight -/
theorem WireInv.write {cfg : Cfg} {s : Sys} (t : Tid) (n : Nat) (rest : Bytes) (h : WireInv cfg s)
    (hpc : s.pc t = .sending rest)
    : WireInv cfg { s with wire := s.wire ++ rest.take n, pc := upd s.pc t (.sending (rest.drop n)) } := by
  have ht : (s.pc t).isSending = true := by rw [hpc]; rfl
  have hsend : ∀ u, (upd s.pc t (.sending (rest.drop n)) u).isSending = (s.pc u).isSending := by
    intro u; simp only [upd_apply]; split
    · rename_i hu; subst hu; rw [ht]; rfl
    · rfl
  obtain ⟨pre, hwire, hfl, hq⟩ := h.wire
  refine ⟨?_, ?_, ⟨pre ++ rest.take n, ?_, ?_, ?_⟩, ?_, ?_⟩
  · intro a b ha hb; simp only [hsend] at ha hb; exact h.one a b ha hb
  · simp only [hsend]; exact h.guard
  · simp only [hwire, List.append_assoc]
  · intro u r hu
    simp only [upd_apply] at hu
    split at hu
    · rename_i hut; subst hut
      simp only [PC.sending.injEq] at hu
      rw [hfl u rest hpc, ← hu, List.append_assoc, List.take_append_drop]
    · rename_i hut
      have : (s.pc u).isSending = true := by rw [hu]; rfl
      exact absurd (h.one u t this ht) hut
  · intro hall; have := hall t; simp only [hsend] at this; rw [ht] at this; cases this
  · exact h.len
  · exact h.ord

/-- everything is written, the transport call returns, the guard is left, the call returns with an outcome
    that counts as written -/
theorem WireInv.ret {cfg : Cfg} {s s' : Sys} (t : Tid) (o : Outcome) (h : WireInv cfg s)
    (hpc : s.pc t = .sending []) (ho : o.written = true)
    (hg : s'.guard = false) (hw : s'.wire = s.wire) (hord : s'.order = s.order ++ [(t, s.idx t)])
    (hpc' : s'.pc = upd s.pc t .idle) (hidx : s'.idx = upd s.idx t (s.idx t + 1))
    (hres : s'.res = upd s.res t (s.res t ++ [o])) : WireInv cfg s' := by
  have ht : (s.pc t).isSending = true := by rw [hpc]; rfl
  have hnone : ∀ u, (s'.pc u).isSending = false := by
    intro u
    rw [hpc']; simp only [upd_apply]; split
    · rfl
    · rename_i hut
      cases hu : (s.pc u).isSending with
      | false => rfl
      | true => exact absurd (h.one u t hu ht) hut
  obtain ⟨pre, hwire, hfl, hq⟩ := h.wire
  have hp : cfg.pkt t (s.idx t) = pre := by have := hfl t [] hpc; simpa using this
  refine ⟨?_, ?_, ⟨[], ?_, ?_, ?_⟩, ?_, ?_⟩
  · intro a b ha; rw [hnone] at ha; cases ha
  · rw [hg]; simp only [Bool.false_eq_true, false_iff, not_exists]; intro u; rw [hnone]; simp
  · rw [hw, hord, flat_append, hwire]; simp [flat, hp]
  · intro u r hu; have := hnone u; rw [hu] at this; simp [PC.isSending] at this
  · intro _; rfl
  · intro u; rw [hres, hidx]; simp only [upd_apply]; split
    · rename_i hut; subst hut; rw [List.length_append, h.len u]; rfl
    · exact h.len u
  · intro u; rw [hord, hres]; simp only [upd_apply, List.filter_append, List.map_append]
    split
    · rename_i hut; subst hut
      rw [okIdx_append, ho, h.ord u, h.len u]; simp
    · rename_i hut
      have : ((t, s.idx t).1 == u) = false := by simp; exact fun h => hut h.symm
      simp [this, h.ord u]

/-- every step preserves the wire invariant -/
theorem WireInv.step {cfg : Cfg} {s s' : Sys} {e : Ev} (h : WireInv cfg s) (hs : step cfg s e = some s') :
    WireInv cfg s' := by
  have hbusy : ∀ t, (s.pc t).isSending = false → WireInv cfg (s.enter cfg t) := by
    intro t hns
    unfold Sys.enter
    split
    · refine WireInv.frame t h (by simp) (by simp) (by simp) ?_ ?_ ?_ hns (by simp [PC.isSending]) ?_
      · intro u hu; simp [upd_other _ _ _ _ hu]
      · intro u hu; simp [upd_other _ _ _ _ hu]
      · intro u hu; simp [upd_other _ _ _ _ hu]
      · right
        refine ⟨(if (Sys.unlock cfg s).2 = true then Outcome.busy else Outcome.lockError), ?_, by simp, by simp⟩
        split <;> rfl
    · rename_i hg
      exact WireInv.enter_free t h (by simpa using hg)
  cases e with
  | send t =>
    simp only [C12.step] at hs
    split at hs
    · rename_i hidle
      have hns : (s.pc t).isSending = false := by rw [hidle]; rfl
      split at hs
      · split at hs
        · cases hs
          refine WireInv.frame t h rfl rfl rfl ?_ ?_ ?_ hns (by simp [PC.isSending]) (Or.inl ⟨rfl, rfl⟩)
          · intro u hu; simp [upd_other _ _ _ _ hu]
          · intro u _; rfl
          · intro u _; rfl
        · cases hs
          refine WireInv.frame t h rfl rfl rfl ?_ ?_ ?_ hns (by simp [PC.isSending]) (Or.inl ⟨rfl, rfl⟩)
          · intro u hu; simp [upd_other _ _ _ _ hu]
          · intro u _; rfl
          · intro u _; rfl
      · cases hs; exact hbusy t hns
    · cases hs
  | resume t =>
    simp only [C12.step] at hs
    split at hs
    · rename_i hc
      cases hs
      have hns : (s.pc t).isSending = false := by rw [hc.1]; rfl
      refine WireInv.frame t h rfl rfl rfl ?_ ?_ ?_ hns (by simp [PC.isSending]) (Or.inl ⟨rfl, rfl⟩)
      · intro u hu; simp [upd_other _ _ _ _ hu]
      · intro u _; rfl
      · intro u _; rfl
    · cases hs
  | cancel t =>
    simp only [C12.step] at hs
    split at hs
    · rename_i hc
      cases hs
      have hns : (s.pc t).isSending = false := by rw [hc]; rfl
      refine WireInv.frame t h rfl rfl rfl ?_ ?_ ?_ hns (by simp [PC.isSending]) ?_
      · intro u hu; simp [upd_other _ _ _ _ hu]
      · intro u hu; simp [upd_other _ _ _ _ hu]
      · intro u hu; simp [upd_other _ _ _ _ hu]
      · right; exact ⟨.cancelled, rfl, by simp, by simp⟩
    · cases hs
  | xmit t =>
    simp only [C12.step] at hs
    split at hs
    · rename_i hc
      cases hs
      exact hbusy t (by rw [hc]; rfl)
    · cases hs
  | write t n =>
    simp only [C12.step] at hs
    split at hs
    · rename_i rest hc
      cases hs
      exact WireInv.write t n rest h hc
    · cases hs
  | ret t =>
    simp only [C12.step] at hs
    split at hs
    · rename_i hc
      cases hs
      refine WireInv.ret t (if (Sys.unlock cfg { s with guard := false }).2 = true then Outcome.ok else Outcome.sentLockError)
        h hc ?_ (by simp) (by simp) (by simp) (by simp) (by simp) (by simp)
      split <;> rfl
    · cases hs
  | rel t =>
    simp only [C12.step] at hs
    split at hs
    · rename_i hc
      cases hs
      have hns : (s.pc t).isSending = false := by rw [hc]; rfl
      refine WireInv.frame t h (by simp) (by simp) (by simp) ?_ ?_ ?_ hns (by simp [PC.isSending]) ?_
      · intro u hu; simp [upd_other _ _ _ _ hu]
      · intro u hu; simp [upd_other _ _ _ _ hu]
      · intro u hu; simp [upd_other _ _ _ _ hu]
      · right
        refine ⟨(if (Sys.unlock cfg s).2 = true then Outcome.released else Outcome.lockError), ?_, by simp, by simp⟩
        split <;> rfl
    · cases hs

theorem WireInv.run {cfg : Cfg} {evs : List Ev} {s s' : Sys} (h : WireInv cfg s) (hr : run cfg s evs = some s') :
    WireInv cfg s' := by
  induction evs generalizing s with
  | nil => simp only [C12.run, Option.some.injEq] at hr; subst hr; exact h
  | cons e es ih =>
    simp only [C12.run] at hr
    split at hr
    · rename_i s1 hs1; exact ih (h.step hs1) hr
    · cases hr

end EasyNet.C12
