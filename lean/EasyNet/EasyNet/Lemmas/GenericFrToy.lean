/-
  A concrete loader satisfying the laws (non-vacuity of the generic-framer theorems): the harness's length-prefixed toy
  file format (`ToyFile` / `PeekFile` in harness/vlib/sers.py): 1 byte n (0..200), then n bytes; n > 200 = format error
  after the header byte.
-/
import EasyNet.Lemmas.GenericFrBuf
namespace EasyNet.GenericFr
open EasyNet

def toyLoad : Bytes → LoadRes
  | [] => .eof
  | n :: body =>
    if n.toNat > 200 then .bad 1
    else if body.length < n.toNat then .eof
    else .ok (n.toNat + 1)

theorem toyLoad_stable : Stable toyLoad := by
  constructor
  · intro b x k h
    cases b with
    | nil => simp [toyLoad] at h
    | cons n body =>
      simp only [toyLoad, List.cons_append, List.length_append] at h ⊢
      split at h
      · cases h
      · rename_i h1
        simp only [h1, if_false]
        split at h
        · cases h
        · rename_i h2
          have : ¬ (body.length + x.length < n.toNat) := by omega
          simp only [this, if_false]; exact h
  · intro b x k h
    cases b with
    | nil => simp [toyLoad] at h
    | cons n body =>
      simp only [toyLoad, List.cons_append] at h ⊢
      split at h
      · rename_i h1; simp only [h1, if_true]; exact h
      · split at h <;> cases h
  · intro b k h
    cases b with
    | nil => simp [toyLoad] at h
    | cons n body =>
      simp only [toyLoad] at h
      split at h
      · cases h
      · split at h
        · cases h
        · injection h with h; subst h; simp; omega
  · intro b k h
    cases b with
    | nil => simp [toyLoad] at h
    | cons n body =>
      simp only [toyLoad] at h
      split at h
      · injection h with h; subst h; simp
      · split at h <;> cases h
  · intro b x k h hk
    cases b with
    | nil =>
      simp only [List.nil_append, List.length_nil, Nat.le_zero_eq] at h hk
      subst hk
      cases x with
      | nil => simp [toyLoad] at h
      | cons n body =>
        simp only [toyLoad] at h
        split at h
        · cases h
        · split at h
          · cases h
          · injection h with h; omega
    | cons n body =>
      simp only [toyLoad, List.cons_append, List.length_append, List.length_cons] at h hk ⊢
      split at h
      · cases h
      · rename_i h1
        simp only [h1, if_false]
        split at h
        · cases h
        · injection h with h; subst h
          have : ¬ (body.length < n.toNat) := by omega
          simp only [this, if_false]
  · intro b x k h hk
    cases b with
    | nil =>
      simp only [List.nil_append, List.length_nil, Nat.le_zero_eq] at h hk
      subst hk
      cases x with
      | nil => simp [toyLoad] at h
      | cons n body =>
        simp only [toyLoad] at h
        split at h
        · cases h
        · split at h <;> cases h
    | cons n body =>
      simp only [toyLoad, List.cons_append] at h ⊢
      split at h
      · rename_i h1; simp only [h1, if_true]; exact h
      · split at h <;> cases h

theorem toyLoad_progress : Progress toyLoad := by
  constructor
  · intro b k h
    cases b with
    | nil => simp [toyLoad] at h
    | cons n body =>
      simp only [toyLoad] at h
      split at h
      · cases h
      · split at h
        · cases h
        · injection h with h; omega
  · intro b k h
    cases b with
    | nil => simp [toyLoad] at h
    | cons n body =>
      simp only [toyLoad] at h
      split at h
      · injection h with h; omega
      · split at h <;> cases h

instance (load : Bytes → LoadRes) (f : Bytes) : Decidable (IsFrameD load f) := by
  unfold IsFrameD; infer_instance

end EasyNet.GenericFr
