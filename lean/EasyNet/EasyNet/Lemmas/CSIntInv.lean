/-
  C13 — interruption: the invariant (`Core`, `Parked`, `Running`) and its transfer lemmas.
-/
import EasyNet.Lemmas.CSIntDefs
set_option linter.unusedSimpArgs false
set_option linter.unusedVariables false
namespace EasyNet.CS

/-- holds at every point of a run of a shield-free program; `ms` = the callback being executed right now
    (already taken off the queue) -/
structure Core (ms : List Handle) (k : K) : Prop where
  sfF : ∀ fr ∈ k.frames, fr.sf = true
  sfQ : ∀ h ∈ k.Q, h.sf = true
  sfT : ∀ p ∈ k.timers, p.2.2.isTimer = true
  nodelay : k.delayed = none
  sorted : (scopeIds k.frames).Pairwise (· > ·)
  st : ∀ s ∈ scopeIds k.frames, (scopeOf k.scopes s).active = true
  act : ∀ s, (scopeOf k.scopes s).active = true → s ∈ scopeIds k.frames
  hq : ∀ s, Handle.deliver s ∈ k.Q → s ∈ scopeIds k.frames
  ha : ∀ s ∈ scopeIds k.frames, (scopeOf k.scopes s).cancelCalled = true → Handle.deliver s ∈ k.Q ∨ Handle.deliver s ∈ ms
  nbad : k.bad = false
  cbs : ∀ f o, k.futCb f ≠ .innerDone o

/-- wake-up discipline between two callbacks while the task is suspended: at most one waking callback is queued,
    it belongs to the future the task waits for -/
structure Wake (k : K) : Prop where
  wb1 : ∀ f, Handle.wakeup f ∈ k.Q → k.waiter = some f
  wb2 : Handle.step ∈ k.Q → k.waiter = none
  wc : ∀ f, Handle.wakeup f ∈ k.Q → k.futCb f ≠ .wakeup
  wd : (wakes k.Q).length ≤ 1
  c : ∀ f, k.futCb f = .wakeup → k.waiter = some f

/-- an operation parked under a cancelled scope: cancellation in flight, or re-delivery ahead of the wake-up -/
def Gd (k : K) : Prop := Flagged k → inflight k ∨ safe k.Q = true

structure Parked (k : K) : Prop where
  w : Wake k
  g : Gd k

/-- holds while the task's coroutine is being run by `Task.__step` -/
structure Running (k : K) : Prop where
  noWake : wakes k.Q = []
  noCb : ∀ f, k.futCb f ≠ .wakeup
  waiter : k.waiter = none
  mc : k.mustCancel = false
  nd : k.done = none

theorem Core.valid {ms : List Handle} {k : K} (h : Core ms k) {s : Nat} (hs : s ∈ scopeIds k.frames) : s < k.scopes.length :=
  scopeOf_active_valid _ _ (h.st s hs)

theorem mem_wakes (l : List Handle) (x : Handle) : x ∈ wakes l ↔ x ∈ l ∧ x.isWake = true := by
  simp [wakes]

/-! ### transfer lemmas -/

theorem Core.mono {ms : List Handle} {k k' : K} (h : Core ms k)
    (hsf : ∀ fr ∈ k'.frames, fr.sf = true)
    (hids : scopeIds k'.frames = scopeIds k.frames)
    (hQ1 : ∀ x ∈ k'.Q, x ∈ k.Q ∨ (x.sf = true ∧ ∀ s, x = .deliver s → s ∈ scopeIds k.frames))
    (hQ2 : ∀ s, Handle.deliver s ∈ k.Q → Handle.deliver s ∈ k'.Q)
    (hT : ∀ p ∈ k'.timers, p ∈ k.timers ∨ p.2.2.isTimer = true)
    (hd : k'.delayed = k.delayed)
    (hact : ∀ s, (scopeOf k'.scopes s).active = (scopeOf k.scopes s).active)
    (hcc : ∀ s, (scopeOf k'.scopes s).cancelCalled = true →
      (scopeOf k.scopes s).cancelCalled = true ∨ Handle.deliver s ∈ k'.Q)
    (hbad : k'.bad = k.bad)
    (hcb : ∀ f o, k'.futCb f ≠ .innerDone o) : Core ms k' where
  sfF := hsf
  sfQ := fun x hx => by
    rcases hQ1 x hx with h1 | h1
    · exact h.sfQ x h1
    · exact h1.1
  sfT := fun p hp => by
    rcases hT p hp with h1 | h1
    · exact h.sfT p h1
    · exact h1
  nodelay := by rw [hd]; exact h.nodelay
  sorted := by rw [hids]; exact h.sorted
  st := fun s hs => by rw [hact]; exact h.st s (by rw [← hids]; exact hs)
  act := fun s hs => by rw [hids]; exact h.act s (by rw [← hact]; exact hs)
  hq := fun s hs => by
    rw [hids]
    rcases hQ1 _ hs with h1 | h1
    · exact h.hq s h1
    · exact h1.2 s rfl
  ha := fun s hs hc => by
    rcases hcc s hc with h1 | h1
    · rcases h.ha s (by rw [← hids]; exact hs) h1 with h2 | h2
      · exact Or.inl (hQ2 s h2)
      · exact Or.inr h2
    · exact Or.inl h1
  nbad := by rw [hbad]; exact h.nbad
  cbs := hcb

theorem Running.mono {k k' : K} (h : Running k)
    (hQ : ∀ x ∈ k'.Q, x ∈ k.Q ∨ x.isWake = false)
    (hcb : ∀ f, k'.futCb f = k.futCb f) (hw : k'.waiter = k.waiter) (hm : k'.mustCancel = k.mustCancel)
    (hd : k'.done = k.done) : Running k' where
  noWake := by
    rw [wakes_nil_iff]
    intro x hx
    rcases hQ x hx with h1 | h1
    · exact (wakes_nil_iff _).mp h.noWake x h1
    · exact h1
  noCb := fun f => by rw [hcb]; exact h.noCb f
  waiter := by rw [hw]; exact h.waiter
  mc := by rw [hm]; exact h.mc
  nd := by rw [hd]; exact h.nd

theorem Wake.mono {k k' : K} (h : Wake k)
    (hwk : wakes k'.Q = wakes k.Q)
    (hcb : ∀ f, k'.futCb f = k.futCb f)
    (hw : k'.waiter = k.waiter) : Wake k' where
  wb1 := fun f hf => by
    rw [hw]
    have : Handle.wakeup f ∈ wakes k'.Q := (mem_wakes _ _).mpr ⟨hf, rfl⟩
    rw [hwk] at this
    exact h.wb1 f ((mem_wakes _ _).mp this).1
  wb2 := fun hs => by
    rw [hw]
    have : Handle.step ∈ wakes k'.Q := (mem_wakes _ _).mpr ⟨hs, rfl⟩
    rw [hwk] at this
    exact h.wb2 ((mem_wakes _ _).mp this).1
  wc := fun f hf => by
    rw [hcb]
    have : Handle.wakeup f ∈ wakes k'.Q := (mem_wakes _ _).mpr ⟨hf, rfl⟩
    rw [hwk] at this
    exact h.wc f ((mem_wakes _ _).mp this).1
  wd := by rw [hwk]; exact h.wd
  c := fun f hf => by rw [hw]; exact h.c f (by rw [← hcb]; exact hf)

theorem Gd.mono {k k' : K} (h : Gd k)
    (hsafe : safe k.Q = true → safe k'.Q = true)
    (hfs : ∀ f m, k.futState f = .cancelled m → k'.futState f = .cancelled m)
    (hw : k'.waiter = k.waiter) (hm : k.mustCancel = true → k'.mustCancel = true)
    (hfr : k'.frames = k.frames) : Gd k' := fun hfl => by
  have hfl' : Flagged k := by unfold Flagged at *; rw [← hfr]; exact hfl
  rcases h hfl' with h1 | h1
  · left
    rcases h1 with h1 | ⟨f, m, h1, h2⟩
    · exact Or.inl (hm h1)
    · exact Or.inr ⟨f, m, by rw [hw]; exact h1, hfs f m h2⟩
  · exact Or.inr (hsafe h1)

theorem Parked.mono {k k' : K} (h : Parked k)
    (hwk : wakes k'.Q = wakes k.Q)
    (hsafe : safe k.Q = true → safe k'.Q = true)
    (hcb : ∀ f, k'.futCb f = k.futCb f) (hfs : ∀ f m, k.futState f = .cancelled m → k'.futState f = .cancelled m)
    (hw : k'.waiter = k.waiter) (hm : k.mustCancel = true → k'.mustCancel = true)
    (hfr : k'.frames = k.frames) : Parked k' :=
  ⟨h.w.mono hwk hcb hw, h.g.mono hsafe hfs hw hm hfr⟩

theorem Gd.of_inflight {k : K} (h : inflight k) : Gd k := fun _ => Or.inl h

/-! ### futures seen through `updAt` / `newFut` -/

theorem futState_updFut_ne (k : K) (f f' : Nat) (g : Fut → Fut) (h : f' ≠ f) : (k.updFut f g).futState f' = k.futState f' := by
  unfold K.futState K.updFut
  have : (updAt k.futs f g)[f']? = k.futs[f']? := by
    generalize k.futs = l
    induction l generalizing f f' with
    | nil => simp [updAt]
    | cons x xs ih =>
      cases f with
      | zero => cases f' with
        | zero => exact absurd rfl h
        | succ f' => simp [updAt]
      | succ f => cases f' with
        | zero => simp [updAt]
        | succ f' => simpa [updAt] using ih f f' (by omega)
  simp [this]

theorem futCb_updFut_ne (k : K) (f f' : Nat) (g : Fut → Fut) (h : f' ≠ f) : (k.updFut f g).futCb f' = k.futCb f' := by
  unfold K.futCb K.updFut
  have : (updAt k.futs f g)[f']? = k.futs[f']? := by
    generalize k.futs = l
    induction l generalizing f f' with
    | nil => simp [updAt]
    | cons x xs ih =>
      cases f with
      | zero => cases f' with
        | zero => exact absurd rfl h
        | succ f' => simp [updAt]
      | succ f => cases f' with
        | zero => simp [updAt]
        | succ f' => simpa [updAt] using ih f f' (by omega)
  simp [this]

theorem getElem?_updAt_self {α} (l : List α) (i : Nat) (g : α → α) : (updAt l i g)[i]? = (l[i]?).map g := by
  induction l generalizing i with
  | nil => simp [updAt]
  | cons x xs ih =>
    cases i with
    | zero => simp [updAt]
    | succ i => simpa [updAt] using ih i

theorem futState_updFut_self_cb (k : K) (f : Nat) (c : Cb) :
    (k.updFut f (fun x => { x with cb := c })).futState f = k.futState f := by
  unfold K.futState K.updFut
  simp only [getElem?_updAt_self]
  cases k.futs[f]? <;> simp

theorem futState_updFut_cb (k : K) (f f' : Nat) (c : Cb) :
    (k.updFut f (fun x => { x with cb := c })).futState f' = k.futState f' := by
  by_cases h : f' = f
  · subst h; exact futState_updFut_self_cb k f' c
  · exact futState_updFut_ne k f f' _ h

theorem futCb_updFut_self_cb (k : K) (f : Nat) (c : Cb) :
    (k.updFut f (fun x => { x with cb := c })).futCb f = if f < k.futs.length then c else .none := by
  unfold K.futCb K.updFut
  simp only [getElem?_updAt_self]
  by_cases hv : f < k.futs.length
  · simp [hv, List.getElem?_eq_getElem hv]
  · simp [hv, List.getElem?_eq_none (by omega : k.futs.length ≤ f)]

theorem futCb_updFut_state (k : K) (f f' : Nat) (st : FState) :
    (k.updFut f (fun x => { x with state := st })).futCb f' = k.futCb f' := by
  by_cases h : f' = f
  · subst h
    unfold K.futCb K.updFut
    simp only [getElem?_updAt_self]
    cases k.futs[f']? <;> simp
  · exact futCb_updFut_ne k f f' _ h

theorem futState_updFut_self_state (k : K) (f : Nat) (st : FState) (hv : f < k.futs.length) :
    (k.updFut f (fun x => { x with state := st })).futState f = st := by
  unfold K.futState K.updFut
  simp only [getElem?_updAt_self]
  simp [List.getElem?_eq_getElem hv]

theorem futState_pending_valid (k : K) (f : Nat) (h : k.futState f = .pending) : f < k.futs.length := by
  unfold K.futState at h
  by_cases hv : f < k.futs.length
  · exact hv
  · simp [List.getElem?_eq_none (by omega : k.futs.length ≤ f)] at h

theorem futCb_valid (k : K) (f : Nat) (h : k.futCb f ≠ .none) : f < k.futs.length := by
  unfold K.futCb at h
  by_cases hv : f < k.futs.length
  · exact hv
  · simp [List.getElem?_eq_none (by omega : k.futs.length ≤ f)] at h

theorem futCb_newFut (k : K) (f : Nat) : k.newFut.futCb f = k.futCb f := by
  unfold K.futCb K.newFut
  by_cases hv : f < k.futs.length
  · simp [List.getElem?_append_left hv]
  · by_cases he : f = k.futs.length
    · subst he; simp
    · have h1 : k.futs.length ≤ f := by omega
      have h2 : (k.futs ++ [(⟨.pending, .none⟩ : Fut)]).length ≤ f := by simp; omega
      simp [List.getElem?_eq_none h1, List.getElem?_eq_none h2]

theorem futState_newFut_old (k : K) (f : Nat) (hv : f < k.futs.length) : k.newFut.futState f = k.futState f := by
  unfold K.futState K.newFut
  simp [List.getElem?_append_left hv]

end EasyNet.CS
