/-
  Time accounting of the blocking loops: the invariant `Good` that every machine built around `_retry`
  (send_all, the sendmsg loop, the receive loop, a single `_retry`) maintains, and the lemmas for the three kinds of
  steps: a socket call (`afterCall`), a wait (`retryWait`), a new `ElapsedTime`/`recompute_timeout` round.
-/
import EasyNet.Model.Timeout
namespace EasyNet

/-- everything the clock can have been spent on -/
def World.acct (w : World) : Nat := w.waited + w.over + w.unbounded + w.proc + w.lockw

def Obs.isSelect : Obs → Bool
  | .select _ _ => true
  | _ => false

def Obs.isCall : Obs → Bool
  | .call _ _ => true
  | .rcall _ => true
  | _ => false

def Obs.isLockWait : Obs → Bool
  | .lockWait _ => true
  | _ => false

def Outcome.isTimeout : Outcome → Bool
  | .timeout => true
  | _ => false

def RecvOut.isTimeout : RecvOut → Bool
  | .timeout => true
  | _ => false

/-- number of select() calls so far -/
def World.nsel (w : World) : Nat := w.log.countP Obs.isSelect
/-- number of socket calls so far -/
def World.ncall (w : World) : Nat := w.log.countP Obs.isCall
/-- number of blocking lock acquisitions so far -/
def World.nlockw (w : World) : Nat := w.log.countP Obs.isLockWait

/-- Invariant of a blocking call that started in world `w0` with a finite timeout.
    `B` = `w0.waited + T` (bound for the time spent in select), `D` = `w0.now + T` (the deadline).
    `tOut` / `tIn` / `start`: timeout of the outer loop, timeout inside `_retry`, clock at `ElapsedTime.__enter__`. -/
structure Good (B D : Nat) (tOut tIn : Tmo) (start : Nat) (w0 w : World) : Prop where
  tinv : ∃ a b ws, tOut = some a ∧ tIn = some b ∧ ws + a ≤ B ∧ w.waited + b ≤ ws + a ∧
          w.waited ≤ ws + (w.now - start) ∧ start ≤ w.now ∧ D ≤ start + a ∧ D ≤ w.now + b
  unb : w.unbounded = w0.unbounded
  lockw : w.lockw = w0.lockw
  acct : w.now + w0.acct = w0.now + w.acct
  mono : w0.waited ≤ w.waited
  zero : B = w0.waited → w.nsel = w0.nsel
  nlw : w.nlockw = w0.nlockw
  slack : w0.now + w.waited ≤ w.now + w0.waited

/-- what holds when the call ends -/
structure GoodFin (B D : Nat) (w0 w : World) (isTimeout : Bool) : Prop where
  budget : w.waited ≤ B
  unb : w.unbounded = w0.unbounded
  lockw : w.lockw = w0.lockw
  acct : w.now + w0.acct = w0.now + w.acct
  mono : w0.waited ≤ w.waited
  zero : B = w0.waited → w.nsel = w0.nsel
  nlw : w.nlockw = w0.nlockw
  slack : w0.now + w.waited ≤ w.now + w0.waited
  spent : isTimeout = true → D ≤ w.now

theorem Good.init (w0 : World) (tv : Nat) :
    Good (w0.waited + tv) (w0.now + tv) (some tv) (some tv) w0.now w0 w0 :=
  ⟨⟨tv, tv, w0.waited, rfl, rfl, Nat.le_refl _, Nat.le_refl _, by omega, Nat.le_refl _, Nat.le_refl _, Nat.le_refl _⟩,
   rfl, rfl, rfl, Nat.le_refl _, fun _ => rfl, rfl, Nat.le_refl _⟩

theorem Good.fin {B D tOut tIn start w0 w} (h : Good B D tOut tIn start w0 w) : GoodFin B D w0 w false := by
  obtain ⟨⟨a, b, ws, _, _, h1, h2, _, _, _, _⟩, hu, hl, ha, hm, hz, hn, hs⟩ := h
  exact ⟨by omega, hu, hl, ha, hm, hz, hn, hs, by intro h; cases h⟩

/-- a socket call: only the clock and the processing account move -/
theorem Good.call {B D tOut tIn start w0 w} (h : Good B D tOut tIn start w0 w) (o : Obs) (p : Nat)
    (ho : o.isSelect = false) (hl : o.isLockWait = false) :
    Good B D tOut tIn start w0 (w.afterCall o p) := by
  obtain ⟨⟨a, b, ws, e1, e2, h1, h2, h3, h4, h5, h6⟩, hu, hlw, ha, hm, hz, hn, hs⟩ := h
  refine ⟨⟨a, b, ws, e1, e2, h1, ?_, ?_, ?_, h5, ?_⟩, ?_, ?_, ?_, ?_, ?_, ?_, ?_⟩
  all_goals simp only [World.afterCall, World.acct, World.nsel, World.nlockw, List.countP_cons, ho, hl] at *
  all_goals first | omega | (intro hb; have := hz hb; simpa using this) | simpa using hn

theorem Good.put {B D tOut tIn start w0 w} (h : Good B D tOut tIn start w0 w) (x : Bytes) :
    Good B D tOut tIn start w0 (w.put x) := by
  obtain ⟨⟨a, b, ws, e1, e2, h1, h2, h3, h4, h5, h6⟩, hu, hlw, ha, hm, hz, hn, hs⟩ := h
  exact ⟨⟨a, b, ws, e1, e2, h1, h2, h3, h4, h5, h6⟩, hu, hlw, ha, hm, hz, hn, hs⟩

/-- a new round of the outer loop: `timeout = elapsed.recompute_timeout(timeout)`, new `ElapsedTime` -/
theorem Good.round {B D tOut tIn start w0 w} (h : Good B D tOut tIn start w0 w) :
    Good B D (tOut.recompute (w.now - start)) (tOut.recompute (w.now - start)) w.now w0 w := by
  obtain ⟨⟨a, b, ws, e1, e2, h1, h2, h3, h4, h5, h6⟩, hu, hlw, ha, hm, hz, hn, hs⟩ := h
  subst e1
  refine ⟨⟨a - (w.now - start), a - (w.now - start), w.waited, rfl, rfl, ?_, ?_, ?_, ?_, ?_, ?_⟩, hu, hlw, ha, hm, hz, hn, hs⟩
  all_goals omega

/-- a round that keeps the timeout handed back by `_retry` (sendmsg loop) -/
theorem Good.keep {B D tOut tIn start w0 w} (h : Good B D tOut tIn start w0 w) : Good B D tOut tIn start w0 w := h

theorem Tmo.waitTime_some_some (b : Nat) (ri : Tmo) : ∃ wv, Tmo.waitTime (some b) ri = some wv ∧ wv ≤ b ∧
    (Tmo.le (some b) ri = true → wv = b) := by
  unfold Tmo.waitTime
  cases ri with
  | none => exact ⟨b, by simp [Tmo.le], Nat.le_refl _, fun _ => rfl⟩
  | some r =>
    by_cases hle : b ≤ r
    · exact ⟨b, by simp [Tmo.le, hle], Nat.le_refl _, fun _ => rfl⟩
    · exact ⟨r, by simp [Tmo.le, hle], by omega, by simp [Tmo.le, hle]⟩

/-- the waiting part of `_retry` keeps the invariant, or ends the call within the budget -/
theorem Good.wait {B D tOut tIn start w0 w} (h : Good B D tOut tIn start w0 w) (ri : Tmo) (blk : Blk) :
    match retryWait ri blk tIn w with
    | .cont t' w' => Good B D tOut t' start w0 w'
    | .timeout w' => GoodFin B D w0 w' true
    | .exhausted w' => GoodFin B D w0 w' false
    | .rterr w' => GoodFin B D w0 w' false := by
  have hfin := h.fin
  obtain ⟨⟨a, b, ws, e1, e2, h1, h2, h3, h4, h5, h6⟩, hu, hlw, ha, hm, hz, hn, hs⟩ := h
  subst e2
  unfold retryWait
  by_cases hb0 : b = 0
  · subst hb0
    simp only [Tmo.isZero, if_true]
    exact ⟨hfin.budget, hu, hlw, ha, hm, hz, hn, hs, fun _ => by omega⟩
  · have hz' : Tmo.isZero (some b) = false := by
      cases b with
      | zero => exact absurd rfl hb0
      | succ n => rfl
    simp only [hz', Bool.false_eq_true, if_false]
    cases hs : w.sel with
    | nil => simpa [hs] using hfin
    | cons e sel =>
      simp only []
      obtain ⟨wv, hwv, hle, heq⟩ := Tmo.waitTime_some_some b ri
      rw [hwv]
      simp only []
      -- B = w0.waited is impossible here: it forces b = 0
      have hzero : B ≠ w0.waited := by omega
      by_cases hbr : (!e.avail && Tmo.le (some b) ri) = true
      · simp only [hbr, if_true]
        have hwb : wv = b := heq (by simp only [Bool.and_eq_true] at hbr; exact hbr.2)
        have hel : e.elapsed wv = wv + (e.elapsed wv - wv) := by
          cases e with
          | ready d => simp [SelEv.avail] at hbr
          | expired over => simp [SelEv.elapsed]
        refine ⟨?_, ?_, ?_, ?_, ?_, ?_, ?_, ?_, ?_⟩
        all_goals simp only [World.afterSelect, World.acct, World.nlockw, List.countP_cons, Obs.isLockWait] at *
        all_goals first | omega | (intro hb; exact absurd hb hzero) | simpa using hn | (intro _; omega)
      · simp only [hbr, Bool.false_eq_true, if_false]
        refine ⟨⟨a, b - e.elapsed wv, ws, e1, rfl, h1, ?_, ?_, ?_, h5, ?_⟩, ?_, ?_, ?_, ?_, ?_, ?_, ?_⟩
        all_goals simp only [World.afterSelect, World.acct, World.nlockw, List.countP_cons, Obs.isLockWait] at *
        all_goals first | omega | (intro hb; exact absurd hb hzero) | simpa using hn

end EasyNet
