/-
  The stateful raw JSON framer (`JRaw.feed`: counter dictionary, persisted `offset`, look-back `_escaped`) refines the
  byte-level spec `JRaw.spec` (one-pass scan of all accumulated bytes with a running escape parity).
-/
import EasyNet.Lemmas.JRawSpec
import EasyNet.Lemmas.ConsumerSim
namespace EasyNet
namespace JRaw

/-! ### `_escaped` (look-back) = running parity -/

theorem escapedRev_not (rev : Bytes) : ∀ e, escapedRev rev (!e) = !escapedRev rev e := by
  induction rev with
  | nil => intro e; rfl
  | cons b rest ih =>
    intro e
    simp only [escapedRev]
    split
    · rw [ih (!e), ih e]
    · rfl

/-- pushing one more byte: the parity flips on a backslash and is reset by anything else -/
theorem escapedRev_cons (ch : UInt8) (rev : Bytes) :
    escapedRev (ch :: rev) false = (ch == BSLASH && !escapedRev rev false) := by
  simp only [escapedRev]
  by_cases h : ch == BSLASH
  · simp only [h, if_true, Bool.true_and]
    exact escapedRev_not rev false
  · simp [h]

/-! ### one loop iteration of the model vs one step of the spec scanner -/

inductive MStep where
  | cont (cnt : Counter) (first : Option UInt8)
  | close
  | plain

/-- the body of the `for` loop -/
def mstep (rev : Bytes) (ch : UInt8) (cnt : Counter) (first : Option UInt8) : MStep :=
  match arm rev ch cnt with
  | some cnt' => if closedNow cnt' (firstOf cnt' first) then .close else .cont cnt' (firstOf cnt' first)
  | none => if plainArm ch cnt then .plain else .cont cnt first

theorem scanLoop_cons (rev rest : Bytes) (ch : UInt8) (off : Nat) (cnt : Counter) (first : Option UInt8) :
    scanLoop rev (ch :: rest) off cnt first =
      match mstep rev ch cnt first with
      | .cont cnt' first' => scanLoop (ch :: rev) rest (off + 1) cnt' first'
      | .close => .closed off
      | .plain => .plainAt off := by
  simp only [scanLoop, mstep]
  cases arm rev ch cnt with
  | some cnt' => simp only; split <;> rfl
  | none => simp only; split <;> rfl

/-- the abstraction relation: model loop variables (`enclosure_counter`, `first_enclosure`, the bytes before `offset`)
    vs the spec scanner state -/
def Abs (cnt : Counter) (first : Option UInt8) (rev : Bytes) : SSt → Prop
  | .lead => cnt = Counter.empty ∧ first = none ∧ escapedRev rev false = false
  | .encl k inStr nc ns esc =>
      first = some k ∧ (k = QUOTE ∨ k = LBRACE ∨ k = LBRACK) ∧ cnt.len ≠ 0 ∧
      cnt.get QUOTE = (if inStr then 1 else 0) ∧ cnt.get LBRACE = nc ∧ cnt.get LBRACK = ns ∧
      escapedRev rev false = esc

def StepRel (rev : Bytes) (ch : UInt8) : StepRes → MStep → Prop
  | .cont st', .cont cnt' first' => Abs cnt' first' (ch :: rev) st'
  | .close, .close => True
  | .plain, .plain => True
  | _, _ => False

set_option linter.unusedSimpArgs false

theorem step_sim_lead (rev : Bytes) (ch : UInt8) (cnt : Counter) (first : Option UInt8)
    (h : Abs cnt first rev .lead) : StepRel rev ch (step .lead ch) (mstep rev ch cnt first) := by
  obtain ⟨hc, hf, he⟩ := h
  subst hc; subst hf
  have hcons := escapedRev_cons ch rev
  rw [he] at hcons
  by_cases h1 : ch = 34
  · subst h1
    simp [step, mstep, arm, he, StepRel, Abs, QUOTE, LBRACE, LBRACK, RBRACE, RBRACK, BSLASH, Counter.empty, Counter.get, Counter.set,
      Counter.slot, Counter.len, closedNow, firstOf, escapedRev]
  by_cases h2 : ch = 123
  · subst h2
    simp [step, mstep, arm, he, StepRel, Abs, QUOTE, LBRACE, LBRACK, RBRACE, RBRACK, BSLASH, Counter.empty, Counter.get, Counter.set,
      Counter.slot, Counter.len, closedNow, firstOf, escapedRev]
  by_cases h3 : ch = 91
  · subst h3
    simp [step, mstep, arm, he, StepRel, Abs, QUOTE, LBRACE, LBRACK, RBRACE, RBRACK, BSLASH, Counter.empty, Counter.get, Counter.set,
      Counter.slot, Counter.len, closedNow, firstOf, escapedRev]
  by_cases h4 : ch = 125
  · subst h4
    simp [step, mstep, arm, he, StepRel, Abs, QUOTE, LBRACE, LBRACK, RBRACE, RBRACK, BSLASH, Counter.empty, Counter.get, Counter.set,
      Counter.slot, Counter.len, closedNow, firstOf, escapedRev]
  by_cases h5 : ch = 93
  · subst h5
    simp [step, mstep, arm, he, StepRel, Abs, QUOTE, LBRACE, LBRACK, RBRACE, RBRACK, BSLASH, Counter.empty, Counter.get, Counter.set,
      Counter.slot, Counter.len, closedNow, firstOf, escapedRev]
  by_cases h6 : isWs ch = true
  · have hb : (ch == BSLASH) = false := by
      simp only [isWs, Bool.or_eq_true, beq_iff_eq] at h6
      simp only [BSLASH, beq_eq_false_iff_ne]
      rcases h6 with ((h | h) | h) | h <;> subst h <;> decide
    simp [step, mstep, arm, he, StepRel, Abs, QUOTE, LBRACE, LBRACK, RBRACE, RBRACK, Counter.empty, Counter.get, Counter.set,
      Counter.slot, Counter.len, closedNow, firstOf, plainArm, h1, h2, h3, h4, h5, h6, hcons, hb]
  · simp [step, mstep, arm, he, StepRel, Abs, QUOTE, LBRACE, LBRACK, RBRACE, RBRACK, Counter.empty, Counter.get, Counter.set,
      Counter.slot, Counter.len, closedNow, firstOf, plainArm, h1, h2, h3, h4, h5, h6]

def IsKey (k : UInt8) : Prop := k = QUOTE ∨ k = LBRACE ∨ k = LBRACK

theorem Counter.get_set (m : Counter) (k : UInt8) (v : Int) (hk : IsKey k) (k' : UInt8) :
    (m.set k v).get k' = if k' = k then v else m.get k' := by
  rcases hk with h | h | h <;> subst h
  · by_cases h1 : k' = 34
    · subst h1; simp [Counter.get, Counter.set, Counter.slot, QUOTE, LBRACE, LBRACK]
    · simp [Counter.get, Counter.set, Counter.slot, QUOTE, LBRACE, LBRACK, h1]
  · by_cases h1 : k' = 123
    · subst h1; simp [Counter.get, Counter.set, Counter.slot, QUOTE, LBRACE, LBRACK]
    · simp [Counter.get, Counter.set, Counter.slot, QUOTE, LBRACE, LBRACK, h1]
  · by_cases h1 : k' = 91
    · subst h1; simp [Counter.get, Counter.set, Counter.slot, QUOTE, LBRACE, LBRACK]
    · simp [Counter.get, Counter.set, Counter.slot, QUOTE, LBRACE, LBRACK, h1]

theorem Counter.len_set (m : Counter) (k : UInt8) (v : Int) (hk : IsKey k) : (m.set k v).len ≠ 0 := by
  rcases hk with h | h | h <;> subst h <;>
    simp [Counter.set, Counter.len, QUOTE, LBRACE, LBRACK] <;> omega

def Matches (cnt : Counter) (inStr : Bool) (nc ns : Int) : Prop :=
  cnt.get QUOTE = (if inStr then 1 else 0) ∧ cnt.get LBRACE = nc ∧ cnt.get LBRACK = ns

theorem Matches.get_key {cnt : Counter} {inStr : Bool} {nc ns : Int} (h : Matches cnt inStr nc ns) (k : UInt8) (hk : IsKey k) :
    cnt.get k = cntOf k inStr nc ns := by
  rcases hk with h1 | h1 | h1 <;> subst h1
  · simp [JRaw.cntOf, h.1]
  · have := h.2.1; simp [JRaw.cntOf, QUOTE, LBRACE] at this ⊢; exact this
  · have := h.2.2; simp [JRaw.cntOf, QUOTE, LBRACE, LBRACK] at this ⊢; exact this

/-- the statements after the `match` (first_enclosure test) vs `post` -/
theorem post_sim (rev : Bytes) (ch : UInt8) (k : UInt8) (hk : IsKey k) (cnt' : Counter) (inStr' : Bool) (nc' ns' : Int)
    (hm : Matches cnt' inStr' nc' ns') (hlen : cnt'.len ≠ 0) (hesc : escapedRev (ch :: rev) false = false) :
    StepRel rev ch (post k inStr' nc' ns')
      (if closedNow cnt' (firstOf cnt' (some k)) then MStep.close else MStep.cont cnt' (firstOf cnt' (some k))) := by
  simp only [firstOf, closedNow, post, hm.get_key k hk]
  by_cases hle : cntOf k inStr' nc' ns' ≤ 0
  · simp [hle, StepRel]
  · simp only [hle, decide_false, Bool.false_eq_true, if_false, StepRel, Abs]
    exact ⟨trivial, hk, hlen, hm.1, hm.2.1, hm.2.2, hesc⟩

theorem step_sim_encl (rev : Bytes) (ch : UInt8) (cnt : Counter) (first : Option UInt8)
    (k : UInt8) (inStr : Bool) (nc ns : Int) (esc : Bool)
    (h : Abs cnt first rev (.encl k inStr nc ns esc)) :
    StepRel rev ch (step (.encl k inStr nc ns esc) ch) (mstep rev ch cnt first) := by
  obtain ⟨hf, hk, hlen, hq, hc, hs, he⟩ := h
  subst hf
  have hcons := escapedRev_cons ch rev
  rw [he] at hcons
  have hm : Matches cnt inStr nc ns := ⟨hq, hc, hs⟩
  have kq : IsKey QUOTE := Or.inl rfl
  have kc : IsKey LBRACE := Or.inr (Or.inl rfl)
  have ks : IsKey LBRACK := Or.inr (Or.inr rfl)
  have hne1 : LBRACE ≠ QUOTE := by decide
  have hne2 : LBRACK ≠ QUOTE := by decide
  have hne3 : LBRACK ≠ LBRACE := by decide
  have hne4 : QUOTE ≠ LBRACE := by decide
  have hne5 : QUOTE ≠ LBRACK := by decide
  have hne6 : LBRACE ≠ LBRACK := by decide
  by_cases c1 : (ch == QUOTE && !esc) = true
  · -- unescaped quote: toggle
    have hch : ch = QUOTE := by simp only [Bool.and_eq_true, beq_iff_eq] at c1; exact c1.1
    have harm : arm rev ch cnt = some (cnt.set QUOTE (if cnt.get QUOTE == 1 then 0 else 1)) := by
      simp only [arm, he, c1, if_true]
    have hesc : escapedRev (ch :: rev) false = false := by
      rw [hcons, hch, show (QUOTE == BSLASH) = false from by decide]; rfl
    have hm' : Matches (cnt.set QUOTE (if cnt.get QUOTE == 1 then 0 else 1)) (!inStr) nc ns := by
      refine ⟨?_, ?_, ?_⟩
      · rw [Counter.get_set _ _ _ kq, hq]; cases inStr <;> simp
      · rw [Counter.get_set _ _ _ kq]; simp only [hne1, if_false]; exact hc
      · rw [Counter.get_set _ _ _ kq]; simp only [hne2, if_false]; exact hs
    simp only [step, c1, if_true, mstep, harm]
    exact post_sim rev ch k hk _ _ _ _ hm' (Counter.len_set _ _ _ kq) hesc
  · simp only [step, c1, Bool.false_eq_true, if_false]
    have harm0 : (ch == QUOTE && !escapedRev rev false) = false := by rw [he]; simpa using c1
    by_cases c2 : inStr = true
    · -- inside a string
      have hgt : cnt.get QUOTE > 0 := by rw [hq, c2]; simp
      have harm : arm rev ch cnt = none := by simp only [arm, harm0, Bool.false_eq_true, if_false, hgt, if_true]
      have hpl : plainArm ch cnt = false := by simp [plainArm, hgt]
      simp only [c2, if_true, mstep, harm, hpl, Bool.false_eq_true, if_false, StepRel, Abs]
      exact ⟨trivial, hk, hlen, by rw [hq, c2]; rfl, hc, hs, hcons⟩
    · have c2' : inStr = false := by simpa using c2
      subst c2'
      have hgt : ¬ (cnt.get QUOTE > 0) := by rw [hq]; simp
      simp only [Bool.false_eq_true, if_false]
      by_cases c3 : ch = LBRACE
      · subst c3
        have harm : arm rev LBRACE cnt = some (cnt.set LBRACE (cnt.get LBRACE + 1)) := by
          simp [arm, harm0, hgt]
        have hesc : escapedRev (LBRACE :: rev) false = false := by rw [hcons, show (LBRACE == BSLASH) = false from by decide]; rfl
        have hm' : Matches (cnt.set LBRACE (cnt.get LBRACE + 1)) false (nc + 1) ns := by
          refine ⟨?_, ?_, ?_⟩
          · rw [Counter.get_set _ _ _ kc]; simp only [hne4, if_false]; exact hq
          · rw [Counter.get_set _ _ _ kc, hc]; simp
          · rw [Counter.get_set _ _ _ kc]; simp only [hne3, if_false]; exact hs
        simp only [beq_self_eq_true, if_true, mstep, harm]
        exact post_sim rev _ k hk _ _ _ _ hm' (Counter.len_set _ _ _ kc) hesc
      · have c3' : (ch == LBRACE) = false := by simpa using c3
        simp only [c3', Bool.false_eq_true, if_false]
        by_cases c4 : ch = LBRACK
        · subst c4
          have harm : arm rev LBRACK cnt = some (cnt.set LBRACK (cnt.get LBRACK + 1)) := by
            simp [arm, harm0, hgt]
          have hesc : escapedRev (LBRACK :: rev) false = false := by rw [hcons, show (LBRACK == BSLASH) = false from by decide]; rfl
          have hm' : Matches (cnt.set LBRACK (cnt.get LBRACK + 1)) false nc (ns + 1) := by
            refine ⟨?_, ?_, ?_⟩
            · rw [Counter.get_set _ _ _ ks]; simp only [hne5, if_false]; exact hq
            · rw [Counter.get_set _ _ _ ks]; simp only [hne6, if_false]; exact hc
            · rw [Counter.get_set _ _ _ ks, hs]; simp
          simp only [beq_self_eq_true, if_true, mstep, harm]
          exact post_sim rev _ k hk _ _ _ _ hm' (Counter.len_set _ _ _ ks) hesc
        · have c4' : (ch == LBRACK) = false := by simpa using c4
          simp only [c4', Bool.false_eq_true, if_false]
          by_cases c5 : ch = RBRACE
          · subst c5
            have harm : arm rev RBRACE cnt = some (cnt.set LBRACE (cnt.get LBRACE - 1)) := by
              simp [arm, hgt, show (RBRACE == QUOTE) = false from by decide, show (RBRACE == LBRACE) = false from by decide,
                show (RBRACE == LBRACK) = false from by decide]
            have hesc : escapedRev (RBRACE :: rev) false = false := by rw [hcons, show (RBRACE == BSLASH) = false from by decide]; rfl
            have hm' : Matches (cnt.set LBRACE (cnt.get LBRACE - 1)) false (nc - 1) ns := by
              refine ⟨?_, ?_, ?_⟩
              · rw [Counter.get_set _ _ _ kc]; simp only [hne4, if_false]; exact hq
              · rw [Counter.get_set _ _ _ kc, hc]; simp
              · rw [Counter.get_set _ _ _ kc]; simp only [hne3, if_false]; exact hs
            simp only [beq_self_eq_true, if_true, mstep, harm]
            exact post_sim rev _ k hk _ _ _ _ hm' (Counter.len_set _ _ _ kc) hesc
          · have c5' : (ch == RBRACE) = false := by simpa using c5
            simp only [c5', Bool.false_eq_true, if_false]
            by_cases c6 : ch = RBRACK
            · subst c6
              have harm : arm rev RBRACK cnt = some (cnt.set LBRACK (cnt.get LBRACK - 1)) := by
                simp [arm, hgt, show (RBRACK == QUOTE) = false from by decide, show (RBRACK == LBRACE) = false from by decide,
                  show (RBRACK == LBRACK) = false from by decide, show (RBRACK == RBRACE) = false from by decide]
              have hesc : escapedRev (RBRACK :: rev) false = false := by rw [hcons, show (RBRACK == BSLASH) = false from by decide]; rfl
              have hm' : Matches (cnt.set LBRACK (cnt.get LBRACK - 1)) false nc (ns - 1) := by
                refine ⟨?_, ?_, ?_⟩
                · rw [Counter.get_set _ _ _ ks]; simp only [hne5, if_false]; exact hq
                · rw [Counter.get_set _ _ _ ks]; simp only [hne6, if_false]; exact hc
                · rw [Counter.get_set _ _ _ ks, hs]; simp
              simp only [beq_self_eq_true, if_true, mstep, harm]
              exact post_sim rev _ k hk _ _ _ _ hm' (Counter.len_set _ _ _ ks) hesc
            · have c6' : (ch == RBRACK) = false := by simpa using c6
              simp only [c6', Bool.false_eq_true, if_false]
              have harm : arm rev ch cnt = none := by
                simp [arm, harm0, hgt, c3', c4', c5', c6']
              have hpl : plainArm ch cnt = false := by
                simp only [plainArm, Bool.and_eq_false_iff, beq_eq_false_iff_ne]; right; exact hlen
              simp only [mstep, harm, hpl, Bool.false_eq_true, if_false, StepRel, Abs]
              exact ⟨trivial, hk, hlen, hq, hc, hs, hcons⟩

theorem step_sim (rev : Bytes) (ch : UInt8) (cnt : Counter) (first : Option UInt8) (st : SSt)
    (h : Abs cnt first rev st) : StepRel rev ch (step st ch) (mstep rev ch cnt first) := by
  cases st with
  | lead => exact step_sim_lead rev ch cnt first h
  | encl k inStr nc ns esc => exact step_sim_encl rev ch cnt first k inStr nc ns esc h

def OutRel (rev' : Bytes) : SOut → ScanOut → Prop
  | .opened st', .exhausted cnt' first' => Abs cnt' first' rev' st'
  | .closed k, .closed o => k = o + 1
  | .plain w, .plainAt o => w = o
  | _, _ => False

/-- the whole `for` loop over the new bytes = the spec scanner over the same bytes from the corresponding state -/
theorem scanLoop_sim (rest : Bytes) : ∀ (rev : Bytes) (off : Nat) (cnt : Counter) (first : Option UInt8) (st : SSt),
    Abs cnt first rev st → OutRel (rest.reverse ++ rev) (sscan st off rest) (scanLoop rev rest off cnt first) := by
  induction rest with
  | nil => intro rev off cnt first st h; simpa [sscan, scanLoop, OutRel] using h
  | cons ch rest ih =>
    intro rev off cnt first st h
    have hs := step_sim rev ch cnt first st h
    rw [scanLoop_cons]
    simp only [sscan]
    cases hst : step st ch with
    | cont st' =>
      cases hm : mstep rev ch cnt first with
      | cont cnt' first' =>
        rw [hst, hm] at hs
        simp only [StepRel] at hs
        have := ih (ch :: rev) (off + 1) cnt' first' st' hs
        simpa using this
      | close => rw [hst, hm] at hs; exact hs.elim
      | plain => rw [hst, hm] at hs; exact hs.elim
    | close =>
      cases hm : mstep rev ch cnt first with
      | cont cnt' first' => rw [hst, hm] at hs; exact hs.elim
      | close => simp [OutRel]
      | plain => rw [hst, hm] at hs; exact hs.elim
    | plain =>
      cases hm : mstep rev ch cnt first with
      | cont cnt' first' => rw [hst, hm] at hs; exact hs.elim
      | close => rw [hst, hm] at hs; exact hs.elim
      | plain => simp [OutRel]

/-! ### the generator as a whole -/

theorem split_erase (doc : Bytes) (consumed limit : Nat) :
    (split doc consumed limit : Res State).erase = splitS doc consumed limit := by
  unfold split splitS
  split
  · rfl
  · split
    · rfl
    · split <;> rfl

theorem plainLoop_erase (limit : Nat) (d : Bytes) : (plainLoop limit d).erase = plainS limit d := by
  unfold plainLoop plainS
  cases nprintIdx d with
  | none => simp only; split <;> simp [Res.erase]
  | some i => simp only; exact split_erase d i limit

/-- `Inv limit s b`: `s` is the suspended generator after having been sent `b` in total (and no limit check fired) -/
def Inv (limit : Nat) (s : State) (b : Bytes) : Prop :=
  (s.plain = false ∧ s.doc = b ∧ s.offset = b.length ∧ b.length ≤ limit ∧
    ∃ st, sscan .lead 0 b = .opened st ∧ Abs s.cnt s.first b.reverse st) ∨
  (s.plain = true ∧ ∃ w, sscan .lead 0 b = .plain w ∧ s.doc = b.drop w ∧ nprintIdx s.doc = none ∧ s.doc.length ≤ limit)

theorem inv_init (limit : Nat) : Inv limit init [] := by
  left
  refine ⟨rfl, rfl, rfl, Nat.zero_le _, .lead, rfl, ?_⟩
  exact ⟨rfl, rfl, rfl⟩

/-- **Resumed scan = fresh scan of everything received.** -/
theorem feed_spec (limit : Nat) (s : State) (b c : Bytes) (h : Inv limit s b) :
    (feed limit s c).erase = spec limit (b ++ c) ∧ ∀ s', feed limit s c = .need s' → Inv limit s' (b ++ c) := by
  rcases h with ⟨hp, hdoc, hoff, hlen, st, hscan, habs⟩ | ⟨hp, w, hscan, hdoc, hnp, hlen⟩
  · -- suspended in the first loop
    have hsim := scanLoop_sim c b.reverse b.length s.cnt s.first st habs
    have happ := sscan_append b c .lead 0
    rw [hscan] at happ
    simp only [Nat.zero_add] at happ
    unfold feed scanRound
    simp only [hp, Bool.false_eq_true, if_false, hdoc, hoff, List.take_left', List.drop_left']
    unfold spec
    rw [happ]
    cases hm : scanLoop b.reverse c b.length s.cnt s.first with
    | closed o =>
      cases hsp : sscan st b.length c with
      | opened st' => rw [hm, hsp] at hsim; exact hsim.elim
      | plain w => rw [hm, hsp] at hsim; exact hsim.elim
      | closed k =>
        rw [hm, hsp] at hsim
        simp only [OutRel] at hsim
        subst hsim
        simp only
        refine ⟨split_erase _ _ _, ?_⟩
        intro s' hs'
        have := split_erase (b ++ c) (o + 1) limit
        rw [hs'] at this
        unfold splitS at this
        simp only [Res.erase] at this
        split at this
        · cases this
        · split at this
          · cases this
          · split at this <;> cases this
    | plainAt o =>
      cases hsp : sscan st b.length c with
      | opened st' => rw [hm, hsp] at hsim; exact hsim.elim
      | closed k => rw [hm, hsp] at hsim; exact hsim.elim
      | plain w =>
        rw [hm, hsp] at hsim
        simp only [OutRel] at hsim
        subst hsim
        simp only
        have hdrop : (if w > 0 then (b ++ c).drop w else b ++ c) = (b ++ c).drop w := by
          by_cases hw : w > 0
          · simp [hw]
          · have : w = 0 := by omega
            subst this; simp
        rw [hdrop]
        refine ⟨plainLoop_erase _ _, ?_⟩
        intro s' hs'
        unfold plainLoop at hs'
        cases hn : nprintIdx ((b ++ c).drop w) with
        | none =>
          rw [hn] at hs'
          simp only at hs'
          split at hs'
          · cases hs'
          · rename_i hl
            injection hs' with hs'
            subst hs'
            right
            refine ⟨rfl, w, ?_, rfl, hn, by simp only; omega⟩
            rw [happ, hsp]
        | some i =>
          rw [hn] at hs'
          simp only at hs'
          unfold split at hs'
          split at hs'
          · cases hs'
          · split at hs'
            · cases hs'
            · split at hs' <;> cases hs'
    | exhausted cnt' first' =>
      cases hsp : sscan st b.length c with
      | closed k => rw [hm, hsp] at hsim; exact hsim.elim
      | plain w => rw [hm, hsp] at hsim; exact hsim.elim
      | opened st' =>
        rw [hm, hsp] at hsim
        simp only [OutRel] at hsim
        simp only
        by_cases hl : (b ++ c).length > limit
        · have hl' : limit < b.length + c.length := by simpa using hl
          simp [hl', Res.erase]
        · simp only [hl, if_false, Res.erase, true_and]
          intro s' hs'
          injection hs' with hs'
          subst hs'
          left
          refine ⟨rfl, rfl, rfl, by omega, st', ?_, ?_⟩
          · rw [happ, hsp]
          · simpa using hsim
  · -- suspended in the plain-value loop
    have hb := sscan_plain_bounds b .lead 0 w hscan
    have happ := sscan_append b c .lead 0
    rw [hscan] at happ
    simp only at happ
    have hdrop : (b ++ c).drop w = b.drop w ++ c := by
      rw [List.drop_append_of_le_length (by omega)]
    unfold feed
    simp only [hp, if_true, hdoc]
    unfold spec
    rw [happ]
    simp only [hdrop]
    refine ⟨plainLoop_erase _ _, ?_⟩
    intro s' hs'
    unfold plainLoop at hs'
    cases hn : nprintIdx (b.drop w ++ c) with
    | none =>
      rw [hn] at hs'
      simp only at hs'
      split at hs'
      · cases hs'
      · rename_i hl
        injection hs' with hs'
        subst hs'
        right
        refine ⟨rfl, w, happ, by simp only [hdrop], hn, by simp only; omega⟩
    | some i =>
      rw [hn] at hs'
      simp only at hs'
      unfold split at hs'
      split at hs'
      · cases hs'
      · split at hs'
        · cases hs'
        · split at hs' <;> cases hs'

/-- the raw JSON framer refines its byte-level spec -/
theorem refines (limit : Nat) : Refines init (feed limit) (spec limit) (Inv limit) :=
  ⟨inv_init limit, fun s b c h => feed_spec limit s b c h⟩

/-- what the suspended generator holds is never longer than the limit -/
theorem inv_doc_le (limit : Nat) (s : State) (b : Bytes) (h : Inv limit s b) : s.doc.length ≤ limit := by
  rcases h with ⟨_, hdoc, _, hlen, _⟩ | ⟨_, w, _, _, _, hlen⟩
  · rw [hdoc]; exact hlen
  · exact hlen

end JRaw
end EasyNet
