/-
  Data side of the send paths: `adjust_leftover_buffer` removes exactly the bytes that were sent, the wire only ever
  receives the next bytes of the packet, and every socket call that does not block makes progress.
-/
import EasyNet.Lemmas.Time
namespace EasyNet

/-! ## adjust_leftover_buffer -/

theorem adjustRaw_flatten : ∀ (bufs : List Bytes) (n : Nat), n ≤ bufs.flatten.length →
    (adjustRaw bufs n).flatten = bufs.flatten.drop n := by
  intro bufs
  induction bufs with
  | nil => intro n _; simp [adjustRaw]
  | cons b bs ih =>
    intro n hn
    unfold adjustRaw
    by_cases h0 : n = 0
    · simp [h0]
    · simp only [h0, if_false]
      simp only [List.flatten_cons, List.length_append] at hn
      by_cases hb : b.length ≤ n
      · simp only [hb, if_true]
        rw [ih (n - b.length) (by omega)]
        simp only [List.flatten_cons]
        rw [List.drop_append]
        simp [List.drop_eq_nil_of_le hb]
      · simp only [hb, if_false, List.flatten_cons]
        rw [List.drop_append]
        have : n - b.length = 0 := by omega
        simp [this]

theorem dropWhile_empty_flatten (l : List Bytes) : (l.dropWhile (·.isEmpty)).flatten = l.flatten := by
  induction l with
  | nil => rfl
  | cons b bs ih =>
    simp only [List.dropWhile_cons]
    by_cases hb : b.isEmpty = true
    · simp only [hb, if_true, ih, List.flatten_cons]
      have : b = [] := by simpa using hb
      simp [this]
    · simp [hb]

theorem adjust_flatten (fix : Bool) (bufs : List Bytes) (n : Nat) (hn : n ≤ bufs.flatten.length) :
    (adjust fix bufs n).flatten = bufs.flatten.drop n := by
  unfold adjust
  cases fix with
  | true => simp only [if_true]; rw [dropWhile_empty_flatten, adjustRaw_flatten bufs n hn]
  | false => simp only [Bool.false_eq_true, if_false]; exact adjustRaw_flatten bufs n hn

/-- head of the deque is an empty view -/
def headEmpty : List Bytes → Bool
  | [] => false
  | b :: _ => b.isEmpty

theorem headEmpty_dropWhile (l : List Bytes) : headEmpty (l.dropWhile (·.isEmpty)) = false := by
  induction l with
  | nil => rfl
  | cons b bs ih =>
    simp only [List.dropWhile_cons]
    by_cases hb : b.isEmpty = true
    · simp [hb, ih]
    · simp [hb, headEmpty]

theorem offered_le (iov : Nat) (bufs : List Bytes) : offered iov bufs ≤ bufs.flatten.length := by
  unfold offered
  have h : bufs.flatten = (bufs.take iov).flatten ++ (bufs.drop iov).flatten := by
    rw [← List.flatten_append, List.take_append_drop]
  rw [h, List.length_append]; omega

theorem take_offered (iov : Nat) (bufs : List Bytes) (k : Nat) (hk : k ≤ offered iov bufs) :
    (bufs.take iov).flatten.take k = bufs.flatten.take k := by
  have h : bufs.flatten = (bufs.take iov).flatten ++ (bufs.drop iov).flatten := by
    rw [← List.flatten_append, List.take_append_drop]
  rw [h, List.take_append_of_le_length hk]

/-- with at least one view in the window and a non-empty first view, something is offered -/
theorem offered_pos (iov : Nat) (b : Bytes) (bs : List Bytes) (hiov : 1 ≤ iov) (hb : b.isEmpty = false) :
    1 ≤ offered iov (b :: bs) := by
  unfold offered
  cases iov with
  | zero => omega
  | succ n =>
    simp only [List.take_succ_cons, List.flatten_cons, List.length_append]
    have : b ≠ [] := by intro h; simp [h] at hb
    have := List.length_pos_iff.mpr this
    omega

/-! ## what a wait does not touch -/

theorem retryWait_facts (ri : Tmo) (blk : Blk) (t : Tmo) (w : World) :
    match retryWait ri blk t w with
    | .cont _ w' => w'.wire = w.wire ∧ w'.ncall = w.ncall ∧ w'.nsel = w.nsel + 1 ∧ w'.sel.length + 1 = w.sel.length
    | .timeout w' => w'.wire = w.wire ∧ w'.ncall = w.ncall ∧ w.nsel ≤ w'.nsel ∧ w'.nsel + w'.sel.length ≤ w.nsel + w.sel.length
    | .exhausted w' => w'.wire = w.wire ∧ w'.ncall = w.ncall ∧ w.nsel ≤ w'.nsel ∧ w'.nsel + w'.sel.length ≤ w.nsel + w.sel.length
    | .rterr w' => w'.wire = w.wire ∧ w'.ncall = w.ncall ∧ w.nsel ≤ w'.nsel ∧ w'.nsel + w'.sel.length ≤ w.nsel + w.sel.length := by
  unfold retryWait
  by_cases hz : t.isZero = true
  · simp [hz]
  · simp only [hz, Bool.false_eq_true, if_false]
    cases hs : w.sel with
    | nil => simp [hs]
    | cons e sel =>
      simp only []
      cases hwt : Tmo.waitTime t ri with
      | none =>
        simp only []
        by_cases ha : e.avail = true
        · simp [ha, World.afterSelectU, World.ncall, World.nsel, Obs.isCall, Obs.isSelect, List.countP_cons]
        · simp [ha, World.afterSelectU, World.ncall, World.nsel, Obs.isCall, Obs.isSelect, List.countP_cons] <;> omega
      | some wv =>
        simp only []
        by_cases hb : (!e.avail && Tmo.le t ri) = true
        · simp only [hb, if_true]
          simp [World.afterSelect, World.ncall, World.nsel, Obs.isCall, Obs.isSelect, List.countP_cons] <;> omega
        · simp only [hb, Bool.false_eq_true, if_false]
          simp [World.afterSelect, World.ncall, World.nsel, Obs.isCall, Obs.isSelect, List.countP_cons]

/-- environment law: a send that succeeds on at least one offered byte reports at least one byte -/
def SentPos (sock : List SockCall) : Prop := ∀ c ∈ sock, ∀ n, c.ev = .sent n → 1 ≤ n

theorem classifySend_ok {fl : Flavour} {ev : SockEv} {k : Nat} (h : classifySend fl ev = .ok k) : ev = .sent k := by
  cases fl <;> cases ev <;> simp [classifySend] at h <;> simp [h]

/-! ## sendmsg loop -/

/-- the wire receives a prefix of what the deque holds, all of it when the loop ends normally -/
theorem sendmsgLoop_wire (fix : Bool) (ri : Tmo) (iov : Nat) :
    ∀ (sock : List SockCall) (bufs : List Bytes) (t : Tmo) (w : World),
      ∃ X Y, bufs.flatten = X ++ Y ∧ (sendmsgLoop fix ri iov sock bufs t w).2.wire = w.wire ++ X ∧
        ((sendmsgLoop fix ri iov sock bufs t w).1 = .ok → Y = []) := by
  intro sock
  induction sock with
  | nil =>
    intro bufs t w
    cases bufs with
    | nil => exact ⟨[], [], by simp [sendmsgLoop]⟩
    | cons b bs => exact ⟨[], (b :: bs).flatten, by simp [sendmsgLoop]⟩
  | cons c rest ih =>
    intro bufs t w
    cases bufs with
    | nil => exact ⟨[], [], by simp [sendmsgLoop]⟩
    | cons b bs =>
      unfold sendmsgLoop
      cases hcl : classifySend .plain c.ev with
      | ok k =>
        simp only []
        have hle : min k (offered iov (b :: bs)) ≤ (b :: bs).flatten.length :=
          Nat.le_trans (Nat.min_le_right _ _) (offered_le iov (b :: bs))
        obtain ⟨X, Y, h1, h2, h3⟩ := ih (adjust fix (b :: bs) (min k (offered iov (b :: bs)))) t
          ((w.afterCall (.call (offered iov (b :: bs)) (min iov (bs.length + 1))) c.p).put
            (((b :: bs).take iov).flatten.take (min k (offered iov (b :: bs)))))
        rw [adjust_flatten fix _ _ hle] at h1
        refine ⟨(b :: bs).flatten.take (min k (offered iov (b :: bs))) ++ X, Y, ?_, ?_, h3⟩
        · rw [List.append_assoc, ← h1, List.take_append_drop]
        · rw [h2, take_offered iov (b :: bs) _ (Nat.min_le_right _ _)]
          simp [World.put, World.afterCall, List.append_assoc]
      | got x => exact ⟨[], (b :: bs).flatten, by simp [World.afterCall]⟩
      | err e => exact ⟨[], (b :: bs).flatten, by simp [World.afterCall]⟩
      | bad => exact ⟨[], (b :: bs).flatten, by simp [World.afterCall]⟩
      | block blk =>
        simp only []
        have hf := retryWait_facts ri blk t (w.afterCall (.call (offered iov (b :: bs)) (min iov (bs.length + 1))) c.p)
        cases hr : retryWait ri blk t (w.afterCall (.call (offered iov (b :: bs)) (min iov (bs.length + 1))) c.p) with
        | cont t' w' =>
          rw [hr] at hf
          obtain ⟨X, Y, h1, h2, h3⟩ := ih (b :: bs) t' w'
          exact ⟨X, Y, h1, by simpa [hf.1, World.afterCall] using h2, h3⟩
        | timeout w' => rw [hr] at hf; exact ⟨[], (b :: bs).flatten, by simp [hf.1, World.afterCall]⟩
        | exhausted w' => rw [hr] at hf; exact ⟨[], (b :: bs).flatten, by simp [hf.1, World.afterCall]⟩
        | rterr w' => rw [hr] at hf; exact ⟨[], (b :: bs).flatten, by simp [hf.1, World.afterCall]⟩

/-- progress measure of the deque: bytes left, plus one if an empty view sits at the head -/
def mu (bufs : List Bytes) : Nat := bufs.flatten.length + (if headEmpty bufs then 1 else 0)

theorem mu_adjust (iov : Nat) (b : Bytes) (bs : List Bytes) (k : Nat) (hiov : 1 ≤ iov) (hk : 1 ≤ k) :
    mu (adjust true (b :: bs) (min k (offered iov (b :: bs)))) + 1 ≤ mu (b :: bs) := by
  have hle : min k (offered iov (b :: bs)) ≤ (b :: bs).flatten.length :=
    Nat.le_trans (Nat.min_le_right _ _) (offered_le iov (b :: bs))
  have hfl := adjust_flatten true (b :: bs) _ hle
  have hhe : headEmpty (adjust true (b :: bs) (min k (offered iov (b :: bs)))) = false := by
    unfold adjust; simp only [if_true]; exact headEmpty_dropWhile _
  unfold mu
  rw [hhe, hfl, List.length_drop]
  simp only [Bool.false_eq_true, if_false]
  by_cases hb : b.isEmpty = true
  · simp only [headEmpty, hb, if_true]; omega
  · have hb' : b.isEmpty = false := by simpa using hb
    have := offered_pos iov b bs hiov hb'
    simp only [headEmpty, hb', Bool.false_eq_true, if_false]
    omega

/-- counting socket calls and waits in the sendmsg loop (repaired `adjust_leftover_buffer`) -/
theorem sendmsgLoop_counts (ri : Tmo) (iov : Nat) (hiov : 1 ≤ iov) :
    ∀ (sock : List SockCall) (bufs : List Bytes) (t : Tmo) (w : World), SentPos sock →
      (sendmsgLoop true ri iov sock bufs t w).2.ncall + w.nsel ≤
          w.ncall + (sendmsgLoop true ri iov sock bufs t w).2.nsel + mu bufs + 1 ∧
      ((sendmsgLoop true ri iov sock bufs t w).1 = .exhaustedSock →
          (sendmsgLoop true ri iov sock bufs t w).2.ncall = w.ncall + sock.length) ∧
      (sendmsgLoop true ri iov sock bufs t w).2.nsel + (sendmsgLoop true ri iov sock bufs t w).2.sel.length ≤
          w.nsel + w.sel.length ∧
      w.nsel ≤ (sendmsgLoop true ri iov sock bufs t w).2.nsel := by
  intro sock
  induction sock with
  | nil =>
    intro bufs t w _
    cases bufs with
    | nil => refine ⟨?_, ?_, ?_, ?_⟩ <;> simp [sendmsgLoop] <;> omega
    | cons b bs => refine ⟨?_, ?_, ?_, ?_⟩ <;> simp [sendmsgLoop] <;> omega
  | cons c rest ih =>
    intro bufs t w hlaw
    have hlaw' : SentPos rest := fun c' hc' => hlaw c' (List.mem_cons_of_mem _ hc')
    cases bufs with
    | nil => refine ⟨?_, ?_, ?_, ?_⟩ <;> simp [sendmsgLoop] <;> omega
    | cons b bs =>
      unfold sendmsgLoop
      have hcall : ∀ (o : Obs) (p : Nat), o.isCall = true → o.isSelect = false →
          (w.afterCall o p).ncall = w.ncall + 1 ∧ (w.afterCall o p).nsel = w.nsel ∧ (w.afterCall o p).sel = w.sel := by
        intro o p h1 h2; simp [World.afterCall, World.ncall, World.nsel, h1, h2]
      obtain ⟨hc1, hc2, hc3⟩ := hcall (.call (offered iov (b :: bs)) (min iov (bs.length + 1))) c.p rfl rfl
      cases hcl : classifySend .plain c.ev with
      | ok k =>
        simp only []
        have hk : 1 ≤ k := hlaw c (List.mem_cons_self ..) k (classifySend_ok hcl)
        have hmu := mu_adjust iov b bs k hiov hk
        obtain ⟨i1, i2, i3, i4⟩ := ih (adjust true (b :: bs) (min k (offered iov (b :: bs)))) t
          ((w.afterCall (.call (offered iov (b :: bs)) (min iov (bs.length + 1))) c.p).put
            (((b :: bs).take iov).flatten.take (min k (offered iov (b :: bs))))) hlaw'
        simp only [World.put] at i1 i2 i3 i4 ⊢
        have e1 : ({ (w.afterCall (.call (offered iov (b :: bs)) (min iov (bs.length + 1))) c.p) with
            wire := (w.afterCall (.call (offered iov (b :: bs)) (min iov (bs.length + 1))) c.p).wire ++
              ((b :: bs).take iov).flatten.take (min k (offered iov (b :: bs))) } : World).ncall = w.ncall + 1 := hc1
        have e2 : ({ (w.afterCall (.call (offered iov (b :: bs)) (min iov (bs.length + 1))) c.p) with
            wire := (w.afterCall (.call (offered iov (b :: bs)) (min iov (bs.length + 1))) c.p).wire ++
              ((b :: bs).take iov).flatten.take (min k (offered iov (b :: bs))) } : World).nsel = w.nsel := hc2
        rw [e1, e2] at i1
        rw [e1] at i2
        rw [e2] at i3 i4
        have e3 : (w.afterCall (.call (offered iov (b :: bs)) (min iov (bs.length + 1))) c.p).sel = w.sel := hc3
        simp only [e3] at i3
        refine ⟨by omega, ?_, i3, i4⟩
        intro hex; rw [i2 hex, List.length_cons]; omega
      | got x => simp only []; rw [hc1, hc2, hc3]; simp; omega
      | err e => simp only []; rw [hc1, hc2, hc3]; simp; omega
      | bad => simp only []; rw [hc1, hc2, hc3]; simp; omega
      | block blk =>
        simp only []
        have hf := retryWait_facts ri blk t (w.afterCall (.call (offered iov (b :: bs)) (min iov (bs.length + 1))) c.p)
        cases hr : retryWait ri blk t (w.afterCall (.call (offered iov (b :: bs)) (min iov (bs.length + 1))) c.p) with
        | cont t' w' =>
          rw [hr] at hf
          obtain ⟨f1, f2, f3, f4⟩ := hf
          obtain ⟨i1, i2, i3, i4⟩ := ih (b :: bs) t' w' hlaw'
          simp only []
          rw [f2, hc1, f3, hc2] at i1
          rw [f2, hc1] at i2
          rw [f3, hc2] at i3 i4
          rw [hc3] at f4
          refine ⟨by omega, ?_, by omega, by omega⟩
          intro hex; rw [i2 hex, List.length_cons]; omega
        | timeout w' =>
          rw [hr] at hf; obtain ⟨f1, f2, f3, f4⟩ := hf
          simp only []; rw [f2, hc1]; rw [hc2] at f3 f4; rw [hc3] at f4
          exact ⟨by omega, by simp, f4, f3⟩
        | exhausted w' =>
          rw [hr] at hf; obtain ⟨f1, f2, f3, f4⟩ := hf
          simp only []; rw [f2, hc1]; rw [hc2] at f3 f4; rw [hc3] at f4
          exact ⟨by omega, by simp, f4, f3⟩
        | rterr w' =>
          rw [hr] at hf; obtain ⟨f1, f2, f3, f4⟩ := hf
          simp only []; rw [f2, hc1]; rw [hc2] at f3 f4; rw [hc3] at f4
          exact ⟨by omega, by simp, f4, f3⟩

/-! ## send_all -/

theorem sendAllLoop_wire (fl : Flavour) (ri : Tmo) (data : Bytes) :
    ∀ (sock : List SockCall) (s : SAState) (w : World),
      ∃ X Y, data.drop s.total = X ++ Y ∧ (sendAllLoop fl ri data sock s w).2.wire = w.wire ++ X ∧
        ((sendAllLoop fl ri data sock s w).1 = .ok → Y = []) := by
  intro sock
  induction sock with
  | nil => intro s w; exact ⟨[], data.drop s.total, by simp [sendAllLoop]⟩
  | cons c rest ih =>
    intro s w
    unfold sendAllLoop
    cases hcl : classifySend fl c.ev with
    | ok k =>
      simp only []
      by_cases hdone : data.length ≤ s.total + min k (data.length - s.total)
      · simp only [hdone, if_true]
        refine ⟨data.drop s.total, [], by simp, ?_, fun _ => rfl⟩
        have : (data.drop s.total).take (min k (data.length - s.total)) = data.drop s.total := by
          apply List.take_of_length_le; rw [List.length_drop]; omega
        simp [World.put, World.afterCall, this]
      · simp only [hdone, if_false]
        obtain ⟨X, Y, h1, h2, h3⟩ := ih
          ⟨s.total + min k (data.length - s.total), s.tOut.recompute (w.now + c.p - s.start),
            s.tOut.recompute (w.now + c.p - s.start), w.now + c.p⟩
          ((w.afterCall (.call (data.length - s.total) 1) c.p).put
            ((data.drop s.total).take (min k (data.length - s.total))))
        refine ⟨(data.drop s.total).take (min k (data.length - s.total)) ++ X, Y, ?_, ?_, h3⟩
        · simp only [] at h1
          rw [List.append_assoc, ← h1, ← List.drop_drop, List.take_append_drop]
        · rw [h2]; simp [World.put, World.afterCall, List.append_assoc]
    | got x => exact ⟨[], data.drop s.total, by simp [World.afterCall]⟩
    | err e => exact ⟨[], data.drop s.total, by simp [World.afterCall]⟩
    | bad => exact ⟨[], data.drop s.total, by simp [World.afterCall]⟩
    | block blk =>
      simp only []
      have hf := retryWait_facts ri blk s.tIn (w.afterCall (.call (data.length - s.total) 1) c.p)
      cases hr : retryWait ri blk s.tIn (w.afterCall (.call (data.length - s.total) 1) c.p) with
      | cont t' w' =>
        rw [hr] at hf
        obtain ⟨X, Y, h1, h2, h3⟩ := ih { s with tIn := t' } w'
        exact ⟨X, Y, h1, by simpa [hf.1, World.afterCall] using h2, h3⟩
      | timeout w' => rw [hr] at hf; exact ⟨[], data.drop s.total, by simp [hf.1, World.afterCall]⟩
      | exhausted w' => rw [hr] at hf; exact ⟨[], data.drop s.total, by simp [hf.1, World.afterCall]⟩
      | rterr w' => rw [hr] at hf; exact ⟨[], data.drop s.total, by simp [hf.1, World.afterCall]⟩

/-- counting socket calls and waits in send_all -/
theorem sendAllLoop_counts (fl : Flavour) (ri : Tmo) (data : Bytes) :
    ∀ (sock : List SockCall) (s : SAState) (w : World), SentPos sock →
      (sendAllLoop fl ri data sock s w).2.ncall + w.nsel ≤
          w.ncall + (sendAllLoop fl ri data sock s w).2.nsel + (data.length - s.total) + 1 ∧
      ((sendAllLoop fl ri data sock s w).1 = .exhaustedSock →
          (sendAllLoop fl ri data sock s w).2.ncall = w.ncall + sock.length) ∧
      (sendAllLoop fl ri data sock s w).2.nsel + (sendAllLoop fl ri data sock s w).2.sel.length ≤
          w.nsel + w.sel.length ∧
      w.nsel ≤ (sendAllLoop fl ri data sock s w).2.nsel := by
  intro sock
  induction sock with
  | nil => intro s w _; refine ⟨?_, ?_, ?_, ?_⟩ <;> simp [sendAllLoop] <;> omega
  | cons c rest ih =>
    intro s w hlaw
    have hlaw' : SentPos rest := fun c' hc' => hlaw c' (List.mem_cons_of_mem _ hc')
    unfold sendAllLoop
    have hcall : ∀ (o : Obs) (p : Nat), o.isCall = true → o.isSelect = false →
        (w.afterCall o p).ncall = w.ncall + 1 ∧ (w.afterCall o p).nsel = w.nsel ∧ (w.afterCall o p).sel = w.sel := by
      intro o p h1 h2; simp [World.afterCall, World.ncall, World.nsel, h1, h2]
    obtain ⟨hc1, hc2, hc3⟩ := hcall (.call (data.length - s.total) 1) c.p rfl rfl
    cases hcl : classifySend fl c.ev with
    | ok k =>
      simp only []
      have hk : 1 ≤ k := hlaw c (List.mem_cons_self ..) k (classifySend_ok hcl)
      by_cases hdone : data.length ≤ s.total + min k (data.length - s.total)
      · simp only [hdone, if_true]
        have e1 : ((w.afterCall (.call (data.length - s.total) 1) c.p).put
            ((data.drop s.total).take (min k (data.length - s.total)))).ncall = w.ncall + 1 := hc1
        have e2 : ((w.afterCall (.call (data.length - s.total) 1) c.p).put
            ((data.drop s.total).take (min k (data.length - s.total)))).nsel = w.nsel := hc2
        have e3 : ((w.afterCall (.call (data.length - s.total) 1) c.p).put
            ((data.drop s.total).take (min k (data.length - s.total)))).sel = w.sel := hc3
        rw [e1, e2, e3]
        exact ⟨by omega, by simp, Nat.le_refl _, Nat.le_refl _⟩
      · simp only [hdone, if_false]
        obtain ⟨i1, i2, i3, i4⟩ := ih
          ⟨s.total + min k (data.length - s.total), s.tOut.recompute (w.now + c.p - s.start),
            s.tOut.recompute (w.now + c.p - s.start), w.now + c.p⟩
          ((w.afterCall (.call (data.length - s.total) 1) c.p).put
            ((data.drop s.total).take (min k (data.length - s.total)))) hlaw'
        have e1 : ((w.afterCall (.call (data.length - s.total) 1) c.p).put
            ((data.drop s.total).take (min k (data.length - s.total)))).ncall = w.ncall + 1 := hc1
        have e2 : ((w.afterCall (.call (data.length - s.total) 1) c.p).put
            ((data.drop s.total).take (min k (data.length - s.total)))).nsel = w.nsel := hc2
        have e3 : ((w.afterCall (.call (data.length - s.total) 1) c.p).put
            ((data.drop s.total).take (min k (data.length - s.total)))).sel = w.sel := hc3
        rw [e1, e2] at i1
        rw [e1] at i2
        rw [e2, e3] at i3
        rw [e2] at i4
        simp only [] at i1
        refine ⟨by omega, ?_, i3, i4⟩
        intro hex; rw [i2 hex, List.length_cons]; omega
    | got x => simp only []; rw [hc1, hc2, hc3]; simp; omega
    | err e => simp only []; rw [hc1, hc2, hc3]; simp; omega
    | bad => simp only []; rw [hc1, hc2, hc3]; simp; omega
    | block blk =>
      simp only []
      have hf := retryWait_facts ri blk s.tIn (w.afterCall (.call (data.length - s.total) 1) c.p)
      cases hr : retryWait ri blk s.tIn (w.afterCall (.call (data.length - s.total) 1) c.p) with
      | cont t' w' =>
        rw [hr] at hf
        obtain ⟨f1, f2, f3, f4⟩ := hf
        obtain ⟨i1, i2, i3, i4⟩ := ih { s with tIn := t' } w' hlaw'
        simp only [] at i1 i2 i3 i4 ⊢
        rw [hc3] at f4
        refine ⟨by omega, ?_, by omega, by omega⟩
        intro hex; rw [i2 hex, List.length_cons]; omega
      | timeout w' =>
        rw [hr] at hf; obtain ⟨f1, f2, f3, f4⟩ := hf
        simp only []; rw [f2, hc1]; rw [hc2] at f3 f4; rw [hc3] at f4
        exact ⟨by omega, by simp, f4, f3⟩
      | exhausted w' =>
        rw [hr] at hf; obtain ⟨f1, f2, f3, f4⟩ := hf
        simp only []; rw [f2, hc1]; rw [hc2] at f3 f4; rw [hc3] at f4
        exact ⟨by omega, by simp, f4, f3⟩
      | rterr w' =>
        rw [hr] at hf; obtain ⟨f1, f2, f3, f4⟩ := hf
        simp only []; rw [f2, hc1]; rw [hc2] at f3 f4; rw [hc3] at f4
        exact ⟨by omega, by simp, f4, f3⟩

end EasyNet
