/-
  The buffer-filling consumer (BufferedStreamDataConsumer) over any buffered framer that refines a byte-level
  spec behaves like the reference `refRun spec`, for every sequence of fills that fit the offered buffer.
-/
import EasyNet.Model.Spec
namespace EasyNet

theorem writeAt_length (buf : Bytes) (pos : Nat) (d : Bytes) (h : pos + d.length ≤ buf.length) :
    (writeAt buf pos d).length = buf.length := by
  unfold writeAt; simp; omega

theorem writeAt_take_end (buf : Bytes) (pos : Nat) (d : Bytes) (h : pos + d.length ≤ buf.length) :
    (writeAt buf pos d).take (pos + d.length) = buf.take pos ++ d := by
  unfold writeAt
  have h1 : (buf.take pos ++ d).length = pos + d.length := by simp; omega
  rw [List.take_append_of_le_length (by omega)]
  rw [← h1, List.take_length]

theorem writeAt_take_before (buf : Bytes) (pos k : Nat) (d : Bytes) (hk : k ≤ pos) (h : pos ≤ buf.length) :
    (writeAt buf pos d).take k = buf.take k := by
  unfold writeAt
  rw [List.append_assoc, List.take_append_of_le_length (by simp; omega)]
  rw [List.take_take]
  congr 1; omega

/-- "buffered framer `(init, feed)` refines `spec`"; `acc s` = number of bytes the framer has been given -/
structure BRefines {σ : Type} (init : σ) (feed : σ → Bytes → Nat → BRes σ) (acc : σ → Nat)
    (spec : Bytes → SRes) (Inv : σ → Bytes → Prop) (cap : Nat) : Prop where
  init : Inv init []
  acc_eq : ∀ s b, Inv s b → acc s = b.length
  step : ∀ s buffer total, buffer.length = cap → Inv s (buffer.take (acc s)) → acc s + total ≤ buffer.length →
    (feed s buffer total).erase = spec (buffer.take (acc s + total)) ∧
    ∀ s' st, feed s buffer total = .need s' st → Inv s' (buffer.take (acc s + total)) ∧ st = acc s + total
  /-- a delivered remainder is strictly shorter than what was looked at -/
  rest_lt : ∀ b d r, spec b = .done d r → r.length < b.length
  rest_lt' : ∀ b r, spec b = .fail r → r.length < b.length

/-- consumer state `c` (capacity `cap`) retains exactly the bytes `h` -/
def BufConsumer.Rel {σ} (acc : σ → Nat) (spec : Bytes → SRes) (Inv : σ → Bytes → Prop) (cap : Nat)
    (c : BufConsumer σ) (h : Bytes) : Prop :=
  c.crashed = false ∧
  ((c.fr = none ∧ c.written = 0 ∧ h = [] ∧ (c.buffer = [] ∨ c.buffer.length = cap)) ∨
   (∃ s, c.fr = some s ∧ c.buffer.length = cap ∧ c.start = acc s ∧ acc s + c.written ≤ cap ∧
      c.buffer.take (acc s + c.written) = h ∧ Inv s (c.buffer.take (acc s)) ∧
      (c.written = 0 → h = [] ∨ spec h = .need)))

variable {σ : Type} {init : σ} {feed : σ → Bytes → Nat → BRes σ} {acc : σ → Nat}
  {spec : Bytes → SRes} {Inv : σ → Bytes → Prop}

/-- `saveRemainder` after a finished framer: the remainder becomes the retained bytes -/
theorem BufConsumer.saveRemainder_rel (cap : Nat) (R : BRefines init feed acc spec Inv cap) (hcap : 0 < cap)
    (c : BufConsumer σ) (rest : Bytes) (hfr : c.fr = none) (hw : c.written = 0) (hlen : c.buffer.length = cap)
    (hcr : c.crashed = false) (hrest : rest.length < cap) :
    BufConsumer.Rel acc spec Inv cap (BufConsumer.saveRemainder init 0 cap c rest) rest ∧
    (BufConsumer.saveRemainder init 0 cap c rest).written = rest.length := by
  have hacc0 : acc init = 0 := by have := R.acc_eq init [] R.init; simpa using this
  unfold BufConsumer.saveRemainder
  by_cases hr : rest.isEmpty
  · have : rest = [] := by simpa using hr
    subst this
    simp only [List.isEmpty_nil, if_true]
    exact ⟨⟨hcr, Or.inl ⟨hfr, hw, rfl, Or.inr hlen⟩⟩, by simp [hw]⟩
  · have hne : c.buffer.isEmpty = false := by
      cases hb : c.buffer with
      | nil => rw [hb] at hlen; simp at hlen; omega
      | cons x xs => simp
    simp only [hr, Bool.false_eq_true, if_false, BufConsumer.prepare, hfr, hne, BufConsumer.room, hw]
    have hroom : ¬ (c.buffer.length - (0 + 0) = 0) := by omega
    simp only [hroom, if_false, Nat.add_zero, Nat.zero_add]
    refine ⟨⟨hcr, Or.inr ⟨init, rfl, ?_, ?_, ?_, ?_, ?_, ?_⟩⟩, trivial⟩
    · show (writeAt c.buffer 0 rest).length = cap
      rw [writeAt_length _ _ _ (by omega)]; exact hlen
    · exact hacc0.symm
    · show acc init + rest.length ≤ cap
      omega
    · show (writeAt c.buffer 0 rest).take (acc init + rest.length) = rest
      rw [hacc0]
      have := writeAt_take_end c.buffer 0 rest (by omega)
      simpa using this
    · show Inv init ((writeAt c.buffer 0 rest).take (acc init))
      rw [hacc0]; simpa using R.init
    · intro h0
      have h0' : rest.length = 0 := h0
      have : rest = [] := List.eq_nil_of_length_eq_zero h0'
      simp [this] at hr

/-- one `next` on a consumer whose framer is suspended and whose buffer already holds the new bytes -/
theorem BufConsumer.next_active (cap : Nat) (R : BRefines init feed acc spec Inv cap) (hcap : 0 < cap)
    (c : BufConsumer σ) (s : σ) (nb : Nat)
    (hfr : c.fr = some s) (hlen : c.buffer.length = cap) (hcr : c.crashed = false)
    (hfit : acc s + (nb + c.written) ≤ cap) (hpos : 0 < nb + c.written)
    (hinv : Inv s (c.buffer.take (acc s))) :
    match spec (c.buffer.take (acc s + (nb + c.written))) with
    | .need =>
      (BufConsumer.next init 0 cap feed c nb).2 = none ∧
      BufConsumer.Rel acc spec Inv cap (BufConsumer.next init 0 cap feed c nb).1 (c.buffer.take (acc s + (nb + c.written)))
    | .done d r =>
      (BufConsumer.next init 0 cap feed c nb).2 = some (.frame d) ∧
      BufConsumer.Rel acc spec Inv cap (BufConsumer.next init 0 cap feed c nb).1 r ∧
      (BufConsumer.next init 0 cap feed c nb).1.written = r.length
    | .fail r =>
      (BufConsumer.next init 0 cap feed c nb).2 = some .limit ∧
      BufConsumer.Rel acc spec Inv cap (BufConsumer.next init 0 cap feed c nb).1 r ∧
      (BufConsumer.next init 0 cap feed c nb).1.written = r.length := by
  have hstep := R.step s c.buffer (nb + c.written) hlen hinv (by omega)
  have hne : ¬ (nb + c.written = 0) := by omega
  have hblen : (c.buffer.take (acc s + (nb + c.written))).length = acc s + (nb + c.written) := by
    simp; omega
  unfold BufConsumer.next
  simp only [hfr, hne, if_false]
  cases hf : feed s c.buffer (nb + c.written) with
  | need s' st =>
    have h1 := hstep.1; rw [hf] at h1; simp only [BRes.erase] at h1
    have h2 := hstep.2 s' st hf
    rw [← h1]
    refine ⟨rfl, hcr, Or.inr ⟨s', rfl, hlen, ?_, ?_, ?_, ?_, ?_⟩⟩
    · show st = acc s'
      rw [h2.2, R.acc_eq s' _ h2.1, hblen]
    · show acc s' + 0 ≤ cap
      rw [R.acc_eq s' _ h2.1, hblen]; omega
    · show c.buffer.take (acc s' + 0) = _
      rw [R.acc_eq s' _ h2.1, hblen]; rfl
    · show Inv s' (c.buffer.take (acc s'))
      rw [R.acc_eq s' _ h2.1, hblen]; exact h2.1
    · intro _; right; exact h1.symm
  | done d r =>
    have h1 := hstep.1; rw [hf] at h1; simp only [BRes.erase] at h1
    rw [← h1]
    have hlt := R.rest_lt _ d r h1.symm
    have := BufConsumer.saveRemainder_rel cap R hcap
      { c with written := 0, fr := none } r rfl rfl hlen hcr (by omega)
    exact ⟨rfl, this.1, this.2⟩
  | fail r =>
    have h1 := hstep.1; rw [hf] at h1; simp only [BRes.erase] at h1
    rw [← h1]
    have hlt := R.rest_lt' _ r h1.symm
    have := BufConsumer.saveRemainder_rel cap R hcap
      { c with written := 0, fr := none } r rfl rfl hlen hcr (by omega)
    exact ⟨rfl, this.1, this.2⟩

theorem BufConsumer.drain_ref (cap : Nat) (R : BRefines init feed acc spec Inv cap) (hcap : 0 < cap)
    (fuel : Nat) (c : BufConsumer σ) (h : Bytes) (hrel : BufConsumer.Rel acc spec Inv cap c h) :
    (BufConsumer.drain init 0 cap feed fuel c).2 = (refDrain spec fuel h).2 ∧
    BufConsumer.Rel acc spec Inv cap (BufConsumer.drain init 0 cap feed fuel c).1 (refDrain spec fuel h).1 := by
  induction fuel generalizing c h with
  | zero => exact ⟨rfl, hrel⟩
  | succ fuel ih =>
    unfold BufConsumer.drain refDrain
    rcases hrel with ⟨hcr, ⟨hfr, hw, hh, hbuf⟩ | ⟨s, hfr, hlen, hst, hfit, htake, hinv, hw0⟩⟩
    · -- idle
      subst hh
      have : BufConsumer.next init 0 cap feed c 0 = (c, none) := by
        unfold BufConsumer.next; simp [hfr]
      rw [this]
      simp only [List.isEmpty_nil, if_true]
      exact ⟨trivial, hcr, Or.inl ⟨hfr, hw, rfl, hbuf⟩⟩
    · by_cases hw : c.written = 0
      · -- nothing pending: StopIteration
        have hnext : BufConsumer.next init 0 cap feed c 0 = ({ c with written := 0 }, none) := by
          unfold BufConsumer.next; simp [hfr, hw]
        rw [hnext]
        have hrel' : BufConsumer.Rel acc spec Inv cap { c with written := 0 } h :=
          ⟨hcr, Or.inr ⟨s, hfr, hlen, hst, by simpa [hw] using hfit, by simpa [hw] using htake, hinv, fun _ => hw0 hw⟩⟩
        rcases hw0 hw with hnil | hneed
        · subst hnil
          simp only [List.isEmpty_nil, if_true]
          exact ⟨trivial, hrel'⟩
        · by_cases hb : h.isEmpty
          · have : h = [] := by simpa using hb
            subst this
            simp only [List.isEmpty_nil, if_true]
            exact ⟨trivial, hrel'⟩
          · simp only [hb, Bool.false_eq_true, if_false, hneed]
            exact ⟨trivial, hrel'⟩
      · have hpos : 0 < 0 + c.written := by omega
        have hna := BufConsumer.next_active cap R hcap c s 0 hfr hlen hcr (by omega) hpos hinv
        have htake' : c.buffer.take (acc s + (0 + c.written)) = h := by simpa using htake
        rw [htake'] at hna
        have hb : h.isEmpty = false := by
          have : h.length = acc s + c.written := by rw [← htake]; simp; omega
          cases h with
          | nil => simp at this; omega
          | cons x xs => rfl
        simp only [hb, Bool.false_eq_true, if_false]
        cases hs : spec h with
        | need =>
          rw [hs] at hna
          have e : BufConsumer.next init 0 cap feed c 0 = ((BufConsumer.next init 0 cap feed c 0).1, none) := by
            rw [← hna.1]
          rw [e]
          exact ⟨rfl, hna.2⟩
        | done d r =>
          rw [hs] at hna
          have e : BufConsumer.next init 0 cap feed c 0 = ((BufConsumer.next init 0 cap feed c 0).1, some (.frame d)) := by
            rw [← hna.1]
          rw [e]
          have := ih _ r hna.2.1
          exact ⟨by simp [this.1], this.2⟩
        | fail r =>
          rw [hs] at hna
          have e : BufConsumer.next init 0 cap feed c 0 = ((BufConsumer.next init 0 cap feed c 0).1, some .limit) := by
            rw [← hna.1]
          rw [e]
          have := ih _ r hna.2.1
          exact ⟨by simp [this.1], this.2⟩

theorem BufConsumer.fill_ref (cap : Nat) (R : BRefines init feed acc spec Inv cap) (hcap : 0 < cap)
    (c : BufConsumer σ) (h d : Bytes) (hrel : BufConsumer.Rel acc spec Inv cap c h)
    (hd : d ≠ []) (hfit : d.length ≤ (BufConsumer.prepare init 0 cap c).room) :
    (BufConsumer.fill init 0 cap feed c d).2 = (refRecv spec h d).2 ∧
    BufConsumer.Rel acc spec Inv cap (BufConsumer.fill init 0 cap feed c d).1 (refRecv spec h d).1 := by
  have hacc0 : acc init = 0 := by have := R.acc_eq init [] R.init; simpa using this
  have hdpos : 0 < d.length := List.length_pos_iff.mpr hd
  -- the state after `prepare` is always "framer suspended"
  have hprep : ∃ s, (BufConsumer.prepare init 0 cap c).fr = some s ∧
      (BufConsumer.prepare init 0 cap c).buffer.length = cap ∧
      (BufConsumer.prepare init 0 cap c).start = acc s ∧
      (BufConsumer.prepare init 0 cap c).written = c.written ∧
      (BufConsumer.prepare init 0 cap c).crashed = false ∧
      acc s + c.written ≤ cap ∧
      (BufConsumer.prepare init 0 cap c).buffer.take (acc s + c.written) = h ∧
      Inv s ((BufConsumer.prepare init 0 cap c).buffer.take (acc s)) := by
    rcases hrel with ⟨hcr, ⟨hfr, hw, hh, hbuf⟩ | ⟨s, hfr, hlen, hst, hfit', htake, hinv, _⟩⟩
    · refine ⟨init, ?_, ?_, ?_, ?_, ?_, ?_, ?_, ?_⟩
      · simp [BufConsumer.prepare, hfr]
      · simp only [BufConsumer.prepare, hfr]
        rcases hbuf with hb | hb
        · simp [hb]
        · have : c.buffer.isEmpty = false := by
            cases hc : c.buffer with
            | nil => rw [hc] at hb; simp at hb; omega
            | cons x xs => rfl
          simp [this, hb]
      · simp [BufConsumer.prepare, hfr, hacc0]
      · simp [BufConsumer.prepare, hfr]
      · simp [BufConsumer.prepare, hfr, hcr]
      · omega
      · simp [hacc0, hw, hh]
      · simp only [hacc0, List.take_zero]; exact R.init
    · have hne : c.buffer.isEmpty = false := by
        cases hc : c.buffer with
        | nil => rw [hc] at hlen; simp at hlen; omega
        | cons x xs => rfl
      refine ⟨s, ?_, ?_, ?_, ?_, ?_, hfit', ?_, ?_⟩ <;> simp [BufConsumer.prepare, hfr, hne, hlen, hst, hcr, htake, hinv]
  obtain ⟨s, pfr, plen, pst, pw, pcr, pfit, ptake, pinv⟩ := hprep
  have hroom : (BufConsumer.prepare init 0 cap c).room = cap - (acc s + c.written) := by
    simp [BufConsumer.room, plen, pst, pw]
  rw [hroom] at hfit
  have hroom0 : ¬ ((BufConsumer.prepare init 0 cap c).room = 0) := by rw [hroom]; omega
  unfold BufConsumer.fill
  simp only [hroom0, if_false]
  -- the consumer after the transport wrote `d`
  let c2 : BufConsumer σ := { BufConsumer.prepare init 0 cap c with
    buffer := writeAt (BufConsumer.prepare init 0 cap c).buffer
      ((BufConsumer.prepare init 0 cap c).start + (BufConsumer.prepare init 0 cap c).written) d }
  have hpos2 : (BufConsumer.prepare init 0 cap c).start + (BufConsumer.prepare init 0 cap c).written = acc s + c.written := by
    rw [pst, pw]
  have c2len : c2.buffer.length = cap := by
    show (writeAt _ _ d).length = cap
    rw [hpos2, writeAt_length _ _ _ (by omega)]; exact plen
  have c2take : c2.buffer.take (acc s + (d.length + c2.written)) = h ++ d := by
    show (writeAt _ _ d).take (acc s + (d.length + (BufConsumer.prepare init 0 cap c).written)) = h ++ d
    rw [hpos2, pw]
    have : acc s + (d.length + c.written) = (acc s + c.written) + d.length := by omega
    rw [this, writeAt_take_end _ _ _ (by omega), ptake]
  have c2inv : Inv s (c2.buffer.take (acc s)) := by
    show Inv s ((writeAt _ _ d).take (acc s))
    rw [hpos2, writeAt_take_before _ _ _ _ (by omega) (by omega)]
    exact pinv
  have hna := BufConsumer.next_active cap R hcap c2 s d.length pfr c2len pcr
    (by show acc s + (d.length + (BufConsumer.prepare init 0 cap c).written) ≤ cap; rw [pw]; omega)
    (by omega) c2inv
  rw [c2take] at hna
  have hne : (h ++ d).isEmpty = false := by
    cases d with
    | nil => exact absurd rfl hd
    | cons x xs => simp
  unfold refRecv
  simp only [hne, Bool.false_eq_true, if_false]
  show (match BufConsumer.next init 0 cap feed c2 d.length with
    | (c', some it) =>
      ((BufConsumer.drain init 0 cap feed (c'.written + 1) c').1, it :: (BufConsumer.drain init 0 cap feed (c'.written + 1) c').2)
    | (c', none) => (c', [])).2 = _ ∧ BufConsumer.Rel acc spec Inv cap (match BufConsumer.next init 0 cap feed c2 d.length with
    | (c', some it) =>
      ((BufConsumer.drain init 0 cap feed (c'.written + 1) c').1, it :: (BufConsumer.drain init 0 cap feed (c'.written + 1) c').2)
    | (c', none) => (c', [])).1 _
  cases hs : spec (h ++ d) with
  | need =>
    rw [hs] at hna
    have e : BufConsumer.next init 0 cap feed c2 d.length = ((BufConsumer.next init 0 cap feed c2 d.length).1, none) := by
      rw [← hna.1]
    rw [e]
    exact ⟨rfl, hna.2⟩
  | done dd r =>
    rw [hs] at hna
    have e : BufConsumer.next init 0 cap feed c2 d.length = ((BufConsumer.next init 0 cap feed c2 d.length).1, some (.frame dd)) := by
      rw [← hna.1]
    rw [e]
    simp only
    rw [hna.2.2]
    have := BufConsumer.drain_ref cap R hcap (r.length + 1) _ r hna.2.1
    exact ⟨by simp [this.1], this.2⟩
  | fail r =>
    rw [hs] at hna
    have e : BufConsumer.next init 0 cap feed c2 d.length = ((BufConsumer.next init 0 cap feed c2 d.length).1, some .limit) := by
      rw [← hna.1]
    rw [e]
    simp only
    rw [hna.2.2]
    have := BufConsumer.drain_ref cap R hcap (r.length + 1) _ r hna.2.1
    exact ⟨by simp [this.1], this.2⟩

/-- **Buffered consumer = reference**, for every history of fitting, non-empty fills. -/
theorem BufConsumer.runFills_ref (cap : Nat) (R : BRefines init feed acc spec Inv cap) (hcap : 0 < cap)
    (ds : List Bytes) (c : BufConsumer σ) (h : Bytes) (hrel : BufConsumer.Rel acc spec Inv cap c h)
    (r : BufConsumer σ × List Item) (hrun : BufConsumer.runFills init 0 cap feed c ds = some r) :
    r.2 = (refRun spec h ds).2 ∧ BufConsumer.Rel acc spec Inv cap r.1 (refRun spec h ds).1 := by
  induction ds generalizing c h r with
  | nil =>
    simp only [BufConsumer.runFills, Option.some.injEq] at hrun
    subst hrun
    exact ⟨rfl, hrel⟩
  | cons d ds ih =>
    unfold BufConsumer.runFills at hrun
    by_cases hbad : d.isEmpty ∨ d.length > (BufConsumer.prepare init 0 cap c).room
    · rw [if_pos hbad] at hrun; cases hrun
    · rw [if_neg hbad] at hrun
      have hd : d ≠ [] := by
        intro e; apply hbad; left; simp [e]
      have hfit : d.length ≤ (BufConsumer.prepare init 0 cap c).room := by
        apply Nat.le_of_not_gt; intro e; apply hbad; right; exact e
      have hf := BufConsumer.fill_ref (feed := feed) cap R hcap c h d hrel hd hfit
      cases hrest : BufConsumer.runFills init 0 cap feed (BufConsumer.fill init 0 cap feed c d).1 ds with
      | none => rw [hrest] at hrun; cases hrun
      | some r' =>
        rw [hrest] at hrun
        simp only [Option.some.injEq] at hrun
        subst hrun
        have := ih _ _ hf.2 r' hrest
        simp only [refRun]
        exact ⟨by rw [hf.1, this.1], this.2⟩

end EasyNet
