/-
  The copying consumer (StreamDataConsumer) over any framer that refines a byte-level spec behaves
  exactly like the reference `refRun spec`: same delivered items, same retained bytes, for every chunk list.
-/
import EasyNet.Model.Spec
namespace EasyNet

/-- "framer `(init, feed)` refines `spec`": `Inv s b` = "`s` is the suspended state after being fed `b` in total" -/
structure Refines {σ : Type} (init : σ) (feed : σ → Bytes → Res σ) (spec : Bytes → SRes)
    (Inv : σ → Bytes → Prop) : Prop where
  init : Inv init []
  step : ∀ s b c, Inv s b → (feed s c).erase = spec (b ++ c) ∧ ∀ s', feed s c = .need s' → Inv s' (b ++ c)

/-- consumer state `c` retains exactly the bytes `h` -/
def Consumer.Rel {σ} (spec : Bytes → SRes) (Inv : σ → Bytes → Prop) (c : Consumer σ) (h : Bytes) : Prop :=
  (c.fr = none ∧ c.buffer = h) ∨ (∃ s, c.fr = some s ∧ c.buffer = [] ∧ Inv s h ∧ spec h = .need)

variable {σ : Type} {init : σ} {feed : σ → Bytes → Res σ} {spec : Bytes → SRes} {Inv : σ → Bytes → Prop}

theorem Consumer.drain_ref (R : Refines init feed spec Inv) (fuel : Nat) (b : Bytes) :
    (Consumer.drain init feed fuel ⟨b, none⟩).2 = (refDrain spec fuel b).2 ∧
    Consumer.Rel spec Inv (Consumer.drain init feed fuel ⟨b, none⟩).1 (refDrain spec fuel b).1 := by
  induction fuel generalizing b with
  | zero => simp [Consumer.drain, refDrain, Consumer.Rel]
  | succ fuel ih =>
    unfold Consumer.drain refDrain Consumer.next
    by_cases hb : b.isEmpty
    · have : b = [] := by simpa using hb
      subst this
      simp [Consumer.Rel]
    · have hstep := R.step init [] b R.init
      simp only [List.nil_append] at hstep
      simp only [hb, List.isEmpty_nil, Bool.false_eq_true, and_false, if_false, if_true]
      cases hf : feed init b with
      | need s =>
        have h1 := hstep.1; rw [hf] at h1; simp only [Res.erase] at h1
        rw [← h1]
        refine ⟨rfl, ?_⟩
        right
        exact ⟨s, rfl, rfl, hstep.2 s hf, h1.symm⟩
      | done d r =>
        have h1 := hstep.1; rw [hf] at h1; simp only [Res.erase] at h1
        rw [← h1]
        have := ih r
        exact ⟨by simp [this.1], this.2⟩
      | fail r =>
        have h1 := hstep.1; rw [hf] at h1; simp only [Res.erase] at h1
        rw [← h1]
        have := ih r
        exact ⟨by simp [this.1], this.2⟩

theorem Consumer.recvChunk_ref (R : Refines init feed spec Inv) (c : Consumer σ) (h chunk : Bytes)
    (hrel : Consumer.Rel spec Inv c h) :
    (Consumer.recvChunk init feed c chunk).2 = (refRecv spec h chunk).2 ∧
    Consumer.Rel spec Inv (Consumer.recvChunk init feed c chunk).1 (refRecv spec h chunk).1 := by
  unfold Consumer.recvChunk refRecv Consumer.next
  rcases hrel with ⟨hfr, hbuf⟩ | ⟨s, hfr, hbuf, hinv, hneed⟩
  · -- no suspended framer: the retained bytes are in `buffer`
    subst hbuf
    by_cases he : (c.buffer ++ chunk).isEmpty
    · have he' : chunk.isEmpty = true ∧ c.buffer.isEmpty = true := by
        simp at he; simp [he.1, he.2]
      simp only [he', he, and_self, if_true]
      refine ⟨trivial, ?_⟩
      left; exact ⟨hfr, by simpa using he'.2⟩
    · have he' : ¬ (chunk.isEmpty = true ∧ c.buffer.isEmpty = true) := by
        intro hh; apply he; simp at hh; simp [hh.1, hh.2]
      have hrecv : (if chunk.isEmpty = true then c.buffer else c.buffer ++ chunk) = c.buffer ++ chunk := by
        by_cases hc : chunk.isEmpty
        · have : chunk = [] := by simpa using hc
          simp [this]
        · simp [hc]
      have hstep := R.step init [] (c.buffer ++ chunk) R.init
      simp only [List.nil_append] at hstep
      simp only [he', he, if_false, hfr, hrecv, Bool.false_eq_true]
      cases hf : feed init (c.buffer ++ chunk) with
      | need s =>
        have h1 := hstep.1; rw [hf] at h1; simp only [Res.erase] at h1
        rw [← h1]
        refine ⟨rfl, ?_⟩
        right; exact ⟨s, rfl, rfl, hstep.2 s hf, h1.symm⟩
      | done d r =>
        have h1 := hstep.1; rw [hf] at h1; simp only [Res.erase] at h1
        rw [← h1]
        have := Consumer.drain_ref R (r.length + 1) r
        exact ⟨by simp [this.1], this.2⟩
      | fail r =>
        have h1 := hstep.1; rw [hf] at h1; simp only [Res.erase] at h1
        rw [← h1]
        have := Consumer.drain_ref R (r.length + 1) r
        exact ⟨by simp [this.1], this.2⟩
  · -- a framer is suspended on the bytes `h`
    by_cases hc : chunk.isEmpty
    · have hc' : chunk = [] := by simpa using hc
      subst hc'
      simp only [hbuf, List.isEmpty_nil, and_self, if_true, List.append_nil]
      by_cases hh : h.isEmpty
      · simp only [hh, if_true]
        have : h = [] := by simpa using hh
        subst this
        exact ⟨trivial, Or.inr ⟨s, hfr, hbuf, hinv, hneed⟩⟩
      · simp only [hh, Bool.false_eq_true, if_false, hneed]
        exact ⟨trivial, Or.inr ⟨s, hfr, hbuf, hinv, hneed⟩⟩
    · have he : (h ++ chunk).isEmpty = false := by
        cases chunk with
        | nil => simp at hc
        | cons x xs => simp
      have hstep := R.step s h chunk hinv
      simp only [hc, hbuf, Bool.false_eq_true, false_and, if_false, he, hfr, List.nil_append]
      cases hf : feed s chunk with
      | need s' =>
        have h1 := hstep.1; rw [hf] at h1; simp only [Res.erase] at h1
        rw [← h1]
        refine ⟨rfl, ?_⟩
        right; exact ⟨s', rfl, rfl, hstep.2 s' hf, h1.symm⟩
      | done d r =>
        have h1 := hstep.1; rw [hf] at h1; simp only [Res.erase] at h1
        rw [← h1]
        have := Consumer.drain_ref R (r.length + 1) r
        exact ⟨by simp [this.1], this.2⟩
      | fail r =>
        have h1 := hstep.1; rw [hf] at h1; simp only [Res.erase] at h1
        rw [← h1]
        have := Consumer.drain_ref R (r.length + 1) r
        exact ⟨by simp [this.1], this.2⟩

theorem Consumer.run_ref (R : Refines init feed spec Inv) (chunks : List Bytes) (c : Consumer σ) (h : Bytes)
    (hrel : Consumer.Rel spec Inv c h) :
    (Consumer.run init feed c chunks).2 = (refRun spec h chunks).2 ∧
    Consumer.Rel spec Inv (Consumer.run init feed c chunks).1 (refRun spec h chunks).1 := by
  induction chunks generalizing c h with
  | nil => exact ⟨rfl, hrel⟩
  | cons ch chs ih =>
    have h1 := Consumer.recvChunk_ref R c h ch hrel
    have h2 := ih _ _ h1.2
    simp only [Consumer.run, refRun]
    exact ⟨by rw [h1.1, h2.1], h2.2⟩

end EasyNet
