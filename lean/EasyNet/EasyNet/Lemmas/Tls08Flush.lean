/-
  C08: flush before waiting for input.  Whenever a step leaves its task waiting for ciphertext (parked on the receive lock
  or inside `transport.recv_into`), then either the task came from its own completed flush (`wrSend`), or it was already
  queued for the receive lock, or the outgoing BIO is empty at the end of that step.
-/
import EasyNet.Lemmas.Tls08Core
namespace EasyNet.C08
open EasyNet

def waitsInput : PC → Bool
  | .rdLock _ => true
  | .rdInto _ => true
  | _ => false

section
variable {σ : Type} {E : Engine σ}

theorem finish_pc (s : St σ) (t : Tid) (m : Meth) (r : Result) : (finish s t m r).pc t = .idle := by
  unfold finish; split <;> simp [St.setPc, upd]

theorem rdPart_wbio (s : St σ) (t : Tid) (m : Meth) (h : s.wbio = []) : (rdPart s t m).wbio = [] :=
  rdPart_P (P := fun c => c.wbio = []) s t m h

theorem afterWrLock_flush (s : St σ) (t : Tid) (m : Meth) (h : waitsInput ((afterWrLock s t m).pc t) = true) :
    (afterWrLock s t m).wbio = [] := by
  unfold afterWrLock at h ⊢
  split
  · rename_i hw; rw [if_pos hw] at h; simp [St.setPc, upd, waitsInput] at h
  · rename_i hw
    exact rdPart_wbio _ t m (by simpa [St.release, St.log, St.setLock] using hw)

theorem rdPart_sendLock (s : St σ) (t : Tid) (m : Meth) : (rdPart s t m).sendLock = s.sendLock := by
  unfold rdPart St.acquire; split <;> split <;> rfl

/-- the WANT_READ branch leaves its task waiting for input only with an empty outgoing BIO — or, when it skipped the send
    lock because another task is already queued for it, with that task still queued (it flushes everything when granted) -/
theorem wrPart_flush (s : St σ) (t : Tid) (m : Meth) (h : waitsInput ((wrPart s t m).pc t) = true) :
    (wrPart s t m).wbio = [] ∨ (wrPart s t m).sendLock.waiters ≠ [] := by
  unfold wrPart at h ⊢
  split
  · rename_i hc; rw [if_pos hc] at h
    split
    · rename_i hg; rw [if_pos hg] at h; exact .inl (afterWrLock_flush _ t m h)
    · rename_i hg; rw [if_neg hg] at h; simp [St.setPc, upd, waitsInput] at h
  · rename_i hc
    -- the send lock is not taken at all: nothing pending, or somebody is already queued
    by_cases hw : s.wbio = []
    · exact .inl (rdPart_wbio s t m hw)
    · right
      rw [rdPart_sendLock]
      intro hq
      apply hc
      unfold St.wantsSendLock
      cases hp : s.wrPolicy <;> simp [hw, hq]

theorem afterWwLock_pc (s : St σ) (t : Tid) (m : Meth) : waitsInput ((afterWwLock s t m).pc t) = false := by
  simp [afterWwLock, St.setPc, upd, waitsInput]

theorem wwPart_pc (s : St σ) (t : Tid) (m : Meth) : waitsInput ((wwPart s t m).pc t) = false := by
  unfold wwPart; split
  · exact afterWwLock_pc _ t m
  · simp [St.setPc, upd, waitsInput]

theorem afterOkLock_pc (s : St σ) (t : Tid) (m : Meth) : waitsInput ((afterOkLock s t m).pc t) = false := by
  unfold afterOkLock; split
  · simp [St.setPc, upd, waitsInput]
  · rw [finish_pc]; rfl

theorem okPart_pc (s : St σ) (t : Tid) (m : Meth) : waitsInput ((okPart s t m).pc t) = false := by
  unfold okPart; split
  · exact afterOkLock_pc _ t m
  · simp [St.setPc, upd, waitsInput]

theorem failSsl_pc (s : St σ) (t : Tid) (m : Meth) (o : SslOut) : waitsInput ((failSsl s t m o).pc t) = false := by
  unfold failSsl; rw [finish_pc]; rfl

theorem failOs_pc (s : St σ) (t : Tid) (m : Meth) (b : Bool) : waitsInput ((failOs s t m b).pc t) = false := by
  unfold failOs; split <;> (rw [finish_pc]; rfl)

theorem attempt_flush (s : St σ) (t : Tid) (m : Meth) (h : waitsInput ((attempt E s t m).pc t) = true) :
    (attempt E s t m).wbio = [] ∨ (attempt E s t m).sendLock.waiters ≠ [] := by
  unfold attempt at h ⊢
  split
  · rename_i r hr; rw [hr] at h; simp only at h
    split at h
    · rw [finish_pc] at h; cases h
    · rw [okPart_pc] at h; cases h
  · rename_i hr; rw [hr] at h; exact wrPart_flush _ t m h
  · rename_i hr; rw [hr] at h; simp only at h; rw [wwPart_pc] at h; cases h
  · rename_i o h1 h2 hr; rw [hr] at h; simp only at h
    rw [failSsl_pc] at h; cases h
  · rename_i hr; rw [hr] at h; simp only at h; rw [finish_pc] at h; cases h

theorem apiCall_flush (s : St σ) (t : Tid) (a : Api) (h : waitsInput ((apiCall E s t a).pc t) = true) :
    (apiCall E s t a).wbio = [] ∨ (apiCall E s t a).sendLock.waiters ≠ [] := by
  cases a <;> exact attempt_flush _ t _ h

/-- **flush before wait** for one step of task `t` -/
theorem resume_flush (s s' : St σ) (t : Tid) (io : IoRes) (hs : resume E s t io = some s')
    (h : waitsInput (s'.pc t) = true) :
    (∃ m, s.pc t = .wrSend m) ∨ (∃ m, s.pc t = .rdLock m) ∨ s'.wbio = [] ∨ s'.sendLock.waiters ≠ [] := by
  unfold resume at hs
  split at hs
  · cases hs
  · simp only [Option.map_eq_some_iff] at hs
    obtain ⟨s1, _, rfl⟩ := hs
    exact .inr (.inr (.inl (afterWrLock_flush _ t _ h)))
  · rename_i m hpc; exact .inl ⟨m, hpc⟩
  · cases hs; rw [failOs_pc] at h; cases h
  · rename_i m hpc; exact .inr (.inl ⟨m, hpc⟩)
  · split at hs
    · cases hs; exact .inr (.inr (attempt_flush _ t _ h))
    · split at hs
      · cases hs; rw [finish_pc] at h; cases h
      · cases hs; exact .inr (.inr (attempt_flush _ t _ h))
  · cases hs; rw [failOs_pc] at h; cases h
  · simp only [Option.map_eq_some_iff] at hs
    obtain ⟨s1, _, rfl⟩ := hs
    rw [afterWwLock_pc] at h; cases h
  · cases hs; exact .inr (.inr (attempt_flush _ t _ h))
  · cases hs; rw [failOs_pc] at h; cases h
  · simp only [Option.map_eq_some_iff] at hs
    obtain ⟨s1, _, rfl⟩ := hs
    rw [afterOkLock_pc] at h; cases h
  · cases hs; rw [finish_pc] at h; cases h
  · cases hs; rw [failOs_pc] at h; cases h
  · cases hs

end
end EasyNet.C08
