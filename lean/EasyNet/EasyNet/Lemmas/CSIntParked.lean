/-
  C13 — interruption: the callbacks that run while the task is suspended keep the invariant.
-/
import EasyNet.Lemmas.CSIntInv
set_option linter.unusedSimpArgs false
set_option linter.unusedVariables false
namespace EasyNet.CS

/-! ### the queue under the primitives -/

@[simp] theorem Q_callSoon (k : K) (h : Handle) : (k.callSoon h).Q = k.Q ++ [h] := by simp [K.Q, K.callSoon]
@[simp] theorem Q_updFut (k : K) (f : Nat) (g : Fut → Fut) : (k.updFut f g).Q = k.Q := rfl
@[simp] theorem Q_updScope (k : K) (s : Nat) (g : Scope → Scope) : (k.updScope s g).Q = k.Q := rfl
@[simp] theorem Q_emit (k : K) (e : Ev) : (k.emit e).Q = k.Q := rfl
@[simp] theorem Q_callAt (k : K) (w : Nat) (p : Int) (h : Handle) : (k.callAt w p h).Q = k.Q := rfl
@[simp] theorem Q_push (k : K) (f : Frame) : (k.push f).Q = k.Q := rfl
@[simp] theorem Q_pop (k : K) : k.pop.Q = k.Q := rfl
@[simp] theorem Q_newFut (k : K) : k.newFut.Q = k.Q := rfl
@[simp] theorem Q_taskUncancel (k : K) : k.taskUncancel.Q = k.Q := rfl
@[simp] theorem Q_cancelHandle (k : K) (h : Handle) : (k.cancelHandle h).Q = k.Q.filter (· != h) := by
  simp [K.Q, K.cancelHandle]

@[simp] theorem futCb_callSoon (k : K) (h : Handle) (f : Nat) : (k.callSoon h).futCb f = k.futCb f := rfl
@[simp] theorem futState_callSoon (k : K) (h : Handle) (f : Nat) : (k.callSoon h).futState f = k.futState f := rfl
@[simp] theorem futCb_updScope (k : K) (s : Nat) (g : Scope → Scope) (f : Nat) : (k.updScope s g).futCb f = k.futCb f := rfl
@[simp] theorem futState_updScope (k : K) (s : Nat) (g : Scope → Scope) (f : Nat) :
    (k.updScope s g).futState f = k.futState f := rfl

theorem inflight_congr {k k' : K} (hm : k.mustCancel = true → k'.mustCancel = true) (hw : k'.waiter = k.waiter)
    (hfs : ∀ f m, k.futState f = .cancelled m → k'.futState f = .cancelled m) (h : inflight k) : inflight k' := by
  rcases h with h | ⟨f, m, h1, h2⟩
  · exact Or.inl (hm h)
  · exact Or.inr ⟨f, m, by rw [hw]; exact h1, hfs f m h2⟩

/-! ### Future.__schedule_callbacks -/

theorem scheduleCb_Core (k : K) (f : Nat) {ms : List Handle} (h : Core ms k) : Core ms (k.scheduleCb f) := by
  unfold K.scheduleCb
  split
  · exact h
  · rename_i hcb
    refine h.mono (by simpa using h.sfF) (by simp) (fun x hx => ?_) (fun s hs => by simp [hs])
      (fun p hp => Or.inl (by simpa using hp)) (by simp)
      (fun s => by simp) (fun s hs => Or.inl (by simpa using hs)) (by simp) (fun f' o => ?_)
    · simp only [Q_callSoon, Q_updFut, List.mem_append, List.mem_singleton] at hx
      rcases hx with hx | hx
      · exact Or.inl hx
      · subst hx; exact Or.inr ⟨rfl, by intro s hs; cases hs⟩
    · simp only [futCb_callSoon]
      by_cases hff : f' = f
      · subst hff
        rw [futCb_updFut_self_cb]
        split <;> simp
      · rw [futCb_updFut_ne _ _ _ _ hff]; exact h.cbs f' o
  · rename_i o hcb
    exact absurd hcb (h.cbs f o)

theorem scheduleCb_Wake (k : K) (f : Nat) {ms : List Handle} (h : Core ms k) (hp : Wake k) : Wake (k.scheduleCb f) := by
  unfold K.scheduleCb
  split
  · exact hp
  · rename_i hcb
    have hw : k.waiter = some f := hp.c f hcb
    have hfv : f < k.futs.length := futCb_valid k f (by rw [hcb]; simp)
    -- no waking callback is queued yet
    have hnw : wakes k.Q = [] := by
      rw [wakes_nil_iff]
      intro x hx
      cases x with
      | step => have := hp.wb2 hx; rw [hw] at this; cases this
      | wakeup f' =>
        have h1 := hp.wb1 f' hx
        rw [hw] at h1
        injection h1 with h1
        subst h1
        exact absurd hcb (hp.wc _ hx)
      | _ => rfl
    have hcb' : ∀ f', ((k.updFut f (fun x => { x with cb := .none })).callSoon (.wakeup f)).futCb f' =
        if f' = f then .none else k.futCb f' := by
      intro f'
      simp only [futCb_callSoon]
      by_cases hff : f' = f
      · subst hff; rw [futCb_updFut_self_cb]; simp [hfv]
      · rw [futCb_updFut_ne _ _ _ _ hff]; simp [hff]
    refine ⟨fun f' hf' => ?_, fun hs => ?_, fun f' hf' => ?_, ?_, fun f' hf' => ?_⟩
    · simp only [Q_callSoon, Q_updFut, List.mem_append, List.mem_singleton] at hf'
      rcases hf' with hf' | hf'
      · exact hp.wb1 f' hf'
      · injection hf' with hf'; subst hf'; exact hw
    · simp only [Q_callSoon, Q_updFut, List.mem_append, List.mem_singleton] at hs
      rcases hs with hs | hs
      · exact hp.wb2 hs
      · cases hs
    · rw [hcb']
      split
      · simp
      · simp only [Q_callSoon, Q_updFut, List.mem_append, List.mem_singleton] at hf'
        rcases hf' with hf' | hf'
        · exact hp.wc f' hf'
        · injection hf' with hf'; rename_i hne; exact absurd hf' hne
    · rw [Q_callSoon, Q_updFut, wakes_append, hnw]
      simp only [wakes, List.nil_append]
      exact Nat.le_trans (List.length_filter_le _ _) (by simp)
    · rw [hcb'] at hf'
      split at hf'
      · cases hf'
      · exact hp.c f' hf'
  · rename_i o hcb
    exact absurd hcb (h.cbs f o)

theorem scheduleCb_Gd (k : K) (f : Nat) {ms : List Handle} (h : Core ms k) (hg : Gd k) : Gd (k.scheduleCb f) := by
  unfold K.scheduleCb
  split
  · exact hg
  · exact hg.mono (fun hs => by simpa using safe_append _ _ hs)
      (fun f' m hm => by simpa [futState_updFut_cb] using hm) (by simp) (by simp) (by simp)
  · rename_i o hcb
    exact absurd hcb (h.cbs f o)

theorem scheduleCb_Parked (k : K) (f : Nat) {ms : List Handle} (h : Core ms k) (hp : Parked k) : Parked (k.scheduleCb f) :=
  ⟨scheduleCb_Wake k f h hp.w, scheduleCb_Gd k f h hp.g⟩

theorem scheduleCb_futState (k : K) (f f' : Nat) : (k.scheduleCb f).futState f' = k.futState f' := by
  unfold K.scheduleCb
  split <;> simp [futState_updFut_cb]

/-! ### Future.set_result / Task.cancel -/

theorem Core.updFut_state {ms : List Handle} {k : K} (h : Core ms k) (f : Nat) (st : FState) :
    Core ms (k.updFut f (fun x => { x with state := st })) :=
  h.mono (by simpa using h.sfF) (by simp) (fun x hx => Or.inl (by simpa using hx)) (fun s hs => by simpa using hs)
    (fun p hp => Or.inl (by simpa using hp)) (by simp) (fun s => by simp) (fun s hs => Or.inl (by simpa using hs)) (by simp)
    (fun f' o => by rw [futCb_updFut_state]; exact h.cbs f' o)

theorem Parked.updFut_state {k : K} (h : Parked k) (f : Nat) (st : FState) (hp : k.futState f = .pending) :
    Parked (k.updFut f (fun x => { x with state := st })) :=
  h.mono (by simp) (by simp) (fun f' => futCb_updFut_state _ _ _ _) (fun f' m hm => by
    have hne : f' ≠ f := by intro he; subst he; rw [hp] at hm; cases hm
    rw [futState_updFut_ne _ _ _ _ hne]; exact hm) (by simp) (by simp) (by simp)

theorem Wake.updFut_state {k : K} (h : Wake k) (f : Nat) (st : FState) :
    Wake (k.updFut f (fun x => { x with state := st })) :=
  h.mono (by simp) (fun f' => futCb_updFut_state _ _ _ _) (by simp)

theorem futSetResult_Core (k : K) (f : Nat) {ms : List Handle} (h : Core ms k) : Core ms (k.futSetResult f) := by
  unfold K.futSetResult
  split
  · exact scheduleCb_Core _ _ (h.updFut_state f _)
  · exact h

theorem futSetResult_Parked (k : K) (f : Nat) {ms : List Handle} (h : Core ms k) (hp : Parked k) : Parked (k.futSetResult f) := by
  unfold K.futSetResult
  split
  · rename_i hpend
    exact scheduleCb_Parked _ _ (h.updFut_state f _) (hp.updFut_state f _ hpend)
  · exact hp

theorem Core.setNum {ms : List Handle} {k : K} (h : Core ms k) (n : Nat) : Core ms { k with numCancels := n } :=
  h.mono h.sfF rfl (fun x hx => Or.inl hx) (fun s hs => hs) (fun p hp => Or.inl hp) rfl (fun s => rfl)
    (fun s hs => Or.inl hs) rfl h.cbs

theorem Parked.setNum {k : K} (h : Parked k) (n : Nat) : Parked { k with numCancels := n } :=
  h.mono rfl id (fun f => rfl) (fun f m hm => hm) rfl id rfl

theorem Wake.setNum {k : K} (h : Wake k) (n : Nat) : Wake { k with numCancels := n } :=
  h.mono rfl (fun f => rfl) rfl

theorem Wake.setMust {k : K} (h : Wake k) (n : Nat) (m : Msg) :
    Wake { k with numCancels := n, mustCancel := true, cancelMsg := m } :=
  h.mono rfl (fun f => rfl) rfl

theorem Core.setMust {ms : List Handle} {k : K} (h : Core ms k) (n : Nat) (m : Msg) :
    Core ms { k with numCancels := n, mustCancel := true, cancelMsg := m } :=
  h.mono h.sfF rfl (fun x hx => Or.inl hx) (fun s hs => hs) (fun p hp => Or.inl hp) rfl (fun s => rfl)
    (fun s hs => Or.inl hs) rfl h.cbs

theorem Parked.setMust {k : K} (h : Parked k) (n : Nat) (m : Msg) :
    Parked { k with numCancels := n, mustCancel := true, cancelMsg := m } :=
  h.mono rfl id (fun f => rfl) (fun f m hm => hm) rfl (fun _ => rfl) rfl

theorem taskCancel_Core (k : K) (m : Msg) {ms : List Handle} (h : Core ms k) : Core ms (k.taskCancel m) := by
  unfold K.taskCancel
  split
  · exact h
  · split
    · split
      · unfold K.futCancel
        split
        · exact scheduleCb_Core _ _ ((h.setNum _).updFut_state _ _)
        · exact h.setNum _
      · exact h.setMust _ _
    · exact h.setMust _ _

/-- `Task.cancel()` on a live, suspended task: afterwards a cancellation is in flight -/
theorem taskCancel_Wake (k : K) (m : Msg) {ms : List Handle} (h : Core ms k) (hp : Wake k) (hnd : k.done = none) :
    Wake (k.taskCancel m) ∧ inflight (k.taskCancel m) := by
  unfold K.taskCancel
  split
  · rename_i hd; rw [hnd] at hd; simp at hd
  split
  · rename_i f hw
    split
    · rename_i hpend
      have hpend' : K.futState { k with numCancels := k.numCancels + 1 } f = .pending := hpend
      unfold K.futCancel
      simp only [hpend']
      have hfv := futState_pending_valid k f hpend
      refine ⟨scheduleCb_Wake _ _ ((h.setNum _).updFut_state _ _) ((hp.setNum _).updFut_state _ _), ?_⟩
      refine Or.inr ⟨f, m, by simpa using hw, ?_⟩
      rw [scheduleCb_futState]
      exact futState_updFut_self_state _ f _ hfv
    · exact ⟨hp.setMust _ _, Or.inl rfl⟩
  · exact ⟨hp.setMust _ _, Or.inl rfl⟩

theorem taskCancel_Parked (k : K) (m : Msg) {ms : List Handle} (h : Core ms k) (hp : Wake k) (hnd : k.done = none) :
    Parked (k.taskCancel m) ∧ inflight (k.taskCancel m) :=
  ⟨⟨(taskCancel_Wake k m h hp hnd).1, Gd.of_inflight (taskCancel_Wake k m h hp hnd).2⟩, (taskCancel_Wake k m h hp hnd).2⟩

/-- `Task.cancel()` on a live task, in any state: a cancellation is in flight afterwards -/
theorem taskCancel_inflight (k : K) (m : Msg) (hnd : k.done = none) : inflight (k.taskCancel m) := by
  unfold K.taskCancel
  split
  · rename_i hd; rw [hnd] at hd; simp at hd
  split
  · rename_i f hw
    split
    · rename_i hp
      have hp' : K.futState { k with numCancels := k.numCancels + 1 } f = .pending := hp
      refine Or.inr ⟨f, m, by simpa [K.futCancel, hp'] using hw, ?_⟩
      unfold K.futCancel
      simp only [hp']
      rw [scheduleCb_futState]
      exact futState_updFut_self_state _ f _ (futState_pending_valid k f hp)
    · exact Or.inl rfl
  · exact Or.inl rfl

theorem taskCancel_stack_scopes (k : K) (m : Msg) (s : Nat) : scopeOf (k.taskCancel m).scopes s = scopeOf k.scopes s := by simp

/-! ### scope bookkeeping that cannot disturb the invariant -/

theorem Core.updScope_harmless {ms : List Handle} {k : K} (h : Core ms k) (s : Nat) (g : Scope → Scope)
    (ha : ∀ x, (g x).active = x.active) (hc : ∀ x, (g x).cancelCalled = x.cancelCalled) : Core ms (k.updScope s g) :=
  h.mono (by simpa using h.sfF) (by simp) (fun x hx => Or.inl (by simpa using hx)) (fun s' hs => by simpa using hs)
    (fun p hp => Or.inl (by simpa using hp)) (by simp) (fun s' => by simp [scopeOf_updAt_active _ _ _ _ ha])
    (fun s' hs => Or.inl (by simpa [scopeOf_updAt_cancelCalled _ _ _ _ hc] using hs)) (by simp)
    (fun f o => by simpa using h.cbs f o)

theorem Parked.updScope {k : K} (h : Parked k) (s : Nat) (g : Scope → Scope) : Parked (k.updScope s g) :=
  h.mono (by simp) (by simp) (fun f => by simp) (fun f m hm => by simpa using hm) (by simp) (by simp) (by simp)

theorem Core.callSoon_deliver {ms : List Handle} {k : K} (h : Core ms k) (s : Nat) (hs : s ∈ scopeIds k.frames) :
    Core ms (k.callSoon (.deliver s)) :=
  h.mono (by simpa using h.sfF) (by simp) (fun x hx => by
      simp only [Q_callSoon, List.mem_append, List.mem_singleton] at hx
      rcases hx with hx | hx
      · exact Or.inl hx
      · subst hx; exact Or.inr ⟨rfl, fun s' hs' => by injection hs' with hs'; subst hs'; exact hs⟩)
    (fun s' hs' => by simp [hs']) (fun p hp => Or.inl (by simpa using hp)) (by simp) (fun s' => by simp)
    (fun s' hs' => Or.inl (by simpa using hs')) (by simp) (fun f o => by simpa using h.cbs f o)

/-- the re-delivery callback of `s` is back in the queue: nothing is missing any more -/
theorem Core.callSoon_deliver_back {k : K} {s : Nat} (h : Core [.deliver s] k) (hs : s ∈ scopeIds k.frames) :
    Core [] (k.callSoon (.deliver s)) := by
  have h1 := h.callSoon_deliver s hs
  refine ⟨h1.sfF, h1.sfQ, h1.sfT, h1.nodelay, h1.sorted, h1.st, h1.act, h1.hq, fun s' hs' hc => ?_, h1.nbad, h1.cbs⟩
  rcases h1.ha s' hs' hc with h2 | h2
  · exact Or.inl h2
  · simp only [List.mem_singleton] at h2
    injection h2 with h2
    subst h2
    exact Or.inl (by simp)

theorem Wake.updScope {k : K} (h : Wake k) (s : Nat) (g : Scope → Scope) : Wake (k.updScope s g) :=
  h.mono (by simp) (fun f => by simp) (by simp)

theorem Wake.callSoon_deliver {k : K} (h : Wake k) (s : Nat) : Wake (k.callSoon (.deliver s)) :=
  h.mono (by simp [wakes_append, wakes, Handle.isWake]) (fun f => by simp) (by simp)

theorem Parked.callSoon_deliver {k : K} (h : Parked k) (s : Nat) : Parked (k.callSoon (.deliver s)) :=
  h.mono (by simp [wakes_append, wakes, Handle.isWake]) (fun hs => by simpa using safe_append _ _ hs) (fun f => by simp)
    (fun f m hm => by simpa using hm) (by simp) (by simp) (by simp)

theorem Core.cancelHandle_other {ms : List Handle} {k : K} (h : Core ms k) (x : Handle) (hx : x.isDeliver = false) :
    Core ms (k.cancelHandle x) :=
  h.mono (by simpa using h.sfF) (by simp) (fun y hy => Or.inl (by
      simp only [Q_cancelHandle, List.mem_filter] at hy; exact hy.1))
    (fun s hs => by
      simp only [Q_cancelHandle, List.mem_filter]
      refine ⟨hs, ?_⟩
      cases x <;> simp_all [Handle.isDeliver])
    (fun p hp => Or.inl (by simp only [K.cancelHandle, List.mem_filter] at hp; exact hp.1)) (by simp) (fun s => by simp)
    (fun s hs => Or.inl (by simpa using hs)) (by simp) (fun f o => by simpa [K.futCb] using h.cbs f o)

theorem Parked.cancelHandle_other {k : K} (h : Parked k) (x : Handle) (hw : x.isWake = false) (hd : x.isDeliver = false) :
    Parked (k.cancelHandle x) :=
  h.mono
    (by
      rw [Q_cancelHandle]
      exact wakes_filter _ _ (fun y hy => by cases y <;> cases x <;> simp_all [Handle.isWake]))
    (fun hs => by
      rw [Q_cancelHandle, safe_filter _ _ (fun y hy => by
        rcases hy with hy | hy <;> cases y <;> cases x <;> simp_all [Handle.isWake, Handle.isDeliver])]
      exact hs)
    (fun f => rfl) (fun f m hm => hm) (by simp) (by simp) (by simp)

/-! ### `__deliver_cancellation` run by the loop (the task is not the current task) -/

theorem deliver_nodelay (k : K) (s : Nat) (cur : Bool) (hd : k.delayed = none) :
    k.deliver s cur =
      if !(k.scope s).active then k
      else if !k.mustCancel && !cur then
        (((k.taskCancel (some s)).updScope s (fun x => { x with calls := x.calls + 1 })).updScope s
          (fun x => { x with cancelH := true })).callSoon (.deliver s)
      else (k.updScope s (fun x => { x with cancelH := true })).callSoon (.deliver s) := by
  unfold K.deliver
  simp [hd]

/-- the loop runs `deliver s` (taken off the queue): the scope is on the stack, so it is active and the
    cancellation is (re-)issued; afterwards a cancellation is in flight -/
theorem deliverH_inv (k : K) (s : Nat) (h : Core [.deliver s] k) (hs : s ∈ scopeIds k.frames)
    (hp : k.done = none → Wake k) :
    Core [] (k.deliver s false) ∧ (k.done = none → Parked (k.deliver s false) ∧ inflight (k.deliver s false)) := by
  have hact : (k.scope s).active = true := by rw [scope_eq]; exact h.st s hs
  rw [deliver_nodelay _ _ _ h.nodelay]
  simp only [hact, Bool.not_true, Bool.false_eq_true, if_false, Bool.not_false, Bool.and_true]
  split
  · -- task.cancel(msg)
    have hc1 := taskCancel_Core k (some s) h
    have hfr : (k.taskCancel (some s)).frames = k.frames := by simp
    have hc2 := ((hc1.updScope_harmless s (fun x => { x with calls := x.calls + 1 }) (by intro x; rfl) (by intro x; rfl)
      ).updScope_harmless s (fun x => { x with cancelH := true }) (by intro x; rfl) (by intro x; rfl))
    refine ⟨hc2.callSoon_deliver_back (by simpa using hs), fun hnd => ?_⟩
    have hp1 := taskCancel_Parked k (some s) h (hp hnd) hnd
    refine ⟨(((hp1.1.updScope s _).updScope s _).callSoon_deliver s), ?_⟩
    exact inflight_congr (k := k.taskCancel (some s)) (by simp) (by simp) (fun f m hm => by simpa using hm) hp1.2
  · rename_i hmc
    have hmc' : k.mustCancel = true := by simpa using hmc
    have hc2 := h.updScope_harmless s (fun x => { x with cancelH := true }) (by intro x; rfl) (by intro x; rfl)
    refine ⟨hc2.callSoon_deliver_back (by simpa using hs), fun hnd => ?_⟩
    have hin : inflight ((k.updScope s (fun x => { x with cancelH := true })).callSoon (.deliver s)) :=
      Or.inl (by simpa using hmc')
    exact ⟨⟨((hp hnd).updScope s _).callSoon_deliver s, Gd.of_inflight hin⟩, hin⟩

end EasyNet.CS
