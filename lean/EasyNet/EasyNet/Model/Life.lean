/-
  C18 — server lifecycle (easynetwork/servers/_base.py).  Core Lean only (linked into `endriver`).

  Two labelled transition systems; one atomic step = the code between two suspension / blocking points; the
  scheduler is ANY enabled step of ANY caller (over-approximation of every event loop / OS scheduler).
  Callers are an arbitrary family `Nat → Caller`, each with an arbitrary finite program (list of calls).

  ## `A` — `BaseAsyncNetworkServerImpl` (one event loop, callers = tasks)

    AG.isShutdown / gen      `self.__is_shutdown.is_set()` of the CURRENT event object / number of event swaps
                             (`self.__is_shutdown = is_shutdown = backend.create_event()` in serve_forever); a waiter
                             keeps the event object it read: `dWait g`
    runScope / runCancel     `self.__server_run_scope is not None` / `cancel()` called on that scope object
    facScope / facCancel     `self.__servers_factory_scope is not None` / cancelled by server_close
    factoryCb                `self.__servers_factory_cb is not None`            (False = closed)
    servers / lsOpen         `bool(self.__servers)` / the listener objects created by the factory are not closing
    closeLock / guard        `__server_close_lock` / `__server_close_guard` (ResourceGuard), with ghost owner
    tasks/attached/listed    the listener task started with `task_group.start(self.__serve, …)`: its state, whether it
                             ran `__attach_server`, whether `self.__server_tasks` contains it
    clients / clientsDying   client tasks that ran `_bind_server()` (TCP) / cancelled by the task group tear-down
    runner, closeDone        ghosts: who is inside serve_forever; a server_close() has returned normally

    serve_forever    call   : `if not is_shutdown.is_set(): raise ServerAlreadyRunning`; event swap; push
                              `is_shutdown.set`; open run scope; push reset_scope; server_activate(): closed check
                              (`servers_factory_cb is None` → ServerClosedError), `if self.__servers: return`, else open
                              factory scope, `await coro_yield()`                                         → sAct
                     sAct   : `await servers_factory(self)`                                               → sFac
                     sFac   : factory returned: `self.__servers[:] = listeners`; `with close_guard` (busy →
                              BusyResourceError); `await initialize_service(…)`                           → sInit
                     sInit  : task group; `await task_group.start(self.__serve, …)`                       → sStart
                     sStart : `self.__server_tasks[:] = […]`; guard released; is_up_event.set();
                              `await sleep_forever()`                                                     → sSleep
                     sSleep : woken by cancellation only: `finally: reset_scope()`; the exit stack unwinds: task
                              group `__aexit__` cancels the children and waits                            → sTg
                     sTg    : children done: `__server_tasks.clear()`; service exit stack                 → sQuit
                     sQuit  : reset_scope; run scope `__exit__`; `is_shutdown.set()` (LAST)              → idle
                     a cancellation (run scope / factory scope / external `task.cancel()`) is delivered at the
                     suspension point the task is parked on (asyncio throws CancelledError there).
    shutdown         `if run_scope is not None: run_scope.cancel()`; `await self.__is_shutdown.wait()`    → dWait g
    server_close     `async with close_lock` (cLock) ; `enter_context(close_guard)` (busy → BusyResourceError);
                     cancel factory scope; `servers_factory_cb = None`; cancel the listed server tasks and wait (cTasks);
                     `__close_all_servers` (cLs); `__servers.clear()`; guard and lock released.
    probe            `is_serving()`, `is_listening()`

  ## `S` — `BaseStandaloneNetworkServerImpl` (callers = OS threads; locks are mutexes with owner)

    SG.closeLock / bootLock  `__close_lock` / `__bootstrap_lock` (RLocks; never re-entered by these methods)
    isShutdown / isClosed    the two `threading.Event`s
    attr                     `self.__threads_portal` and `self.__server` are set (`async with … as self.__server, … as
                             self.__threads_portal`), reset by `reset_values`
    portalOpen               the ThreadsPortal accepts calls (`__loop is not None`); after `__aexit__` began it refuses
                             with RuntimeError and only drains the calls already accepted (`pendingPortal`)
    phase                    the embedded `await self.__server.serve_forever()`, abstracted from machine `A`:
                             setup (close guard held) → serving → stopping → stopped (its `is_shutdown` set)
    innerCancel              run scope of the embedded server cancelled (embedded shutdown, or its listener task died)
    lsOpen                   listeners of the embedded server open (created by `__aenter__` = server_activate under
                             the locks, closed by the embedded server_close or by `__aexit__`)
    fix                      configuration: True = server_close lets the embedded server's BusyResourceError through
                             (docs/C18-fix-1.patch); False = it is swallowed with every other RuntimeError (original code)

    serve_forever    tClose  `locks_stack.enter_context(close_lock)`; `if is_closed.is_set(): raise ServerClosedError`
                     tBoot   `enter_context(bootstrap_lock)`; `if not is_shutdown.is_set(): raise ServerAlreadyRunning`;
                             `is_shutdown.clear()`; backend.bootstrap: server factory + `__aenter__`, portal created,
                             `locks_stack.close()` (both locks released only now), embedded serve_forever starts
                     tLoop   the event loop runs the embedded serve_forever (phase)
                     tDrain  `ThreadsPortal.__aexit__`: loop = None, then waits for the accepted calls; then the server's
                             `__aexit__` (server_close), bootstrap returns
                     tReacq  `reacquire_bootstrap_lock_on_shutdown`; `reset_values`; `is_shutdown.set()`; lock released
    shutdown(t)      dBoot   `with bootstrap_lock`: portal.run_coroutine(server.shutdown) when attr (refused → suppressed)
                     dInner  waits for the embedded shutdown (holding the bootstrap lock); `move_on_after(timeout)`
                     dEvent  `self.__is_shutdown.wait(timeout)`
    server_close     cClose / cBoot / cInner   `with close_lock`, `with bootstrap_lock`, portal.run_coroutine(server_close);
                             then `is_closed.set()`
    is_serving       bBoot   `with bootstrap_lock`: portal.run_sync(server.is_serving) or False
-/
namespace EasyNet.Life

inductive Op where
  | serve | shutdown | close | probe
  | shutdownT            -- standalone only: `shutdown(timeout=…)`; on the asynchronous server it is `shutdown`
  deriving DecidableEq, Repr, BEq

inductive Res where
  | ok | closedErr | alreadyRunning | busy | cancelled
  | timedOut             -- standalone `shutdown(timeout)` gave up waiting (it returns None like a normal return)
  | flags (serving listening : Bool)
  deriving DecidableEq, Repr, BEq

inductive TaskSt where
  | none | starting | up | dying | done
  deriving DecidableEq, Repr, BEq

/-- `task.cancel()` on the listener task -/
def kill : TaskSt → TaskSt
  | .starting => .dying
  | .up => .dying
  | t => t

namespace A

inductive Pc where
  | idle
  | sAct | sFac | sInit | sStart | sSleep | sTg | sQuit
  | dWait (g : Nat) | dWoken (g : Nat)
  | cLock | cTasks (w : Bool) | cLs
  deriving DecidableEq, Repr, BEq

structure Caller where
  prog : List Op
  pc : Pc
  ext : Bool              -- an external `task.cancel()` of this caller's serve task is pending
  results : List Res      -- ghost: results of the calls that have returned, in order
  deriving DecidableEq, Repr, BEq

def Caller.init (prog : List Op) : Caller := ⟨prog, .idle, false, []⟩

structure G where
  isShutdown : Bool
  gen : Nat
  runScope : Bool
  runCancel : Bool
  facScope : Bool
  facCancel : Bool
  factoryCb : Bool
  servers : Bool
  lsOpen : Bool
  closeLock : Option Nat
  guard : Option Nat
  tasks : TaskSt
  attached : Bool
  listed : Bool
  clients : Nat
  clientsDying : Bool
  runner : Option Nat
  closeDone : Bool
  deriving DecidableEq, Repr, BEq

def G.init : G :=
  { isShutdown := true, gen := 0, runScope := false, runCancel := false, facScope := false, facCancel := false,
    factoryCb := true, servers := false, lsOpen := false, closeLock := none, guard := none, tasks := .none,
    attached := false, listed := false, clients := 0, clientsDying := false, runner := none, closeDone := false }

/-- `is_listening()` -/
def listening (g : G) : Bool := g.servers && g.lsOpen

/-- `is_serving()`: `bool(tasks) and all(not t.done() for t in tasks) and is_listening()` -/
def serving (g : G) : Bool := g.listed && (g.tasks != .done) && (g.tasks != .none) && listening g

structure State where
  g : G
  cs : Nat → Caller

def State.init (progs : Nat → List Op) : State := ⟨G.init, fun i => Caller.init (progs i)⟩

inductive Label where
  | call (i : Nat)              -- caller i issues its next call and runs up to the first suspension point
  | adv (i : Nat) (k : Nat)     -- caller i resumes (k selects among the outcomes the race of two cancellations allows)
  | cancel (i : Nat)            -- environment: `task.cancel()` on caller i's serve_forever task
  | taskRun | taskDie           -- the listener task runs its first step / finishes after cancellation
  | conn | disc                 -- a client task attaches (`_bind_server`) / detaches
  deriving DecidableEq, Repr, BEq

def Caller.finish (c : Caller) (r : Res) : Caller := { c with pc := .idle, ext := false, results := c.results ++ [r] }

/-- tail of serve_forever's exit stack: `reset_scope()`, run scope `__exit__`, `is_shutdown.set()` -/
def serveEnd (g : G) : G := { g with runScope := false, runCancel := false, isShutdown := true, runner := none }

/-- how a CancelledError leaves the run scope: swallowed iff the scope's own `cancel()` was called; an external
    `task.cancel()` propagates; when both happened either may win -/
def cancelOuts (g : G) (c : Caller) : List Res :=
  (if g.runCancel ∨ ¬ c.ext then [Res.ok] else []) ++ (if c.ext then [Res.cancelled] else [])

/-- leaving the factory scope with a CancelledError: caught by the factory scope (→ ServerClosedError) iff
    server_close cancelled it; another pending cancellation may win instead -/
def facOuts (g : G) (c : Caller) : List Res :=
  (if g.facCancel then [Res.closedErr] else []) ++ (if c.ext ∨ g.runCancel ∨ ¬ g.facCancel then cancelOuts g c else [])

/-- `__detach_server`: `if not self.__active_tasks and self.__server_run_scope is not None: run_scope.cancel()` -/
def detachCheck (g : G) : G :=
  if g.attached = false ∧ g.clients = 0 ∧ g.runScope = true then { g with runCancel := true } else g

/-- `with self.__server_close_guard:` in serve_forever, then `await initialize_service(…)` -/
def enterGuard (i : Nat) (g : G) (c : Caller) : G × Caller × Bool :=
  match g.guard with
  | some _ => (serveEnd g, c.finish .busy, true)
  | none => ({ g with guard := some i }, { c with pc := .sInit }, false)

/-- body of server_close once the lock is held -/
def closeBody (i : Nat) (g : G) (c : Caller) : G × Caller × Bool :=
  match g.guard with
  | some _ => ({ g with closeLock := none }, c.finish .busy, false)
  | none =>
    ({ g with guard := some i, facCancel := g.facCancel || g.facScope, factoryCb := false,
              tasks := if g.listed then kill g.tasks else g.tasks },
     { c with pc := .cTasks g.listed }, false)

/-- first segment of a call -/
def callStep (i : Nat) (g : G) (c : Caller) : Option (G × Caller × Bool) :=
  match c.pc, c.prog with
  | .idle, op :: rest =>
    let c := { c with prog := rest }
    match op with
    | .serve =>
      if g.isShutdown = false then some (g, c.finish .alreadyRunning, false) else
      let g := { g with isShutdown := false, gen := g.gen + 1, runScope := true, runCancel := false, runner := some i }
      if g.factoryCb = false then some (serveEnd g, c.finish .closedErr, true)
      else if g.servers then some (enterGuard i g c)
      else some ({ g with facScope := true, facCancel := false }, { c with pc := .sAct }, false)
    | .shutdown | .shutdownT =>
      let g1 := if g.runScope then { g with runCancel := true } else g
      if g.isShutdown then some (g1, c.finish .ok, false) else some (g1, { c with pc := .dWait g.gen }, false)
    | .close =>
      match g.closeLock with
      | some _ => some (g, { c with pc := .cLock }, false)
      | none => some (closeBody i { g with closeLock := some i } c)
    | .probe => some (g, c.finish (.flags (serving g) (listening g)), false)
  | _, _ => none

/-- a caller resumes at its suspension point -/
def advStep (i : Nat) (k : Nat) (g : G) (c : Caller) : Option (G × Caller × Bool) :=
  match c.pc with
  | .idle => none
  | .sAct =>
    if c.ext ∨ g.runCancel ∨ g.facCancel then
      (facOuts g c)[k]?.map fun r => (serveEnd { g with facScope := false, facCancel := false }, c.finish r, true)
    else some (g, { c with pc := .sFac }, false)
  | .sFac =>
    -- server_close cancelled the factory scope: ServerClosedError whether or not the CancelledError was caught
    -- (listeners created meanwhile are closed again before `self.__servers` is assigned; docs/C18-fix-2.patch).
    -- Another cancellation is delivered here, or — when it lands in the cancel-shielded part of the factory
    -- (`backend.gather` → `ignore_cancellation(task_group.start(…))`) — at the next suspension point: k = |outcomes|.
    if g.facCancel ∨ ((c.ext ∨ g.runCancel) ∧ k < (facOuts g c).length) then
      (facOuts g c)[k]?.map fun r => (serveEnd { g with facScope := false, facCancel := false }, c.finish r, true)
    else if (c.ext ∨ g.runCancel) ∧ k ≠ (facOuts g c).length then none
    else some (enterGuard i { g with lsOpen := true, servers := true, facScope := false, facCancel := false } c)
  | .sInit =>
    if c.ext ∨ g.runCancel then
      (cancelOuts g c)[k]?.map fun r => (serveEnd { g with guard := none }, c.finish r, true)
    else some ({ g with tasks := .starting, attached := false }, { c with pc := .sStart }, false)
  | .sStart =>
    if c.ext ∨ g.runCancel then
      some ({ g with guard := none, tasks := kill g.tasks, clientsDying := true }, { c with pc := .sTg }, false)
    else if g.tasks = .up then some ({ g with listed := true, guard := none }, { c with pc := .sSleep }, false)
    else none
  | .sSleep =>
    if c.ext ∨ g.runCancel then
      some ({ g with runScope := false, tasks := kill g.tasks, clientsDying := true }, { c with pc := .sTg }, false)
    else none
  | .sTg =>
    if (g.tasks = .none ∨ g.tasks = .done) ∧ g.clients = 0 then
      some ({ g with listed := false, tasks := .none, attached := false, clientsDying := false }, { c with pc := .sQuit }, false)
    else none
  | .sQuit => (cancelOuts g c)[k]?.map fun r => (serveEnd g, c.finish r, true)
  | .dWait _ => none
  | .dWoken _ => some (g, c.finish .ok, false)
  | .cLock =>
    match g.closeLock with
    | some _ => none
    | none => some (closeBody i { g with closeLock := some i } c)
  | .cTasks w =>
    if w = true ∧ ¬ (g.tasks = .none ∨ g.tasks = .done) then none
    else some ({ g with lsOpen := false }, { c with pc := .cLs }, false)
  | .cLs => some ({ g with servers := false, guard := none, closeLock := none, closeDone := true }, c.finish .ok, false)

def Pc.inServe : Pc → Bool
  | .sAct | .sFac | .sInit | .sStart | .sSleep | .sTg | .sQuit => true
  | _ => false

/-- `is_shutdown.set()` wakes every task parked in `is_shutdown.wait()` -/
def wake (c : Caller) : Caller :=
  match c.pc with
  | .dWait g => { c with pc := .dWoken g }
  | _ => c

def upd (cs : Nat → Caller) (w : Bool) (i : Nat) (c : Caller) : Nat → Caller :=
  fun j => if j = i then c else if w then wake (cs j) else cs j

def step (s : State) : Label → Option State
  | .call i => (callStep i s.g (s.cs i)).map fun (g, c, w) => ⟨g, upd s.cs w i c⟩
  | .adv i k => (advStep i k s.g (s.cs i)).map fun (g, c, w) => ⟨g, upd s.cs w i c⟩
  | .cancel i =>
    if (s.cs i).pc.inServe then some ⟨s.g, upd s.cs false i { s.cs i with ext := true }⟩ else none
  | .taskRun =>
    if s.g.tasks = .starting then some ⟨{ s.g with tasks := .up, attached := true }, s.cs⟩ else none
  | .taskDie =>
    if s.g.tasks = .dying then
      some ⟨if s.g.attached then detachCheck { s.g with tasks := .done, attached := false } else { s.g with tasks := .done, attached := false }, s.cs⟩
    else none
  | .conn =>
    if s.g.tasks = .up ∧ s.g.lsOpen ∧ s.g.servers ∧ s.g.clientsDying = false then
      some ⟨{ s.g with clients := s.g.clients + 1 }, s.cs⟩
    else none
  | .disc =>
    if 0 < s.g.clients then some ⟨detachCheck { s.g with clients := s.g.clients - 1 }, s.cs⟩ else none

def run : State → List Label → Option State
  | s, [] => some s
  | s, l :: ls => match step s l with
    | some s' => run s' ls
    | none => none

/-- reachable from the initial state of some family of programs -/
def Reachable (s : State) : Prop := ∃ progs ls, run (State.init progs) ls = some s

end A

namespace S

inductive Phase where
  | none | setup | serving | stopping | stopped
  deriving DecidableEq, Repr, BEq

inductive Pc where
  | idle
  | tClose | tBoot | tLoop | tDrain | tReacq
  | dBoot (t : Bool) | dInner (t : Bool) | dEvent (t : Bool) (g : Nat) | dWoken (g : Nat)
  | cClose | cBoot | cInner
  | bBoot
  deriving DecidableEq, Repr, BEq

structure Caller where
  prog : List Op
  pc : Pc
  results : List Res
  deriving DecidableEq, Repr, BEq

def Caller.init (prog : List Op) : Caller := ⟨prog, .idle, []⟩
def Caller.finish (c : Caller) (r : Res) : Caller := { c with pc := .idle, results := c.results ++ [r] }

structure G where
  fix : Bool
  closeLock : Option Nat
  bootLock : Option Nat
  isShutdown : Bool
  isClosed : Bool
  attr : Bool
  portalOpen : Bool
  phase : Phase
  innerCancel : Bool
  lsOpen : Bool
  pendingPortal : Nat
  gen : Nat
  runner : Option Nat
  closeDone : Bool
  deriving DecidableEq, Repr, BEq

def G.init (fix : Bool) : G :=
  { fix := fix, closeLock := none, bootLock := none, isShutdown := true, isClosed := false, attr := false,
    portalOpen := false, phase := .none, innerCancel := false, lsOpen := false, pendingPortal := 0, gen := 0,
    runner := none, closeDone := false }

structure State where
  g : G
  cs : Nat → Caller

def State.init (fix : Bool) (progs : Nat → List Op) : State := ⟨G.init fix, fun i => Caller.init (progs i)⟩

inductive Label where
  | call (i : Nat)
  | adv (i : Nat) (k : Nat)      -- k = 1: the timeout of `shutdown(timeout)` fires
  deriving DecidableEq, Repr, BEq

/-- `self.__is_shutdown.wait(timeout)` once the bootstrap lock has been released -/
def waitEvent (g : G) (c : Caller) (t : Bool) : G × Caller × Bool :=
  if g.isShutdown then (g, c.finish .ok, false) else (g, { c with pc := .dEvent t g.gen }, false)

def callStep (_i : Nat) (g : G) (c : Caller) : Option (G × Caller × Bool) :=
  match c.pc, c.prog with
  | .idle, op :: rest =>
    let c := { c with prog := rest }
    match op with
    | .serve => some (g, { c with pc := .tClose }, false)
    | .shutdown => some (g, { c with pc := .dBoot false }, false)
    | .shutdownT => some (g, { c with pc := .dBoot true }, false)
    | .close => some (g, { c with pc := .cClose }, false)
    | .probe => some (g, { c with pc := .bBoot }, false)
  | _, _ => none

def advStep (i : Nat) (k : Nat) (g : G) (c : Caller) : Option (G × Caller × Bool) :=
  match c.pc with
  | .idle => none
  | .tClose =>
    match g.closeLock with
    | some _ => none
    | none =>
      if g.isClosed then some (g, c.finish .closedErr, false)
      else some ({ g with closeLock := some i }, { c with pc := .tBoot }, false)
  | .tBoot =>
    match g.bootLock with
    | some _ => none
    | none =>
      if g.isShutdown = false then some ({ g with closeLock := none }, c.finish .alreadyRunning, false)
      else some ({ g with closeLock := none, isShutdown := false, gen := g.gen + 1, runner := some i, attr := true,
                          portalOpen := true, phase := .setup, innerCancel := false, lsOpen := true },
                 { c with pc := .tLoop }, false)
  | .tLoop =>
    match g.phase with
    | .setup => some ({ g with phase := if g.innerCancel then .stopping else .serving }, c, false)
    | .serving => if g.innerCancel then some ({ g with phase := .stopping }, c, false) else none
    | .stopping => some ({ g with phase := .stopped }, c, false)
    | .stopped => some ({ g with portalOpen := false }, { c with pc := .tDrain }, false)
    | .none => none
  | .tDrain =>
    if g.pendingPortal = 0 then some ({ g with lsOpen := false, phase := .none }, { c with pc := .tReacq }, false) else none
  | .tReacq =>
    match g.bootLock with
    | some _ => none
    | none => some ({ g with attr := false, isShutdown := true, runner := none, innerCancel := false }, c.finish .ok, true)
  | .dBoot t =>
    match g.bootLock with
    | some _ => none
    | none =>
      if g.attr ∧ g.portalOpen then
        some ({ g with bootLock := some i, pendingPortal := g.pendingPortal + 1,
                       innerCancel := if g.phase = .setup ∨ g.phase = .serving then true else g.innerCancel },
              { c with pc := .dInner t }, false)
      else some (waitEvent g c t)
  | .dInner t =>
    if g.phase = .stopped ∨ g.phase = .none ∨ (t = true ∧ k = 1) then
      some (waitEvent { g with bootLock := none, pendingPortal := g.pendingPortal - 1 } c t)
    else none
  | .dEvent t _ => if t = true ∧ k = 1 then some (g, c.finish .timedOut, false) else none
  | .dWoken _ => some (g, c.finish .ok, false)
  | .cClose =>
    match g.closeLock with
    | some _ => none
    | none => some ({ g with closeLock := some i }, { c with pc := .cBoot }, false)
  | .cBoot =>
    match g.bootLock with
    | some _ => none
    | none =>
      if g.attr ∧ g.portalOpen then
        some ({ g with bootLock := some i, pendingPortal := g.pendingPortal + 1 }, { c with pc := .cInner }, false)
      else some ({ g with isClosed := true, closeLock := none, closeDone := true }, c.finish .ok, false)
  | .cInner =>
    let g := { g with bootLock := none, pendingPortal := g.pendingPortal - 1 }
    if g.phase = .setup then
      -- the close guard of the embedded serve_forever is held: BusyResourceError (a RuntimeError)
      if g.fix then some ({ g with closeLock := none }, c.finish .busy, false)
      else some ({ g with isClosed := true, closeLock := none, closeDone := true }, c.finish .ok, false)
    else
      some ({ g with lsOpen := false, innerCancel := if g.phase = .serving then true else g.innerCancel,
                     isClosed := true, closeLock := none, closeDone := true }, c.finish .ok, false)
  | .bBoot =>
    match g.bootLock with
    | some _ => none
    | none => some (g, c.finish (.flags (g.attr && g.portalOpen && decide (g.phase = .serving) && g.lsOpen) false), false)

def Pc.inRun : Pc → Bool
  | .tLoop | .tDrain | .tReacq => true
  | _ => false

/-- `threading.Event.set()` wakes every thread parked in `wait()` -/
def wake (c : Caller) : Caller :=
  match c.pc with
  | .dEvent _ g => { c with pc := .dWoken g }
  | _ => c

def upd (cs : Nat → Caller) (w : Bool) (i : Nat) (c : Caller) : Nat → Caller :=
  fun j => if j = i then c else if w then wake (cs j) else cs j

def step (s : State) : Label → Option State
  | .call i => (callStep i s.g (s.cs i)).map fun (g, c, w) => ⟨g, upd s.cs w i c⟩
  | .adv i k => (advStep i k s.g (s.cs i)).map fun (g, c, w) => ⟨g, upd s.cs w i c⟩

def run : State → List Label → Option State
  | s, [] => some s
  | s, l :: ls => match step s l with
    | some s' => run s' ls
    | none => none

def Reachable (s : State) : Prop := ∃ fix progs ls, run (State.init fix progs) ls = some s

end S

end EasyNet.Life
